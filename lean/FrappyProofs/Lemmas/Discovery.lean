import FrappyModel.Spec.C19
import FrappyModel.Small.DiscoveryTables
/-
Helper lemmas for C19: sizes of the UTF-8 / JSON encodings, the description loop `fit`,
the length of a message, and the round trip through the Spec's readers.
-/
namespace Frappy.Discovery
open Frappy.Spec.C19

/-! ## sizes -/

theorem utf8_append (a b : Str) : utf8 (a ++ b) = utf8 a ++ utf8 b := by
  simp [utf8]

theorem utf8_cons (c : Char) (s : Str) : utf8 (c :: s) = utf8Char c ++ utf8 s := by
  simp [utf8]

@[simp] theorem utf8_nil : utf8 [] = [] := rfl

/-- bytes of the UTF-8 encoding of one character -/
theorem utf8Char_length (c : Char) :
    (utf8Char c).length = if c.toNat < 0x80 then 1 else if c.toNat < 0x800 then 2 else if c.toNat < 0x10000 then 3 else 4 := by
  unfold utf8Char; split
  · rfl
  · split
    · rfl
    · split <;> rfl

theorem hexDigit_ascii : ∀ k, k < 16 → (hexDigit k).toNat < 0x80 := by decide

theorem utf8Char_hexDigit_length (k : Nat) (h : k < 16) : (utf8Char (hexDigit k)).length = 1 := by
  rw [utf8Char_length, if_pos (hexDigit_ascii k h)]

/-- the model's `len(json.dumps(char).encode()) - 2` is the Spec's `charSize` -/
theorem escLen_eq_charSize (c : Char) : escLen c = charSize c := by
  unfold escLen escapeChar charSize
  by_cases h1 : c = '"'
  · subst h1; decide
  by_cases h2 : c = '\\'
  · subst h2; decide
  by_cases h3 : c = '\n'
  · subst h3; decide
  by_cases h4 : c = '\r'
  · subst h4; decide
  by_cases h5 : c = '\t'
  · subst h5; decide
  by_cases h6 : c = Char.ofNat 8
  · subst h6; decide
  by_cases h7 : c = Char.ofNat 12
  · subst h7; decide
  simp only [h1, h2, h3, h4, h5, h6, h7, if_false, or_self]
  by_cases h8 : c.toNat < 0x20
  · simp only [h8, if_true]
    have ha : c.toNat / 16 < 16 := by omega
    have hb : c.toNat % 16 < 16 := by omega
    simp only [utf8_cons, utf8_nil, List.length_append, utf8Char_hexDigit_length _ ha, utf8Char_hexDigit_length _ hb]
    have e1 : (utf8Char '\\').length = 1 := by decide
    have e2 : (utf8Char 'u').length = 1 := by decide
    have e3 : (utf8Char '0').length = 1 := by decide
    simp only [e1, e2, e3, List.length_nil]
  · simp only [h8, if_false, utf8_cons, utf8_nil, List.append_nil, utf8Char_length]

theorem utf8_escape_length : ∀ s : Str, (utf8 (escape s)).length = strSize s
  | [] => rfl
  | c :: s => by
    have := escLen_eq_charSize c
    unfold escLen at this
    simp only [escape, List.flatMap_cons, utf8_append, List.length_append, strSize]
    rw [this]; congr 1; exact utf8_escape_length s

theorem utf8_jsonStr_length (s : Str) : (utf8 (jsonStr s)).length = strSize s + 2 := by
  have : (utf8Char '"').length = 1 := by decide
  simp only [jsonStr, utf8_cons, utf8_append, List.length_append, utf8_escape_length, utf8_nil, List.length_nil, this]
  omega

theorem strSize_append : ∀ a b : Str, strSize (a ++ b) = strSize a + strSize b
  | [], b => by simp [strSize]
  | c :: a, b => by simp [strSize, strSize_append a b]; omega

/-! ## decimal numbers -/

theorem decimalFuel_length_le : ∀ (k f n : Nat), n < 10 ^ (k + 1) → (decimalFuel f n).length ≤ k + 1
  | _, 0, _, _ => by simp [decimalFuel]
  | 0, f + 1, n, h => by
    have : n < 10 := by simpa using h
    simp [decimalFuel, this]
  | k + 1, f + 1, n, h => by
    unfold decimalFuel; split
    · simp
    · have : n / 10 < 10 ^ (k + 1) := by
        rw [Nat.pow_succ] at h; omega
      have := decimalFuel_length_le k f (n / 10) this
      simp; omega

theorem digit_ascii (n : Nat) (h : n < 10) : (Char.ofNat (48 + n)).toNat = 48 + n := by
  have : ∀ n, n < 10 → (Char.ofNat (48 + n)).toNat = 48 + n := by decide
  exact this n h

theorem utf8_decimalFuel_length : ∀ (f n : Nat), (utf8 (decimalFuel f n)).length = (decimalFuel f n).length
  | 0, _ => by simp [decimalFuel]
  | f + 1, n => by
    unfold decimalFuel; split
    · rename_i h
      simp only [utf8_cons, utf8_nil, List.append_nil, List.length_singleton, utf8Char_length, digit_ascii n h]
      rw [if_pos (by omega)]
    · have h : n % 10 < 10 := by omega
      simp only [utf8_append, utf8_cons, utf8_nil, List.length_append, utf8_decimalFuel_length f (n / 10),
        List.append_nil, List.length_singleton, utf8Char_length, digit_ascii _ h]
      rw [if_pos (by omega)]

/-- a port number of at most 65535 takes at most five bytes -/
theorem utf8_decimal_length_le (p : Nat) (h : p ≤ 65535) : (utf8 (decimal p)).length ≤ 5 := by
  unfold decimal
  rw [utf8_decimalFuel_length]
  exact decimalFuel_length_le 4 _ p (by omega)

/-! ## the description loop -/

theorem fit_prefix : ∀ (a : Nat) (s : Str), fit a s <+: s
  | _, [] => by simp [fit]
  | a, c :: s => by
    unfold fit; split
    · exact List.prefix_cons_inj c |>.2 (fit_prefix _ s)
    · exact List.nil_prefix

theorem strSize_fit_le : ∀ (a : Nat) (s : Str), strSize (fit a s) ≤ a
  | _, [] => by simp [fit, strSize]
  | a, c :: s => by
    unfold fit; split
    · rename_i h
      have := strSize_fit_le (a - escLen c) s
      simp only [escLen_eq_charSize] at *
      simp only [strSize]; omega
    · simp [strSize]

theorem fit_eq_self : ∀ (a : Nat) (s : Str), strSize s ≤ a → fit a s = s
  | _, [], _ => by simp [fit]
  | a, c :: s, h => by
    simp only [strSize] at h
    unfold fit
    rw [if_pos (by rw [escLen_eq_charSize]; omega), fit_eq_self _ s (by rw [escLen_eq_charSize]; omega)]

theorem fit_maximal : ∀ (a : Nat) (s : Str), fit a s = s ∨ a < strSize (s.take ((fit a s).length + 1))
  | _, [] => by simp [fit]
  | a, c :: s => by
    unfold fit; split
    · rename_i h
      rcases fit_maximal (a - escLen c) s with h' | h'
      · left; rw [h']
      · right
        simp only [escLen_eq_charSize] at *
        simp only [List.length_cons, List.take_succ_cons, strSize]; omega
    · rename_i h
      right
      rw [escLen_eq_charSize] at h
      simp only [List.length_nil, Nat.zero_add, List.take_succ_cons, List.take_zero, strSize]; omega

/-! ## length of a message built with the generated constants -/

theorem gen_maxLen : generatedTables.maxLen = 508 := by decide
theorem gen_budgetPort : generatedTables.budgetPort = 65535 := by decide
theorem gen_fw (version : Str) : generatedTables.fwPrefix ++ version = firmwareOf version := rfl

theorem utf8_decimal_budgetPort : (utf8 (decimal 65535)).length = 5 := by decide

theorem message_length (id fw d : Str) (p : Nat) :
    (message generatedTables id fw d p).length =
      73 + (utf8 (decimal p)).length + strSize id + strSize fw + strSize d := by
  have s0 : (utf8 generatedTables.seg0).length = 23 := by decide
  have s1 : (utf8 generatedTables.seg1).length = 16 := by decide
  have s2 : (utf8 generatedTables.seg2).length = 12 := by decide
  have s3 : (utf8 generatedTables.seg3).length = 15 := by decide
  have s4 : (utf8 generatedTables.seg4).length = 1 := by decide
  simp only [message, messageText, utf8_append, List.length_append, utf8_jsonStr_length, s0, s1, s2, s3, s4]
  omega

theorem baseLen_eq (id fw : Str) : baseLen generatedTables id fw = 78 + strSize id + strSize fw := by
  unfold baseLen
  rw [message_length, gen_budgetPort, utf8_decimal_budgetPort]
  simp [strSize]

end Frappy.Discovery
