import FrappyModel.Spec.C18
/- helper lemmas about the struct / float-enum / limits models -/
namespace Frappy.ExtParams
open Frappy.Spec.C18

/-! ## dictionaries -/

theorem lookup_set (d : Dict) (k : String) (v : Val) (k' : String) :
    (Dict.set d k v).lookup k' = if k' = k then some v else d.lookup k' := by
  induction d with
  | nil =>
    by_cases h : k' = k
    · subst h; simp [Dict.set]
    · have : (k' == k) = false := by simpa using h
      simp [Dict.set, List.lookup, this, h]
  | cons e t ih =>
    obtain ⟨k0, x⟩ := e
    simp only [Dict.set]
    by_cases h0 : k0 = k
    · subst h0
      simp only [if_true, List.lookup]
      by_cases h : k' = k0
      · simp [h]
      · have : (k' == k0) = false := by simpa using h
        simp [this, h]
    · simp only [h0, if_false, List.lookup]
      by_cases h : k' = k0
      · subst h
        simp [h0]
      · have : (k' == k0) = false := by simpa using h
        simp only [this]
        exact ih

theorem keys_set (d : Dict) (k : String) (v : Val) (h : k ∈ d.map Prod.fst) :
    (Dict.set d k v).map Prod.fst = d.map Prod.fst := by
  induction d with
  | nil => simp at h
  | cons e t ih =>
    obtain ⟨k0, x⟩ := e
    simp only [Dict.set]
    by_cases h0 : k0 = k
    · simp [h0]
    · simp only [h0, if_false, List.map_cons, List.cons.injEq, true_and]
      apply ih
      simp only [List.map_cons, List.mem_cons] at h
      rcases h with h | h
      · exact absurd h.symm h0
      · exact h

theorem lookup_isSome_of_mem_keys (d : Dict) (k : String) (h : k ∈ d.map Prod.fst) : ∃ x, d.lookup k = some x := by
  induction d with
  | nil => simp at h
  | cons e t ih =>
    obtain ⟨k0, x⟩ := e
    simp only [List.lookup]
    by_cases h0 : k = k0
    · simp [h0]
    · have : (k == k0) = false := by simpa using h0
      simp only [this]
      apply ih
      simp only [List.map_cons, List.mem_cons] at h
      rcases h with h | h
      · exact absurd h h0
      · exact h

theorem keys_merge (d r : Dict) (h : ∀ e ∈ r, e.1 ∈ d.map Prod.fst) :
    (Dict.merge d r).map Prod.fst = d.map Prod.fst := by
  unfold Dict.merge
  induction r generalizing d with
  | nil => rfl
  | cons e r ih =>
    simp only [List.foldl_cons]
    have hk := keys_set d e.1 e.2 (h e List.mem_cons_self)
    rw [ih (Dict.set d e.1 e.2) (by intro e' he'; rw [hk]; exact h e' (List.mem_cons_of_mem _ he'))]
    exact hk

theorem wf_iff (cfg : Cfg) (d : Dict) : wf cfg d = true ↔ d.map Prod.fst = cfg.members := by
  unfold wf; simp

/-! ## struct -/

@[simp] theorem emit_struct (s : St) (e : Ev) : (emit s e).struct = s.struct := rfl
@[simp] theorem emit_mem (s : St) (e : Ev) : (emit s e).mem = s.mem := rfl
@[simp] theorem failed_struct (s : St) : (failed s).struct = s.struct := rfl
@[simp] theorem failed_mem (s : St) : (failed s).mem = s.mem := rfl
@[simp] theorem fine_struct (s : St) : (fine s).struct = s.struct := rfl
@[simp] theorem fine_mem (s : St) : (fine s).mem = s.mem := rfl
@[simp] theorem failed_ok (s : St) : (failed s).ok = false := rfl
@[simp] theorem failedExc_struct (e : Option ExcKind) (s : St) : (failedExc e s).struct = s.struct := rfl
@[simp] theorem failedExc_mem (e : Option ExcKind) (s : St) : (failedExc e s).mem = s.mem := rfl
@[simp] theorem failedExc_ok (e : Option ExcKind) (s : St) : (failedExc e s).ok = false := rfl
@[simp] theorem fine_ok (s : St) : (fine s).ok = true := rfl
@[simp] theorem structError_struct (s : St) : (structError s).struct = s.struct := rfl
@[simp] theorem structError_mem (s : St) : (structError s).mem = s.mem := rfl
@[simp] theorem memberError_struct (m : String) (s : St) : (memberError m s).struct = s.struct := rfl
@[simp] theorem memberError_mem (m : String) (s : St) : (memberError m s).mem = s.mem := rfl
@[simp] theorem loopError_struct (b : Bool) (s : St) : (loopError b s).struct = s.struct := by
  unfold loopError; split <;> rfl
@[simp] theorem loopError_mem (b : Bool) (s : St) : (loopError b s).mem = s.mem := by
  unfold loopError; split <;> rfl

/-- storing the value a key already has changes nothing -/
theorem set_same (d : Dict) (k : String) (v : Val) (h : d.lookup k = some v) : d.set k v = d := by
  induction d with
  | nil => simp [List.lookup] at h
  | cons e t ih =>
    obtain ⟨k0, x⟩ := e
    simp only [Dict.set]
    by_cases h0 : k0 = k
    · subst h0
      simp [List.lookup] at h
      simp [h]
    · have hb : (k == k0) = false := by simpa using (fun e => h0 e.symm)
      simp only [List.lookup, hb] at h
      simp only [h0, if_false]
      rw [ih h]

theorem omittedS_same (cfg : Cfg) (same pend : Bool) (h : omittedS cfg same pend = true) : same = true := by
  unfold omittedS at h
  simp only [Bool.and_eq_true] at h
  exact h.1.2

@[simp] theorem announceMemberIn_struct (cfg : Cfg) (m : String) (x : Val) (s : St) :
    (announceMemberIn cfg m x s).struct = s.struct := by
  unfold announceMemberIn; split <;> rfl

/-- omitted or not: afterwards the member parameter holds `x` -/
@[simp] theorem announceMemberIn_mem (cfg : Cfg) (m : String) (x : Val) (s : St) :
    (announceMemberIn cfg m x s).mem = s.mem.set m x := by
  unfold announceMemberIn
  split
  · rename_i ho
    have := omittedS_same _ _ _ ho
    exact (set_same _ _ _ (by simpa using this)).symm
  · rfl

@[simp] theorem setMembers_struct (cfg : Cfg) (ms : List String) (d : Dict) : ∀ s, (setMembers cfg ms d s).struct = s.struct := by
  induction ms with
  | nil => intro s; rfl
  | cons m ms ih =>
    intro s
    simp only [setMembers]
    split
    · rfl
    · rw [ih]; simp

theorem setMembers_lookup (cfg : Cfg) (ms : List String) (d : Dict) (hd : ∀ m ∈ ms, ∃ x, d.lookup m = some x) :
    ∀ s k, (setMembers cfg ms d s).mem.lookup k = if k ∈ ms then d.lookup k else s.mem.lookup k := by
  induction ms with
  | nil => intro s k; simp [setMembers]
  | cons m ms ih =>
    intro s k
    obtain ⟨x, hx⟩ := hd m List.mem_cons_self
    simp only [setMembers, hx]
    rw [ih (fun m' hm' => hd m' (List.mem_cons_of_mem _ hm'))]
    by_cases hk : k ∈ ms
    · simp [hk]
    · simp only [hk, if_false, announceMemberIn_mem, lookup_set, List.mem_cons, or_false]
      by_cases hkm : k = m
      · simp [hkm, hx]
      · simp [hkm]

/-- the invariant: the struct value is well-formed and agrees with the member parameters -/
def Inv (cfg : Cfg) (s : St) : Prop :=
  wf cfg s.struct = true ∧ MembersAgree cfg.members s.struct s.mem

theorem inv_congr (cfg : Cfg) {s t : St} (h1 : t.struct = s.struct) (h2 : t.mem = s.mem) (h : Inv cfg s) : Inv cfg t := by
  unfold Inv; rw [h1, h2]; exact h

/-- an update of the struct: the callback brings all members along; when the update is omitted (the struct already has
this value) the members must agree with it already -/
theorem inv_announceStruct (cfg : Cfg) (d : Dict) (s : St) (hd : wf cfg d = true)
    (h : s.struct = d → MembersAgree cfg.members d s.mem) : Inv cfg (announceStruct cfg d s) := by
  unfold announceStruct
  split
  · rename_i ho
    have hs : s.struct = d := by simpa using omittedS_same _ _ _ ho
    exact ⟨by rw [hs]; exact hd, by rw [hs]; exact h hs⟩
  · have hkeys := (wf_iff cfg d).1 hd
    have hsome : ∀ m ∈ cfg.members, ∃ x, d.lookup m = some x := fun m hm =>
      lookup_isSome_of_mem_keys d m (by rw [hkeys]; exact hm)
    refine ⟨by simpa using hd, fun m hm => ?_⟩
    obtain ⟨x, hx⟩ := hsome m hm
    refine ⟨x, by simpa using hx, ?_⟩
    simp only [emit_mem]
    rw [setMembers_lookup cfg cfg.members d hsome]
    simp [hm, hx]

theorem inv_assignStruct (cfg : Cfg) (d : Dict) (s : St) (hd : wf cfg d = true)
    (h : s.struct = d → MembersAgree cfg.members d s.mem) : Inv cfg (assignStruct cfg d s) := by
  unfold assignStruct; rw [if_pos hd]; exact inv_announceStruct cfg d s hd h

theorem wf_set (cfg : Cfg) (d : Dict) (m : String) (x : Val) (hd : wf cfg d = true) (hm : m ∈ cfg.members) :
    wf cfg (d.set m x) = true := by
  rw [wf_iff] at *
  rw [keys_set d m x (by rw [hd]; exact hm)]; exact hd

theorem agree_set (cfg : Cfg) (s : St) (m : String) (x : Val) (h : Inv cfg s) :
    MembersAgree cfg.members (s.struct.set m x) (s.mem.set m x) := by
  intro k hk
  rw [lookup_set, lookup_set]
  by_cases hkm : k = m
  · exact ⟨x, by simp [hkm], by simp [hkm]⟩
  · simp only [hkm, if_false]; exact h.2 k hk

theorem inv_announceMember (cfg : Cfg) (m : String) (x : Val) (s : St) (h : Inv cfg s) (hm : m ∈ cfg.members) :
    Inv cfg (announceMember cfg m x s) := by
  unfold announceMember
  split
  · exact h
  · apply inv_congr cfg (emit_struct _ _) (emit_mem _ _)
    exact inv_assignStruct cfg _ _ (wf_set cfg _ m x h.1 hm) (fun _ => agree_set cfg s m x h)

theorem inv_readStructA (cfg : Cfg) (r : RRes Dict) (s : St) (h : Inv cfg s) : Inv cfg (readStructA cfg r s) := by
  unfold readStructA
  cases r with
  | fail k => exact inv_congr cfg (by simp) (by simp) h
  | ok d =>
    simp only
    split
    · rename_i hd
      exact inv_congr cfg (fine_struct _) (fine_mem _) (inv_announceStruct cfg d s hd (fun e => by rw [← e]; exact h.2))
    · exact inv_congr cfg (by simp) (by simp) h

theorem inv_writeStructA (cfg : Cfg) (v : Dict) (w : WRes Dict) (s : St) (h : Inv cfg s) :
    Inv cfg (writeStructA cfg v w s) := by
  unfold writeStructA
  by_cases hv : wf cfg v = true
  · simp only [hv, Bool.not_true, Bool.false_eq_true, if_false]
    cases w with
    | fail k => exact h
    | retNone =>
      exact inv_congr cfg (fine_struct _) (fine_mem _) (inv_announceStruct cfg v s hv (fun e => by rw [← e]; exact h.2))
    | ret d =>
      simp only
      split
      · rename_i hd
        exact inv_congr cfg (fine_struct _) (fine_mem _) (inv_announceStruct cfg d s hd (fun e => by rw [← e]; exact h.2))
      · exact h
  · simp only [hv, Bool.not_false, if_true]; exact h

theorem inv_readStructC (cfg : Cfg) (r : RRes Dict) (s : St) (h : Inv cfg s) : Inv cfg (readStructC cfg r s) := by
  unfold readStructC
  split
  · exact inv_readStructA cfg r s h
  · exact h

theorem inv_writeStructC (cfg : Cfg) (v : Dict) (w : WRes Dict) (s : St) (h : Inv cfg s) :
    Inv cfg (writeStructC cfg v w s) := by
  unfold writeStructC
  split
  · exact inv_writeStructA cfg v w s h
  · exact inv_writeStructA cfg v .retNone s h

theorem inv_readMemberB (cfg : Cfg) (m : String) (r : RRes Val) (s : St) (h : Inv cfg s) (hm : m ∈ cfg.members) :
    Inv cfg (readMemberB cfg m r s) := by
  unfold readMemberB
  split
  · cases r with
    | fail k => exact inv_congr cfg (by simp) (by simp) h
    | ok x => exact inv_congr cfg (fine_struct _) (fine_mem _) (inv_announceMember cfg m x s h hm)
  · exact h

theorem inv_readMemberA (cfg : Cfg) (m : String) (r : RRes Dict) (s : St) (h : Inv cfg s) (hm : m ∈ cfg.members) :
    Inv cfg (readMemberA cfg m r s) := by
  unfold readMemberA
  have h1 := inv_readStructC cfg r s h
  simp only
  split
  · exact inv_congr cfg (by simp) (by simp) h1
  · split
    · exact inv_congr cfg (by simp) (by simp) h1
    · exact inv_congr cfg (fine_struct _) (fine_mem _) (inv_announceMember cfg m _ _ h1 hm)

theorem inv_writeMemberA (cfg : Cfg) (m : String) (v : Val) (w : WRes Dict) (r : RRes Dict) (rB : RRes Val) (s : St)
    (h : Inv cfg s) (hm : m ∈ cfg.members) : Inv cfg (writeMemberA cfg m v w r rB s) := by
  unfold writeMemberA
  have h1 := inv_writeStructC cfg (s.struct.set m v) w s h
  have h2 : Inv cfg (readMemberC cfg m r rB (writeStructC cfg (s.struct.set m v) w s)) := by
    unfold readMemberC
    split
    · exact inv_readMemberB cfg m rB _ h1 hm
    · exact inv_readMemberA cfg m r _ h1 hm
  simp only
  split
  · exact h1
  · split
    · exact h2
    · split
      · exact h2
      · exact inv_congr cfg (fine_struct _) (fine_mem _) (inv_announceMember cfg m _ _ h2 hm)

theorem inv_writeMemberB (cfg : Cfg) (m : String) (v : Val) (w : WRes Val) (s : St) (h : Inv cfg s)
    (hm : m ∈ cfg.members) : Inv cfg (writeMemberB cfg m v w s) := by
  unfold writeMemberB
  split
  · cases w with
    | fail => exact h
    | retNone => exact inv_congr cfg (fine_struct _) (fine_mem _) (inv_announceMember cfg m v s h hm)
    | ret x => exact inv_congr cfg (fine_struct _) (fine_mem _) (inv_announceMember cfg m x s h hm)
  · exact inv_congr cfg (fine_struct _) (fine_mem _) (inv_announceMember cfg m v s h hm)

/-! the generated struct methods of the per-member layout -/

theorem lookup_none_of_not_mem_keys (d : Dict) (k : String) (h : k ∉ d.map Prod.fst) : d.lookup k = none := by
  induction d with
  | nil => rfl
  | cons e t ih =>
    obtain ⟨k0, x⟩ := e
    simp only [List.map_cons, List.mem_cons, not_or] at h
    have hb : (k == k0) = false := by simpa using h.1
    simp only [List.lookup, hb]
    exact ih h.2

theorem lookup_append_single (d : Dict) (m : String) (x : Val) (k : String) :
    (d ++ [(m, x)]).lookup k = match d.lookup k with
      | some y => some y
      | none => if k = m then some x else none := by
  induction d with
  | nil =>
    by_cases h : k = m
    · simp [List.lookup, h]
    · have hb : (k == m) = false := by simpa using h
      simp [List.lookup, hb, h]
  | cons e t ih =>
    obtain ⟨k0, y⟩ := e
    by_cases h0 : k = k0
    · simp [List.lookup, h0]
    · have hb : (k == k0) = false := by simpa using h0
      simp only [List.cons_append, List.lookup, hb]
      exact ih

theorem lookup_merge_notin (r : Dict) (k : String) (h : k ∉ r.map Prod.fst) : ∀ d, (Dict.merge d r).lookup k = d.lookup k := by
  unfold Dict.merge
  induction r with
  | nil => intro d; rfl
  | cons e r ih =>
    intro d
    simp only [List.map_cons, List.mem_cons, not_or] at h
    simp only [List.foldl_cons]
    rw [ih h.2, lookup_set]
    simp [h.1]

theorem lookup_merge (r : Dict) (k : String) (x : Val) (hn : (r.map Prod.fst).Nodup) (h : r.lookup k = some x) :
    ∀ d, (Dict.merge d r).lookup k = some x := by
  induction r with
  | nil => simp [List.lookup] at h
  | cons e r ih =>
    intro d
    obtain ⟨k0, y⟩ := e
    simp only [List.map_cons, List.nodup_cons] at hn
    have hstep : Dict.merge d ((k0, y) :: r) = Dict.merge (d.set k0 y) r := by simp [Dict.merge]
    rw [hstep]
    by_cases h0 : k = k0
    · subst h0
      simp [List.lookup] at h
      rw [lookup_merge_notin r k hn.1, lookup_set]
      simp [h]
    · have hb : (k == k0) = false := by simpa using h0
      simp only [List.lookup, hb] at h
      exact ih hn.2 h _

/-- loop invariant of the generated struct methods: `done` = the members treated so far; the struct is untouched, the
results are those of the treated members, and the member parameters hold the results obtained so far -/
def LInv (s0 : St) (done : List String) (l : Loop) : Prop :=
  l.st.struct = s0.struct ∧ l.result.map Prod.fst = done.take l.result.length ∧
  (l.stop = false → l.result.length = done.length) ∧
  (∀ k, l.st.mem.lookup k = match l.result.lookup k with
    | some x => some x
    | none => s0.mem.lookup k)

theorem linv_keep (s0 : St) (done : List String) (m : String) (l l' : Loop) (h : LInv s0 done l)
    (hst : l'.st.struct = l.st.struct) (hmem : l'.st.mem = l.st.mem) (hres : l'.result = l.result) (hstop : l'.stop = true) :
    LInv s0 (done ++ [m]) l' := by
  obtain ⟨h1, h2, h3, h4⟩ := h
  refine ⟨by rw [hst]; exact h1, ?_, (fun hc => by rw [hstop] at hc; cases hc), (by rw [hmem, hres]; exact h4)⟩
  have hle : l.result.length ≤ done.length := by
    have := congrArg List.length h2
    simp only [List.length_map, List.length_take] at this
    omega
  rw [hres, h2, List.take_append_of_le_length hle]

theorem linv_push (s0 : St) (done : List String) (m : String) (x : Val) (l l' : Loop)
    (h : LInv s0 done l) (hm : m ∉ done) (hs : l.stop = false) (hst : l'.st.struct = l.st.struct)
    (hmem : ∀ k, l'.st.mem.lookup k = if k = m then some x else l.st.mem.lookup k)
    (hres : l'.result = l.result ++ [(m, x)]) : LInv s0 (done ++ [m]) l' := by
  obtain ⟨h1, h2, h3, h4⟩ := h
  have hlen := h3 hs
  have hnone : l.result.lookup m = none := by
    apply lookup_none_of_not_mem_keys
    rw [h2]
    intro hc
    exact hm (List.mem_of_mem_take hc)
  refine ⟨by rw [hst]; exact h1, ?_, fun _ => by simp [hres, hlen], ?_⟩
  · rw [hres]
    simp only [List.map_append, List.map_cons, List.map_nil, List.length_append, List.length_cons, List.length_nil]
    rw [h2, hlen, List.take_of_length_le (by simp), List.take_of_length_le (by simp)]
  · intro k
    rw [hmem k, hres, lookup_append_single]
    by_cases hk : k = m
    · subst hk
      simp [hnone]
    · simp only [hk, if_false]
      rw [h4 k]
      cases l.result.lookup k <;> rfl

theorem linv_readIter (cfg : Cfg) (r : String → RRes Val) (s0 : St) (done : List String) (m : String) (l : Loop)
    (hm : m ∉ done) (h : LInv s0 done l) : LInv s0 (done ++ [m]) (readIter cfg r l m) := by
  unfold readIter
  split
  · rename_i hs; exact linv_keep s0 done m l l h rfl rfl rfl hs
  · rename_i hs
    have hs' : l.stop = false := by simpa using hs
    split
    · split
      · exact linv_keep s0 done m l _ h (by simp) (by simp) rfl rfl
      · exact linv_push s0 done m _ l _ h hm hs' (by simp) (fun k => by simp [lookup_set]) rfl
    · split
      · exact linv_keep s0 done m l _ h rfl rfl rfl rfl
      · rename_i x hx
        refine linv_push s0 done m x l _ h hm hs' rfl (fun k => ?_) rfl
        by_cases hk : k = m
        · subst hk; simp [hx]
        · simp [hk]

theorem linv_writeIter (cfg : Cfg) (v : Dict) (w : String → WRes Val) (s0 : St) (done : List String) (m : String)
    (l : Loop) (hm : m ∉ done) (h : LInv s0 done l) : LInv s0 (done ++ [m]) (writeIter cfg v w l m) := by
  unfold writeIter
  split
  · rename_i hs; exact linv_keep s0 done m l l h rfl rfl rfl hs
  · rename_i hs
    have hs' : l.stop = false := by simpa using hs
    split
    · exact linv_keep s0 done m l _ h rfl rfl rfl rfl
    · split
      · split
        · exact linv_keep s0 done m l _ h rfl rfl rfl rfl
        · exact linv_push s0 done m _ l _ h hm hs' (by simp) (fun k => by simp [lookup_set]) rfl
        · exact linv_push s0 done m _ l _ h hm hs' (by simp) (fun k => by simp [lookup_set]) rfl
      · exact linv_push s0 done m _ l _ h hm hs' (by simp) (fun k => by simp [lookup_set]) rfl

theorem linv_foldl (f : Loop → String → Loop) (s0 : St)
    (hf : ∀ done m l, m ∉ done → LInv s0 done l → LInv s0 (done ++ [m]) (f l m)) :
    ∀ (ms done : List String) (l : Loop), (done ++ ms).Nodup → LInv s0 done l → LInv s0 (done ++ ms) (ms.foldl f l) := by
  intro ms
  induction ms with
  | nil => intro done l _ h; simpa using h
  | cons m ms ih =>
    intro done l hn h
    have hm : m ∉ done := by
      intro hc
      have := (List.nodup_append.1 hn).2.2 m hc m List.mem_cons_self
      exact this rfl
    have := ih (done ++ [m]) (f l m) (by simpa using hn) (hf done m l hm h)
    simpa using this

theorem inv_finishLoop (cfg : Cfg) (isRead : Bool) (s0 : St) (l : Loop) (h0 : Inv cfg s0) (hl : LInv s0 cfg.members l)
    (hnd : cfg.members.Nodup) : Inv cfg (finishLoop cfg isRead l) := by
  obtain ⟨h1, h2, _, h4⟩ := hl
  have hrn : (l.result.map Prod.fst).Nodup := by
    rw [h2]; exact List.Nodup.sublist (List.take_sublist _ _) hnd
  unfold finishLoop
  split
  · split
    rotate_left
    · -- write_<struct>, the first member refused: nothing happened
      rename_i hre
      have hnil : l.result = [] := by
        simp only [resyncs, Bool.or_eq_true, Bool.not_eq_true', not_or] at hre
        exact List.isEmpty_iff.1 (by simpa using hre.2)
      refine ⟨?_, fun k hk => ?_⟩
      · show wf cfg l.st.struct = true
        rw [h1]; exact h0.1
      · obtain ⟨y, hy1, hy2⟩ := h0.2 k hk
        refine ⟨y, ?_, ?_⟩
        · show l.st.struct.lookup k = some y
          rw [h1]; exact hy1
        · show l.st.mem.lookup k = some y
          rw [h4 k, hnil]; exact hy2
    -- a member failed: the struct is re-synchronised with the partial result
    have key : Inv cfg (assignStruct cfg (Dict.merge l.st.struct l.result) l.st) := by
      apply inv_assignStruct
      · rw [wf_iff, h1]
        rw [keys_merge]
        · exact (wf_iff cfg _).1 h0.1
        · intro e he
          have : e.1 ∈ l.result.map Prod.fst := List.mem_map_of_mem he
          rw [h2] at this
          rw [(wf_iff cfg _).1 h0.1]
          exact List.mem_of_mem_take this
      · -- omitted: the merged value is what the struct holds, so every result obtained is the old value
        intro hD k hk
        rw [h1] at hD
        obtain ⟨y, hy1, hy2⟩ := h0.2 k hk
        refine ⟨y, by rw [h1, ← hD]; exact hy1, ?_⟩
        rw [h4 k]
        cases hr : l.result.lookup k with
        | none => exact hy2
        | some x =>
          have := lookup_merge l.result k x hrn hr s0.struct
          rw [← hD, hy1] at this
          simp only
          exact this.symm
    exact inv_congr cfg (by simp) (by simp) key
  · rename_i hlen
    have hwf : wf cfg l.result = true := by
      rw [wf_iff, h2]
      apply List.take_of_length_le
      omega
    rw [if_pos hwf]
    apply inv_congr cfg (fine_struct _) (fine_mem _)
    apply inv_announceStruct cfg _ _ hwf
    intro hR k hk
    rw [h1] at hR
    obtain ⟨y, hy1, _⟩ := h0.2 k hk
    rw [hR] at hy1
    exact ⟨y, hy1, by rw [h4 k, hy1]⟩

/-- once the loop has stopped the remaining members are not treated -/
theorem writeIter_foldl_stopped (cfg : Cfg) (v : Dict) (w : String → WRes Val) (l : Loop) (h : l.stop = true) :
    ∀ ms : List String, ms.foldl (writeIter cfg v w) l = l := by
  intro ms
  induction ms with
  | nil => rfl
  | cons m ms ih => simp only [List.foldl_cons]; rw [show writeIter cfg v w l m = l by simp [writeIter, h]]; exact ih

/-- the generated `write_<struct>` (repaired code) whose FIRST member refuses (`write_<m>` raises): the operation fails with
that exception and the state is the one before - nothing stored, nothing announced, no pending flag touched -/
theorem writeStructB_first_refused (cfg : Cfg) (m : String) (ms : List String) (hm : cfg.members = m :: ms) (v : Dict)
    (w : String → WRes Val) (k : ExcKind) (s : St) (hv : wf cfg v = true) (hw : cfg.hasW m = true) (hf : w m = .fail k) :
    writeStructB cfg v w s = failedExc (some k) s := by
  have hl : v.lookup m = none → False := by
    intro hn
    have hk := (wf_iff cfg v).1 hv
    rw [hm] at hk
    cases v with
    | nil => simp at hk
    | cons e t =>
      simp only [List.map_cons, List.cons.injEq] at hk
      obtain ⟨e1, e2⟩ := e
      simp only at hk
      simp [List.lookup, hk.1] at hn
  have h1 : writeIter cfg v w { st := s } m = { st := s, stop := true, exc := some k } := by
    unfold writeIter
    cases hx : v.lookup m with
    | none => exact absurd hx (fun h => hl h)
    | some req => simp [hw, hf]
  unfold writeStructB
  simp only [hv, Bool.not_true, Bool.false_eq_true, if_false, hm, List.foldl_cons]
  rw [h1, writeIter_foldl_stopped cfg v w _ rfl]
  simp [finishLoop, resyncs, hm]

theorem inv_readStructB (cfg : Cfg) (r : String → RRes Val) (s : St) (h : Inv cfg s) (hnd : cfg.members.Nodup) :
    Inv cfg (readStructB cfg r s) := by
  unfold readStructB
  apply inv_finishLoop cfg true s _ h _ hnd
  have := linv_foldl (readIter cfg r) s (fun done m l hm hl => linv_readIter cfg r s done m l hm hl) cfg.members []
    { st := s } (by simpa using hnd) ⟨rfl, by simp, fun _ => by simp, fun k => by simp [List.lookup]⟩
  simpa using this

theorem inv_writeStructB (cfg : Cfg) (v : Dict) (w : String → WRes Val) (s : St) (h : Inv cfg s) (hnd : cfg.members.Nodup) :
    Inv cfg (writeStructB cfg v w s) := by
  unfold writeStructB
  split
  · exact h
  · apply inv_finishLoop cfg false s _ h _ hnd
    have := linv_foldl (writeIter cfg v w) s (fun done m l hm hl => linv_writeIter cfg v w s done m l hm hl) cfg.members []
      { st := s } (by simpa using hnd) ⟨rfl, by simp, fun _ => by simp, fun k => by simp [List.lookup]⟩
    simpa using this

theorem inv_step (cfg : Cfg) (hnd : cfg.members.Nodup) (s : St) (op : Op) (h : Inv cfg s) : Inv cfg (step1 cfg s op) := by
  have h' : Inv cfg { s with evs := [], exc := none } := h
  unfold step1
  cases op with
  | readStruct rA rB =>
    simp only [step]; split
    · exact inv_readStructC cfg rA _ h'
    · exact inv_readStructB cfg rB _ h' hnd
  | writeStruct v wA wB =>
    simp only [step]; split
    · exact inv_writeStructC cfg v wA _ h'
    · exact inv_writeStructB cfg v wB _ h' hnd
  | readMember m rA rB =>
    simp only [step]
    by_cases hm : m ∈ cfg.members
    · have : cfg.members.contains m = true := by simpa using hm
      simp only [this, Bool.not_true, Bool.false_eq_true, if_false]
      split
      · exact inv_readMemberA cfg m rA _ h' hm
      · exact inv_readMemberB cfg m rB _ h' hm
    · have : cfg.members.contains m = false := by simpa using hm
      simp only [this, Bool.not_false, if_true]; exact h'
  | writeMember m v wA rA wB rB =>
    simp only [step]
    by_cases hm : m ∈ cfg.members
    · have : cfg.members.contains m = true := by simpa using hm
      simp only [this, Bool.not_true, Bool.false_eq_true, if_false]
      split
      · exact inv_writeMemberA cfg m v wA rA rB _ h' hm
      · exact inv_writeMemberB cfg m v wB _ h' hm
    · have : cfg.members.contains m = false := by simpa using hm
      simp only [this, Bool.not_false, if_true]; exact h'
  | driverAssignStruct v =>
    simp only [step]
    split
    · rename_i hv
      exact inv_congr cfg (fine_struct _) (fine_mem _) (inv_assignStruct cfg v _ hv (fun e => by rw [← e]; exact h'.2))
    · exact inv_congr cfg (by simp) (by simp) h'
  | driverAssignMember m v =>
    simp only [step]
    by_cases hm : m ∈ cfg.members
    · have : cfg.members.contains m = true := by simpa using hm
      simp only [this, Bool.not_true, Bool.false_eq_true, if_false]
      exact inv_congr cfg (fine_struct _) (fine_mem _) (inv_announceMember cfg m v _ h' hm)
    · have : cfg.members.contains m = false := by simpa using hm
      simp only [this, Bool.not_false, if_true]; exact h'

theorem inv_exec (cfg : Cfg) (hnd : cfg.members.Nodup) (ops : List Op) : ∀ s, Inv cfg s → Inv cfg (exec cfg s ops) := by
  induction ops with
  | nil => intro s h; exact h
  | cons op ops ih => intro s h; exact ih _ (inv_step cfg hnd s op h)

theorem inv_init (cfg : Cfg) : Inv cfg (init cfg) := by
  refine ⟨by simp [wf, init, Function.comp_def], fun m hm => ⟨0, ?_, ?_⟩⟩ <;>
  · simp only [init]
    generalize cfg.members = ms at hm
    induction ms with
    | nil => simp at hm
    | cons a t ih =>
      simp only [List.map_cons, List.lookup]
      by_cases h : m = a
      · simp [h]
      · have : (m == a) = false := by simpa using h
        simp only [this]
        exact ih (by simpa [h] using hm)

/-! ## overlapping operations -/

/-- an update of the struct either is omitted (nothing changes, the struct holds this value already) or brings all members along -/
theorem announceStruct_cases (cfg : Cfg) (d : Dict) (s : St) (hd : wf cfg d = true) :
    (announceStruct cfg d s = s ∧ s.struct = d) ∨ Inv cfg (announceStruct cfg d s) := by
  by_cases ho : omittedS cfg (s.struct == d) s.sP = true
  · left
    exact ⟨by unfold announceStruct; rw [if_pos ho], by simpa using omittedS_same _ _ _ ho⟩
  · right
    unfold announceStruct
    rw [if_neg ho]
    have hkeys := (wf_iff cfg d).1 hd
    have hsome : ∀ m ∈ cfg.members, ∃ x, d.lookup m = some x := fun m hm =>
      lookup_isSome_of_mem_keys d m (by rw [hkeys]; exact hm)
    refine ⟨by simpa using hd, fun m hm => ?_⟩
    obtain ⟨x, hx⟩ := hsome m hm
    refine ⟨x, by simpa using hx, ?_⟩
    simp only [emit_mem]
    rw [setMembers_lookup cfg cfg.members d hsome]
    simp [hm, hx]

/-- the state while a generated struct method is in progress and other threads assign: the struct is well-formed, and every
member parameter shows the value the struct has for it, or the result the access has obtained for it so far -/
def Loose (cfg : Cfg) (s : St) (result : Dict) : Prop :=
  wf cfg s.struct = true ∧ ∀ k ∈ cfg.members, ∃ y, s.struct.lookup k = some y ∧
    (s.mem.lookup k = some y ∨ ∃ x, result.lookup k = some x ∧ s.mem.lookup k = some x)

theorem loose_of_inv (cfg : Cfg) (s : St) (result : Dict) (h : Inv cfg s) : Loose cfg s result :=
  ⟨h.1, fun k hk => by obtain ⟨y, h1, h2⟩ := h.2 k hk; exact ⟨y, h1, Or.inl h2⟩⟩

theorem loose_congr (cfg : Cfg) {s t : St} (result : Dict) (h1 : t.struct = s.struct) (h2 : t.mem = s.mem)
    (h : Loose cfg s result) : Loose cfg t result := by
  unfold Loose; rw [h1, h2]; exact h

/-- where the struct already holds every result obtained, the loose agreement is agreement -/
theorem agree_of_loose (cfg : Cfg) (s : St) (result : Dict) (h : Loose cfg s result)
    (hr : ∀ k x, result.lookup k = some x → s.struct.lookup k = some x) : Inv cfg s := by
  refine ⟨h.1, fun k hk => ?_⟩
  obtain ⟨y, hy, hor⟩ := h.2 k hk
  rcases hor with hm | ⟨x, hx, hm⟩
  · exact ⟨y, hy, hm⟩
  · have := hr k x hx
    rw [hy] at this
    exact ⟨y, hy, by rw [hm, this]⟩

theorem loose_assignStruct (cfg : Cfg) (d : Dict) (s : St) (result : Dict) (h : Loose cfg s result) :
    Loose cfg (assignStruct cfg d s) result := by
  unfold assignStruct
  split
  · rename_i hd
    rcases announceStruct_cases cfg d s hd with ⟨he, _⟩ | hi
    · rw [he]; exact h
    · exact loose_of_inv cfg _ result hi
  · exact loose_congr cfg result (by simp) (by simp) h

theorem loose_announceMember (cfg : Cfg) (m : String) (x : Val) (s : St) (result : Dict) (hm : m ∈ cfg.members)
    (h : Loose cfg s result) : Loose cfg (announceMember cfg m x s) result := by
  unfold announceMember
  split
  · exact h
  · apply loose_congr cfg result (emit_struct _ _) (emit_mem _ _)
    have hwf : wf cfg (s.struct.set m x) = true := wf_set cfg _ m x h.1 hm
    unfold assignStruct
    rw [if_pos hwf]
    rcases announceStruct_cases cfg (s.struct.set m x) { s with mem := s.mem.set m x, mP := clearM s m } hwf with ⟨he, hs⟩ | hi
    · rw [he]
      have hs' : s.struct = s.struct.set m x := hs
      refine ⟨h.1, fun k hk => ?_⟩
      obtain ⟨y, hy, hor⟩ := h.2 k hk
      by_cases hkm : k = m
      · have hx : s.struct.lookup k = some x := by rw [hs', lookup_set]; simp [hkm]
        exact ⟨x, hx, Or.inl (by show (s.mem.set m x).lookup k = some x; rw [lookup_set]; simp [hkm])⟩
      · refine ⟨y, hy, ?_⟩
        show (s.mem.set m x).lookup k = some y ∨ ∃ x', result.lookup k = some x' ∧ (s.mem.set m x).lookup k = some x'
        rw [lookup_set]; simp only [hkm, if_false]; exact hor
    · exact loose_of_inv cfg _ result hi

theorem loose_astep (cfg : Cfg) (a : AOp) (s : St) (result : Dict) (h : Loose cfg s result) : Loose cfg (astep cfg s a) result := by
  cases a with
  | assignStruct v => exact loose_assignStruct cfg v s result h
  | assignMember m v =>
    simp only [astep]
    by_cases hm : m ∈ cfg.members
    · have : cfg.members.contains m = true := by simpa using hm
      rw [if_pos this]; exact loose_announceMember cfg m v s result hm h
    · have : cfg.members.contains m = false := by simpa using hm
      simp only [this, Bool.false_eq_true, if_false]; exact h

theorem loose_interrupt (cfg : Cfg) (result : Dict) (ops : List AOp) : ∀ s, Loose cfg s result → Loose cfg (interrupt cfg ops s) result := by
  unfold interrupt
  induction ops with
  | nil => intro s h; exact h
  | cons a ops ih => intro s h; exact ih _ (loose_astep cfg a s result h)

theorem inv_astep (cfg : Cfg) (a : AOp) (s : St) (h : Inv cfg s) : Inv cfg (astep cfg s a) := by
  cases a with
  | assignStruct v =>
    simp only [astep]
    unfold assignStruct
    split
    · rename_i hd; exact inv_announceStruct cfg v s hd (fun e => by rw [← e]; exact h.2)
    · exact inv_congr cfg (by simp) (by simp) h
  | assignMember m v =>
    simp only [astep]
    by_cases hm : m ∈ cfg.members
    · have : cfg.members.contains m = true := by simpa using hm
      rw [if_pos this]; exact inv_announceMember cfg m v s h hm
    · have : cfg.members.contains m = false := by simpa using hm
      simp only [this, Bool.false_eq_true, if_false]; exact h

theorem inv_interrupt (cfg : Cfg) (ops : List AOp) : ∀ s, Inv cfg s → Inv cfg (interrupt cfg ops s) := by
  unfold interrupt
  induction ops with
  | nil => intro s h; exact h
  | cons a ops ih => intro s h; exact ih _ (inv_astep cfg a s h)

/-- loop invariant of the generated struct methods with other threads in between: `done` = the members treated so far -/
def LInvO (cfg : Cfg) (done : List String) (l : Loop) : Prop :=
  Loose cfg l.st l.result ∧ l.result.map Prod.fst = done.take l.result.length ∧
  (l.stop = false → l.result.length = done.length)

theorem linvO_keep (cfg : Cfg) (done : List String) (m : String) (l l' : Loop) (h : LInvO cfg done l)
    (hl : Loose cfg l'.st l.result) (hres : l'.result = l.result) (hstop : l'.stop = true) : LInvO cfg (done ++ [m]) l' := by
  obtain ⟨_, h2, _⟩ := h
  refine ⟨by rw [hres]; exact hl, ?_, fun hc => by rw [hstop] at hc; cases hc⟩
  have hle : l.result.length ≤ done.length := by
    have := congrArg List.length h2
    simp only [List.length_map, List.length_take] at this
    omega
  rw [hres, h2, List.take_append_of_le_length hle]

theorem linvO_fresh (cfg : Cfg) (done : List String) (m : String) (l : Loop) (h : LInvO cfg done l) (hm : m ∉ done) :
    l.result.lookup m = none := by
  apply lookup_none_of_not_mem_keys
  rw [h.2.1]
  intro hc
  exact hm (List.mem_of_mem_take hc)

theorem linvO_push (cfg : Cfg) (done : List String) (m : String) (x : Val) (l l' : Loop) (h : LInvO cfg done l)
    (hs : l.stop = false) (hl : Loose cfg l'.st (l.result ++ [(m, x)])) (hres : l'.result = l.result ++ [(m, x)]) :
    LInvO cfg (done ++ [m]) l' := by
  obtain ⟨_, h2, h3⟩ := h
  have hlen := h3 hs
  refine ⟨by rw [hres]; exact hl, ?_, fun _ => by simp [hres, hlen]⟩
  rw [hres]
  simp only [List.map_append, List.map_cons, List.map_nil, List.length_append, List.length_cons, List.length_nil]
  rw [h2, hlen, List.take_of_length_le (by simp), List.take_of_length_le (by simp)]

/-- the access announces the value `x` it obtained for `m`: the member now shows the result -/
theorem loose_push_set (cfg : Cfg) (s : St) (result : Dict) (m : String) (x : Val) (h : Loose cfg s result)
    (hn : result.lookup m = none) : Loose cfg (announceMemberIn cfg m x s) (result ++ [(m, x)]) := by
  refine ⟨by simpa using h.1, fun k hk => ?_⟩
  obtain ⟨y, hy, hor⟩ := h.2 k hk
  refine ⟨y, by simpa using hy, ?_⟩
  rw [announceMemberIn_mem, lookup_set, lookup_append_single]
  by_cases hkm : k = m
  · subst hkm
    right
    exact ⟨x, by simp [hn], by simp⟩
  · simp only [hkm, if_false]
    rcases hor with hm | ⟨x', hx', hm⟩
    · exact Or.inl hm
    · exact Or.inr ⟨x', by simp [hx'], hm⟩

/-- the access takes a value for `m` without announcing anything (a cache read): the member still shows what the struct has -/
theorem loose_push_same (cfg : Cfg) (s : St) (result : Dict) (m : String) (x : Val) (h : Loose cfg s result) :
    Loose cfg s (result ++ [(m, x)]) := by
  refine ⟨h.1, fun k hk => ?_⟩
  obtain ⟨y, hy, hor⟩ := h.2 k hk
  refine ⟨y, hy, ?_⟩
  rw [lookup_append_single]
  rcases hor with hm | ⟨x', hx', hm⟩
  · exact Or.inl hm
  · exact Or.inr ⟨x', by simp [hx'], hm⟩

theorem linvO_readIter (cfg : Cfg) (r : String → RRes Val) (ov : Overlap) (done : List String) (m : String) (l : Loop)
    (hm : m ∉ done) (h : LInvO cfg done l) : LInvO cfg (done ++ [m]) (readIterO cfg r ov l m) := by
  have hn := linvO_fresh cfg done m l h hm
  have h1 : Loose cfg (interrupt cfg (ov.before m) l.st) l.result := loose_interrupt cfg _ _ _ h.1
  simp only [readIterO]
  split
  · rename_i hs; exact linvO_keep cfg done m l l h h.1 rfl hs
  · rename_i hs
    have hs' : l.stop = false := by simpa using hs
    split
    · split
      · exact linvO_keep cfg done m l _ h (loose_congr cfg _ (by simp) (by simp) h1) rfl rfl
      · exact linvO_push cfg done m _ l _ h hs' (loose_push_set cfg _ _ m _ h1 hn) rfl
    · split
      · exact linvO_keep cfg done m l _ h h1 rfl rfl
      · exact linvO_push cfg done m _ l _ h hs' (loose_push_same cfg _ _ m _ h1) rfl

theorem linvO_writeIter (cfg : Cfg) (v : Dict) (w : String → WRes Val) (ov : Overlap) (done : List String) (m : String)
    (l : Loop) (hm : m ∉ done) (h : LInvO cfg done l) : LInvO cfg (done ++ [m]) (writeIterO cfg v w ov l m) := by
  have hn := linvO_fresh cfg done m l h hm
  have h1 : Loose cfg (interrupt cfg (ov.before m) l.st) l.result := loose_interrupt cfg _ _ _ h.1
  simp only [writeIterO]
  split
  · rename_i hs; exact linvO_keep cfg done m l l h h.1 rfl hs
  · rename_i hs
    have hs' : l.stop = false := by simpa using hs
    split
    · exact linvO_keep cfg done m l _ h h1 rfl rfl
    · split
      · split
        · exact linvO_keep cfg done m l _ h h1 rfl rfl
        · exact linvO_push cfg done m _ l _ h hs' (loose_push_set cfg _ _ m _ h1 hn) rfl
        · exact linvO_push cfg done m _ l _ h hs' (loose_push_set cfg _ _ m _ h1 hn) rfl
      · exact linvO_push cfg done m _ l _ h hs' (loose_push_set cfg _ _ m _ h1 hn) rfl

theorem foldl_members {P : List String → Loop → Prop} (f : Loop → String → Loop)
    (hf : ∀ done m l, m ∉ done → P done l → P (done ++ [m]) (f l m)) :
    ∀ (ms done : List String) (l : Loop), (done ++ ms).Nodup → P done l → P (done ++ ms) (ms.foldl f l) := by
  intro ms
  induction ms with
  | nil => intro done l _ h; simpa using h
  | cons m ms ih =>
    intro done l hn h
    have hm : m ∉ done := by
      intro hc
      have := (List.nodup_append.1 hn).2.2 m hc m List.mem_cons_self
      exact this rfl
    have := ih (done ++ [m]) (f l m) (by simpa using hn) (hf done m l hm h)
    simpa using this

theorem inv_finishLoopO (cfg : Cfg) (isRead : Bool) (ov : Overlap) (l : Loop) (hl : LInvO cfg cfg.members l)
    (hnd : cfg.members.Nodup) : Inv cfg (finishLoopO cfg isRead ov l) := by
  obtain ⟨h1, h2, _⟩ := hl
  have hrn : (l.result.map Prod.fst).Nodup := by
    rw [h2]; exact List.Nodup.sublist (List.take_sublist _ _) hnd
  have hL1 : Loose cfg (interrupt cfg ov.atEnd l.st) l.result := loose_interrupt cfg _ _ _ h1
  have hL2 : Loose cfg (interrupt cfg ov.afterRead (interrupt cfg ov.atEnd l.st)) l.result := loose_interrupt cfg _ _ _ hL1
  simp only [finishLoopO]
  split
  · split
    rotate_left
    · -- write_<struct>, the first member refused: nothing but what the other threads did
      rename_i hre
      have hnil : l.result = [] := by
        simp only [resyncs, Bool.or_eq_true, Bool.not_eq_true', not_or] at hre
        exact List.isEmpty_iff.1 (by simpa using hre.2)
      exact inv_congr cfg (by simp [failedExc]) (by simp [failedExc])
        (agree_of_loose cfg _ l.result hL2 (fun k x hr => by rw [hnil] at hr; simp [List.lookup] at hr))
    -- a member failed: the struct is re-synchronised with the partial result, merged into the value read before
    have hwf : wf cfg (Dict.merge (interrupt cfg ov.atEnd l.st).struct l.result) = true := by
      rw [wf_iff, keys_merge]
      · exact (wf_iff cfg _).1 hL1.1
      · intro e he
        have : e.1 ∈ l.result.map Prod.fst := List.mem_map_of_mem he
        rw [h2] at this
        rw [(wf_iff cfg _).1 hL1.1]
        exact List.mem_of_mem_take this
    have key : Inv cfg (assignStruct cfg (Dict.merge (interrupt cfg ov.atEnd l.st).struct l.result)
        (interrupt cfg ov.afterRead (interrupt cfg ov.atEnd l.st))) := by
      unfold assignStruct
      rw [if_pos hwf]
      rcases announceStruct_cases cfg _ (interrupt cfg ov.afterRead (interrupt cfg ov.atEnd l.st)) hwf with ⟨he, hs⟩ | hi
      · rw [he]
        exact agree_of_loose cfg _ l.result hL2 (fun k x hr => by rw [hs]; exact lookup_merge l.result k x hrn hr _)
      · exact hi
    exact inv_congr cfg (by simp) (by simp) (inv_interrupt cfg ov.beforeErr _ key)
  · rename_i hlen
    have hwf : wf cfg l.result = true := by
      rw [wf_iff, h2]
      apply List.take_of_length_le
      omega
    rw [if_pos hwf]
    apply inv_congr cfg (fine_struct _) (fine_mem _)
    rcases announceStruct_cases cfg l.result (interrupt cfg ov.afterRead (interrupt cfg ov.atEnd l.st)) hwf with ⟨he, hs⟩ | hi
    · rw [he]
      exact agree_of_loose cfg _ l.result hL2 (fun k x hr => by rw [hs]; exact hr)
    · exact hi

theorem inv_readStructO (cfg : Cfg) (r : String → RRes Val) (ov : Overlap) (s : St) (h : Inv cfg s) (hnd : cfg.members.Nodup) :
    Inv cfg (readStructO cfg r ov s) := by
  unfold readStructO
  apply inv_finishLoopO cfg true ov _ _ hnd
  have := foldl_members (P := LInvO cfg) (readIterO cfg r ov)
    (fun done m l hm hl => linvO_readIter cfg r ov done m l hm hl) cfg.members []
    { st := s } (by simpa using hnd) ⟨loose_of_inv cfg s [] h, by simp, fun _ => by simp⟩
  simpa using this

theorem inv_writeStructO (cfg : Cfg) (v : Dict) (w : String → WRes Val) (ov : Overlap) (s : St) (h : Inv cfg s)
    (hnd : cfg.members.Nodup) : Inv cfg (writeStructO cfg v w ov s) := by
  unfold writeStructO
  split
  · exact h
  · apply inv_finishLoopO cfg false ov _ _ hnd
    have := foldl_members (P := LInvO cfg) (writeIterO cfg v w ov)
      (fun done m l hm hl => linvO_writeIter cfg v w ov done m l hm hl) cfg.members []
      { st := s } (by simpa using hnd) ⟨loose_of_inv cfg s [] h, by simp, fun _ => by simp⟩
    simpa using this

theorem inv_readMemberAV (cfg : Cfg) (m : String) (r : RRes Dict) (iv : List (List AOp)) (k : Nat) (s : St) (h : Inv cfg s)
    (hm : m ∈ cfg.members) : Inv cfg (readMemberAV cfg m r iv k s).1 := by
  have h1 := inv_readStructC cfg r _ (inv_interrupt cfg (ivAt iv k) s h)
  have h2 := inv_interrupt cfg (ivAt iv (k + 1)) _ h1
  simp only [readMemberAV]
  split
  · exact inv_congr cfg (by simp) (by simp) h2
  · split
    · exact inv_congr cfg (by simp) (by simp) h2
    · exact inv_congr cfg (fine_struct _) (fine_mem _) (inv_announceMember cfg m _ _ h2 hm)

theorem inv_readMemberBV (cfg : Cfg) (m : String) (rB : RRes Val) (iv : List (List AOp)) (k : Nat) (s : St) (h : Inv cfg s)
    (hm : m ∈ cfg.members) : Inv cfg (readMemberBV cfg m rB iv k s).1 := by
  have h0 := inv_interrupt cfg (ivAt iv k) s h
  simp only [readMemberBV]
  cases rB with
  | fail e => exact inv_congr cfg (by simp) (by simp) h0
  | ok x => exact inv_congr cfg (fine_struct _) (fine_mem _) (inv_announceMember cfg m x _ h0 hm)

theorem inv_writeMemberAO (cfg : Cfg) (m : String) (v : Val) (w : WRes Dict) (r : RRes Dict) (rB : RRes Val)
    (iv : List (List AOp)) (s : St) (h : Inv cfg s) (hm : m ∈ cfg.members) : Inv cfg (writeMemberAO cfg m v w r rB iv s) := by
  have ha := inv_interrupt cfg (ivAt iv 0) s h
  have h1 := inv_writeStructC cfg ((interrupt cfg (ivAt iv 0) s).struct.set m v) w _ (inv_interrupt cfg (ivAt iv 1) _ ha)
  have key : ∀ (sr : St × Option Val) (k : Nat), Inv cfg sr.1 →
      Inv cfg (if !sr.1.ok then sr.1 else
        match sr.2 with
        | none => failed sr.1
        | some x => fine (announceMember cfg m x (interrupt cfg (ivAt iv k) sr.1))) := by
    intro sr k hsr
    split
    · exact hsr
    · split
      · exact inv_congr cfg (by simp) (by simp) hsr
      · exact inv_congr cfg (fine_struct _) (fine_mem _) (inv_announceMember cfg m _ _ (inv_interrupt cfg _ _ hsr) hm)
  simp only [writeMemberAO]
  split
  · exact h1
  · by_cases hR : cfg.hasR m = true
    · simp only [hR, ↓reduceIte]
      exact key _ 3 (inv_readMemberBV cfg m rB iv 2 _ h1 hm)
    · simp only [hR]
      exact key _ 4 (inv_readMemberAV cfg m r iv 2 _ h1 hm)

theorem inv_ostep (cfg : Cfg) (hnd : cfg.members.Nodup) (s : St) (op : OOp) (h : Inv cfg s) : Inv cfg (ostep1 cfg s op) := by
  have h' : Inv cfg { s with evs := [], exc := none } := h
  cases op with
  | seq op => exact inv_step cfg hnd s op h
  | readStructO rA rB ov =>
    simp only [ostep1, ostep]
    split
    · exact inv_readStructC cfg rA _ (inv_interrupt cfg _ _ h')
    · exact inv_readStructO cfg rB ov _ h' hnd
  | writeStructO v wA wB ov =>
    simp only [ostep1, ostep]
    split
    · exact inv_writeStructC cfg v wA _ (inv_interrupt cfg _ _ h')
    · exact inv_writeStructO cfg v wB ov _ h' hnd
  | readMemberO m rA iv =>
    simp only [ostep1, ostep]
    split
    · rename_i hc
      simp only [Bool.and_eq_true, List.contains_iff_mem] at hc
      exact inv_readMemberAV cfg m rA iv 0 _ h' hc.1.1
    · exact h'
  | writeMemberO m v wA rA rB iv =>
    simp only [ostep1, ostep]
    split
    · rename_i hc
      simp only [Bool.and_eq_true, List.contains_iff_mem] at hc
      exact inv_writeMemberAO cfg m v wA rA rB iv _ h' hc.1.1
    · exact h'

theorem inv_oexec (cfg : Cfg) (hnd : cfg.members.Nodup) (ops : List OOp) : ∀ s, Inv cfg s → Inv cfg (oexec cfg s ops) := by
  induction ops with
  | nil => intro s h; exact h
  | cons op ops ih => intro s h; exact ih _ (inv_ostep cfg hnd s op h)

/-! ## float / enum -/

theorem lookup_of_mem_nodup : ∀ (l : List (Int × Val)) (i : Int) (v : Val),
    (l.map Prod.fst).Nodup → (i, v) ∈ l → l.lookup i = some v := by
  intro l
  induction l with
  | nil => intro i v _ h; simp at h
  | cons e t ih =>
    intro i v hn h
    obtain ⟨j, w⟩ := e
    simp only [List.map_cons, List.nodup_cons] at hn
    simp only [List.lookup]
    rcases List.mem_cons.1 h with h1 | h1
    · simp only [Prod.mk.injEq] at h1
      obtain ⟨rfl, rfl⟩ := h1
      simp
    · have hne : i ≠ j := by
        intro e
        have : i ∈ t.map Prod.fst := List.mem_map_of_mem (f := Prod.fst) h1
        rw [e] at this
        exact hn.1 this
      have : (i == j) = false := by simpa using hne
      simp only [this]
      exact ih i v hn.2 h1

/-- the fold of `min(…, key=…)`: the result is the start value or an element, and nothing is closer -/
theorem closestFrom_spec (x : Val) : ∀ (cs : List (Int × Val)) (best : Int × Val),
    (closestFrom best cs x = best ∨ closestFrom best cs x ∈ cs) ∧
    dist (closestFrom best cs x).2 x ≤ dist best.2 x ∧
    ∀ c ∈ cs, dist (closestFrom best cs x).2 x ≤ dist c.2 x := by
  intro cs
  induction cs with
  | nil => intro best; simp [closestFrom]
  | cons c cs ih =>
    intro best
    simp only [closestFrom]
    by_cases h : dist c.2 x < dist best.2 x
    · simp only [h, if_true]
      obtain ⟨h1, h2, h3⟩ := ih c
      refine ⟨Or.inr ?_, by omega, ?_⟩
      · rcases h1 with h1 | h1
        · rw [h1]; exact List.mem_cons_self
        · exact List.mem_cons_of_mem _ h1
      · intro c' hc'
        rcases List.mem_cons.1 hc' with e | e
        · rw [e]; exact h2
        · exact h3 c' e
    · simp only [h, if_false]
      obtain ⟨h1, h2, h3⟩ := ih best
      refine ⟨?_, h2, ?_⟩
      · rcases h1 with h1 | h1
        · exact Or.inl h1
        · exact Or.inr (List.mem_cons_of_mem _ h1)
      · intro c' hc'
        rcases List.mem_cons.1 hc' with e | e
        · rw [e]; omega
        · exact h3 c' e

theorem closest_spec (vdict : List (Int × Val)) (x : Val) (i : Int) (hn : (vdict.map Prod.fst).Nodup)
    (h : closest vdict x = some i) : SelectsClosest vdict x i := by
  cases vdict with
  | nil => simp [closest] at h
  | cons c cs =>
    simp only [closest, Option.some.injEq] at h
    obtain ⟨h1, h2, h3⟩ := closestFrom_spec x cs c
    have hmem : closestFrom c cs x ∈ c :: cs := by
      rcases h1 with h1 | h1
      · rw [h1]; exact List.mem_cons_self
      · exact List.mem_cons_of_mem _ h1
    refine ⟨(closestFrom c cs x).2, ?_, ?_⟩
    · rw [← h]; exact lookup_of_mem_nodup _ _ _ hn hmem
    · intro jw hjw
      rcases List.mem_cons.1 hjw with e | e
      · rw [e]; exact h2
      · exact h3 jw e

/-- tie rule of the fold: the result is the start value when nothing is strictly closer, otherwise the *first*
element that is strictly closer than everything before it and at least as close as everything after it -/
theorem closestFrom_first (x : Val) : ∀ (cs : List (Int × Val)) (best : Int × Val),
    (closestFrom best cs x = best ∧ ∀ e ∈ cs, dist best.2 x ≤ dist e.2 x) ∨
    (∃ pre post, cs = pre ++ closestFrom best cs x :: post ∧
      dist (closestFrom best cs x).2 x < dist best.2 x ∧
      (∀ e ∈ pre, dist (closestFrom best cs x).2 x < dist e.2 x) ∧
      ∀ e ∈ post, dist (closestFrom best cs x).2 x ≤ dist e.2 x) := by
  intro cs
  induction cs with
  | nil => intro best; exact Or.inl ⟨rfl, by simp⟩
  | cons c cs ih =>
    intro best
    simp only [closestFrom]
    by_cases h : dist c.2 x < dist best.2 x
    · simp only [h, if_true]
      right
      rcases ih c with ⟨hr, hall⟩ | ⟨pre, post, heq, hlt, hpre, hpost⟩
      · exact ⟨[], cs, by rw [hr]; rfl, by rw [hr]; exact h, by simp, by rw [hr]; exact hall⟩
      · refine ⟨c :: pre, post, by rw [List.cons_append, ← heq], by omega, ?_, hpost⟩
        intro e he
        rcases List.mem_cons.1 he with e1 | e1
        · rw [e1]; exact hlt
        · exact hpre e e1
    · simp only [h, if_false]
      rcases ih best with ⟨hr, hall⟩ | ⟨pre, post, heq, hlt, hpre, hpost⟩
      · left
        refine ⟨hr, ?_⟩
        intro e he
        rcases List.mem_cons.1 he with e1 | e1
        · rw [e1]; omega
        · exact hall e e1
      · right
        refine ⟨c :: pre, post, by rw [List.cons_append, ← heq], hlt, ?_, hpost⟩
        intro e he
        rcases List.mem_cons.1 he with e1 | e1
        · rw [e1]; omega
        · exact hpre e e1

/-- invariant of the float/enum pair -/
def FInv (cfg : FCfg) (s : FSt) : Prop := ShowsIndexValue cfg.vdict s.idx s.value

theorem announceVal_idx (cfg : FCfg) (v : Val) (s : FSt) : (announceVal cfg v s).idx = s.idx := by
  unfold announceVal
  split <;> simp [femit]

/-- announcing the value of the current index (omitted or not) leaves the pair consistent -/
theorem finv_announceVal (cfg : FCfg) (v : Val) (s : FSt) (h : cfg.vdict.lookup s.idx = some v) :
    FInv cfg (announceVal cfg v s) := by
  unfold announceVal FInv ShowsIndexValue
  split
  · rename_i ho
    unfold omitted at ho
    simp only [Bool.and_eq_true, beq_iff_eq] at ho
    rw [h, ho.1.2]
  · simpa [femit] using h

theorem announceIdx_idx (cfg : FCfg) (j : Int) (s : FSt) : (announceIdx cfg j s).idx = j := by
  unfold announceIdx
  split
  · rename_i ho
    unfold omitted at ho
    simp only [Bool.and_eq_true, beq_iff_eq] at ho
    exact ho.1.2
  · split <;> simp [femit, announceVal_idx]

/-- an update of the index (omitted only when it is the current one of a consistent pair) leaves the pair consistent -/
theorem finv_announceIdx (cfg : FCfg) (j : Int) (s : FSt) (hj : validIdx cfg j = true) (h : FInv cfg s ∨ s.idx ≠ j) :
    FInv cfg (announceIdx cfg j s) := by
  unfold validIdx at hj
  unfold announceIdx
  split
  · rename_i ho
    unfold omitted at ho
    simp only [Bool.and_eq_true, beq_iff_eq] at ho
    rcases h with h | h
    · exact h
    · exact absurd ho.1.2 h
  · cases hl : cfg.vdict.lookup j with
    | none => rw [hl] at hj; simp at hj
    | some v =>
      simp only
      have := finv_announceVal cfg v { s with idx := j, idxErr := false } hl
      unfold FInv ShowsIndexValue at this ⊢
      simpa [femit] using this

theorem finv_writeIdx (cfg : FCfg) (i : Int) (w : WRes Int) (s : FSt) (h : FInv cfg s) :
    FInv cfg (writeIdx cfg i w s) := by
  unfold writeIdx
  by_cases hi : validIdx cfg i = true
  · simp only [hi, Bool.not_true, Bool.false_eq_true, if_false]
    split
    · cases w with
      | fail => exact h
      | retNone => exact finv_announceIdx cfg i s hi (Or.inl h)
      | ret j =>
        simp only
        split
        · rename_i hj; exact finv_announceIdx cfg j s hj (Or.inl h)
        · exact h
    · exact finv_announceIdx cfg i s hi (Or.inl h)
  · simp only [hi, Bool.not_false, if_true]; exact h

theorem finv_writeFloat (cfg : FCfg) (x : Val) (w : WRes Int) (s : FSt) (h : FInv cfg s) :
    FInv cfg (writeFloat cfg x w s) := by
  unfold writeFloat
  split
  · exact h
  · split
    · exact h
    · rename_i i _
      have h1 := finv_writeIdx cfg i w s h
      simp only
      split
      · exact h1
      · split
        · exact h1
        · rename_i v hv
          exact finv_announceVal cfg v _ hv

theorem lookup_isSome_of_mem (l : List (Int × Val)) (i : Int) (v : Val) (h : (i, v) ∈ l) :
    ∃ w, l.lookup i = some w := by
  induction l with
  | nil => simp at h
  | cons e t ih =>
    obtain ⟨j, w⟩ := e
    simp only [List.lookup]
    by_cases hij : i = j
    · simp [hij]
    · have : (i == j) = false := by simpa using hij
      simp only [this]
      rcases List.mem_cons.1 h with h1 | h1
      · simp only [Prod.mk.injEq] at h1; exact absurd h1.1 hij
      · exact ih h1

theorem closest_valid (cfg : FCfg) (x : Val) (i : Int) (h : closest cfg.vdict x = some i) : validIdx cfg i = true := by
  unfold validIdx
  cases hv : cfg.vdict with
  | nil => rw [hv] at h; simp [closest] at h
  | cons c cs =>
    rw [hv] at h
    simp only [closest, Option.some.injEq] at h
    obtain ⟨h1, _, _⟩ := closestFrom_spec x cs c
    have hmem : closestFrom c cs x ∈ c :: cs := by
      rcases h1 with h1 | h1
      · rw [h1]; exact List.mem_cons_self
      · exact List.mem_cons_of_mem _ h1
    obtain ⟨w, hw⟩ := lookup_isSome_of_mem (c :: cs) i (closestFrom c cs x).2 (by rw [← h]; exact hmem)
    rw [hw]; rfl

/-- the callback on the float parameter re-establishes the pair, whatever value was stored -/
theorem finv_triggerIndex (cfg : FCfg) (x : Val) (s : FSt) (hv : validIdx cfg s.idx = true) (hx : s.value = x) :
    FInv cfg (triggerIndex cfg x s) := by
  unfold triggerIndex
  unfold validIdx at hv
  cases hl : cfg.vdict.lookup s.idx with
  | none => rw [hl] at hv; simp at hv
  | some cur =>
    simp only
    by_cases heq : (cur == x) = true
    · simp only [heq, if_true]
      unfold FInv ShowsIndexValue
      rw [hl, hx]; simpa using heq
    · simp only [heq, Bool.false_eq_true, if_false]
      cases hc : closest cfg.vdict x with
      | none => exfalso; cases hvd : cfg.vdict with
        | nil => rw [hvd] at hl; simp at hl
        | cons c cs => rw [hvd] at hc; simp [closest] at hc
      | some i =>
        simp only
        split
        · exact finv_announceVal cfg cur s hl
        · rename_i hne
          exact finv_announceIdx cfg i s (closest_valid cfg x i hc) (Or.inr (fun e => hne e.symm))

/-- a driver-side assignment to the float parameter: the callback moves the index to the closest label -/
theorem finv_assignFloat (cfg : FCfg) (x : Val) (s : FSt) (h : FInv cfg s) : FInv cfg (assignFloat cfg x s) := by
  unfold assignFloat
  split
  · exact h
  · have hv : validIdx cfg s.idx = true := by unfold validIdx; unfold FInv ShowsIndexValue at h; rw [h]; rfl
    have := finv_triggerIndex cfg x { s with value := x, valErr := false } hv rfl
    unfold FInv ShowsIndexValue at this ⊢
    simpa [femit] using this

/-- what is recorded for one operation of the model (mirrors what the harness records from the code) -/
def frecOf (cfg : FCfg) (s : FSt) (op : FOp) : FRec :=
  { write := match op with | .writeFloat x _ => some x | _ => none,
    assign := match op with | .driverAssignFloat x => some x | _ => none,
    ok := (fstep1 cfg s op).ok,
    selected := match op with | .writeFloat x _ => closest cfg.vdict x | _ => none,
    idx := (fstep1 cfg s op).idx, value := (fstep1 cfg s op).value }

theorem finv_step (cfg : FCfg) (s : FSt) (op : FOp) (h : FInv cfg s) :
    FInv cfg (fstep1 cfg s op) := by
  have h' : FInv cfg { s with evs := [], exc := none } := h
  unfold fstep1
  cases op with
  | writeFloat x w => exact finv_writeFloat cfg x w _ h'
  | writeIdx i w => exact finv_writeIdx cfg i w _ h'
  | readIdx r =>
    simp only [fstep]
    split
    · cases r with
      | fail k => exact h'
      | ok j =>
        simp only
        split
        · rename_i hj; exact finv_announceIdx cfg j _ hj (Or.inl h')
        · exact h'
    · exact h'
  | readFloat => exact h'
  | driverAssignIdx j =>
    simp only [fstep]
    split
    · rename_i hj; exact finv_announceIdx cfg j _ hj (Or.inl h')
    · exact h'
  | driverAssignFloat x => exact finv_assignFloat cfg x _ h'

/-- a driver-side assignment of `x` leaves an index whose value no other label is closer to `x`: the current one when
`x` is exactly its value (or the assignment is omitted as unchanged), the one `min(…)` selects in every other case —
however close `x` is to the current value -/
theorem assignFloat_selects (cfg : FCfg) (hn : (cfg.vdict.map Prod.fst).Nodup) (x : Val) (s : FSt) (h : FInv cfg s) :
    SelectsClosest cfg.vdict x (assignFloat cfg x s).idx := by
  have hcur : ∀ v, cfg.vdict.lookup s.idx = some v → v = x → SelectsClosest cfg.vdict x s.idx :=
    fun v hl hvx => ⟨v, hl, fun jw _ => by rw [hvx]; simp [dist]⟩
  unfold assignFloat
  split
  · rename_i ho
    unfold omitted at ho
    simp only [Bool.and_eq_true, beq_iff_eq] at ho
    exact hcur s.value h ho.1.2
  · simp only [femit]
    unfold triggerIndex
    simp only
    unfold FInv ShowsIndexValue at h
    rw [h]
    simp only
    by_cases heq : (s.value == x) = true
    · simp only [heq, if_true]
      exact hcur s.value h (by simpa using heq)
    · simp only [heq, Bool.false_eq_true, if_false]
      cases hc : closest cfg.vdict x with
      | none => exfalso; cases hvd : cfg.vdict with
        | nil => rw [hvd] at h; simp at h
        | cons c cs => rw [hvd] at hc; simp [closest] at hc
      | some i =>
        simp only
        split
        · rename_i hi
          rw [announceVal_idx]
          simp only
          rw [← hi]
          exact closest_spec cfg.vdict x i hn hc
        · rw [announceIdx_idx]
          exact closest_spec cfg.vdict x i hn hc

theorem writeFloat_ok_selected (cfg : FCfg) (x : Val) (w : WRes Int) (s : FSt)
    (hok : (writeFloat cfg x w s).ok = true) : ∃ i, closest cfg.vdict x = some i := by
  unfold writeFloat at hok
  split at hok
  · simp at hok
  · split at hok
    · simp at hok
    · rename_i i hi; exact ⟨i, hi⟩

/-! ## limits -/

def limitsOf (cfg : LCfg) (s : LSt) : Limits :=
  { min := if cfg.hasMin then some s.min else none,
    max := if cfg.hasMax then some s.max else none,
    limits := if cfg.hasLimits then some s.limits else none }

def echoes (cfg : LCfg) (x : Val) (w : WRes Val) : Bool :=
  !cfg.hasW || w == .retNone || w == .ret x

/-- what is recorded for one operation of the model (mirrors what the harness records from the code; `stopAt` is only
looked at for accepted writes, which passed the validation) -/
def lrecOf (cfg : LCfg) (s : LSt) (op : LOp) : LRec :=
  { write := match op with | .write x _ _ _ => some x | _ => none,
    stopAt := match op with | .write x c _ _ => (runChecks (checkLimits cfg s x) c cfg.layers 0).stopAt | _ => none,
    echo := match op with | .write x _ w _ => echoes cfg x w | _ => false,
    setLimits := match op with | .writeLimits a b => some (a, b) | _ => none,
    ok := (lstep1 cfg s op).ok, before := limitsOf cfg s, after := limitsOf cfg (lstep1 cfg s op),
    value := (lstep1 cfg s op).value }

/-! the spec's declarative "defined first" against the model's scan of the class dicts -/

theorem any_false_of_getD (sel : Layer → Bool) : ∀ (rest : List Layer),
    (∀ b, b < rest.length → sel (rest.getD b default) = false) → rest.any sel = false := by
  intro rest
  induction rest with
  | nil => intro _; rfl
  | cons l t ih =>
    intro h
    simp only [List.any_cons, Bool.or_eq_false_iff]
    refine ⟨by simpa using h 0 (by simp), ih (fun b hb => ?_)⟩
    have := h (b + 1) (by simp; omega)
    simpa using this

theorem firstDeclares_zero (sel : Layer → Bool) (l : Layer) (rest : List Layer)
    (h : FirstDeclares (l :: rest) sel 0) : (sel l && !rest.any sel) = true := by
  obtain ⟨h1, h2⟩ := h
  have h1' : sel l = true := by simpa using h1
  have : rest.any sel = false := any_false_of_getD sel rest (fun b hb => by
    have := h2 (b + 1) (by simp; omega) (by omega)
    simpa using this)
  simp [h1', this]

theorem firstDeclares_succ (sel : Layer → Bool) (l : Layer) (rest : List Layer) (a : Nat)
    (h : FirstDeclares (l :: rest) sel (a + 1)) : FirstDeclares rest sel a := by
  obtain ⟨h1, h2⟩ := h
  refine ⟨by simpa using h1, fun b hb hab => ?_⟩
  have := h2 (b + 1) (by simp; omega) (by omega)
  simpa using this

theorem autoAt_zero (l : Layer) (rest : List Layer) (h : AutoAt (l :: rest) 0) :
    l.ownCheck = false ∧ isFirstDef l rest = true := by
  obtain ⟨h1, h2⟩ := h
  refine ⟨by simpa using h1, ?_⟩
  unfold isFirstDef
  simp only [Bool.or_eq_true]
  rcases h2 with h2 | h2 | h2
  · exact Or.inl (Or.inl (firstDeclares_zero (·.declMin) l rest h2))
  · exact Or.inl (Or.inr (firstDeclares_zero (·.declMax) l rest h2))
  · exact Or.inr (firstDeclares_zero (·.declLimits) l rest h2)

theorem autoAt_succ (l : Layer) (rest : List Layer) (a : Nat) (h : AutoAt (l :: rest) (a + 1)) : AutoAt rest a := by
  obtain ⟨h1, h2⟩ := h
  refine ⟨by simpa using h1, ?_⟩
  rcases h2 with h2 | h2 | h2
  · exact Or.inl (firstDeclares_succ _ l rest a h2)
  · exact Or.inr (Or.inl (firstDeclares_succ _ l rest a h2))
  · exact Or.inr (Or.inr (firstDeclares_succ _ l rest a h2))

/-- the loop over the check methods: when it lets a value through although the automatic check sits at position `a`
and no programmer's check before `a` ended the loop, `checkLimits` did not raise -/
theorem runChecks_auto (lim : Bool) (c : List CRes) : ∀ (layers : List Layer) (i a : Nat),
    (runChecks lim c layers i).ok = true → a < layers.length → AutoAt layers a →
    (∀ j, (runChecks lim c layers i).stopAt = some j → i + a < j) → lim = true := by
  intro layers
  induction layers with
  | nil => intro i a _ ha; simp at ha
  | cons l rest ih =>
    intro i a hok ha hauto hstop
    cases a with
    | zero =>
      obtain ⟨hown, hfirst⟩ := autoAt_zero l rest hauto
      simp only [runChecks, hown, Bool.false_eq_true, if_false, hfirst, if_true] at hok
      cases lim with
      | true => rfl
      | false => simp at hok
    | succ a' =>
      have hauto' := autoAt_succ l rest a' hauto
      have ha' : a' < rest.length := by simpa using ha
      simp only [runChecks] at hok hstop
      by_cases hown : l.ownCheck = true
      · simp only [hown, if_true] at hok hstop
        cases hc : c.getD i .pass with
        | pass =>
          simp only [hc] at hok hstop
          exact ih (i + 1) a' hok ha' hauto' (fun j hj => by have := hstop j hj; omega)
        | stop =>
          simp only [hc] at hstop
          have := hstop i rfl
          omega
        | fail k => rw [hc] at hok; exact absurd hok (by simp)
      · simp only [hown, Bool.false_eq_true, if_false] at hok hstop
        by_cases hf : isFirstDef l rest = true
        · simp only [hf, if_true] at hok hstop
          cases lim with
          | true => rfl
          | false => simp at hok
        · simp only [hf, Bool.false_eq_true, if_false] at hok hstop
          exact ih (i + 1) a' hok ha' hauto' (fun j hj => by have := hstop j hj; omega)

theorem setValue_value (cfg : LCfg) (x : Val) (s : LSt) : (setValue cfg x s).value = x := by
  unfold setValue
  split
  · rename_i ho
    unfold omittedL at ho
    simp only [Bool.and_eq_true, beq_iff_eq] at ho
    exact ho.1.2
  · rfl

theorem setValue_limits (cfg : LCfg) (x : Val) (s : LSt) : limitsOf cfg (setValue cfg x s) = limitsOf cfg s := by
  unfold setValue
  split <;> rfl

theorem setValue_ok (cfg : LCfg) (x : Val) (s : LSt) : (setValue cfg x s).ok = true := by
  unfold setValue
  split <;> rfl

theorem within_of_check (cfg : LCfg) (s : LSt) (x : Val) (h : checkLimits cfg s x = true) :
    Within (limitsOf cfg s) x := by
  unfold checkLimits at h
  simp only [Bool.and_eq_true, Bool.or_eq_true, Bool.not_eq_eq_eq_not, Bool.not_true, decide_eq_true_eq] at h
  obtain ⟨⟨⟨h1, _⟩, h3⟩, h4⟩ := h
  unfold Within limitsOf
  refine ⟨?_, ?_, ?_⟩
  · intro a ha
    cases hm : cfg.hasMin with
    | false => simp [hm] at ha
    | true =>
      simp only [hm, if_true, Option.some.injEq] at ha
      rcases h3 with h3 | h3
      · rw [hm] at h3; cases h3
      · rw [← ha]; exact h3
  · intro b hb
    cases hm : cfg.hasMax with
    | false => simp [hm] at hb
    | true =>
      simp only [hm, if_true, Option.some.injEq] at hb
      rcases h4 with h4 | h4
      · rw [hm] at h4; cases h4
      · rw [← hb]; exact h4
  · intro ab hab
    cases hm : cfg.hasLimits with
    | false => simp [hm] at hab
    | true =>
      simp only [hm, if_true, Option.some.injEq] at hab
      rcases h1 with h1 | h1
      · rw [hm] at h1; cases h1
      · rw [← hab]; exact h1

/-! ## the labels of a float/enum pair -/

theorem lookup_setI (l : List (Int × Val)) (k : Int) (v : Val) (k' : Int) :
    (setI l k v).lookup k' = if k' = k then some v else l.lookup k' := by
  induction l with
  | nil =>
    by_cases h : k' = k
    · subst h; simp [setI]
    · have : (k' == k) = false := by simpa using h
      simp [setI, List.lookup, this, h]
  | cons e t ih =>
    obtain ⟨k0, x⟩ := e
    simp only [setI]
    by_cases h0 : k0 = k
    · subst h0
      simp only [if_true, List.lookup]
      by_cases h : k' = k0
      · simp [h]
      · have : (k' == k0) = false := by simpa using h
        simp [this, h]
    · simp only [h0, if_false, List.lookup]
      by_cases h : k' = k0
      · subst h
        simp [h0]
      · have : (k' == k0) = false := by simpa using h
        simp only [this]
        exact ih

theorem mem_keys_setI (l : List (Int × Val)) (k : Int) (v : Val) (k' : Int) :
    k' ∈ (setI l k v).map Prod.fst ↔ k' = k ∨ k' ∈ l.map Prod.fst := by
  induction l with
  | nil => simp [setI]
  | cons e t ih =>
    obtain ⟨k0, x⟩ := e
    simp only [setI]
    by_cases h0 : k0 = k
    · subst h0
      simp only [if_true, List.map_cons, List.mem_cons]
      constructor
      · intro h; exact Or.inr h
      · intro h
        rcases h with h | h
        · exact Or.inl h
        · exact h
    · simp only [h0, if_false, List.map_cons, List.mem_cons, ih]
      constructor
      · intro h
        rcases h with h | h | h
        · exact Or.inr (Or.inl h)
        · exact Or.inl h
        · exact Or.inr (Or.inr h)
      · intro h
        rcases h with h | h | h
        · exact Or.inr (Or.inl h)
        · exact Or.inl h
        · exact Or.inr (Or.inr h)

theorem nodup_setI (l : List (Int × Val)) (k : Int) (v : Val) (h : (l.map Prod.fst).Nodup) :
    ((setI l k v).map Prod.fst).Nodup := by
  induction l with
  | nil => simp [setI]
  | cons e t ih =>
    obtain ⟨k0, x⟩ := e
    simp only [List.map_cons, List.nodup_cons] at h
    simp only [setI]
    by_cases h0 : k0 = k
    · simp only [h0, if_true, List.map_cons, List.nodup_cons]
      rw [← h0]; exact h
    · simp only [h0, if_false, List.map_cons, List.nodup_cons]
      refine ⟨?_, ih h.2⟩
      intro hm
      rcases (mem_keys_setI t k v k0).1 hm with h1 | h1
      · exact h0 h1
      · exact h.1 h1

theorem setI_ne_nil (l : List (Int × Val)) (k : Int) (v : Val) : setI l k v ≠ [] := by
  cases l with
  | nil => simp [setI]
  | cons e t =>
    simp only [setI]
    split <;> simp

theorem collectLabels_nodup : ∀ (specs : List LabelSpec) (next : Int) (ed : List (String × Int)) (vd : List (Int × Val)),
    (vd.map Prod.fst).Nodup → ((collectLabels specs next ed vd).2.map Prod.fst).Nodup := by
  intro specs
  induction specs with
  | nil => intro _ _ _ h; exact h
  | cons e es ih =>
    intro next ed vd h
    simp only [collectLabels]
    apply ih
    cases e.value with
    | none => exact h
    | some v => exact nodup_setI _ _ _ h

/-- the second loop keeps the indices unique, keeps every index that had a value, and gives every member of the enum one -/
theorem fillValues_spec (derive : String → Option Val) : ∀ (ed : List (String × Int)) (vd vd' : List (Int × Val)),
    fillValues derive ed vd = some vd' → (vd.map Prod.fst).Nodup →
    (vd'.map Prod.fst).Nodup ∧ (∀ i, (vd.lookup i).isSome = true → (vd'.lookup i).isSome = true) ∧
    (∀ e ∈ ed, (vd'.lookup e.2).isSome = true) ∧ (vd ≠ [] → vd' ≠ []) := by
  intro ed
  induction ed with
  | nil =>
    intro vd vd' h hn
    simp only [fillValues, Option.some.injEq] at h
    subst h
    exact ⟨hn, fun _ hi => hi, fun _ he => (nomatch he), fun h => h⟩
  | cons e rest ih =>
    intro vd vd' h hn
    obtain ⟨lab, i⟩ := e
    simp only [fillValues] at h
    by_cases hi : (vd.lookup i).isSome = true
    · simp only [hi, if_true] at h
      obtain ⟨h1, h2, h3, h4⟩ := ih vd vd' h hn
      refine ⟨h1, h2, ?_, h4⟩
      intro e he
      rcases List.mem_cons.1 he with he | he
      · subst he; exact h2 i hi
      · exact h3 e he
    · simp only [hi, Bool.false_eq_true, if_false] at h
      cases hd : derive lab with
      | none => simp [hd] at h
      | some v =>
        simp only [hd] at h
        obtain ⟨h1, h2, h3, h4⟩ := ih (setI vd i v) vd' h (nodup_setI vd i v hn)
        have hkeep : ∀ j, (vd.lookup j).isSome = true → ((setI vd i v).lookup j).isSome = true := by
          intro j hj
          rw [lookup_setI]
          by_cases hji : j = i
          · simp [hji]
          · simp [hji, hj]
        refine ⟨h1, fun j hj => h2 j (hkeep j hj), ?_, fun _ => h4 (setI_ne_nil vd i v)⟩
        intro e he
        rcases List.mem_cons.1 he with he | he
        · subst he
          exact h2 i (by rw [lookup_setI]; simp)
        · exact h3 e he

theorem minVal_le : ∀ (cs : List (Int × Val)) (m : Val), minVal cs m ≤ m ∧ ∀ c ∈ cs, minVal cs m ≤ c.2 := by
  intro cs
  induction cs with
  | nil => intro m; exact ⟨Int.le_refl _, fun _ h => nomatch h⟩
  | cons c cs ih =>
    intro m
    simp only [minVal]
    obtain ⟨h1, h2⟩ := ih (if c.2 < m then c.2 else m)
    have hm : (if c.2 < m then c.2 else m) ≤ m ∧ (if c.2 < m then c.2 else m) ≤ c.2 := by
      by_cases hlt : c.2 < m
      · simp only [hlt, if_true]; exact ⟨Int.le_of_lt hlt, Int.le_refl _⟩
      · simp only [hlt, if_false]; exact ⟨Int.le_refl _, Int.not_lt.mp hlt⟩
    refine ⟨Int.le_trans h1 hm.1, fun c' hc' => ?_⟩
    rcases List.mem_cons.1 hc' with h | h
    · subst h; exact Int.le_trans h1 hm.2
    · exact h2 c' h

theorem le_maxVal : ∀ (cs : List (Int × Val)) (m : Val), m ≤ maxVal cs m ∧ ∀ c ∈ cs, c.2 ≤ maxVal cs m := by
  intro cs
  induction cs with
  | nil => intro m; exact ⟨Int.le_refl _, fun _ h => nomatch h⟩
  | cons c cs ih =>
    intro m
    simp only [maxVal]
    obtain ⟨h1, h2⟩ := ih (if m < c.2 then c.2 else m)
    have hm : m ≤ (if m < c.2 then c.2 else m) ∧ c.2 ≤ (if m < c.2 then c.2 else m) := by
      by_cases hlt : m < c.2
      · simp only [hlt, if_true]; exact ⟨Int.le_of_lt hlt, Int.le_refl _⟩
      · simp only [hlt, if_false]; exact ⟨Int.le_refl _, Int.not_lt.mp hlt⟩
    refine ⟨Int.le_trans hm.1 h1, fun c' hc' => ?_⟩
    rcases List.mem_cons.1 hc' with h | h
    · subst h; exact Int.le_trans hm.2 h1
    · exact h2 c' h

end Frappy.ExtParams
