import FrappyProofs.Lemmas.DatatypesIdem
/-
C01: validating a value of the value set (in canonical form) returns it unchanged — containers and
the mutual induction.
-/
set_option linter.unusedSectionVars false
set_option linter.unusedVariables false
namespace Frappy.Lemmas.C01
open FloatOps DType Frappy.Datatypes Frappy.Spec.C01
open PVal (toFloat? seqItems? prevItems prevFields dictGet dictSet)

variable {F : Type} [FloatOps F] [LawfulFloatOps F]

section dict
variable {α : Type}

theorem dictSet_of_mem {d : List (String × α)} (hn : (d.map (·.1)).Nodup) {k : String} {v : α}
    (h : (k, v) ∈ d) : dictSet d k v = d := by
  induction d with
  | nil => cases h
  | cons hd tl ih =>
    obtain ⟨k0, v0⟩ := hd
    simp only [List.map_cons, List.nodup_cons] at hn
    simp only [dictSet]
    rcases List.mem_cons.1 h with e | e
    · injection e with e1 e2; subst e1; subst e2; simp
    · have hne : k0 ≠ k := by
        intro hk; apply hn.1; rw [hk]; exact List.mem_map_of_mem (f := (·.1)) e
      rw [if_neg hne, ih hn.2 e]

theorem dictSet_append {d : List (String × α)} {k : String} {v : α} (h : k ∉ d.map (·.1)) :
    dictSet d k v = d ++ [(k, v)] := by
  induction d with
  | nil => simp [dictSet]
  | cons hd tl ih =>
    obtain ⟨k0, v0⟩ := hd
    simp only [List.map_cons, List.mem_cons, not_or] at h
    simp only [dictSet]
    rw [if_neg (fun e => h.1 e.symm), ih h.2]
    rfl

end dict

theorem mapPrev_id {f : PVal F → Option (PVal F) → Res F} :
    ∀ (vs : List (PVal F)), (∀ v ∈ vs, f v none = .ok v ∧ f v (some v) = .ok v) →
      mapPrev f vs [] = .ok vs ∧ mapPrev f vs vs = .ok vs := by
  intro vs
  induction vs with
  | nil => intro _; simp [mapPrev]
  | cons v vs ih =>
    intro h
    obtain ⟨h1, h2⟩ := ih (fun x hx => h x (List.mem_cons_of_mem _ hx))
    obtain ⟨a, b⟩ := h v List.mem_cons_self
    constructor
    · simp only [mapPrev, List.head?_nil, List.tail_nil, a, h1]
    · simp only [mapPrev, List.head?_cons, List.tail_cons, b, h2]

theorem foldFields_id_prev {f : String → PVal F → Option (Res F)} :
    ∀ (items acc : List (String × PVal F)),
      (∀ kv ∈ items, isNone kv.2 = false ∧ f kv.1 kv.2 = some (.ok kv.2)) → (∀ kv ∈ items, kv ∈ acc) →
      (acc.map (·.1)).Nodup → foldFields f items acc = .ok acc := by
  intro items
  induction items with
  | nil => intro acc _ _ _; simp [foldFields]
  | cons hd tl ih =>
    intro acc hf hsub hn
    obtain ⟨k, v⟩ := hd
    obtain ⟨hv, hfv⟩ := hf (k, v) List.mem_cons_self
    have hmem := hsub (k, v) List.mem_cons_self
    have hrest := ih acc (fun kv h => hf kv (List.mem_cons_of_mem _ h)) (fun kv h => hsub kv (List.mem_cons_of_mem _ h)) hn
    cases v
    case none => simp [isNone] at hv
    all_goals
      simp only [foldFields]
      simp only at hfv
      rw [hfv]
      simp only
      rw [dictSet_of_mem hn hmem]
      exact hrest

theorem foldFields_id_none {f : String → PVal F → Option (Res F)} :
    ∀ (items acc : List (String × PVal F)),
      (∀ kv ∈ items, isNone kv.2 = false ∧ f kv.1 kv.2 = some (.ok kv.2)) →
      (acc.map (·.1) ++ items.map (·.1)).Nodup → foldFields f items acc = .ok (acc ++ items) := by
  intro items
  induction items with
  | nil => intro acc _ _; simp [foldFields]
  | cons hd tl ih =>
    intro acc hf hn
    obtain ⟨k, v⟩ := hd
    obtain ⟨hv, hfv⟩ := hf (k, v) List.mem_cons_self
    have hk : k ∉ acc.map (·.1) := by
      intro hmem
      have := (List.nodup_append.1 hn).2.2 k hmem k (by simp)
      exact this rfl
    have hn' : ((acc ++ [(k, v)]).map (·.1) ++ tl.map (·.1)).Nodup := by
      simpa [List.map_append, List.append_assoc] using hn
    have hrest := ih (acc ++ [(k, v)]) (fun kv h => hf kv (List.mem_cons_of_mem _ h)) hn'
    cases v
    case none => simp [isNone] at hv
    all_goals
      simp only [foldFields]
      simp only at hfv
      rw [hfv]
      simp only
      rw [dictSet_append hk, hrest]
      simp

theorem givenKeys_eq_keys : ∀ (items : List (String × PVal F)), (∀ kv ∈ items, isNone kv.2 = false) →
    givenKeys items = items.map (·.1) := by
  intro items
  induction items with
  | nil => intro _; rfl
  | cons hd tl ih =>
    intro h
    obtain ⟨k, v⟩ := hd
    have hv := h (k, v) List.mem_cons_self
    have := ih (fun kv hkv => h kv (List.mem_cons_of_mem _ hkv))
    cases v
    case none => simp [isNone] at hv
    all_goals simp [givenKeys, this]

theorem memberIn_key {G : F → F → Prop} : ∀ (ms : List (String × DType F)) (k : String) (v : PVal F),
    MemberInG G ms k v → k ∈ ms.map (·.1)
  | [], _, _, h => by simp only [MemberInG] at h
  | (k0, t) :: rest, k, v, h => by
    simp only [MemberInG] at h
    by_cases hk : k0 = k
    · simp [hk]
    · rw [if_neg hk] at h
      simp only [List.map_cons, List.mem_cons]
      exact Or.inr (memberIn_key rest k v h)

theorem memberIn_notNone {G : F → F → Prop} : ∀ (ms : List (String × DType F)) (k : String) (v : PVal F),
    MemberInG G ms k v → isNone v = false
  | [], _, _, h => by simp only [MemberInG] at h
  | (k0, t) :: rest, k, v, h => by
    simp only [MemberInG] at h
    by_cases hk : k0 = k
    · rw [if_pos hk] at h; exact inSet_notNone h
    · rw [if_neg hk] at h; exact memberIn_notNone rest k v h

theorem structCheck_inSet {G : F → F → Prop} {ms : List (String × DType F)} {opt : List String}
    {fields : List (String × PVal F)} (h1 : ∀ kv ∈ fields, MemberInG G ms kv.1 kv.2)
    (h3 : ∀ k ∈ ms.map (·.1), k ∉ opt → k ∈ fields.map (·.1)) (hnone : ∀ kv ∈ fields, isNone kv.2 = false) :
    structCheck (ms.map (·.1)) opt true fields = true := by
  unfold structCheck
  rw [givenKeys_eq_keys fields hnone]
  simp only [Bool.and_eq_true, List.all_eq_true, List.contains_eq_mem, decide_eq_true_eq, Bool.true_and,
    Bool.or_eq_true]
  refine ⟨fun kv hkv => memberIn_key ms kv.1 kv.2 (h1 kv hkv), ?_⟩
  intro k hk
  by_cases ho : k ∈ opt
  · exact Or.inr ho
  · exact Or.inl (h3 k hk ho)

theorem canonList_mem : ∀ (l : List (PVal F)), CanonList l → ∀ v ∈ l, Canon v
  | [], _, v, hv => by cases hv
  | x :: xs, h, v, hv => by
    simp only [CanonList] at h
    rcases List.mem_cons.1 hv with e | e
    · rw [e]; exact h.1
    · exact canonList_mem xs h.2 v e

theorem canonFields_mem : ∀ (d : List (String × PVal F)), CanonFields d → ∀ kv ∈ d, Canon kv.2
  | [], _, kv, hkv => by cases hkv
  | (k, x) :: rest, h, kv, hkv => by
    simp only [CanonFields] at h
    rcases List.mem_cons.1 hkv with e | e
    · rw [e]; exact h.1
    · exact canonFields_mem rest h.2 kv e

mutual
theorem conv_idem : ∀ (dt : DType F) (r : PVal F), dt.WF → GridExact dt → InSet dt r → Canon r →
    conv .validate dt r none = .ok r ∧ conv .validate dt r (some r) = .ok r
  | .double min max ar rr, r, hwf, _, hin, hc => by
    cases r <;> try (simp only [InSet, InSetG] at hin)
    case float x =>
      have := doubleValidate_idem hwf hin (canon_float hc)
      simp [conv, this, Except.map]
  | .int min max, r, hwf, _, hin, hc => by
    cases r <;> try (simp only [InSet, InSetG] at hin)
    case int i =>
      have := intValidate_idem (F := F) hwf hin
      simp [conv, this, Except.map]
  | .scaled scale min max ar rr, r, hwf, hg, hin, hc => by
    cases r <;> try (simp only [InSet, InSetG] at hin)
    case float x =>
      simp only [GridExact] at hg
      have := scaledValidate_idem hwf hg hin (canon_float hc)
      simp [conv, this, Except.map]
  | .bool, r, hwf, _, hin, hc => by
    cases r <;> try (simp only [InSet, InSetG] at hin)
    case bool b => simp [conv, boolCall, Except.map]
  | .enum ms, r, hwf, _, hin, hc => by
    cases r <;> try (simp only [InSet, InSetG] at hin)
    case enum n k =>
      have := enumCall_idem (F := F) hwf hin
      simp [conv, this]
  | .string minc maxc utf8, r, hwf, _, hin, hc => by
    cases r <;> try (simp only [InSet, InSetG] at hin)
    case str s =>
      have := stringCall_idem (F := F) hin
      simp [conv, this, Except.map]
  | .blob minb maxb, r, hwf, _, hin, hc => by
    cases r <;> try (simp only [InSet, InSetG] at hin)
    case bytes b =>
      have := blobCall_idem (F := F) hin
      simp [conv, this, Except.map]
  | .array elem lo hi, r, hwf, hg, hin, hc => by
    cases r <;> try (simp only [InSet, InSetG] at hin)
    case tuple vs =>
      simp only [DType.WF] at hwf
      simp only [GridExact] at hg
      simp only [Canon] at hc
      obtain ⟨hall, h1, h2⟩ := hin
      obtain ⟨m1, m2⟩ := mapPrev_id (f := conv .validate elem) vs
        (fun v hv => conv_idem elem v hwf.1 hg (hall v hv) (canonList_mem vs hc v hv))
      constructor
      · simp only [conv, seqItems?, prevItems]
        rw [if_neg (by omega), if_neg (by omega), m1]
        rfl
      · simp only [conv, seqItems?, prevItems]
        rw [if_neg (by omega), if_neg (by omega), m2]
        rfl
  | .tuple elems, r, hwf, hg, hin, hc => by
    cases r <;> try (simp only [InSet, InSetG] at hin)
    case tuple vs =>
      simp only [DType.WF] at hwf
      simp only [GridExact] at hg
      simp only [Canon] at hc
      obtain ⟨hlen, t1, t2⟩ := convTuple_idem elems vs hwf.2 hg hin hc
      constructor
      · simp only [conv, seqItems?]
        rw [if_neg (by simpa using hlen), t1]
        rfl
      · simp only [conv, seqItems?]
        rw [if_neg (by simpa using hlen), t2]
        rfl
  | .struct ms opt cl, r, hwf, hg, hin, hc => by
    cases r <;> try (simp only [InSet, InSetG] at hin)
    case dict fields =>
      simp only [DType.WF] at hwf
      simp only [GridExact] at hg
      simp only [Canon] at hc
      obtain ⟨h1, h2, h3⟩ := hin
      have hnone : ∀ kv ∈ fields, isNone kv.2 = false := fun kv hkv => memberIn_notNone ms kv.1 kv.2 (h1 kv hkv)
      have hcheck := structCheck_inSet h1 h3 hnone
      have hf : ∀ kv ∈ fields, isNone kv.2 = false ∧ convMember .validate ms kv.1 kv.2 = some (.ok kv.2) :=
        fun kv hkv => ⟨hnone kv hkv, convMember_idem ms kv.1 kv.2 hwf.2.2.2 hg (h1 kv hkv) (canonFields_mem fields hc kv hkv)⟩
      have f1 := foldFields_id_none (f := convMember .validate ms) fields [] hf (by simpa using h2)
      have f2 := foldFields_id_prev (f := convMember .validate ms) fields fields hf (fun kv h => h) h2
      constructor
      · simp only [conv, beq_self_eq_true, Bool.or_true, hcheck, ↓reduceIte, prevFields, f1]
        rfl
      · simp only [conv, beq_self_eq_true, Bool.or_true, hcheck, ↓reduceIte, prevFields, f2]
        rfl
theorem convTuple_idem : ∀ (ts : List (DType F)) (vs : List (PVal F)), WFList ts → GridExactList ts →
    ZipInG OnGrid ts vs → CanonList vs →
    vs.length = ts.length ∧ convTuple .validate ts vs none = .ok vs ∧ convTuple .validate ts vs (some vs) = .ok vs
  | [], [], _, _, _, _ => by simp [convTuple]
  | t :: ts, v :: vs, hwf, hg, hz, hc => by
    simp only [WFList] at hwf
    simp only [GridExactList] at hg
    simp only [ZipInG] at hz
    simp only [CanonList] at hc
    obtain ⟨a, b⟩ := conv_idem t v hwf.1 hg.1 hz.1 hc.1
    obtain ⟨l, c, d⟩ := convTuple_idem ts vs hwf.2 hg.2 hz.2 hc.2
    refine ⟨by simp [l], ?_, ?_⟩
    · simp only [convTuple, a, c]
    · simp only [convTuple, b, d]
  | [], _ :: _, _, _, hz, _ => by simp only [ZipInG] at hz
  | _ :: _, [], _, _, hz, _ => by simp only [ZipInG] at hz
theorem convMember_idem : ∀ (ms : List (String × DType F)) (k : String) (v : PVal F), WFFields ms →
    GridExactFields ms → MemberInG OnGrid ms k v → Canon v → convMember .validate ms k v = some (.ok v)
  | [], _, _, _, _, h, _ => by simp only [MemberInG] at h
  | (k0, t) :: rest, k, v, hwf, hg, h, hc => by
    simp only [WFFields] at hwf
    simp only [GridExactFields] at hg
    simp only [MemberInG] at h
    simp only [convMember]
    by_cases hk : k0 = k
    · rw [if_pos hk] at h ⊢
      rw [(conv_idem t v hwf.1 hg.1 h hc).1]
    · rw [if_neg hk] at h ⊢
      exact convMember_idem rest k v hwf.2 hg.2 h hc
end

end Frappy.Lemmas.C01
