import FrappyProofs.Lemmas.CompatComplete
import FrappyModel.Datatypes.Variants
import FrappyModel.Spec.C03
/-
C03 — lemmas about the derived datatype classes (`CType`): the kind tree of a well-formed tree is well formed,
`compatibleC` is `compatible` of the kind trees, a tree without `LimitsType` validates like its kind tree.
-/
set_option linter.unusedSectionVars false
namespace Frappy.Lemmas.C03V
open Frappy.Datatypes Frappy.Datatypes.CType Frappy.Spec.C01 Frappy.Spec.C03 FloatOps
open PVal (dictGet)
variable {F : Type} [FloatOps F]

/-! ## the kind tree -/

theorem length_eraseList : ∀ es : List (CType F), (eraseList es).length = es.length
  | [] => rfl
  | _ :: ts => by simp [eraseList, length_eraseList ts]

theorem names_eraseFields : ∀ ms : List (String × CType F), (eraseFields ms).map (·.1) = ms.map (·.1)
  | [] => rfl
  | (k, t) :: rest => by simp [eraseFields, names_eraseFields rest]

theorem member_eraseFields : ∀ (ms : List (String × CType F)) (k : String),
    DType.member? (eraseFields ms) k = (CType.member? ms k).map erase
  | [], _ => rfl
  | (k', t) :: rest, k => by
    simp only [eraseFields, DType.member?, CType.member?, dictGet]
    split
    · rfl
    · exact member_eraseFields rest k

theorem leafy_member : ∀ (ms : List (String × CType F)) (k : String) (t : CType F),
    LeafyFields ms → CType.member? ms k = some t → Leafy t
  | [], _, _, _, h => by simp [CType.member?, dictGet] at h
  | (k', t') :: rest, k, t, hl, h => by
    simp only [CType.member?, dictGet] at h
    simp only [LeafyFields] at hl
    split at h
    · cases h; exact hl.1
    · exact leafy_member rest k t hl.2 h

mutual
theorem wf_leafy : ∀ a : CType F, a.WF → Leafy a
  | .leaf _, h => by simp only [CType.WF] at h; simpa only [Leafy] using h.2
  | .text _, _ => by simp only [Leafy]
  | .array e _ _, h => by simp only [CType.WF] at h; simpa only [Leafy] using wf_leafy e h.1
  | .tuple es, h => by simp only [CType.WF] at h; simpa only [Leafy] using wfList_leafy es h.2
  | .limits m, h => by simp only [CType.WF] at h; simpa only [Leafy] using wf_leafy m h.1
  | .status _, _ => by simp only [Leafy]
  | .struct ms _ _, h => by simp only [CType.WF] at h; simpa only [Leafy] using wfFields_leafy ms h.2.2.2
theorem wfList_leafy : ∀ es : List (CType F), WFList es → LeafyList es
  | [], _ => by simp only [LeafyList]
  | t :: ts, h => by
    simp only [WFList] at h
    simp only [LeafyList]
    exact ⟨wf_leafy t h.1, wfList_leafy ts h.2⟩
theorem wfFields_leafy : ∀ ms : List (String × CType F), WFFields ms → LeafyFields ms
  | [], _ => by simp only [LeafyFields]
  | (_, t) :: ts, h => by
    simp only [WFFields] at h
    simp only [LeafyFields]
    exact ⟨wf_leafy t h.1, wfFields_leafy ts h.2⟩
end

theorem eraseList_ne_nil : ∀ es : List (CType F), es ≠ [] → eraseList es ≠ []
  | [], h => (h rfl).elim
  | _ :: _, _ => by simp [eraseList]

theorem eraseFields_ne_nil : ∀ ms : List (String × CType F), ms ≠ [] → eraseFields ms ≠ []
  | [], h => (h rfl).elim
  | (_, _) :: _, _ => by simp [eraseFields]

mutual
/-- the kind tree of a well-formed tree is well formed (`DType.WF`, the hypothesis of the C01 / C03 theorems) -/
theorem erase_wf : ∀ a : CType F, a.WF → a.erase.WF
  | .leaf _, h => by simp only [CType.WF] at h; simpa only [erase] using h.1
  | .text _, _ => by simp [erase, DType.WF]
  | .array e _ _, h => by
    simp only [CType.WF] at h
    simp only [erase, DType.WF]
    exact ⟨erase_wf e h.1, h.2⟩
  | .tuple es, h => by
    simp only [CType.WF] at h
    simp only [erase, DType.WF]
    exact ⟨eraseList_ne_nil es h.1, eraseList_wf es h.2⟩
  | .limits m, h => by
    simp only [CType.WF] at h
    simp only [erase, DType.WF, DType.WFList]
    exact ⟨by simp, erase_wf m h.1, erase_wf m h.1, trivial⟩
  | .status ms, h => by
    simp only [CType.WF] at h
    simp only [erase, DType.WF, DType.WFList]
    exact ⟨by simp, h, by simp [unlimitedChars], trivial⟩
  | .struct ms opt _, h => by
    simp only [CType.WF] at h
    simp only [erase, DType.WF, names_eraseFields]
    exact ⟨eraseFields_ne_nil ms h.1, h.2.1, h.2.2.1, eraseFields_wf ms h.2.2.2⟩
theorem eraseList_wf : ∀ es : List (CType F), WFList es → DType.WFList (eraseList es)
  | [], _ => by simp only [eraseList, DType.WFList]
  | t :: ts, h => by
    simp only [WFList] at h
    simp only [eraseList, DType.WFList]
    exact ⟨erase_wf t h.1, eraseList_wf ts h.2⟩
theorem eraseFields_wf : ∀ ms : List (String × CType F), WFFields ms → DType.WFFields (eraseFields ms)
  | [], _ => by simp only [eraseFields, DType.WFFields]
  | (_, t) :: ts, h => by
    simp only [WFFields] at h
    simp only [eraseFields, DType.WFFields]
    exact ⟨erase_wf t h.1, eraseFields_wf ts h.2⟩
end

/-! ## `compatibleC` is `compatible` of the kind trees -/

/-- a leaf kind is no array, tuple or struct: the container arms of `compatible` refuse it -/
theorem leafKind_cases {t : DType F} (h : t.isLeafKind = true) :
    (∀ e a b, t ≠ .array e a b) ∧ (∀ es, t ≠ .tuple es) ∧ (∀ ms o c, t ≠ .struct ms o c) := by
  cases t <;> simp [DType.isLeafKind] at h <;> simp

/-- `TupleOf.compatible` on two pairs -/
theorem compatible_tuple2 (x y x' y' : DType F) :
    compatible (.tuple [x, y]) (.tuple [x', y']) =
      (match compatible x x' with
       | .error e => .error e
       | .ok _ => compatible y y') := by
  simp only [compatible, compatList, List.length_cons, List.length_nil, ne_eq, not_true_eq_false, if_false]
  cases compatible x x' with
  | error e => rfl
  | ok u => simp only []; cases compatible y y' <;> rfl

mutual
theorem compatibleC_erase : ∀ (a b : CType F), Leafy b → compatibleC a b = compatible a.erase b.erase
  | .leaf _, _, _ => by simp only [compatibleC, erase]
  | .text _, _, _ => by simp only [compatibleC, erase]
  | .array e a1 a2, b, hb => by
    cases b with
    | array e' b1 b2 =>
      simp only [Leafy] at hb
      simp only [compatibleC, erase, compatible, compatibleC_erase e e' hb]
    | leaf t =>
      simp only [Leafy] at hb
      cases t <;> simp [DType.isLeafKind] at hb <;> simp only [compatibleC, erase, compatible]
    | _ => simp only [compatibleC, erase, compatible]
  | .tuple es, b, hb => by
    cases b with
    | tuple es' =>
      simp only [Leafy] at hb
      simp only [compatibleC, tupleMembers?, erase, compatible, length_eraseList, compatListC_erase es es' hb]
    | limits m' =>
      simp only [Leafy] at hb
      have := compatListC_erase es [m', m'] (by simp only [LeafyList]; exact ⟨hb, hb, trivial⟩)
      simp only [compatibleC, tupleMembers?, erase, compatible, length_eraseList, this, eraseList, List.length_cons,
        List.length_nil]
    | status ms' =>
      have := compatListC_erase es [.leaf (.enum ms'), .leaf (.string 0 unlimitedChars false)]
        (by simp [LeafyList, Leafy, DType.isLeafKind])
      simp only [compatibleC, tupleMembers?, erase, compatible, length_eraseList, this, eraseList, List.length_cons,
        List.length_nil]
    | leaf t =>
      simp only [Leafy] at hb
      cases t <;> simp [DType.isLeafKind] at hb <;> simp only [compatibleC, tupleMembers?, erase, compatible]
    | _ => simp only [compatibleC, tupleMembers?, erase, compatible]
  | .limits m, b, hb => by
    cases b with
    | tuple es' =>
      simp only [Leafy] at hb
      match es', hb with
      | [], _ => simp [compatibleC, tupleMembers?, erase, compatible, eraseList]
      | [x], _ => simp [compatibleC, tupleMembers?, erase, compatible, eraseList]
      | [x, y], hb =>
        simp only [LeafyList] at hb
        simp only [compatibleC, tupleMembers?, erase, eraseList, compatible_tuple2, compatibleC_erase m x hb.1,
          compatibleC_erase m y hb.2.1]
        cases compatible m.erase x.erase <;> rfl
      | x :: y :: z :: rest, _ => simp [compatibleC, tupleMembers?, erase, compatible, eraseList]
    | limits m' =>
      simp only [Leafy] at hb
      simp only [compatibleC, tupleMembers?, erase, compatible_tuple2, compatibleC_erase m m' hb]
      cases compatible m.erase m'.erase <;> rfl
    | status ms' =>
      have h1 := compatibleC_erase m (.leaf (.enum ms')) (by simp [Leafy, DType.isLeafKind])
      have h2 := compatibleC_erase m (.leaf (.string 0 unlimitedChars false)) (by simp [Leafy, DType.isLeafKind])
      simp only [erase] at h1 h2
      simp only [compatibleC, tupleMembers?, erase, compatible_tuple2, h1, h2]
      cases compatible m.erase (.enum ms') <;> rfl
    | leaf t =>
      simp only [Leafy] at hb
      cases t <;> simp [DType.isLeafKind] at hb <;> simp only [compatibleC, tupleMembers?, erase, compatible]
    | _ => simp only [compatibleC, tupleMembers?, erase, compatible]
  | .status ms, b, hb => by
    cases b with
    | tuple es' =>
      match es' with
      | [] => simp [compatibleC, tupleMembers?, erase, compatible, eraseList]
      | [x] => simp [compatibleC, tupleMembers?, erase, compatible, eraseList]
      | [x, y] =>
        simp only [compatibleC, tupleMembers?, erase, eraseList, compatible_tuple2]
        cases compatible (.enum ms) x.erase <;> rfl
      | x :: y :: z :: rest => simp [compatibleC, tupleMembers?, erase, compatible, eraseList]
    | limits m' =>
      simp only [compatibleC, tupleMembers?, erase, compatible_tuple2]
      cases compatible (.enum ms) m'.erase <;> rfl
    | status ms' =>
      simp only [compatibleC, tupleMembers?, erase, compatible_tuple2]
      cases compatible (.enum ms) (.enum ms' : DType F) <;> rfl
    | leaf t =>
      simp only [Leafy] at hb
      cases t <;> simp [DType.isLeafKind] at hb <;> simp only [compatibleC, tupleMembers?, erase, compatible]
    | _ => simp only [compatibleC, tupleMembers?, erase, compatible]
  | .struct ms opt c, b, hb => by
    cases b with
    | struct ms' opt' c' =>
      simp only [Leafy] at hb
      simp only [compatibleC, erase, compatible, names_eraseFields, compatFieldsC_erase ms ms' hb]
      cases compatFields (eraseFields ms) (eraseFields ms') <;> rfl
    | leaf t =>
      simp only [Leafy] at hb
      cases t <;> simp [DType.isLeafKind] at hb <;> simp only [compatibleC, erase, compatible]
    | _ => simp only [compatibleC, erase, compatible]
theorem compatListC_erase : ∀ (es es' : List (CType F)), LeafyList es' →
    compatListC es es' = compatList (eraseList es) (eraseList es')
  | [], _, _ => by simp only [compatListC, eraseList, compatList]
  | _ :: _, [], _ => by simp only [compatListC, eraseList, compatList]
  | t :: ts, t' :: ts', h => by
    simp only [LeafyList] at h
    simp only [compatListC, eraseList, compatList, compatibleC_erase t t' h.1, compatListC_erase ts ts' h.2]
    cases compatible t.erase t'.erase <;> rfl
theorem compatFieldsC_erase : ∀ (ms ms' : List (String × CType F)), LeafyFields ms' →
    compatFieldsC ms ms' = compatFields (eraseFields ms) (eraseFields ms')
  | [], _, _ => by simp only [compatFieldsC, eraseFields, compatFields]
  | (k, t) :: rest, ms', h => by
    simp only [compatFieldsC, eraseFields, compatFields, member_eraseFields]
    cases hm : CType.member? ms' k with
    | none => simp
    | some t' =>
      simp only [Option.map_some, compatibleC_erase t t' (leafy_member ms' k t' h hm), compatFieldsC_erase rest ms' h]
      cases compatible t.erase t'.erase <;> rfl
end

/-! ## `cvalidate` -/

mutual
theorem ordered_limitsFree : ∀ (b : CType F) (r : PVal F), b.limitsFree = true → ordered b r = true
  | .leaf _, _, _ => by simp only [ordered]
  | .text _, _, _ => by simp only [ordered]
  | .status _, _, _ => by simp only [ordered]
  | .limits _, _, h => by simp [limitsFree] at h
  | .array e _ _, r, h => by
    simp only [limitsFree] at h
    cases r <;> simp only [ordered]
    case tuple vs =>
      simp only [List.all_eq_true]
      intro x _
      exact ordered_limitsFree e x h
  | .tuple es, r, h => by
    simp only [limitsFree] at h
    cases r <;> simp only [ordered]
    case tuple vs => exact orderedZip_limitsFree es vs h
  | .struct ms _ _, r, h => by
    simp only [limitsFree] at h
    cases r <;> simp only [ordered]
    case dict fields =>
      simp only [List.all_eq_true]
      intro kv _
      exact orderedMember_limitsFree ms kv.1 kv.2 h
theorem orderedZip_limitsFree : ∀ (es : List (CType F)) (vs : List (PVal F)), limitsFreeList es = true →
    orderedZip es vs = true
  | [], _, _ => by simp only [orderedZip]
  | _ :: _, [], _ => by simp only [orderedZip]
  | t :: ts, v :: vs, h => by
    simp only [limitsFreeList, Bool.and_eq_true] at h
    simp only [orderedZip, Bool.and_eq_true]
    exact ⟨ordered_limitsFree t v h.1, orderedZip_limitsFree ts vs h.2⟩
theorem orderedMember_limitsFree : ∀ (ms : List (String × CType F)) (k : String) (v : PVal F),
    limitsFreeFields ms = true → orderedMember ms k v = true
  | [], _, _, _ => by simp only [orderedMember]
  | (k', t) :: rest, k, v, h => by
    simp only [limitsFreeFields, Bool.and_eq_true] at h
    simp only [orderedMember]
    split
    · exact ordered_limitsFree t v h.1
    · exact orderedMember_limitsFree rest k v h.2
end

/-- a tree without `LimitsType` validates exactly like the kind tree it is described as -/
theorem cvalidate_limitsFree (b : CType F) (h : b.limitsFree = true) (v : PVal F) (prev : Option (PVal F)) :
    cvalidate b v prev = validate b.erase v prev := by
  unfold cvalidate
  cases hv : validate b.erase v prev with
  | error e => rfl
  | ok r => simp [ordered_limitsFree b r h]

/-! ## rebuild and copy: classes -/

mutual
theorem erase_ofKind : ∀ t : DType F, (ofKind t).erase = t
  | .array e a b => by simp only [ofKind, erase, erase_ofKind e]
  | .tuple es => by simp only [ofKind, erase, eraseList_ofKindList es]
  | .struct ms opt c => by simp only [ofKind, erase, eraseFields_ofKindFields ms]
  | .double .. => rfl
  | .int .. => rfl
  | .scaled .. => rfl
  | .bool => rfl
  | .enum _ => rfl
  | .string .. => rfl
  | .blob .. => rfl
theorem eraseList_ofKindList : ∀ ts : List (DType F), eraseList (ofKindList ts) = ts
  | [] => rfl
  | t :: ts => by simp only [ofKindList, eraseList, erase_ofKind t, eraseList_ofKindList ts]
theorem eraseFields_ofKindFields : ∀ ms : List (String × DType F), eraseFields (ofKindFields ms) = ms
  | [] => rfl
  | (k, t) :: ts => by simp only [ofKindFields, eraseFields, erase_ofKind t, eraseFields_ofKindFields ts]
end

mutual
theorem limitsFree_ofKind : ∀ t : DType F, (ofKind t).limitsFree = true
  | .array e a b => by simp only [ofKind, limitsFree, limitsFree_ofKind e]
  | .tuple es => by simp only [ofKind, limitsFree, limitsFreeList_ofKindList es]
  | .struct ms opt c => by simp only [ofKind, limitsFree, limitsFreeFields_ofKindFields ms]
  | .double .. => rfl
  | .int .. => rfl
  | .scaled .. => rfl
  | .bool => rfl
  | .enum _ => rfl
  | .string .. => rfl
  | .blob .. => rfl
theorem limitsFreeList_ofKindList : ∀ ts : List (DType F), limitsFreeList (ofKindList ts) = true
  | [] => rfl
  | t :: ts => by simp only [ofKindList, limitsFreeList, limitsFree_ofKind t, limitsFreeList_ofKindList ts, Bool.and_self]
theorem limitsFreeFields_ofKindFields : ∀ ms : List (String × DType F), limitsFreeFields (ofKindFields ms) = true
  | [] => rfl
  | (k, t) :: ts => by
    simp only [ofKindFields, limitsFreeFields, limitsFree_ofKind t, limitsFreeFields_ofKindFields ts, Bool.and_self]
end

mutual
theorem erase_copyC : ∀ a : CType F, (copyC a).erase = a.erase
  | .leaf _ => rfl
  | .text _ => rfl
  | .array e _ _ => by simp only [copyC, erase, erase_copyC e]
  | .tuple es => by simp only [copyC, erase, eraseList_copyCList es]
  | .limits m => by simp only [copyC, erase, erase_copyC m]
  | .status _ => by simp only [copyC, erase, eraseList]
  | .struct ms _ _ => by simp only [copyC, erase, eraseFields_copyCFields ms]
theorem eraseList_copyCList : ∀ es : List (CType F), eraseList (copyCList es) = eraseList es
  | [] => rfl
  | t :: ts => by simp only [copyCList, eraseList, erase_copyC t, eraseList_copyCList ts]
theorem eraseFields_copyCFields : ∀ ms : List (String × CType F), eraseFields (copyCFields ms) = eraseFields ms
  | [] => rfl
  | (k, t) :: ts => by simp only [copyCFields, eraseFields, erase_copyC t, eraseFields_copyCFields ts]
end

theorem all_congr' {α : Type} {f g : α → Bool} (h : ∀ x, f x = g x) : ∀ l : List α, l.all f = l.all g
  | [] => rfl
  | x :: xs => by simp only [List.all_cons, h x, all_congr' h xs]

mutual
theorem ordered_copyC : ∀ (a : CType F) (r : PVal F), ordered (copyC a) r = ordered a r
  | .leaf _, _ => rfl
  | .text _, _ => rfl
  | .array e _ _, r => by
    cases r <;> simp only [copyC, ordered]
    case tuple vs => exact all_congr' (ordered_copyC e) vs
  | .tuple es, r => by
    cases r <;> simp only [copyC, ordered]
    case tuple vs => exact orderedZip_copyCList es vs
  | .limits m, r => by
    cases r <;> simp only [copyC, ordered]
    case tuple vs =>
      match vs with
      | [] => rfl
      | [x] => rfl
      | [x, y] => simp only [ordered_copyC m x, ordered_copyC m y]
      | _ :: _ :: _ :: _ => rfl
  | .status _, r => by
    cases r <;> simp only [copyC, ordered]
    case tuple vs =>
      match vs with
      | [] => simp [orderedZip]
      | [x] => simp [orderedZip, ordered]
      | x :: y :: rest => simp [orderedZip, ordered]
  | .struct ms _ _, r => by
    cases r <;> simp only [copyC, ordered]
    case dict fields => exact all_congr' (fun kv => orderedMember_copyCFields ms kv.1 kv.2) fields
theorem orderedZip_copyCList : ∀ (es : List (CType F)) (vs : List (PVal F)),
    orderedZip (copyCList es) vs = orderedZip es vs
  | [], _ => by simp only [copyCList, orderedZip]
  | _ :: _, [] => by simp only [copyCList, orderedZip]
  | t :: ts, v :: vs => by simp only [copyCList, orderedZip, ordered_copyC t v, orderedZip_copyCList ts vs]
theorem orderedMember_copyCFields : ∀ (ms : List (String × CType F)) (k : String) (v : PVal F),
    orderedMember (copyCFields ms) k v = orderedMember ms k v
  | [], _, _ => rfl
  | (k', t) :: rest, k, v => by
    simp only [copyCFields, orderedMember, ordered_copyC t v, orderedMember_copyCFields rest k v]
end

/-- the copy validates exactly like the original -/
theorem cvalidate_copyC (a : CType F) (v : PVal F) (prev : Option (PVal F)) :
    cvalidate (copyC a) v prev = cvalidate a v prev := by
  unfold cvalidate
  rw [erase_copyC]
  cases validate a.erase v prev with
  | error e => rfl
  | ok r => simp only [ordered_copyC a r]

/-- the type rebuilt from the description validates like the original when the original holds no `LimitsType` -/
theorem cvalidate_rebuildC (a : CType F) (h : a.limitsFree = true) (v : PVal F) (prev : Option (PVal F)) :
    cvalidate (rebuildC a) v prev = cvalidate a v prev := by
  rw [cvalidate_limitsFree a h, rebuildC, cvalidate_limitsFree _ (limitsFree_ofKind _), erase_ofKind]

end Frappy.Lemmas.C03V
