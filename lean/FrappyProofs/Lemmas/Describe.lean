import FrappyProofs.Lemmas.Dispatch
import FrappyModel.Spec.C06
/-
Helper lemmas for C06: the report entry of a name is computed from the accessible the dispatcher resolves for that name.
-/
namespace Frappy.Lemmas.Describe
open Frappy.Node Frappy.Spec.C04 Frappy.Spec.C06 Frappy.Lemmas.Dispatch

variable {J V : Type}

theorem describeAcc_none (pre : Predef) (m : Module J V) (a : Acc J V) (h : wireName pre m a = none) :
    describeAcc pre m a = none := by
  unfold describeAcc; rw [h]

theorem describeAcc_param (pre : Predef) (m : Module J V) (p : Param J V) (w : String)
    (h : wireName pre m (.param p) = some w) :
    describeAcc pre m (.param p) =
      some ⟨w, .parameter, p.dt.datainfo, some p.readonly, p.constant.map p.dt.exportV, p.props, none⟩ := by
  unfold describeAcc; rw [h]

theorem describeAcc_command (pre : Predef) (m : Module J V) (c : Command J V) (w : String)
    (h : wireName pre m (.command c) = some w) :
    describeAcc pre m (.command c) = some ⟨w, .command, c.datainfo, none, none, c.props, some c.arg.isSome⟩ := by
  unfold describeAcc; rw [h]

theorem describeAcc_some (pre : Predef) (m : Module J V) (a : Acc J V) (w : String) (h : wireName pre m a = some w) :
    ∃ ad, describeAcc pre m a = some ad ∧ ad.name = w := by
  cases a with
  | param p => exact ⟨_, describeAcc_param pre m p w h, rfl⟩
  | command c => exact ⟨_, describeAcc_command pre m c w h, rfl⟩

theorem describeAcc_name (pre : Predef) (m : Module J V) (a : Acc J V) (ad : AccDesc J)
    (h : describeAcc pre m a = some ad) : wireName pre m a = some ad.name := by
  cases hw : wireName pre m a with
  | none => rw [describeAcc_none pre m a hw] at h; cases h
  | some w =>
    obtain ⟨ad', h', hn⟩ := describeAcc_some pre m a w hw
    rw [h] at h'; injection h' with h'; rw [h', hn]

theorem find_desc_accs (pre : Predef) (m : Module J V) (a : String) (l : List (Acc J V)) :
    (l.filterMap (describeAcc pre m)).find? (fun ad => ad.name == a) =
      (l.find? (fun x => wireName pre m x == some a)).bind (describeAcc pre m) := by
  induction l with
  | nil => rfl
  | cons x xs ih =>
    cases hw : wireName pre m x with
    | none =>
      rw [List.filterMap_cons, describeAcc_none pre m x hw, List.find?_cons]
      simp only [hw]
      exact ih
    | some w =>
      obtain ⟨ad, had, hn⟩ := describeAcc_some pre m x w hw
      rw [List.filterMap_cons, had, List.find?_cons, List.find?_cons, hw, hn]
      by_cases hwa : w = a
      · subst hwa; simp [had]
      · have h1 : (w == a) = false := by simpa using hwa
        have h2 : (some w == some a) = false := by simpa using hwa
        rw [h1, h2]; exact ih

theorem find_filter_names (n : Node J V) (h : namesNodup n) (m : String) :
    (n.filter (fun x => x.exported)).find? (fun x => x.name == m) = (findModule n m).filter (fun x => x.exported) := by
  unfold findModule
  induction n with
  | nil => rfl
  | cons x xs ih =>
    unfold namesNodup at h
    rw [List.map_cons, List.nodup_cons] at h
    have ih' := ih h.2
    by_cases hx : x.name = m
    · have hb : (x.name == m) = true := by simpa using hx
      rw [List.find?_cons, hb]
      have hnone : ∀ l : List (Module J V), (∀ y ∈ l, y ∈ xs) → l.find? (fun y => y.name == m) = none := by
        intro l hl
        rw [List.find?_eq_none]
        intro y hy hym
        apply h.1
        have : y.name = m := by simpa using hym
        rw [hx, ← this]; exact List.mem_map_of_mem (hl y hy)
      cases he : x.exported with
      | true =>
        rw [List.filter_cons, if_pos he, List.find?_cons, hb]
        simp [Option.filter, he]
      | false =>
        rw [List.filter_cons, if_neg (by simp [he])]
        rw [hnone _ (fun y hy => (List.mem_filter.1 hy).1)]
        simp [Option.filter, he]
    · have hb : (x.name == m) = false := by simpa using hx
      rw [List.find?_cons, hb]
      cases he : x.exported with
      | true => rw [List.filter_cons, if_pos he, List.find?_cons, hb]; exact ih'
      | false => rw [List.filter_cons, if_neg (by simp [he])]; exact ih'

/-- the report entry of `(m, a)` is made from the accessible the dispatcher finds under that name -/
theorem findDesc_eq (pre : Predef) (n : Node J V) (h : namesNodup n) (m a : String) :
    findDesc (describe pre n) m a =
      match findModule n m with
      | some mod => if mod.exported then (findWire pre mod a).bind (describeAcc pre mod) else none
      | none => none := by
  unfold findDesc describe
  rw [List.find?_map]
  have : ((fun md : ModDesc J => md.name == m) ∘ describeModule pre) = (fun x : Module J V => x.name == m) := by
    funext x; rfl
  rw [this, find_filter_names n h m]
  cases hf : findModule n m with
  | none => rfl
  | some mod =>
    cases he : mod.exported with
    | false => simp [Option.filter, he]
    | true =>
      simp only [Option.filter, he, if_true, Option.map_some]
      unfold describeModule findWire
      exact find_desc_accs pre mod a mod.accs

/-- a described name resolves, in the dispatcher's own tables, to the accessible the entry was made from -/
theorem described_resolves (pre : Predef) (n : Node J V) (h : namesNodup n) (m a : String) (ad : AccDesc J)
    (hd : findDesc (describe pre n) m a = some ad) :
    ∃ mod acc, findModule n m = some mod ∧ mod.exported = true ∧ findWire pre mod a = some acc ∧
      wireName pre mod acc = some a ∧ describeAcc pre mod acc = some ad := by
  rw [findDesc_eq pre n h m a] at hd
  cases hf : findModule n m with
  | none => rw [hf] at hd; cases hd
  | some mod =>
    rw [hf] at hd; simp only at hd
    cases he : mod.exported with
    | false => rw [he] at hd; cases hd
    | true =>
      rw [he] at hd; simp only [if_true] at hd
      cases hw : findWire pre mod a with
      | none => rw [hw] at hd; cases hd
      | some acc =>
        rw [hw] at hd; simp only [Option.bind_some] at hd
        have hwn : wireName pre mod acc = some a := by
          unfold findWire at hw; simpa using List.find?_some hw
        exact ⟨mod, acc, rfl, he, hw, hwn, hd⟩

end Frappy.Lemmas.Describe
