import FrappyProofs.Lemmas.WireCore
/-
C02: `from_string (to_string v)` is accepted and has the identical text form — by mutual structural
induction over all datatype trees (leaves, arrays, tuples incl. the one-member tuple, structs with their members in
the order of the value).  The value the text is read as is `Sendable` (finite double leaves, scaled leaves the grid
reproduces): what the client string write needs.
-/
set_option linter.unusedSectionVars false
set_option linter.unusedVariables false
namespace Frappy.Lemmas.C02
open FloatOps DType Frappy.Datatypes Frappy.Spec.C01 Frappy.Spec.C02
open PVal (seqItems? dictSet)

variable {F : Type} [FloatOps F] [WireLaws F]

mutual
/-- what the text round trip needs of the tree: `DType.WF` without the conditions on the limits of scaled leaves and
on the optional list (a client's rebuilt type has other limits at its scaled leaves: `clientOf`) -/
def WFT : DType F → Prop
  | .double min max ar rr => (DType.double min max ar rr).WF
  | .int min max => (DType.int min max : DType F).WF
  | .enum ms => (DType.enum ms : DType F).WF
  | .array e _ _ => WFT e
  | .tuple es => WFTList es
  | .struct ms _ _ => WFTFields ms
  | _ => True
def WFTList : List (DType F) → Prop
  | [] => True
  | t :: ts => WFT t ∧ WFTList ts
def WFTFields : List (String × DType F) → Prop
  | [] => True
  | (_, t) :: ts => WFT t ∧ WFTFields ts
end

mutual
theorem wft_of_wf : ∀ (dt : DType F), dt.WF → WFT dt
  | .double .., h => by simpa [WFT] using h
  | .int .., h => by simpa [WFT] using h
  | .enum _, h => by simpa [WFT] using h
  | .scaled .., _ => by simp [WFT]
  | .bool, _ => by simp [WFT]
  | .string .., _ => by simp [WFT]
  | .blob .., _ => by simp [WFT]
  | .array e _ _, h => by
    simp only [DType.WF] at h
    simp only [WFT]
    exact wft_of_wf e h.1
  | .tuple es, h => by
    simp only [DType.WF] at h
    simp only [WFT]
    exact wft_of_wf_list es h.2
  | .struct ms _ _, h => by
    simp only [DType.WF] at h
    simp only [WFT]
    exact wft_of_wf_fields ms h.2.2.2
theorem wft_of_wf_list : ∀ (ts : List (DType F)), WFList ts → WFTList ts
  | [], _ => by simp [WFTList]
  | t :: ts, h => by
    simp only [WFList] at h
    simp only [WFTList]
    exact ⟨wft_of_wf t h.1, wft_of_wf_list ts h.2⟩
theorem wft_of_wf_fields : ∀ (ms : List (String × DType F)), WFFields ms → WFTFields ms
  | [], _ => by simp [WFTFields]
  | (_, t) :: ms, h => by
    simp only [WFFields] at h
    simp only [WFTFields]
    exact ⟨wft_of_wf t h.1, wft_of_wf_fields ms h.2⟩
end

/-- what the text round trip of one node establishes -/
def TR (lib : TextLib F) (pos : List Nat) (dt : DType F) (v : PVal F) : Prop :=
  ∃ s w v', formatValue lib pos dt v = some s ∧ literalEval lib s = some w ∧ call dt w = .ok v' ∧
    formatValue lib pos dt v' = some s ∧ SameButFloats v' v ∧ Sendable dt v'

theorem find_member_name {ms : List (String × Int)} {n : String} {k : Int} (hm : (n, k) ∈ ms)
    (hnd : (ms.map (·.1)).Nodup) : enumByName ms n = some (n, k) := by
  induction ms with
  | nil => cases hm
  | cons hd tl ih =>
    obtain ⟨n', k'⟩ := hd
    simp only [List.map_cons, List.nodup_cons] at hnd
    simp only [enumByName, List.find?]
    rcases List.mem_cons.mp hm with h | h
    · cases h; simp
    · have hne : ¬ n' = n := by
        intro e
        exact hnd.1 (e ▸ List.mem_map.mpr ⟨(n, k), h, rfl⟩)
      have : (n' == n) = false := by simpa using hne
      simp only [this]
      exact ih h hnd.2

theorem canonList_mem : ∀ (vs : List (PVal F)), CanonList vs → ∀ x ∈ vs, Canon x
  | [], _, x, hx => by cases hx
  | v :: vs, h, x, hx => by
    simp only [CanonList] at h
    rcases List.mem_cons.mp hx with rfl | hx
    · exact h.1
    · exact canonList_mem vs h.2 x hx

theorem canonFields_mem : ∀ (fs : List (String × PVal F)), CanonFields fs → ∀ kv ∈ fs, Canon kv.2
  | [], _, x, hx => by cases hx
  | (k, v) :: fs, h, x, hx => by
    simp only [CanonFields] at h
    rcases List.mem_cons.mp hx with rfl | hx
    · exact h.1
    · exact canonFields_mem fs h.2 x hx

theorem parenValue_len (ws : List (PVal F)) (n : Nat) (h : ws.length = n) :
    parenValue (n == 1) ws = .tuple ws := by
  match ws, h with
  | [], h => subst h; simp [parenValue]
  | [w], h => subst h; simp [parenValue]
  | a :: b :: rest, h => subst h; simp [parenValue]

/-! ### what `__call__` returns at the float leaves -/

/-- `clamp(-max, x, max)` of a number is finite -/
theorem median3_finite (x : F) (hn : isNaN x = false) : FiniteNum (median3 (neg maxFinite) x maxFinite) := by
  have hac := WireLaws.negMax_le_max (F := F)
  obtain ⟨ha, hc⟩ := WireLaws.le_notNaN _ _ hac
  unfold median3
  by_cases h1 : le (neg maxFinite) x = true
  · by_cases h2 : le x maxFinite = true
    · simp only [h1, h2, if_true]
      exact ⟨hn, h1, h2⟩
    · simp only [h1, h2, hac, if_true]
      exact ⟨hc, hac, WireLaws.le_refl _ hc⟩
  · simp only [h1, hac, if_true]
    exact ⟨ha, WireLaws.le_refl _ ha, hac⟩

theorem doubleCall_finite {w : PVal F} {y : F} (h : doubleCall w = .ok y) : FiniteNum y := by
  unfold doubleCall at h
  split at h
  · cases h
  · rename_i x hx
    by_cases hn : isNaN x = true
    · simp [hn] at h
    · have hn' : isNaN x = false := by simpa using hn
      simp only [hn'] at h
      cases h
      exact median3_finite x hn'

theorem scaledCall_notNaN {scale : F} {w : PVal F} {y : F} (h : scaledCall scale w = .ok y) : isNaN y = false := by
  unfold scaledCall at h
  split at h
  · cases h
  · split at h
    · cases h
    · split at h
      · cases h
      · split at h
        · rename_i hf
          cases h
          simp only [isFinite, Bool.and_eq_true, Bool.not_eq_true'] at hf
          exact hf.1
        · cases h

/-- `FloatRange.__call__` takes any number that is not NaN and brings it into the float range -/
theorem doubleCall_of_number {w : PVal F} {r : F} (h : PVal.toFloat? w = some r) (hn : isNaN r = false) :
    doubleCall w = .ok (median3 (neg maxFinite) r maxFinite) := by
  simp [doubleCall, h, hn]

/-- `ScaledInteger.__call__` takes any number whose nearest grid value exists and is finite, and returns that grid value -/
theorem scaledCall_of_number {scale : F} {w : PVal F} {r y : F} (h : PVal.toFloat? w = some r)
    (hs : DType.snap scale r = some y) (hf : isFinite y = true) : scaledCall scale w = .ok y := by
  unfold DType.snap at hs
  cases hg : DType.gridIndex scale r with
  | none => rw [hg] at hs; cases hs
  | some k =>
    rw [hg] at hs
    simp only [DType.ofGrid] at hs
    cases hk : (ofInt k : Option F) with
    | none => rw [hk] at hs; cases hs
    | some yk =>
      rw [hk] at hs
      simp only [Option.some.injEq] at hs
      subst hs
      simp [scaledCall, h, hg, hk, hf]

/-- `dt(None)` is refused by every datatype -/
theorem call_ne_none (dt : DType F) (v' : PVal F) : call dt .none ≠ .ok v' := by
  cases dt <;> simp [call, conv, doubleCall, scaledCall, intCall, boolCall, enumCall, stringCall, blobCall,
    PVal.toFloat?, seqItems?, Except.map]

/-! ### containers -/

theorem mapFormat_tr {lib : TextLib F} {f : PVal F → Option Surf} {g : PVal F → Option (PVal F) → Res F}
    {Q : PVal F → Prop} :
    ∀ (vs : List (PVal F)),
    (∀ v ∈ vs, ∃ s w v', f v = some s ∧ literalEval lib s = some w ∧ g w none = .ok v' ∧ f v' = some s ∧
      SameButFloats v' v ∧ Q v') →
    ∃ ss ws vs', mapFormat f vs = some ss ∧ literalEvalList lib ss = some ws ∧ mapPrev g ws [] = .ok vs' ∧
      mapFormat f vs' = some ss ∧ SameButFloatsList vs' vs ∧ ws.length = vs.length ∧ vs'.length = vs.length ∧
      (∀ x ∈ vs', Q x)
  | [], _ => ⟨[], [], [], rfl, by simp [literalEvalList], rfl, rfl, by simp [SameButFloatsList], rfl, rfl, by simp⟩
  | v :: vs, h => by
    obtain ⟨s, w, v', h1, h2, h3, h4, h5, h6⟩ := h v (List.mem_cons_self ..)
    obtain ⟨ss, ws, vs', g1, g2, g3, g4, g5, g6, g7, g8⟩ := mapFormat_tr vs (fun x hx => h x (List.mem_cons_of_mem _ hx))
    refine ⟨s :: ss, w :: ws, v' :: vs', ?_, ?_, ?_, ?_, ?_, ?_, ?_, ?_⟩
    · simp [mapFormat, h1, g1]
    · simp [literalEvalList, h2, g2]
    · simp [mapPrev, h3, g3]
    · simp [mapFormat, h4, g4]
    · simp [SameButFloatsList, h5, g5]
    · simp [g6]
    · simp [g7]
    · intro x hx
      rcases List.mem_cons.mp hx with rfl | hx
      · exact h6
      · exact g8 x hx

theorem foldFields_cons {g : String → PVal F → Option (Res F)} (k : String) (w r : PVal F)
    (rest acc : List (String × PVal F)) (hw : w ≠ .none) (hg : g k w = some (.ok r)) :
    foldFields g ((k, w) :: rest) acc = foldFields g rest (dictSet acc k r) := by
  cases w <;> simp_all [foldFields]

theorem structCheck_ok' (names opt : List String) (allow : Bool) (items : List (String × PVal F))
    (h1 : ∀ kv ∈ items, kv.1 ∈ names) (h2 : ∀ kv ∈ items, kv.2 ≠ .none)
    (h3 : ∀ k ∈ names, (allow = true ∧ k ∈ opt) ∨ k ∈ items.map (·.1)) : structCheck names opt allow items = true := by
  simp only [structCheck, Bool.and_eq_true, List.all_eq_true, Bool.or_eq_true, givenKeys_of_noNone items h2]
  refine ⟨fun kv hkv => by simpa using h1 kv hkv, fun k hk => ?_⟩
  rcases h3 k hk with ⟨ha, ho⟩ | hin
  · right; simp [ha, ho]
  · left; simpa using hin

/-- the members of a struct value, one after the other: printed with their quoted keys, read into a dict (no key
repeats, so every `d[k] = w` appends), converted member by member into a dict with the same keys in the same order -/
theorem fields_tr {lib : TextLib F} (hl : TextLib.Lawful lib) {f : String → PVal F → Option Surf}
    {g : String → PVal F → Option (Res F)} {Q : String → PVal F → Prop} :
    ∀ (fields acc acc' : List (String × PVal F)),
    (∀ kv ∈ fields, ∃ s w v', f kv.1 kv.2 = some s ∧ literalEval lib s = some w ∧ w ≠ .none ∧
      g kv.1 w = some (.ok v') ∧ f kv.1 v' = some s ∧ SameButFloats v' kv.2 ∧ Q kv.1 v') →
    (fields.map (·.1)).Nodup → (∀ k ∈ fields.map (·.1), k ∉ acc.map (·.1)) → (∀ k ∈ fields.map (·.1), k ∉ acc'.map (·.1)) →
    ∃ sfs ws vs', mapFieldsFormat lib.reprStr f fields = some sfs ∧
      literalEvalFields lib sfs acc = some (acc ++ ws) ∧ foldFields g ws acc' = .ok (acc' ++ vs') ∧
      mapFieldsFormat lib.reprStr f vs' = some sfs ∧ SameButFloatsFields vs' fields ∧
      ws.map (·.1) = fields.map (·.1) ∧ vs'.map (·.1) = fields.map (·.1) ∧ (∀ kv ∈ ws, kv.2 ≠ .none) ∧
      (∀ kv ∈ vs', Q kv.1 kv.2)
  | [], acc, acc', _, _, _, _ =>
    ⟨[], [], [], rfl, by simp [literalEvalFields], by simp [foldFields], rfl, by simp [SameButFloatsFields], rfl, rfl,
      by simp, by simp⟩
  | (k, v) :: rest, acc, acc', h, hnd, hdis, hdis' => by
    obtain ⟨s, w, v', h1, h2, hw, h3, h4, h5, h6⟩ := h (k, v) (List.mem_cons_self ..)
    simp only [List.map_cons, List.nodup_cons] at hnd
    have hset : dictSet acc k w = acc ++ [(k, w)] := dictSet_fresh acc k w (hdis k (by simp))
    have hset' : dictSet acc' k v' = acc' ++ [(k, v')] := dictSet_fresh acc' k v' (hdis' k (by simp))
    have hd : ∀ k' ∈ rest.map (·.1), k' ∉ (acc ++ [(k, w)]).map (·.1) := by
      intro k' hk' hmem
      simp only [List.map_append, List.map_cons, List.map_nil, List.mem_append, List.mem_singleton] at hmem
      rcases hmem with hmem | rfl
      · exact hdis k' (by simp [hk']) hmem
      · exact hnd.1 hk'
    have hd' : ∀ k' ∈ rest.map (·.1), k' ∉ (acc' ++ [(k, v')]).map (·.1) := by
      intro k' hk' hmem
      simp only [List.map_append, List.map_cons, List.map_nil, List.mem_append, List.mem_singleton] at hmem
      rcases hmem with hmem | rfl
      · exact hdis' k' (by simp [hk']) hmem
      · exact hnd.1 hk'
    obtain ⟨sfs, ws, vs', g1, g2, g3, g4, g5, g6, g7, g8, g9⟩ :=
      fields_tr hl rest (acc ++ [(k, w)]) (acc' ++ [(k, v')])
        (fun kv hkv => h kv (List.mem_cons_of_mem _ hkv)) hnd.2 hd hd'
    refine ⟨(lib.reprStr k, s) :: sfs, (k, w) :: ws, (k, v') :: vs', ?_, ?_, ?_, ?_, ?_, ?_, ?_, ?_, ?_⟩
    · simp [mapFieldsFormat, h1, g1]
    · simp [literalEvalFields, hl.evalStr, h2, hset, g2]
    · rw [foldFields_cons k w v' ws acc' hw h3, hset', g3]
      simp
    · simp [mapFieldsFormat, h4, g4]
    · simp [SameButFloatsFields, h5, g5]
    · simp [g6]
    · simp [g7]
    · intro kv hkv
      rcases List.mem_cons.mp hkv with rfl | hkv
      · exact hw
      · exact g8 kv hkv
    · intro kv hkv
      rcases List.mem_cons.mp hkv with rfl | hkv
      · exact h6
      · exact g9 kv hkv

mutual
theorem text_core (lib : TextLib F) (hl : TextLib.Lawful lib) : ∀ (dt : DType F) (pos : List Nat) (v : PVal F),
    WFT dt → Valid dt v → Canon v → TextComplete dt v → TR lib pos dt v
  | .double min max ar rr, pos, v, hwf, hv, hc, htc => by
    cases v <;> simp only [Valid, InSetG] at hv <;> try exact hv.elim
    case float x =>
      simp only [Canon] at hc
      simp only [WFT] at hwf
      have hfin := double_finite hwf hv
      obtain ⟨w, r, h1, hr, hn, h3⟩ := hl.fmtDouble pos x hfin hc
      have h2 := doubleCall_of_number hr hn
      exact ⟨.atom (lib.fmtFloat pos x), w, .float (median3 (neg maxFinite) r maxFinite), rfl, by simp [literalEval, h1],
        by simp [call, conv, h2, Except.map], by simp [formatValue, fmtNumber, h3], by simp [SameButFloats],
        by simpa [Sendable] using doubleCall_finite h2⟩
  | .scaled scale min max ar rr, pos, v, hwf, hv, hc, htc => by
    cases v <;> simp only [Valid, InSetG] at hv <;> try exact hv.elim
    case float x =>
      simp only [Canon] at hc
      obtain ⟨w, r, y, h1, hr, hs, hf, h3, h4⟩ := hl.fmtScaled pos scale x hv.1 hc
      have h2 := scaledCall_of_number hr hs hf
      exact ⟨.atom (lib.fmtFloat pos x), w, .float y, rfl, by simp [literalEval, h1],
        by simp [call, conv, h2, Except.map], by simp [formatValue, fmtNumber, h3], by simp [SameButFloats],
        by simpa [Sendable] using And.intro h4 (scaledCall_notNaN h2)⟩
  | .int min max, pos, v, hwf, hv, hc, htc => by
    cases v <;> simp only [Valid, InSetG] at hv <;> try exact hv.elim
    case int i =>
      simp only [WFT, DType.WF] at hwf
      obtain ⟨y, hy⟩ := WireLaws.ofInt_inRange (F := F) i (by omega) (by omega)
      exact ⟨.atom (lib.fmtInt i), .int i, .int i, rfl, by simp [literalEval, hl.evalInt],
        by simp [call, conv, intCall, hy, Except.map], rfl, by simp [SameButFloats], by simpa [Sendable, InSetG] using hv⟩
  | .bool, pos, v, hwf, hv, hc, htc => by
    cases v <;> simp only [Valid, InSetG] at hv <;> try exact hv.elim
    case bool b =>
      exact ⟨.atom (lib.reprBool b), .bool b, .bool b, rfl, by simp [literalEval, hl.evalBool],
        by simp [call, conv, boolCall, Except.map], rfl, by simp [SameButFloats], by simp [Sendable, InSetG]⟩
  | .enum ms, pos, v, hwf, hv, hc, htc => by
    cases v <;> simp only [Valid, InSetG] at hv <;> try exact hv.elim
    case enum n k =>
      simp only [WFT, DType.WF] at hwf
      have hf := find_member_name hv hwf.2.1
      exact ⟨.atom (lib.reprStr n), .str n, .enum n k, rfl, by simp [literalEval, hl.evalStr],
        by simp [call, conv, enumCall, hf], rfl, by simp [SameButFloats], by simpa [Sendable, InSetG] using hv⟩
  | .string minc maxc utf8, pos, v, hwf, hv, hc, htc => by
    cases v <;> simp only [Valid, InSetG] at hv <;> try exact hv.elim
    case str s =>
      have h := string_rt (F := F) hv
      exact ⟨.atom (lib.reprStr s), .str s, .str s, rfl, by simp [literalEval, hl.evalStr],
        by simp [call, conv, h, Except.map], rfl, by simp [SameButFloats], by simpa [Sendable, InSetG] using hv⟩
  | .blob minb maxb, pos, v, hwf, hv, hc, htc => by
    cases v <;> simp only [Valid, InSetG] at hv <;> try exact hv.elim
    case bytes b =>
      have h1 : ¬ b.length < minb := by omega
      have h2 : ¬ b.length > maxb := by omega
      exact ⟨.atom (lib.reprBytes b), .bytes b, .bytes b, rfl, by simp [literalEval, hl.evalBytes],
        by simp [call, conv, blobCall, h1, h2, Except.map], rfl, by simp [SameButFloats], by simpa [Sendable, InSetG] using hv⟩
  | .array elem lo hi, pos, v, hwf, hv, hc, htc => by
    cases v <;> simp only [Valid, InSetG] at hv <;> try exact hv.elim
    case tuple vs =>
      simp only [WFT] at hwf
      simp only [Canon] at hc
      simp only [TextComplete] at htc
      obtain ⟨hall, hlo, hhi⟩ := hv
      have hcl : ∀ x ∈ vs, Canon x := canonList_mem vs hc
      obtain ⟨ss, ws, vs', g1, g2, g3, g4, g5, g6, g7, g8⟩ :=
        mapFormat_tr (lib := lib) (f := formatValue lib (pos ++ [0]) elem) (g := conv .call elem) (Q := Sendable elem) vs
          (fun x hx => by
            obtain ⟨s, w, v', a, b, c, d, e, q⟩ := text_core lib hl elem (pos ++ [0]) x hwf (hall x hx) (hcl x hx) (htc x hx)
            exact ⟨s, w, v', a, b, c, d, e, q⟩)
      have h1 : ¬ ws.length < lo := by omega
      have h2 : ¬ ws.length > hi := by omega
      refine ⟨.list ss, .list ws, .tuple vs', ?_, ?_, ?_, ?_, ?_, ?_⟩
      · simp [formatValue, seqItems?, g1]
      · simp [literalEval, g2]
      · simp [call, conv, seqItems?, h1, h2, g3, mapErr, Except.map]
      · simp [formatValue, seqItems?, g4]
      · simpa [SameButFloats] using g5
      · simp only [Sendable]
        exact ⟨g8, by omega, by omega⟩
  | .tuple elems, pos, v, hwf, hv, hc, htc => by
    cases v <;> simp only [Valid, InSetG] at hv <;> try exact hv.elim
    case tuple vs =>
      simp only [WFT] at hwf
      simp only [Canon] at hc
      simp only [TextComplete] at htc
      obtain ⟨ss, ws, vs', g1, g2, g3, g4, g5, g6, g7, g8, g9⟩ := text_core_zip lib hl elems pos 0 vs hwf hv hc htc
      have hlen : ws.length = ss.length := by omega
      refine ⟨.paren ss (ss.length == 1), .tuple ws, .tuple vs', ?_, ?_, ?_, ?_, ?_, ?_⟩
      · simp [formatValue, seqItems?, g1]
      · simp [literalEval, g2, parenValue_len ws ss.length hlen]
      · have : ws.length = elems.length := by omega
        simp [call, conv, seqItems?, this, g3, mapErr, Except.map]
      · simp [formatValue, seqItems?, g4]
      · simpa [SameButFloats] using g5
      · simpa [Sendable] using g9
  | .struct ms opt cl, pos, v, hwf, hv, hc, htc => by
    cases v <;> simp only [Valid, InSetG] at hv <;> try exact hv.elim
    case dict fields =>
      simp only [WFT] at hwf
      simp only [Canon] at hc
      simp only [TextComplete] at htc
      obtain ⟨hmem, hnd, hmand⟩ := hv
      obtain ⟨hall, htcm⟩ := htc
      have hcf := canonFields_mem fields hc
      obtain ⟨sfs, ws, vs', g1, g2, g3, g4, g5, g6, g7, g8, g9⟩ :=
        fields_tr hl (f := formatMember lib pos 0 ms) (g := convMember .call ms) (Q := SendableMember ms) fields [] []
          (fun kv hkv => text_core_member lib hl ms pos 0 kv.1 kv.2 hwf (hmem kv hkv) (hcf kv hkv) (htcm kv hkv))
          hnd (by simp) (by simp)
      simp only [List.nil_append] at g2 g3
      have hkeys : ∀ kv ∈ ws, kv.1 ∈ ms.map (·.1) := by
        intro kv hkv
        have : kv.1 ∈ fields.map (·.1) := by rw [← g6]; exact List.mem_map.mpr ⟨kv, hkv, rfl⟩
        obtain ⟨kv', hkv', he⟩ := List.mem_map.mp this
        rw [← he]
        exact (memberIn_key ms kv'.1 kv'.2 (hmem kv' hkv')).1
      have hcheck : structCheck (ms.map (·.1)) opt cl ws = true := by
        refine structCheck_ok' _ _ _ _ hkeys g8 (fun k hk => ?_)
        rw [g6]
        cases cl with
        | false => exact Or.inr (hall rfl k hk)
        | true =>
          by_cases ho : k ∈ opt
          · exact Or.inl ⟨rfl, ho⟩
          · exact Or.inr (hmand k hk ho)
      have hmode : (cl || (Mode.call == Mode.validate)) = cl := by cases cl <;> rfl
      refine ⟨.dict sfs, .dict ws, .dict vs', ?_, ?_, ?_, ?_, ?_, ?_⟩
      · simp [formatValue, g1]
      · simp [literalEval, g2]
      · simp [call, conv, hmode, hcheck, structFold, foldFields, g3, mapErr, Except.map]
      · simp [formatValue, g4]
      · simpa [SameButFloats] using g5
      · simp only [Sendable]
        exact ⟨g9, by rw [g7]; exact hnd, by rw [g7]; exact hmand⟩
theorem text_core_zip (lib : TextLib F) (hl : TextLib.Lawful lib) : ∀ (ts : List (DType F)) (pos : List Nat) (i : Nat) (vs : List (PVal F)),
    WFTList ts → ZipInG SnapFix ts vs → CanonList vs → TextCompleteZip ts vs →
    ∃ ss ws vs', formatTuple lib pos i ts vs = some ss ∧ literalEvalList lib ss = some ws ∧
      convTuple .call ts ws none = .ok vs' ∧ formatTuple lib pos i ts vs' = some ss ∧ SameButFloatsList vs' vs ∧
      ws.length = ts.length ∧ ss.length = ts.length ∧ vs'.length = ts.length ∧ SendableZip ts vs'
  | [], pos, i, [], _, _, _, _ =>
    ⟨[], [], [], rfl, by simp [literalEvalList], rfl, rfl, by simp [SameButFloatsList], rfl, rfl, rfl, by simp [SendableZip]⟩
  | t :: ts, pos, i, v :: vs, hwf, hz, hc, htc => by
    simp only [WFTList] at hwf
    simp only [ZipInG] at hz
    simp only [CanonList] at hc
    simp only [TextCompleteZip] at htc
    obtain ⟨s, w, v', h1, h2, h3, h4, h5, h6⟩ := text_core lib hl t (pos ++ [i]) v hwf.1 hz.1 hc.1 htc.1
    obtain ⟨ss, ws, vs', g1, g2, g3, g4, g5, g6, g7, g8, g9⟩ := text_core_zip lib hl ts pos (i + 1) vs hwf.2 hz.2 hc.2 htc.2
    refine ⟨s :: ss, w :: ws, v' :: vs', ?_, ?_, ?_, ?_, ?_, ?_, ?_, ?_, ?_⟩
    · simp [formatTuple, h1, g1]
    · simp [literalEvalList, h2, g2]
    · simp only [call] at h3
      simp [convTuple, h3, g3]
    · simp [formatTuple, h4, g4]
    · simp [SameButFloatsList, h5, g5]
    · simp [g6]
    · simp [g7]
    · simp [g8]
    · simp [SendableZip, h6, g9]
  | [], _, _, _ :: _, _, hz, _, _ => by simp [ZipInG] at hz
  | _ :: _, _, _, [], _, hz, _, _ => by simp [ZipInG] at hz
theorem text_core_member (lib : TextLib F) (hl : TextLib.Lawful lib) : ∀ (ms : List (String × DType F)) (pos : List Nat) (i : Nat)
    (k : String) (v : PVal F), WFTFields ms → MemberInG SnapFix ms k v → Canon v → TextCompleteMember ms k v →
    ∃ s w v', formatMember lib pos i ms k v = some s ∧ literalEval lib s = some w ∧ w ≠ .none ∧
      convMember .call ms k w = some (.ok v') ∧ formatMember lib pos i ms k v' = some s ∧ SameButFloats v' v ∧
      SendableMember ms k v'
  | [], _, _, _, _, _, h, _, _ => by simp [MemberInG] at h
  | (k', t) :: rest, pos, i, k, v, hwf, h, hc, htc => by
    simp only [WFTFields] at hwf
    simp only [MemberInG] at h
    simp only [TextCompleteMember] at htc
    by_cases e : k' = k
    · simp only [e, if_true] at h htc
      obtain ⟨s, w, v', h1, h2, h3, h4, h5, h6⟩ := text_core lib hl t (pos ++ [i]) v hwf.1 h hc htc
      refine ⟨s, w, v', by simp [formatMember, e, h1], h2, ?_, ?_, by simp [formatMember, e, h4], h5,
        by simp [SendableMember, e, h6]⟩
      · intro hw
        subst hw
        exact call_ne_none t v' h3
      · simp only [call] at h3
        simp [convMember, e, h3]
    · simp only [e, if_false] at h htc
      obtain ⟨s, w, v', h1, h2, hw, h3, h4, h5, h6⟩ := text_core_member lib hl rest pos (i + 1) k v hwf.2 h hc htc
      exact ⟨s, w, v', by simp [formatMember, e, h1], h2, hw, by simp [convMember, e, h3], by simp [formatMember, e, h4], h5,
        by simp [SendableMember, e, h6]⟩
end

end Frappy.Lemmas.C02
