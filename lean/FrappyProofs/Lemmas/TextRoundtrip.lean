import FrappyProofs.Lemmas.WireRoundtrip
/-
C02: `from_string (to_string v)` is accepted and has the identical text form — by mutual structural
induction over datatype trees without struct nodes (leaves, arrays, tuples incl. the one-member tuple).
-/
set_option linter.unusedSectionVars false
set_option linter.unusedVariables false
namespace Frappy.Lemmas.C02
open FloatOps DType Frappy.Datatypes Frappy.Spec.C01 Frappy.Spec.C02
open PVal (seqItems?)

variable {F : Type} [FloatOps F] [WireLaws F]

mutual
/-- no struct node in the tree -/
def NoStruct : DType F → Prop
  | .struct _ _ _ => False
  | .array e _ _ => NoStruct e
  | .tuple es => NoStructList es
  | _ => True
def NoStructList : List (DType F) → Prop
  | [] => True
  | t :: ts => NoStruct t ∧ NoStructList ts
end

/-- what the text round trip of one node establishes -/
def TR (lib : TextLib F) (pos : List Nat) (dt : DType F) (v : PVal F) : Prop :=
  ∃ s w v', formatValue lib pos dt v = some s ∧ literalEval lib s = some w ∧ call dt w = .ok v' ∧
    formatValue lib pos dt v' = some s ∧ SameButFloats v' v

theorem find_member_name {ms : List (String × Int)} {n : String} {k : Int} (hm : (n, k) ∈ ms)
    (hnd : (ms.map (·.1)).Nodup) : enumByName ms n = some (n, k) := by
  induction ms with
  | nil => cases hm
  | cons hd tl ih =>
    obtain ⟨n', k'⟩ := hd
    simp only [List.map_cons, List.nodup_cons] at hnd
    simp only [enumByName, List.find?]
    rcases List.mem_cons.mp hm with h | h
    · cases h; simp
    · have hne : ¬ n' = n := by
        intro e
        exact hnd.1 (e ▸ List.mem_map.mpr ⟨(n, k), h, rfl⟩)
      have : (n' == n) = false := by simpa using hne
      simp only [this]
      exact ih h hnd.2

theorem canonList_mem : ∀ (vs : List (PVal F)), CanonList vs → ∀ x ∈ vs, Canon x
  | [], _, x, hx => by cases hx
  | v :: vs, h, x, hx => by
    simp only [CanonList] at h
    rcases List.mem_cons.mp hx with rfl | hx
    · exact h.1
    · exact canonList_mem vs h.2 x hx

theorem parenValue_len (ws : List (PVal F)) (n : Nat) (h : ws.length = n) :
    parenValue (n == 1) ws = .tuple ws := by
  match ws, h with
  | [], h => subst h; simp [parenValue]
  | [w], h => subst h; simp [parenValue]
  | a :: b :: rest, h => subst h; simp [parenValue]

theorem mapFormat_tr {lib : TextLib F} {f : PVal F → Option Surf} {g : PVal F → Option (PVal F) → Res F} :
    ∀ (vs : List (PVal F)),
    (∀ v ∈ vs, ∃ s w v', f v = some s ∧ literalEval lib s = some w ∧ g w none = .ok v' ∧ f v' = some s ∧ SameButFloats v' v) →
    ∃ ss ws vs', mapFormat f vs = some ss ∧ literalEvalList lib ss = some ws ∧ mapPrev g ws [] = .ok vs' ∧
      mapFormat f vs' = some ss ∧ SameButFloatsList vs' vs ∧ ws.length = vs.length ∧ vs'.length = vs.length
  | [], _ => ⟨[], [], [], rfl, by simp [literalEvalList], rfl, rfl, by simp [SameButFloatsList], rfl, rfl⟩
  | v :: vs, h => by
    obtain ⟨s, w, v', h1, h2, h3, h4, h5⟩ := h v (List.mem_cons_self ..)
    obtain ⟨ss, ws, vs', g1, g2, g3, g4, g5, g6, g7⟩ := mapFormat_tr vs (fun x hx => h x (List.mem_cons_of_mem _ hx))
    refine ⟨s :: ss, w :: ws, v' :: vs', ?_, ?_, ?_, ?_, ?_, ?_, ?_⟩
    · simp [mapFormat, h1, g1]
    · simp [literalEvalList, h2, g2]
    · simp [mapPrev, h3, g3]
    · simp [mapFormat, h4, g4]
    · simp [SameButFloatsList, h5, g5]
    · simp [g6]
    · simp [g7]

mutual
theorem text_core (lib : TextLib F) (hl : TextLib.Lawful lib) : ∀ (dt : DType F) (pos : List Nat) (v : PVal F),
    dt.WF → NoStruct dt → Valid dt v → Canon v → TR lib pos dt v
  | .double min max ar rr, pos, v, hwf, hns, hv, hc => by
    cases v <;> simp only [Valid, InSetG] at hv <;> try exact hv.elim
    case float x =>
      simp only [Canon] at hc
      obtain ⟨_, hfin, _, _⟩ := double_rt hwf hv
      obtain ⟨w, y, h1, h2, h3⟩ := hl.fmtDouble pos x hfin hc
      exact ⟨.atom (lib.fmtFloat pos x), w, .float y, rfl, by simp [literalEval, h1],
        by simp [call, conv, h2, Except.map], by simp [formatValue, fmtNumber, h3], by simp [SameButFloats]⟩
  | .scaled scale min max ar rr, pos, v, hwf, hns, hv, hc => by
    cases v <;> simp only [Valid, InSetG] at hv <;> try exact hv.elim
    case float x =>
      simp only [Canon] at hc
      obtain ⟨w, y, h1, h2, h3⟩ := hl.fmtScaled pos scale x hv.1 hc
      exact ⟨.atom (lib.fmtFloat pos x), w, .float y, rfl, by simp [literalEval, h1],
        by simp [call, conv, h2, Except.map], by simp [formatValue, fmtNumber, h3], by simp [SameButFloats]⟩
  | .int min max, pos, v, hwf, hns, hv, hc => by
    cases v <;> simp only [Valid, InSetG] at hv <;> try exact hv.elim
    case int i =>
      simp only [DType.WF] at hwf
      obtain ⟨y, hy⟩ := WireLaws.ofInt_inRange (F := F) i (by omega) (by omega)
      exact ⟨.atom (lib.fmtInt i), .int i, .int i, rfl, by simp [literalEval, hl.evalInt],
        by simp [call, conv, intCall, hy, Except.map], rfl, by simp [SameButFloats]⟩
  | .bool, pos, v, hwf, hns, hv, hc => by
    cases v <;> simp only [Valid, InSetG] at hv <;> try exact hv.elim
    case bool b =>
      exact ⟨.atom (lib.reprBool b), .bool b, .bool b, rfl, by simp [literalEval, hl.evalBool],
        by simp [call, conv, boolCall, Except.map], rfl, by simp [SameButFloats]⟩
  | .enum ms, pos, v, hwf, hns, hv, hc => by
    cases v <;> simp only [Valid, InSetG] at hv <;> try exact hv.elim
    case enum n k =>
      simp only [DType.WF] at hwf
      have hf := find_member_name hv hwf.2.1
      exact ⟨.atom (lib.reprStr n), .str n, .enum n k, rfl, by simp [literalEval, hl.evalStr],
        by simp [call, conv, enumCall, hf], rfl, by simp [SameButFloats]⟩
  | .string minc maxc utf8, pos, v, hwf, hns, hv, hc => by
    cases v <;> simp only [Valid, InSetG] at hv <;> try exact hv.elim
    case str s =>
      have h := string_rt (F := F) hv
      exact ⟨.atom (lib.reprStr s), .str s, .str s, rfl, by simp [literalEval, hl.evalStr],
        by simp [call, conv, h, Except.map], rfl, by simp [SameButFloats]⟩
  | .blob minb maxb, pos, v, hwf, hns, hv, hc => by
    cases v <;> simp only [Valid, InSetG] at hv <;> try exact hv.elim
    case bytes b =>
      have h1 : ¬ b.length < minb := by omega
      have h2 : ¬ b.length > maxb := by omega
      exact ⟨.atom (lib.reprBytes b), .bytes b, .bytes b, rfl, by simp [literalEval, hl.evalBytes],
        by simp [call, conv, blobCall, h1, h2, Except.map], rfl, by simp [SameButFloats]⟩
  | .array elem lo hi, pos, v, hwf, hns, hv, hc => by
    cases v <;> simp only [Valid, InSetG] at hv <;> try exact hv.elim
    case tuple vs =>
      simp only [DType.WF] at hwf
      simp only [NoStruct] at hns
      simp only [Canon] at hc
      obtain ⟨hall, hlo, hhi⟩ := hv
      have hcl : ∀ x ∈ vs, Canon x := canonList_mem vs hc
      obtain ⟨ss, ws, vs', g1, g2, g3, g4, g5, g6, g7⟩ :=
        mapFormat_tr (lib := lib) (f := formatValue lib (pos ++ [0]) elem) (g := conv .call elem) vs (fun x hx => by
          obtain ⟨s, w, v', a, b, c, d, e⟩ := text_core lib hl elem (pos ++ [0]) x hwf.1 hns (hall x hx) (hcl x hx)
          exact ⟨s, w, v', a, b, c, d, e⟩)
      have h1 : ¬ ws.length < lo := by omega
      have h2 : ¬ ws.length > hi := by omega
      refine ⟨.list ss, .list ws, .tuple vs', ?_, ?_, ?_, ?_, ?_⟩
      · simp [formatValue, seqItems?, g1]
      · simp [literalEval, g2]
      · simp [call, conv, seqItems?, h1, h2, g3, mapErr, Except.map]
      · simp [formatValue, seqItems?, g4]
      · simpa [SameButFloats] using g5
  | .tuple elems, pos, v, hwf, hns, hv, hc => by
    cases v <;> simp only [Valid, InSetG] at hv <;> try exact hv.elim
    case tuple vs =>
      simp only [DType.WF] at hwf
      simp only [NoStruct] at hns
      simp only [Canon] at hc
      obtain ⟨ss, ws, vs', g1, g2, g3, g4, g5, g6, g7, g8⟩ := text_core_zip lib hl elems pos 0 vs hwf.2 hns hv hc
      have hlen : ws.length = ss.length := by omega
      refine ⟨.paren ss (ss.length == 1), .tuple ws, .tuple vs', ?_, ?_, ?_, ?_, ?_⟩
      · simp [formatValue, seqItems?, g1]
      · simp [literalEval, g2, parenValue_len ws ss.length hlen]
      · have : ws.length = elems.length := by omega
        simp [call, conv, seqItems?, this, g3, mapErr, Except.map]
      · simp [formatValue, seqItems?, g4]
      · simpa [SameButFloats] using g5
  | .struct _ _ _, _, _, _, hns, _, _ => by simp [NoStruct] at hns
theorem text_core_zip (lib : TextLib F) (hl : TextLib.Lawful lib) : ∀ (ts : List (DType F)) (pos : List Nat) (i : Nat) (vs : List (PVal F)),
    WFList ts → NoStructList ts → ZipInG SnapFix ts vs → CanonList vs →
    ∃ ss ws vs', formatTuple lib pos i ts vs = some ss ∧ literalEvalList lib ss = some ws ∧
      convTuple .call ts ws none = .ok vs' ∧ formatTuple lib pos i ts vs' = some ss ∧ SameButFloatsList vs' vs ∧
      ws.length = ts.length ∧ ss.length = ts.length ∧ vs'.length = ts.length
  | [], pos, i, [], _, _, _, _ =>
    ⟨[], [], [], rfl, by simp [literalEvalList], rfl, rfl, by simp [SameButFloatsList], rfl, rfl, rfl⟩
  | t :: ts, pos, i, v :: vs, hwf, hns, hz, hc => by
    simp only [WFList] at hwf
    simp only [NoStructList] at hns
    simp only [ZipInG] at hz
    simp only [CanonList] at hc
    obtain ⟨s, w, v', h1, h2, h3, h4, h5⟩ := text_core lib hl t (pos ++ [i]) v hwf.1 hns.1 hz.1 hc.1
    obtain ⟨ss, ws, vs', g1, g2, g3, g4, g5, g6, g7, g8⟩ := text_core_zip lib hl ts pos (i + 1) vs hwf.2 hns.2 hz.2 hc.2
    refine ⟨s :: ss, w :: ws, v' :: vs', ?_, ?_, ?_, ?_, ?_, ?_, ?_, ?_⟩
    · simp [formatTuple, h1, g1]
    · simp [literalEvalList, h2, g2]
    · simp only [call] at h3
      simp [convTuple, h3, g3]
    · simp [formatTuple, h4, g4]
    · simp [SameButFloatsList, h5, g5]
    · simp [g6]
    · simp [g7]
    · simp [g8]
  | [], _, _, _ :: _, _, _, hz, _ => by simp [ZipInG] at hz
  | _ :: _, _, _, [], _, _, hz, _ => by simp [ZipInG] at hz
end

end Frappy.Lemmas.C02
