import FrappyModel.Spec.C16
/- helper lemmas for C16: framing over chunk lists -/
namespace Frappy.Comm

theorem isPrefixOf_append_of_le : ∀ (e a x : Bytes), e.length ≤ a.length → e.isPrefixOf (a ++ x) = e.isPrefixOf a
  | [], a, x, _ => by simp
  | _ :: _, [], _, h => by simp at h
  | b :: e, c :: a, x, h => by
    simp only [List.cons_append, List.isPrefixOf_cons_cons]
    rw [isPrefixOf_append_of_le e a x (by simpa using h)]

theorem length_le_of_isPrefixOf {e a : Bytes} (h : e.isPrefixOf a = true) : e.length ≤ a.length :=
  (List.isPrefixOf_iff_prefix.1 h).length_le

theorem splitFirst_length (e : Bytes) : ∀ (a l r : Bytes), splitFirst e a = some (l, r) → e.length ≤ a.length
  | [], l, r, h => by
    unfold splitFirst at h
    split at h
    · next he => simp [he]
    · simp at h
  | b :: bs, l, r, h => by
    unfold splitFirst at h
    split at h
    · next hp => exact length_le_of_isPrefixOf hp
    · split at h
      · next l' r' hs =>
        have := splitFirst_length e bs l' r' hs
        simp only [List.length_cons]; omega
      · simp at h

theorem splitFirst_append (e : Bytes) : ∀ (a x l r : Bytes), splitFirst e a = some (l, r) →
    splitFirst e (a ++ x) = some (l, r ++ x)
  | [], x, l, r, h => by
    unfold splitFirst at h
    split at h
    · next he =>
      simp only [Option.some.injEq, Prod.mk.injEq] at h
      obtain ⟨rfl, rfl⟩ := h
      subst he
      cases x with
      | nil => simp [splitFirst]
      | cons c cs => simp [splitFirst]
    · simp at h
  | b :: bs, x, l, r, h => by
    unfold splitFirst at h
    split at h
    · next hp =>
      simp only [Option.some.injEq, Prod.mk.injEq] at h
      obtain ⟨rfl, rfl⟩ := h
      have hl := length_le_of_isPrefixOf hp
      have hp' : e.isPrefixOf ((b :: bs) ++ x) = true := by rw [isPrefixOf_append_of_le _ _ _ hl]; exact hp
      simp only [List.cons_append] at hp' ⊢
      unfold splitFirst
      rw [if_pos hp']
      have := List.drop_append_of_le_length (l₂ := x) hl
      simp only [List.cons_append] at this
      rw [this]
    · next hp =>
      split at h
      · next l' r' hs =>
        simp only [Option.some.injEq, Prod.mk.injEq] at h
        have hl := splitFirst_length e bs l' r' hs
        have hp' : e.isPrefixOf ((b :: bs) ++ x) = false := by
          rw [isPrefixOf_append_of_le _ _ _ (by simp only [List.length_cons]; omega)]
          exact Bool.eq_false_iff.2 hp
        simp only [List.cons_append] at hp' ⊢
        unfold splitFirst
        rw [if_neg (by simp [hp'])]
        rw [splitFirst_append e bs x l' r' hs, ← h.1, ← h.2]
      · simp at h

theorem readline_got (e : Bytes) : ∀ (chunks : List Bytes) (buf l r : Bytes) (u : List Bytes),
    readline e buf chunks = .got l r u → splitFirst e (buf ++ chunks.flatten) = some (l, r ++ u.flatten)
  | [], buf, l, r, u, h => by
    unfold readline at h
    split at h
    · next l' r' hs =>
      simp only [Framed.got.injEq] at h
      simp [hs, ← h.1, ← h.2.1, ← h.2.2]
    · simp at h
  | c :: cs, buf, l, r, u, h => by
    unfold readline at h
    split at h
    · next l' r' hs =>
      simp only [Framed.got.injEq] at h
      rw [← h.1, ← h.2.1, ← h.2.2]
      exact splitFirst_append e buf _ l' r' hs
    · next hs =>
      have := readline_got e cs (buf ++ c) l r u h
      simpa only [List.flatten_cons, List.append_assoc] using this

theorem readline_pending (e : Bytes) : ∀ (chunks : List Bytes) (buf b : Bytes),
    readline e buf chunks = .pending b → b = buf ++ chunks.flatten ∧ splitFirst e b = none
  | [], buf, b, h => by
    unfold readline at h
    split at h
    · simp at h
    · next hs =>
      simp only [Framed.pending.injEq] at h
      simp [← h, hs]
  | c :: cs, buf, b, h => by
    unfold readline at h
    split at h
    · simp at h
    · next hs =>
      have := readline_pending e cs (buf ++ c) b h
      simpa only [List.flatten_cons, List.append_assoc] using this

theorem readbytes_got (n : Nat) : ∀ (chunks : List Bytes) (buf l r : Bytes) (u : List Bytes),
    readbytes n buf chunks = .got l r u →
    n ≤ (buf ++ chunks.flatten).length ∧ l = (buf ++ chunks.flatten).take n ∧
      r ++ u.flatten = (buf ++ chunks.flatten).drop n
  | [], buf, l, r, u, h => by
    unfold readbytes at h
    split at h
    · next hn =>
      simp only [Framed.got.injEq] at h
      simp [← h.1, ← h.2.1, ← h.2.2, hn]
    · simp at h
  | c :: cs, buf, l, r, u, h => by
    unfold readbytes at h
    split at h
    · next hn =>
      simp only [Framed.got.injEq] at h
      rw [← h.1, ← h.2.1, ← h.2.2]
      refine ⟨by simp only [List.length_append]; omega, ?_, ?_⟩
      · rw [List.take_append_of_le_length hn]
      · rw [List.drop_append_of_le_length hn]
    · next hn =>
      have := readbytes_got n cs (buf ++ c) l r u h
      simpa only [List.flatten_cons, List.append_assoc] using this

theorem readbytes_pending (n : Nat) : ∀ (chunks : List Bytes) (buf b : Bytes),
    readbytes n buf chunks = .pending b → b = buf ++ chunks.flatten ∧ b.length < n
  | [], buf, b, h => by
    unfold readbytes at h
    split at h
    · simp at h
    · next hn =>
      simp only [Framed.pending.injEq] at h
      simp only [List.flatten_nil, List.append_nil, ← h, true_and]; omega
  | c :: cs, buf, b, h => by
    unfold readbytes at h
    split at h
    · simp at h
    · next hn =>
      have := readbytes_pending n cs (buf ++ c) b h
      simpa only [List.flatten_cons, List.append_assoc] using this

/-- the observable outcome of a framing run: the result (if any) and everything still unread -/
def Framed.view : Framed → Option Bytes × Bytes
  | .got l r u => (some l, r ++ u.flatten)
  | .pending b => (none, b)

end Frappy.Comm
