import FrappyProofs.Lemmas.LifecycleParams
/-
Restart (`Server.run`: a further round of `_processCfg` … `shutdown_modules` on the same `Server` object).

What a round hands to the next one is `srv.module_cfg` (`St.known`).  Everything the initialisation phase does leaves it
alone (`Ext.known`); the creation loop writes into it only `module_cfg[modname] = options` for the entry it is working
on — for a declared module that is the entry itself.  So on a node without Pinatas a round gives back the configuration
it was started from, and every round is the first round.
-/
namespace Frappy.Proofs.LifecycleRestart
open Frappy.Lifecycle Frappy.Proofs.LifecycleInit Frappy.Proofs.LifecycleParams

def NoPinata (l : List ModCfg) : Prop := ∀ c ∈ l, c.cls ≠ Cls.pinata

/-- `module_cfg[modname] = options` with the entry that is already there -/
theorem upsert_self {l : List ModCfg} {c : ModCfg} (hc : c ∈ l) (hnd : (l.map (·.name)).Nodup) :
    upsertCfg l c = l := by
  unfold upsertCfg
  have hany : l.any (fun x => x.name == c.name) = true := List.any_eq_true.mpr ⟨c, hc, by simp⟩
  rw [if_pos hany]
  have hid : ∀ x ∈ l, (if (x.name == c.name) = true then c else x) = x := by
    intro x hx
    by_cases h : (x.name == c.name) = true
    · have hxc : x = c := nodup_map_inj (·.name) l hnd x hx c hc (beq_iff_eq.mp h)
      simp [hxc]
    · simp [h]
  calc l.map (fun x => if (x.name == c.name) = true then c else x) = l.map id := List.map_congr_left hid
    _ = l := List.map_id l

theorem hasIoCreate_cls (s : St) (c : ModCfg) :
    (hasIoCreate s c).2.cls = c.cls ∧ (NoPinata s.mcfg → NoPinata (hasIoCreate s c).1.mcfg) := by
  unfold hasIoCreate
  split
  · split
    · exact ⟨rfl, id⟩
    · refine ⟨rfl, ?_⟩
      intro h x hx
      simp only [addModule, List.mem_append, List.mem_singleton] at hx
      rcases hx with hx | hx
      · exact h x hx
      · rw [hx]; simp [autoIo]
  · exact ⟨rfl, id⟩

/-- no module object of a node without Pinatas is a Pinata -/
theorem getModuleInstance_noPinata (st : St) (name : Name) (hk : NoPinata st.known) (hm : NoPinata st.mcfg) :
    NoPinata (getModuleInstance st name).1.mcfg := by
  unfold getModuleInstance
  split
  · exact hm
  · split
    · exact hm
    · rename_i c hc
      obtain ⟨hck, _⟩ := findCfg_some hc
      split
      · simpa [addErr] using hm
      · obtain ⟨h1, h2⟩ := hasIoCreate_cls st c
        intro x hx
        simp only [addModule, List.mem_append, List.mem_singleton] at hx
        rcases hx with hx | hx
        · exact h2 hm x hx
        · rw [hx, h1]; exact hk c hck

theorem cfgOf_noPinata (st : St) (m : Name) (hm : NoPinata st.mcfg) : (cfgOf st m).cls ≠ Cls.pinata := by
  unfold cfgOf
  cases h : findCfg st.mcfg m with
  | none => simp only [Option.getD_none]; decide
  | some c => simp only [Option.getD_some]; exact hm c (findCfg_some h).1

/-- one iteration of the creation loop for a declared module of a node without Pinatas: `module_cfg` is what it was,
nothing is appended to the todo list -/
theorem createOne_noPinata (fuel : Nat) (dyn : List ModCfg) (c : ModCfg) (st : St) (hc : c ∈ st.known)
    (hnd : (st.known.map (·.name)).Nodup) (hk : NoPinata st.known) (hm : NoPinata st.mcfg) :
    (createOne fuel dyn c st).2 = [] ∧ (createOne fuel dyn c st).1.known = st.known ∧
      NoPinata (createOne fuel dyn c st).1.mcfg := by
  unfold createOne
  split
  · exact ⟨rfl, rfl, hm⟩
  · simp only
    have hst : ({ st with known := upsertCfg st.known c } : St) = st := by rw [upsert_self hc hnd]
    rw [hst]
    have e1 := ext_getModuleInstance st c.name
    have n1 := getModuleInstance_noPinata st c.name hk hm
    cases hI : getModuleInstance st c.name with
    | mk sI r =>
      rw [hI] at e1 n1
      cases r with
      | none => exact ⟨rfl, e1.known, n1⟩
      | raised cls => exact ⟨rfl, e1.known, n1⟩
      | ok m =>
        simp only
        have hnp : ((cfgOf sI m).cls == Cls.pinata) = false := by
          have := cfgOf_noPinata sI m n1
          cases hcl : (cfgOf sI m).cls <;> simp_all
        rw [if_neg (by simp [hnp])]
        exact ⟨rfl, e1.known, n1⟩

theorem createLoop_known (dyn : List ModCfg) (gfuel : Nat) : ∀ (n : Nat) (todos : List ModCfg) (st : St),
    (∀ c ∈ todos, c ∈ st.known) → (st.known.map (·.name)).Nodup → NoPinata st.known → NoPinata st.mcfg →
    (createLoop dyn gfuel n todos st).known = st.known := by
  intro n
  induction n with
  | zero =>
    intro todos st _ _ _ _
    cases todos with
    | nil => rfl
    | cons c rest => rfl
  | succ n ih =>
    intro todos st ht hnd hk hm
    cases todos with
    | nil => rfl
    | cons c rest =>
      simp only [createLoop]
      obtain ⟨h1, h2, h3⟩ := createOne_noPinata gfuel dyn c st (ht c (List.mem_cons_self ..)) hnd hk hm
      cases hC : createOne gfuel dyn c st with
      | mk s1 more =>
        rw [hC] at h1 h2 h3
        simp only at h1 h2 h3
        subst h1
        rw [List.append_nil]
        rw [ih rest s1 (fun x hx => by rw [h2]; exact ht x (List.mem_cons_of_mem _ hx)) (by rw [h2]; exact hnd)
          (by rw [h2]; exact hk) h3, h2]

/-- a round of a node without Pinatas leaves `srv.module_cfg` as `Server.__init__` loaded it -/
theorem startup_known (cfg : Cfg) (fuel : Nat) (hnp : NoPinata cfg.mods) (hnd : (cfg.mods.map (·.name)).Nodup) :
    (startup cfg fuel).known = cfg.mods := by
  have hc : (created cfg fuel).known = cfg.mods :=
    createLoop_known cfg.dyn fuel fuel cfg.mods { known := cfg.mods } (fun _ h => h) hnd hnp
      (fun _ h => absurd h (List.not_mem_nil))
  have hcore : (core cfg fuel).known = cfg.mods := (ext_created_core cfg fuel).known.trans hc
  rw [startup_eq]
  split
  · exact hcore
  · exact hcore

theorem restartCfg_eq (cfg : Cfg) (fuel : Nat) (hnp : NoPinata cfg.mods) (hnd : (cfg.mods.map (·.name)).Nodup) :
    restartCfg cfg fuel = cfg := by
  unfold restartCfg
  rw [startup_known cfg fuel hnp hnd]

theorem roundCfg_eq (cfg : Cfg) (hnp : NoPinata cfg.mods) (hnd : (cfg.mods.map (·.name)).Nodup) :
    ∀ k, roundCfg cfg k = cfg := by
  intro k
  induction k with
  | zero => rfl
  | succ k ih =>
    simp only [roundCfg]
    rw [ih]
    exact restartCfg_eq cfg _ hnp hnd

/-- whatever a round does, Pinatas included: a declared module is still declared (under its name) in `module_cfg` -/
theorem startup_keeps_declared (cfg : Cfg) (fuel : Nat) :
    ∀ c ∈ cfg.mods, ∃ k ∈ (startup cfg fuel).known, k.name = c.name := by
  have kn : KN cfg.mods (created cfg fuel) :=
    kn_createLoop cfg.mods cfg.dyn fuel fuel cfg.mods _ (fun x hx => ⟨x, hx, rfl⟩)
  have hk : (startup cfg fuel).known = (created cfg fuel).known := by
    rw [startup_eq]
    split
    · exact (ext_created_core cfg fuel).known
    · exact (ext_created_core cfg fuel).known
  intro c hc
  obtain ⟨k, h1, h2⟩ := kn c hc
  exact ⟨k, by rw [hk]; exact h1, h2⟩

theorem roundCfg_keeps_declared (cfg : Cfg) : ∀ k, ∀ c ∈ cfg.mods, ∃ d ∈ (roundCfg cfg k).mods, d.name = c.name
  | 0 => fun c hc => ⟨c, hc, rfl⟩
  | k + 1 => fun c hc => by
    obtain ⟨d, hd, hn⟩ := roundCfg_keeps_declared cfg k c hc
    obtain ⟨e, he, hen⟩ := startup_keeps_declared (roundCfg cfg k) (fuelFor (roundCfg cfg k)) d hd
    exact ⟨e, he, hen.trans hn⟩

theorem roundCfg_dyn (cfg : Cfg) : ∀ k, (roundCfg cfg k).dyn = cfg.dyn
  | 0 => rfl
  | k + 1 => by simp only [roundCfg, restartCfg]; exact roundCfg_dyn cfg k

end Frappy.Proofs.LifecycleRestart
