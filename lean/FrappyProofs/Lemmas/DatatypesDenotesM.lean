import FrappyProofs.Lemmas.DatatypesDenotesC
/-
C01: an accepted value denotes the value that was offered — mutual induction over datatype trees.
-/
set_option linter.unusedSectionVars false
set_option linter.unusedVariables false
namespace Frappy.Lemmas.C01
open FloatOps DType Frappy.Datatypes Frappy.Spec.C01
open PVal (toFloat? seqItems? prevItems prevFields dictGet dictSet)

variable {F : Type} [FloatOps F] [LawfulFloatOps F]

mutual
theorem conv_denotes : ∀ (dt : DType F) (v : PVal F) (prev : Option (PVal F)) (r : PVal F),
    dt.WF → PrevOK dt prev → conv .validate dt v prev = .ok r → Denotes dt prev v r
  | .double min max ar rr, v, prev, r, hwf, _, h => by
    simp only [conv] at h
    obtain ⟨x, hx, hr⟩ := map_ok h
    rw [hr]; simp only [Denotes]; exact doubleValidate_denotes hwf hx
  | .int min max, v, prev, r, hwf, _, h => by
    simp only [conv] at h
    obtain ⟨x, hx, hr⟩ := map_ok h
    rw [hr]; simp only [Denotes]; exact intValidate_denotes hx
  | .scaled scale min max ar rr, v, prev, r, hwf, _, h => by
    simp only [conv] at h
    obtain ⟨x, hx, hr⟩ := map_ok h
    rw [hr]; simp only [Denotes]; exact scaledValidate_denotes hwf hx
  | .bool, v, prev, r, hwf, _, h => by
    simp only [conv] at h
    obtain ⟨x, hx, hr⟩ := map_ok h
    rw [hr]; simp only [Denotes]; exact boolCall_denotes hx
  | .enum ms, v, prev, r, hwf, _, h => by
    simp only [conv] at h
    obtain ⟨n, k, hr, _, _⟩ := enumCall_ok h
    subst hr
    simp only [Denotes]; exact enumCall_denotes h
  | .string minc maxc utf8, v, prev, r, hwf, _, h => by
    simp only [conv] at h
    obtain ⟨x, hx, hr⟩ := map_ok h
    rw [hr, (stringCall_sound hx).2]; simp only [Denotes]
  | .blob minb maxb, v, prev, r, hwf, _, h => by
    simp only [conv] at h
    obtain ⟨x, hx, hr⟩ := map_ok h
    rw [hr, (blobCall_sound hx).2]; simp only [Denotes]
  | .array elem lo hi, v, prev, r, hwf, hp, h => by
    simp only [conv] at h
    simp only [DType.WF] at hwf
    split at h
    · cases h
    · rename_i vs hvs
      split at h
      · cases h
      · split at h
        · cases h
        · obtain ⟨rs, hrs, hr⟩ := map_ok h
          have hrs := mapErr_ok hrs
          rw [hr]; simp only [Denotes]; rw [hvs]; simp only
          exact mapPrev_allDen (P := fun p x y => Denotes elem p x y) (Q := InSet elem)
            (fun v p r hq h => conv_denotes elem v p r hwf.1 hq h) vs _ rs (prevItems_inSet hp) hrs
  | .tuple elems, v, prev, r, hwf, hp, h => by
    simp only [DType.WF] at hwf
    cases prev with
    | some p =>
      simp only [conv] at h
      split at h
      · cases h
      · rename_i vs hvs
        split at h
        · cases h
        · rename_i hlen
          have hlen' : vs.length = elems.length := by simpa using hlen
          split at h
          · cases h
          · rename_i ps hps
            obtain ⟨rs, hrs, hr⟩ := map_ok h
            have hrs := mapErr_ok hrs
            have hq := hp p rfl
            have hzip : ZipInG OnGrid elems ps := by
              cases p <;> simp only [InSet, InSetG] at hq <;> try exact hq.elim
              all_goals simp only [seqItems?] at hps
              case tuple l => injection hps with hps; rw [← hps]; exact hq
            rw [hr]; simp only [Denotes]; rw [hvs]; simp only; rw [hps]; simp only
            exact convTuple_denotes elems vs (some ps) rs hwf.2 hlen' (fun l hl => by injection hl with hl; rw [← hl]; exact hzip) hrs
    | none =>
      simp only [conv] at h
      split at h
      · cases h
      · rename_i vs hvs
        split at h
        · cases h
        · rename_i hlen
          have hlen' : vs.length = elems.length := by simpa using hlen
          obtain ⟨rs, hrs, hr⟩ := map_ok h
          have hrs := mapErr_ok hrs
          rw [hr]; simp only [Denotes]; rw [hvs]; simp only
          exact convTuple_denotes elems vs none rs hwf.2 hlen' (fun l hl => by cases hl) hrs
  | .struct ms opt cl, v, prev, r, hwf, hp, h => by
    simp only [conv] at h
    simp only [DType.WF] at hwf
    split at h
    · rename_i items
      split at h
      · rename_i hcheck
        obtain ⟨acc, hacc, hr⟩ := map_ok h
        have hacc := mapErr_ok hacc
        simp only [beq_self_eq_true, Bool.or_true] at hcheck hacc
        obtain ⟨p1, p2⟩ := prevFields_inSet hp
        obtain ⟨_, b, c⟩ := foldFields_ok (M := fun k x => True) (fun _ _ _ _ => trivial) items _ acc hacc
        have hgiven := foldFields_given (M := fun k x y => MemberDen ms k x y)
          (fun k v r _ hkv => convMember_denotes ms k v r hwf.2.2.2 hkv) items _ acc hacc (b p2)
        rw [hr]; simp only [Denotes]
        unfold DenotesStruct
        refine ⟨?_, ?_, ?_⟩
        · intro kv hkv
          have := hgiven kv hkv
          cases hg : given items kv.1 with
          | some v => rw [hg] at this; exact this
          | none =>
            rw [hg] at this
            simp only at this ⊢
            rw [this]
            exact pval_same_refl _
        · intro kv hkv hn
          exact c kv.1 (Or.inr (mem_givenKeys hkv hn))
        · intro kv hkv
          exact c kv.1 (Or.inl (List.mem_map_of_mem hkv))
      · cases h
    · cases h
theorem convTuple_denotes : ∀ (ts : List (DType F)) (vs : List (PVal F)) (ps : Option (List (PVal F)))
    (rs : List (PVal F)), WFList ts → vs.length = ts.length → (∀ l, ps = some l → ZipInG OnGrid ts l) →
    convTuple .validate ts vs ps = .ok rs → ZipDen ts ps vs rs
  | [], vs, ps, rs, _, hlen, _, h => by
    simp only [convTuple] at h
    injection h with h
    subst h
    have : vs = [] := by simpa using hlen
    subst this
    simp only [ZipDen]
  | t :: ts, [], ps, rs, _, hlen, _, h => by simp at hlen
  | t :: ts, v :: vs, some [], rs, _, _, hps, h => by
    have := hps [] rfl
    simp only [ZipInG] at this
  | t :: ts, v :: vs, some (p :: ps), rs, hwf, hlen, hps, h => by
    simp only [convTuple] at h
    simp only [WFList] at hwf
    have hz := hps _ rfl
    simp only [ZipInG] at hz
    split at h
    · cases h
    · rename_i r hr
      split at h
      · cases h
      · rename_i rs' hrs
        injection h with h
        subst h
        simp only [ZipDen]
        refine ⟨conv_denotes t v (some p) r hwf.1 (fun q hq => by injection hq with hq; rw [← hq]; exact hz.1) hr, ?_⟩
        exact convTuple_denotes ts vs (some ps) rs' hwf.2 (by simpa using hlen)
          (fun l hl => by injection hl with hl; rw [← hl]; exact hz.2) hrs
  | t :: ts, v :: vs, none, rs, hwf, hlen, hps, h => by
    simp only [convTuple] at h
    simp only [WFList] at hwf
    split at h
    · cases h
    · rename_i r hr
      split at h
      · cases h
      · rename_i rs' hrs
        injection h with h
        subst h
        simp only [ZipDen]
        refine ⟨conv_denotes t v none r hwf.1 (fun q hq => by cases hq) hr, ?_⟩
        exact convTuple_denotes ts vs none rs' hwf.2 (by simpa using hlen) (fun l hl => by cases hl) hrs
theorem convMember_denotes : ∀ (ms : List (String × DType F)) (k : String) (v r : PVal F),
    WFFields ms → convMember .validate ms k v = some (.ok r) → MemberDen ms k v r
  | [], k, v, r, _, h => by simp [convMember] at h
  | (k0, t) :: rest, k, v, r, hwf, h => by
    simp only [convMember] at h
    simp only [WFFields] at hwf
    simp only [MemberDen]
    split at h
    · rename_i hk
      rw [if_pos hk]
      injection h with h
      exact conv_denotes t v none r hwf.1 (fun q hq => by cases hq) h
    · rename_i hk
      rw [if_neg hk]
      exact convMember_denotes rest k v r hwf.2 h
end

end Frappy.Lemmas.C01
