import FrappyProofs.Lemmas.DatatypesCanon
/-
C01: the conversion-only path `__call__`: what it returns has the shape `validate` relies on for a
previous value, and converting it again returns it unchanged.
-/
set_option linter.unusedSectionVars false
set_option linter.unusedVariables false
namespace Frappy.Lemmas.C01
open FloatOps DType Frappy.Datatypes Frappy.Spec.C01
open PVal (toFloat? seqItems? prevItems prevFields dictGet dictSet isNone given notOffered)

variable {F : Type} [FloatOps F] [LawfulFloatOps F]

/-- snapping is idempotent for every scaled type in the tree: a finite value that came out of `snap`
(`round(x/scale)*scale`) snaps to itself; holds over `Rat`; for binary64 it could fail only for grid indices
beyond 2^53 -/
def GridAllScaled (scale : F) : Prop := ∀ x y, snap scale x = some y → isFinite y = true → snap scale y = some y

mutual
def GridAll : DType F → Prop
  | .scaled scale _ _ _ _ => GridAllScaled scale
  | .array elem _ _ => GridAll elem
  | .tuple elems => GridAllList elems
  | .struct ms _ _ => GridAllFields ms
  | _ => True
def GridAllList : List (DType F) → Prop
  | [] => True
  | t :: ts => GridAll t ∧ GridAllList ts
def GridAllFields : List (String × DType F) → Prop
  | [] => True
  | (_, t) :: rest => GridAll t ∧ GridAllFields rest
end

/-! ### leaves -/

theorem doubleCall_idem {v : PVal F} {x : F} (h : doubleCall v = .ok x) : doubleCall (.float x) = .ok x := by
  have hc := doubleCall_canon h
  have hn := doubleCall_notNaN h
  have hb : le (neg maxFinite) x = true ∧ le x maxFinite = true := by
    unfold doubleCall at h
    split at h
    · cases h
    · split at h
      · cases h
      · rename_i x0 _ hn0
        injection h with h
        rw [← h]
        exact median3_between LawfulFloatOps.neg_maxFinite_notNaN (by simpa using hn0)
          LawfulFloatOps.maxFinite_notNaN LawfulFloatOps.neg_max_le_max
  unfold doubleCall
  simp only [toFloat?, hc, hn, Bool.false_eq_true, ↓reduceIte]
  rw [median3_inside hb.1 hb.2]

theorem asInt_ofInt {x : F} {k : Int} (h : asInt? x = some k) : ∃ y : F, ofInt k = some y := by
  unfold asInt? at h
  split at h
  · cases h
  · split at h
    · cases h
    · rename_i y hy
      split at h
      · injection h with h; subst h; exact ⟨y, hy⟩
      · cases h

theorem intCall_idem {v : PVal F} {i : Int} (h : intCall v = .ok i) : intCall (F := F) (.int i) = .ok i := by
  have hy : ∃ y : F, ofInt i = some y := by
    cases v <;> simp only [intCall] at h
    all_goals first
      | cases h
      | skip
    case bool b =>
      cases b
      · exact LawfulFloatOps.ofInt_isSome 0 (by omega) (by omega)
      · exact LawfulFloatOps.ofInt_isSome 1 (by omega) (by omega)
    case int j =>
      split at h
      · cases h
      · rename_i y hy; injection h with h; subst h; exact ⟨y, hy⟩
    case float x =>
      split at h
      · cases h
      · rename_i t ht
        split at h
        · cases h
        · rename_i k hk
          injection h with h
          rw [asInt_addZero] at hk
          have := asInt_trunc hk ht
          subst h; subst this
          exact asInt_ofInt hk
  obtain ⟨y, hy⟩ := hy
  simp only [intCall, hy]

theorem scaledCall_snap {scale : F} {v : PVal F} {r : F} (h : scaledCall scale v = .ok r) :
    ∃ x, toFloat? v = some x ∧ snap scale x = some r ∧ isFinite r = true := by
  obtain ⟨x, k, y, hx, hk, hy, hr, hf⟩ := scaledCall_ok h
  refine ⟨x, hx, ?_, hf⟩
  simp only [snap, hk, ofGrid, hy, hr]

theorem scaledCall_idem {scale : F} (hp : DType.positive scale = true) (hg : GridAllScaled scale) {v : PVal F}
    {r : F} (h : scaledCall scale v = .ok r) : scaledCall scale (.float r) = .ok r := by
  obtain ⟨x, _, hsn, hf⟩ := scaledCall_snap h
  exact scaledCall_self (scaledCall_canon hp h) (hg x r hsn hf) hf

theorem conv_notNone (m : Mode) (dt : DType F) (v : PVal F) (prev : Option (PVal F)) (r : PVal F)
    (h : conv m dt v prev = .ok r) : isNone r = false := by
  cases dt <;> simp only [conv] at h
  case enum ms => obtain ⟨n, k, hr, _, _⟩ := enumCall_ok h; rw [hr]; rfl
  case double => cases m <;> simp only at h <;> (obtain ⟨x, _, hr⟩ := map_ok h; rw [hr]; rfl)
  case int => cases m <;> simp only at h <;> (obtain ⟨x, _, hr⟩ := map_ok h; rw [hr]; rfl)
  case scaled => cases m <;> simp only at h <;> (obtain ⟨x, _, hr⟩ := map_ok h; rw [hr]; rfl)
  case bool => obtain ⟨x, _, hr⟩ := map_ok h; rw [hr]; rfl
  case string => obtain ⟨x, _, hr⟩ := map_ok h; rw [hr]; rfl
  case blob => obtain ⟨x, _, hr⟩ := map_ok h; rw [hr]; rfl
  case array elem lo hi =>
    split at h
    · cases h
    · split at h
      · cases h
      · split at h
        · cases h
        · obtain ⟨x, _, hr⟩ := map_ok h; rw [hr]; rfl
  case tuple elems =>
    split at h
    · cases h
    · split at h
      · cases h
      · split at h
        · split at h
          · cases h
          · obtain ⟨x, _, hr⟩ := map_ok h; rw [hr]; rfl
        · obtain ⟨x, _, hr⟩ := map_ok h; rw [hr]; rfl
  case struct ms opt cl =>
    split at h
    · split at h
      · obtain ⟨x, _, hr⟩ := map_ok h; rw [hr]; rfl
      · cases h
    · cases h

theorem convMember_some (m : Mode) : ∀ (ms : List (String × DType F)) (k : String) (v r : PVal F),
    convMember m ms k v = some (.ok r) → k ∈ ms.map (·.1) ∧ isNone r = false
  | [], _, _, _, h => by simp [convMember] at h
  | (k0, t) :: rest, k, v, r, h => by
    simp only [convMember] at h
    split at h
    · rename_i hk
      injection h with h
      exact ⟨by simp [hk], conv_notNone m t v none r h⟩
    · obtain ⟨a, b⟩ := convMember_some m rest k v r h
      exact ⟨by simp [a], b⟩

/-! ### loops -/

theorem mapPrev_idem {f : PVal F → Option (PVal F) → Res F}
    (hf : ∀ v p r, f v p = .ok r → f r none = .ok r) :
    ∀ (vs ps rs : List (PVal F)), mapPrev f vs ps = .ok rs → mapPrev f rs [] = .ok rs ∧ rs.length = vs.length := by
  intro vs
  induction vs with
  | nil => intro ps rs h; simp [mapPrev] at h; subst h; simp [mapPrev]
  | cons v vs ih =>
    intro ps rs h
    simp only [mapPrev] at h
    split at h
    · cases h
    · rename_i r hr
      split at h
      · cases h
      · rename_i rs' hrs
        injection h with h
        subst h
        obtain ⟨a, b⟩ := ih ps.tail rs' hrs
        refine ⟨?_, by simp [b]⟩
        simp only [mapPrev, List.head?_nil, List.tail_nil, hf v _ r hr, a]

theorem structCheck_again {names opt : List String} {allow : Bool} {items acc : List (String × PVal F)}
    (hcheck : structCheck names opt allow items = true)
    (hkeys : ∀ kv ∈ acc, kv.1 ∈ names) (hnone : ∀ kv ∈ acc, isNone kv.2 = false)
    (hsub : ∀ k ∈ givenKeys items, k ∈ acc.map (·.1)) : structCheck names opt allow acc = true := by
  unfold structCheck at hcheck ⊢
  rw [givenKeys_eq_keys acc hnone]
  simp only [Bool.and_eq_true, List.all_eq_true, List.contains_eq_mem, decide_eq_true_eq, Bool.or_eq_true] at hcheck ⊢
  refine ⟨hkeys, ?_⟩
  intro k hk
  rcases hcheck.2 k hk with h | h
  · exact Or.inl (hsub k h)
  · exact Or.inr h

/-! ### the mutual induction -/

mutual
theorem conv_call_idem : ∀ (dt : DType F) (v : PVal F) (prev : Option (PVal F)) (r : PVal F),
    dt.WF → GridAll dt → conv .call dt v prev = .ok r → conv .call dt r none = .ok r
  | .double min max ar rr, v, prev, r, hwf, _, h => by
    simp only [conv] at h ⊢
    obtain ⟨x, hx, hr⟩ := map_ok h
    rw [hr, doubleCall_idem hx]; rfl
  | .int min max, v, prev, r, hwf, _, h => by
    simp only [conv] at h ⊢
    obtain ⟨x, hx, hr⟩ := map_ok h
    rw [hr, intCall_idem hx]; rfl
  | .scaled scale min max ar rr, v, prev, r, hwf, hg, h => by
    simp only [conv] at h ⊢
    simp only [DType.WF] at hwf
    simp only [GridAll] at hg
    obtain ⟨x, hx, hr⟩ := map_ok h
    rw [hr, scaledCall_idem hwf.2.1 hg hx]; rfl
  | .bool, v, prev, r, hwf, _, h => by
    simp only [conv] at h ⊢
    obtain ⟨x, hx, hr⟩ := map_ok h
    rw [hr]; rfl
  | .enum ms, v, prev, r, hwf, _, h => by
    simp only [conv] at h ⊢
    obtain ⟨n, k, hr, hm, _⟩ := enumCall_ok h
    rw [hr]
    exact enumCall_idem (F := F) hwf (by simpa only [InSet, InSetG] using hm)
  | .string minc maxc utf8, v, prev, r, hwf, _, h => by
    simp only [conv] at h ⊢
    obtain ⟨x, hx, hr⟩ := map_ok h
    rw [hr, stringCall_idem (F := F) (stringCall_sound hx).1]; rfl
  | .blob minb maxb, v, prev, r, hwf, _, h => by
    simp only [conv] at h ⊢
    obtain ⟨x, hx, hr⟩ := map_ok h
    rw [hr, blobCall_idem (F := F) (blobCall_sound hx).1]; rfl
  | .array elem lo hi, v, prev, r, hwf, hg, h => by
    simp only [conv] at h
    simp only [DType.WF] at hwf
    simp only [GridAll] at hg
    split at h
    · cases h
    · rename_i vs hvs
      split at h
      · cases h
      · split at h
        · cases h
        · obtain ⟨rs, hrs, hr⟩ := map_ok h
          have hrs := mapErr_ok hrs
          obtain ⟨a, b⟩ := mapPrev_idem (f := conv .call elem)
            (fun v p r h => conv_call_idem elem v p r hwf.1 hg h) vs _ rs hrs
          rw [hr]
          simp only [conv, seqItems?]
          rw [if_neg (by omega), if_neg (by omega), a]
          rfl
  | .tuple elems, v, prev, r, hwf, hg, h => by
    simp only [conv] at h
    simp only [DType.WF] at hwf
    simp only [GridAll] at hg
    split at h
    · cases h
    · rename_i vs hvs
      split at h
      · cases h
      · rename_i hlen
        have hlen' : vs.length = elems.length := by simpa using hlen
        obtain ⟨rs, hrs, hr⟩ := map_ok h
        have hrs := mapErr_ok hrs
        obtain ⟨a, b⟩ := convTuple_call_idem elems vs rs hwf.2 hg hlen' hrs
        rw [hr]
        simp only [conv, seqItems?]
        rw [if_neg (by simpa using b), a]
        rfl
  | .struct ms opt cl, v, prev, r, hwf, hg, h => by
    simp only [conv] at h
    simp only [DType.WF] at hwf
    simp only [GridAll] at hg
    split at h
    · rename_i items
      split at h
      · rename_i hcheck
        obtain ⟨acc, hacc, hr⟩ := map_ok h
        have hacc := mapErr_ok hacc
        simp only [structFold, foldFields] at hacc
        have hf : ∀ k v r, convMember .call ms k v = some (.ok r) →
            (convMember .call ms k r = some (.ok r) ∧ k ∈ ms.map (·.1) ∧ isNone r = false) :=
          fun k v r hkv => ⟨convMember_call_idem ms k v r hwf.2.2.2 hg hkv, convMember_some .call ms k v r hkv⟩
        obtain ⟨a, b, c⟩ := foldFields_ok
          (M := fun k r => convMember .call ms k r = some (.ok r) ∧ k ∈ ms.map (·.1) ∧ isNone r = false)
          hf items [] acc hacc
        have hall := a (by intro kv hkv; cases hkv)
        have hn := b (by simp)
        have hcheck' := structCheck_again hcheck (fun kv hkv => (hall kv hkv).2.1) (fun kv hkv => (hall kv hkv).2.2)
          (fun k hk => c k (Or.inr hk))
        have f1 := foldFields_id_none (f := convMember .call ms) acc []
          (fun kv hkv => ⟨(hall kv hkv).2.2, (hall kv hkv).1⟩) (by simpa using hn)
        rw [hr]
        simp only [conv, hcheck', ↓reduceIte, structFold, foldFields, f1]
        rfl
      · cases h
    · cases h
theorem convTuple_call_idem : ∀ (ts : List (DType F)) (vs rs : List (PVal F)), WFList ts → GridAllList ts →
    vs.length = ts.length → convTuple .call ts vs none = .ok rs →
    convTuple .call ts rs none = .ok rs ∧ rs.length = ts.length
  | [], vs, rs, _, _, hlen, h => by
    simp only [convTuple] at h
    injection h with h
    subst h
    simp [convTuple]
  | t :: ts, [], rs, _, _, hlen, h => by simp at hlen
  | t :: ts, v :: vs, rs, hwf, hg, hlen, h => by
    simp only [convTuple] at h
    simp only [WFList] at hwf
    simp only [GridAllList] at hg
    split at h
    · cases h
    · rename_i r hr
      split at h
      · cases h
      · rename_i rs' hrs
        injection h with h
        subst h
        obtain ⟨a, b⟩ := convTuple_call_idem ts vs rs' hwf.2 hg.2 (by simpa using hlen) hrs
        refine ⟨?_, by simp [b]⟩
        simp only [convTuple, conv_call_idem t v none r hwf.1 hg.1 hr, a]
theorem convMember_call_idem : ∀ (ms : List (String × DType F)) (k : String) (v r : PVal F), WFFields ms →
    GridAllFields ms → convMember .call ms k v = some (.ok r) → convMember .call ms k r = some (.ok r)
  | [], _, _, _, _, _, h => by simp [convMember] at h
  | (k0, t) :: rest, k, v, r, hwf, hg, h => by
    simp only [WFFields] at hwf
    simp only [GridAllFields] at hg
    simp only [convMember] at h ⊢
    split at h
    · rename_i hk
      rw [if_pos hk]
      injection h with h
      rw [conv_call_idem t v none r hwf.1 hg.1 h]
    · rename_i hk
      rw [if_neg hk]
      exact convMember_call_idem rest k v r hwf.2 hg.2 h
end

/-! ### the shape of what a parameter may hold -/

mutual
theorem inSet_shaped {G : F → F → Prop} : ∀ (dt : DType F) (v : PVal F), InSetG G dt v → Shaped dt v
  | .array elem _ _, v, h => by
    cases v <;> simp only [InSetG] at h
    case tuple vs =>
      simp only [Shaped, prevItems]
      exact fun q hq => inSet_shaped elem q (h.1 q hq)
  | .tuple elems, v, h => by
    cases v <;> simp only [InSetG] at h
    case tuple vs =>
      simp only [Shaped, seqItems?]
      exact zipIn_shaped elems vs h
  | .double _ _ _ _, _, _ => by simp only [Shaped]
  | .int _ _, _, _ => by simp only [Shaped]
  | .scaled _ _ _ _ _, _, _ => by simp only [Shaped]
  | .bool, _, _ => by simp only [Shaped]
  | .enum _, _, _ => by simp only [Shaped]
  | .string _ _ _, _, _ => by simp only [Shaped]
  | .blob _ _, _, _ => by simp only [Shaped]
  | .struct _ _ _, _, _ => by simp only [Shaped]
theorem zipIn_shaped {G : F → F → Prop} : ∀ (ts : List (DType F)) (vs : List (PVal F)), ZipInG G ts vs → ZipShaped ts vs
  | [], [], _ => by simp only [ZipShaped]
  | t :: ts, v :: vs, h => by
    simp only [ZipInG] at h
    simp only [ZipShaped]
    exact ⟨inSet_shaped t v h.1, zipIn_shaped ts vs h.2⟩
  | [], _ :: _, h => by simp only [ZipInG] at h
  | _ :: _, [], h => by simp only [ZipInG] at h
end

mutual
/-- whatever `__call__` returns (what a parameter holds after a driver update) has the shape -/
theorem call_shaped : ∀ (dt : DType F) (v : PVal F) (prev : Option (PVal F)) (r : PVal F),
    conv .call dt v prev = .ok r → Shaped dt r
  | .array elem lo hi, v, prev, r, h => by
    simp only [conv] at h
    split at h
    · cases h
    · rename_i vs hvs
      split at h
      · cases h
      · split at h
        · cases h
        · obtain ⟨rs, hrs, hr⟩ := map_ok h
          have hrs := mapErr_ok hrs
          obtain ⟨h1, _⟩ := mapPrev_ok (P := Shaped elem) (Q := fun _ => True)
            (fun v p r _ h => call_shaped elem v p r h) vs _ rs (fun _ _ => trivial) hrs
          rw [hr]; simp only [Shaped, prevItems]
          exact h1
  | .tuple elems, v, prev, r, h => by
    simp only [conv] at h
    split at h
    · cases h
    · rename_i vs hvs
      split at h
      · cases h
      · rename_i hlen
        obtain ⟨rs, hrs, hr⟩ := map_ok h
        have hrs := mapErr_ok hrs
        rw [hr]; simp only [Shaped, seqItems?]
        exact callTuple_shaped elems vs rs (by simpa using hlen) hrs
  | .double _ _ _ _, _, _, _, _ => by simp only [Shaped]
  | .int _ _, _, _, _, _ => by simp only [Shaped]
  | .scaled _ _ _ _ _, _, _, _, _ => by simp only [Shaped]
  | .bool, _, _, _, _ => by simp only [Shaped]
  | .enum _, _, _, _, _ => by simp only [Shaped]
  | .string _ _ _, _, _, _, _ => by simp only [Shaped]
  | .blob _ _, _, _, _, _ => by simp only [Shaped]
  | .struct _ _ _, _, _, _, _ => by simp only [Shaped]
theorem callTuple_shaped : ∀ (ts : List (DType F)) (vs rs : List (PVal F)), vs.length = ts.length →
    convTuple .call ts vs none = .ok rs → ZipShaped ts rs
  | [], vs, rs, _, h => by
    simp only [convTuple] at h
    injection h with h
    subst h
    simp only [ZipShaped]
  | t :: ts, [], rs, hlen, h => by simp at hlen
  | t :: ts, v :: vs, rs, hlen, h => by
    simp only [convTuple] at h
    split at h
    · cases h
    · rename_i r hr
      split at h
      · cases h
      · rename_i rs' hrs
        injection h with h
        subst h
        simp only [ZipShaped]
        exact ⟨call_shaped t v none r hr, callTuple_shaped ts vs rs' (by simpa using hlen) hrs⟩
end

end Frappy.Lemmas.C01
