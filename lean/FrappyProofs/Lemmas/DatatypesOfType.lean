import FrappyProofs.Lemmas.DatatypesSound
import FrappyProofs.Lemmas.DatatypesMonitor
/-
C01: the conversion-only path `__call__` returns a value of the type (`OfType`: the declared value set with the
limits of the numeric leaves left out) — mutual structural induction over datatype trees; the value set lies
inside the type; the monitor `ofTypeB` implies `OfType`.
-/
set_option linter.unusedSectionVars false
set_option linter.unusedVariables false
namespace Frappy.Lemmas.C01
open FloatOps DType Frappy.Datatypes Frappy.Spec.C01
open PVal (toFloat? seqItems? prevItems prevFields dictGet dictSet isNone given notOffered)

section mono
variable {F : Type} [FloatOps F]

mutual
theorem ofTypeG_mono {G G' : F → F → Prop} (hg : ∀ s x, G s x → G' s x) :
    ∀ (dt : DType F) (v : PVal F), OfTypeG G dt v → OfTypeG G' dt v
  | .double _ _ _ _, v, h => by cases v <;> simp only [OfTypeG] at h ⊢ <;> exact h
  | .int _ _, v, h => by cases v <;> simp only [OfTypeG] at h ⊢
  | .scaled _ _ _ _ _, v, h => by
    cases v <;> simp only [OfTypeG] at h ⊢
    case float x => exact hg _ _ h
  | .bool, v, h => by cases v <;> simp only [OfTypeG] at h ⊢
  | .enum _, v, h => by cases v <;> simp only [OfTypeG] at h ⊢ <;> exact h
  | .string _ _ _, v, h => by cases v <;> simp only [OfTypeG] at h ⊢ <;> exact h
  | .blob _ _, v, h => by cases v <;> simp only [OfTypeG] at h ⊢ <;> exact h
  | .array elem _ _, v, h => by
    cases v <;> simp only [OfTypeG] at h ⊢
    case tuple vs => exact ⟨fun x hx => ofTypeG_mono hg elem x (h.1 x hx), h.2⟩
  | .tuple elems, v, h => by
    cases v <;> simp only [OfTypeG] at h ⊢
    case tuple vs => exact zipOfTypeG_mono hg elems vs h
  | .struct ms _ _, v, h => by
    cases v <;> simp only [OfTypeG] at h ⊢
    case dict d => exact ⟨fun kv hkv => memberOfTypeG_mono hg ms kv.1 kv.2 (h.1 kv hkv), h.2⟩
theorem zipOfTypeG_mono {G G' : F → F → Prop} (hg : ∀ s x, G s x → G' s x) :
    ∀ (ts : List (DType F)) (vs : List (PVal F)), ZipOfTypeG G ts vs → ZipOfTypeG G' ts vs
  | [], [], h => by simp only [ZipOfTypeG]
  | t :: ts, v :: vs, h => by
    simp only [ZipOfTypeG] at h ⊢
    exact ⟨ofTypeG_mono hg t v h.1, zipOfTypeG_mono hg ts vs h.2⟩
  | [], _ :: _, h => by simp only [ZipOfTypeG] at h
  | _ :: _, [], h => by simp only [ZipOfTypeG] at h
theorem memberOfTypeG_mono {G G' : F → F → Prop} (hg : ∀ s x, G s x → G' s x) :
    ∀ (ms : List (String × DType F)) (k : String) (v : PVal F), MemberOfTypeG G ms k v → MemberOfTypeG G' ms k v
  | [], _, _, h => by simp only [MemberOfTypeG] at h
  | (k0, t) :: rest, k, v, h => by
    simp only [MemberOfTypeG] at h ⊢
    split
    · rename_i hk; rw [if_pos hk] at h; exact ofTypeG_mono hg t v h
    · rename_i hk; rw [if_neg hk] at h; exact memberOfTypeG_mono hg rest k v h
end
end mono

variable {F : Type} [FloatOps F] [LawfulFloatOps F]

/-! ### the value set lies inside the type -/

mutual
theorem inSetG_ofTypeG {G : F → F → Prop} : ∀ (dt : DType F) (v : PVal F), dt.WF → InSetG G dt v → OfTypeG G dt v
  | .double min max _ _, v, hwf, h => by
    cases v <;> simp only [InSetG] at h
    case float x =>
      simp only [DType.WF] at hwf
      simp only [OfTypeG]
      exact ⟨h.1, LawfulFloatOps.le_trans _ _ _ hwf.2.2.2.1 h.2.1, LawfulFloatOps.le_trans _ _ _ h.2.2 hwf.2.2.2.2.1⟩
  | .int _ _, v, _, h => by cases v <;> simp only [InSetG] at h <;> simp only [OfTypeG]
  | .scaled _ _ _ _ _, v, _, h => by
    cases v <;> simp only [InSetG] at h
    case float x => simp only [OfTypeG]; exact h.1
  | .bool, v, _, h => by cases v <;> simp only [InSetG] at h <;> simp only [OfTypeG]
  | .enum _, v, _, h => by cases v <;> simp only [InSetG] at h <;> simp only [OfTypeG] <;> exact h
  | .string _ _ _, v, _, h => by cases v <;> simp only [InSetG] at h <;> simp only [OfTypeG] <;> exact h
  | .blob _ _, v, _, h => by cases v <;> simp only [InSetG] at h <;> simp only [OfTypeG] <;> exact h
  | .array elem _ _, v, hwf, h => by
    cases v <;> simp only [InSetG] at h
    case tuple vs =>
      simp only [DType.WF] at hwf
      simp only [OfTypeG]
      exact ⟨fun x hx => inSetG_ofTypeG elem x hwf.1 (h.1 x hx), h.2⟩
  | .tuple elems, v, hwf, h => by
    cases v <;> simp only [InSetG] at h
    case tuple vs =>
      simp only [DType.WF] at hwf
      simp only [OfTypeG]
      exact zipInG_ofTypeG elems vs hwf.2 h
  | .struct ms _ _, v, hwf, h => by
    cases v <;> simp only [InSetG] at h
    case dict d =>
      simp only [DType.WF] at hwf
      simp only [OfTypeG]
      exact ⟨fun kv hkv => memberInG_ofTypeG ms kv.1 kv.2 hwf.2.2.2 (h.1 kv hkv), h.2⟩
theorem zipInG_ofTypeG {G : F → F → Prop} : ∀ (ts : List (DType F)) (vs : List (PVal F)), WFList ts →
    ZipInG G ts vs → ZipOfTypeG G ts vs
  | [], [], _, h => by simp only [ZipOfTypeG]
  | t :: ts, v :: vs, hwf, h => by
    simp only [ZipInG] at h
    simp only [WFList] at hwf
    simp only [ZipOfTypeG]
    exact ⟨inSetG_ofTypeG t v hwf.1 h.1, zipInG_ofTypeG ts vs hwf.2 h.2⟩
  | [], _ :: _, _, h => by simp only [ZipInG] at h
  | _ :: _, [], _, h => by simp only [ZipInG] at h
theorem memberInG_ofTypeG {G : F → F → Prop} : ∀ (ms : List (String × DType F)) (k : String) (v : PVal F),
    WFFields ms → MemberInG G ms k v → MemberOfTypeG G ms k v
  | [], _, _, _, h => by simp only [MemberInG] at h
  | (k0, t) :: rest, k, v, hwf, h => by
    simp only [MemberInG] at h
    simp only [WFFields] at hwf
    simp only [MemberOfTypeG]
    split
    · rename_i hk; rw [if_pos hk] at h; exact inSetG_ofTypeG t v hwf.1 h
    · rename_i hk; rw [if_neg hk] at h; exact memberInG_ofTypeG rest k v hwf.2 h
end

/-! ### what `__call__` returns is a value of the type -/

theorem doubleCall_ofType {min max ar rr : F} {v : PVal F} {x : F} (h : doubleCall v = .ok x) :
    OfType (.double min max ar rr) (.float x) := by
  have hn := doubleCall_notNaN h
  unfold doubleCall at h
  split at h
  · cases h
  · rename_i y hy
    split at h
    · cases h
    · rename_i hnan
      injection h with h
      have hy' : isNaN y = false := by simpa using hnan
      have hb := median3_between (b := y) LawfulFloatOps.neg_maxFinite_notNaN hy' LawfulFloatOps.maxFinite_notNaN
        LawfulFloatOps.neg_max_le_max
      rw [h] at hb
      simp only [OfType, OfTypeG]
      exact ⟨hn, hb.1, hb.2⟩

mutual
theorem call_ofType : ∀ (dt : DType F) (v : PVal F) (prev : Option (PVal F)) (r : PVal F),
    dt.WF → conv .call dt v prev = .ok r → OfType dt r
  | .double min max ar rr, v, prev, r, hwf, h => by
    simp only [conv] at h
    obtain ⟨x, hx, hr⟩ := map_ok h
    rw [hr]; exact doubleCall_ofType hx
  | .int min max, v, prev, r, hwf, h => by
    simp only [conv] at h
    obtain ⟨x, hx, hr⟩ := map_ok h
    rw [hr]; simp only [OfType, OfTypeG]
  | .scaled scale min max ar rr, v, prev, r, hwf, h => by
    simp only [conv] at h
    obtain ⟨x, hx, hr⟩ := map_ok h
    obtain ⟨k, hk⟩ := scaledCall_ofGrid hx
    rw [hr]; simp only [OfType, OfTypeG]
    exact ⟨k, by rw [hk]; exact isSome_self x⟩
  | .bool, v, prev, r, hwf, h => by
    simp only [conv] at h
    obtain ⟨x, hx, hr⟩ := map_ok h
    rw [hr]; simp only [OfType, OfTypeG]
  | .enum ms, v, prev, r, hwf, h => by
    simp only [conv] at h
    obtain ⟨n, k, hr, hm, _⟩ := enumCall_ok h
    rw [hr]; simpa only [OfType, OfTypeG] using hm
  | .string minc maxc utf8, v, prev, r, hwf, h => by
    simp only [conv] at h
    obtain ⟨x, hx, hr⟩ := map_ok h
    have hin := (stringCall_sound (F := F) hx).1
    simp only [InSet, InSetG] at hin
    rw [hr]; simpa only [OfType, OfTypeG] using hin
  | .blob minb maxb, v, prev, r, hwf, h => by
    simp only [conv] at h
    obtain ⟨x, hx, hr⟩ := map_ok h
    have hin := (blobCall_sound (F := F) hx).1
    simp only [InSet, InSetG] at hin
    rw [hr]; simpa only [OfType, OfTypeG] using hin
  | .array elem lo hi, v, prev, r, hwf, h => by
    simp only [conv] at h
    simp only [DType.WF] at hwf
    split at h
    · cases h
    · rename_i vs hvs
      split at h
      · cases h
      · split at h
        · cases h
        · obtain ⟨rs, hrs, hr⟩ := map_ok h
          have hrs := mapErr_ok hrs
          obtain ⟨h1, h2⟩ := mapPrev_ok (P := OfType elem) (Q := fun _ => True)
            (fun v p r _ h => call_ofType elem v p r hwf.1 h) vs _ rs (fun _ _ => trivial) hrs
          rw [hr]; simp only [OfType, OfTypeG]
          exact ⟨h1, by omega, by omega⟩
  | .tuple elems, v, prev, r, hwf, h => by
    simp only [conv] at h
    simp only [DType.WF] at hwf
    split at h
    · cases h
    · rename_i vs hvs
      split at h
      · cases h
      · rename_i hlen
        obtain ⟨rs, hrs, hr⟩ := map_ok h
        have hrs := mapErr_ok hrs
        rw [hr]; simp only [OfType, OfTypeG]
        exact callTuple_ofType elems vs rs hwf.2 (by simpa using hlen) hrs
  | .struct ms opt cl, v, prev, r, hwf, h => by
    simp only [conv] at h
    simp only [DType.WF] at hwf
    split at h
    · rename_i items
      split at h
      · rename_i hcheck
        obtain ⟨acc, hacc, hr⟩ := map_ok h
        have hacc := mapErr_ok hacc
        obtain ⟨acc0, h0, h1⟩ := structFold_ok hacc
        have hf : ∀ k v r, convMember .call ms k v = some (.ok r) → MemberOfTypeG OnGrid ms k r :=
          fun k v r hkv => callMember_ofType ms k v r hwf.2.2.2 hkv
        obtain ⟨a0, b0, _⟩ := foldFields_ok (M := fun k x => MemberOfTypeG OnGrid ms k x) hf _ _ acc0 h0
        obtain ⟨a, b, c⟩ := foldFields_ok (M := fun k x => MemberOfTypeG OnGrid ms k x) hf items _ acc h1
        rw [hr]; simp only [OfType, OfTypeG]
        refine ⟨a (a0 (by intro kv hkv; cases hkv)), b (b0 (by simp)), ?_⟩
        intro k hk hno
        exact c k (Or.inr (structCheck_mandatory hcheck k hk hno))
      · cases h
    · cases h
theorem callTuple_ofType : ∀ (ts : List (DType F)) (vs rs : List (PVal F)), WFList ts → vs.length = ts.length →
    convTuple .call ts vs none = .ok rs → ZipOfTypeG OnGrid ts rs
  | [], vs, rs, _, _, h => by
    simp only [convTuple] at h
    injection h with h
    subst h
    simp only [ZipOfTypeG]
  | t :: ts, [], rs, _, hlen, h => by simp at hlen
  | t :: ts, v :: vs, rs, hwf, hlen, h => by
    simp only [convTuple] at h
    simp only [WFList] at hwf
    split at h
    · cases h
    · rename_i r hr
      split at h
      · cases h
      · rename_i rs' hrs
        injection h with h
        subst h
        simp only [ZipOfTypeG]
        exact ⟨call_ofType t v none r hwf.1 hr, callTuple_ofType ts vs rs' hwf.2 (by simpa using hlen) hrs⟩
theorem callMember_ofType : ∀ (ms : List (String × DType F)) (k : String) (v r : PVal F),
    WFFields ms → convMember .call ms k v = some (.ok r) → MemberOfTypeG OnGrid ms k r
  | [], k, v, r, _, h => by simp [convMember] at h
  | (k0, t) :: rest, k, v, r, hwf, h => by
    simp only [convMember] at h
    simp only [WFFields] at hwf
    simp only [MemberOfTypeG]
    split at h
    · rename_i hk
      rw [if_pos hk]
      injection h with h
      exact call_ofType t v none r hwf.1 h
    · rename_i hk
      rw [if_neg hk]
      exact callMember_ofType rest k v r hwf.2 h
end

end Frappy.Lemmas.C01
