import FrappyProofs.Lemmas.CommReply
/- helper lemmas for C16: a detected disconnect is announced before the caller does anything else -/
open Frappy.Spec.C16
namespace Frappy.Comm

def visPc (p : Pc) : Bool := match p with | .closing | .visF => true | _ => false

/-- in the states after a closed `recv` only `closeConnection` and then the update `is_connected = false` happen
(communicators without identification: nobody else can drop the connection meanwhile) -/
theorem step_vis (s s' : State) (t c : Nat) (e : Ev) (h : stepCaller s t c e = some s')
    (hid : s.cfg.ident = []) (hp : visPc (s.callers c).pc = true) :
    ((∃ x, e = .hclose x) ∧ visPc (s'.callers c).pc = true) ∨ (∃ x, e = .isconn x false) := by
  cases hpc : (s.callers c).pc <;> simp [visPc, hpc] at hp <;> cases e <;> simp only [stepCaller, hpc, connGone] at h <;> try (simp [hid] at h)
  · left; subst h; exact ⟨⟨_, rfl⟩, by simp [visPc]⟩
  · right; obtain ⟨hv, _⟩ := h; subst hv; exact ⟨_, rfl⟩

set_option maxHeartbeats 4000000 in
/-- a `recv` that reports the closed connection leads there -/
theorem step_recv_closed (s s' : State) (t c x : Nat) (h : stepCaller s t c (.recv x .closed) = some s')
    (hf : identFree (s.callers c)) : visPc (s'.callers c).pc = true := by
  cases hpc : (s.callers c).pc <;> simp only [stepCaller, hpc] at h <;> try (simp at h)
  all_goals (try (exfalso; simp [identFree, identPc, hpc] at hf; done))
  all_goals (obtain ⟨_, rfl⟩ := h; simp [visPc])

/-- a call returns from `done` (or, doPoll, straight from read_is_connected) -/
theorem step_ret_pc (s s' : State) (t c x : Nat) (r : Res) (h : stepCaller s t c (.ret x r) = some s') :
    visPc (s.callers c).pc = false := by
  cases hpc : (s.callers c).pc <;> simp only [stepCaller, hpc] at h <;> first | rfl | (simp at h)

/-- "caller c has seen the connection closed at position i and has neither announced it nor returned since" -/
def PendingVis (log : Log) (c i : Nat) : Prop :=
  evAt log i = some (.recv c .closed) ∧
  (∀ m, i < m → m < log.length → evAt log m ≠ some (.isconn c false)) ∧
  (∀ m, i < m → m < log.length → isRetOf c (evAt log m) = false)

structure VInv (log : Log) (s : State) : Prop where
  v : ∀ c i, PendingVis log c i → visPc (s.callers c).pc = true

theorem pendingVis_restrict {log : Log} {e : TEv} {c i : Nat} (hlt : i < log.length) (h : PendingVis (log ++ [e]) c i) :
    PendingVis log c i ∧ e.ev ≠ .isconn c false ∧ isRetOf c (some e.ev) = false := by
  obtain ⟨h1, h2, h3⟩ := h
  refine ⟨⟨by rwa [evAt_append_lt log e i hlt] at h1, ?_, ?_⟩, ?_, ?_⟩
  · intro m hm1 hm2
    have := h2 m hm1 (by simp; omega)
    rwa [evAt_append_lt log e m hm2] at this
  · intro m hm1 hm2
    have := h3 m hm1 (by simp; omega)
    rwa [evAt_append_lt log e m hm2] at this
  · have := h2 log.length hlt (by simp)
    rw [evAt_append_eq] at this
    intro heq; rw [heq] at this; exact this rfl
  · have := h3 log.length hlt (by simp)
    rwa [evAt_append_eq] at this

theorem vinv_step {log : Log} {s s' : State} (e : TEv) (hi : Inv log s) (hid : s.cfg.ident = []) (hv : VInv log s)
    (h : step s e = some s') : VInv (log ++ [e]) s' := by
  refine ⟨fun c i hp => ?_⟩
  have hile : i < (log ++ [e]).length := by
    false_or_by_contra; rename_i hn
    have := hp.1; rw [evAt_none _ i (by omega)] at this; simp at this
  simp only [List.length_append, List.length_singleton] at hile
  cases hwho : e.ev.who with
  | none =>
    have hcal := (step_env_callers hwho h).1
    rcases Nat.lt_or_ge i log.length with hlt | hge
    · rw [hcal]; exact hv.v c i (pendingVis_restrict hlt hp).1
    · have : i = log.length := by omega
      subst this
      have := hp.1; rw [evAt_append_eq] at this
      simp only [Option.some.injEq] at this
      rw [this] at hwho; simp [Ev.who] at hwho
  | some c0 =>
    rw [step_caller_form s e c0 hwho] at h
    split at h
    · simp at h
    · rcases Nat.lt_or_ge i log.length with hlt | hge
      · obtain ⟨hold, hne, hnr⟩ := pendingVis_restrict hlt hp
        have hvis := hv.v c i hold
        by_cases hcc : c = c0
        · subst hcc
          rcases step_vis _ s' e.t c e.ev h hid hvis with ⟨_, h2⟩ | ⟨x, hx⟩
          · exact h2
          · rw [hx] at hwho; simp only [Ev.who, Option.some.injEq] at hwho
            subst hwho; exact absurd hx hne
        · rw [step_others _ s' e.t c0 e.ev h c hcc]; exact hvis
      · have : i = log.length := by omega
        subst this
        have hev := hp.1; rw [evAt_append_eq] at hev
        simp only [Option.some.injEq] at hev
        rw [hev] at hwho h
        simp only [Ev.who, Option.some.injEq] at hwho
        subst hwho
        exact step_recv_closed _ s' e.t c c h (hi.ni hid c)

theorem vinv_exec_gen : ∀ (evs pre : List TEv) (s0 s : State), Inv pre s0 → s0.cfg.ident = [] → VInv pre s0 →
    exec s0 evs = some s → VInv (pre ++ evs) s
  | [], pre, s0, s, _, _, hv, h => by simp [exec] at h; subst h; simpa using hv
  | e :: es, pre, s0, s, hi, hid, hv, h => by
    simp only [exec] at h
    cases hst : step s0 e with
    | none => simp [hst] at h
    | some s1 =>
      simp only [hst] at h
      have := vinv_exec_gen es (pre ++ [e]) s1 s (inv_step e hi hst) (by rw [step_keeps_cfg hst]; exact hid)
        (vinv_step e hi hid hv hst) h
      simpa using this

theorem vinv_exec (cfg : Cfg) (cbs : List Nat) (evs : List TEv) (s : State) (hid : cfg.ident = [])
    (h : exec { cfg := cfg, cbsReg := cbs } evs = some s) : VInv evs s := by
  have h0 : VInv [] { cfg := cfg, cbsReg := cbs } := ⟨fun c i hp => by have := hp.1; simp [evAt] at this⟩
  simpa using vinv_exec_gen evs [] _ s (inv_init cfg cbs) hid h0 h

end Frappy.Comm
