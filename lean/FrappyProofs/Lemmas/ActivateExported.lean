import FrappyProofs.Lemmas.Activate
/-
C08: only exported parameters of exported modules are ever delivered (snapshot and broadcast).
-/
namespace Frappy.Activate
open Frappy.Spec.C08

theorem onlyExported_append (cfg : Cfg) (tr : List Obs) (o : Obs) :
    OnlyExported cfg (tr ++ [o]) ↔ OnlyExported cfg tr ∧ exportedOk cfg o = true := by
  simp [OnlyExported, List.all_append]

theorem onlyExported_iff (cfg : Cfg) (tr : List Obs) :
    OnlyExported cfg tr ↔ ∀ c m p e, Obs.deliver c m p e ∈ tr → m ∈ cfg.mods ∧ p ∈ cfg.pars m := by
  unfold OnlyExported
  rw [List.all_eq_true]
  constructor
  · intro h c m p e hin
    have := h _ hin
    simpa [exportedOk, exported] using this
  · intro h o hin
    cases o with
    | deliver c m p e => simpa [exportedOk, exported] using h c m p e hin
    | _ => rfl

/-- every parameter the snapshot of module `m` consists of is exported -/
def expMod (cfg : Cfg) (s : Scope) (m : Mod) : Prop := ∀ p ∈ scopePars cfg s m, exported cfg m p = true

theorem expMod_scopeMods (cfg : Cfg) (s : Scope) (h : validScope cfg s = true) : ∀ m ∈ scopeMods cfg s, expMod cfg s m := by
  intro m hm p hp
  cases s <;> simp_all [scopeMods, scopePars, validScope, exported]

def expPc (cfg : Cfg) : HPc → Prop
  | .wantSub (.activate s) => validScope cfg s = true
  | .relSub (.activate s) => validScope cfg s = true
  | .wantUpd s m rest => ∀ m' ∈ m :: rest, expMod cfg s m'
  | .snapMod s m ps rest => (∀ p ∈ ps, exported cfg m p = true) ∧ ∀ m' ∈ rest, expMod cfg s m'
  | .snapSend s m p _ ps rest => exported cfg m p = true ∧ (∀ p' ∈ ps, exported cfg m p' = true) ∧ ∀ m' ∈ rest, expMod cfg s m'
  | _ => True

def expU (cfg : Cfg) : UPc → Prop
  | .wantSub m p _ => exported cfg m p = true
  | .sending m p _ _ => exported cfg m p = true
  | _ => True

theorem expPc_afterSnap (cfg : Cfg) (s : Scope) (l : List Mod) (h : ∀ m ∈ l, expMod cfg s m) : expPc cfg (afterSnap s l) := by
  cases l with
  | nil => simp [afterSnap, expPc]
  | cons m rest => simpa [afterSnap, expPc] using h

theorem expPc_afterTable (cfg : Cfg) (c : Conn) (r : Req) (h : expPc cfg (.relSub r)) : expPc cfg (afterTable cfg c r) := by
  cases r with
  | activate s => exact expPc_afterSnap cfg s _ (expMod_scopeMods cfg s h)
  | _ => simp [afterTable, expPc]

theorem expPc_firstPc (cfg : Cfg) (r : Req) : expPc cfg (firstPc r) := by cases r <;> simp [firstPc, expPc]

theorem expPc_wantSub (cfg : Cfg) (r : Req) (h : validReq cfg r = true) : expPc cfg (.wantSub r) := by
  cases r <;> simp_all [expPc, validReq]

theorem expPc_afterStart (cfg : Cfg) (r : Req) (h : validReq cfg r = true) : expPc cfg (afterStart cfg r) := by
  cases r with
  | rw w m p e => by_cases hk : cfg.rw w m p = .calls <;> simp [afterStart, hk, expPc]
  | activate s => exact expPc_wantSub cfg _ h
  | _ => simp [afterStart, expPc]

theorem expPc_afterCall (cfg : Cfg) (w m p e n) : expPc cfg (afterCall w m p e n) := by
  unfold afterCall; split <;> simp [expPc]

theorem expPc_relSub (cfg : Cfg) (r : Req) (h : expPc cfg (.wantSub r)) : expPc cfg (.relSub r) := by
  cases r <;> simp_all [expPc]

structure ExpInv (cfg : Cfg) (σ : State) : Prop where
  tr : OnlyExported cfg σ.trace
  h : ∀ c, expPc cfg (σ.hpc c)
  u : ∀ k, expU cfg (σ.upc k)

theorem expInv_init (cfg : Cfg) (hs us cache) : ExpInv cfg (init hs us cache) := by
  constructor
  · simp [init, OnlyExported]
  · intro c; simp [init, expPc]
  · intro k; simp [init, expU]

/-- a step of connection `c`'s thread: the new program counter is fine, the appended event (if any) is fine -/
theorem expInv_of (cfg : Cfg) (σ σ' : State) (c : Conn) (hI : ExpInv cfg σ)
    (htr : OnlyExported cfg σ'.trace) (hpc : ∀ c', c' ≠ c → σ'.hpc c' = σ.hpc c') (hc : expPc cfg (σ'.hpc c))
    (hupc : σ'.upc = σ.upc) : ExpInv cfg σ' := by
  refine ⟨htr, ?_, ?_⟩
  · intro c'
    by_cases h : c' = c
    · subst h; exact hc
    · rw [hpc c' h]; exact hI.h c'
  · intro k; rw [hupc]; exact hI.u k

theorem expInv_stepH (cfg : Cfg) (σ σ' : State) (c : Conn) (hI : ExpInv cfg σ) (hs : stepH cfg σ c = some σ') :
    ExpInv cfg σ' := by
  have hc := hI.h c
  have htr := hI.tr
  have hoth : ∀ (x : HPc) (c' : Conn), c' ≠ c → set σ.hpc c x c' = σ.hpc c' := fun x c' h => set_other _ _ _ _ h
  unfold stepH at hs
  cases hpc : σ.hpc c with
  | idle =>
    simp only [hpc] at hs
    split at hs <;> (simp only [Option.some.injEq] at hs; subst hs)
    · exact expInv_of cfg σ _ c hI htr (hoth _) (by simp [expPc]) rfl
    · exact expInv_of cfg σ _ c hI (by rw [onlyExported_append]; exact ⟨htr, rfl⟩) (hoth _)
        (by simp only [set_same]; exact expPc_firstPc cfg _) rfl
  | start r =>
    simp only [hpc] at hs
    split at hs
    · simp only [Option.some.injEq] at hs; subst hs
      refine expInv_of cfg σ _ c hI htr (hoth _) ?_ rfl
      simp only [set_same]
      split
      · rename_i hv; exact expPc_afterStart cfg r hv
      · simp [expPc]
    · cases hs
  | wantSub r =>
    simp only [hpc] at hs
    split at hs
    · simp only [Option.some.injEq] at hs; subst hs
      exact expInv_of cfg σ _ c hI (by simp only [tableWrite_trace]; exact htr) (hoth _)
        (by simp only [set_same]; rw [hpc] at hc; exact expPc_relSub cfg r hc) (by simp only [tableWrite_upc])
    · cases hs
  | relSub r =>
    simp only [hpc] at hs
    simp only [Option.some.injEq] at hs; subst hs
    refine expInv_of cfg σ _ c hI ?_ (hoth _) (by simp only [set_same]; rw [hpc] at hc; exact expPc_afterTable cfg c r hc) rfl
    dsimp only
    split
    · rw [onlyExported_append]; exact ⟨htr, rfl⟩
    · exact htr
  | wantUpd s m rest =>
    simp only [hpc] at hs
    split at hs
    · simp only [Option.some.injEq] at hs; subst hs
      rw [hpc] at hc
      simp only [expPc] at hc
      exact expInv_of cfg σ _ c hI htr (hoth _)
        (by simp only [set_same, expPc]; exact ⟨hc m (by simp), fun m' hm' => hc m' (by simp [hm'])⟩) rfl
    · cases hs
  | snapMod s m ps rest =>
    rw [hpc] at hc
    simp only [expPc] at hc
    cases ps with
    | nil =>
      simp only [hpc] at hs
      simp only [Option.some.injEq] at hs; subst hs
      exact expInv_of cfg σ _ c hI htr (hoth _) (by simp only [set_same]; exact expPc_afterSnap cfg s rest hc.2) rfl
    | cons p ps =>
      simp only [hpc] at hs
      simp only [Option.some.injEq] at hs; subst hs
      exact expInv_of cfg σ _ c hI htr (hoth _)
        (by simp only [set_same, expPc]; exact ⟨hc.1 p (by simp), fun p' hp' => hc.1 p' (by simp [hp']), hc.2⟩) rfl
  | snapSend s m p e ps rest =>
    rw [hpc] at hc
    simp only [expPc] at hc
    simp only [hpc] at hs
    simp only [Option.some.injEq] at hs; subst hs
    exact expInv_of cfg σ _ c hI (by rw [onlyExported_append]; exact ⟨htr, by simpa [exportedOk] using hc.1⟩) (hoth _)
      (by simp only [set_same, expPc]; exact ⟨hc.2.1, hc.2.2⟩) rfl
  | wantAcc w m p e n =>
    simp only [hpc] at hs
    split at hs
    · split at hs
      · simp only [Option.some.injEq] at hs; subst hs
        exact expInv_of cfg σ _ c hI htr (hoth _) (by simp [expPc]) rfl
      · cases hs
    · simp only [Option.some.injEq] at hs; subst hs
      exact expInv_of cfg σ _ c hI htr (hoth _) (by simp [expPc]) rfl
  | relAcc w m p e n =>
    simp only [hpc] at hs
    split at hs
    · simp only [Option.some.injEq] at hs; subst hs
      exact expInv_of cfg σ _ c hI htr (hoth _) (by simp only [set_same]; exact expPc_afterCall cfg w m p e n) rfl
    · cases hs
  | relDisp r ok =>
    simp only [hpc] at hs
    simp only [Option.some.injEq] at hs; subst hs
    exact expInv_of cfg σ _ c hI htr (hoth _) (by simp [expPc]) rfl
  | rep r ok =>
    simp only [hpc] at hs
    simp only [Option.some.injEq] at hs; subst hs
    exact expInv_of cfg σ _ c hI (by rw [onlyExported_append]; exact ⟨htr, rfl⟩) (hoth _) (by simp [expPc]) rfl
  | done =>
    simp only [hpc] at hs
    cases hs

theorem emits_exported {cfg : Cfg} {m : Mod} {p : Par} {old new : Entry} (h : emits cfg m p old new = true) :
    exported cfg m p = true := by
  unfold emits at h
  exact (Bool.and_eq_true_iff.1 h).1

theorem expInv_stepU (cfg : Cfg) (σ σ' : State) (k : Nat) (arg : Conn) (hI : ExpInv cfg σ)
    (hs : stepU cfg σ k arg = some σ') : ExpInv cfg σ' := by
  have hk := hI.u k
  have htr := hI.tr
  have mk : ∀ (σ'' : State) (x : UPc), OnlyExported cfg σ''.trace → σ''.hpc = σ.hpc → σ''.upc = set σ.upc k x →
      expU cfg x → ExpInv cfg σ'' := by
    intro σ'' x h1 h2 h3 h4
    refine ⟨h1, fun c => by rw [h2]; exact hI.h c, fun k' => ?_⟩
    rw [h3]
    by_cases h : k' = k
    · subst h; simp only [set_same]; exact h4
    · rw [set_other _ _ _ _ h]; exact hI.u k'
  unfold stepU at hs
  cases hpc : σ.upc k with
  | idle =>
    simp only [hpc] at hs
    split at hs
    · simp only [Option.some.injEq] at hs; subst hs
      exact mk _ .done htr rfl rfl (by simp [expU])
    · split at hs
      · split at hs
        · rename_i hem
          simp only [Option.some.injEq] at hs; subst hs
          exact mk _ _ (by rw [onlyExported_append]; exact ⟨htr, rfl⟩) rfl rfl (by simpa [expU] using emits_exported hem)
        · simp only [Option.some.injEq] at hs; subst hs
          exact mk _ _ htr rfl rfl (by simp [expU])
      · cases hs
  | wantSub m p e =>
    rw [hpc] at hk
    simp only [hpc] at hs
    split at hs
    · simp only [Option.some.injEq] at hs; subst hs
      exact mk _ _ htr rfl rfl (by simpa [expU] using hk)
    · cases hs
  | sending m p e l =>
    rw [hpc] at hk
    cases l with
    | nil =>
      simp only [hpc] at hs
      simp only [Option.some.injEq] at hs; subst hs
      exact mk _ _ htr rfl rfl (by simp [expU])
    | cons x l =>
      simp only [hpc] at hs
      split at hs
      · simp only [Option.some.injEq] at hs; subst hs
        exact mk _ _ (by rw [onlyExported_append]; exact ⟨htr, by simpa [exportedOk, expU] using hk⟩) rfl rfl
          (by simpa [expU] using hk)
      · cases hs
  | relUpd m em =>
    simp only [hpc] at hs
    simp only [Option.some.injEq] at hs; subst hs
    refine mk _ _ ?_ rfl rfl (by simp [expU])
    dsimp only
    split
    · rw [onlyExported_append]; exact ⟨htr, rfl⟩
    · exact htr
  | done =>
    simp only [hpc] at hs
    cases hs

theorem expInv_reach (cfg : Cfg) (hs us cache) (σ : State) (h : Reach cfg (init hs us cache) σ) : ExpInv cfg σ := by
  induction h with
  | init => exact expInv_init cfg hs us cache
  | step a _ hstep ih =>
    unfold step at hstep
    split at hstep
    · exact expInv_stepH cfg _ _ _ ih hstep
    · exact expInv_stepU cfg _ _ _ _ ih (stepUG_some hstep)

end Frappy.Activate
