import FrappyProofs.Lemmas.Config
/- helper lemmas for C10: optional accessibles, module property values, the configuration DSL -/
namespace Frappy.Lemmas.ConfigDsl
open Frappy.Config Frappy.Spec.C10 Frappy.Lemmas.Config

variable {DT Val : Type}

/-! ## the loop over `accessibles` with its `continue` for optional ones -/

theorem implemented_cons (d : AccDecl DT Val) (ds : List (AccDecl DT Val)) :
    implemented (d :: ds) = if d.optional then implemented ds else d.desc :: implemented ds := by
  unfold implemented
  cases h : d.optional <;> simp [h]

theorem accLoop_fold (ops : Ops DT Val) (cfg : Cfg Val) :
    ∀ (ds : List (AccDecl DT Val)) (acc : LoopOut DT Val),
      (ds.foldl (accStep ops cfg) acc).out = (implemented ds).foldl (paramStep ops cfg) acc.out := by
  intro ds
  induction ds with
  | nil => intro acc; rfl
  | cons d ds ih =>
    intro acc
    simp only [List.foldl_cons, implemented_cons]
    cases h : d.optional with
    | true => simp [accStep, h, ih]
    | false => simp [accStep, h, ih]

theorem accLoop_popped (ops : Ops DT Val) (cfg : Cfg Val) :
    ∀ (ds : List (AccDecl DT Val)) (acc : LoopOut DT Val),
      ∀ k ∈ (ds.foldl (accStep ops cfg) acc).popped, k ∈ acc.popped ∨ k ∈ (implemented ds).map (·.name) := by
  intro ds
  induction ds with
  | nil => intro acc k hk; exact Or.inl hk
  | cons d ds ih =>
    intro acc k hk
    simp only [List.foldl_cons] at hk
    rw [implemented_cons]
    cases h : d.optional with
    | true =>
      have : accStep ops cfg acc d = acc := by simp [accStep, h]
      rw [this] at hk
      simpa [h] using ih acc k hk
    | false =>
      rcases ih _ k hk with h1 | h1
      · simp only [accStep, h, Bool.false_eq_true, ↓reduceIte] at h1
        split at h1
        · exact Or.inl h1
        · rcases List.mem_append.1 h1 with h2 | h2
          · exact Or.inl h2
          · right; simp only [List.mem_singleton] at h2; simp [h2]
      · right; simp only [Bool.false_eq_true, ↓reduceIte, List.map_cons, List.mem_cons]; exact Or.inr h1

/-! ## own properties of a parameter after its cfg -/

theorem applyEntries_own (ops : Ops DT Val) : ∀ (items : List (Name × Val)) (a a' : Acc DT Val),
    applyEntries ops a items = some a' → a'.own = ownAfter ops a.own items := by
  intro items
  induction items with
  | nil => intro a a' h; simp only [applyEntries, Option.some.injEq] at h; subst h; rfl
  | cons kv rest ih =>
    intro a a' h
    obtain ⟨k, v⟩ := kv
    simp only [applyEntries] at h
    by_cases hv : k = "value"
    · subst hv
      simp only [cfgStep, ↓reduceIte] at h
      simpa [ownAfter, Spec.C10.isValueKey] using ih _ a' h
    · by_cases hd : k = "default"
      · subst hd
        simp only [cfgStep, hv, ↓reduceIte] at h
        simpa [ownAfter, Spec.C10.isValueKey] using ih _ a' h
      · have hvk : Spec.C10.isValueKey k = false := by simp [Spec.C10.isValueKey, hv, hd]
        simp only [cfgStep, hv, hd, ↓reduceIte] at h
        simp only [ownAfter, hvk, Bool.false_eq_true, ↓reduceIte]
        cases hown : ops.ownProp k with
        | some f =>
          simp only [hown] at h ⊢
          cases hf : f v with
          | none => simp [hf] at h
          | some v' => simp only [hf] at h ⊢; exact ih _ a' h
        | none =>
          simp only [hown] at h ⊢
          cases hdt : a.dt with
          | none => simp only [hdt] at h; exact ih _ a' h
          | some dt =>
            simp only [hdt] at h
            cases hs : ops.setProp dt k v with
            | unknown => simp [hs] at h
            | bad => simp [hs] at h
            | ok dt' => simp only [hs] at h; exact ih { a with dt := some dt' } a' h

/-- a parameter which went through `addParam` without exception had its cfg loop completed -/
theorem addParam_entries (ops : Ops DT Val) (insts : List (PInst DT Val)) (pd : ParamDesc DT Val)
    (e : Option (Entry Val)) (items : List (Name × Val)) (o : POut DT Val)
    (he : e = some (.acc items) ∨ (e = none ∧ items = []))
    (hadd : addParam ops insts pd e = .done o) :
    ∃ a, applyEntries ops (startAcc ops insts pd).acc items = some a := by
  rcases he with rfl | ⟨rfl, rfl⟩
  · simp only [addParam] at hadd
    cases hap : applyEntries ops (startAcc ops insts pd).acc items with
    | none => simp [hap] at hadd
    | some a => exact ⟨a, rfl⟩
  · exact ⟨_, rfl⟩

/-! ## commands in the cfg -/

theorem cmdEntries_nil (ops : Ops DT Val) (n : Name) : ∀ (items : List (Name × Val)), cmdEntries ops n items = .errs [] →
    ∀ kv ∈ items, ∃ f, ops.cmdProp kv.1 = some f ∧ (f kv.2).isSome = true := by
  intro items
  induction items with
  | nil => intro _ kv h; cases h
  | cons x items ih =>
    intro h kv hkv
    obtain ⟨k, v⟩ := x
    simp only [cmdEntries] at h
    cases hp : ops.cmdProp k with
    | none => simp [hp] at h
    | some f =>
      simp only [hp] at h
      cases hf : f v with
      | none =>
        simp only [hf] at h
        split at h <;> simp at h
      | some v' =>
        simp only [hf] at h
        rcases List.mem_cons.1 hkv with rfl | hin
        · exact ⟨f, hp, by simp [hf]⟩
        · exact ih h kv hin

theorem cmds_raised (ops : Ops DT Val) (cfg : Cfg Val) (names : List Name) (acc : CmdsOut)
    (h : acc.raised = true) : (names.foldl (cmdStep ops cfg) acc).raised = true := by
  induction names generalizing acc with
  | nil => exact h
  | cons n names ih => exact ih _ (by simp [cmdStep, h])

/-- nothing collected and no exception: the cfg of every command went through without complaint -/
theorem cmds_ok (ops : Ops DT Val) (cfg : Cfg Val) :
    ∀ (names : List Name) (acc : CmdsOut), acc.raised = false →
      (names.foldl (cmdStep ops cfg) acc).raised = false → (names.foldl (cmdStep ops cfg) acc).errs = [] →
      acc.errs = [] ∧ ∀ n ∈ names, addCommand ops n (lookup n cfg) = .errs [] := by
  intro names
  induction names with
  | nil => intro acc _ _ he; exact ⟨he, fun n hn => by cases hn⟩
  | cons n names ih =>
    intro acc hacc hr he
    simp only [List.foldl_cons] at hr he
    cases hadd : addCommand ops n (lookup n cfg) with
    | raised =>
      have : (cmdStep ops cfg acc n).raised = true := by simp [cmdStep, hacc, hadd]
      rw [cmds_raised ops cfg names _ this] at hr; cases hr
    | errs es =>
      have hstep : cmdStep ops cfg acc n = ⟨acc.errs ++ es, false⟩ := by
        simp [cmdStep, hacc, hadd]
      rw [hstep] at hr he
      obtain ⟨h1, h2⟩ := ih _ rfl hr he
      simp only [List.append_eq_nil_iff] at h1
      refine ⟨h1.1, fun n' hn' => ?_⟩
      rcases List.mem_cons.1 hn' with rfl | hin
      · rw [hadd, h1.2]
      · exact h2 n' hin

/-! ## the values of the module properties -/

theorem lookup_append_some {α : Type} (n k : Name) (v w : α) (l : List (Name × α)) (h : lookup n l = some v) :
    lookup n (l ++ [(k, w)]) = some v := by
  induction l with
  | nil => cases h
  | cons x l ih =>
    simp only [List.cons_append, lookup] at h ⊢
    split
    · rename_i hx; simpa [hx] using h
    · rename_i hx; simp only [hx, ↓reduceIte] at h; exact ih h

theorem lookup_append_self {α : Type} (n : Name) (w : α) (l : List (Name × α)) (h : lookup n l = none) :
    lookup n (l ++ [(n, w)]) = some w := by
  induction l with
  | nil => simp [lookup]
  | cons x l ih =>
    simp only [List.cons_append, lookup] at h ⊢
    split
    · rename_i hx; simp [hx] at h
    · rename_i hx; simp only [hx, ↓reduceIte] at h; exact ih h

/-- a value once stored for `n` is kept by the rest of the fold -/
theorem modProps_keep (cfg : Cfg Val) (n : Name) (v : Val) :
    ∀ (ds : List (ModPropDesc Val)) (acc : ModPropsOut Val), lookup n acc.values = some v →
      lookup n (ds.foldl (modPropStep cfg) acc).values = some v := by
  intro ds
  induction ds with
  | nil => intro acc h; exact h
  | cons d ds ih =>
    intro acc h
    simp only [List.foldl_cons]
    apply ih
    unfold modPropStep
    split
    · exact h
    · split
      · split
        · exact lookup_append_some n _ v _ _ h
        · exact h
      · exact lookup_append_some n _ v _ _ h
      · split
        · exact lookup_append_some n _ v _ _ h
        · exact h
      · exact h

/-- the value the fold stores for a property whose cfg entry was accepted -/
theorem modProps_value (cfg : Cfg Val) (d : ModPropDesc Val) (v : Val)
    (hset : applyModProp d (lookup d.name cfg) = .set v) :
    ∀ (ds : List (ModPropDesc Val)) (acc : ModPropsOut Val), acc.raised = false →
      (ds.foldl (modPropStep cfg) acc).raised = false → (ds.map (·.name)).Nodup → d ∈ ds →
      lookup d.name acc.values = none →
      lookup d.name (ds.foldl (modPropStep cfg) acc).values = some v := by
  intro ds
  induction ds with
  | nil => intro _ _ _ _ hd; cases hd
  | cons x ds ih =>
    intro acc hacc hr hnd hd hnone
    simp only [List.foldl_cons] at hr ⊢
    simp only [List.map_cons, List.nodup_cons] at hnd
    have hxr : (modPropStep cfg acc x).raised = false := by
      cases hx : (modPropStep cfg acc x).raised with
      | false => rfl
      | true => rw [modProps_raised cfg ds _ hx] at hr; cases hr
    rcases List.mem_cons.1 hd with rfl | hin
    · apply modProps_keep
      simp only [modPropStep, hacc, Bool.false_eq_true, ↓reduceIte, hset]
      exact lookup_append_self _ _ _ hnone
    · have hne : x.name ≠ d.name := by
        intro he; exact hnd.1 (by rw [he]; exact List.mem_map_of_mem hin)
      apply ih _ hxr hr hnd.2 hin
      unfold modPropStep
      simp only [hacc, Bool.false_eq_true, ↓reduceIte]
      split
      · split
        · simp only; rw [lookup_append_none]; exact ⟨hnone, hne⟩
        · exact hnone
      · simp only; rw [lookup_append_none]; exact ⟨hnone, hne⟩
      · split
        · simp only; rw [lookup_append_none]; exact ⟨hnone, hne⟩
        · exact hnone
      · exact hnone

/-! ## the DSL: the first loop of `Mod.__init__` -/

theorem filterMap_ext {α β : Type} {f g : α → Option β} : ∀ (l : List α), (∀ x ∈ l, f x = g x) →
    l.filterMap f = l.filterMap g := by
  intro l
  induction l with
  | nil => intro _; rfl
  | cons x l ih =>
    intro h
    simp only [List.filterMap_cons, h x List.mem_cons_self, ih (fun y hy => h y (List.mem_cons_of_mem _ hy))]

theorem setKey_fresh {α : Type} (k : Name) (v : α) : ∀ (d : List (Name × α)), lookup k d = none →
    setKey k v d = d ++ [(k, v)] := by
  intro d
  induction d with
  | nil => intro _; rfl
  | cons x d ih =>
    intro h
    simp only [lookup] at h
    split at h
    · cases h
    · rename_i hx
      simp only [setKey, hx, ↓reduceIte, List.cons_append, ih h]

/-- what is written well: keyword names are distinct (Python), none is `description` (a positional argument), and no
`Param(v, …)` has a keyword `value` besides its positional one (Python refuses both) -/
structure WrittenOk (args : List (Name × DslArg Val)) : Prop where
  keys : (args.map (·.1)).Nodup
  noDescr : "description" ∉ args.map (·.1)
  noValueKw : ∀ k v kwds, (k, DslArg.param (some v) kwds) ∈ args → lookup "value" kwds = none

/-- the entry the specification reads off one written argument (before groups) -/
def plainEntry (kv : Name × DslArg Val) : Option (Name × Entry Val) :=
  (writtenItems kv.2).map fun items => (kv.1, Entry.acc items)

theorem modArgs_fold :
    ∀ (args : List (Name × DslArg Val)) (d : Cfg Val), (args.map (·.1)).Nodup →
      (∀ k ∈ args.map (·.1), lookup k d = none) →
      (∀ k v kwds, (k, DslArg.param (some v) kwds) ∈ args → lookup "value" kwds = none) →
      args.foldl modArgStep d = d ++ args.filterMap plainEntry := by
  intro args
  induction args with
  | nil => intro d _ _ _; simp
  | cons kv rest ih =>
    intro d hnd hfresh hval
    obtain ⟨k, a⟩ := kv
    simp only [List.map_cons, List.nodup_cons] at hnd
    have hk : lookup k d = none := hfresh k (by simp)
    have hval' : ∀ k v kwds, (k, DslArg.param (some v) kwds) ∈ rest → lookup "value" kwds = none :=
      fun k v kwds h => hval k v kwds (List.mem_cons_of_mem _ h)
    have step : ∀ (e : Entry Val), modArgStep d (k, a) = d ++ [(k, e)] → plainEntry (k, a) = some (k, e) →
        (List.foldl modArgStep d ((k, a) :: rest)) = d ++ ((k, a) :: rest).filterMap plainEntry := by
      intro e hs hp
      simp only [List.foldl_cons, hs, List.filterMap_cons, hp]
      rw [ih (d ++ [(k, e)]) hnd.2 ?_ hval']
      · simp
      · intro k' hk'
        rw [lookup_append_none]
        refine ⟨hfresh k' (by simp only [List.map_cons]; exact List.mem_cons_of_mem _ hk'), ?_⟩
        intro he; subst he; exact hnd.1 hk'
    cases a with
    | bare v =>
      exact step (.acc [("value", v)]) (by simp [modArgStep, paramDict, setKey, setKey_fresh k _ d hk])
        (by simp [plainEntry, writtenItems])
    | param value kwds =>
      cases value with
      | none =>
        exact step (.acc kwds) (by simp [modArgStep, paramDict, setKey_fresh k _ d hk]) (by simp [plainEntry, writtenItems])
      | some v =>
        have hv := hval k v kwds List.mem_cons_self
        exact step (.acc (kwds ++ [("value", v)]))
          (by simp [modArgStep, paramDict, setKey_fresh k _ d hk, setKey_fresh "value" v kwds hv])
          (by simp [plainEntry, writtenItems])
    | group ms =>
      simp only [List.foldl_cons, modArgStep, List.filterMap_cons, plainEntry, writtenItems, Option.map_none]
      exact ih d hnd.2 (fun k' hk' => hfresh k' (by simp only [List.map_cons]; exact List.mem_cons_of_mem _ hk')) hval'

theorem groupFor_none (k : Name) : ∀ (args : List (Name × DslArg Val)) (acc : Option Name),
    groupsOf args = [] →
    args.foldl (fun acc kv => match kv.2 with
      | DslArg.group ms => if ms.contains k then some kv.1 else acc
      | _ => acc) acc = acc := by
  intro args
  induction args with
  | nil => intro acc _; rfl
  | cons kv rest ih =>
    intro acc h
    obtain ⟨k', a⟩ := kv
    cases a with
    | bare v => simp only [List.foldl_cons]; exact ih acc (by simpa [groupsOf] using h)
    | param value kwds => simp only [List.foldl_cons]; exact ih acc (by simpa [groupsOf] using h)
    | group ms => simp [groupsOf] at h

/-! ## the DSL: the second loop of `Mod.__init__` (`self[member]['group'] = group`) -/

/-- every member of a `Group(…)` has an argument of its own (else `KeyError`: the file does not load) -/
def GroupsOk (args : List (Name × DslArg Val)) : Prop :=
  ∀ g ms, (g, DslArg.group ms) ∈ args → ∀ m ∈ ms, ∃ a, (m, a) ∈ args ∧ (writtenItems a).isSome = true

section Groups
variable (mkStr : Name → Val)

/-- the dict after some groups were processed: `S` tells which group a name has been put into so far -/
def upd (S : Name → Option Name) (kv : Name × Entry Val) : Name × Entry Val :=
  (kv.1, match kv.2 with
    | .acc items => .acc (withGroup mkStr (S kv.1) items)
    | e => e)

theorem setKey_setKey {α : Type} (k : Name) (v1 v2 : α) : ∀ (l : List (Name × α)),
    setKey k v2 (setKey k v1 l) = setKey k v2 l := by
  intro l
  induction l with
  | nil => simp [setKey]
  | cons x l ih =>
    by_cases hx : x.1 = k
    · simp [setKey, hx]
    · simp [setKey, hx, ih]

theorem withGroup_set (g : Name) (og : Option Name) (items : List (Name × Val)) :
    setKey "group" (mkStr g) (withGroup mkStr og items) = withGroup mkStr (some g) items := by
  cases og with
  | none => rfl
  | some g0 => simp [withGroup, setKey_setKey]

theorem lookup_map_upd (S : Name → Option Name) (m : Name) (items : List (Name × Val)) : ∀ (L : Cfg Val),
    lookup m L = some (.acc items) →
    lookup m (L.map (upd mkStr S)) = some (.acc (withGroup mkStr (S m) items)) := by
  intro L
  induction L with
  | nil => intro h; cases h
  | cons x L ih =>
    intro h
    obtain ⟨k, e⟩ := x
    simp only [lookup] at h
    by_cases hk : k = m
    · subst hk
      simp only [↓reduceIte, Option.some.injEq] at h
      subst h
      simp [lookup, upd]
    · simp only [hk, ↓reduceIte] at h
      simp only [List.map_cons, lookup, upd, hk, ↓reduceIte]
      exact ih h

theorem setKey_map_upd (S : Name → Option Name) (g m : Name) (items : List (Name × Val)) : ∀ (L : Cfg Val),
    (L.map (·.1)).Nodup → lookup m L = some (.acc items) →
    setKey m (Entry.acc (withGroup mkStr (some g) items)) (L.map (upd mkStr S)) =
      L.map (upd mkStr (fun k => if k = m then some g else S k)) := by
  intro L
  induction L with
  | nil => intro _ h; cases h
  | cons x L ih =>
    intro hnd h
    obtain ⟨k, e⟩ := x
    simp only [List.map_cons, List.nodup_cons] at hnd
    simp only [lookup] at h
    by_cases hk : k = m
    · subst hk
      simp only [↓reduceIte, Option.some.injEq] at h
      subst h
      have htail : L.map (upd mkStr S) = L.map (upd mkStr (fun k' => if k' = k then some g else S k')) := by
        apply List.map_congr_left
        intro kv hkv
        have : kv.1 ≠ k := fun he => hnd.1 (he ▸ List.mem_map_of_mem hkv)
        simp [upd, this]
      simp only [List.map_cons, upd, setKey, ↓reduceIte, htail]
    · simp only [hk, ↓reduceIte] at h
      simp only [List.map_cons, upd, setKey, hk, ↓reduceIte, List.cons.injEq, true_and]
      exact ih hnd.2 h

theorem setGroup_step (S : Name → Option Name) (g m : Name) (items : List (Name × Val)) (L : Cfg Val)
    (hnd : (L.map (·.1)).Nodup) (h : lookup m L = some (.acc items)) :
    setGroup mkStr g (some (L.map (upd mkStr S))) m =
      some (L.map (upd mkStr (fun k => if k = m then some g else S k))) := by
  simp only [setGroup, lookup_map_upd mkStr S m items L h, withGroup_set, setKey_map_upd mkStr S g m items L hnd h]

theorem members_fold (L : Cfg Val) (hnd : (L.map (·.1)).Nodup) (g : Name) :
    ∀ (ms : List Name) (S : Name → Option Name), (∀ m ∈ ms, ∃ items, lookup m L = some (.acc items)) →
      ∃ S', ms.foldl (setGroup mkStr g) (some (L.map (upd mkStr S))) = some (L.map (upd mkStr S')) ∧
        ∀ k, S' k = if ms.contains k then some g else S k := by
  intro ms
  induction ms with
  | nil => intro S _; exact ⟨S, rfl, fun k => by simp⟩
  | cons m ms ih =>
    intro S hm
    obtain ⟨items, hl⟩ := hm m List.mem_cons_self
    obtain ⟨S', h1, h2⟩ := ih (fun k => if k = m then some g else S k) (fun m' hm' => hm m' (List.mem_cons_of_mem _ hm'))
    refine ⟨S', by simp only [List.foldl_cons, setGroup_step mkStr S g m items L hnd hl, h1], fun k => ?_⟩
    rw [h2 k]
    by_cases hc : ms.contains k = true <;> by_cases hk : k = m <;> simp [hc, hk, List.contains_cons]

theorem groups_fold (L : Cfg Val) (hnd : (L.map (·.1)).Nodup) :
    ∀ (gs : List (Name × List Name)) (S : Name → Option Name),
      (∀ g ∈ gs, ∀ m ∈ g.2, ∃ items, lookup m L = some (.acc items)) →
      ∃ S', gs.foldl (fun d g => g.2.foldl (setGroup mkStr g.1) d) (some (L.map (upd mkStr S))) = some (L.map (upd mkStr S')) ∧
        ∀ k, S' k = gs.foldl (fun acc g => if g.2.contains k then some g.1 else acc) (S k) := by
  intro gs
  induction gs with
  | nil => intro S _; exact ⟨S, rfl, fun _ => rfl⟩
  | cons g gs ih =>
    intro S hg
    obtain ⟨S1, h1, h2⟩ := members_fold mkStr L hnd g.1 g.2 S (hg g List.mem_cons_self)
    obtain ⟨S', h3, h4⟩ := ih S1 (fun g' hg' => hg g' (List.mem_cons_of_mem _ hg'))
    refine ⟨S', by simp only [List.foldl_cons, h1, h3], fun k => ?_⟩
    rw [h4 k, h2 k]; rfl

theorem upd_none (kv : Name × Entry Val) : upd mkStr (fun _ => none) kv = kv := by
  obtain ⟨k, e⟩ := kv
  cases e <;> rfl

end Groups

theorem groupFor_groupsOf (k : Name) : ∀ (args : List (Name × DslArg Val)) (acc : Option Name),
    (groupsOf args).foldl (fun acc g => if g.2.contains k then some g.1 else acc) acc =
    args.foldl (fun acc kv => match kv.2 with
      | DslArg.group ms => if ms.contains k then some kv.1 else acc
      | _ => acc) acc := by
  intro args
  induction args with
  | nil => intro acc; rfl
  | cons kv rest ih =>
    intro acc
    obtain ⟨k', a⟩ := kv
    cases a with
    | bare v => simpa [groupsOf] using ih acc
    | param value kwds => simpa [groupsOf] using ih acc
    | group ms => simpa [groupsOf] using ih _

theorem mem_groupsOf : ∀ (args : List (Name × DslArg Val)) (g : Name × List Name), g ∈ groupsOf args →
    (g.1, DslArg.group g.2) ∈ args := by
  intro args g hg
  simp only [groupsOf, List.mem_filterMap] at hg
  obtain ⟨kv, hkv, h⟩ := hg
  obtain ⟨k, a⟩ := kv
  cases a with
  | bare v => simp at h
  | param value kwds => simp at h
  | group ms => simp only [Option.some.injEq] at h; subst h; exact hkv

theorem plain_keys_sublist : ∀ (args : List (Name × DslArg Val)),
    ((args.filterMap plainEntry).map (·.1)).Sublist (args.map (·.1)) := by
  intro args
  induction args with
  | nil => simp
  | cons kv rest ih =>
    cases hp : plainEntry kv with
    | none => simp only [List.filterMap_cons, hp, List.map_cons]; exact ih.cons _
    | some e =>
      have : e.1 = kv.1 := by
        simp only [plainEntry, Option.map_eq_some_iff] at hp
        obtain ⟨_, _, rfl⟩ := hp; rfl
      simp only [List.filterMap_cons, hp, List.map_cons, this]; exact ih.cons_cons _

theorem lookup_of_mem {α : Type} : ∀ (L : List (Name × α)) (k : Name) (v : α), (L.map (·.1)).Nodup → (k, v) ∈ L →
    lookup k L = some v := by
  intro L
  induction L with
  | nil => intro _ _ _ h; cases h
  | cons x L ih =>
    intro k v hnd h
    simp only [List.map_cons, List.nodup_cons] at hnd
    rcases List.mem_cons.1 h with rfl | hin
    · simp [lookup]
    · have : x.1 ≠ k := fun he => hnd.1 (he ▸ List.mem_map_of_mem hin)
      simp only [lookup, this, ↓reduceIte]
      exact ih k v hnd.2 hin

end Frappy.Lemmas.ConfigDsl
