import FrappyProofs.Lemmas.CommStep
/- helper lemmas for C16: invariants of accepted runs -/
open Frappy.Spec.C16
namespace Frappy.Comm

theorem exec_append (s : State) : ∀ (a b : List TEv), exec s (a ++ b) = (exec s a).bind (fun s' => exec s' b)
  | [], b => by simp [exec]
  | e :: a, b => by
    simp only [List.cons_append, exec]
    cases step s e with
    | none => simp
    | some s' => simp [exec_append s' a b]

theorem evAt_append_lt (log : Log) (e : TEv) (i : Nat) (h : i < log.length) : evAt (log ++ [e]) i = evAt log i := by
  simp [evAt, List.getElem?_append_left h]

theorem evAt_append_eq (log : Log) (e : TEv) : evAt (log ++ [e]) log.length = some e.ev := by
  simp [evAt]

theorem evAt_none (log : Log) (i : Nat) (h : log.length ≤ i) : evAt log i = none := by
  simp [evAt, List.getElem?_eq_none h]

theorem sendAt_lt_length (log : Log) (i c : Nat) (h : sendAt log i = some c) : i < log.length := by
  false_or_by_contra
  rename_i hn
  simp [sendAt, evAt_none log i (by omega)] at h

theorem sendAt_append_lt (log : Log) (e : TEv) (i : Nat) (h : i < log.length) : sendAt (log ++ [e]) i = sendAt log i := by
  simp [sendAt, evAt_append_lt log e i h]

theorem evAt_take (log : Log) (k i : Nat) (h : i < k) : evAt (log.take k) i = evAt log i := by
  simp [evAt, List.getElem?_take, h]

theorem sendAt_take (log : Log) (k i : Nat) (h : i < k) : sendAt (log.take k) i = sendAt log i := by
  simp [sendAt, evAt_take log k i h]

/-- replies of fixed length only: `getFullReply` never asks for more (no `more` event in the log) -/
def NoMore (log : Log) : Prop := ∀ m x n, evAt log m ≠ some (.more x n)

theorem noMore_restrict {log : Log} {e : TEv} (h : NoMore (log ++ [e])) : NoMore log ∧ ∀ x n, e.ev ≠ .more x n := by
  refine ⟨fun m x n hm => ?_, fun x n he => ?_⟩
  · have hlt : m < log.length := by
      false_or_by_contra; rename_i hn
      rw [evAt_none log m (by omega)] at hm; simp at hm
    exact h m x n (by rw [evAt_append_lt log e m hlt]; exact hm)
  · exact h log.length x n (by rw [evAt_append_eq, he])

theorem noMore_take {log : Log} (h : NoMore log) (k : Nat) : NoMore (log.take k) := by
  intro m x n hm
  have hlt : m < k := by
    false_or_by_contra; rename_i hn
    rw [evAt_none (log.take k) m (by simp; omega)] at hm; simp at hm
  exact h m x n (by rw [← evAt_take log k m hlt]; exact hm)

/-- no return of `c` after position i -/
def NoRetAfter (log : Log) (c i : Nat) : Prop := ∀ m, i < m → m < log.length → isRetOf c (evAt log m) = false

structure Inv (log : Log) (s : State) : Prop where
  li1 : ∀ c, 0 < (s.callers c).held → s.owner = some c
  li2 : ∀ c, s.owner = some c → s.depth = (s.callers c).held
  li3 : s.owner = none → s.depth = 0
  hk : ∀ c, heldOk (s.callers c)
  tk : ∀ c, todoOk (s.callers c)
  so : ∀ c, sentOk (s.callers c)
  ni : s.cfg.ident = [] → ∀ c, identFree (s.callers c)
  nx : NoMore log → ∀ c, (s.callers c).pc ≠ .readX
  sb : ∀ c i, sendAt log i = some c → NoRetAfter log c i → 0 < (s.callers c).sent
  b : ∀ c i, sendAt log i = some c → NoRetAfter log c i → (s.callers c).held = 0 → (s.callers c).pc = .done
  cc : ∀ c i j c', sendAt log i = some c → NoRetAfter log c i → 0 < (s.callers c).held → i < j →
        sendAt log j = some c' → c' = c

theorem inv_init (cfg : Cfg) (cbs : List Nat) : Inv [] { cfg := cfg, cbsReg := cbs } := by
  refine ⟨?_, ?_, ?_, ?_, ?_, ?_, ?_, ?_, ?_, ?_, ?_⟩
  · intro c h; simp at h
  · intro c h; simp at h
  · intro _; rfl
  · intro c; simp [heldOk]
  · intro c; simp [todoOk]
  · intro c; simp [sentOk, multiPc, prePc]
  · intro _ c; exact ⟨rfl, rfl⟩
  · intro _ c; simp
  · intro c i h; simp [sendAt, evAt] at h
  · intro c i h; simp [sendAt, evAt] at h
  · intro c i j c' h; simp [sendAt, evAt] at h

theorem noRetAfter_restrict {log : Log} {e : TEv} {c i : Nat} (h : NoRetAfter (log ++ [e]) c i) : NoRetAfter log c i := by
  intro m h1 h2
  have := h m h1 (by simp; omega)
  rwa [evAt_append_lt log e m h2] at this

/-- an event that leaves callers and lock alone (device events) -/
theorem inv_env {log : Log} {s s' : State} (e : TEv) (hi : Inv log s)
    (hc : s'.callers = s.callers) (ho : s'.owner = s.owner) (hd : s'.depth = s.depth) (hcf : s'.cfg = s.cfg)
    (hs : sendAt (log ++ [e]) log.length = none) : Inv (log ++ [e]) s' := by
  refine ⟨?_, ?_, ?_, ?_, ?_, ?_, ?_, ?_, ?_, ?_, ?_⟩
  · intro c h; rw [hc] at h; rw [ho]; exact hi.li1 c h
  · intro c h; rw [ho] at h; rw [hd, hc]; exact hi.li2 c h
  · intro h; rw [ho] at h; rw [hd]; exact hi.li3 h
  · intro c; rw [hc]; exact hi.hk c
  · intro c; rw [hc]; exact hi.tk c
  · intro c; rw [hc]; exact hi.so c
  · intro hid c; rw [hc]; rw [hcf] at hid; exact hi.ni hid c
  · intro hnm c; rw [hc]; exact hi.nx (noMore_restrict hnm).1 c
  · intro c i h1 h2
    have hlt : i < log.length := by
      have := sendAt_lt_length _ _ _ h1
      simp at this
      rcases Nat.lt_or_ge i log.length with h | h
      · exact h
      · have : i = log.length := by omega
        subst this; rw [hs] at h1; simp at h1
    rw [sendAt_append_lt log e i hlt] at h1
    rw [hc]
    exact hi.sb c i h1 (noRetAfter_restrict h2)
  · intro c i h1 h2 h3
    have hlt : i < log.length := by
      have := sendAt_lt_length _ _ _ h1
      simp at this
      rcases Nat.lt_or_ge i log.length with h | h
      · exact h
      · have : i = log.length := by omega
        subst this; rw [hs] at h1; simp at h1
    rw [sendAt_append_lt log e i hlt] at h1
    rw [hc] at h3 ⊢
    exact hi.b c i h1 (noRetAfter_restrict h2) h3
  · intro c i j c' h1 h2 h3 h4 h5
    have hj : j < log.length := by
      have := sendAt_lt_length _ _ _ h5
      simp at this
      rcases Nat.lt_or_ge j log.length with h | h
      · exact h
      · have : j = log.length := by omega
        subst this; rw [hs] at h5; simp at h5
    rw [sendAt_append_lt log e i (by omega)] at h1
    rw [sendAt_append_lt log e j hj] at h5
    rw [hc] at h3
    exact hi.cc c i j c' h1 (noRetAfter_restrict h2) h3 h4 h5


theorem held_other {s s' : State} {t c0 : Nat} {ev : Ev} (h : stepCaller s t c0 ev = some s') {x : Nat} (hx : x ≠ c0) :
    (s'.callers x).held = (s.callers x).held := by rw [step_others s s' t c0 ev h x hx]

theorem freeFor_owner {s : State} {c o : Nat} (h : s.freeFor c = true) (ho : s.owner = some o) : o = c := by
  simp [State.freeFor, ho] at h; exact h

/-- the new last event is a send: it is the acting caller's, who holds the lock -/
theorem send_last {log : Log} {s s' : State} (e : TEv) (c0 : Nat) (hw : e.ev.who = some c0) (hi : Inv log s)
    (h : stepCaller s e.t c0 e.ev = some s') (c : Nat) (hs : sendAt (log ++ [e]) log.length = some c) :
    c = c0 ∧ 0 < (s.callers c0).held ∧ (∀ x, e.ev ≠ .acq x) ∧ (∀ x, e.ev ≠ .rel x) := by
  simp only [sendAt, evAt_append_eq] at hs
  cases hev : e.ev <;> simp only [hev] at hs <;> try (simp at hs)
  rename_i c1 conn n d
  subst hs
  rw [hev] at hw h
  simp only [Ev.who, Option.some.injEq] at hw
  subst hw
  have hp := (stale_send_pc s s' e.t c1 conn n d h)
  have := hi.hk c1
  simp only [heldOk, hp] at this
  exact ⟨rfl, by omega, by simp, by simp⟩

theorem inv_caller {log : Log} {s s' : State} (e : TEv) (c0 : Nat) (hw : e.ev.who = some c0) (hi : Inv log s)
    (h : stepCaller s e.t c0 e.ev = some s') : Inv (log ++ [e]) s' := by
  have hlock := step_lock s s' e.t c0 e.ev h
  have hk' := step_heldOk s s' e.t c0 e.ev h (hi.hk c0)
  have tk' := step_todoOk s s' e.t c0 e.ev h (hi.tk c0)
  have so' := step_sentOk s s' e.t c0 e.ev h (hi.so c0) (hi.tk c0)
  have hoth : ∀ x, x ≠ c0 → s'.callers x = s.callers x := step_others s s' e.t c0 e.ev h
  refine ⟨?_, ?_, ?_, ?_, ?_, ?_, ?_, ?_, ?_, ?_, ?_⟩
  · -- li1
    intro c hc
    cases hlock with
    | acq _ hf ho _ hh =>
      by_cases hcc : c = c0
      · rw [hcc]; exact ho
      · rw [hoth c hcc] at hc
        exact absurd (freeFor_owner hf (hi.li1 c hc)) hcc
    | rel _ ho ho' hd hh =>
      by_cases hcc : c = c0
      · subst hcc
        have := hi.li2 c ho
        rw [ho', if_neg (by omega)]; exact ho
      · rw [hoth c hcc] at hc
        have := hi.li1 c hc
        rw [ho] at this; simp at this; exact absurd this.symm hcc
    | keep _ _ ho hd hh =>
      rw [ho]
      by_cases hcc : c = c0
      · subst hcc; rw [hh] at hc; exact hi.li1 c hc
      · rw [hoth c hcc] at hc; exact hi.li1 c hc
  · -- li2
    intro c hc
    cases hlock with
    | acq _ hf ho hd hh =>
      rw [ho] at hc; simp at hc; subst hc
      rw [hd, hh]
      cases hown : s.owner with
      | none =>
        have h0 : (s.callers c0).held = 0 := by
          false_or_by_contra; rename_i hn
          have := hi.li1 c0 (by omega); rw [hown] at this; simp at this
        rw [hi.li3 hown, h0]
      | some o =>
        have := freeFor_owner hf hown; subst this
        rw [hi.li2 o hown]
    | rel _ ho ho' hd hh =>
      rw [ho'] at hc
      split at hc
      · simp at hc
      · rw [ho] at hc; simp at hc; subst hc
        rw [hd, hh, hi.li2 c0 ho]
    | keep _ _ ho hd hh =>
      rw [ho] at hc; rw [hd]
      by_cases hcc : c = c0
      · subst hcc; rw [hh]; exact hi.li2 c hc
      · rw [hoth c hcc]; exact hi.li2 c hc
  · -- li3
    intro hn
    cases hlock with
    | acq _ hf ho hd hh => rw [ho] at hn; simp at hn
    | rel _ ho ho' hd hh =>
      rw [ho'] at hn
      split at hn
      · rw [hd]; omega
      · rw [ho] at hn; simp at hn
    | keep _ _ ho hd hh => rw [ho] at hn; rw [hd]; exact hi.li3 hn
  · intro c
    by_cases hcc : c = c0
    · subst hcc; exact hk'
    · rw [hoth c hcc]; exact hi.hk c
  · intro c
    by_cases hcc : c = c0
    · subst hcc; exact tk'
    · rw [hoth c hcc]; exact hi.tk c
  · intro c
    by_cases hcc : c = c0
    · subst hcc; exact so'
    · rw [hoth c hcc]; exact hi.so c
  · intro hid c
    rw [step_cfg s s' e.t c0 e.ev h] at hid
    by_cases hcc : c = c0
    · subst hcc; exact step_identFree s s' e.t c e.ev h hid (hi.ni hid c)
    · rw [hoth c hcc]; exact hi.ni hid c
  · intro hnm c
    obtain ⟨hnm0, hne⟩ := noMore_restrict hnm
    by_cases hcc : c = c0
    · subst hcc
      intro hp
      rcases step_enter_readX s s' e.t c e.ev h hp with hold | ⟨x, n, hx⟩
      · exact hi.nx hnm0 c hold
      · exact hne x n hx
    · rw [hoth c hcc]; exact hi.nx hnm0 c
  · -- sb
    intro c i h1 h2
    have hile := sendAt_lt_length _ _ _ h1
    simp only [List.length_append, List.length_singleton] at hile
    rcases Nat.lt_or_ge i log.length with hlt | hge
    · rw [sendAt_append_lt log e i hlt] at h1
      have hnr := noRetAfter_restrict h2
      have hold := hi.sb c i h1 hnr
      by_cases hcc : c = c0
      · subst hcc
        have hnc : ∀ x kd rq, e.ev ≠ .call x kd rq := by
          intro x kd rq hev
          rw [hev] at h
          have hidle := step_call_idle s s' e.t c x kd rq h
          have hk := hi.hk c
          rcases Nat.eq_zero_or_pos (s.callers c).held with h0 | hpos
          · have := hi.b c i h1 hnr h0
            rw [hidle] at this; simp at this
          · simp only [heldOk, hidle] at hk; omega
        have := step_sent_mono s s' e.t c e.ev h hnc
        omega
      · rw [hoth c hcc]; exact hold
    · have : i = log.length := by omega
      subst this
      obtain ⟨hc, _, _, _⟩ := send_last e c0 hw hi h c h1
      subst hc
      simp only [sendAt, evAt_append_eq] at h1
      cases hev : e.ev <;> simp only [hev] at h1 <;> try (simp at h1)
      rw [hev] at h
      exact step_send_sent s s' e.t c _ _ _ _ h
  · -- b
    intro c i h1 h2 h3
    have hile := sendAt_lt_length _ _ _ h1
    simp only [List.length_append, List.length_singleton] at hile
    rcases Nat.lt_or_ge i log.length with hlt | hge
    · rw [sendAt_append_lt log e i hlt] at h1
      have hnr := noRetAfter_restrict h2
      have hnotret : isRetOf c (some e.ev) = false := by
        have := h2 log.length hlt (by simp)
        rwa [evAt_append_eq] at this
      by_cases hcc : c = c0
      · subst hcc
        rcases Nat.eq_zero_or_pos (s.callers c).held with h0 | hpos
        · have hd := hi.b c i h1 hnr h0
          rcases step_from_done s s' e.t c e.ev h hd with ⟨x, r, hr⟩ | ⟨_, hd', _⟩
          · rw [hr] at hw hnotret
            simp only [Ev.who, Option.some.injEq] at hw
            simp [isRetOf, hw] at hnotret
          · exact hd'
        · cases hlock with
          | acq _ _ _ _ hh => omega
          | rel hr _ _ _ _ => exact step_rel_done s s' e.t c e.ev h (hi.hk c) (hi.tk c) (hi.so c) (hi.sb c i h1 hnr) hr h3
          | keep _ _ _ _ hh => omega
      · rw [hoth c hcc] at h3 ⊢
        exact hi.b c i h1 hnr h3
    · have : i = log.length := by omega
      subst this
      obtain ⟨hc, hpos, hna, hnr⟩ := send_last e c0 hw hi h c h1
      subst hc
      cases hlock with
      | acq ha _ _ _ _ => obtain ⟨x, hx⟩ := ha; exact absurd hx (hna x)
      | rel hr _ _ _ _ => obtain ⟨x, hx⟩ := hr; exact absurd hx (hnr x)
      | keep _ _ _ _ hh => omega
  · -- cc
    intro c i j c' h1 h2 h3 h4 h5
    have hjle := sendAt_lt_length _ _ _ h5
    simp only [List.length_append, List.length_singleton] at hjle
    have hnr := noRetAfter_restrict h2
    rcases Nat.lt_or_ge j log.length with hlt | hge
    · rw [sendAt_append_lt log e i (by omega)] at h1
      rw [sendAt_append_lt log e j hlt] at h5
      rcases Nat.eq_zero_or_pos (s.callers c).held with h0 | hpos
      · -- the lock was taken by this very event: impossible after a send of an unfinished call
        have hd := hi.b c i h1 hnr h0
        by_cases hcc : c = c0
        · subst hcc
          rcases step_from_done s s' e.t c e.ev h hd with ⟨x, r, hr⟩ | ⟨_, _, hh⟩
          · have := h2 log.length (by omega) (by simp)
            rw [evAt_append_eq, hr] at this
            rw [hr] at hw
            simp only [Ev.who, Option.some.injEq] at hw
            simp [isRetOf, hw] at this
          · omega
        · rw [hoth c hcc] at h3; omega
      · exact hi.cc c i j c' h1 hnr hpos h4 h5
    · have : j = log.length := by omega
      subst this
      obtain ⟨hc, hpos, hna, hnrel⟩ := send_last e c0 hw hi h c' h5
      subst hc
      by_cases hcc : c = c'
      · exact hcc.symm
      · have hheld : 0 < (s.callers c).held := by rw [hoth c hcc] at h3; exact h3
        have o1 := hi.li1 c hheld
        have o2 := hi.li1 c' hpos
        rw [o1] at o2; simp at o2; exact absurd o2 hcc


theorem inv_clock {log : Log} {s : State} (t : Nat) (hi : Inv log s) : Inv log { s with clock := t } :=
  ⟨hi.li1, hi.li2, hi.li3, hi.hk, hi.tk, hi.so, hi.ni, hi.nx, hi.sb, hi.b, hi.cc⟩

theorem sendAt_last_not_send {log : Log} {e : TEv} (h : ∀ c a b d, e.ev ≠ .send c a b d) :
    sendAt (log ++ [e]) log.length = none := by
  simp only [sendAt, evAt_append_eq]
  cases hev : e.ev <;> simp
  exact absurd hev (h _ _ _ _)

theorem step_caller_form (s : State) (e : TEv) (c : Nat) (hw : e.ev.who = some c) :
    step s e = if e.t < s.clock then none else stepCaller { s with clock := e.t } e.t c e.ev := by
  unfold step
  split
  · rfl
  · cases hev : e.ev <;> simp only [hev, Ev.who, Option.some.injEq] at hw ⊢ <;> first | (subst hw; rfl) | (simp at hw)

theorem inv_step {log : Log} {s s' : State} (e : TEv) (hi : Inv log s) (h : step s e = some s') :
    Inv (log ++ [e]) s' := by
  have hi1 := inv_clock e.t hi
  cases hwho : e.ev.who with
  | some c =>
    rw [step_caller_form s e c hwho] at h
    split at h
    · simp at h
    · exact inv_caller e c hwho hi1 h
  | none =>
    have hs : sendAt (log ++ [e]) log.length = none :=
      sendAt_last_not_send (by intro c a b d hc; rw [hc] at hwho; simp [Ev.who] at hwho)
    unfold step at h
    split at h
    · simp at h
    · simp only at h
      cases hev : e.ev <;> simp only [hev, Ev.who] at hwho h <;> try (simp at hwho)
      · -- arrive
        split at h
        · split at h
          · simp at h
          · simp only [Option.some.injEq] at h; subst h; exact inv_env e hi1 rfl rfl rfl rfl hs
        · simp only [Option.some.injEq] at h; subst h; exact inv_env e hi1 rfl rfl rfl rfl hs
      · -- devclose
        split at h <;> (simp only [Option.some.injEq] at h; subst h; exact inv_env e hi1 rfl rfl rfl rfl hs)
      · -- dopoll
        simp only [Option.some.injEq] at h; subst h; exact inv_env e hi1 rfl rfl rfl rfl hs

theorem inv_exec_gen : ∀ (evs pre : List TEv) (s0 s : State), Inv pre s0 → exec s0 evs = some s → Inv (pre ++ evs) s
  | [], pre, s0, s, hi, h => by simp [exec] at h; subst h; simpa using hi
  | e :: es, pre, s0, s, hi, h => by
    simp only [exec] at h
    cases hst : step s0 e with
    | none => simp [hst] at h
    | some s1 =>
      simp only [hst] at h
      have := inv_exec_gen es (pre ++ [e]) s1 s (inv_step e hi hst) h
      simpa using this

/-- the invariant holds after every accepted run -/
theorem inv_exec (cfg : Cfg) (cbs : List Nat) (evs : List TEv) (s : State)
    (h : exec { cfg := cfg, cbsReg := cbs } evs = some s) : Inv evs s := by
  simpa using inv_exec_gen evs [] _ s (inv_init cfg cbs) h

/-- an accepted run can be cut at any position: the prefix is accepted and the next event is a step from there -/
theorem exec_cut (s0 : State) (evs : List TEv) (k : Nat) (e : TEv) (hk : evs[k]? = some e) (sf : State)
    (h : exec s0 evs = some sf) : ∃ sk sk', exec s0 (evs.take k) = some sk ∧ step sk e = some sk' := by
  have hlt : k < evs.length := by
    false_or_by_contra; rename_i hn
    rw [List.getElem?_eq_none (by omega)] at hk; simp at hk
  have hsplit : evs = evs.take k ++ e :: evs.drop (k + 1) := by
    have := List.getElem?_eq_some_iff.1 hk
    obtain ⟨_, rfl⟩ := this
    simp
  rw [hsplit, exec_append] at h
  cases hpre : exec s0 (evs.take k) with
  | none => simp [hpre] at h
  | some sk =>
    simp only [hpre, Option.bind_some, exec] at h
    cases hst : step sk e with
    | none => simp [hst] at h
    | some sk' => exact ⟨sk, sk', rfl, hst⟩

end Frappy.Comm
