import FrappyModel.Spec.C20
/- helper lemmas for the routing clause of C20: the handler's table refines the abstract
   "current choice per (module, connection)" function -/
namespace Frappy.Logging
open Frappy.Spec.C20

abbrev Cur := String → Conn → Option Level

/-- the table holds exactly the current choices, one entry per key -/
structure Inv (s : Subs) (cur : Cur) : Prop where
  keys : (s.map (·.1)).Nodup
  mem : ∀ m c l, ((m, c), l) ∈ s ↔ cur m c = some l

theorem Inv.congr {s : Subs} {cur cur' : Cur} (h : Inv s cur) (e : ∀ m c, cur m c = cur' m c) : Inv s cur' :=
  ⟨h.keys, fun m c l => by rw [← e]; exact h.mem m c l⟩

theorem inv_nil : Inv [] (fun _ _ => none) := ⟨by simp, by simp⟩

def setCur (t : Tables) (cur : Cur) (m : String) (c : Conn) (l : Level) : Cur :=
  fun m' c' => if m = m' ∧ c = c' then (if l = t.off then none else some l) else cur m' c'

theorem setConnLevel_inv (t : Tables) {s : Subs} {cur : Cur} (h : Inv s cur) (m : String) (c : Conn) (l : Level) :
    Inv (setConnLevel t s m c l) (setCur t cur m c l) := by
  have hfk : ((s.filter (fun e => !(e.1 == (m, c)))).map (·.1)).Nodup :=
    h.keys.sublist (List.Sublist.map _ List.filter_sublist)
  have hfm : ∀ m' c' l', ((m', c'), l') ∈ s.filter (fun e => !(e.1 == (m, c))) ↔
      (¬ (m = m' ∧ c = c') ∧ cur m' c' = some l') := by
    intro m' c' l'
    rw [List.mem_filter, h.mem]
    have : ((m', c') == (m, c)) = true ↔ (m = m' ∧ c = c') := by
      rw [beq_iff_eq, Prod.mk.injEq]; exact ⟨fun e => ⟨e.1.symm, e.2.symm⟩, fun e => ⟨e.1.symm, e.2.symm⟩⟩
    simp only [Bool.not_eq_eq_eq_not, Bool.not_true, ← Bool.not_eq_true, this]
    exact And.comm
  unfold setConnLevel
  by_cases hl : l = t.off
  · simp only [hl, beq_self_eq_true, ↓reduceIte]
    refine ⟨hfk, fun m' c' l' => ?_⟩
    rw [hfm]; unfold setCur; simp only [↓reduceIte]
    by_cases hk : m = m' ∧ c = c' <;> simp [hk]
  · have hl' : (l == t.off) = false := by simpa using hl
    simp only [hl', Bool.false_eq_true, ↓reduceIte]
    refine ⟨?_, fun m' c' l' => ?_⟩
    · rw [List.map_append, List.nodup_append]
      refine ⟨hfk, by simp, ?_⟩
      intro a ha b hb
      simp only [List.map_cons, List.map_nil, List.mem_singleton] at hb
      subst hb
      rw [List.mem_map] at ha
      obtain ⟨⟨⟨m', c'⟩, l'⟩, hmem, rfl⟩ := ha
      have := (hfm m' c' l').1 hmem
      intro e; simp only [Prod.mk.injEq] at e; exact this.1 ⟨e.1.symm, e.2.symm⟩
    · rw [List.mem_append, hfm]; unfold setCur
      simp only [List.mem_singleton, Prod.mk.injEq, hl, ↓reduceIte]
      by_cases hk : m = m' ∧ c = c'
      · obtain ⟨rfl, rfl⟩ := hk
        simp only [and_self, not_true_eq_false, false_and, true_and, false_or, ↓reduceIte, Option.some.injEq]
        exact eq_comm
      · have hk2 : ¬ (m' = m ∧ c' = c) := fun e => hk ⟨e.1.symm, e.2.symm⟩
        simp only [hk, hk2, not_false_eq_true, true_and, false_and, or_false, ↓reduceIte]

def setAllCur (t : Tables) (mods : List String) (cur : Cur) (c : Conn) (l : Level) : Cur :=
  fun m' c' => if c = c' ∧ mods.contains m' = true then (if l = t.off then none else some l) else cur m' c'

theorem setAll_inv (t : Tables) (mods : List String) (c : Conn) (l : Level) :
    ∀ {s : Subs} {cur : Cur}, Inv s cur → Inv (setAll t mods s c l) (setAllCur t mods cur c l) := by
  unfold setAll
  induction mods with
  | nil => intro s cur h; exact h.congr (fun m' c' => by simp [setAllCur])
  | cons m ms ih =>
    intro s cur h
    rw [List.foldl_cons]
    refine (ih (setConnLevel_inv t h m c l)).congr (fun m' c' => ?_)
    simp only [setAllCur, setCur, List.contains_cons, Bool.or_eq_true, beq_iff_eq]
    by_cases hc : c = c' <;> by_cases hm : m = m' <;> by_cases hms : ms.contains m' = true <;>
      simp_all [eq_comm]

/-- the abstract step: an event changes the choice of exactly the pairs it concerns -/
def absStep (t : Tables) (mods : List String) (cur : Cur) (op : Op) : Cur :=
  fun m c => upd (effect t mods m c op) (cur m c)

@[simp] theorem upd_none (v : Option Level) : upd none v = v := rfl
@[simp] theorem upd_some (e v : Option Level) : upd (some e) v = e := rfl
@[simp] theorem upd_ite (p : Prop) [Decidable p] (e v : Option Level) :
    upd (if p then some e else none) v = if p then e else v := by split <;> rfl

theorem step_inv (t : Tables) (mods : List String) {s : Subs} {cur : Cur} (h : Inv s cur) (op : Op) :
    Inv (step t mods s op).1 (absStep t mods cur op) := by
  cases op with
  | emit m lvl => exact h.congr (fun m' c' => by simp [absStep, effect])
  | ident c =>
    refine (setAll_inv t mods c t.off h).congr (fun m' c' => ?_)
    simp [setAllCur, absStep, effect]
  | disconnect c =>
    refine (setAll_inv t mods c t.off h).congr (fun m' c' => ?_)
    simp [setAllCur, absStep, effect]
  | logging c spec lvl =>
    cases spec with
    | some m =>
      simp only [step]
      by_cases hm : mods.contains m = true
      · simp only [hm, ↓reduceIte]
        cases hlv : checkLevel t lvl with
        | none =>
          refine h.congr (fun m' c' => ?_)
          simp [absStep, effect, hlv]
        | some l =>
          refine (setConnLevel_inv t h m c l).congr (fun m' c' => ?_)
          simp only [List.contains_eq_mem, decide_eq_true_eq] at hm
          by_cases h1 : c = c' <;> by_cases h2 : m = m' <;> by_cases h3 : l = t.off <;>
            simp [setCur, absStep, effect, hlv, h1, h2, h3]
          all_goals (subst h2; simp [hm])
      · simp only [hm, Bool.false_eq_true, ↓reduceIte]
        refine h.congr (fun m' c' => ?_)
        simp only [List.contains_eq_mem, decide_eq_true_eq] at hm
        by_cases h2 : m = m'
        · subst h2; simp [absStep, effect, hm]
        · simp [absStep, effect, h2]
    | none =>
      simp only [step]
      cases hlv : checkLevel t lvl with
      | none =>
        refine h.congr (fun m' c' => ?_)
        simp [absStep, effect, hlv]
      | some l =>
        refine (setAll_inv t mods c l h).congr (fun m' c' => ?_)
        by_cases h1 : c = c' <;> by_cases h2 : m' ∈ mods <;> by_cases h3 : l = t.off <;>
          simp [setAllCur, absStep, effect, hlv, h1, h2, h3]

/-! ### receivers -/

theorem perm_insertSorted (c : Conn) (l : List Conn) : (insertSorted c l).Perm (c :: l) := by
  induction l with
  | nil => exact List.Perm.refl _
  | cons x xs ih =>
    unfold insertSorted; split
    · exact List.Perm.refl _
    · exact ((List.Perm.cons x ih).trans (List.Perm.swap c x xs))

theorem perm_sortConns (l : List Conn) : (sortConns l).Perm l := by
  induction l with
  | nil => exact List.Perm.refl _
  | cons x xs ih =>
    show (insertSorted x (sortConns xs)).Perm (x :: xs)
    exact (perm_insertSorted x _).trans (List.Perm.cons x ih)

theorem mem_receivers {s : Subs} {cur : Cur} (h : Inv s cur) (m : String) (lvl : Level) (c : Conn) :
    c ∈ receivers s m lvl ↔ ∃ l, cur m c = some l ∧ l ≤ lvl := by
  unfold receivers
  rw [List.mem_map]
  constructor
  · rintro ⟨⟨⟨m', c'⟩, l⟩, hmem, rfl⟩
    rw [List.mem_filter] at hmem
    simp only [Bool.and_eq_true, beq_iff_eq, decide_eq_true_eq] at hmem
    obtain ⟨hin, rfl, hle⟩ := hmem
    exact ⟨l, (h.mem _ _ _).1 hin, hle⟩
  · rintro ⟨l, hc, hle⟩
    refine ⟨((m, c), l), ?_, rfl⟩
    rw [List.mem_filter]
    exact ⟨(h.mem _ _ _).2 hc, by simp [hle]⟩

theorem nodup_receivers {s : Subs} {cur : Cur} (h : Inv s cur) (m : String) (lvl : Level) :
    (receivers s m lvl).Nodup := by
  unfold receivers
  have h1 : ((s.filter (fun e => e.1.1 == m && decide (e.2 ≤ lvl))).map (·.1)).Nodup :=
    h.keys.sublist (List.Sublist.map _ List.filter_sublist)
  have h2 : ∀ e ∈ s.filter (fun e => e.1.1 == m && decide (e.2 ≤ lvl)), e.1.1 = m := by
    intro e he; rw [List.mem_filter] at he; simp at he; exact he.2.1
  generalize s.filter (fun e => e.1.1 == m && decide (e.2 ≤ lvl)) = l at h1 h2
  induction l with
  | nil => simp
  | cons x xs ih =>
    simp only [List.map_cons, List.nodup_cons, List.mem_map, not_exists, not_and] at h1 ⊢
    refine ⟨?_, ih h1.2 (fun e he => h2 e (List.mem_cons_of_mem _ he))⟩
    intro y hy heq
    apply h1.1 y hy
    have hx := h2 x (List.mem_cons_self)
    have hy' := h2 y (List.mem_cons_of_mem _ hy)
    exact Prod.ext (hy'.trans hx.symm) heq

/-! ### the scan of the history -/

/-- state of the abstract machine after a history -/
def histCur (t : Tables) (mods : List String) (hist : List Op) : Cur :=
  hist.foldl (absStep t mods) (fun _ _ => none)

theorem foldl_absStep_apply (t : Tables) (mods : List String) (hist : List Op) (cur : Cur) (m : String) (c : Conn) :
    (hist.foldl (absStep t mods) cur) m c =
      hist.foldl (fun v op => upd (effect t mods m c op) v) (cur m c) := by
  induction hist generalizing cur with
  | nil => rfl
  | cons op rest ih => rw [List.foldl_cons, List.foldl_cons, ih]; rfl

theorem histCur_eq_setting (t : Tables) (mods : List String) (hist : List Op) (m : String) (c : Conn) :
    histCur t mods hist m c = setting t mods hist m c := by
  unfold histCur setting; rw [foldl_absStep_apply]

theorem histCur_snoc (t : Tables) (mods : List String) (hist : List Op) (op : Op) :
    histCur t mods (hist ++ [op]) = absStep t mods (histCur t mods hist) op := by
  unfold histCur; rw [List.foldl_append]; rfl

theorem Setting_cons (t : Tables) (mods : List String) (op : Op) (rest : List Op) (m : String) (c : Conn) (l : Level) :
    Setting t mods (op :: rest) m c l ↔
      Setting t mods rest m c l ∨ (effect t mods m c op = some (some l) ∧ ∀ op' ∈ rest, effect t mods m c op' = none) := by
  constructor
  · rintro ⟨pre, o, post, heq, he, hpost⟩
    cases pre with
    | nil =>
      simp only [List.nil_append, List.cons.injEq] at heq
      obtain ⟨rfl, rfl⟩ := heq
      exact Or.inr ⟨he, hpost⟩
    | cons p pre' =>
      simp only [List.cons_append, List.cons.injEq] at heq
      exact Or.inl ⟨pre', o, post, heq.2, he, hpost⟩
  · rintro (⟨pre, o, post, heq, he, hpost⟩ | ⟨he, hpost⟩)
    · exact ⟨op :: pre, o, post, by rw [heq]; rfl, he, hpost⟩
    · exact ⟨[], op, rest, rfl, he, hpost⟩

theorem foldl_setting_iff (t : Tables) (mods : List String) (m : String) (c : Conn) (l : Level) :
    ∀ (hist : List Op) (init : Option Level),
    hist.foldl (fun v op => upd (effect t mods m c op) v) init = some l ↔
      Setting t mods hist m c l ∨ (init = some l ∧ ∀ op ∈ hist, effect t mods m c op = none) := by
  intro hist
  induction hist with
  | nil =>
    intro init
    simp only [List.foldl_nil, List.not_mem_nil, false_imp_iff, implies_true, and_true]
    constructor
    · exact Or.inr
    · rintro (⟨pre, o, post, heq, _⟩ | h)
      · cases pre <;> simp at heq
      · exact h
  | cons op rest ih =>
    intro init
    rw [List.foldl_cons, ih, Setting_cons]
    cases he : effect t mods m c op with
    | none => simp [he]
    | some e => simp [he]

theorem setting_iff (t : Tables) (mods : List String) (hist : List Op) (m : String) (c : Conn) (l : Level) :
    setting t mods hist m c = some l ↔ Setting t mods hist m c l := by
  unfold setting; rw [foldl_setting_iff]; simp

end Frappy.Logging
