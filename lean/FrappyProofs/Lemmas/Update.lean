import FrappyModel.Node.Update
import FrappyModel.Spec.C05
/-
Lemmas about the update funnel (sequential part).
-/
set_option linter.unusedSectionVars false
set_option linter.unusedSimpArgs false
namespace Frappy.Update
open Frappy.Spec.C05

variable {V E X : Type} [DecidableEq E]

/-- the assumption under which "unchanged" means "identical": values that Python's `!=` does not
tell apart are the same value (they have the same exported form) -/
def ExportExact (o : Oracle V E) (ex : V → X) : Prop := ∀ a b, o.veq a b = true → ex a = ex b

/-- special case: the values themselves -/
def EqExact (o : Oracle V E) : Prop := ExportExact o (fun v => v)

@[simp] theorem ve_commit (e : Entry V E) (now : Int) (r : VE V E) :
    (commit (storeValue e r) now r).ve = r := by
  cases r <;> simp [commit, storeValue, storeError, stamp, Entry.ve]

@[simp] theorem ts_commit (e : Entry V E) (now : Int) (r : VE V E) :
    (commit (storeValue e r) now r).timestamp = now := by
  cases r <;> simp [commit, storeValue, storeError, stamp]

@[simp] theorem window_commit (e : Entry V E) (now : Int) (r : VE V E) :
    (commit (storeValue e r) now r).window = e.window := by
  cases r <;> simp [commit, storeValue, storeError, stamp]

/-- a suppressed call leaves the value-or-error of the entry as it was -/
theorem ve_suppressed (o : Oracle V E) (ex : V → X) (h : ExportExact o ex) (e : Entry V E) (now : Int) (r : VE V E)
    (hd : emits o e now r = false) : (storeValue e r).ve.map ex = e.ve.map ex := by
  cases r with
  | err x => rfl
  | val v =>
    simp only [emits, changed, Bool.or_eq_false_iff, Bool.not_eq_false', Bool.not_eq_eq_eq_not,
      Bool.not_true] at hd
    have hv : ex e.value = ex v := h _ _ hd.1.1
    have hr : e.readerror = none := by
      cases hre : e.readerror with
      | none => rfl
      | some x => have := hd.1.2; simp [hre] at this
    simp [storeValue, Entry.ve, hr, hv, VE.map]

/-- timestamp and window of a suppressed call are untouched -/
theorem ts_suppressed (e : Entry V E) (r : VE V E) : (storeValue e r).timestamp = e.timestamp := by
  cases r <;> rfl

/-- the newest message if there is one, else what was known -/
def pick {S M : Type} (f : M → S) (k : S) : Option M → S
  | some m => f m
  | none => k

/-- the central fact: after a call the entry's value-or-error is the emitted message's, or the old one -/
theorem announceR_ve (o : Oracle V E) (ex : V → X) (h : ExportExact o ex) (e : Entry V E) (now : Int) (r : VE V E) :
    (announceR o e now r).entry.ve.map ex =
      pick (fun m => m.ve.map ex) (e.ve.map ex) (announceR o e now r).msg := by
  unfold announceR
  by_cases hd : emits o e now r = true
  · simp [hd, mkMsg, pick]
  · simp only [Bool.not_eq_true] at hd
    simp [hd, ve_suppressed o ex h e now r hd, pick]

/-- a message is exactly the entry at its emission: state and time stamp -/
theorem announceR_msg (o : Oracle V E) (e : Entry V E) (now : Int) (r : VE V E) (m : Msg V E)
    (hm : (announceR o e now r).msg = some m) :
    m = mkMsg (announceR o e now r).entry ∧ m.ve = r ∧ m.t = now := by
  unfold announceR at hm ⊢
  by_cases hd : emits o e now r = true
  · simp only [hd, if_true, Option.some.injEq] at hm ⊢
    subst hm
    simp [mkMsg]
  · simp [hd] at hm

theorem announceR_skip (o : Oracle V E) (e : Entry V E) (now : Int) (r : VE V E) (hd : emits o e now r = false) :
    announceR o e now r = ⟨storeValue e r, none⟩ := by simp [announceR, hd]

theorem announceR_go (o : Oracle V E) (e : Entry V E) (now : Int) (r : VE V E) (hd : emits o e now r = true) :
    announceR o e now r = ⟨commit (storeValue e r) now r, some (mkMsg (commit (storeValue e r) now r))⟩ := by
  simp [announceR, hd]

/-- an entry in error announces every successful value -/
theorem emits_recovery (o : Oracle V E) (e : Entry V E) (now : Int) (v : V) (x : E)
    (he : e.readerror = some x) : emits o e now (.val v) = true := by
  simp [emits, changed, he]

/-- a value that differs from the cached one is announced -/
theorem emits_changed (o : Oracle V E) (e : Entry V E) (now : Int) (v : V)
    (hv : o.veq e.value v = false) : emits o e now (.val v) = true := by
  simp [emits, changed, hv]

/-- a different error, or an error after a value, is announced -/
theorem emits_error (o : Oracle V E) (e : Entry V E) (now : Int) (x : E)
    (hx : e.readerror ≠ some x) : emits o e now (.err x) = true := by
  simp [emits, hx]

theorem runR_append (o : Oracle V E) (e : Entry V E) (xs ys : List (REv V E)) :
    runR o e (xs ++ ys) =
      ⟨(runR o (runR o e xs).entry ys).entry, (runR o e xs).msgs ++ (runR o (runR o e xs).entry ys).msgs⟩ := by
  induction xs generalizing e with
  | nil => simp [runR]
  | cons x xs ih => simp [runR, ih]

theorem runR_snoc (o : Oracle V E) (e : Entry V E) (xs : List (REv V E)) (x : REv V E) :
    runR o e (xs ++ [x]) =
      ⟨(announceR o (runR o e xs).entry x.now x.r).entry,
       (runR o e xs).msgs ++ (announceR o (runR o e xs).entry x.now x.r).msg.toList⟩ := by
  rw [runR_append]; simp [runR]

/-- observation of one call, as the specification sees it -/
def obsOf (ex : V → X) (out : Out V E) : Obs (VE X E) :=
  ⟨(out.msg.toList).map (fun m => m.ve.map ex), out.entry.ve.map ex⟩

theorem replay_toList {S M : Type} (f : M → S) (k : S) (om : Option M) :
    replay k ((om.toList).map f) = pick f k om := by
  cases om <;> simp [replay, pick]

theorem replay_append {S : Type} (k : S) (a b : List S) : replay k (a ++ b) = replay (replay k a) b := by
  simp [replay, List.foldl_append]


/-! ### callbacks -/

theorem runCallbacks_of_caught (caught : CbOutcome → Bool) (h : ∀ oc, caught oc = true) (cbs : List CbOutcome) :
    runCallbacks caught cbs = true := by
  induction cbs with
  | nil => rfl
  | cons oc rest ih => simp [runCallbacks, h oc, ih]

/-- when the `except` clause catches every outcome, callbacks do not influence entry and message -/
theorem announceC_eq (o : Oracle V E) (caught : CbOutcome → Bool) (h : ∀ oc, caught oc = true) (e : Entry V E)
    (now : Int) (r : VE V E) (cbs : List CbOutcome) : announceC o caught e now r cbs = announceR o e now r := by
  unfold announceC announceR
  simp [runCallbacks_of_caught caught h cbs]

theorem runC_eq (o : Oracle V E) (caught : CbOutcome → Bool) (h : ∀ oc, caught oc = true) (e : Entry V E)
    (xs : List (CEv V E)) : runC o caught e xs = runR o e (xs.map CEv.plain) := by
  induction xs generalizing e with
  | nil => rfl
  | cons x xs ih => simp [runC, runR, announceC_eq o caught h, ih, CEv.plain]

/-! ### callbacks that call the funnel of other parameters: every parameter sees a sequential history -/

/-- the call of the funnel of parameter `q` that one callback of a call on `p` makes -/
def nestedEvs (q p : Nat) : Option (Nested V E) → List (REv V E)
  | none => []
  | some n => if n.q = p then [] else if n.q = q then [⟨n.now, n.r⟩] else []

@[simp] theorem projM_nil (q : Nat) : projM q ([] : List (Nat × Msg V E)) = [] := rfl
theorem projM_append (q : Nat) (a b : List (Nat × Msg V E)) : projM q (a ++ b) = projM q a ++ projM q b := by
  simp [projM, List.filter_append]

theorem setE_same (es : Nat → Entry V E) (p : Nat) (e : Entry V E) : setE es p e p = e := by simp [setE]
theorem setE_other (es : Nat → Entry V E) (p q : Nat) (e : Entry V E) (h : q ≠ p) : setE es p e q = es q := by
  simp [setE, h]

theorem nestedCall_proj (o : Oracle V E) (caught : CbOutcome → Bool) (hc : ∀ oc, caught oc = true) (p q : Nat)
    (es : Nat → Entry V E) (n : Option (Nested V E)) :
    (nestedCall o caught p es n).1 q = (runR o (es q) (nestedEvs q p n)).entry ∧
    projM q (nestedCall o caught p es n).2 = (runR o (es q) (nestedEvs q p n)).msgs := by
  cases n with
  | none => simp [nestedCall, nestedEvs, runR]
  | some n =>
    unfold nestedCall nestedEvs
    by_cases h1 : n.q = p
    · simp [h1, runR]
    · by_cases h2 : n.q = q
      · subst h2
        simp only [h1, if_false, if_true, setE_same, runR, announceC_eq o caught hc, List.append_nil]
        refine ⟨trivial, ?_⟩
        cases (announceR o (es n.q) n.now n.r).msg <;> simp [projM]
      · simp only [h1, h2, if_false, runR]
        refine ⟨setE_other _ _ _ _ (fun h => h2 h.symm), ?_⟩
        have : (n.q == q) = false := by simpa using h2
        cases (announceC o caught (es n.q) n.now n.r n.cbs).msg <;> simp [projM, this]

theorem runCbs_proj (o : Oracle V E) (caught : CbOutcome → Bool) (hc : ∀ oc, caught oc = true) (p q : Nat)
    (es : Nat → Entry V E) (cbs : List (Cb V E)) :
    (runCbs o caught p es cbs).es q = (runR o (es q) (cbs.flatMap (fun cb => nestedEvs q p cb.nested))).entry ∧
    projM q (runCbs o caught p es cbs).msgs = (runR o (es q) (cbs.flatMap (fun cb => nestedEvs q p cb.nested))).msgs ∧
    (runCbs o caught p es cbs).completed = true := by
  induction cbs generalizing es with
  | nil => simp [runCbs, runR]
  | cons cb rest ih =>
    obtain ⟨h1, h2⟩ := nestedCall_proj o caught hc p q es cb.nested
    obtain ⟨i1, i2, i3⟩ := ih (nestedCall o caught p es cb.nested).1
    simp only [runCbs, hc cb.oc, if_true, List.flatMap_cons, runR_append, projM_append]
    rw [h1] at i1 i2
    exact ⟨i1, by rw [h2, i2], i3⟩

/-- the calls of the funnel of parameter `q` caused by one top-level call on `p` -/
def evsM (o : Oracle V E) (es : Nat → Entry V E) (q p : Nat) (now : Int) (r : VE V E) (cbs : List (Cb V E)) :
    List (REv V E) :=
  if q = p then [⟨now, r⟩]
  else if emits o (es p) now r then cbs.flatMap (fun cb => nestedEvs q p cb.nested) else []

theorem nestedEvs_self (p : Nat) (n : Option (Nested V E)) : nestedEvs p p n = ([] : List (REv V E)) := by
  cases n with
  | none => rfl
  | some n => unfold nestedEvs; by_cases h : n.q = p <;> simp [h]

theorem announceM_proj (o : Oracle V E) (caught : CbOutcome → Bool) (hc : ∀ oc, caught oc = true) (q p : Nat)
    (es : Nat → Entry V E) (now : Int) (r : VE V E) (cbs : List (Cb V E)) :
    (announceM o caught es p now r cbs).es q = (runR o (es q) (evsM o es q p now r cbs)).entry ∧
    projM q (announceM o caught es p now r cbs).msgs = (runR o (es q) (evsM o es q p now r cbs)).msgs := by
  unfold announceM evsM
  by_cases hem : emits o (es p) now r = true
  · simp only [hem, if_true]
    obtain ⟨c1, c2, c3⟩ := runCbs_proj o caught hc p q (setE es p (commit (storeValue (es p) r) now r)) cbs
    by_cases hq : q = p
    · subst hq
      have hnil : cbs.flatMap (fun cb => nestedEvs q q cb.nested) = ([] : List (REv V E)) := by
        induction cbs with
        | nil => rfl
        | cons cb rest ih => simp [List.flatMap_cons, nestedEvs_self, ih]
      rw [hnil] at c1 c2
      simp only [runR, setE_same] at c1 c2
      simp only [if_true, c3, projM_append, c2, runR, announceR_go o (es q) now r hem, c1]
      simp [projM]
    · have hqp : (p == q) = false := by simpa using (fun h => hq h.symm)
      rw [setE_other _ _ _ _ hq] at c1 c2
      simp only [hq, if_false, c3, if_true, projM_append, c1, c2]
      simp [projM, hqp]
  · simp only [hem, if_false, Bool.false_eq_true]
    by_cases hq : q = p
    · subst hq
      have hd : emits o (es q) now r = false := by simpa using hem
      simp [setE_same, runR, announceR_skip o (es q) now r hd]
    · simp [hq, setE_other _ _ _ _ hq, runR]

/-- every parameter's entry and message stream after a history of calls with re-entering callbacks are those of
a sequential history of calls of its own funnel -/
theorem runM_proj (o : Oracle V E) (caught : CbOutcome → Bool) (hc : ∀ oc, caught oc = true) (q : Nat)
    (es : Nat → Entry V E) (xs : List (MEv V E)) :
    ∃ evs, (runM o caught es xs).es q = (runR o (es q) evs).entry ∧
      projM q (runM o caught es xs).msgs = (runR o (es q) evs).msgs := by
  induction xs generalizing es with
  | nil => exact ⟨[], by simp [runM, runR]⟩
  | cons x xs ih =>
    obtain ⟨a1, a2⟩ := announceM_proj o caught hc q x.p es x.now x.r x.cbs
    obtain ⟨evs, i1, i2⟩ := ih (announceM o caught es x.p x.now x.r x.cbs).es
    refine ⟨evsM o es q x.p x.now x.r x.cbs ++ evs, ?_, ?_⟩
    · simp only [runM, runR_append]; rw [i1, a1]
    · simp only [runM, runR_append, projM_append]; rw [i2, a1, a2]

/-- replaying the messages of a run gives the final entry's value-or-error -/
theorem replay_runR (o : Oracle V E) (ex : V → X) (h : ExportExact o ex) (e : Entry V E) (xs : List (REv V E)) :
    replay (e.ve.map ex) ((runR o e xs).msgs.map (fun m => m.ve.map ex)) = (runR o e xs).entry.ve.map ex := by
  induction xs generalizing e with
  | nil => simp [runR, replay]
  | cons x xs ih =>
    simp only [runR, List.map_append, replay_append, replay_toList]
    rw [← ih]
    congr 1
    rw [announceR_ve o ex h]

/-! ### the comparison only ever sees values that went through the datatype -/

/-- `ExportExact` restricted to canonical values (`canon v`: `v` is a result of the datatype's conversion / validation) -/
def CanonExact (o : Oracle V E) (ex : V → X) (canon : V → Bool) : Prop :=
  ∀ a b, canon a = true → canon b = true → o.veq a b = true → ex a = ex b

/-- the oracle whose comparison says "different" as soon as one side is not canonical -/
def restrictO (o : Oracle V E) (canon : V → Bool) : Oracle V E :=
  ⟨fun a b => o.veq a b && canon a && canon b, o.conv, o.valid⟩

theorem restrictO_exact (o : Oracle V E) (ex : V → X) (canon : V → Bool) (h : CanonExact o ex canon) :
    ExportExact (restrictO o canon) ex := by
  intro a b hab
  simp only [restrictO, Bool.and_eq_true] at hab
  exact h a b hab.1.2 hab.2 hab.1.1

/-- every value of the history is canonical -/
def CanonEvs (canon : V → Bool) (xs : List (REv V E)) : Prop := ∀ x ∈ xs, ∀ v, x.r = .val v → canon v = true

theorem announceR_restrict (o : Oracle V E) (canon : V → Bool) (e : Entry V E) (now : Int) (r : VE V E)
    (he : canon e.value = true) (hr : ∀ v, r = .val v → canon v = true) :
    announceR (restrictO o canon) e now r = announceR o e now r ∧ canon (announceR o e now r).entry.value = true := by
  cases r with
  | err x =>
    refine ⟨rfl, ?_⟩
    unfold announceR
    split <;> simpa [commit, storeValue, storeError, stamp] using he
  | val v =>
    have hv := hr v rfl
    have hem : emits (restrictO o canon) e now (.val v) = emits o e now (.val v) := by
      simp [emits, changed, restrictO, he, hv]
    refine ⟨by unfold announceR; rw [hem], ?_⟩
    unfold announceR
    split <;> simpa [commit, storeValue, storeError, stamp] using hv

theorem runR_restrict (o : Oracle V E) (canon : V → Bool) (e : Entry V E) (xs : List (REv V E))
    (he : canon e.value = true) (hx : CanonEvs canon xs) : runR (restrictO o canon) e xs = runR o e xs := by
  induction xs generalizing e with
  | nil => rfl
  | cons x xs ih =>
    obtain ⟨h1, h2⟩ := announceR_restrict o canon e x.now x.r he (fun v hv => hx x (List.mem_cons_self ..) v hv)
    simp only [runR, h1]
    rw [ih _ h2 (fun y hy => hx y (List.mem_cons_of_mem _ hy))]

theorem traceR_restrict (o : Oracle V E) (canon : V → Bool) (e : Entry V E) (xs : List (REv V E))
    (he : canon e.value = true) (hx : CanonEvs canon xs) : traceR (restrictO o canon) e xs = traceR o e xs := by
  induction xs generalizing e with
  | nil => rfl
  | cons x xs ih =>
    obtain ⟨h1, h2⟩ := announceR_restrict o canon e x.now x.r he (fun v hv => hx x (List.mem_cons_self ..) v hv)
    simp only [traceR, h1]
    rw [ih _ h2 (fun y hy => hx y (List.mem_cons_of_mem _ hy))]

/-- the resolved events of a history are canonical when the conversion yields canonical values and the values announced
with `validate=False` are canonical (the docstring of `announceUpdate` demands it) -/
theorem canonEvs_resolve (o : Oracle V E) (canon : V → Bool) (evs : List (TEv V E))
    (hconv : ∀ v v', o.conv v = .ok v' → canon v' = true)
    (hraw : ∀ x ∈ evs, ∀ v, x.ev = .value v false → canon v = true) :
    CanonEvs canon (evs.map (TEv.resolve o)) := by
  intro y hy v hv
  simp only [List.mem_map] at hy
  obtain ⟨x, hx, rfl⟩ := hy
  simp only [TEv.resolve] at hv
  cases hev : x.ev with
  | error e => rw [hev] at hv; simp [resolve] at hv
  | value v0 vd =>
    rw [hev] at hv
    cases vd with
    | false =>
      simp only [resolve, VE.val.injEq] at hv
      subst hv
      exact hraw x hx v0 hev
    | true =>
      simp only [resolve] at hv
      cases hc : o.conv v0 with
      | error e => rw [hc] at hv; cases hv
      | ok v' =>
        rw [hc] at hv
        simp only [VE.val.injEq] at hv
        subst hv
        exact hconv v0 v' hc

/-! ### the monitor decides the specification -/

theorem judgeFrom_none_iff {S : Type} [DecidableEq S] (isErr : S → Bool) (i : Nat) (k prev : S) (tr : List (Obs S)) :
    judgeFrom isErr i k prev tr = none ↔ TraceOk isErr k prev tr := by
  induction tr generalizing i k prev with
  | nil => simp [judgeFrom, TraceOk]
  | cons o rest ih =>
    simp only [judgeFrom, TraceOk]
    by_cases h : OpOk isErr k prev o
    · simp [h, ih]
    · simp [h]

theorem judge_none_iff {S : Type} [DecidableEq S] (isErr : S → Bool) (init : S) (tr : List (Obs S)) :
    judge isErr init tr = none ↔ TraceOk isErr init init tr := judgeFrom_none_iff isErr 0 init init tr

/-- a history accepted by the monitor satisfies the clauses of the statement, and conversely -/
theorem traceOk_iff {S : Type} [DecidableEq S] (isErr : S → Bool) (init : S) (tr : List (Obs S)) :
    TraceOk isErr init init tr ↔ Reconstructs init tr ∧ NeverPhantom tr ∧ RecoveryAnnounced isErr init tr := by
  induction tr generalizing init with
  | nil => simp [TraceOk, Reconstructs, NeverPhantom, RecoveryAnnounced]
  | cons o rest ih =>
    simp only [TraceOk, Reconstructs, RecoveryAnnounced, NeverPhantom, OpOk, List.mem_cons, forall_eq_or_imp]
    constructor
    · rintro ⟨⟨h1, h2, _, h4⟩, h5⟩
      rw [h4] at h5
      have := (ih o.cache).1 h5
      rw [h4]
      exact ⟨⟨rfl, this.1⟩, ⟨h1, this.2.1⟩, h2, this.2.2⟩
    · rintro ⟨⟨h1, h2⟩, ⟨h3, h4⟩, h5, h6⟩
      rw [h1] at h2 ⊢
      refine ⟨⟨h3, h5, ?_, rfl⟩, (ih o.cache).2 ⟨h2, h4, h6⟩⟩
      intro hne hnil
      rw [hnil] at h1
      exact hne h1.symm

theorem judgeConc_none_iff {S : Type} [DecidableEq S] (o : ConcObs S) : judgeConc o = none ↔ ConcOk o := by
  unfold judgeConc; split <;> simp [*]

/-! ### clients that know nothing before their activation -/

theorem replayO_some {S : Type} (k : S) (l : List S) : replayO (some k) l = some (replay k l) := by
  induction l generalizing k with
  | nil => rfl
  | cons a l ih => simpa [replayO, replay] using ih a

theorem replayO_append {S : Type} (k : Option S) (a b : List S) : replayO k (a ++ b) = replayO (replayO k a) b := by
  simp [replayO, List.foldl_append]

/-- a non-empty list of messages that all carry `x` leaves the client with `x` -/
theorem replayO_all {S : Type} (k : Option S) (l : List S) (x : S) (hne : l ≠ []) (hall : ∀ m ∈ l, m = x) :
    replayO k l = some x := by
  induction l generalizing k with
  | nil => exact absurd rfl hne
  | cons a l ih =>
    have ha : a = x := hall a (by simp)
    by_cases hl : l = []
    · subst hl; simp [replayO, ha]
    · have := ih (some a) hl (fun m hm => hall m (by simp [hm]))
      simpa [replayO] using this

theorem reconstructsO_some {S : Type} (k : S) (tr : List (Obs S)) : ReconstructsO (some k) tr ↔ Reconstructs k tr := by
  induction tr generalizing k with
  | nil => simp [ReconstructsO, Reconstructs]
  | cons o rest ih =>
    simp only [ReconstructsO, Reconstructs, replayO_some, Option.some.injEq]
    constructor
    · rintro ⟨h1, h2⟩; exact ⟨h1, (ih _).1 h2⟩
    · rintro ⟨h1, h2⟩; exact ⟨h1, (ih _).2 h2⟩

theorem judgeFromO_none_iff {S : Type} [DecidableEq S] (isErr : S → Bool) (i : Nat) (k : Option S) (prev : S)
    (tr : List (Obs S)) : judgeFromO isErr i k prev tr = none ↔ TraceOkO isErr k prev tr := by
  induction tr generalizing i k prev with
  | nil => simp [judgeFromO, TraceOkO]
  | cons o rest ih =>
    simp only [judgeFromO, TraceOkO]
    by_cases h : OpOkO isErr k prev o
    · simp [h, ih]
    · simp [h]

theorem judgeO_none_iff {S : Type} [DecidableEq S] (isErr : S → Bool) (prev : S) (tr : List (Obs S)) :
    judgeO isErr prev tr = none ↔ TraceOkO isErr none prev tr := judgeFromO_none_iff isErr 0 none prev tr

/-- a stream accepted by the monitor satisfies the clauses of the statement for a client that knew nothing -/
theorem traceOkO_imp {S : Type} [DecidableEq S] (isErr : S → Bool) (k : Option S) (prev : S) (tr : List (Obs S))
    (h : TraceOkO isErr k prev tr) : ReconstructsO k tr ∧ NeverPhantom tr ∧ RecoveryAnnounced isErr prev tr := by
  induction tr generalizing k prev with
  | nil => simp [ReconstructsO, NeverPhantom, RecoveryAnnounced]
  | cons o rest ih =>
    simp only [TraceOkO, OpOkO] at h
    obtain ⟨⟨h1, h2, _, h4⟩, h5⟩ := h
    obtain ⟨i1, i2, i3⟩ := ih _ _ h5
    refine ⟨⟨h4, i1⟩, ?_, ⟨h2, i3⟩⟩
    intro ob hob m hm
    simp only [List.mem_cons] at hob
    rcases hob with rfl | hob
    · exact h1 m hm
    · exact i2 ob hob m hm

theorem judgeConcA_none_iff {S : Type} [DecidableEq S] (o : ConcObsA S) : judgeConcA o = none ↔ ConcOkA o := by
  unfold judgeConcA; split <;> simp [*]

end Frappy.Update
