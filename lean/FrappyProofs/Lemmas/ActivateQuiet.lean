import FrappyProofs.Lemmas.Activate
import FrappyProofs.Lemmas.ActivateSnap
import FrappyProofs.Lemmas.ActivateLoss
/-
C08, clause `QuiescentLastEqCache`: when nothing is in progress, the last update a connection holds for a
parameter firmly in scope equals the cache.
-/
namespace Frappy.Activate
open Frappy.Spec.C08

/-! ## the folds of the clause and the monitors' folds -/

theorem cacheAfter_eq_aux (cfg : Cfg) (tr : List Obs) (s : SnapSt) :
    tr.foldl curNext s.cur = (tr.foldl (snapNext cfg) s).cur := by
  induction tr generalizing s with
  | nil => rfl
  | cons o tr ih =>
    simp only [List.foldl_cons]
    rw [← ih]
    congr 1
    cases o with
    | reqStart c r => cases r <;> rfl
    | _ => rfl

theorem cacheAfter_eq (cfg : Cfg) (cache) (tr : List Obs) : cacheAfter cache tr = (snapAfter cfg cache tr).cur :=
  cacheAfter_eq_aux cfg tr ⟨fun _ => none, cache⟩

theorem firmAfter_eq_aux (cfg : Cfg) (tr : List Obs) (s : LossSt) :
    tr.foldl firmNext s.firm = (tr.foldl (lossNext cfg) s).firm := by
  induction tr generalizing s with
  | nil => rfl
  | cons o tr ih =>
    simp only [List.foldl_cons]
    rw [← ih]
    rfl

theorem firmAfter_eq (cfg : Cfg) (tr : List Obs) : firmAfter tr = (lossAfter cfg tr).firm :=
  firmAfter_eq_aux cfg tr ⟨fun _ => [], fun _ => none⟩

theorem lastDelivered_append (tr : List Obs) (o : Obs) :
    lastDelivered (tr ++ [o]) = lastNext (lastDelivered tr) o := by
  simp [lastDelivered, List.foldl_append]
theorem reqOpen_append (tr : List Obs) (o : Obs) : reqOpen (tr ++ [o]) = reqOpenNext (reqOpen tr) o := by
  simp [reqOpen, List.foldl_append]
theorem emitOpen_append (tr : List Obs) (o : Obs) : emitOpen (tr ++ [o]) = emitOpenNext (emitOpen tr) o := by
  simp [emitOpen, List.foldl_append]

@[simp] theorem lastNext_reqStart (l c r) : lastNext l (.reqStart c r) = l := rfl
@[simp] theorem lastNext_reply (l c r ok) : lastNext l (.reply c r ok) = l := rfl
@[simp] theorem lastNext_emit (l u m p e) : lastNext l (.emit u m p e) = l := rfl
@[simp] theorem lastNext_emitDone (l u) : lastNext l (.emitDone u) = l := rfl
theorem lastNext_deliver (l c m p e c' m' p') :
    lastNext l (.deliver c m p e) c' m' p' = if c' = c ∧ m' = m ∧ p' = p then some e else l c' m' p' := rfl

/-! ## open requests / assignments, by program counter -/

def busyH : HPc → Bool
  | .idle => false
  | .done => false
  | _ => true

def busyU : UPc → Bool
  | .wantSub _ _ _ => true
  | .sending _ _ _ _ => true
  | .relUpd _ em => em
  | _ => false

@[simp] theorem busyH_idle : busyH .idle = false := rfl
@[simp] theorem busyH_done : busyH .done = false := rfl
@[simp] theorem busyH_start (r) : busyH (.start r) = true := rfl
@[simp] theorem busyH_wantSub (r) : busyH (.wantSub r) = true := rfl
@[simp] theorem busyH_relSub (r) : busyH (.relSub r) = true := rfl
@[simp] theorem busyH_wantUpd (s m rest) : busyH (.wantUpd s m rest) = true := rfl
@[simp] theorem busyH_snapMod (s m ps rest) : busyH (.snapMod s m ps rest) = true := rfl
@[simp] theorem busyH_snapSend (s m p e ps rest) : busyH (.snapSend s m p e ps rest) = true := rfl
@[simp] theorem busyH_relDisp (r ok) : busyH (.relDisp r ok) = true := rfl
@[simp] theorem busyH_rep (r ok) : busyH (.rep r ok) = true := rfl
@[simp] theorem busyH_afterTable_disc (cfg) : busyH (afterTable cfg .disconnect) = false := rfl
@[simp] theorem busyH_firstPc (r) : busyH (firstPc r) = true := by cases r <;> rfl
@[simp] theorem busyH_afterSnap (s l) : busyH (afterSnap s l) = true := by cases l <;> rfl
theorem busyH_afterTable (cfg r) (h : r ≠ .disconnect) : busyH (afterTable cfg r) = true := by
  cases r with
  | activate s => simp [afterTable]
  | disconnect => exact absurd rfl h
  | _ => rfl

structure OpenInv (σ : State) : Prop where
  h : ∀ c, reqOpen σ.trace c = busyH (σ.hpc c)
  u : ∀ k, emitOpen σ.trace k = busyU (σ.upc k)

theorem openInv_init (hs us cache) : OpenInv (init hs us cache) := by
  constructor <;> intro _ <;> rfl

theorem openInv_stepH (cfg : Cfg) (σ σ' : State) (c : Conn) (hI : OpenInv σ) (hs : stepH cfg σ c = some σ') :
    OpenInv σ' := by
  obtain ⟨hh, hu⟩ := hI
  have h1 := hh c
  unfold stepH at hs
  step_cases hs
  all_goals
    refine ⟨?_, ?_⟩
    · intro c'
      have h0 := hh c'
      by_cases hc : c' = c
      · subst hc
        simp_all [reqOpen_append, reqOpenNext, busyH_afterTable]
      · simp [reqOpen_append, reqOpenNext, set_other _ _ _ _ hc, hc, h0]
    · intro k; simp [emitOpen_append, emitOpenNext, hu k]

end Frappy.Activate
