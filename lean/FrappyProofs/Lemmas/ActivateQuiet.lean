import FrappyProofs.Lemmas.Activate
import FrappyProofs.Lemmas.ActivateSnap
import FrappyProofs.Lemmas.ActivateLoss
/-
C08, clause `QuiescentLastEqCache`: when nothing is in progress, the last update a connection holds for a
parameter firmly in scope equals the cache.
-/
namespace Frappy.Activate
open Frappy.Spec.C08

/-! ## the folds of the clause and the monitors' folds -/

theorem cacheAfter_eq_aux (cfg : Cfg) (tr : List Obs) (s : SnapSt) :
    tr.foldl curNext s.cur = (tr.foldl (snapNext cfg) s).cur := by
  induction tr generalizing s with
  | nil => rfl
  | cons o tr ih =>
    simp only [List.foldl_cons]
    rw [← ih]
    congr 1
    cases o with
    | reqStart c r => cases r <;> rfl
    | _ => rfl

theorem cacheAfter_eq (cfg : Cfg) (cache) (tr : List Obs) : cacheAfter cache tr = (snapAfter cfg cache tr).cur :=
  cacheAfter_eq_aux cfg tr ⟨fun _ => none, cache⟩

theorem firmAfter_eq_aux (cfg : Cfg) (tr : List Obs) (s : LossSt) :
    tr.foldl firmNext s.firm = (tr.foldl (lossNext cfg) s).firm := by
  induction tr generalizing s with
  | nil => rfl
  | cons o tr ih =>
    simp only [List.foldl_cons]
    rw [← ih]
    rfl

theorem firmAfter_eq (cfg : Cfg) (tr : List Obs) : firmAfter tr = (lossAfter cfg tr).firm :=
  firmAfter_eq_aux cfg tr ⟨fun _ => [], fun _ => none⟩

theorem lastDelivered_append (tr : List Obs) (o : Obs) :
    lastDelivered (tr ++ [o]) = lastNext (lastDelivered tr) o := by
  simp [lastDelivered, List.foldl_append]
theorem reqOpen_append (tr : List Obs) (o : Obs) : reqOpen (tr ++ [o]) = reqOpenNext (reqOpen tr) o := by
  simp [reqOpen, List.foldl_append]
theorem emitOpen_append (tr : List Obs) (o : Obs) : emitOpen (tr ++ [o]) = emitOpenNext (emitOpen tr) o := by
  simp [emitOpen, List.foldl_append]

@[simp] theorem lastNext_reqStart (l c r) : lastNext l (.reqStart c r) = l := rfl
@[simp] theorem lastNext_reply (l c r ok) : lastNext l (.reply c r ok) = l := rfl
@[simp] theorem lastNext_emit (l u m p e) : lastNext l (.emit u m p e) = l := rfl
@[simp] theorem lastNext_emitDone (l u) : lastNext l (.emitDone u) = l := rfl
theorem lastNext_deliver (l c m p e c' m' p') :
    lastNext l (.deliver c m p e) c' m' p' = if c' = c ∧ m' = m ∧ p' = p then some e else l c' m' p' := rfl

/-! ## open requests / assignments, by program counter -/

def busyH : HPc → Bool
  | .idle => false
  | .done => false
  | _ => true

@[simp] theorem busyH_wantAcc (w m p e n) : busyH (.wantAcc w m p e n) = true := rfl
@[simp] theorem busyH_relAcc (w m p e n) : busyH (.relAcc w m p e n) = true := rfl
@[simp] theorem busyH_afterCall (w m p e n) : busyH (afterCall w m p e n) = true := by
  unfold afterCall; split <;> rfl
@[simp] theorem busyH_afterStart (cfg r) : busyH (afterStart cfg r) = true := by
  cases r with
  | rw w m p e => by_cases hk : cfg.rw w m p = .calls <;> simp [afterStart, hk, busyH]
  | _ => rfl

def busyU : UPc → Bool
  | .wantSub _ _ _ => true
  | .sending _ _ _ _ => true
  | .relUpd _ em => em
  | _ => false

@[simp] theorem busyH_idle : busyH .idle = false := rfl
@[simp] theorem busyH_done : busyH .done = false := rfl
@[simp] theorem busyH_start (r) : busyH (.start r) = true := rfl
@[simp] theorem busyH_wantSub (r) : busyH (.wantSub r) = true := rfl
@[simp] theorem busyH_relSub (r) : busyH (.relSub r) = true := rfl
@[simp] theorem busyH_wantUpd (s m rest) : busyH (.wantUpd s m rest) = true := rfl
@[simp] theorem busyH_snapMod (s m ps rest) : busyH (.snapMod s m ps rest) = true := rfl
@[simp] theorem busyH_snapSend (s m p e ps rest) : busyH (.snapSend s m p e ps rest) = true := rfl
@[simp] theorem busyH_relDisp (r ok) : busyH (.relDisp r ok) = true := rfl
@[simp] theorem busyH_rep (r ok) : busyH (.rep r ok) = true := rfl
@[simp] theorem busyH_afterTable_disc (cfg c) : busyH (afterTable cfg c .disconnect) = false := rfl
@[simp] theorem busyH_firstPc (r) : busyH (firstPc r) = true := by cases r <;> rfl
@[simp] theorem busyH_afterSnap (s l) : busyH (afterSnap s l) = true := by cases l <;> rfl
theorem busyH_afterTable (cfg c r) (h : r ≠ .disconnect) : busyH (afterTable cfg c r) = true := by
  cases r with
  | activate s => simp [afterTable]
  | disconnect => exact absurd rfl h
  | _ => rfl

structure OpenInv (σ : State) : Prop where
  h : ∀ c, reqOpen σ.trace c = busyH (σ.hpc c)
  u : ∀ k, emitOpen σ.trace k = busyU (σ.upc k)

theorem openInv_init (hs us cache) : OpenInv (init hs us cache) := by
  constructor <;> intro _ <;> rfl

theorem openInv_stepH (cfg : Cfg) (σ σ' : State) (c : Conn) (hI : OpenInv σ) (hs : stepH cfg σ c = some σ') :
    OpenInv σ' := by
  obtain ⟨hh, hu⟩ := hI
  have h1 := hh c
  unfold stepH at hs
  step_cases hs
  all_goals
    refine ⟨?_, ?_⟩
    · intro c'
      have h0 := hh c'
      by_cases hc : c' = c
      · subst hc
        simp_all [reqOpen_append, reqOpenNext, busyH_afterTable]
      · simp [reqOpen_append, reqOpenNext, hc, h0]
    · intro k; simp [emitOpen_append, emitOpenNext, hu k]

@[simp] theorem busyU_idle : busyU .idle = false := rfl
@[simp] theorem busyU_done : busyU .done = false := rfl
@[simp] theorem busyU_wantSub (m p e) : busyU (.wantSub m p e) = true := rfl
@[simp] theorem busyU_sending (m p e l) : busyU (.sending m p e l) = true := rfl
@[simp] theorem busyU_relUpd (m em) : busyU (.relUpd m em) = em := rfl

theorem openInv_stepU (cfg : Cfg) (σ σ' : State) (k : Nat) (arg : Conn) (hI : OpenInv σ)
    (hs : stepU cfg σ k arg = some σ') : OpenInv σ' := by
  obtain ⟨hh, hu⟩ := hI
  have h1 := hu k
  unfold stepU at hs
  step_cases hs
  all_goals
    refine ⟨?_, ?_⟩
    · intro c; try dsimp only
      try split
      all_goals simp [reqOpen_append, reqOpenNext, hh c]
    · intro k'
      have h0 := hu k'
      by_cases hk : k' = k
      · subst hk
        try dsimp only
        try split
        all_goals simp_all [emitOpen_append, emitOpenNext]
      · try dsimp only
        try split
        all_goals simp [emitOpen_append, emitOpenNext, hk, h0]

theorem openInv_reach (cfg : Cfg) (hs us cache) (σ : State) (h : Reach cfg (init hs us cache) σ) : OpenInv σ := by
  induction h with
  | init => exact openInv_init hs us cache
  | step a _ hstep ih =>
    unfold step at hstep
    split at hstep
    · exact openInv_stepH cfg _ _ _ ih hstep
    · exact openInv_stepU cfg _ _ _ _ ih (stepUG_some hstep)

/-! ## what is still to come for a listening connection -/

/-- what the running activation of a connection still has to send -/
def todo (cfg : Cfg) : HPc → List (Mod × Par)
  | .relSub (.activate s) => scopeItems cfg s
  | .wantUpd s m rest => items cfg s (m :: rest)
  | .snapMod s m ps rest => ps.map (fun p => (m, p)) ++ items cfg s rest
  | .snapSend s m p _ ps rest => (m, p) :: (ps.map (fun p => (m, p)) ++ items cfg s rest)
  | _ => []

@[simp] theorem todo_idle (cfg : Cfg) : todo cfg .idle = [] := rfl
@[simp] theorem todo_done (cfg : Cfg) : todo cfg .done = [] := rfl
@[simp] theorem todo_start (cfg : Cfg) (r) : todo cfg (.start r) = [] := rfl
@[simp] theorem todo_wantSub (cfg : Cfg) (r) : todo cfg (.wantSub r) = [] := rfl
@[simp] theorem todo_relDisp (cfg : Cfg) (r ok) : todo cfg (.relDisp r ok) = [] := rfl
@[simp] theorem todo_wantAcc (cfg : Cfg) (w m p e n) : todo cfg (.wantAcc w m p e n) = [] := rfl
@[simp] theorem todo_relAcc (cfg : Cfg) (w m p e n) : todo cfg (.relAcc w m p e n) = [] := rfl
@[simp] theorem todo_afterCall (cfg : Cfg) (w m p e n) : todo cfg (afterCall w m p e n) = [] := by
  unfold afterCall; split <;> rfl
@[simp] theorem todo_afterStart (cfg : Cfg) (r) : todo cfg (afterStart cfg r) = [] := by
  cases r with
  | rw w m p e => by_cases hk : cfg.rw w m p = .calls <;> simp [afterStart, hk, todo]
  | _ => rfl
@[simp] theorem todo_rep (cfg : Cfg) (r ok) : todo cfg (.rep r ok) = [] := rfl
@[simp] theorem todo_firstPc (cfg : Cfg) (r) : todo cfg (firstPc r) = [] := by cases r <;> rfl
@[simp] theorem todo_relSub_activate (cfg : Cfg) (s) : todo cfg (.relSub (.activate s)) = scopeItems cfg s := rfl
@[simp] theorem todo_wantUpd (cfg : Cfg) (s m rest) :
    todo cfg (.wantUpd s m rest) = (scopePars cfg s m).map (fun p => (m, p)) ++ items cfg s rest := by
  simp [todo, items_cons]
@[simp] theorem todo_snapMod (cfg : Cfg) (s m ps rest) :
    todo cfg (.snapMod s m ps rest) = ps.map (fun p => (m, p)) ++ items cfg s rest := rfl
@[simp] theorem todo_snapSend (cfg : Cfg) (s m p e ps rest) :
    todo cfg (.snapSend s m p e ps rest) = (m, p) :: (ps.map (fun p => (m, p)) ++ items cfg s rest) := rfl
@[simp] theorem todo_afterSnap (cfg : Cfg) (s l) : todo cfg (afterSnap s l) = items cfg s l := by
  cases l with
  | nil => rfl
  | cons m rest => simp [afterSnap, items_cons]
@[simp] theorem todo_afterTable (cfg : Cfg) (c) (r) : todo cfg (afterTable cfg c r) = todo cfg (.relSub r) := by
  cases r with
  | activate s => simp only [afterTable, todo_afterSnap]; rfl
  | _ => rfl

theorem todo_of_idle (cfg : Cfg) (pc : HPc) (h : busyH pc = false) : todo cfg pc = [] := by
  cases pc <;> simp_all [busyH]

/-- does the updater still owe `c` the update of `m:p` -/
def uOwes (pc : UPc) (c : Conn) (m : Mod) (p : Par) : Prop :=
  match pc with
  | .wantSub m' p' _ => m' = m ∧ p' = p
  | .sending m' p' _ l => m' = m ∧ p' = p ∧ c ∈ l
  | _ => False

theorem uOwes_of_idle (pc : UPc) (c m p) (h : busyU pc = false) : ¬ uOwes pc c m p := by
  cases pc <;> simp_all [busyU, uOwes]

def Good (cfg : Cfg) (σ : State) (c : Conn) (m : Mod) (p : Par) : Prop :=
  lastDelivered σ.trace c m p = some (σ.cache m p) ∨ (∃ k, uOwes (σ.upc k) c m p) ∨ (m, p) ∈ todo cfg (σ.hpc c)

theorem covers_scopeItems (cfg : Cfg) (s : Scope) (m : Mod) (p : Par) (hm : m ∈ cfg.mods) (hp : p ∈ cfg.pars m)
    (h : covers s m p = true) : (m, p) ∈ scopeItems cfg s := by
  cases s with
  | all => simp_all [scopeItems, scopeMods, scopePars, covers]
  | mod m' =>
    have : m' = m := by
      have : m'.val = m.val := by simpa [covers] using h
      exact Subtype.ext this
    subst this
    simp_all [scopeItems, scopeMods, scopePars]
  | par m' p' =>
    have : m'.val = m.val ∧ p' = p := by simpa [covers] using h
    obtain ⟨h1, h2⟩ := this
    have := Subtype.ext h1
    subst this h2
    simp [scopeItems, scopeMods, scopePars]

theorem listens_write_self (σ : State) (c : Conn) (r : Req) (m : Mod) (p : Par)
    (h : listens (tableWrite σ c r) c m p = true) :
    listens σ c m p = true ∨ ∃ s, r = .activate s ∧ covers s m p = true := by
  obtain ⟨s, h1, h2⟩ := (listens_iff _ c m p).1 h
  rcases tableHas_write_self σ c r s h1 with h3 | h3
  · exact Or.inl ((listens_iff σ c m p).2 ⟨s, h3, h2⟩)
  · exact Or.inr ⟨s, h3, h2⟩

theorem good_mono (cfg : Cfg) (σ σ' : State) (c : Conn) (m : Mod) (p : Par)
    (hupc : σ'.upc = σ.upc) (hcache : σ'.cache = σ.cache)
    (hlast : lastDelivered σ.trace c m p = some (σ.cache m p) → lastDelivered σ'.trace c m p = some (σ.cache m p))
    (htodo : (m, p) ∈ todo cfg (σ.hpc c) →
      (m, p) ∈ todo cfg (σ'.hpc c) ∨ lastDelivered σ'.trace c m p = some (σ.cache m p))
    (g : Good cfg σ c m p) : Good cfg σ' c m p := by
  unfold Good at *
  rw [hupc, hcache]
  rcases g with g | g | g
  · exact Or.inl (hlast g)
  · exact Or.inr (Or.inl g)
  · rcases htodo g with h | h
    · exact Or.inr (Or.inr h)
    · exact Or.inl h

theorem good_stepH_other (cfg : Cfg) (σ σ' : State) (c0 c : Conn) (m : Mod) (p : Par) (hne : c ≠ c0)
    (hs : stepH cfg σ c0 = some σ') (g : Good cfg σ c m p) : Good cfg σ' c m p := by
  unfold stepH at hs
  step_cases hs
  all_goals
    refine good_mono cfg σ _ c m p (by simp) (by simp) ?_ ?_ g
    · try dsimp only
      try split
      all_goals simp [lastDelivered_append, lastNext_deliver, hne]
    · intro h; left; simpa [set_other _ _ _ _ hne] using h

theorem good_stepH_self (cfg : Cfg) (cache) (σ σ' : State) (c : Conn) (m : Mod) (p : Par)
    (hm : m ∈ cfg.mods) (hp : p ∈ cfg.pars m) (hS : SnapInv cfg cache σ)
    (hs : stepH cfg σ c = some σ') (hQ : listens σ c m p = true → Good cfg σ c m p)
    (hl : listens σ' c m p = true) : Good cfg σ' c m p := by
  have hheld := hS.hheld c
  unfold stepH at hs
  step_cases hs
  all_goals
    first
    | (refine good_mono cfg σ _ c m p (by simp) (by simp) ?_ ?_ (hQ hl)
       · try dsimp only
         try split
         all_goals simp [lastDelivered_append, lastNext_deliver]
       · simp_all)
    | skip
  · rename_i r heq hfree
    have hl' : listens (tableWrite σ c r) c m p = true := hl
    rcases listens_write_self σ c r m p hl' with h | ⟨s, h1, h2⟩
    · refine good_mono cfg σ _ c m p (by simp) (by simp) ?_ ?_ (hQ h)
      · simp
      · simp [heq]
    · subst h1
      unfold Good; right; right
      simp only [set_same]
      exact covers_scopeItems cfg s m p hm hp h2
  · rename_i s m0 p0 e ps rest heq
    have he := hheld m0 p0 e (by rw [heq]; rfl)
    refine good_mono cfg σ _ c m p rfl rfl ?_ ?_ (hQ hl)
    · intro h
      simp only [lastDelivered_append, lastNext_deliver]
      split
      · rename_i hc; rw [hc.2.1, hc.2.2, he]
      · exact h
    · intro h
      simp only [heq, todo_snapSend, List.mem_cons] at h
      rcases h with h | h
      · right
        simp only [Prod.mk.injEq] at h
        obtain ⟨h1, h2⟩ := h
        subst h1 h2
        simp [lastDelivered_append, lastNext_deliver, he]
      · left; simpa using h

theorem good_stepU_gen (cfg : Cfg) (σ σ' : State) (k : Nat) (pc' : UPc) (c : Conn) (m : Mod) (p : Par)
    (hupc : σ'.upc = set σ.upc k pc') (hhpc : σ'.hpc = σ.hpc)
    (hlast : lastDelivered σ.trace c m p = some (σ.cache m p) →
      lastDelivered σ'.trace c m p = some (σ'.cache m p) ∨ uOwes pc' c m p)
    (hk : uOwes (σ.upc k) c m p → uOwes pc' c m p ∨ lastDelivered σ'.trace c m p = some (σ'.cache m p))
    (g : Good cfg σ c m p) : Good cfg σ' c m p := by
  unfold Good at *
  rw [hhpc]
  rcases g with g | ⟨k', g⟩ | g
  · rcases hlast g with h | h
    · exact Or.inl h
    · exact Or.inr (Or.inl ⟨k, by rw [hupc, set_same]; exact h⟩)
  · by_cases hkk : k' = k
    · subst hkk
      rcases hk g with h | h
      · exact Or.inr (Or.inl ⟨k', by rw [hupc, set_same]; exact h⟩)
      · exact Or.inl h
    · exact Or.inr (Or.inl ⟨k', by rw [hupc, set_other _ _ _ _ hkk]; exact g⟩)
  · exact Or.inr (Or.inr g)

theorem good_stepU (cfg : Cfg) (cache) (σ σ' : State) (k : Nat) (arg : Conn) (c : Conn) (m : Mod) (p : Par)
    (hc : c ∈ cfg.conns) (hS : SnapInv cfg cache σ) (hs : stepU cfg σ k arg = some σ')
    (hl : listens σ c m p = true) (g : Good cfg σ c m p) : Good cfg σ' c m p := by
  have hheld := hS.uheld k
  unfold stepU at hs
  step_cases hs
  all_goals
    refine good_stepU_gen cfg σ _ k _ c m p rfl rfl ?_ ?_ g
  all_goals
    first
    | (simp_all [uOwes, lastDelivered_append, lastNext_deliver]; done)
    | skip
  · rename_i _ _ _ m0 p0 e rest _ _ _
    intro h
    by_cases hmp : m = m0 ∧ p = p0
    · right; simp [uOwes, hmp]
    · left; simp [lastDelivered_append, hmp, h]
  · rename_i _ m0 p0 e heq _
    intro h
    rw [heq] at h
    simp only [uOwes] at h
    obtain ⟨h1, h2⟩ := h
    subst h1 h2
    left
    refine ⟨rfl, rfl, ?_⟩
    simp [listeners, List.mem_filter, hc, hl]
  · rename_i _ m0 p0 e x l heq harg
    intro h
    rw [heq] at h
    obtain ⟨h1, h2, h3⟩ := h
    subst h1 h2
    have he := hheld m0 p0 e (by rw [heq]; rfl)
    by_cases hca : c = arg
    · right; subst hca
      simp [lastDelivered_append, lastNext_deliver, he]
    · left
      refine ⟨rfl, rfl, ?_⟩
      simp only [List.mem_filter]
      exact ⟨h3, by simp [hca]⟩

/-! ## the invariant on all reachable states -/

/-- whoever listens to an exported parameter either holds its current value or is still owed it by a running thread -/
def QInv (cfg : Cfg) (σ : State) : Prop :=
  ∀ c ∈ cfg.conns, ∀ m ∈ cfg.mods, ∀ p ∈ cfg.pars m, listens σ c m p = true → Good cfg σ c m p

theorem qInv_init (cfg : Cfg) (hs us cache) : QInv cfg (init hs us cache) := by
  intro c _ m _ p _ h
  simp [listens, init] at h

theorem qInv_step (cfg : Cfg) (cache) (σ σ' : State) (a : Act) (hS : SnapInv cfg cache σ) (hQ : QInv cfg σ)
    (hs : step cfg σ a = some σ') : QInv cfg σ' := by
  unfold step at hs
  split at hs
  · rename_i c0 _
    intro c hc m hm p hp hl
    by_cases hne : c = c0
    · subst hne
      exact good_stepH_self cfg cache σ σ' c m p hm hp hS hs (hQ c hc m hm p hp) hl
    · rw [others_stepH cfg σ σ' c0 c m p hne hs] at hl
      exact good_stepH_other cfg σ σ' c0 c m p hne hs (hQ c hc m hm p hp hl)
  · rename_i k _
    intro c hc m hm p hp hl
    have hs := stepUG_some hs
    obtain ⟨_, _, _, _, f5, f6, _⟩ := stepU_frame cfg σ σ' k a.arg hs
    have hl' : listens σ c m p = true := by simpa [listens, f5, f6] using hl
    exact good_stepU cfg cache σ σ' k a.arg c m p hc hS hs hl' (hQ c hc m hm p hp hl')

theorem qInv_reach (cfg : Cfg) (hs us cache) (σ : State) (h : Reach cfg (init hs us cache) σ) : QInv cfg σ := by
  induction h with
  | init => exact qInv_init cfg hs us cache
  | step a hr hstep ih => exact qInv_step cfg cache _ _ a (snapInv_reach cfg hs us cache _ hr) ih hstep

/-- C08 `QuiescentLastEqCache`, on every reachable state: when nothing is in progress, the last update a
connection holds for a parameter firmly in scope equals the cache -/
theorem quiescent_reach (cfg : Cfg) (hs us cache) (σ : State) (h : Reach cfg (init hs us cache) σ) :
    QuiescentLastEqCache cfg cache σ.trace := by
  intro ⟨hq1, hq2⟩ c hc m hm p hp hcov
  have hO := openInv_reach cfg hs us cache σ h
  have hQ := qInv_reach cfg hs us cache σ h
  have hS := snapInv_reach cfg hs us cache σ h
  have hLs := lossInv_reach cfg hs us cache σ h
  rw [cacheAfter_eq cfg, hS.cur]
  rw [firmAfter_eq cfg] at hcov
  simp only [coveredBy, List.any_eq_true] at hcov
  obtain ⟨s, h1, h2⟩ := hcov
  have hl : listens σ c m p = true := (listens_iff σ c m p).2 ⟨s, hLs.tbl c s h1, h2⟩
  rcases hQ c hc m hm p hp hl with g | ⟨k, g⟩ | g
  · exact g
  · exact absurd g (uOwes_of_idle _ c m p (by rw [← hO.u k]; exact hq2 k))
  · rw [todo_of_idle cfg _ (by rw [← hO.h c]; exact hq1 c)] at g
    cases g

end Frappy.Activate
