import FrappyProofs.Lemmas.Activate
/-
C08: the dispatcher's tables are written by requests only, a request writes only the row of its own connection, and
every entry stands for an activation of that connection still possibly in force.
-/
namespace Frappy.Activate
open Frappy.Spec.C08

/-- a table change of connection `c` leaves the rows of the other connections alone -/
theorem tableWrite_rows_other (σ : State) (c c' : Conn) (r : Req) (h : c' ≠ c) :
    (tableWrite σ c r).active c' = σ.active c' ∧ ∀ k, (tableWrite σ c r).subs k c' = σ.subs k c' := by
  cases r with
  | activate s => cases s <;> simp [tableWrite, register, subscribe, h]
  | deactivate s => cases s <;> simp [tableWrite, unregister, unsubscribe, h]
  | ident => simp [tableWrite, resetConn, h]
  | disconnect => simp [tableWrite, resetConn, h]
  | rw w m p e => simp [tableWrite]
  | malformed a s => simp [tableWrite]

theorem rows_other_stepH (cfg : Cfg) (σ σ' : State) (c c' : Conn) (h : c' ≠ c) (hs : stepH cfg σ c = some σ') :
    σ'.active c' = σ.active c' ∧ ∀ k, σ'.subs k c' = σ.subs k c' := by
  unfold stepH at hs
  step_cases hs
  all_goals first
    | exact ⟨rfl, fun _ => rfl⟩
    | exact tableWrite_rows_other σ c c' _ h

/-- a new entry of the subscription table is entered under the key of a module / parameter scope -/
theorem tableWrite_subs (σ : State) (c : Conn) (r : Req) (k : Name) (c' : Conn)
    (h : (tableWrite σ c r).subs k c' = true) : σ.subs k c' = true ∨ ∃ s, s ≠ Scope.all ∧ s.key = k := by
  cases r with
  | activate s =>
    cases s with
    | all => exact Or.inl h
    | mod m =>
      simp only [tableWrite, register, subscribe] at h
      split at h
      · rename_i hk; exact Or.inr ⟨.mod m, by simp, hk.1.symm⟩
      · exact Or.inl h
    | par m p =>
      simp only [tableWrite, register, subscribe] at h
      split at h
      · rename_i hk; exact Or.inr ⟨.par m p, by simp, hk.1.symm⟩
      · exact Or.inl h
  | deactivate s =>
    cases s with
    | all => exact Or.inl h
    | mod m =>
      simp only [tableWrite, unregister, unsubscribe] at h
      split at h
      · cases h
      · exact Or.inl h
    | par m p =>
      simp only [tableWrite, unregister, unsubscribe] at h
      split at h
      · cases h
      · exact Or.inl h
  | ident =>
    simp only [tableWrite, resetConn] at h
    split at h
    · cases h
    · exact Or.inl h
  | disconnect =>
    simp only [tableWrite, resetConn] at h
    split at h
    · cases h
    · exact Or.inl h
  | rw w m p e => exact Or.inl h
  | malformed a s => exact Or.inl h

/-- the keys in use are keys of module / parameter scopes -/
def KeysInv (σ : State) : Prop := ∀ k c, σ.subs k c = true → ∃ s, s ≠ Scope.all ∧ s.key = k

theorem keysInv_stepH (cfg : Cfg) (σ σ' : State) (c : Conn) (hI : KeysInv σ) (hs : stepH cfg σ c = some σ') :
    KeysInv σ' := by
  unfold stepH at hs
  step_cases hs
  all_goals first
    | exact hI
    | (intro k c' h
       rcases tableWrite_subs σ c _ k c' h with h1 | h1
       · exact hI k c' h1
       · exact h1)

theorem keysInv_reach (cfg : Cfg) (hs us cache) (σ : State) (h : Reach cfg (init hs us cache) σ) : KeysInv σ := by
  induction h with
  | init => intro k c h; simp [init] at h
  | step a _ hstep ih =>
    unfold step at hstep
    split at hstep
    · exact keysInv_stepH cfg _ _ _ ih hstep
    · obtain ⟨_, _, _, _, _, f6, _⟩ := stepU_frame cfg _ _ _ a.arg (stepUG_some hstep)
      intro k c h; rw [f6] at h; exact ih k c h

theorem tablesOwn_reach (cfg : Cfg) (hs us cache) (σ : State) (h : Reach cfg (init hs us cache) σ) : TablesOwn σ := by
  have hS := silentInv_reach cfg hs us cache σ h
  refine ⟨fun c hc => hS.tbl c .all hc, ?_⟩
  intro k c hk
  obtain ⟨s, hs1, hs2⟩ := keysInv_reach cfg hs us cache σ h k c hk
  refine ⟨s, hs1, hs2, hS.tbl c s ?_⟩
  rw [tableHas_key σ c s hs1, hs2]; exact hk

theorem tablesFrame (cfg : Cfg) (σ σ' : State) (a : Act) : TablesFrame cfg σ σ' a := by
  intro hs c' hne
  unfold step at hs
  split at hs
  · rename_i c hc
    exact rows_other_stepH cfg σ σ' c c' (by intro h; subst h; exact hne hc) hs
  · rename_i k _
    obtain ⟨_, _, _, _, f5, f6, _⟩ := stepU_frame cfg σ σ' k a.arg (stepUG_some hs)
    exact ⟨by rw [f5], fun k' => by rw [f6]⟩

end Frappy.Activate
