import FrappyProofs.Lemmas.ActivateQuiet
import FrappyProofs.Lemmas.ActivateSnapExplicit
/-
C08: what `lossMon` accepts, said with indices into the trace (the English sentence of `NoLoss`).
-/
namespace Frappy.Activate
open Frappy.Spec.C08

/-- `o` is an event of updater `u` (a store or the return of an announced assignment) -/
def ofUpd (u : Nat) : Obs → Prop
  | .emit u' _ _ _ => u' = u
  | .emitDone u' => u' = u
  | _ => False

/-- the meaning of "`c` is no longer in the obligation list `l` of the store at position `i`": if `m:p` was firmly covered
for `c` when the value was stored and still is after every request marker of `c` since, the value was delivered to `c` -/
def OwedSpec (tr : List Obs) (i : Nat) (c : Conn) (m : Mod) (p : Par) (e : Entry) (l : List Conn) : Prop :=
  coveredBy (firmAfter (tr.take i) c) m p = true →
  (∀ (k : Nat) (r : Req), i < k → tr[k]? = some (.reqStart c r) → coveredBy (firmAfter (tr.take (k + 1)) c) m p = true) →
  c ∉ l → ∃ k : Nat, i < k ∧ tr[k]? = some (.deliver c m p e)

theorem owed_snoc (tr : List Obs) (o : Obs) (i : Nat) (c : Conn) (m : Mod) (p : Par) (e : Entry) (l l' : List Conn)
    (hi : i < tr.length) (h : OwedSpec tr i c m p e l)
    (H : c ∉ l' → c ∈ l → o = .deliver c m p e ∨
      (∃ r, o = .reqStart c r ∧ coveredBy (firmAfter (tr ++ [o]) c) m p = false)) :
    OwedSpec (tr ++ [o]) i c m p e l' := by
  intro h1 h2 h3
  rw [List.take_append_of_le_length (Nat.le_of_lt hi)] at h1
  by_cases hc : c ∈ l
  · rcases H h3 hc with h | ⟨r, hr, hcov⟩
    · exact ⟨tr.length, hi, by subst h; simp⟩
    · have := h2 tr.length r hi (by subst hr; simp)
      rw [List.take_of_length_le (by simp)] at this
      rw [hcov] at this; cases this
  · obtain ⟨k, hk1, hk2⟩ := h h1 (fun k r hik hkr => by
      have hkl := getElem?_lt hkr
      have := h2 k r hik (by rw [List.getElem?_append_left hkl]; exact hkr)
      rwa [List.take_append_of_le_length (by omega)] at this) hc
    exact ⟨k, hk1, by rw [List.getElem?_append_left (getElem?_lt hk2)]; exact hk2⟩

theorem oblig_spec (cfg : Cfg) (tr : List Obs) : ∀ (u i : Nat) (m : Mod) (p : Par) (e : Entry),
    tr[i]? = some (.emit u m p e) → (∀ (k : Nat) (o : Obs), i < k → tr[k]? = some o → ¬ ofUpd u o) →
    ∃ l, (lossAfter cfg tr).oblig u = some ⟨m, p, e, l⟩ ∧ ∀ c ∈ cfg.conns, OwedSpec tr i c m p e l := by
  induction tr using rev_ind with
  | hnil => intro u i m p e h; simp at h
  | hsnoc tr o ih =>
    intro u i m p e hi hno
    rcases snoc_cases hi with ⟨hlt, hi'⟩ | ⟨heq, ho⟩
    · have hno' : ∀ (k : Nat) (o' : Obs), i < k → tr[k]? = some o' → ¬ ofUpd u o' := fun k o' hk hko =>
        hno k o' hk (by rw [List.getElem?_append_left (getElem?_lt hko)]; exact hko)
      have hnoo : ¬ ofUpd u o := hno tr.length o hlt (by simp)
      obtain ⟨l0, hl0, hP⟩ := ih u i m p e hi' hno'
      have hfirm : firmNext (lossAfter cfg tr).firm o = firmAfter (tr ++ [o]) := by
        rw [firmAfter_eq cfg (tr ++ [o]), lossAfter_append, lossNext_firm]
      rw [lossAfter_append, lossNext_oblig, hfirm]
      cases o with
      | reqStart c0 r =>
        simp only [obligNext, hl0, Option.map_some]
        refine ⟨_, rfl, ?_⟩
        intro c hc
        apply owed_snoc tr _ i c m p e l0 _ hlt (hP c hc)
        intro h3 h4
        right
        simp only [List.mem_filter, not_and, Bool.not_eq_true, Bool.or_eq_false_iff, bne_eq_false_iff_eq] at h3
        obtain ⟨h5, h6⟩ := h3 h4
        subst h5
        exact ⟨r, rfl, h6⟩
      | reply c0 r ok =>
        simp only [obligNext, hl0]
        refine ⟨_, rfl, ?_⟩
        intro c hc
        exact owed_snoc tr _ i c m p e l0 _ hlt (hP c hc) (fun h3 h4 => absurd h4 h3)
      | deliver c0 m0 p0 e0 =>
        simp only [obligNext, hl0, Option.map_some]
        by_cases hm : m = m0 ∧ p = p0 ∧ e = e0
        · obtain ⟨h1, h2, h3⟩ := hm
          subst h1 h2 h3
          simp only [and_self, if_true]
          refine ⟨_, rfl, ?_⟩
          intro c hc
          apply owed_snoc tr _ i c m p e l0 _ hlt (hP c hc)
          intro h3 h4
          left
          simp only [List.mem_filter, not_and, bne_iff_ne, ne_eq, Decidable.not_not] at h3
          rw [h3 h4]
        · simp only [hm, if_false]
          refine ⟨_, rfl, ?_⟩
          intro c hc
          exact owed_snoc tr _ i c m p e l0 _ hlt (hP c hc) (fun h3 h4 => absurd h4 h3)
      | emit u' m' p' e' =>
        have hu : u ≠ u' := fun h => hnoo (by simp [ofUpd, h])
        simp only [obligNext, set_other _ _ _ _ hu, hl0]
        refine ⟨_, rfl, ?_⟩
        intro c hc
        exact owed_snoc tr _ i c m p e l0 _ hlt (hP c hc) (fun h3 h4 => absurd h4 h3)
      | emitDone u' =>
        have hu : u ≠ u' := fun h => hnoo (by simp [ofUpd, h])
        simp only [obligNext, set_other _ _ _ _ hu, hl0]
        refine ⟨_, rfl, ?_⟩
        intro c hc
        exact owed_snoc tr _ i c m p e l0 _ hlt (hP c hc) (fun h3 h4 => absurd h4 h3)
    · subst heq ho
      rw [lossAfter_append, lossNext_oblig]
      simp only [obligNext, set_same]
      refine ⟨_, rfl, ?_⟩
      intro c hc h1 _ h3
      exfalso
      apply h3
      rw [List.take_left'] at h1
      · have hf : firmNext (lossAfter cfg tr).firm (.emit u m p e) = firmAfter tr := by
          rw [firmAfter_eq cfg tr]; rfl
        rw [hf]
        exact List.mem_filter.2 ⟨hc, h1⟩
      · rfl

/-- the English sentence of `NoLoss`: a value stored by updater `u` at position `i` whose assignment returns at position
`j` (nothing of `u` in between) has been delivered, between `i` and `j`, to every connection for which `m:p` was firmly
covered at the store and still was after each request marker of that connection up to `j` -/
def NoLossExplicit (cfg : Cfg) (tr : List Obs) : Prop :=
  ∀ (i j u : Nat) (m : Mod) (p : Par) (e : Entry), i < j → tr[i]? = some (.emit u m p e) → tr[j]? = some (.emitDone u) →
    (∀ (k : Nat) (o : Obs), i < k → k < j → tr[k]? = some o → ¬ ofUpd u o) →
    ∀ c ∈ cfg.conns, coveredBy (firmAfter (tr.take i) c) m p = true →
      (∀ (k : Nat) (r : Req), i < k → k < j → tr[k]? = some (.reqStart c r) →
        coveredBy (firmAfter (tr.take (k + 1)) c) m p = true) →
      ∃ k : Nat, i < k ∧ k < j ∧ tr[k]? = some (.deliver c m p e)

theorem noLossExplicit_of_noLoss (cfg : Cfg) (tr : List Obs) (h : NoLoss cfg tr) : NoLossExplicit cfg tr := by
  unfold NoLoss Mon.accepts at h
  rw [Mon.acceptsFrom_iff] at h
  intro i j u m p e hij hi hj hno c hc h1 h2
  have hok := h j _ hj
  have hi' : (tr.take j)[i]? = some (.emit u m p e) := by rw [List.getElem?_take, if_pos hij]; exact hi
  obtain ⟨l, hl, hP⟩ := oblig_spec cfg (tr.take j) u i m p e hi' (fun k o hk hko => by
    obtain ⟨hkj, hko'⟩ := take_cases hko
    exact hno k o hk hkj hko')
  have hl' : l = [] := by
    have : lossOk (lossAfter cfg (tr.take j)) (.emitDone u) = true := hok
    simp only [lossOk, hl] at this
    exact List.isEmpty_iff.1 this
  subst hl'
  have htake : (tr.take j).take i = tr.take i := by rw [List.take_take]; congr 1; omega
  obtain ⟨k, hk1, hk2⟩ := hP c hc (by rw [htake]; exact h1) (fun k r hik hkr => by
    obtain ⟨hkj, hkr'⟩ := take_cases hkr
    have := h2 k r hik hkj hkr'
    have ht : (tr.take j).take (k + 1) = tr.take (k + 1) := by rw [List.take_take]; congr 1; omega
    rw [ht]; exact this) (by simp)
  obtain ⟨hkj, hk2'⟩ := take_cases hk2
  exact ⟨k, hk1, hkj, hk2'⟩

/-! ## `firmAfter`, explicitly -/

/-- `o` is the marker of a request of `c` that ends an activation of scope `s` -/
def endsMarker (c : Conn) (s : Scope) : Obs → Prop
  | .reqStart c' r => c' = c ∧ ends r s = true
  | _ => False

theorem mem_firmNext_iff (firm : Conn → List Scope) (o : Obs) (c : Conn) (s : Scope) :
    s ∈ firmNext firm o c ↔ o = .reply c (.activate s) true ∨ (s ∈ firm c ∧ ¬ endsMarker c s o) := by
  cases o with
  | reqStart c' r =>
    by_cases hc : c = c'
    · subst hc
      simp [firmNext, endsMarker, List.mem_filter]
    · have hc' : ¬ c' = c := fun e => hc e.symm
      simp [firmNext, endsMarker, set_other _ _ _ _ hc, hc']
  | reply c' r ok =>
    by_cases hc : c = c'
    · subst hc
      cases r <;> cases ok <;> simp [firmNext, endsMarker]
      rename_i s'
      constructor
      · rintro (h | h)
        · exact Or.inl h.symm
        · exact Or.inr h
      · rintro (h | h)
        · exact Or.inl h.symm
        · exact Or.inr h
    · have hc' : ¬ c' = c := fun e => hc e.symm
      cases r <;> cases ok <;> simp [firmNext, endsMarker, set_other _ _ _ _ hc, hc']
  | deliver _ _ _ _ => simp [firmNext, endsMarker]
  | emit _ _ _ _ => simp [firmNext, endsMarker]
  | emitDone _ => simp [firmNext, endsMarker]

/-- `s` is firmly in force for `c` after `tr` iff an `active` reply to `activate s` was sent to `c` and no request marker of
`c` that ends `s` came later -/
theorem mem_firmAfter (tr : List Obs) (c : Conn) (s : Scope) :
    s ∈ firmAfter tr c ↔ ∃ j : Nat, tr[j]? = some (.reply c (.activate s) true) ∧
      ∀ (k : Nat) (o : Obs), j < k → tr[k]? = some o → ¬ endsMarker c s o := by
  show _ ↔ Since (.reply c (.activate s) true) (endsMarker c s) tr
  induction tr using rev_ind with
  | hnil =>
    simp only [firmAfter, List.foldl_nil, List.not_mem_nil, false_iff]
    exact since_nil _ _
  | hsnoc l a ih =>
    rw [since_append, ← ih]
    simp only [firmAfter, List.foldl_append, List.foldl_cons, List.foldl_nil]
    exact mem_firmNext_iff _ a c s

end Frappy.Activate
