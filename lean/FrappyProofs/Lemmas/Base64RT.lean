import FrappyModel.Spec.C02
/-
C02: the base64 law, proved.  `Base64.encode` (`FrappyModel/Datatypes/Export.lean`) and `Base64.decode?`
(`FrappyModel/Base/Base64.lean`) are the model's own transcriptions of `base64.b64encode` and of the strict decoding
`BLOBType.import_value` performs; that decoding returns the bytes that were encoded is a fact about these two
definitions (their agreement with CPython is the matter of the correspondence run).
-/
namespace Frappy.Lemmas.C02
open Frappy Frappy.Base64 Frappy.Spec.C02

theorem sextet_sextetChar : ∀ n : Fin 64, sextet (sextetChar n.val) = some n.val := by decide +kernel

theorem sextetChar_ne_pad : ∀ n : Fin 64, sextetChar n.val ≠ '=' := by decide +kernel

theorem sextet_char {n : Nat} (h : n < 64) : sextet (sextetChar n) = some n := sextet_sextetChar ⟨n, h⟩

theorem char_ne_pad {n : Nat} (h : n < 64) : sextetChar n ≠ '=' := sextetChar_ne_pad ⟨n, h⟩

theorem byte_back (a : UInt8) (n : Nat) (h : n = a.toNat) : n.toUInt8 = a := by
  subst h
  simp

theorem decode_encodeChars : ∀ b : List UInt8, decodeChars (encodeChars b) = some b
  | [] => by simp [encodeChars, decodeChars]
  | [a] => by
    have ha := a.toNat_lt
    have h1 : a.toNat / 4 < 64 := by omega
    have h2 : a.toNat % 4 * 16 < 64 := by omega
    simp only [encodeChars, decodeChars, sextet_char h1, sextet_char h2]
    have : a.toNat % 4 * 16 % 16 = 0 := by omega
    simp only [this, if_true]
    congr 2
    exact byte_back a _ (by omega)
  | [a, b] => by
    have ha := a.toNat_lt
    have hb := b.toNat_lt
    have h1 : a.toNat / 4 < 64 := by omega
    have h2 : a.toNat % 4 * 16 + b.toNat / 16 < 64 := by omega
    have h3 : b.toNat % 16 * 4 < 64 := by omega
    have hne := char_ne_pad h3
    simp only [encodeChars]
    rw [decodeChars.eq_3 _ _ _ (by intro h; exact hne h)]
    simp only [sextet_char h1, sextet_char h2, sextet_char h3]
    have : b.toNat % 16 * 4 % 4 = 0 := by omega
    simp only [this, if_true]
    congr 2
    · exact byte_back a _ (by omega)
    · congr 1
      exact byte_back b _ (by omega)
  | a :: b :: c :: rest => by
    have ha := a.toNat_lt
    have hb := b.toNat_lt
    have hc := c.toNat_lt
    have h1 : a.toNat / 4 < 64 := by omega
    have h2 : a.toNat % 4 * 16 + b.toNat / 16 < 64 := by omega
    have h3 : b.toNat % 16 * 4 + c.toNat / 64 < 64 := by omega
    have h4 : c.toNat % 64 < 64 := by omega
    have ih := decode_encodeChars rest
    simp only [encodeChars]
    rw [decodeChars.eq_4]
    · simp only [sextet_char h1, sextet_char h2, sextet_char h3, sextet_char h4, ih]
      congr 2
      · exact byte_back a _ (by omega)
      · congr 1
        · exact byte_back b _ (by omega)
        · congr 1
          exact byte_back c _ (by omega)
    · intro h; exact (char_ne_pad h3 h).elim
    · intro h; exact (char_ne_pad h4 h).elim

/-- `base64.b64decode(base64.b64encode(b), validate=True) == b` for the model's two functions -/
theorem b64Law : B64Law := by
  intro b
  simp [decode?, encode, decode_encodeChars]

end Frappy.Lemmas.C02
