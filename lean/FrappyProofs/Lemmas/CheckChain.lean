import FrappyModel.Spec.C04
import FrappyProofs.Lemmas.ExtParams
import FrappyProofs.Lemmas.Dispatch
/-
The chain of check functions computed from the class layout (`Node.chainOf`, modulebase.py 156-172) against the
declarative reading over the layout (`Spec.C04.LayoutOK`, with C18's `AutoApplies`).
C18's lemmas `autoAt_zero`, `autoAt_succ` give one direction of the scan; the converses are proved here.
-/
namespace Frappy.Node
open Frappy.ExtParams Frappy.Spec.C18 Frappy.Spec.C04

theorem getD_false_of_any (sel : Layer → Bool) : ∀ (rest : List Layer), rest.any sel = false → ∀ b,
    b < rest.length → sel (rest.getD b default) = false := by
  intro rest
  induction rest with
  | nil => intro _ b hb; simp at hb
  | cons l t ih =>
    intro h b hb
    simp only [List.any_cons, Bool.or_eq_false_iff] at h
    cases b with
    | zero => simpa using h.1
    | succ b' => simpa using ih h.2 b' (by simpa using hb)

theorem firstDeclares_zero_of (sel : Layer → Bool) (l : Layer) (rest : List Layer)
    (h : (sel l && !rest.any sel) = true) : FirstDeclares (l :: rest) sel 0 := by
  simp only [Bool.and_eq_true, Bool.not_eq_eq_eq_not, Bool.not_true] at h
  refine ⟨by simpa using h.1, fun b hb h0 => ?_⟩
  cases b with
  | zero => omega
  | succ b' =>
    have hb' : b' < rest.length := by simpa using hb
    simpa using getD_false_of_any sel rest h.2 b' hb'

theorem firstDeclares_succ_of (sel : Layer → Bool) (l : Layer) (rest : List Layer) (a : Nat)
    (h : FirstDeclares rest sel a) : FirstDeclares (l :: rest) sel (a + 1) := by
  obtain ⟨h1, h2⟩ := h
  refine ⟨by simpa using h1, fun b hb hab => ?_⟩
  cases b with
  | zero => omega
  | succ b' =>
    have := h2 b' (by simpa using hb) (by omega)
    simpa using this

theorem autoAt_zero_of (l : Layer) (rest : List Layer) (hown : l.ownCheck = false) (hf : isFirstDef l rest = true) :
    AutoAt (l :: rest) 0 := by
  refine ⟨by simpa using hown, ?_⟩
  unfold isFirstDef at hf
  simp only [Bool.or_eq_true] at hf
  rcases hf with (hf | hf) | hf
  · exact Or.inl (firstDeclares_zero_of (·.declMin) l rest hf)
  · exact Or.inr (Or.inl (firstDeclares_zero_of (·.declMax) l rest hf))
  · exact Or.inr (Or.inr (firstDeclares_zero_of (·.declLimits) l rest hf))

theorem autoAt_succ_of (l : Layer) (rest : List Layer) (a : Nat) (h : AutoAt rest a) : AutoAt (l :: rest) (a + 1) := by
  obtain ⟨h1, h2⟩ := h
  refine ⟨by simpa using h1, ?_⟩
  rcases h2 with h2 | h2 | h2
  · exact Or.inl (firstDeclares_succ_of _ l rest a h2)
  · exact Or.inr (Or.inl (firstDeclares_succ_of _ l rest a h2))
  · exact Or.inr (Or.inr (firstDeclares_succ_of _ l rest a h2))

/-- the stop position seen from one class further up -/
def shiftStop : Option Nat → Option Nat
  | some j => some (j + 1)
  | none => none

theorem autoApplies_cons_shift (l : Layer) (rest : List Layer) (stop : Option Nat)
    (h : AutoApplies (l :: rest) (shiftStop stop)) :
    (l.ownCheck = false ∧ isFirstDef l rest = true) ∨ AutoApplies rest stop := by
  obtain ⟨a, ha, hat, hst⟩ := h
  cases a with
  | zero => exact Or.inl (autoAt_zero l rest hat)
  | succ a' =>
    refine Or.inr ⟨a', by simpa using ha, autoAt_succ l rest a' hat, fun j hj => ?_⟩
    have := hst (j + 1) (by simp [shiftStop, hj])
    omega

theorem autoApplies_shift_of (l : Layer) (rest : List Layer) (stop : Option Nat) (h : AutoApplies rest stop) :
    AutoApplies (l :: rest) (shiftStop stop) := by
  obtain ⟨a, ha, hat, hst⟩ := h
  refine ⟨a + 1, by simpa using ha, autoAt_succ_of l rest a hat, fun j hj => ?_⟩
  cases stop with
  | none => simp [shiftStop] at hj
  | some j' =>
    simp only [shiftStop, Option.some.injEq] at hj
    have := hst j' rfl
    omega

variable {J V : Type}

theorem ownAt_zero (l : Layer) (rest : List Layer) : ownAt (l :: rest) 0 = l.ownCheck := by simp [ownAt]
theorem ownAt_succ (l : Layer) (rest : List Layer) (i : Nat) : ownAt (l :: rest) (i + 1) = ownAt rest i := by simp [ownAt]

/-- `LayoutOK` of the tail lifts to the whole layout when the first class raises no objection -/
theorem layoutOK_cons (env : Env V) (mod : Module J V) (attr : String) (v : V) (k : Nat) (l : Layer) (rest : List Layer)
    (stop : Option Nat) (h : LayoutOK env mod attr v (k + 1) rest stop)
    (hown : l.ownCheck = true → env.chk mod.name attr k v = .pass)
    (hlim : l.ownCheck = false → isFirstDef l rest = true → LimitsOK env mod attr v) :
    LayoutOK env mod attr v k (l :: rest) (shiftStop stop) := by
  refine ⟨fun j hj => ?_, fun i hi hbefore hown' => ?_, fun happ => ?_⟩
  · cases stop with
    | none => simp [shiftStop] at hj
    | some j' =>
      simp only [shiftStop, Option.some.injEq] at hj
      subst hj
      obtain ⟨h1, h2, h3⟩ := h.stops j' rfl
      refine ⟨by simpa using h1, by rw [ownAt_succ]; exact h2, ?_⟩
      have : k + (j' + 1) = k + 1 + j' := by omega
      rw [this]; exact h3
  · cases i with
    | zero => rw [ownAt_zero] at hown'; simpa using hown hown'
    | succ i' =>
      rw [ownAt_succ] at hown'
      have hi' : i' < rest.length := by simpa using hi
      have := h.hooks i' hi' (fun j hj => by
        have := hbefore (j + 1) (by simp [shiftStop, hj])
        omega) hown'
      have e : k + (i' + 1) = k + 1 + i' := by omega
      rw [e]; exact this
  · rcases autoApplies_cons_shift l rest stop happ with ⟨h1, h2⟩ | h'
    · exact hlim h1 h2
    · exact h.limits h'

/-- the chain computed from the layout lets a value through only if the layout's hooks and limits allow it -/
theorem chain_sound (env : Env V) (mod : Module J V) (attr : String) (v : V) : ∀ (ls : List Layer) (k : Nat),
    ChecksOK env mod attr v (chainOf ls k) → ∃ stop, LayoutOK env mod attr v k ls stop := by
  intro ls
  induction ls with
  | nil =>
    intro k _
    refine ⟨none, ⟨fun j hj => by simp at hj, fun i hi => by simp at hi, fun happ => ?_⟩⟩
    obtain ⟨a, ha, _⟩ := happ
    simp at ha
  | cons l rest ih =>
    intro k h
    by_cases hown : l.ownCheck = true
    · simp only [chainOf, hown, if_true, ChecksOK, TakesOver, Passes] at h
      rcases h with hstop | ⟨hpass, hrest⟩
      · refine ⟨some 0, ⟨fun j hj => ?_, fun i _ hbefore => ?_, fun happ => ?_⟩⟩
        · simp only [Option.some.injEq] at hj
          subst hj
          exact ⟨by simp, by rw [ownAt_zero]; exact hown, by simpa using hstop⟩
        · have := hbefore 0 rfl
          omega
        · obtain ⟨a, _, _, hst⟩ := happ
          have := hst 0 rfl
          omega
      · obtain ⟨stop, hl⟩ := ih (k + 1) hrest
        exact ⟨shiftStop stop, layoutOK_cons env mod attr v k l rest stop hl (fun _ => hpass)
          (fun hno => by rw [hno] at hown; exact absurd hown (by simp))⟩
    · have hown' : l.ownCheck = false := by simpa using hown
      by_cases hf : isFirstDef l rest = true
      · simp only [chainOf, hown', Bool.false_eq_true, if_false, hf, if_true, ChecksOK, TakesOver, Passes, false_or] at h
        obtain ⟨stop, hl⟩ := ih (k + 1) h.2
        exact ⟨shiftStop stop, layoutOK_cons env mod attr v k l rest stop hl
          (fun ho => by rw [ho] at hown'; exact absurd hown' (by simp)) (fun _ _ => h.1)⟩
      · simp only [chainOf, hown', Bool.false_eq_true, if_false, hf] at h
        obtain ⟨stop, hl⟩ := ih (k + 1) h
        exact ⟨shiftStop stop, layoutOK_cons env mod attr v k l rest stop hl
          (fun ho => by rw [ho] at hown'; exact absurd hown' (by simp)) (fun _ hf' => absurd hf' hf)⟩

/-- the tail of an allowing layout, when the first class did not take the decision over -/
theorem layoutOK_tail (env : Env V) (mod : Module J V) (attr : String) (v : V) (k : Nat) (l : Layer) (rest : List Layer)
    (stop : Option Nat) (h : LayoutOK env mod attr v k (l :: rest) stop) (h0 : stop ≠ some 0) :
    ∃ stop', stop = shiftStop stop' ∧ LayoutOK env mod attr v (k + 1) rest stop' := by
  cases stop with
  | none =>
    refine ⟨none, rfl, ⟨fun j hj => by simp at hj, fun i hi _ hown => ?_, fun happ => ?_⟩⟩
    · have := h.hooks (i + 1) (by simpa using hi) (fun j hj => by simp at hj) (by rw [ownAt_succ]; exact hown)
      have e : k + (i + 1) = k + 1 + i := by omega
      rw [← e]; exact this
    · exact h.limits (autoApplies_shift_of l rest none happ)
  | some j =>
    cases j with
    | zero => exact absurd rfl h0
    | succ j' =>
      obtain ⟨s1, s2, s3⟩ := h.stops (j' + 1) rfl
      refine ⟨some j', rfl, ⟨fun j hj => ?_, fun i hi hbefore hown => ?_, fun happ => ?_⟩⟩
      · simp only [Option.some.injEq] at hj
        subst hj
        refine ⟨by simpa using s1, by rw [ownAt_succ] at s2; exact s2, ?_⟩
        have e : k + (j' + 1) = k + 1 + j' := by omega
        rw [← e]; exact s3
      · have := h.hooks (i + 1) (by simpa using hi) (fun j hj => by
          simp only [Option.some.injEq] at hj
          have := hbefore j' rfl
          omega) (by rw [ownAt_succ]; exact hown)
        have e : k + (i + 1) = k + 1 + i := by omega
        rw [← e]; exact this
      · exact h.limits (autoApplies_shift_of l rest (some j') happ)

/-- whatever the layout allows passes the chain computed from it -/
theorem chain_complete (env : Env V) (mod : Module J V) (attr : String) (v : V) : ∀ (ls : List Layer) (k : Nat)
    (stop : Option Nat), LayoutOK env mod attr v k ls stop → ChecksOK env mod attr v (chainOf ls k) := by
  intro ls
  induction ls with
  | nil => intro k stop _; simp [chainOf, ChecksOK]
  | cons l rest ih =>
    intro k stop h
    by_cases hown : l.ownCheck = true
    · simp only [chainOf, hown, if_true, ChecksOK, TakesOver, Passes]
      by_cases h0 : stop = some 0
      · left
        have := (h.stops 0 h0).2.2
        simpa using this
      · right
        obtain ⟨stop', hs, hl⟩ := layoutOK_tail env mod attr v k l rest stop h h0
        refine ⟨?_, ih (k + 1) stop' hl⟩
        have := h.hooks 0 (by simp) (fun j hj => by
          cases j with
          | zero => exact absurd hj h0
          | succ j' => omega) (by rw [ownAt_zero]; exact hown)
        simpa using this
    · have hown' : l.ownCheck = false := by simpa using hown
      have h0 : stop ≠ some 0 := fun h0 => by
        have := (h.stops 0 h0).2.1
        rw [ownAt_zero, hown'] at this
        exact absurd this (by simp)
      obtain ⟨stop', hs, hl⟩ := layoutOK_tail env mod attr v k l rest stop h h0
      by_cases hf : isFirstDef l rest = true
      · simp only [chainOf, hown', Bool.false_eq_true, if_false, hf, if_true, ChecksOK, TakesOver, Passes, false_or]
        refine ⟨h.limits ⟨0, by simp, autoAt_zero_of l rest hown' hf, fun j hj => ?_⟩, ih (k + 1) stop' hl⟩
        cases j with
        | zero => exact absurd hj h0
        | succ j' => omega
      · simp only [chainOf, hown', Bool.false_eq_true, if_false, hf]
        exact ih (k + 1) stop' hl

/-- outside the current limits, the automatic check applying and every programmer's hook passing: the chain computed
from the layout objects, and with a RangeError -/
theorem chain_refuses_range (env : Env V) (mod : Module J V) (attr : String) (v : V) (hlim : ¬ LimitsOK env mod attr v) :
    ∀ (ls : List Layer) (k : Nat), AutoApplies ls none →
      (∀ i, i < ls.length → ownAt ls i = true → env.chk mod.name attr (k + i) v = .pass) →
      runChecks (checkOne env mod attr v) (chainOf ls k) = some (mkErr .rangeError) := by
  intro ls
  induction ls with
  | nil => intro k h; obtain ⟨a, ha, _⟩ := h; simp at ha
  | cons l rest ih =>
    intro k happ hpass
    have hrest : ∀ i, i < rest.length → ownAt rest i = true → env.chk mod.name attr (k + 1 + i) v = .pass := by
      intro i hi hown
      have := hpass (i + 1) (by simpa using hi) (by rw [ownAt_succ]; exact hown)
      have e : k + (i + 1) = k + 1 + i := by omega
      rw [← e]; exact this
    have hsplit := autoApplies_cons_shift l rest none happ
    by_cases hown : l.ownCheck = true
    · have h0 := hpass 0 (by simp) (by rw [ownAt_zero]; exact hown)
      rw [Nat.add_zero] at h0
      simp only [chainOf, hown, if_true, runChecks, checkOne, h0]
      rcases hsplit with ⟨hno, _⟩ | h'
      · rw [hno] at hown; exact absurd hown (by simp)
      · exact ih (k + 1) h' hrest
    · have hown' : l.ownCheck = false := by simpa using hown
      by_cases hf : isFirstDef l rest = true
      · simp only [chainOf, hown', Bool.false_eq_true, if_false, hf, if_true, runChecks, checkOne,
          Frappy.Lemmas.Dispatch.checkLimits_of_not_ok env mod attr v hlim]
      · simp only [chainOf, hown', Bool.false_eq_true, if_false, hf]
        rcases hsplit with ⟨_, hf'⟩ | h'
        · exact absurd hf' hf
        · exact ih (k + 1) h' hrest

end Frappy.Node
