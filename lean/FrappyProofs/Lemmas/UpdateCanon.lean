import FrappyProofs.Lemmas.UpdateAct
/-
Only canonical values (results of the datatype's conversion / validation) ever reach the cache or the comparison of the
funnel — as an invariant of the small-step system.  Consequence: the system with the comparison restricted to canonical
values (`restrictO`) makes exactly the same steps, so every theorem that assumes `ExportExact` holds under `CanonExact`.
-/
set_option linter.unusedSectionVars false
set_option linter.unusedSimpArgs false
namespace Frappy.UpdateSys
open Frappy.Update

variable {V E : Type} [DecidableEq E]

/-- the same run data with the comparison restricted to canonical values -/
def restrictC (c : Cfg V E) (canon : V → Bool) : Cfg V E := { c with o := restrictO c.o canon }

def veCanon (canon : V → Bool) : VE V E → Prop
  | .val v => canon v = true
  | .err _ => True

/-- the value a thread is about to compare / store is canonical -/
def pcCanon (o : Oracle V E) (canon : V → Bool) : PC V E → Prop
  | .locked _ ev _ => veCanon canon (resolve o ev)
  | .timed _ _ r => veCanon canon r
  | .compared _ _ v _ => canon v = true
  | _ => True

/-- every call of the funnel a program makes announces a canonical value (after conversion) or an error -/
def progCanon (o : Oracle V E) (canon : V → Bool) (prog : List (Op V E)) : Prop :=
  ∀ p ev ts, Op.announce p ev ts ∈ prog → veCanon canon (resolve o ev)

structure CanonSys (o : Oracle V E) (canon : V → Bool) (s : Sys V E) : Prop where
  ent : ∀ p, canon (s.entries p).value = true
  pcs : ∀ t, pcCanon o canon (s.thr t).pc
  progs : ∀ t, progCanon o canon (s.thr t).prog

theorem changed_restrict (o : Oracle V E) (canon : V → Bool) (e : Entry V E) (v : V) (he : canon e.value = true)
    (hv : canon v = true) : changed (restrictO o canon) e v = changed o e v := by
  simp [changed, restrictO, he, hv]

/-- with canonical values everywhere the restricted system makes the same step -/
theorem step_restrict (c : Cfg V E) (canon : V → Bool) (s : Sys V E) (t : Tid) (h : CanonSys c.o canon s) :
    step (restrictC c canon) s t = step c s t := by
  have hpcs := h.pcs t
  unfold step
  cases hpc : (s.thr t).pc with
  | timed p now r =>
    cases r with
    | err x => rfl
    | val v =>
      rw [hpc] at hpcs
      simp only [restrictC]
      rw [changed_restrict c.o canon (s.entries p) v (h.ent p) hpcs]
  | sending p now r m rest => cases rest <;> rfl
  | snap k rest => cases rest <;> rfl
  | _ => rfl

theorem canon_mk {o : Oracle V E} {canon : V → Bool} {s s' : Sys V E} (h : CanonSys o canon s) (t : Tid)
    (hent : ∀ p, canon (s'.entries p).value = true)
    (hoth : ∀ t', t' ≠ t → s'.thr t' = s.thr t')
    (hpc : pcCanon o canon (s'.thr t).pc) (hprog : progCanon o canon (s'.thr t).prog) : CanonSys o canon s' := by
  refine ⟨hent, fun t' => ?_, fun t' => ?_⟩
  · by_cases htt : t' = t
    · rw [htt]; exact hpc
    · rw [hoth t' htt]; exact h.pcs t'
  · by_cases htt : t' = t
    · rw [htt]; exact hprog
    · rw [hoth t' htt]; exact h.progs t'

/-- a step that only moves thread `t` to `pc` (and touches neither entries nor programs) -/
theorem canon_setPc {o : Oracle V E} {canon : V → Bool} {s s0 : Sys V E} (h : CanonSys o canon s) (t : Tid) (pc : PC V E)
    (he : s0.entries = s.entries) (ht : s0.thr = s.thr) (hpc : pcCanon o canon pc) : CanonSys o canon (s0.setPc t pc) := by
  refine canon_mk h t (fun p => by simp only [setPc_entries, he]; exact h.ent p)
    (fun t' ht' => by rw [thr_setPc_other _ _ _ _ ht', ht]) (by rw [thr_setPc_same]; exact hpc)
    (by rw [thr_setPc_same, ht]; exact h.progs t)

theorem progCanon_tail {o : Oracle V E} {canon : V → Bool} {op : Op V E} {rest : List (Op V E)}
    (h : progCanon o canon (op :: rest)) : progCanon o canon rest :=
  fun p ev ts hm => h p ev ts (List.mem_cons_of_mem _ hm)

theorem canon_stepIdle {o : Oracle V E} {canon : V → Bool} {s s' : Sys V E} (h : CanonSys o canon s) (t : Tid)
    (hs : stepIdle s t = some s') : CanonSys o canon s' := by
  unfold stepIdle at hs
  have hp := h.progs t
  cases hprog : (s.thr t).prog with
  | nil => rw [hprog] at hs; cases hs
  | cons op rest =>
    rw [hprog] at hs hp
    have htail := progCanon_tail hp
    have fin : ∀ (s1 : Sys V E) (pc : PC V E), s1.entries = s.entries → s1.thr = upd s.thr t ⟨rest, pc⟩ →
        pcCanon o canon pc → CanonSys o canon s1 := by
      intro s1 pc he ht hpc
      refine canon_mk h t (fun p => by rw [he]; exact h.ent p) (fun t' ht' => by rw [ht, upd_other _ _ _ _ ht'])
        (by rw [ht, upd_same]; exact hpc) (by rw [ht, upd_same]; exact htail)
    cases op with
    | accAcquire =>
      simp only at hs
      split at hs
      · cases hs; exact fin _ .idle rfl rfl trivial
      · split at hs
        · cases hs; exact fin _ .idle rfl rfl trivial
        · cases hs
    | accRelease =>
      simp only at hs
      split at hs
      · cases hs; exact fin _ .idle rfl rfl trivial
      · cases hs
    | reqAcquire k =>
      simp only at hs
      split at hs
      · cases hs; exact fin _ .idle rfl rfl trivial
      · cases hs
    | reqRelease =>
      simp only at hs
      split at hs
      · cases hs; exact fin _ .idle rfl rfl trivial
      · cases hs
    | activate k ps =>
      simp only at hs
      split at hs
      · cases hs; exact fin _ (.actD k ps) rfl rfl trivial
      · cases hs
    | announce p ev ts =>
      simp only at hs
      split at hs
      · cases hs; exact fin _ (.locked p ev ts) rfl rfl (hp p ev ts (List.mem_cons_self ..))
      · cases hs

theorem canon_step {c : Cfg V E} {canon : V → Bool} {s s' : Sys V E} (h : CanonSys c.o canon s) (t : Tid)
    (hs : step c s t = some s') : CanonSys c.o canon s' := by
  have hpcs := h.pcs t
  unfold step at hs
  cases hpc : (s.thr t).pc with
  | idle => rw [hpc] at hs; exact canon_stepIdle h t hs
  | locked p ev ts =>
    rw [hpc] at hs hpcs; simp only [Option.some.injEq] at hs; subst hs
    exact canon_setPc h t _ rfl rfl hpcs
  | timed p now r =>
    rw [hpc] at hs hpcs
    cases r with
    | val v => simp only [Option.some.injEq] at hs; subst hs; exact canon_setPc h t _ rfl rfl hpcs
    | err x =>
      simp only [Option.some.injEq] at hs; subst hs
      exact canon_setPc h t _ rfl rfl (by split <;> trivial)
  | compared p now v chg =>
    rw [hpc] at hs hpcs; simp only [Option.some.injEq] at hs; subst hs
    refine canon_mk h t (fun q => ?_) (fun t' ht' => by rw [thr_setPc_other _ _ _ _ ht']; rfl)
      (by rw [thr_setPc_same]; trivial) (by rw [thr_setPc_same]; exact h.progs t)
    simp only [setPc_entries]
    by_cases hq : q = p
    · subst hq; rw [setEntry_same]; exact hpcs
    · rw [setEntry_other _ _ _ _ hq]; exact h.ent q
  | stored p now v chg =>
    rw [hpc] at hs; simp only [Option.some.injEq] at hs; subst hs
    exact canon_setPc h t _ rfl rfl (by split <;> trivial)
  | go p now r =>
    rw [hpc] at hs; simp only [Option.some.injEq] at hs; subst hs
    refine canon_mk h t (fun q => ?_) (fun t' ht' => by rw [thr_setPc_other _ _ _ _ ht']; rfl)
      (by rw [thr_setPc_same]; trivial) (by rw [thr_setPc_same]; exact h.progs t)
    simp only [setPc_entries]
    by_cases hq : q = p
    · subst hq; rw [setEntry_same]; exact h.ent q
    · rw [setEntry_other _ _ _ _ hq]; exact h.ent q
  | stamped p now r =>
    rw [hpc] at hs; simp only [Option.some.injEq] at hs; subst hs
    refine canon_mk h t (fun q => ?_) (fun t' ht' => by rw [thr_setPc_other _ _ _ _ ht']; rfl)
      (by rw [thr_setPc_same]; trivial) (by rw [thr_setPc_same]; exact h.progs t)
    simp only [setPc_entries]
    by_cases hq : q = p
    · subst hq; rw [setEntry_same]; cases r <;> exact h.ent q
    · rw [setEntry_other _ _ _ _ hq]; exact h.ent q
  | errset p now r =>
    rw [hpc] at hs; simp only [Option.some.injEq] at hs; subst hs
    exact canon_setPc h t _ rfl rfl trivial
  | built p now r m =>
    rw [hpc] at hs
    simp only at hs
    split at hs
    · simp only [Option.some.injEq] at hs; subst hs; exact canon_setPc h t _ rfl rfl trivial
    · cases hs
  | sending p now r m rest =>
    rw [hpc] at hs
    cases rest with
    | nil => simp only [Option.some.injEq] at hs; subst hs; exact canon_setPc h t _ rfl rfl trivial
    | cons k rest => simp only [Option.some.injEq] at hs; subst hs; exact canon_setPc h t _ rfl rfl trivial
  | leaving p now r =>
    rw [hpc] at hs; simp only [Option.some.injEq] at hs; subst hs
    exact canon_setPc h t _ rfl rfl trivial
  | actD k ps =>
    rw [hpc] at hs
    simp only at hs
    split at hs
    · simp only [Option.some.injEq] at hs; subst hs; exact canon_setPc h t _ rfl rfl trivial
    · cases hs
  | actS k ps =>
    rw [hpc] at hs; simp only [Option.some.injEq] at hs; subst hs
    exact canon_setPc h t _ rfl rfl trivial
  | actR k ps =>
    rw [hpc] at hs
    simp only at hs
    split at hs
    · simp only [Option.some.injEq] at hs; subst hs; exact canon_setPc h t _ rfl rfl trivial
    · cases hs
  | snap k rest =>
    rw [hpc] at hs
    cases rest with
    | nil => simp only [Option.some.injEq] at hs; subst hs; exact canon_setPc h t _ rfl rfl trivial
    | cons p rest => simp only [Option.some.injEq] at hs; subst hs; exact canon_setPc h t _ rfl rfl trivial
  | actE =>
    rw [hpc] at hs; simp only [Option.some.injEq] at hs; subst hs
    exact canon_setPc h t _ rfl rfl trivial

/-- the initial state is canonical when the initial cache values and the values the programs announce are -/
theorem canon_init (o : Oracle V E) (canon : V → Bool) (init : Pid → Entry V E) (progs : Tid → List (Op V E)) (clock : Int)
    (act0 : Cid → Pid → Bool) (hi : ∀ p, canon (init p).value = true) (hp : ∀ t, progCanon o canon (progs t)) :
    CanonSys o canon (Sys.init init progs clock act0) :=
  ⟨hi, fun _ => trivial, hp⟩

/-- every run of the system is a run of the system with the restricted comparison, and stays canonical -/
theorem reach_restrict {c : Cfg V E} {canon : V → Bool} {s0 s : Sys V E} (h0 : CanonSys c.o canon s0)
    (hr : Reach c s0 s) : Reach (restrictC c canon) s0 s ∧ CanonSys c.o canon s := by
  induction hr with
  | start => exact ⟨Reach.start, h0⟩
  | next t _ hs ih =>
    obtain ⟨ih1, ih2⟩ := ih
    exact ⟨Reach.next t ih1 (by rw [step_restrict c canon _ t ih2]; exact hs), canon_step ih2 t hs⟩

end Frappy.UpdateSys
