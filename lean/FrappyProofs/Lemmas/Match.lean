import FrappyModel.Spec.C11
/-
C11 — helper lemmas: the inductive invariant of the matching model.
-/
namespace Frappy.Client.Match
open Frappy.Spec.C11

section
variable {α : Type} [DecidableEq α]

/-- the request→reply table is injective -/
def TableInj (tbl : List (α × α)) : Prop :=
  ∀ a b v, look tbl a = some v → look tbl b = some v → a = b

/-! ### association list facts -/

theorem findKey_mem {m : List (Key α × Entry α)} {k : Key α} {e : Entry α} (h : findKey m k = some e) :
    (k, e) ∈ m := by
  induction m with
  | nil => simp [findKey] at h
  | cons p t ih =>
    obtain ⟨k', e'⟩ := p
    simp only [findKey] at h
    split at h
    · next hk => cases h; subst hk; simp
    · exact List.mem_cons_of_mem _ (ih h)

theorem mem_eraseKey {m : List (Key α × Entry α)} {k : Key α} {p : Key α × Entry α} (h : p ∈ eraseKey m k) :
    p ∈ m := by
  induction m with
  | nil => simp [eraseKey] at h
  | cons q t ih =>
    obtain ⟨k', e'⟩ := q
    simp only [eraseKey] at h
    split at h
    · exact List.mem_cons_of_mem _ h
    · rcases List.mem_cons.1 h with h | h
      · subst h; simp
      · exact List.mem_cons_of_mem _ (ih h)

theorem hasKey_cons {m : List (Key α × Entry α)} {k k' : Key α} {e : Entry α} (h : hasKey m k = true) :
    hasKey ((k', e) :: m) k = true := by
  unfold hasKey at *
  simp only [findKey]
  split
  · simp
  · exact h

theorem hasKey_cons_self {m : List (Key α × Entry α)} {k : Key α} {e : Entry α} :
    hasKey ((k, e) :: m) k = true := by
  simp [hasKey, findKey]

/-! ### sequence numbers in flight -/

def seqList (s : St α) : List Nat :=
  s.delivered.map (·.2.seq) ++ (s.rxSet.toList.map (·.2.seq) ++ (s.rxLine.toList.map (·.seq) ++ s.wireIn.map (·.seq)))

/-- the inductive invariant -/
structure Inv (tbl : List (α × α)) (s : St α) : Prop where
  keys : ∀ p ∈ s.active, p.1 = reqKey tbl p.2.req
  ans : ∀ p ∈ s.delivered, reqKey tbl p.1.req ≠ none → Answers tbl p.1.req p.2
  ansSet : ∀ p, s.rxSet = some p → reqKey tbl p.1.req ≠ none → Answers tbl p.1.req p.2
  park : ∀ e ∈ s.pending, s.closing = true ∨ hasKey s.active (reqKey tbl e.req) = true
  parkHold : s.txTest = some true → ∀ e, s.txHold = some e →
    s.closing = true ∨ hasKey s.active (reqKey tbl e.req) = true
  seqs : ∀ n, (seqList s).count n ≤ 1 ∧ (s.nextSeq ≤ n → (seqList s).count n = 0)

theorem inv_init (tbl : List (α × α)) : Inv tbl ({} : St α) := by
  constructor <;> simp [seqList]

theorem answers_of_match {tbl : List (α × α)} (hinj : TableInj tbl) {s : St α} {l : Line α} {e : Entry α}
    (hk : ∀ p ∈ s.active, p.1 = reqKey tbl p.2.req) (hm : matchEntry tbl s l = some e)
    (hkn : reqKey tbl e.req ≠ none) : Answers tbl e.req l := by
  unfold matchEntry at hm
  split at hm
  · cases hm
  · have hmem := findKey_mem hm
    have hkey := hk _ hmem
    simp only at hkey
    unfold reqKey at hkey hkn
    split at hkey
    · next v hv =>
      unfold resolve at hkey
      split at hkey
      · next herr =>
        split at hkey
        · next v' hv' =>
          simp only [Option.some.injEq, Prod.mk.injEq] at hkey
          obtain ⟨h1, h2⟩ := hkey
          subst h1
          exact ⟨h2, Or.inr ⟨herr, hinj _ _ _ hv' hv⟩⟩
        · cases hkey
      · next herr =>
        split at hkey
        · simp only [Option.some.injEq, Prod.mk.injEq] at hkey
          obtain ⟨h1, h2⟩ := hkey
          subst h1
          exact ⟨h2, Or.inl ⟨by simpa using herr, hv⟩⟩
        · cases hkey
    · next hv => simp [hv] at hkn

/-- every action of the (repaired, `locked`) model preserves the invariant -/
theorem inv_step {tbl : List (α × α)} (hinj : TableInj tbl) {s s' : St α} {l : Label α}
    (inv : Inv tbl s) (h : step tbl true s l = some s') : Inv tbl s' := by
  unfold step at h
  split at h
  · next hen =>
    cases h
    cases l with
    | put r => exact ⟨inv.keys, inv.ans, inv.ansSet, inv.park, inv.parkHold, inv.seqs⟩
    | selfRelease i => exact ⟨inv.keys, inv.ans, inv.ansSet, inv.park, inv.parkHold, inv.seqs⟩
    | timeout i => exact ⟨inv.keys, inv.ans, inv.ansSet, inv.park, inv.parkHold, inv.seqs⟩
    | txGet =>
      simp only [stepF]
      split
      · next e t heq =>
        refine ⟨inv.keys, inv.ans, inv.ansSet, inv.park, ?_, inv.seqs⟩
        simp only [enabled, Bool.and_eq_true, Option.isNone_iff_eq_none] at hen
        intro h1; simp [hen.1.1.2] at h1
      · exact inv
    | txTest parked =>
      refine ⟨inv.keys, inv.ans, inv.ansSet, inv.park, ?_, inv.seqs⟩
      simp only [enabled] at hen
      split at hen
      · next e he =>
        simp only [Bool.and_eq_true, beq_iff_eq] at hen
        intro h1 e' he'
        simp only [stepF] at h1 he'
        cases h1
        rw [he] at he'; cases he'
        exact Or.inr hen.2.symm
      · cases hen
    | txApply =>
      simp only [stepF]
      split
      · next e parked he ht =>
        unfold txApplyF
        split
        · next hp =>
          subst hp
          refine ⟨inv.keys, inv.ans, inv.ansSet, ?_, ?_, inv.seqs⟩
          · intro e' he'
            rcases List.mem_append.1 he' with h | h
            · exact inv.park e' h
            · have h2 : e' = e := by simpa using h
              rw [h2]; exact inv.parkHold ht e he
          · intro h1; simp at h1
        · refine ⟨?_, inv.ans, inv.ansSet, ?_, ?_, inv.seqs⟩
          · intro p hp
            rcases List.mem_cons.1 hp with h | h
            · subst h; rfl
            · exact inv.keys p h
          · intro e' he'
            rcases inv.park e' he' with h | h
            · exact Or.inl h
            · exact Or.inr (hasKey_cons h)
          · intro h1; simp at h1
      · exact inv
    | txSend =>
      simp only [stepF]
      split
      · exact ⟨inv.keys, inv.ans, inv.ansSet, inv.park, inv.parkHold, inv.seqs⟩
      · exact inv
    | txSendFail => exact ⟨inv.keys, inv.ans, inv.ansSet, inv.park, inv.parkHold, inv.seqs⟩
    | peerEmit err a sp ev re =>
      refine ⟨inv.keys, inv.ans, inv.ansSet, inv.park, inv.parkHold, ?_⟩
      intro n
      have := inv.seqs n
      simp only [stepF, seqList, List.map_append, List.count_append, List.map_cons, List.map_nil,
        List.count_cons, List.count_nil] at this ⊢
      constructor
      · split
        · next heq =>
          have h0 := this.2 (by simp at heq; omega)
          omega
        · omega
      · intro hn
        have h0 := this.2 (by omega)
        split
        · next heq => simp at heq; omega
        · omega
    | rxRead =>
      simp only [stepF]
      split
      · next l t heq =>
        refine ⟨inv.keys, inv.ans, inv.ansSet, inv.park, inv.parkHold, ?_⟩
        simp only [enabled, Bool.and_eq_true, Option.isNone_iff_eq_none] at hen
        intro n
        have := inv.seqs n
        simp only [seqList, heq, hen.1.1.1.2, List.count_append, List.map_cons, List.count_cons, Option.toList_none,
          Option.toList_some, List.map_nil, List.count_nil] at this ⊢
        omega
      · exact inv
    | rxMatch found took =>
      simp only [stepF]
      simp only [enabled] at hen
      split
      · next l hl =>
        rw [hl] at hen
        simp only [Bool.and_eq_true, beq_iff_eq, Option.isNone_iff_eq_none, lockFree, Bool.not_true, Bool.false_or,
          Bool.or_eq_true] at hen
        obtain ⟨⟨⟨hset, hlock'⟩, hfound⟩, htook⟩ := hen
        unfold rxMatchF
        simp only [hfound, htook, and_self, if_true]
        split
        · next e hm =>
          have hlock : s.txTest = none := by
            rcases hlock' with h | h
            · simp [matchEntry, h] at hm
            · exact h
          unfold rxDeliver
          refine ⟨?_, inv.ans, ?_, ?_, ?_, ?_⟩
          · intro p hp; exact inv.keys p (mem_eraseKey hp)
          · intro p hp hk
            simp only [Option.some.injEq] at hp
            subst hp
            exact answers_of_match hinj inv.keys hm hk
          · intro e' he'; simp at he'
          · intro h1; simp [hlock] at h1
          · intro n
            have := inv.seqs n
            simp only [seqList, hl, hset, List.count_append, List.map_cons, List.count_cons, Option.toList_none,
              Option.toList_some, List.map_nil, List.count_nil] at this ⊢
            omega
        · refine ⟨inv.keys, inv.ans, inv.ansSet, inv.park, inv.parkHold, ?_⟩
          intro n
          have := inv.seqs n
          simp only [seqList, hl, hset, List.count_append, List.map_cons, List.count_cons, Option.toList_none,
            Option.toList_some, List.map_nil, List.count_nil] at this ⊢
          omega
      · exact inv
    | rxSetEvent =>
      simp only [stepF]
      split
      · next p hp =>
        refine ⟨inv.keys, ?_, ?_, inv.park, inv.parkHold, ?_⟩
        · intro q hq
          rcases List.mem_cons.1 hq with h | h
          · subst h; exact inv.ansSet _ hp
          · exact inv.ans q h
        · intro q hq; simp at hq
        · intro n
          have := inv.seqs n
          simp only [seqList, hp, List.count_append, List.map_cons, List.count_cons, Option.toList_none,
            Option.toList_some, List.map_nil, List.count_nil] at this ⊢
          omega
      · exact inv
    | rxRequeue =>
      simp only [stepF]
      split
      · exact ⟨inv.keys, inv.ans, inv.ansSet, inv.park, inv.parkHold, inv.seqs⟩
      · exact inv
    | rxCleanPop =>
      simp only [stepF]
      split
      · exact ⟨inv.keys, inv.ans, inv.ansSet, inv.park, inv.parkHold, inv.seqs⟩
      · exact inv
    | rxCleanup removed took =>
      simp only [stepF]
      simp only [enabled] at hen
      split
      · next i hc =>
        rw [hc] at hen
        simp only [Bool.and_eq_true, lockFree, Bool.not_true, Bool.false_or, Option.isNone_iff_eq_none,
          beq_iff_eq] at hen
        obtain ⟨⟨hlock, hrem⟩, htook⟩ := hen
        subst hrem
        subst htook
        unfold rxCleanupF
        simp only [and_self, if_true]
        split
        · refine ⟨?_, inv.ans, inv.ansSet, ?_, ?_, inv.seqs⟩
          · intro p hp; exact inv.keys p (mem_eraseKey hp)
          · intro e' he'; simp at he'
          · intro h1; simp [hlock] at h1
        · exact ⟨inv.keys, inv.ans, inv.ansSet, inv.park, inv.parkHold, inv.seqs⟩
      · exact inv
    | closeBegin =>
      exact ⟨inv.keys, inv.ans, inv.ansSet, fun _ _ => Or.inl rfl, fun _ _ _ => Or.inl rfl, inv.seqs⟩
    | closeTxq =>
      simp only [stepF]
      split
      · exact ⟨inv.keys, inv.ans, inv.ansSet, inv.park, inv.parkHold, inv.seqs⟩
      · exact inv
    | closeActive =>
      simp only [stepF]
      simp only [enabled, Bool.and_eq_true] at hen
      have hcl := hen.1.1
      split
      · next k e t ha =>
        refine ⟨?_, inv.ans, inv.ansSet, fun _ _ => Or.inl hcl, fun _ _ _ => Or.inl hcl, inv.seqs⟩
        intro p hp; exact inv.keys p (by rw [ha]; exact List.mem_cons_of_mem _ hp)
      · exact inv
    | closePending =>
      simp only [stepF]
      simp only [enabled, Bool.and_eq_true] at hen
      have hcl := hen.1.1
      split
      · exact ⟨inv.keys, inv.ans, inv.ansSet, fun _ _ => Or.inl hcl, fun _ _ _ => Or.inl hcl, inv.seqs⟩
      · exact inv
    | closeSet i => exact ⟨inv.keys, inv.ans, inv.ansSet, inv.park, inv.parkHold, inv.seqs⟩
  · cases h

theorem reachable_inv {tbl : List (α × α)} (hinj : TableInj tbl) {s : St α} (h : Reachable tbl true s) : Inv tbl s := by
  induction h with
  | init => exact inv_init tbl
  | step l _ hs ih => exact inv_step hinj ih hs

end
end Frappy.Client.Match

namespace Frappy.Client.Match
section
variable {α : Type} [DecidableEq α]

theorem look_mem {tbl : List (α × α)} {a v : α} (h : look tbl a = some v) : v ∈ tbl.map (·.2) := by
  induction tbl with
  | nil => simp [look] at h
  | cons p t ih =>
    obtain ⟨k, w⟩ := p
    simp only [look] at h
    split at h
    · cases h; simp
    · simp only [List.map_cons, List.mem_cons]; exact Or.inr (ih h)

/-- a table whose reply actions are pairwise distinct is injective -/
theorem tableInj_of_nodup {tbl : List (α × α)} (h : (tbl.map (·.2)).Nodup) : TableInj tbl := by
  induction tbl with
  | nil => intro a b v ha; simp [look] at ha
  | cons p t ih =>
    obtain ⟨k, w⟩ := p
    simp only [List.map_cons, List.nodup_cons] at h
    intro a b v ha hb
    simp only [look] at ha hb
    split at ha
    · next hka =>
      cases ha
      split at hb
      · next hkb => rw [← hka, ← hkb]
      · exact absurd (look_mem hb) h.1
    · next hka =>
      split at hb
      · cases hb; exact absurd (look_mem ha) h.1
      · exact ih h.2 a b v ha hb

/-- a run accepted by the model ends in a reachable state -/
theorem reachable_of_run {tbl : List (α × α)} {locked : Bool} :
    ∀ (ls : List (Label α)) (s s' : St α) (i : Nat), Reachable tbl locked s → run tbl locked s ls i = .ok s' →
      Reachable tbl locked s' := by
  intro ls
  induction ls with
  | nil => intro s s' i hr h; simp only [run] at h; cases h; exact hr
  | cons l t ih =>
    intro s s' i hr h
    simp only [run] at h
    split at h
    · next s1 hs => exact ih s1 s' (i + 1) (Reachable.step l hr hs) h
    · cases h

/-- run a label sequence from the initial state and test the final state -/
def checkRun (tbl : List (α × α)) (locked : Bool) (ls : List (Label α)) (p : St α → Bool) : Bool :=
  match run tbl locked {} ls 0 with
  | .ok s => p s
  | .error _ => false

/-- index of the first label of a sequence the model cannot follow -/
def refusedAt (tbl : List (α × α)) (locked : Bool) (ls : List (Label α)) : Option Nat :=
  match run tbl locked {} ls 0 with
  | .ok _ => none
  | .error i => some i

theorem checkRun_spec {tbl : List (α × α)} {locked : Bool} {ls : List (Label α)} {p : St α → Bool}
    (h : checkRun tbl locked ls p = true) : ∃ s, Reachable tbl locked s ∧ p s = true := by
  unfold checkRun at h
  split at h
  · next s hs => exact ⟨s, reachable_of_run ls {} s 0 Reachable.init hs, h⟩
  · cases h

end
end Frappy.Client.Match

/-! ### a lone `disconnect` releases everything -/
namespace Frappy.Client.Match
open Frappy.Spec.C11
section
variable {α : Type} [DecidableEq α]

/-- the actions of one `disconnect()` that runs alone: flag, drain `txq`, pop `active_requests`, drain `pending`,
setting every event on the way -/
def drainLabels (s : St α) : List (Label α) :=
  .closeBegin :: (s.txq.flatMap (fun e => [.closeTxq, .closeSet e.id])
    ++ (s.active.flatMap (fun p => [.closeActive, .closeSet p.2.id])
    ++ s.pending.flatMap (fun e => [.closePending, .closeSet e.id])))

theorem run_append {tbl : List (α × α)} {locked : Bool} :
    ∀ (a b : List (Label α)) (s s1 : St α) (i : Nat), run tbl locked s a i = .ok s1 →
      run tbl locked s (a ++ b) i = run tbl locked s1 b (i + a.length) := by
  intro a
  induction a with
  | nil => intro b s s1 i h; simp only [run] at h; cases h; simp
  | cons l t ih =>
    intro b s s1 i h
    simp only [run, List.cons_append] at h ⊢
    split at h
    · next s2 hs =>
      rw [ih b s2 s1 (i + 1) h]
      simp only [List.length_cons]
      congr 1
      omega
    · cases h

theorem step_of_enabled {tbl : List (α × α)} {locked : Bool} {s : St α} {l : Label α}
    (h : enabled tbl locked s l = true) : step tbl locked s l = some (stepF tbl s l) := by
  simp [step, h]

/-- what one drain phase of a lone `disconnect` leaves behind -/
structure Drained (s s' : St α) (ids : List Nat) : Prop where
  relHold : s'.relHold = []
  closing : s'.closing = true
  txTest : s'.txTest = s.txTest
  delivered : s'.delivered = s.delivered
  keep : ∀ x ∈ s.released, x ∈ s'.released
  got : ∀ x ∈ ids, x ∈ s'.released

theorem drain_txq {tbl : List (α × α)} {locked : Bool} :
    ∀ (q : List (Entry α)) (s : St α) (i : Nat), s.txq = q → s.closing = true → s.relHold = [] →
      ∃ s', run tbl locked s (q.flatMap (fun e => [Label.closeTxq, Label.closeSet e.id])) i = .ok s' ∧
        s'.txq = [] ∧ s'.active = s.active ∧ s'.pending = s.pending ∧ Drained s s' (q.map (·.id)) := by
  intro q
  induction q with
  | nil =>
    intro s i hq hc hr
    exact ⟨s, by simp [run], hq, rfl, rfl, ⟨hr, hc, rfl, rfl, fun _ h => h, by simp⟩⟩
  | cons e t ih =>
    intro s i hq hc hr
    have e1 : step tbl locked s Label.closeTxq = some (stepF tbl s Label.closeTxq) :=
      step_of_enabled (by simp [enabled, hq, hc])
    have e2 : step tbl locked (stepF tbl s Label.closeTxq) (Label.closeSet e.id)
        = some (stepF tbl (stepF tbl s Label.closeTxq) (Label.closeSet e.id)) :=
      step_of_enabled (by simp [enabled, stepF, hq])
    obtain ⟨s', hrun, h1, h2, h3, hd⟩ :=
      ih (stepF tbl (stepF tbl s Label.closeTxq) (Label.closeSet e.id)) (i + 1 + 1)
        (by simp [stepF, hq]) (by simp [stepF, hq, hc]) (by simp [stepF, hq, hr])
    refine ⟨s', ?_, h1, ?_, ?_, ⟨hd.relHold, hd.closing, ?_, ?_, ?_, ?_⟩⟩
    · simp only [List.flatMap_cons, List.cons_append, List.nil_append, run, e1, e2]
      exact hrun
    · rw [h2]; simp [stepF, hq]
    · rw [h3]; simp [stepF, hq]
    · rw [hd.txTest]; simp [stepF, hq]
    · rw [hd.delivered]; simp [stepF, hq]
    · intro x hx; exact hd.keep x (by simp [stepF, hq, hx])
    · intro x hx
      rcases List.mem_cons.1 hx with h | h
      · subst h; exact hd.keep _ (by simp [stepF, hq])
      · exact hd.got x h

theorem drain_active {tbl : List (α × α)} {locked : Bool} :
    ∀ (q : List (Key α × Entry α)) (s : St α) (i : Nat), s.active = q → s.closing = true → s.relHold = [] →
      s.txTest = none →
      ∃ s', run tbl locked s (q.flatMap (fun p => [Label.closeActive, Label.closeSet p.2.id])) i = .ok s' ∧
        s'.active = [] ∧ s'.txq = s.txq ∧ s'.pending = s.pending ∧ Drained s s' (q.map (·.2.id)) := by
  intro q
  induction q with
  | nil =>
    intro s i hq hc hr _
    exact ⟨s, by simp [run], hq, rfl, rfl, ⟨hr, hc, rfl, rfl, fun _ h => h, by simp⟩⟩
  | cons p t ih =>
    obtain ⟨k, e⟩ := p
    intro s i hq hc hr ht
    have e1 : step tbl locked s Label.closeActive = some (stepF tbl s Label.closeActive) :=
      step_of_enabled (by simp [enabled, hq, hc, lockFree, ht])
    have e2 : step tbl locked (stepF tbl s Label.closeActive) (Label.closeSet e.id)
        = some (stepF tbl (stepF tbl s Label.closeActive) (Label.closeSet e.id)) :=
      step_of_enabled (by simp [enabled, stepF, hq])
    obtain ⟨s', hrun, h1, h2, h3, hd⟩ :=
      ih (stepF tbl (stepF tbl s Label.closeActive) (Label.closeSet e.id)) (i + 1 + 1)
        (by simp [stepF, hq]) (by simp [stepF, hq, hc]) (by simp [stepF, hq, hr]) (by simp [stepF, hq, ht])
    refine ⟨s', ?_, h1, ?_, ?_, ⟨hd.relHold, hd.closing, ?_, ?_, ?_, ?_⟩⟩
    · simp only [List.flatMap_cons, List.cons_append, List.nil_append, run, e1, e2]
      exact hrun
    · rw [h2]; simp [stepF, hq]
    · rw [h3]; simp [stepF, hq]
    · rw [hd.txTest]; simp [stepF, hq]
    · rw [hd.delivered]; simp [stepF, hq]
    · intro x hx; exact hd.keep x (by simp [stepF, hq, hx])
    · intro x hx
      rcases List.mem_cons.1 hx with h | h
      · subst h; exact hd.keep _ (by simp [stepF, hq])
      · exact hd.got x h

theorem drain_pending {tbl : List (α × α)} {locked : Bool} :
    ∀ (q : List (Entry α)) (s : St α) (i : Nat), s.pending = q → s.closing = true → s.relHold = [] →
      s.txTest = none →
      ∃ s', run tbl locked s (q.flatMap (fun e => [Label.closePending, Label.closeSet e.id])) i = .ok s' ∧
        s'.pending = [] ∧ s'.txq = s.txq ∧ s'.active = s.active ∧ Drained s s' (q.map (·.id)) := by
  intro q
  induction q with
  | nil =>
    intro s i hq hc hr _
    exact ⟨s, by simp [run], hq, rfl, rfl, ⟨hr, hc, rfl, rfl, fun _ h => h, by simp⟩⟩
  | cons e t ih =>
    intro s i hq hc hr ht
    have e1 : step tbl locked s Label.closePending = some (stepF tbl s Label.closePending) :=
      step_of_enabled (by simp [enabled, hq, hc, lockFree, ht])
    have e2 : step tbl locked (stepF tbl s Label.closePending) (Label.closeSet e.id)
        = some (stepF tbl (stepF tbl s Label.closePending) (Label.closeSet e.id)) :=
      step_of_enabled (by simp [enabled, stepF, hq])
    obtain ⟨s', hrun, h1, h2, h3, hd⟩ :=
      ih (stepF tbl (stepF tbl s Label.closePending) (Label.closeSet e.id)) (i + 1 + 1)
        (by simp [stepF, hq]) (by simp [stepF, hq, hc]) (by simp [stepF, hq, hr]) (by simp [stepF, hq, ht])
    refine ⟨s', ?_, h1, ?_, ?_, ⟨hd.relHold, hd.closing, ?_, ?_, ?_, ?_⟩⟩
    · simp only [List.flatMap_cons, List.cons_append, List.nil_append, run, e1, e2]
      exact hrun
    · rw [h2]; simp [stepF, hq]
    · rw [h3]; simp [stepF, hq]
    · rw [hd.txTest]; simp [stepF, hq]
    · rw [hd.delivered]; simp [stepF, hq]
    · intro x hx; exact hd.keep x (by simp [stepF, hq, hx])
    · intro x hx
      rcases List.mem_cons.1 hx with h | h
      · subst h; exact hd.keep _ (by simp [stepF, hq])
      · exact hd.got x h


theorem drain_all {tbl : List (α × α)} {locked : Bool} (s : St α) (ht : s.txTest = none) (hr : s.relHold = []) :
    ∃ s', run tbl locked s (drainLabels s) 0 = .ok s' ∧
      AllReleased s' ((s.txq ++ s.active.map (·.2) ++ s.pending).map (·.id)) := by
  have e0 : step tbl locked s Label.closeBegin = some (stepF tbl s Label.closeBegin) :=
    step_of_enabled (by simp [enabled])
  obtain ⟨s1, r1, a1, b1, c1, d1⟩ := drain_txq (tbl := tbl) (locked := locked) s.txq (stepF tbl s Label.closeBegin) 1
    (by simp [stepF]) (by simp [stepF]) (by simp [stepF, hr])
  have hact : s1.active = s.active := by rw [b1]; simp [stepF]
  have hpen : s1.pending = s.pending := by rw [c1]; simp [stepF]
  have ht1 : s1.txTest = none := by rw [d1.txTest]; simp [stepF, ht]
  obtain ⟨s2, r2, a2, b2, c2, d2⟩ := drain_active (tbl := tbl) (locked := locked) s.active s1
    (1 + (s.txq.flatMap (fun e => [Label.closeTxq, Label.closeSet e.id])).length) hact d1.closing d1.relHold ht1
  have ht2 : s2.txTest = none := by rw [d2.txTest]; exact ht1
  obtain ⟨s3, r3, a3, b3, c3, d3⟩ := drain_pending (tbl := tbl) (locked := locked) s.pending s2
    (1 + (s.txq.flatMap (fun e => [Label.closeTxq, Label.closeSet e.id])).length
      + (s.active.flatMap (fun p => [Label.closeActive, Label.closeSet p.2.id])).length)
    (by rw [c2]; exact hpen) d2.closing d2.relHold ht2
  refine ⟨s3, ?_, ?_⟩
  · simp only [drainLabels, run, e0]
    rw [run_append _ _ _ _ _ r1, run_append _ _ _ _ _ r2]
    exact r3
  · refine ⟨by rw [c3]; exact a2, a3, by rw [b3, b2]; exact a1, d3.relHold, ?_⟩
    intro i hi
    refine Or.inl ?_
    simp only [List.map_append, List.mem_append, List.map_map] at hi
    rcases hi with (h | h) | h
    · exact d3.keep i (d2.keep i (d1.got i h))
    · exact d3.keep i (d2.got i (by simpa [List.map_map] using h))
    · exact d3.got i h

end
end Frappy.Client.Match

namespace Frappy.Client.Match
section
variable {α : Type} [DecidableEq α]
open Frappy.Spec.C11

theorem noSpur_step {tbl : List (α × α)} {locked : Bool} {s s' : St α} {l : Label α}
    (h : step tbl locked s l = some s') (q : NoSpuriousRelease s) : NoSpuriousRelease s' := by
  unfold step at h
  split at h
  · next hen =>
    cases h
    unfold NoSpuriousRelease at q ⊢
    cases l <;> simp only [stepF, enabled] at hen ⊢
    all_goals first
      | exact q
      | (intro hc; simp_all; done)
      | (split <;> first | exact q | (intro hc; simp_all; done))
      | (split <;> (try simp only [txApplyF, rxMatchF, rxCleanupF, takeParked, rxDeliver]) <;>
          (repeat' split) <;> first | exact q | (intro hc; simp_all; done))
  · cases h

theorem reachable_noSpur {tbl : List (α × α)} {locked : Bool} {s : St α} (h : Reachable tbl locked s) :
    NoSpuriousRelease s := by
  induction h with
  | init => intro _; exact ⟨rfl, rfl⟩
  | step l _ hs ih => exact noSpur_step hs ih

end
end Frappy.Client.Match
