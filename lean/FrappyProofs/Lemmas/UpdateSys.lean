import FrappyProofs.Lemmas.Update
import FrappyModel.Node.UpdateSys
/-
Invariant of the small-step system: a thread between `acquire` and `release` is the only one past
`acquire`; everything outside its critical section is the result of a sequential run of the completed
calls; inside, the entry and the logs are a known function of the snapshot at `acquire`.
-/
set_option linter.unusedSectionVars false
set_option linter.unusedSimpArgs false
namespace Frappy.UpdateSys
open Frappy.Update

variable {V E : Type} [DecidableEq E]

/-! ### bookkeeping -/

@[simp] theorem upd_same {α : Type} (f : Nat → α) (i : Nat) (a : α) : upd f i a i = a := by simp [upd]
theorem upd_other {α : Type} (f : Nat → α) (i j : Nat) (a : α) (h : j ≠ i) : upd f i a j = f j := by simp [upd, h]

@[simp] theorem setPc_lock (s : Sys V E) (t : Tid) (pc : PC V E) : (s.setPc t pc).lock = s.lock := rfl
@[simp] theorem setPc_entries (s : Sys V E) (t : Tid) (pc : PC V E) : (s.setPc t pc).entries = s.entries := rfl
@[simp] theorem setPc_logs (s : Sys V E) (t : Tid) (pc : PC V E) : (s.setPc t pc).logs = s.logs := rfl
@[simp] theorem setPc_hist (s : Sys V E) (t : Tid) (pc : PC V E) : (s.setPc t pc).hist = s.hist := rfl
@[simp] theorem setPc_slock (s : Sys V E) (t : Tid) (pc : PC V E) : (s.setPc t pc).slock = s.slock := rfl
@[simp] theorem setPc_ghist (s : Sys V E) (t : Tid) (pc : PC V E) : (s.setPc t pc).ghist = s.ghist := rfl
@[simp] theorem setEntry_slock (s : Sys V E) (p : Pid) (e : Entry V E) : (s.setEntry p e).slock = s.slock := rfl
@[simp] theorem deliver_slock (s : Sys V E) (k : Cid) (p : Pid) (m : Msg V E) : (s.deliver k p m).slock = s.slock := rfl
@[simp] theorem setPc_act (s : Sys V E) (t : Tid) (pc : PC V E) : (s.setPc t pc).act = s.act := rfl
@[simp] theorem setPc_snapped (s : Sys V E) (t : Tid) (pc : PC V E) : (s.setPc t pc).snapped = s.snapped := rfl
@[simp] theorem setEntry_act (s : Sys V E) (p : Pid) (e : Entry V E) : (s.setEntry p e).act = s.act := rfl
@[simp] theorem setEntry_snapped (s : Sys V E) (p : Pid) (e : Entry V E) : (s.setEntry p e).snapped = s.snapped := rfl
@[simp] theorem deliver_act (s : Sys V E) (k : Cid) (p : Pid) (m : Msg V E) : (s.deliver k p m).act = s.act := rfl
@[simp] theorem deliver_snapped (s : Sys V E) (k : Cid) (p : Pid) (m : Msg V E) :
    (s.deliver k p m).snapped = s.snapped := rfl
@[simp] theorem markSnapped_thr (s : Sys V E) (k : Cid) (p : Pid) : (s.markSnapped k p).thr = s.thr := rfl
@[simp] theorem markSnapped_hist (s : Sys V E) (k : Cid) (p : Pid) : (s.markSnapped k p).hist = s.hist := rfl
@[simp] theorem markSnapped_ghist (s : Sys V E) (k : Cid) (p : Pid) : (s.markSnapped k p).ghist = s.ghist := rfl
@[simp] theorem markSnapped_logs (s : Sys V E) (k : Cid) (p : Pid) : (s.markSnapped k p).logs = s.logs := rfl
@[simp] theorem markSnapped_entries (s : Sys V E) (k : Cid) (p : Pid) : (s.markSnapped k p).entries = s.entries := rfl
@[simp] theorem markSnapped_lock (s : Sys V E) (k : Cid) (p : Pid) : (s.markSnapped k p).lock = s.lock := rfl
@[simp] theorem markSnapped_act (s : Sys V E) (k : Cid) (p : Pid) : (s.markSnapped k p).act = s.act := rfl
@[simp] theorem setPc_pc (s : Sys V E) (t : Tid) (pc : PC V E) : ((s.setPc t pc).thr t).pc = pc := by
  simp [Sys.setPc]
theorem setPc_pc_other (s : Sys V E) (t t' : Tid) (pc : PC V E) (h : t' ≠ t) :
    ((s.setPc t pc).thr t').pc = (s.thr t').pc := by
  simp [Sys.setPc, upd_other _ _ _ _ h]

@[simp] theorem setEntry_lock (s : Sys V E) (p : Pid) (e : Entry V E) : (s.setEntry p e).lock = s.lock := rfl
@[simp] theorem setEntry_thr (s : Sys V E) (p : Pid) (e : Entry V E) : (s.setEntry p e).thr = s.thr := rfl
@[simp] theorem setEntry_logs (s : Sys V E) (p : Pid) (e : Entry V E) : (s.setEntry p e).logs = s.logs := rfl
@[simp] theorem setEntry_hist (s : Sys V E) (p : Pid) (e : Entry V E) : (s.setEntry p e).hist = s.hist := rfl
@[simp] theorem setEntry_same (s : Sys V E) (p : Pid) (e : Entry V E) : (s.setEntry p e).entries p = e := by
  simp [Sys.setEntry]
theorem setEntry_other (s : Sys V E) (p q : Pid) (e : Entry V E) (h : q ≠ p) :
    (s.setEntry p e).entries q = s.entries q := by
  simp [Sys.setEntry, upd_other _ _ _ _ h]

@[simp] theorem deliver_lock (s : Sys V E) (k : Cid) (p : Pid) (m : Msg V E) : (s.deliver k p m).lock = s.lock := rfl
@[simp] theorem deliver_thr (s : Sys V E) (k : Cid) (p : Pid) (m : Msg V E) : (s.deliver k p m).thr = s.thr := rfl
@[simp] theorem deliver_entries (s : Sys V E) (k : Cid) (p : Pid) (m : Msg V E) :
    (s.deliver k p m).entries = s.entries := rfl
@[simp] theorem deliver_hist (s : Sys V E) (k : Cid) (p : Pid) (m : Msg V E) : (s.deliver k p m).hist = s.hist := rfl
@[simp] theorem deliver_same (s : Sys V E) (k : Cid) (p : Pid) (m : Msg V E) :
    (s.deliver k p m).logs k p = s.logs k p ++ [⟨m, (s.entries p).ve⟩] := by
  simp [Sys.deliver]
theorem deliver_other_conn (s : Sys V E) (k k' : Cid) (p q : Pid) (m : Msg V E) (h : k' ≠ k) :
    (s.deliver k p m).logs k' q = s.logs k' q := by
  simp [Sys.deliver, upd_other _ _ _ _ h]
theorem deliver_other_param (s : Sys V E) (k k' : Cid) (p q : Pid) (m : Msg V E) (h : q ≠ p) :
    (s.deliver k p m).logs k' q = s.logs k' q := by
  by_cases hk : k' = k
  · subst hk; simp [Sys.deliver, upd_other _ _ _ _ h]
  · exact deliver_other_conn s k k' p q m hk

/-! ### the invariant -/

/-- the messages connection `k` received for parameter `p` -/
def plog (s : Sys V E) (k : Cid) (p : Pid) : List (Msg V E) := (s.logs k p).map (·.msg)

@[simp] theorem plog_setPc (s : Sys V E) (t : Tid) (pc : PC V E) (k : Cid) (p : Pid) :
    plog (s.setPc t pc) k p = plog s k p := rfl

/-- the sequential run of the completed calls on parameter `p` -/
def seqRun (c : Cfg V E) (init : Pid → Entry V E) (s : Sys V E) (p : Pid) : Run V E :=
  runR c.o (init p) (s.hist p)

/-- connection `k` was subscribed to `p` before the run started and has not been sent a snapshot for it since:
it has received exactly the updates of `p` -/
def Stat (c : Cfg V E) (s : Sys V E) (p : Pid) (k : Cid) : Prop :=
  k ∈ c.conns ∧ c.act0 k p = true ∧ s.snapped k p = false

/-- parameter `p` is outside any critical section: entry and logs are those of the sequential run -/
def Clean (c : Cfg V E) (init : Pid → Entry V E) (s : Sys V E) (p : Pid) : Prop :=
  s.entries p = (seqRun c init s p).entry ∧ ∀ k, Stat c s p k → plog s k p = (seqRun c init s p).msgs

def pcPid : PC V E → Option Pid
  | .idle => none
  | .locked p _ _ => some p
  | .timed p _ _ => some p
  | .compared p _ _ _ => some p
  | .stored p _ _ _ => some p
  | .go p _ _ => some p
  | .stamped p _ _ => some p
  | .errset p _ _ => some p
  | .built p _ _ _ => some p
  | .sending p _ _ _ _ => some p
  | .leaving p _ _ => some p
  | .actD _ _ => none
  | .actS _ _ => none
  | .actR _ _ => none
  | .snap _ _ => none
  | .actE => none

/-- the thread is between `acquire` and `release` of the module's update lock -/
def inU : PC V E → Bool
  | .idle => false
  | .actD _ _ => false
  | .actS _ _ => false
  | .actR _ _ => false
  | .actE => false
  | _ => true

/-- the thread holds the dispatcher's subscription lock -/
def holdsS : PC V E → Bool
  | .sending _ _ _ _ _ => true
  | .actS _ _ => true
  | _ => false

theorem inU_of_pcPid {pc : PC V E} {p : Pid} (h : pcPid pc = some p) : inU pc = true := by
  cases pc <;> simp [pcPid] at h <;> rfl

/-- inside the funnel: `e0`, `m0` = entry and log when the lock was taken, `cur`, `lg` = now; `st k` = connection
`k` is one of those that receive exactly the updates -/
def Mid (c : Cfg V E) (st : Cid → Prop) (e0 : Entry V E) (m0 : List (Msg V E)) (cur : Entry V E)
    (lg : Cid → List (Msg V E)) : PC V E → Prop
  | .locked _ _ _ => cur = e0 ∧ ∀ k, st k → lg k = m0
  | .timed _ _ _ => cur = e0 ∧ ∀ k, st k → lg k = m0
  | .compared _ _ v chg => cur = e0 ∧ chg = changed c.o e0 v ∧ ∀ k, st k → lg k = m0
  | .stored _ _ v chg => cur = storeValue e0 (.val v) ∧ chg = changed c.o e0 v ∧ ∀ k, st k → lg k = m0
  | .go _ now r => cur = storeValue e0 r ∧ emits c.o e0 now r = true ∧ ∀ k, st k → lg k = m0
  | .stamped _ now r => cur = stamp (storeValue e0 r) now ∧ emits c.o e0 now r = true ∧ ∀ k, st k → lg k = m0
  | .errset _ now r => cur = commit (storeValue e0 r) now r ∧ emits c.o e0 now r = true ∧ ∀ k, st k → lg k = m0
  | .built _ now r m => cur = commit (storeValue e0 r) now r ∧ emits c.o e0 now r = true ∧ m = mkMsg cur ∧
      ∀ k, st k → lg k = m0
  | .sending _ now r m rest => cur = commit (storeValue e0 r) now r ∧ emits c.o e0 now r = true ∧ m = mkMsg cur ∧
      ∃ done, (done ++ rest).Nodup ∧ (∀ k, st k → k ∈ done ++ rest) ∧
        (∀ k ∈ done, st k → lg k = m0 ++ [m]) ∧ (∀ k ∈ rest, st k → lg k = m0)
  | .leaving _ now r => cur = (announceR c.o e0 now r).entry ∧
      ∀ k, st k → lg k = m0 ++ (announceR c.o e0 now r).msg.toList
  | _ => False

structure Inv (c : Cfg V E) (init : Pid → Entry V E) (s : Sys V E) : Prop where
  slHeld : ∀ t, holdsS (s.thr t).pc = true → s.slock = some t
  actMono : ∀ k p, c.act0 k p = true → s.act k p = true
  seenOk : ∀ k p, ∀ d ∈ s.logs k p, d.msg.ve = d.seen
  owner : ∀ t, inU (s.thr t).pc = true → s.lock = some t
  unlocked : s.lock = none → ∀ p, Clean c init s p
  locked : ∀ t, s.lock = some t → inU (s.thr t).pc = true ∧
    (∀ q, pcPid (s.thr t).pc ≠ some q → Clean c init s q) ∧
    (∀ p, pcPid (s.thr t).pc = some p →
      Mid c (Stat c s p) (seqRun c init s p).entry (seqRun c init s p).msgs (s.entries p) (fun k => plog s k p)
        (s.thr t).pc)

theorem inv_init (c : Cfg V E) (init : Pid → Entry V E) (progs : Tid → List (Op V E)) (clock : Int) :
    Inv c init (Sys.init init progs clock c.act0) := by
  refine ⟨fun t ht => by simp [Sys.init, holdsS] at ht, fun k p h => h, ?_, fun t ht => by simp [Sys.init, inU] at ht,
    ?_, fun t ht => by simp [Sys.init] at ht⟩
  · intro k p d hd; simp [Sys.init] at hd
  · intro _ p; exact ⟨by simp [Sys.init, seqRun, runR], fun k _ => by simp [Sys.init, plog, seqRun, runR]⟩

/-- a thread inside the update lock owns it -/
theorem owner_of_busy {c : Cfg V E} {init : Pid → Entry V E} {s : Sys V E} (hi : Inv c init s) (t : Tid)
    (hb : inU (s.thr t).pc = true) : s.lock = some t := hi.owner t hb

/-- what the invariant says about a thread inside the funnel -/
theorem inv_mid {c : Cfg V E} {init : Pid → Entry V E} {s : Sys V E} (hi : Inv c init s) (t : Tid) (p : Pid)
    (hp : pcPid (s.thr t).pc = some p) :
    s.lock = some t ∧ (∀ q, q ≠ p → Clean c init s q) ∧
    Mid c (Stat c s p) (seqRun c init s p).entry (seqRun c init s p).msgs (s.entries p) (fun k => plog s k p)
      (s.thr t).pc := by
  have hl := hi.owner t (inU_of_pcPid hp)
  obtain ⟨_, h2, h3⟩ := hi.locked t hl
  refine ⟨hl, fun q hq => h2 q ?_, h3 p hp⟩
  rw [hp]; intro h; exact hq (Option.some.inj h).symm

/-! ### the subscription lock -/

theorem slHeld_frame {s s' : Sys V E} (h : ∀ t, holdsS (s.thr t).pc = true → s.slock = some t) (t : Tid)
    (hsl : s'.slock = s.slock) (hoth : ∀ t', t' ≠ t → (s'.thr t').pc = (s.thr t').pc)
    (hme : holdsS (s'.thr t).pc = true → holdsS (s.thr t).pc = true) :
    ∀ t', holdsS (s'.thr t').pc = true → s'.slock = some t' := by
  intro t' ht'
  rw [hsl]
  by_cases htt : t' = t
  · rw [htt] at ht' ⊢; exact h t (hme ht')
  · rw [hoth t' htt] at ht'; exact h t' ht'

theorem slHeld_acq {s s' : Sys V E} (h : ∀ t, holdsS (s.thr t).pc = true → s.slock = some t) (t : Tid)
    (hfree : s.slock = none) (hsl : s'.slock = some t) (hoth : ∀ t', t' ≠ t → (s'.thr t').pc = (s.thr t').pc) :
    ∀ t', holdsS (s'.thr t').pc = true → s'.slock = some t' := by
  intro t' ht'
  by_cases htt : t' = t
  · rw [htt]; exact hsl
  · rw [hoth t' htt] at ht'
    have := h t' ht'
    rw [hfree] at this; cases this

theorem slHeld_rel {s s' : Sys V E} (h : ∀ t, holdsS (s.thr t).pc = true → s.slock = some t) (t : Tid)
    (hown : s.slock = some t) (hoth : ∀ t', t' ≠ t → (s'.thr t').pc = (s.thr t').pc)
    (hme : holdsS (s'.thr t).pc = false) :
    ∀ t', holdsS (s'.thr t').pc = true → s'.slock = some t' := by
  intro t' ht'
  by_cases htt : t' = t
  · rw [htt, hme] at ht'; cases ht'
  · rw [hoth t' htt] at ht'
    have := h t' ht'
    rw [hown] at this
    exact absurd (Option.some.inj this).symm htt

/-! ### frames -/

theorem clean_frame {c : Cfg V E} {init : Pid → Entry V E} {s s' : Sys V E} (p : Pid)
    (he : s'.entries = s.entries) (hl : s'.logs = s.logs) (hh : s'.hist = s.hist) (hsn : s'.snapped = s.snapped) :
    Clean c init s' p ↔ Clean c init s p := by
  unfold Clean Stat seqRun plog; rw [he, hl, hh, hsn]

/-- a step of thread `t` outside the update lock that touches only the other locks, the subscriptions and `t` itself -/
theorem inv_outside {c : Cfg V E} {init : Pid → Entry V E} {s : Sys V E} (hi : Inv c init s) (t : Tid)
    (a d sl : Option Tid) (ac : Cid → Pid → Bool) (th : Thread V E)
    (hu : inU (s.thr t).pc = false) (hu' : inU th.pc = false)
    (hS : ∀ t', holdsS ((upd s.thr t th) t').pc = true → sl = some t')
    (hA : ∀ k p, c.act0 k p = true → ac k p = true) (ad : Nat := s.adepth) :
    Inv c init { s with alock := a, adepth := ad, dlock := d, slock := sl, act := ac, thr := upd s.thr t th } := by
  have hoth : ∀ t', t' ≠ t → (upd s.thr t th) t' = s.thr t' := fun t' h => upd_other _ _ _ _ h
  refine ⟨hS, hA, hi.seenOk, ?_, ?_, ?_⟩
  · intro t' ht'
    by_cases htt : t' = t
    · rw [htt] at ht'; simp only [upd_same] at ht'; rw [hu'] at ht'; cases ht'
    · simp only [hoth t' htt] at ht'; exact hi.owner t' ht'
  · intro hl p; exact (clean_frame p rfl rfl rfl rfl).2 (hi.unlocked hl p)
  · intro t0 hl
    obtain ⟨h1, h2, h3⟩ := hi.locked t0 hl
    have hne : t0 ≠ t := by intro h; rw [h, hu] at h1; cases h1
    simp only [hoth t0 hne]
    exact ⟨h1, fun q hq => (clean_frame q rfl rfl rfl rfl).2 (h2 q hq), h3⟩

/-- a step inside the funnel that touches only parameter `p` -/
theorem inv_inner {c : Cfg V E} {init : Pid → Entry V E} {s s' : Sys V E} (hi : Inv c init s) (t : Tid) (p : Pid)
    (hlk : s.lock = some t)
    (hclean : ∀ q, q ≠ p → Clean c init s q)
    (hl : s'.lock = some t) (hh : s'.hist = s.hist) (hsn : s'.snapped = s.snapped) (hact : s'.act = s.act)
    (hS : ∀ t', holdsS (s'.thr t').pc = true → s'.slock = some t')
    (hthr : ∀ t', t' ≠ t → (s'.thr t').pc = (s.thr t').pc)
    (hent : ∀ q, q ≠ p → s'.entries q = s.entries q)
    (hlog : ∀ k q, q ≠ p → s'.logs k q = s.logs k q)
    (hpc : pcPid (s'.thr t).pc = some p)
    (hseen : ∀ k, ∀ d ∈ s'.logs k p, d.msg.ve = d.seen)
    (hmid : Mid c (Stat c s p) (seqRun c init s p).entry (seqRun c init s p).msgs (s'.entries p) (fun k => plog s' k p)
      (s'.thr t).pc) : Inv c init s' := by
  refine ⟨hS, by rw [hact]; exact hi.actMono, ?_, ?_, (fun h => by rw [hl] at h; cases h), ?_⟩
  · intro k q d hd
    by_cases hq : q = p
    · subst hq; exact hseen k d hd
    · rw [hlog k q hq] at hd; exact hi.seenOk k q d hd
  · intro t' ht'
    rw [hl]
    by_cases htt : t' = t
    · rw [htt]
    · rw [hthr t' htt] at ht'
      have := hi.owner t' ht'
      rw [hlk] at this; exact this
  · intro t0 ht0
    rw [hl] at ht0; cases ht0
    refine ⟨inU_of_pcPid hpc, ?_, ?_⟩
    · intro q hq
      have hqp : q ≠ p := by intro h; rw [h] at hq; exact hq hpc
      have := hclean q hqp
      unfold Clean Stat seqRun plog at this ⊢
      rw [hh, hent q hqp, hsn]
      refine ⟨this.1, fun k hk => ?_⟩
      rw [hlog k q hqp]; exact this.2 k hk
    · intro p' hp'
      rw [hpc] at hp'; cases hp'
      have h1 : seqRun c init s' p = seqRun c init s p := by unfold seqRun; rw [hh]
      have h2 : Stat c s' p = Stat c s p := by unfold Stat; rw [hsn]
      rw [h1, h2]; exact hmid

/-! ### preservation -/

theorem inv_stepIdle {c : Cfg V E} {init : Pid → Entry V E} {s s' : Sys V E} (hi : Inv c init s) (t : Tid)
    (hpc : (s.thr t).pc = .idle) (hs : stepIdle s t = some s') : Inv c init s' := by
  unfold stepIdle at hs
  have hu : inU (s.thr t).pc = false := by rw [hpc]; rfl
  have hnS : holdsS (s.thr t).pc = false := by rw [hpc]; rfl
  -- a step that keeps the subscription lock and does not make `t` a holder of it
  have keepS : ∀ (th : Thread V E), holdsS th.pc = false →
      ∀ t', holdsS ((upd s.thr t th) t').pc = true → s.slock = some t' := by
    intro th hth t' ht'
    by_cases htt : t' = t
    · rw [htt] at ht'; simp only [upd_same] at ht'; rw [hth] at ht'; cases ht'
    · rw [upd_other _ _ _ _ htt] at ht'; exact hi.slHeld t' ht'
  cases hprog : (s.thr t).prog with
  | nil => rw [hprog] at hs; cases hs
  | cons op rest =>
    rw [hprog] at hs
    cases op with
    | accAcquire =>
      simp only at hs
      split at hs
      · cases hs
        exact inv_outside hi t (some t) s.dlock s.slock s.act ⟨rest, .idle⟩ hu rfl (keepS _ rfl) hi.actMono 1
      · split at hs
        · cases hs
          exact inv_outside hi t (some t) s.dlock s.slock s.act ⟨rest, .idle⟩ hu rfl (keepS _ rfl) hi.actMono (s.adepth + 1)
        · cases hs
    | accRelease =>
      simp only at hs
      split at hs
      · cases hs
        exact inv_outside hi t _ s.dlock s.slock s.act ⟨rest, .idle⟩ hu rfl (keepS _ rfl) hi.actMono (s.adepth - 1)
      · cases hs
    | reqAcquire k =>
      simp only at hs
      split at hs
      · cases hs
        exact inv_outside hi t s.alock (some t) s.slock s.act ⟨rest, .idle⟩ hu rfl (keepS _ rfl) hi.actMono
      · cases hs
    | reqRelease =>
      simp only at hs
      split at hs
      · cases hs
        exact inv_outside hi t s.alock none s.slock s.act ⟨rest, .idle⟩ hu rfl (keepS _ rfl) hi.actMono
      · cases hs
    | activate k ps =>
      simp only at hs
      split at hs
      · cases hs
        exact inv_outside hi t s.alock (some t) s.slock s.act ⟨rest, .actD k ps⟩ hu rfl (keepS _ rfl) hi.actMono
      · cases hs
    | announce p ev ts =>
      simp only at hs
      split at hs
      · rename_i hl
        cases hs
        have h2 := hi.unlocked hl
        refine ⟨?_, hi.actMono, hi.seenOk, ?_, (fun h => by cases h), ?_⟩
        · exact keepS _ rfl
        · intro t' ht'
          by_cases htt : t' = t
          · rw [htt]
          · simp only [upd_other _ _ _ _ htt] at ht'
            have := hi.owner t' ht'
            rw [hl] at this; cases this
        · intro t0 ht0
          cases ht0
          simp only [upd_same]
          refine ⟨rfl, fun q _ => (clean_frame q rfl rfl rfl rfl).2 (h2 q), ?_⟩
          intro p' hp'
          simp only [pcPid, Option.some.injEq] at hp'
          subst hp'
          simp only [Mid]
          exact ⟨(h2 p).1, (h2 p).2⟩
      · cases hs

/-- the new pc does not hold the subscription lock -/
macro "noS" : tactic => `(tactic| (
  intro h
  simp only [setPc_pc] at h
  first
  | (simp [holdsS] at h; done)
  | (split at h <;> simp [holdsS] at h)))

theorem inv_step {c : Cfg V E} {init : Pid → Entry V E} {s s' : Sys V E} (hn : c.conns.Nodup)
    (hi : Inv c init s) (t : Tid) (hs : step c s t = some s') : Inv c init s' := by
  unfold step at hs
  cases hpc : (s.thr t).pc with
  | idle => rw [hpc] at hs; exact inv_stepIdle hi t hpc hs
  | locked p ev ts =>
    rw [hpc] at hs; simp only [Option.some.injEq] at hs; subst hs
    obtain ⟨hlk, hclean, hmid⟩ := inv_mid hi t p (by rw [hpc]; rfl)
    rw [hpc] at hmid
    refine inv_inner hi t p hlk hclean hlk rfl rfl rfl
      (slHeld_frame hi.slHeld t rfl (fun t' h => setPc_pc_other _ _ _ _ h) (by noS))
      (fun t' h => setPc_pc_other _ _ _ _ h) (fun q _ => rfl)
      (fun k q _ => rfl) (by simp [pcPid]) (fun k d hd => hi.seenOk k p d hd) ?_
    simp only [setPc_pc, Mid] at hmid ⊢
    exact hmid
  | timed p now r =>
    rw [hpc] at hs
    obtain ⟨hlk, hclean, hmid⟩ := inv_mid hi t p (by rw [hpc]; rfl)
    rw [hpc] at hmid
    simp only [Mid] at hmid
    cases r with
    | val v =>
      simp only [Option.some.injEq] at hs; subst hs
      refine inv_inner hi t p hlk hclean hlk rfl rfl rfl
        (slHeld_frame hi.slHeld t rfl (fun t' h => setPc_pc_other _ _ _ _ h) (by noS))
        (fun t' h => setPc_pc_other _ _ _ _ h) (fun q _ => rfl)
        (fun k q _ => rfl) (by simp [pcPid]) (fun k d hd => hi.seenOk k p d hd) ?_
      simp only [setPc_pc, Mid]
      exact ⟨hmid.1, by rw [hmid.1], hmid.2⟩
    | err x =>
      simp only [Option.some.injEq] at hs; subst hs
      refine inv_inner hi t p hlk hclean hlk rfl rfl rfl
        (slHeld_frame hi.slHeld t rfl (fun t' h => setPc_pc_other _ _ _ _ h) (by noS))
        (fun t' h => setPc_pc_other _ _ _ _ h) (fun q _ => rfl)
        (fun k q _ => rfl) (by simp only [setPc_pc]; split <;> simp [pcPid]) (fun k d hd => hi.seenOk k p d hd) ?_
      simp only [setPc_pc, setPc_entries]
      rw [hmid.1]
      split
      · rename_i he
        have hd : emits c.o (seqRun c init s p).entry now (.err x) = false := by simp [emits, he]
        simp only [Mid, announceR_skip _ _ _ _ hd, storeValue, plog_setPc]
        exact ⟨trivial, by simpa using hmid.2⟩
      · rename_i he
        simp only [Mid, storeValue]
        exact ⟨trivial, by simp [emits, he], hmid.2⟩
  | compared p now v chg =>
    rw [hpc] at hs; simp only [Option.some.injEq] at hs; subst hs
    obtain ⟨hlk, hclean, hmid⟩ := inv_mid hi t p (by rw [hpc]; rfl)
    rw [hpc] at hmid
    simp only [Mid] at hmid
    refine inv_inner hi t p hlk hclean hlk rfl rfl rfl
      (slHeld_frame hi.slHeld t rfl (fun t' h => setPc_pc_other _ _ _ _ h) (by noS))
      (fun t' h => setPc_pc_other _ _ _ _ h)
      (fun q hq => setEntry_other _ _ _ _ hq) (fun k q _ => rfl) (by simp [pcPid])
      (fun k d hd => hi.seenOk k p d hd) ?_
    simp only [setPc_pc, setPc_entries, setEntry_same, Mid]
    exact ⟨by rw [hmid.1], hmid.2.1, hmid.2.2⟩
  | stored p now v chg =>
    rw [hpc] at hs; simp only [Option.some.injEq] at hs; subst hs
    obtain ⟨hlk, hclean, hmid⟩ := inv_mid hi t p (by rw [hpc]; rfl)
    rw [hpc] at hmid
    simp only [Mid] at hmid
    refine inv_inner hi t p hlk hclean hlk rfl rfl rfl
      (slHeld_frame hi.slHeld t rfl (fun t' h => setPc_pc_other _ _ _ _ h) (by noS))
      (fun t' h => setPc_pc_other _ _ _ _ h) (fun q _ => rfl)
      (fun k q _ => rfl) (by simp only [setPc_pc]; split <;> simp [pcPid]) (fun k d hd => hi.seenOk k p d hd) ?_
    simp only [setPc_pc, setPc_entries]
    obtain ⟨h1, h2, h3⟩ := hmid
    rw [h1, h2]
    have hts : (storeValue (seqRun c init s p).entry (.val v)).timestamp = (seqRun c init s p).entry.timestamp := rfl
    have hw : (storeValue (seqRun c init s p).entry (.val v)).window = (seqRun c init s p).entry.window := rfl
    rw [hts, hw]
    split
    · rename_i hc
      have hd : emits c.o (seqRun c init s p).entry now (.val v) = false := by
        simp only [Bool.and_eq_true, Bool.not_eq_eq_eq_not, Bool.not_true, decide_eq_true_eq] at hc
        simp [emits, hc.1, hc.2]
      simp only [Mid, announceR_skip _ _ _ _ hd, plog_setPc]
      exact ⟨trivial, by simpa using h3⟩
    · rename_i hc
      have hd : emits c.o (seqRun c init s p).entry now (.val v) = true := by
        simp only [Bool.and_eq_true, Bool.not_eq_eq_eq_not, Bool.not_true, decide_eq_true_eq, not_and] at hc
        simp only [emits, Bool.or_eq_true, Bool.not_eq_eq_eq_not, Bool.not_true, decide_eq_false_iff_not]
        by_cases hch : changed c.o (seqRun c init s p).entry v = true
        · exact Or.inl hch
        · exact Or.inr (hc (by simpa using hch))
      simp only [Mid]
      exact ⟨trivial, hd, h3⟩
  | go p now r =>
    rw [hpc] at hs; simp only [Option.some.injEq] at hs; subst hs
    obtain ⟨hlk, hclean, hmid⟩ := inv_mid hi t p (by rw [hpc]; rfl)
    rw [hpc] at hmid
    simp only [Mid] at hmid
    refine inv_inner hi t p hlk hclean hlk rfl rfl rfl
      (slHeld_frame hi.slHeld t rfl (fun t' h => setPc_pc_other _ _ _ _ h) (by noS))
      (fun t' h => setPc_pc_other _ _ _ _ h)
      (fun q hq => setEntry_other _ _ _ _ hq) (fun k q _ => rfl) (by simp [pcPid])
      (fun k d hd => hi.seenOk k p d hd) ?_
    simp only [setPc_pc, setPc_entries, setEntry_same, Mid]
    exact ⟨by rw [hmid.1], hmid.2.1, hmid.2.2⟩
  | stamped p now r =>
    rw [hpc] at hs; simp only [Option.some.injEq] at hs; subst hs
    obtain ⟨hlk, hclean, hmid⟩ := inv_mid hi t p (by rw [hpc]; rfl)
    rw [hpc] at hmid
    simp only [Mid] at hmid
    refine inv_inner hi t p hlk hclean hlk rfl rfl rfl
      (slHeld_frame hi.slHeld t rfl (fun t' h => setPc_pc_other _ _ _ _ h) (by noS))
      (fun t' h => setPc_pc_other _ _ _ _ h)
      (fun q hq => setEntry_other _ _ _ _ hq) (fun k q _ => rfl) (by simp [pcPid])
      (fun k d hd => hi.seenOk k p d hd) ?_
    simp only [setPc_pc, setPc_entries, setEntry_same, Mid]
    exact ⟨by rw [hmid.1]; rfl, hmid.2.1, hmid.2.2⟩
  | errset p now r =>
    rw [hpc] at hs; simp only [Option.some.injEq] at hs; subst hs
    obtain ⟨hlk, hclean, hmid⟩ := inv_mid hi t p (by rw [hpc]; rfl)
    rw [hpc] at hmid
    simp only [Mid] at hmid
    refine inv_inner hi t p hlk hclean hlk rfl rfl rfl
      (slHeld_frame hi.slHeld t rfl (fun t' h => setPc_pc_other _ _ _ _ h) (by noS))
      (fun t' h => setPc_pc_other _ _ _ _ h) (fun q _ => rfl)
      (fun k q _ => rfl) (by simp [pcPid]) (fun k d hd => hi.seenOk k p d hd) ?_
    simp only [setPc_pc, setPc_entries, Mid]
    exact ⟨hmid.1, hmid.2.1, trivial, hmid.2.2⟩
  | built p now r m =>
    rw [hpc] at hs
    obtain ⟨hlk, hclean, hmid⟩ := inv_mid hi t p (by rw [hpc]; rfl)
    rw [hpc] at hmid
    simp only [Mid] at hmid
    simp only at hs
    split at hs
    · rename_i hfree
      simp only [Option.some.injEq] at hs; subst hs
      refine inv_inner hi t p hlk hclean hlk rfl rfl rfl
        (slHeld_acq hi.slHeld t hfree rfl (fun t' h => setPc_pc_other _ _ _ _ h))
        (fun t' h => setPc_pc_other _ _ _ _ h)
        (fun q _ => rfl) (fun k q _ => rfl) (by simp [pcPid]) (fun k d hd => hi.seenOk k p d hd) ?_
      simp only [setPc_pc, setPc_entries, Mid]
      refine ⟨hmid.1, hmid.2.1, hmid.2.2.1, [], ?_, ?_, by simp, ?_⟩
      · simp only [List.nil_append, listeners]; exact List.Pairwise.filter _ hn
      · intro k hk
        simp only [List.nil_append, listeners, List.mem_filter]
        exact ⟨hk.1, hi.actMono k p hk.2.1⟩
      · intro k _ hk; exact hmid.2.2.2 k hk
    · cases hs
  | sending p now r m rest =>
    rw [hpc] at hs
    obtain ⟨hlk, hclean, hmid⟩ := inv_mid hi t p (by rw [hpc]; rfl)
    rw [hpc] at hmid
    simp only [Mid] at hmid
    obtain ⟨h1, h2, h3, done, hnd, hall, h5, h6⟩ := hmid
    have hown : s.slock = some t := hi.slHeld t (by rw [hpc]; rfl)
    cases rest with
    | nil =>
      simp only [Option.some.injEq] at hs; subst hs
      refine inv_inner hi t p hlk hclean hlk rfl rfl rfl
        (slHeld_rel hi.slHeld t hown (fun t' h => setPc_pc_other _ _ _ _ h) (by simp [holdsS]))
        (fun t' h => setPc_pc_other _ _ _ _ h) (fun q _ => rfl)
        (fun k q _ => rfl) (by simp [pcPid]) (fun k d hd => hi.seenOk k p d hd) ?_
      simp only [setPc_pc, setPc_entries, Mid, announceR_go _ _ _ _ h2, plog_setPc]
      refine ⟨h1, fun k hk => ?_⟩
      have hkd := hall k hk
      simp only [List.append_nil] at hkd
      show plog s k p = _
      rw [h5 k hkd hk, h3, h1]; rfl
    | cons k rest =>
      simp only [Option.some.injEq] at hs; subst hs
      have hk_done : k ∉ done := by
        intro hk
        have := (List.nodup_append.1 hnd).2.2 k hk k (by simp)
        exact this rfl
      have hk_rest : k ∉ rest := by
        have := (List.nodup_append.1 hnd).2.1
        exact (List.nodup_cons.1 this).1
      refine inv_inner hi t p hlk hclean hlk rfl rfl rfl
        (slHeld_frame hi.slHeld t rfl (fun t' h => setPc_pc_other _ _ _ _ h) (fun _ => by rw [hpc]; rfl))
        (fun t' h => setPc_pc_other _ _ _ _ h) (fun q _ => rfl)
        (fun k' q hq => deliver_other_param _ _ _ _ _ _ hq) (by simp [pcPid]) ?_ ?_
      · intro k' d hd
        simp only [setPc_logs] at hd
        by_cases hk : k' = k
        · subst hk
          rw [deliver_same, List.mem_append] at hd
          rcases hd with hd | hd
          · exact hi.seenOk _ p d hd
          · simp only [List.mem_singleton] at hd
            subst hd
            simp only [h3, mkMsg]
        · rw [deliver_other_conn _ _ _ _ _ _ hk] at hd
          exact hi.seenOk k' p d hd
      · simp only [setPc_pc, setPc_entries, deliver_entries, Mid]
        refine ⟨h1, h2, h3, done ++ [k], by simpa using hnd, fun k' hk' => by simpa using hall k' hk', ?_, ?_⟩
        · intro k' hk' hst
          simp only [List.mem_append, List.mem_singleton] at hk'
          rcases hk' with hk' | hk'
          · have hne : k' ≠ k := fun h => hk_done (h ▸ hk')
            have := h5 k' hk' hst
            simp only [plog, setPc_logs] at this ⊢
            rw [deliver_other_conn _ _ _ _ _ _ hne]; exact this
          · subst hk'
            have := h6 k' (by simp) hst
            simp only [plog, setPc_logs, deliver_same, List.map_append, List.map_cons, List.map_nil] at this ⊢
            rw [this]
        · intro k' hk' hst
          have hne : k' ≠ k := fun h => hk_rest (h ▸ hk')
          have := h6 k' (by simp [hk']) hst
          simp only [plog, setPc_logs] at this ⊢
          rw [deliver_other_conn _ _ _ _ _ _ hne]; exact this
  | leaving p now r =>
    rw [hpc] at hs; simp only [Option.some.injEq] at hs; subst hs
    obtain ⟨hlk, hclean, hmid⟩ := inv_mid hi t p (by rw [hpc]; rfl)
    rw [hpc] at hmid
    simp only [Mid] at hmid
    refine ⟨slHeld_frame hi.slHeld t rfl (fun t' h => setPc_pc_other _ _ _ _ h) (by noS), hi.actMono, hi.seenOk,
      ?_, ?_, fun t0 h => by cases h⟩
    · intro t' ht'
      by_cases h : t' = t
      · rw [h] at ht'; simp [inU] at ht'
      · rw [setPc_pc_other _ _ _ _ h] at ht'
        have := hi.owner t' ht'
        rw [hlk] at this
        exact absurd (Option.some.inj this).symm h
    · intro _ q
      by_cases hq : q = p
      · subst hq
        unfold Clean Stat seqRun plog
        simp only [setPc_entries, setPc_logs, setPc_hist, setPc_snapped, upd_same, runR_snoc]
        exact ⟨hmid.1, hmid.2⟩
      · have := hclean q hq
        unfold Clean Stat seqRun plog at this ⊢
        simp only [setPc_entries, setPc_logs, setPc_hist, setPc_snapped, upd_other _ _ _ _ hq]
        exact this
  | actD k ps =>
    rw [hpc] at hs
    simp only at hs
    split at hs
    · rename_i hfree
      simp only [Option.some.injEq] at hs; subst hs
      refine inv_outside hi t s.alock s.dlock (some t) s.act ⟨(s.thr t).prog, .actS k ps⟩ (by rw [hpc]; rfl) rfl ?_
        hi.actMono
      intro t' ht'
      by_cases htt : t' = t
      · rw [htt]
      · rw [upd_other _ _ _ _ htt] at ht'
        have := hi.slHeld t' ht'
        rw [hfree] at this; cases this
    · cases hs
  | actS k ps =>
    rw [hpc] at hs; simp only [Option.some.injEq] at hs; subst hs
    have hown : s.slock = some t := hi.slHeld t (by rw [hpc]; rfl)
    refine inv_outside hi t s.alock s.dlock none (subscribe s.act k ps) ⟨(s.thr t).prog, .actR k ps⟩ (by rw [hpc]; rfl)
      rfl ?_ ?_
    · intro t' ht'
      by_cases htt : t' = t
      · rw [htt] at ht'; simp [holdsS] at ht'
      · rw [upd_other _ _ _ _ htt] at ht'
        have := hi.slHeld t' ht'
        rw [hown] at this
        exact absurd (Option.some.inj this).symm htt
    · intro k' p h
      simp [subscribe, hi.actMono k' p h]
  | actR k ps =>
    rw [hpc] at hs
    simp only at hs
    split at hs
    · rename_i hl
      simp only [Option.some.injEq] at hs; subst hs
      have h2 := hi.unlocked hl
      refine ⟨slHeld_frame hi.slHeld t rfl (fun t' h => setPc_pc_other _ _ _ _ h) (by noS), hi.actMono, hi.seenOk,
        ?_, (fun h => by cases h), ?_⟩
      · intro t' ht'
        by_cases htt : t' = t
        · rw [htt]; rfl
        · rw [setPc_pc_other _ _ _ _ htt] at ht'
          have := hi.owner t' ht'
          rw [hl] at this; cases this
      · intro t0 ht0
        cases ht0
        simp only [setPc_pc]
        exact ⟨rfl, fun q _ => (clean_frame q rfl rfl rfl rfl).2 (h2 q), fun p' hp' => by simp [pcPid] at hp'⟩
    · cases hs
  | snap k rest =>
    rw [hpc] at hs
    have hlk : s.lock = some t := hi.owner t (by rw [hpc]; rfl)
    obtain ⟨_, hcl, _⟩ := hi.locked t hlk
    have hclean : ∀ q, Clean c init s q := fun q => hcl q (by rw [hpc]; simp [pcPid])
    cases rest with
    | nil =>
      simp only [Option.some.injEq] at hs; subst hs
      refine ⟨slHeld_frame hi.slHeld t rfl (fun t' h => setPc_pc_other _ _ _ _ h) (by noS), hi.actMono, hi.seenOk,
        ?_, fun _ q => (clean_frame q rfl rfl rfl rfl).2 (hclean q), fun t0 h => by cases h⟩
      intro t' ht'
      by_cases h : t' = t
      · rw [h] at ht'; simp [inU] at ht'
      · rw [setPc_pc_other _ _ _ _ h] at ht'
        have := hi.owner t' ht'
        rw [hlk] at this
        exact absurd (Option.some.inj this).symm h
    | cons p rest =>
      simp only [Option.some.injEq] at hs; subst hs
      have hsn : ∀ k' q, ((s.deliver k p (mkMsg (s.entries p))).markSnapped k p).snapped k' q =
          (s.snapped k' q || (k' == k && q == p)) := fun _ _ => rfl
      have hlogs : ((s.deliver k p (mkMsg (s.entries p))).markSnapped k p).logs = (s.deliver k p (mkMsg (s.entries p))).logs :=
        rfl
      refine ⟨slHeld_frame hi.slHeld t rfl (fun t' h => setPc_pc_other _ _ _ _ h) (by noS), hi.actMono, ?_, ?_,
        (fun h => by rw [show (((s.deliver k p (mkMsg (s.entries p))).markSnapped k p).setPc t (.snap k rest)).lock = s.lock
          from rfl, hlk] at h; cases h), ?_⟩
      · intro k' q d hd
        simp only [setPc_logs, hlogs] at hd
        by_cases hq : q = p
        · subst hq
          by_cases hk : k' = k
          · subst hk
            rw [deliver_same, List.mem_append] at hd
            rcases hd with hd | hd
            · exact hi.seenOk _ _ d hd
            · simp only [List.mem_singleton] at hd
              subst hd; rfl
          · rw [deliver_other_conn _ _ _ _ _ _ hk] at hd
            exact hi.seenOk k' q d hd
        · rw [deliver_other_param _ _ _ _ _ _ hq] at hd
          exact hi.seenOk k' q d hd
      · intro t' ht'
        show s.lock = some t'
        by_cases htt : t' = t
        · rw [htt]; exact hlk
        · rw [setPc_pc_other _ _ _ _ htt] at ht'
          exact hi.owner t' ht'
      · intro t0 ht0
        have : s.lock = some t0 := ht0
        rw [hlk] at this; cases this
        simp only [setPc_pc]
        refine ⟨rfl, fun q _ => ?_, fun p' hp' => by simp [pcPid] at hp'⟩
        have hq := hclean q
        unfold Clean Stat seqRun plog at hq ⊢
        refine ⟨hq.1, fun k' hk' => ?_⟩
        simp only [setPc_snapped, hsn, Bool.or_eq_false_iff] at hk'
        have hold := hq.2 k' ⟨hk'.1, hk'.2.1, hk'.2.2.1⟩
        simp only [setPc_logs, hlogs]
        by_cases hqp : q = p
        · subst hqp
          have hne : k' ≠ k := by
            intro h; have := hk'.2.2.2; simp [h] at this
          rw [deliver_other_conn _ _ _ _ _ _ hne]; exact hold
        · rw [deliver_other_param _ _ _ _ _ _ hqp]; exact hold
  | actE =>
    rw [hpc] at hs; simp only [Option.some.injEq] at hs; subst hs
    refine inv_outside hi t s.alock none s.slock s.act ⟨(s.thr t).prog, .idle⟩ (by rw [hpc]; rfl) rfl ?_ hi.actMono
    intro t' ht'
    by_cases htt : t' = t
    · rw [htt] at ht'; simp [holdsS] at ht'
    · rw [upd_other _ _ _ _ htt] at ht'; exact hi.slHeld t' ht'

/-- the invariant holds in every reachable state -/
theorem inv_reach {c : Cfg V E} {init : Pid → Entry V E} {progs : Tid → List (Op V E)} {clock : Int}
    {s : Sys V E} (hn : c.conns.Nodup) (hr : Reach c (Sys.init init progs clock c.act0) s) : Inv c init s := by
  induction hr with
  | start => exact inv_init c init progs clock
  | next t _ hs ih => exact inv_step hn ih t hs

theorem reach_of_runSched {V E : Type} [DecidableEq E] (c : Cfg V E) (s0 s s' : Sys V E) (hr : Reach c s0 s)
    (ts : List Tid) (h : runSched c s ts = some s') : Reach c s0 s' := by
  induction ts generalizing s with
  | nil => simp [runSched] at h; exact h ▸ hr
  | cons t ts ih =>
    simp only [runSched] at h
    split at h
    · rename_i s1 hs; exact ih s1 (Reach.next t hr hs) h
    · cases h



/-! ### the completed calls are an interleaving of the threads' programs -/

/-- the calls of the funnel a program makes: parameter and resolved value-or-error, in program order -/
def annR (o : Oracle V E) : List (Op V E) → List (Pid × VE V E)
  | [] => []
  | .announce p ev _ :: rest => (p, resolve o ev) :: annR o rest
  | .accAcquire :: rest => annR o rest
  | .accRelease :: rest => annR o rest
  | .activate _ _ :: rest => annR o rest
  | .reqAcquire _ :: rest => annR o rest
  | .reqRelease :: rest => annR o rest

/-- the call a thread is in the middle of -/
def inflight (o : Oracle V E) : PC V E → List (Pid × VE V E)
  | .idle => []
  | .locked p ev _ => [(p, resolve o ev)]
  | .timed p _ r => [(p, r)]
  | .compared p _ v _ => [(p, .val v)]
  | .stored p _ v _ => [(p, .val v)]
  | .go p _ r => [(p, r)]
  | .stamped p _ r => [(p, r)]
  | .errset p _ r => [(p, r)]
  | .built p _ r _ => [(p, r)]
  | .sending p _ r _ _ => [(p, r)]
  | .leaving p _ r => [(p, r)]
  | .actD _ _ => []
  | .actS _ _ => []
  | .actR _ _ => []
  | .snap _ _ => []
  | .actE => []

/-- the completed calls of thread `t`, in the order of the global history -/
def doneBy (t : Tid) (g : List (GItem V E)) : List (Pid × VE V E) :=
  (g.filter (fun x => x.tid == t)).map (fun x => (x.pid, x.r))

/-- the completed calls on parameter `p`, in the order of the global history -/
def onParam (p : Pid) (g : List (GItem V E)) : List (REv V E) :=
  (g.filter (fun x => x.pid == p)).map (fun x => ⟨x.now, x.r⟩)

structure Shuf (c : Cfg V E) (progs : Tid → List (Op V E)) (s : Sys V E) : Prop where
  thread : ∀ t, doneBy t s.ghist ++ (inflight c.o (s.thr t).pc ++ annR c.o (s.thr t).prog) = annR c.o (progs t)
  proj : ∀ p, s.hist p = onParam p s.ghist

theorem shuf_init (c : Cfg V E) (init : Pid → Entry V E) (progs : Tid → List (Op V E)) (clock : Int) :
    Shuf c progs (Sys.init init progs clock c.act0) :=
  ⟨fun t => by simp [Sys.init, doneBy, inflight], fun p => by simp [Sys.init, onParam]⟩

theorem shuf_frame {c : Cfg V E} {progs : Tid → List (Op V E)} {s s' : Sys V E} (h : Shuf c progs s) (t : Tid)
    (hg : s'.ghist = s.ghist) (hh : s'.hist = s.hist) (hother : ∀ t', t' ≠ t → s'.thr t' = s.thr t')
    (ht : inflight c.o (s'.thr t).pc ++ annR c.o (s'.thr t).prog =
          inflight c.o (s.thr t).pc ++ annR c.o (s.thr t).prog) : Shuf c progs s' := by
  refine ⟨fun t' => ?_, fun p => by rw [hh, hg]; exact h.proj p⟩
  by_cases htt : t' = t
  · subst htt; rw [hg, ht]; exact h.thread t'
  · rw [hg, hother t' htt]; exact h.thread t'

theorem thr_setPc_same (s : Sys V E) (t : Tid) (pc : PC V E) : (s.setPc t pc).thr t = ⟨(s.thr t).prog, pc⟩ := by
  simp [Sys.setPc]

theorem thr_setPc_other (s : Sys V E) (t t' : Tid) (pc : PC V E) (h : t' ≠ t) : (s.setPc t pc).thr t' = s.thr t' := by
  simp [Sys.setPc, upd_other _ _ _ _ h]

theorem shuf_step {c : Cfg V E} {progs : Tid → List (Op V E)} {s s' : Sys V E} (h : Shuf c progs s) (t : Tid)
    (hs : step c s t = some s') : Shuf c progs s' := by
  unfold step at hs
  cases hpc : (s.thr t).pc with
  | idle =>
    rw [hpc] at hs
    unfold stepIdle at hs
    cases hprog : (s.thr t).prog with
    | nil => rw [hprog] at hs; cases hs
    | cons op rest =>
      rw [hprog] at hs
      cases op with
      | accAcquire =>
        simp only at hs
        split at hs
        · cases hs
          exact shuf_frame h t rfl rfl (fun t' ht' => upd_other _ _ _ _ ht') (by simp [hpc, hprog, annR, inflight])
        · split at hs
          · cases hs
            exact shuf_frame h t rfl rfl (fun t' ht' => upd_other _ _ _ _ ht') (by simp [hpc, hprog, annR, inflight])
          · cases hs
      | reqAcquire k =>
        simp only at hs
        split at hs
        · cases hs
          exact shuf_frame h t rfl rfl (fun t' ht' => upd_other _ _ _ _ ht') (by simp [hpc, hprog, annR, inflight])
        · cases hs
      | reqRelease =>
        simp only at hs
        split at hs
        · cases hs
          exact shuf_frame h t rfl rfl (fun t' ht' => upd_other _ _ _ _ ht') (by simp [hpc, hprog, annR, inflight])
        · cases hs
      | accRelease =>
        simp only at hs
        split at hs
        · cases hs
          exact shuf_frame h t rfl rfl (fun t' ht' => upd_other _ _ _ _ ht') (by simp [hpc, hprog, annR, inflight])
        · cases hs
      | announce p ev ts =>
        simp only at hs
        split at hs
        · cases hs
          exact shuf_frame h t rfl rfl (fun t' ht' => upd_other _ _ _ _ ht') (by simp [hpc, hprog, annR, inflight])
        · cases hs
      | activate k ps =>
        simp only at hs
        split at hs
        · cases hs
          exact shuf_frame h t rfl rfl (fun t' ht' => upd_other _ _ _ _ ht') (by simp [hpc, hprog, annR, inflight])
        · cases hs
  | locked p ev ts =>
    rw [hpc] at hs; simp only [Option.some.injEq] at hs; subst hs
    exact shuf_frame h t rfl rfl (fun t' ht' => thr_setPc_other _ _ _ _ ht') (by rw [thr_setPc_same]; simp [hpc, inflight])
  | timed p now r =>
    rw [hpc] at hs
    cases r with
    | val v =>
      simp only [Option.some.injEq] at hs; subst hs
      exact shuf_frame h t rfl rfl (fun t' ht' => thr_setPc_other _ _ _ _ ht') (by rw [thr_setPc_same]; simp [hpc, inflight])
    | err x =>
      simp only [Option.some.injEq] at hs; subst hs
      exact shuf_frame h t rfl rfl (fun t' ht' => thr_setPc_other _ _ _ _ ht')
        (by rw [thr_setPc_same]; simp only [hpc]; split <;> simp [inflight])
  | compared p now v chg =>
    rw [hpc] at hs; simp only [Option.some.injEq] at hs; subst hs
    exact shuf_frame h t rfl rfl (fun t' ht' => thr_setPc_other _ _ _ _ ht') (by rw [thr_setPc_same]; simp [hpc, inflight])
  | stored p now v chg =>
    rw [hpc] at hs; simp only [Option.some.injEq] at hs; subst hs
    exact shuf_frame h t rfl rfl (fun t' ht' => thr_setPc_other _ _ _ _ ht')
      (by rw [thr_setPc_same]; simp only [hpc]; split <;> simp [inflight])
  | go p now r =>
    rw [hpc] at hs; simp only [Option.some.injEq] at hs; subst hs
    exact shuf_frame h t rfl rfl (fun t' ht' => thr_setPc_other _ _ _ _ ht') (by rw [thr_setPc_same]; simp [hpc, inflight])
  | stamped p now r =>
    rw [hpc] at hs; simp only [Option.some.injEq] at hs; subst hs
    exact shuf_frame h t rfl rfl (fun t' ht' => thr_setPc_other _ _ _ _ ht') (by rw [thr_setPc_same]; simp [hpc, inflight])
  | errset p now r =>
    rw [hpc] at hs; simp only [Option.some.injEq] at hs; subst hs
    exact shuf_frame h t rfl rfl (fun t' ht' => thr_setPc_other _ _ _ _ ht') (by rw [thr_setPc_same]; simp [hpc, inflight])
  | built p now r m =>
    rw [hpc] at hs
    simp only at hs
    split at hs
    · simp only [Option.some.injEq] at hs; subst hs
      exact shuf_frame h t rfl rfl (fun t' ht' => thr_setPc_other _ _ _ _ ht') (by rw [thr_setPc_same]; simp [hpc, inflight])
    · cases hs
  | sending p now r m rest =>
    rw [hpc] at hs
    cases rest with
    | nil =>
      simp only [Option.some.injEq] at hs; subst hs
      exact shuf_frame h t rfl rfl (fun t' ht' => thr_setPc_other _ _ _ _ ht') (by rw [thr_setPc_same]; simp [hpc, inflight])
    | cons k rest =>
      simp only [Option.some.injEq] at hs; subst hs
      exact shuf_frame h t rfl rfl (fun t' ht' => thr_setPc_other _ _ _ _ ht') (by rw [thr_setPc_same]; simp [hpc, inflight])
  | leaving p now r =>
    rw [hpc] at hs; simp only [Option.some.injEq] at hs; subst hs
    refine ⟨fun t' => ?_, fun q => ?_⟩
    · by_cases htt : t' = t
      · subst htt
        have := h.thread t'
        rw [hpc] at this
        rw [thr_setPc_same]
        simp only [setPc_ghist, doneBy, List.filter_append, List.map_append, inflight, List.nil_append] at this ⊢
        simpa [doneBy, inflight] using this
      · have := h.thread t'
        rw [thr_setPc_other _ _ _ _ htt]
        have hne : (t == t') = false := by simpa using (fun h => htt h.symm)
        simpa [doneBy, List.filter_append, hne] using this
    · by_cases hq : q = p
      · subst hq
        simp [onParam, List.filter_append, h.proj q]
      · have hne : (p == q) = false := by simpa using (fun h => hq h.symm)
        simp [onParam, List.filter_append, hne, upd_other _ _ _ _ hq, h.proj q]

  | actD k ps =>
    rw [hpc] at hs
    simp only at hs
    split at hs
    · simp only [Option.some.injEq] at hs; subst hs
      exact shuf_frame h t rfl rfl (fun t' ht' => thr_setPc_other _ _ _ _ ht') (by rw [thr_setPc_same]; simp [hpc, inflight])
    · cases hs
  | actS k ps =>
    rw [hpc] at hs; simp only [Option.some.injEq] at hs; subst hs
    exact shuf_frame h t rfl rfl (fun t' ht' => thr_setPc_other _ _ _ _ ht') (by rw [thr_setPc_same]; simp [hpc, inflight])
  | actR k ps =>
    rw [hpc] at hs
    simp only at hs
    split at hs
    · simp only [Option.some.injEq] at hs; subst hs
      exact shuf_frame h t rfl rfl (fun t' ht' => thr_setPc_other _ _ _ _ ht') (by rw [thr_setPc_same]; simp [hpc, inflight])
    · cases hs
  | snap k rest =>
    rw [hpc] at hs
    cases rest with
    | nil =>
      simp only [Option.some.injEq] at hs; subst hs
      exact shuf_frame h t rfl rfl (fun t' ht' => thr_setPc_other _ _ _ _ ht') (by rw [thr_setPc_same]; simp [hpc, inflight])
    | cons p rest =>
      simp only [Option.some.injEq] at hs; subst hs
      exact shuf_frame h t rfl rfl (fun t' ht' => thr_setPc_other _ _ _ _ ht') (by rw [thr_setPc_same]; simp [hpc, inflight])
  | actE =>
    rw [hpc] at hs; simp only [Option.some.injEq] at hs; subst hs
    exact shuf_frame h t rfl rfl (fun t' ht' => thr_setPc_other _ _ _ _ ht') (by rw [thr_setPc_same]; simp [hpc, inflight])

theorem shuf_reach {c : Cfg V E} {init : Pid → Entry V E} {progs : Tid → List (Op V E)} {clock : Int}
    {s : Sys V E} (hr : Reach c (Sys.init init progs clock c.act0) s) : Shuf c progs s := by
  induction hr with
  | start => exact shuf_init c init progs clock
  | next t _ hs ih => exact shuf_step ih t hs

/-! ### the calls of the funnel made by wrappers and requests -/

theorem annR_append (o : Oracle V E) (a b : List (Op V E)) : annR o (a ++ b) = annR o a ++ annR o b := by
  induction a with
  | nil => rfl
  | cons op rest ih => cases op <;> simp [annR, ih]

theorem annR_announces (o : Oracle V E) (p : Pid) (evs : List (Ev V E)) :
    annR o (evs.map (fun ev => Op.announce p ev .absent)) = evs.map (fun ev => (p, resolve o ev)) := by
  induction evs with
  | nil => rfl
  | cons ev rest ih => simp [annR, ih]

theorem annR_guarded (o : Oracle V E) (p : Pid) (evs : List (Ev V E)) :
    annR o (guarded p evs) = evs.map (fun ev => (p, resolve o ev)) := by
  simp [guarded, annR_append, annR_announces, annR]

/-- the calls of the funnel the program of a `change` request makes are those of `changeEvs`, all on parameter `p` -/
theorem annR_changeOps (o : Oracle V E) (k : Cid) (p : Pid) (rq : ChangeReq V) (ck : Bool) (inner : List V)
    (w : WriteRes V) :
    annR o (changeOps o k p rq ck inner w) = (changeEvs o rq ck inner w).map (fun ev => (p, resolve o ev)) := by
  unfold changeOps changeEvs
  by_cases hro : rq.readonly = true
  · simp [hro, changeArg, annR]
  · cases himp : rq.imported with
    | none => simp [himp, changeArg, annR]
    | some v =>
      have hro' : rq.readonly = false := by simpa using hro
      cases hv : changeArg o rq with
      | none => simp [hro', himp, hv, annR_append, annR]
      | some v' => simp [hro', himp, hv, annR_append, annR, annR_guarded]

theorem annR_readReqOps (o : Oracle V E) (k : Cid) (p : Pid) (inner : List V) (res : ReadRes V E) :
    annR o (readReqOps o k p inner res) = (readEvs o inner res).map (fun ev => (p, resolve o ev)) := by
  simp [readReqOps, annR_append, annR, annR_guarded]

theorem annR_doOps (o : Oracle V E) (k : Cid) (p : Pid) (inner : List V) :
    annR o (doOps k p inner : List (Op V E)) = (innerEvs inner).map (fun ev => (p, resolve o ev)) := by
  simp [doOps, annR_append, annR, annR_announces]

end Frappy.UpdateSys
