import FrappyProofs.Lemmas.Update
import FrappyModel.Node.UpdateSys
/-
Invariant of the small-step system: a thread between `acquire` and `release` is the only one past
`acquire`; everything outside its critical section is the result of a sequential run of the completed
calls; inside, the entry and the logs are a known function of the snapshot at `acquire`.
-/
set_option linter.unusedSectionVars false
set_option linter.unusedSimpArgs false
namespace Frappy.UpdateSys
open Frappy.Update

variable {V E : Type} [DecidableEq E]

/-! ### bookkeeping -/

@[simp] theorem upd_same {α : Type} (f : Nat → α) (i : Nat) (a : α) : upd f i a i = a := by simp [upd]
theorem upd_other {α : Type} (f : Nat → α) (i j : Nat) (a : α) (h : j ≠ i) : upd f i a j = f j := by simp [upd, h]

@[simp] theorem setPc_lock (s : Sys V E) (t : Tid) (pc : PC V E) : (s.setPc t pc).lock = s.lock := rfl
@[simp] theorem setPc_entries (s : Sys V E) (t : Tid) (pc : PC V E) : (s.setPc t pc).entries = s.entries := rfl
@[simp] theorem setPc_logs (s : Sys V E) (t : Tid) (pc : PC V E) : (s.setPc t pc).logs = s.logs := rfl
@[simp] theorem setPc_hist (s : Sys V E) (t : Tid) (pc : PC V E) : (s.setPc t pc).hist = s.hist := rfl
@[simp] theorem setPc_slock (s : Sys V E) (t : Tid) (pc : PC V E) : (s.setPc t pc).slock = s.slock := rfl
@[simp] theorem setPc_ghist (s : Sys V E) (t : Tid) (pc : PC V E) : (s.setPc t pc).ghist = s.ghist := rfl
@[simp] theorem setEntry_slock (s : Sys V E) (p : Pid) (e : Entry V E) : (s.setEntry p e).slock = s.slock := rfl
@[simp] theorem deliver_slock (s : Sys V E) (k : Cid) (p : Pid) (m : Msg V E) : (s.deliver k p m).slock = s.slock := rfl
@[simp] theorem setPc_pc (s : Sys V E) (t : Tid) (pc : PC V E) : ((s.setPc t pc).thr t).pc = pc := by
  simp [Sys.setPc]
theorem setPc_pc_other (s : Sys V E) (t t' : Tid) (pc : PC V E) (h : t' ≠ t) :
    ((s.setPc t pc).thr t').pc = (s.thr t').pc := by
  simp [Sys.setPc, upd_other _ _ _ _ h]

@[simp] theorem setEntry_lock (s : Sys V E) (p : Pid) (e : Entry V E) : (s.setEntry p e).lock = s.lock := rfl
@[simp] theorem setEntry_thr (s : Sys V E) (p : Pid) (e : Entry V E) : (s.setEntry p e).thr = s.thr := rfl
@[simp] theorem setEntry_logs (s : Sys V E) (p : Pid) (e : Entry V E) : (s.setEntry p e).logs = s.logs := rfl
@[simp] theorem setEntry_hist (s : Sys V E) (p : Pid) (e : Entry V E) : (s.setEntry p e).hist = s.hist := rfl
@[simp] theorem setEntry_same (s : Sys V E) (p : Pid) (e : Entry V E) : (s.setEntry p e).entries p = e := by
  simp [Sys.setEntry]
theorem setEntry_other (s : Sys V E) (p q : Pid) (e : Entry V E) (h : q ≠ p) :
    (s.setEntry p e).entries q = s.entries q := by
  simp [Sys.setEntry, upd_other _ _ _ _ h]

@[simp] theorem deliver_lock (s : Sys V E) (k : Cid) (p : Pid) (m : Msg V E) : (s.deliver k p m).lock = s.lock := rfl
@[simp] theorem deliver_thr (s : Sys V E) (k : Cid) (p : Pid) (m : Msg V E) : (s.deliver k p m).thr = s.thr := rfl
@[simp] theorem deliver_entries (s : Sys V E) (k : Cid) (p : Pid) (m : Msg V E) :
    (s.deliver k p m).entries = s.entries := rfl
@[simp] theorem deliver_hist (s : Sys V E) (k : Cid) (p : Pid) (m : Msg V E) : (s.deliver k p m).hist = s.hist := rfl
@[simp] theorem deliver_same (s : Sys V E) (k : Cid) (p : Pid) (m : Msg V E) :
    (s.deliver k p m).logs k p = s.logs k p ++ [⟨m, (s.entries p).ve⟩] := by
  simp [Sys.deliver]
theorem deliver_other_conn (s : Sys V E) (k k' : Cid) (p q : Pid) (m : Msg V E) (h : k' ≠ k) :
    (s.deliver k p m).logs k' q = s.logs k' q := by
  simp [Sys.deliver, upd_other _ _ _ _ h]
theorem deliver_other_param (s : Sys V E) (k k' : Cid) (p q : Pid) (m : Msg V E) (h : q ≠ p) :
    (s.deliver k p m).logs k' q = s.logs k' q := by
  by_cases hk : k' = k
  · subst hk; simp [Sys.deliver, upd_other _ _ _ _ h]
  · exact deliver_other_conn s k k' p q m hk

/-! ### the invariant -/

/-- the messages connection `k` received for parameter `p` -/
def plog (s : Sys V E) (k : Cid) (p : Pid) : List (Msg V E) := (s.logs k p).map (·.msg)

@[simp] theorem plog_setPc (s : Sys V E) (t : Tid) (pc : PC V E) (k : Cid) (p : Pid) :
    plog (s.setPc t pc) k p = plog s k p := rfl

/-- the sequential run of the completed calls on parameter `p` -/
def seqRun (c : Cfg V E) (init : Pid → Entry V E) (s : Sys V E) (p : Pid) : Run V E :=
  runR c.o (init p) (s.hist p)

/-- parameter `p` is outside any critical section: entry and logs are those of the sequential run -/
def Clean (c : Cfg V E) (init : Pid → Entry V E) (s : Sys V E) (p : Pid) : Prop :=
  s.entries p = (seqRun c init s p).entry ∧ ∀ k ∈ c.conns, plog s k p = (seqRun c init s p).msgs

def pcPid : PC V E → Option Pid
  | .idle => none
  | .locked p _ _ => some p
  | .timed p _ _ => some p
  | .compared p _ _ _ => some p
  | .stored p _ _ _ => some p
  | .go p _ _ => some p
  | .stamped p _ _ => some p
  | .errset p _ _ => some p
  | .built p _ _ _ => some p
  | .sending p _ _ _ _ => some p
  | .leaving p _ _ => some p

/-- inside the critical section: `e0`, `m0` = entry and log when the lock was taken, `cur`, `lg` = now -/
def Mid (c : Cfg V E) (e0 : Entry V E) (m0 : List (Msg V E)) (cur : Entry V E) (lg : Cid → List (Msg V E)) :
    PC V E → Prop
  | .idle => False
  | .locked _ _ _ => cur = e0 ∧ ∀ k ∈ c.conns, lg k = m0
  | .timed _ _ _ => cur = e0 ∧ ∀ k ∈ c.conns, lg k = m0
  | .compared _ _ v chg => cur = e0 ∧ chg = changed c.o e0 v ∧ ∀ k ∈ c.conns, lg k = m0
  | .stored _ _ v chg => cur = storeValue e0 (.val v) ∧ chg = changed c.o e0 v ∧ ∀ k ∈ c.conns, lg k = m0
  | .go _ now r => cur = storeValue e0 r ∧ emits c.o e0 now r = true ∧ ∀ k ∈ c.conns, lg k = m0
  | .stamped _ now r => cur = stamp (storeValue e0 r) now ∧ emits c.o e0 now r = true ∧ ∀ k ∈ c.conns, lg k = m0
  | .errset _ now r => cur = commit (storeValue e0 r) now r ∧ emits c.o e0 now r = true ∧ ∀ k ∈ c.conns, lg k = m0
  | .built _ now r m => cur = commit (storeValue e0 r) now r ∧ emits c.o e0 now r = true ∧ m = mkMsg cur ∧
      ∀ k ∈ c.conns, lg k = m0
  | .sending _ now r m rest => cur = commit (storeValue e0 r) now r ∧ emits c.o e0 now r = true ∧ m = mkMsg cur ∧
      ∃ done, c.conns = done ++ rest ∧ (∀ k ∈ done, lg k = m0 ++ [m]) ∧ (∀ k ∈ rest, lg k = m0)
  | .leaving _ now r => cur = (announceR c.o e0 now r).entry ∧
      ∀ k ∈ c.conns, lg k = m0 ++ (announceR c.o e0 now r).msg.toList

/-- the thread is inside `broadcast_event`'s `with self._subscription_lock` -/
def pcS : PC V E → Bool
  | .sending _ _ _ _ _ => true
  | _ => false

structure Inv (c : Cfg V E) (init : Pid → Entry V E) (s : Sys V E) : Prop where
  slFree : s.lock = none → s.slock = none
  slOwner : ∀ t, s.lock = some t → s.slock = if pcS (s.thr t).pc then some t else none
  seenOk : ∀ k p, ∀ d ∈ s.logs k p, d.msg.ve = d.seen
  unlocked : s.lock = none → (∀ t, (s.thr t).pc = .idle) ∧ ∀ p, Clean c init s p
  locked : ∀ t, s.lock = some t → (∀ t', t' ≠ t → (s.thr t').pc = .idle) ∧
    ∃ p, pcPid (s.thr t).pc = some p ∧ (∀ q, q ≠ p → Clean c init s q) ∧
      Mid c (seqRun c init s p).entry (seqRun c init s p).msgs (s.entries p) (fun k => plog s k p) (s.thr t).pc

theorem inv_init (c : Cfg V E) (init : Pid → Entry V E) (progs : Tid → List (Op V E)) (clock : Int) :
    Inv c init (Sys.init init progs clock) := by
  refine ⟨fun _ => rfl, fun t ht => by simp [Sys.init] at ht, ?_, ?_, ?_⟩
  · intro k p d hd; simp [Sys.init] at hd
  · intro _; exact ⟨fun t => rfl, fun p => ⟨by simp [Sys.init, seqRun, runR], fun k _ => by simp [Sys.init, plog, seqRun, runR]⟩⟩
  · intro t ht; simp [Sys.init] at ht

/-- a thread that is not idle owns the lock -/
theorem owner_of_busy {c : Cfg V E} {init : Pid → Entry V E} {s : Sys V E} (hi : Inv c init s) (t : Tid)
    (hb : (s.thr t).pc ≠ .idle) : s.lock = some t := by
  cases hl : s.lock with
  | none => exact absurd ((hi.unlocked hl).1 t) hb
  | some t0 =>
    by_cases h : t = t0
    · rw [h]
    · exact absurd ((hi.locked t0 hl).1 t h) hb

/-- what the invariant says about the owner -/
theorem inv_mid {c : Cfg V E} {init : Pid → Entry V E} {s : Sys V E} (hi : Inv c init s) (t : Tid) (p : Pid)
    (hb : (s.thr t).pc ≠ .idle) (hp : pcPid (s.thr t).pc = some p) :
    s.lock = some t ∧ (∀ t', t' ≠ t → (s.thr t').pc = .idle) ∧ (∀ q, q ≠ p → Clean c init s q) ∧
    Mid c (seqRun c init s p).entry (seqRun c init s p).msgs (s.entries p) (fun k => plog s k p) (s.thr t).pc := by
  have hl := owner_of_busy hi t hb
  obtain ⟨h1, p', hp', h2, h3⟩ := hi.locked t hl
  rw [hp] at hp'
  cases hp'
  exact ⟨hl, h1, h2, h3⟩

/-- a step inside the critical section that touches only parameter `p` -/
theorem inv_inner {c : Cfg V E} {init : Pid → Entry V E} {s s' : Sys V E} (hi : Inv c init s) (t : Tid) (p : Pid)
    (hlk : s.lock = some t)
    (hidle : ∀ t', t' ≠ t → (s.thr t').pc = .idle)
    (hclean : ∀ q, q ≠ p → Clean c init s q)
    (hl : s'.lock = some t) (hh : s'.hist = s.hist)
    (hsl : s'.slock = if pcS (s'.thr t).pc then some t else none)
    (hthr : ∀ t', t' ≠ t → (s'.thr t').pc = (s.thr t').pc)
    (hent : ∀ q, q ≠ p → s'.entries q = s.entries q)
    (hlog : ∀ k q, q ≠ p → s'.logs k q = s.logs k q)
    (hpc : pcPid (s'.thr t).pc = some p)
    (hseen : ∀ k, ∀ d ∈ s'.logs k p, d.msg.ve = d.seen)
    (hmid : Mid c (seqRun c init s p).entry (seqRun c init s p).msgs (s'.entries p) (fun k => plog s' k p)
      (s'.thr t).pc) : Inv c init s' := by
  have _ := hlk
  refine ⟨(fun h => by rw [hl] at h; cases h), (fun t0 ht0 => by rw [hl] at ht0; cases ht0; exact hsl), ?_, ?_, ?_⟩
  · intro k q d hd
    by_cases hq : q = p
    · subst hq; exact hseen k d hd
    · rw [hlog k q hq] at hd; exact hi.seenOk k q d hd
  · intro h; rw [hl] at h; cases h
  · intro t0 ht0
    rw [hl] at ht0; cases ht0
    refine ⟨fun t' ht' => by rw [hthr t' ht']; exact hidle t' ht', p, hpc, ?_, ?_⟩
    · intro q hq
      have := hclean q hq
      unfold Clean seqRun plog at this ⊢
      rw [hh, hent q hq]
      refine ⟨this.1, fun k hk => ?_⟩
      rw [hlog k q hq]; exact this.2 k hk
    · have : seqRun c init s' p = seqRun c init s p := by unfold seqRun; rw [hh]
      rw [this]; exact hmid


/-! ### preservation -/

theorem clean_frame {c : Cfg V E} {init : Pid → Entry V E} {s s' : Sys V E} (p : Pid)
    (he : s'.entries = s.entries) (hl : s'.logs = s.logs) (hh : s'.hist = s.hist) :
    Clean c init s' p ↔ Clean c init s p := by
  unfold Clean seqRun plog; rw [he, hl, hh]

theorem inv_stepIdle {c : Cfg V E} {init : Pid → Entry V E} {s s' : Sys V E} (hi : Inv c init s) (t : Tid)
    (hpc : (s.thr t).pc = .idle) (hs : stepIdle s t = some s') : Inv c init s' := by
  unfold stepIdle at hs
  -- a step that only changes `alock` and the thread table, keeping every pc
  have frame : ∀ (a : Option Tid) (rest : List (Op V E)),
      Inv c init { s with alock := a, thr := upd s.thr t ⟨rest, .idle⟩ } := by
    intro a rest
    have hpcs : ∀ t', ((upd s.thr t (⟨rest, .idle⟩ : Thread V E)) t').pc = (s.thr t').pc := by
      intro t'
      by_cases h : t' = t
      · subst h; simp [hpc]
      · rw [upd_other _ _ _ _ h]
    refine ⟨hi.slFree, fun t0 hl => by rw [hpcs t0]; exact hi.slOwner t0 hl, hi.seenOk, ?_, ?_⟩
    · intro hl
      obtain ⟨h1, h2⟩ := hi.unlocked hl
      exact ⟨fun t' => by rw [hpcs t']; exact h1 t', fun p => (clean_frame p rfl rfl rfl).2 (h2 p)⟩
    · intro t0 hl
      obtain ⟨h1, p, hp, h2, h3⟩ := hi.locked t0 hl
      refine ⟨fun t' ht' => by rw [hpcs t']; exact h1 t' ht', p, by rw [hpcs t0]; exact hp,
        fun q hq => (clean_frame q rfl rfl rfl).2 (h2 q hq), ?_⟩
      rw [hpcs t0]; exact h3
  cases hprog : (s.thr t).prog with
  | nil => rw [hprog] at hs; cases hs
  | cons op rest =>
    rw [hprog] at hs
    cases op with
    | accAcquire =>
      simp only at hs
      split at hs
      · cases hs; exact frame _ _
      · cases hs
    | accRelease =>
      simp only at hs
      split at hs
      · cases hs; exact frame _ _
      · cases hs
    | announce p ev ts =>
      simp only at hs
      split at hs
      · rename_i hl
        cases hs
        obtain ⟨h1, h2⟩ := hi.unlocked hl
        refine ⟨(fun h => by cases h), (fun t0 ht0 => by cases ht0; simp [pcS]; exact hi.slFree hl), hi.seenOk,
          (fun h => by cases h), ?_⟩
        intro t0 ht0
        cases ht0
        refine ⟨fun t' ht' => ?_, p, by simp [pcPid], fun q _ => (clean_frame q rfl rfl rfl).2 (h2 q), ?_⟩
        · show ((upd s.thr t _) t').pc = _
          rw [upd_other _ _ _ _ ht']; exact h1 t'
        · simp only [upd_same, Mid]
          have := h2 p
          exact ⟨this.1, this.2⟩
      · cases hs

set_option hygiene false in
/-- the subscription lock is untouched by a step between two pcs outside `broadcast_event` -/
macro "slk" : tactic => `(tactic| (
  have hs := hi.slOwner t hlk
  rw [hpc] at hs
  simp [pcS] at hs
  first
  | (simp [pcS, hs]; done)
  | (simp only [setPc_pc, setPc_slock]; split <;> simp [pcS, hs])))

theorem inv_step {c : Cfg V E} {init : Pid → Entry V E} {s s' : Sys V E} (hn : c.conns.Nodup)
    (hi : Inv c init s) (t : Tid) (hs : step c s t = some s') : Inv c init s' := by
  unfold step at hs
  cases hpc : (s.thr t).pc with
  | idle => rw [hpc] at hs; exact inv_stepIdle hi t hpc hs
  | locked p ev ts =>
    rw [hpc] at hs; simp only [Option.some.injEq] at hs; subst hs
    obtain ⟨hlk, hidle, hclean, hmid⟩ := inv_mid hi t p (by rw [hpc]; simp) (by rw [hpc]; rfl)
    rw [hpc] at hmid
    refine inv_inner hi t p hlk hidle hclean hlk rfl (by slk) (fun t' h => setPc_pc_other _ _ _ _ h) (fun q _ => rfl)
      (fun k q _ => rfl) (by simp [pcPid]) (fun k d hd => hi.seenOk k p d hd) ?_
    simp only [setPc_pc, Mid] at hmid ⊢
    exact hmid
  | timed p now r =>
    rw [hpc] at hs
    obtain ⟨hlk, hidle, hclean, hmid⟩ := inv_mid hi t p (by rw [hpc]; simp) (by rw [hpc]; rfl)
    rw [hpc] at hmid
    simp only [Mid] at hmid
    cases r with
    | val v =>
      simp only [Option.some.injEq] at hs; subst hs
      refine inv_inner hi t p hlk hidle hclean hlk rfl (by slk) (fun t' h => setPc_pc_other _ _ _ _ h) (fun q _ => rfl)
        (fun k q _ => rfl) (by simp [pcPid]) (fun k d hd => hi.seenOk k p d hd) ?_
      simp only [setPc_pc, Mid]
      exact ⟨hmid.1, by rw [hmid.1], hmid.2⟩
    | err x =>
      simp only [Option.some.injEq] at hs; subst hs
      refine inv_inner hi t p hlk hidle hclean hlk rfl (by slk) (fun t' h => setPc_pc_other _ _ _ _ h) (fun q _ => rfl)
        (fun k q _ => rfl) (by simp only [setPc_pc]; split <;> simp [pcPid]) (fun k d hd => hi.seenOk k p d hd) ?_
      simp only [setPc_pc, setPc_entries]
      rw [hmid.1]
      split
      · rename_i he
        have hd : emits c.o (seqRun c init s p).entry now (.err x) = false := by simp [emits, he]
        simp only [Mid, announceR_skip _ _ _ _ hd, storeValue, plog_setPc]
        exact ⟨trivial, by simpa using hmid.2⟩
      · rename_i he
        simp only [Mid, storeValue]
        exact ⟨trivial, by simp [emits, he], hmid.2⟩
  | compared p now v chg =>
    rw [hpc] at hs; simp only [Option.some.injEq] at hs; subst hs
    obtain ⟨hlk, hidle, hclean, hmid⟩ := inv_mid hi t p (by rw [hpc]; simp) (by rw [hpc]; rfl)
    rw [hpc] at hmid
    simp only [Mid] at hmid
    refine inv_inner hi t p hlk hidle hclean hlk rfl (by slk) (fun t' h => setPc_pc_other _ _ _ _ h)
      (fun q hq => setEntry_other _ _ _ _ hq) (fun k q _ => rfl) (by simp [pcPid])
      (fun k d hd => hi.seenOk k p d hd) ?_
    simp only [setPc_pc, setPc_entries, setEntry_same, Mid]
    exact ⟨by rw [hmid.1], hmid.2.1, hmid.2.2⟩
  | stored p now v chg =>
    rw [hpc] at hs; simp only [Option.some.injEq] at hs; subst hs
    obtain ⟨hlk, hidle, hclean, hmid⟩ := inv_mid hi t p (by rw [hpc]; simp) (by rw [hpc]; rfl)
    rw [hpc] at hmid
    simp only [Mid] at hmid
    refine inv_inner hi t p hlk hidle hclean hlk rfl (by slk) (fun t' h => setPc_pc_other _ _ _ _ h) (fun q _ => rfl)
      (fun k q _ => rfl) (by simp only [setPc_pc]; split <;> simp [pcPid]) (fun k d hd => hi.seenOk k p d hd) ?_
    simp only [setPc_pc, setPc_entries]
    obtain ⟨h1, h2, h3⟩ := hmid
    rw [h1, h2]
    have hts : (storeValue (seqRun c init s p).entry (.val v)).timestamp = (seqRun c init s p).entry.timestamp := rfl
    have hw : (storeValue (seqRun c init s p).entry (.val v)).window = (seqRun c init s p).entry.window := rfl
    rw [hts, hw]
    split
    · rename_i hc
      have hd : emits c.o (seqRun c init s p).entry now (.val v) = false := by
        simp only [Bool.and_eq_true, Bool.not_eq_eq_eq_not, Bool.not_true, decide_eq_true_eq] at hc
        simp [emits, hc.1, hc.2]
      simp only [Mid, announceR_skip _ _ _ _ hd, plog_setPc]
      exact ⟨trivial, by simpa using h3⟩
    · rename_i hc
      have hd : emits c.o (seqRun c init s p).entry now (.val v) = true := by
        simp only [Bool.and_eq_true, Bool.not_eq_eq_eq_not, Bool.not_true, decide_eq_true_eq, not_and] at hc
        simp only [emits, Bool.or_eq_true, Bool.not_eq_eq_eq_not, Bool.not_true, decide_eq_false_iff_not]
        by_cases hch : changed c.o (seqRun c init s p).entry v = true
        · exact Or.inl hch
        · exact Or.inr (hc (by simpa using hch))
      simp only [Mid]
      exact ⟨trivial, hd, h3⟩
  | go p now r =>
    rw [hpc] at hs; simp only [Option.some.injEq] at hs; subst hs
    obtain ⟨hlk, hidle, hclean, hmid⟩ := inv_mid hi t p (by rw [hpc]; simp) (by rw [hpc]; rfl)
    rw [hpc] at hmid
    simp only [Mid] at hmid
    refine inv_inner hi t p hlk hidle hclean hlk rfl (by slk) (fun t' h => setPc_pc_other _ _ _ _ h)
      (fun q hq => setEntry_other _ _ _ _ hq) (fun k q _ => rfl) (by simp [pcPid])
      (fun k d hd => hi.seenOk k p d hd) ?_
    simp only [setPc_pc, setPc_entries, setEntry_same, Mid]
    exact ⟨by rw [hmid.1], hmid.2.1, hmid.2.2⟩
  | stamped p now r =>
    rw [hpc] at hs; simp only [Option.some.injEq] at hs; subst hs
    obtain ⟨hlk, hidle, hclean, hmid⟩ := inv_mid hi t p (by rw [hpc]; simp) (by rw [hpc]; rfl)
    rw [hpc] at hmid
    simp only [Mid] at hmid
    refine inv_inner hi t p hlk hidle hclean hlk rfl (by slk) (fun t' h => setPc_pc_other _ _ _ _ h)
      (fun q hq => setEntry_other _ _ _ _ hq) (fun k q _ => rfl) (by simp [pcPid])
      (fun k d hd => hi.seenOk k p d hd) ?_
    simp only [setPc_pc, setPc_entries, setEntry_same, Mid]
    exact ⟨by rw [hmid.1]; rfl, hmid.2.1, hmid.2.2⟩
  | errset p now r =>
    rw [hpc] at hs; simp only [Option.some.injEq] at hs; subst hs
    obtain ⟨hlk, hidle, hclean, hmid⟩ := inv_mid hi t p (by rw [hpc]; simp) (by rw [hpc]; rfl)
    rw [hpc] at hmid
    simp only [Mid] at hmid
    refine inv_inner hi t p hlk hidle hclean hlk rfl (by slk) (fun t' h => setPc_pc_other _ _ _ _ h) (fun q _ => rfl)
      (fun k q _ => rfl) (by simp [pcPid]) (fun k d hd => hi.seenOk k p d hd) ?_
    simp only [setPc_pc, setPc_entries, Mid]
    exact ⟨hmid.1, hmid.2.1, trivial, hmid.2.2⟩
  | built p now r m =>
    rw [hpc] at hs
    obtain ⟨hlk, hidle, hclean, hmid⟩ := inv_mid hi t p (by rw [hpc]; simp) (by rw [hpc]; rfl)
    rw [hpc] at hmid
    simp only [Mid] at hmid
    have hs0 := hi.slOwner t hlk
    rw [hpc] at hs0
    simp [pcS] at hs0
    simp only [hs0, if_true, Option.some.injEq] at hs; subst hs
    refine inv_inner hi t p hlk hidle hclean hlk rfl (by simp [pcS]) (fun t' h => setPc_pc_other _ _ _ _ h)
      (fun q _ => rfl) (fun k q _ => rfl) (by simp [pcS, pcPid]) (fun k d hd => hi.seenOk k p d hd) ?_
    simp only [setPc_pc, setPc_entries, Mid]
    exact ⟨hmid.1, hmid.2.1, hmid.2.2.1, [], by simp, by simp, hmid.2.2.2⟩
  | sending p now r m rest =>
    rw [hpc] at hs
    obtain ⟨hlk, hidle, hclean, hmid⟩ := inv_mid hi t p (by rw [hpc]; simp) (by rw [hpc]; rfl)
    rw [hpc] at hmid
    simp only [Mid] at hmid
    obtain ⟨h1, h2, h3, done, h4, h5, h6⟩ := hmid
    cases rest with
    | nil =>
      simp only [Option.some.injEq] at hs; subst hs
      refine inv_inner hi t p hlk hidle hclean hlk rfl (by slk) (fun t' h => setPc_pc_other _ _ _ _ h) (fun q _ => rfl)
        (fun k q _ => rfl) (by simp [pcPid]) (fun k d hd => hi.seenOk k p d hd) ?_
      simp only [setPc_pc, setPc_entries, Mid, announceR_go _ _ _ _ h2, plog_setPc]
      refine ⟨h1, fun k hk => ?_⟩
      simp only [List.append_nil] at h4
      rw [h4] at hk
      show plog s k p = _
      rw [h5 k hk, h3, h1]; rfl
    | cons k rest =>
      simp only [Option.some.injEq] at hs; subst hs
      have hnd : (done ++ k :: rest).Nodup := h4 ▸ hn
      have hk_done : k ∉ done := by
        intro hk
        have := (List.nodup_append.1 hnd).2.2 k hk k (by simp)
        exact this rfl
      have hk_rest : k ∉ rest := by
        have := (List.nodup_append.1 hnd).2.1
        exact (List.nodup_cons.1 this).1
      refine inv_inner hi t p hlk hidle hclean hlk rfl (by slk) (fun t' h => setPc_pc_other _ _ _ _ h) (fun q _ => rfl)
        (fun k' q hq => deliver_other_param _ _ _ _ _ _ hq) (by simp [pcPid]) ?_ ?_
      · intro k' d hd
        simp only [setPc_logs] at hd
        by_cases hk : k' = k
        · subst hk
          rw [deliver_same, List.mem_append] at hd
          rcases hd with hd | hd
          · exact hi.seenOk _ p d hd
          · simp only [List.mem_singleton] at hd
            subst hd
            simp only [h3, mkMsg]
        · rw [deliver_other_conn _ _ _ _ _ _ hk] at hd
          exact hi.seenOk k' p d hd
      · simp only [setPc_pc, setPc_entries, deliver_entries, Mid]
        refine ⟨h1, h2, h3, done ++ [k], by simp [h4], ?_, ?_⟩
        · intro k' hk'
          simp only [List.mem_append, List.mem_singleton] at hk'
          rcases hk' with hk' | hk'
          · have hne : k' ≠ k := fun h => hk_done (h ▸ hk')
            have := h5 k' hk'
            simp only [plog, setPc_logs] at this ⊢
            rw [deliver_other_conn _ _ _ _ _ _ hne]; exact this
          · subst hk'
            have := h6 k' (by simp)
            simp only [plog, setPc_logs, deliver_same, List.map_append, List.map_cons, List.map_nil] at this ⊢
            rw [this]
        · intro k' hk'
          have hne : k' ≠ k := fun h => hk_rest (h ▸ hk')
          have := h6 k' (by simp [hk'])
          simp only [plog, setPc_logs] at this ⊢
          rw [deliver_other_conn _ _ _ _ _ _ hne]; exact this
  | leaving p now r =>
    rw [hpc] at hs; simp only [Option.some.injEq] at hs; subst hs
    obtain ⟨hlk, hidle, hclean, hmid⟩ := inv_mid hi t p (by rw [hpc]; simp) (by rw [hpc]; rfl)
    rw [hpc] at hmid
    simp only [Mid] at hmid
    have hs0 := hi.slOwner t hlk
    rw [hpc] at hs0
    simp [pcS] at hs0
    refine ⟨fun _ => hs0, (fun t0 h => by cases h), hi.seenOk, ?_, fun t0 h => by cases h⟩
    intro _
    constructor
    · intro t'
      by_cases h : t' = t
      · subst h; simp
      · rw [setPc_pc_other _ _ _ _ h]; exact hidle t' h
    · intro q
      by_cases hq : q = p
      · subst hq
        unfold Clean seqRun plog
        simp only [setPc_entries, setPc_logs, setPc_hist, upd_same, runR_snoc]
        exact ⟨hmid.1, hmid.2⟩
      · have := hclean q hq
        unfold Clean seqRun plog at this ⊢
        simp only [setPc_entries, setPc_logs, setPc_hist, upd_other _ _ _ _ hq]
        exact this

/-- the invariant holds in every reachable state -/
theorem inv_reach {c : Cfg V E} {init : Pid → Entry V E} {progs : Tid → List (Op V E)} {clock : Int}
    {s : Sys V E} (hn : c.conns.Nodup) (hr : Reach c (Sys.init init progs clock) s) : Inv c init s := by
  induction hr with
  | start => exact inv_init c init progs clock
  | next t _ hs ih => exact inv_step hn ih t hs

theorem reach_of_runSched {V E : Type} [DecidableEq E] (c : Cfg V E) (s0 s s' : Sys V E) (hr : Reach c s0 s)
    (ts : List Tid) (h : runSched c s ts = some s') : Reach c s0 s' := by
  induction ts generalizing s with
  | nil => simp [runSched] at h; exact h ▸ hr
  | cons t ts ih =>
    simp only [runSched] at h
    split at h
    · rename_i s1 hs; exact ih s1 (Reach.next t hr hs) h
    · cases h



/-! ### the completed calls are an interleaving of the threads' programs -/

/-- the calls of the funnel a program makes: parameter and resolved value-or-error, in program order -/
def annR (o : Oracle V E) : List (Op V E) → List (Pid × VE V E)
  | [] => []
  | .announce p ev _ :: rest => (p, resolve o ev) :: annR o rest
  | .accAcquire :: rest => annR o rest
  | .accRelease :: rest => annR o rest

/-- the call a thread is in the middle of -/
def inflight (o : Oracle V E) : PC V E → List (Pid × VE V E)
  | .idle => []
  | .locked p ev _ => [(p, resolve o ev)]
  | .timed p _ r => [(p, r)]
  | .compared p _ v _ => [(p, .val v)]
  | .stored p _ v _ => [(p, .val v)]
  | .go p _ r => [(p, r)]
  | .stamped p _ r => [(p, r)]
  | .errset p _ r => [(p, r)]
  | .built p _ r _ => [(p, r)]
  | .sending p _ r _ _ => [(p, r)]
  | .leaving p _ r => [(p, r)]

/-- the completed calls of thread `t`, in the order of the global history -/
def doneBy (t : Tid) (g : List (GItem V E)) : List (Pid × VE V E) :=
  (g.filter (fun x => x.tid == t)).map (fun x => (x.pid, x.r))

/-- the completed calls on parameter `p`, in the order of the global history -/
def onParam (p : Pid) (g : List (GItem V E)) : List (REv V E) :=
  (g.filter (fun x => x.pid == p)).map (fun x => ⟨x.now, x.r⟩)

structure Shuf (c : Cfg V E) (progs : Tid → List (Op V E)) (s : Sys V E) : Prop where
  thread : ∀ t, doneBy t s.ghist ++ (inflight c.o (s.thr t).pc ++ annR c.o (s.thr t).prog) = annR c.o (progs t)
  proj : ∀ p, s.hist p = onParam p s.ghist

theorem shuf_init (c : Cfg V E) (init : Pid → Entry V E) (progs : Tid → List (Op V E)) (clock : Int) :
    Shuf c progs (Sys.init init progs clock) :=
  ⟨fun t => by simp [Sys.init, doneBy, inflight], fun p => by simp [Sys.init, onParam]⟩

theorem shuf_frame {c : Cfg V E} {progs : Tid → List (Op V E)} {s s' : Sys V E} (h : Shuf c progs s) (t : Tid)
    (hg : s'.ghist = s.ghist) (hh : s'.hist = s.hist) (hother : ∀ t', t' ≠ t → s'.thr t' = s.thr t')
    (ht : inflight c.o (s'.thr t).pc ++ annR c.o (s'.thr t).prog =
          inflight c.o (s.thr t).pc ++ annR c.o (s.thr t).prog) : Shuf c progs s' := by
  refine ⟨fun t' => ?_, fun p => by rw [hh, hg]; exact h.proj p⟩
  by_cases htt : t' = t
  · subst htt; rw [hg, ht]; exact h.thread t'
  · rw [hg, hother t' htt]; exact h.thread t'

theorem thr_setPc_same (s : Sys V E) (t : Tid) (pc : PC V E) : (s.setPc t pc).thr t = ⟨(s.thr t).prog, pc⟩ := by
  simp [Sys.setPc]

theorem thr_setPc_other (s : Sys V E) (t t' : Tid) (pc : PC V E) (h : t' ≠ t) : (s.setPc t pc).thr t' = s.thr t' := by
  simp [Sys.setPc, upd_other _ _ _ _ h]

theorem shuf_step {c : Cfg V E} {progs : Tid → List (Op V E)} {s s' : Sys V E} (h : Shuf c progs s) (t : Tid)
    (hs : step c s t = some s') : Shuf c progs s' := by
  unfold step at hs
  cases hpc : (s.thr t).pc with
  | idle =>
    rw [hpc] at hs
    unfold stepIdle at hs
    cases hprog : (s.thr t).prog with
    | nil => rw [hprog] at hs; cases hs
    | cons op rest =>
      rw [hprog] at hs
      cases op with
      | accAcquire =>
        simp only at hs
        split at hs
        · cases hs
          exact shuf_frame h t rfl rfl (fun t' ht' => upd_other _ _ _ _ ht') (by simp [hpc, hprog, annR, inflight])
        · cases hs
      | accRelease =>
        simp only at hs
        split at hs
        · cases hs
          exact shuf_frame h t rfl rfl (fun t' ht' => upd_other _ _ _ _ ht') (by simp [hpc, hprog, annR, inflight])
        · cases hs
      | announce p ev ts =>
        simp only at hs
        split at hs
        · cases hs
          exact shuf_frame h t rfl rfl (fun t' ht' => upd_other _ _ _ _ ht') (by simp [hpc, hprog, annR, inflight])
        · cases hs
  | locked p ev ts =>
    rw [hpc] at hs; simp only [Option.some.injEq] at hs; subst hs
    exact shuf_frame h t rfl rfl (fun t' ht' => thr_setPc_other _ _ _ _ ht') (by rw [thr_setPc_same]; simp [hpc, inflight])
  | timed p now r =>
    rw [hpc] at hs
    cases r with
    | val v =>
      simp only [Option.some.injEq] at hs; subst hs
      exact shuf_frame h t rfl rfl (fun t' ht' => thr_setPc_other _ _ _ _ ht') (by rw [thr_setPc_same]; simp [hpc, inflight])
    | err x =>
      simp only [Option.some.injEq] at hs; subst hs
      exact shuf_frame h t rfl rfl (fun t' ht' => thr_setPc_other _ _ _ _ ht')
        (by rw [thr_setPc_same]; simp only [hpc]; split <;> simp [inflight])
  | compared p now v chg =>
    rw [hpc] at hs; simp only [Option.some.injEq] at hs; subst hs
    exact shuf_frame h t rfl rfl (fun t' ht' => thr_setPc_other _ _ _ _ ht') (by rw [thr_setPc_same]; simp [hpc, inflight])
  | stored p now v chg =>
    rw [hpc] at hs; simp only [Option.some.injEq] at hs; subst hs
    exact shuf_frame h t rfl rfl (fun t' ht' => thr_setPc_other _ _ _ _ ht')
      (by rw [thr_setPc_same]; simp only [hpc]; split <;> simp [inflight])
  | go p now r =>
    rw [hpc] at hs; simp only [Option.some.injEq] at hs; subst hs
    exact shuf_frame h t rfl rfl (fun t' ht' => thr_setPc_other _ _ _ _ ht') (by rw [thr_setPc_same]; simp [hpc, inflight])
  | stamped p now r =>
    rw [hpc] at hs; simp only [Option.some.injEq] at hs; subst hs
    exact shuf_frame h t rfl rfl (fun t' ht' => thr_setPc_other _ _ _ _ ht') (by rw [thr_setPc_same]; simp [hpc, inflight])
  | errset p now r =>
    rw [hpc] at hs; simp only [Option.some.injEq] at hs; subst hs
    exact shuf_frame h t rfl rfl (fun t' ht' => thr_setPc_other _ _ _ _ ht') (by rw [thr_setPc_same]; simp [hpc, inflight])
  | built p now r m =>
    rw [hpc] at hs
    simp only at hs
    split at hs
    · simp only [Option.some.injEq] at hs; subst hs
      exact shuf_frame h t rfl rfl (fun t' ht' => thr_setPc_other _ _ _ _ ht') (by rw [thr_setPc_same]; simp [hpc, inflight])
    · cases hs
  | sending p now r m rest =>
    rw [hpc] at hs
    cases rest with
    | nil =>
      simp only [Option.some.injEq] at hs; subst hs
      exact shuf_frame h t rfl rfl (fun t' ht' => thr_setPc_other _ _ _ _ ht') (by rw [thr_setPc_same]; simp [hpc, inflight])
    | cons k rest =>
      simp only [Option.some.injEq] at hs; subst hs
      exact shuf_frame h t rfl rfl (fun t' ht' => thr_setPc_other _ _ _ _ ht') (by rw [thr_setPc_same]; simp [hpc, inflight])
  | leaving p now r =>
    rw [hpc] at hs; simp only [Option.some.injEq] at hs; subst hs
    refine ⟨fun t' => ?_, fun q => ?_⟩
    · by_cases htt : t' = t
      · subst htt
        have := h.thread t'
        rw [hpc] at this
        rw [thr_setPc_same]
        simp only [setPc_ghist, doneBy, List.filter_append, List.map_append, inflight, List.nil_append] at this ⊢
        simpa [doneBy, inflight] using this
      · have := h.thread t'
        rw [thr_setPc_other _ _ _ _ htt]
        have hne : (t == t') = false := by simpa using (fun h => htt h.symm)
        simpa [doneBy, List.filter_append, hne] using this
    · by_cases hq : q = p
      · subst hq
        simp [onParam, List.filter_append, h.proj q]
      · have hne : (p == q) = false := by simpa using (fun h => hq h.symm)
        simp [onParam, List.filter_append, hne, upd_other _ _ _ _ hq, h.proj q]

theorem shuf_reach {c : Cfg V E} {init : Pid → Entry V E} {progs : Tid → List (Op V E)} {clock : Int}
    {s : Sys V E} (hr : Reach c (Sys.init init progs clock) s) : Shuf c progs s := by
  induction hr with
  | start => exact shuf_init c init progs clock
  | next t _ hs ih => exact shuf_step ih t hs

end Frappy.UpdateSys
