import FrappyProofs.Lemmas.Match
/-
C11 — helper lemmas for the timed layer: the per-caller invariant behind `wait_bounded`.
-/
namespace Frappy.Client.Timed
open Frappy.Client.Match Frappy.Spec.C11

section
variable {α : Type} [DecidableEq α]

/-- where a caller can be at clock value `now` -/
def good (cfg : Cfg) (now : Nat) (c : Caller α) : Prop :=
  match c.phase with
  | .putting => c.tPut ≤ now ∧ now ≤ c.tPut + cfg.putMs
  | .waiting _ tW => tW ≤ c.tPut + cfg.putMs ∧ tW ≤ now ∧ now ≤ tW + cfg.waitMs
  | .done tEnd _ => tEnd ≤ c.tPut + cfg.putMs + cfg.waitMs

def TInv (cfg : Cfg) (s : TSt α) : Prop := ∀ c ∈ s.callers, good cfg s.now c

theorem good_putF {cfg : Cfg} {now n : Nat} {c : Caller α} (h : good cfg now c) :
    good cfg now { c with phase := putF now n c.phase } := by
  unfold good at *
  cases hp : c.phase <;> simp only [hp, putF] at h ⊢
  · omega
  · exact h
  · exact h

theorem good_fullF {cfg : Cfg} {now : Nat} {c : Caller α} (h : good cfg now c) :
    good cfg now { c with phase := fullF now c.phase } := by
  unfold good at *
  cases hp : c.phase <;> simp only [hp, fullF] at h ⊢
  · omega
  · exact h
  · exact h

theorem good_wakeF {cfg : Cfg} {now : Nat} {c : Caller α} (h : good cfg now c) :
    good cfg now { c with phase := wakeF now c.phase } := by
  unfold good at *
  cases hp : c.phase <;> simp only [hp, wakeF] at h ⊢
  · exact h
  · omega
  · exact h

theorem good_timeoutF {cfg : Cfg} {now : Nat} {c : Caller α} (h : good cfg now c) :
    good cfg now { c with phase := timeoutF now c.phase } := by
  unfold good at *
  cases hp : c.phase <;> simp only [hp, timeoutF] at h ⊢
  · exact h
  · omega
  · exact h

theorem good_setPhase {cfg : Cfg} {now : Nat} {cs : List (Caller α)} {c : Nat} {f : Phase → Phase}
    (hf : ∀ x : Caller α, good cfg now x → good cfg now { x with phase := f x.phase })
    (h : ∀ x ∈ cs, good cfg now x) : ∀ x ∈ setPhase cs c f, good cfg now x := by
  intro x hx
  simp only [setPhase, List.mem_map] at hx
  obtain ⟨y, hy, rfl⟩ := hx
  split
  · exact hf y (h y hy)
  · exact h y hy

theorem good_tick {cfg : Cfg} {now d : Nat} {c : Caller α} (h : good cfg now c)
    (hd : withinDeadline cfg (now + d) c = true) : good cfg (now + d) c := by
  unfold good at *
  unfold withinDeadline at hd
  cases hp : c.phase <;> simp only [hp, decide_eq_true_eq] at h hd ⊢
  · omega
  · omega
  · exact h

theorem tinv_step {cfg : Cfg} {tbl : List (α × α)} {s s' : TSt α} {l : TLabel α}
    (inv : TInv cfg s) (h : tstep cfg tbl s l = some s') : TInv cfg s' := by
  cases l with
  | «begin» c r =>
    simp only [tstep] at h
    split at h
    · cases h
      intro x hx
      rcases List.mem_cons.1 hx with hx | hx
      · subst hx; simp [good]
      · exact inv x hx
    · cases h
  | put c =>
    simp only [tstep] at h
    split at h
    · split at h
      · split at h
        · split at h
          · cases h; exact good_setPhase (fun x hx => good_putF hx) inv
          · cases h
        · cases h
      · cases h
    · cases h
  | putFull c =>
    simp only [tstep] at h
    split at h
    · split at h
      · split at h
        · cases h; exact good_setPhase (fun x hx => good_fullF hx) inv
        · cases h
      · cases h
    · cases h
  | wake c =>
    simp only [tstep] at h
    split at h
    · split at h
      · split at h
        · cases h; exact good_setPhase (fun x hx => good_wakeF hx) inv
        · cases h
      · cases h
    · cases h
  | timeout c =>
    simp only [tstep] at h
    split at h
    · split at h
      · split at h
        · split at h
          · cases h; exact good_setPhase (fun x hx => good_timeoutF hx) inv
          · cases h
        · cases h
      · cases h
    · cases h
  | tick d =>
    simp only [tstep] at h
    split at h
    · next hall =>
      cases h
      intro x hx
      exact good_tick (inv x hx) (List.all_eq_true.1 hall x hx)
    · cases h
  | base l =>
    simp only [tstep] at h
    split at h
    · cases h
    · split at h
      · cases h; exact inv
      · cases h

theorem treachable_inv {cfg : Cfg} {tbl : List (α × α)} {s : TSt α} (h : TReachable cfg tbl s) : TInv cfg s := by
  induction h with
  | init => intro c hc; simp at hc
  | step l _ hs ih => exact tinv_step ih hs

/-- the untimed projection of a timed run is a run of the untimed model: all untimed theorems apply to it -/
theorem treachable_base {cfg : Cfg} {tbl : List (α × α)} {s : TSt α} (h : TReachable cfg tbl s) :
    Reachable tbl true s.base := by
  induction h with
  | init => exact Reachable.init
  | step l _ hs ih =>
    cases l with
    | «begin» c r => simp only [tstep] at hs; split at hs <;> cases hs; exact ih
    | put c =>
      simp only [tstep] at hs
      split at hs
      · split at hs
        · split at hs
          · split at hs
            · next b hb => cases hs; exact Reachable.step _ ih hb
            · cases hs
          · cases hs
        · cases hs
      · cases hs
    | putFull c =>
      simp only [tstep] at hs
      split at hs
      · split at hs
        · split at hs
          · cases hs; exact ih
          · cases hs
        · cases hs
      · cases hs
    | wake c =>
      simp only [tstep] at hs
      split at hs
      · split at hs
        · split at hs
          · cases hs; exact ih
          · cases hs
        · cases hs
      · cases hs
    | timeout c =>
      simp only [tstep] at hs
      split at hs
      · split at hs
        · split at hs
          · split at hs
            · next b hb => cases hs; exact Reachable.step _ ih hb
            · cases hs
          · cases hs
        · cases hs
      · cases hs
    | tick d => simp only [tstep] at hs; split at hs <;> cases hs; exact ih
    | base l =>
      simp only [tstep] at hs
      split at hs
      · cases hs
      · split at hs
        · next b hb => cases hs; exact Reachable.step _ ih hb
        · cases hs

theorem treachable_of_trun {cfg : Cfg} {tbl : List (α × α)} :
    ∀ (ls : List (TLabel α)) (s s' : TSt α), TReachable cfg tbl s → trun cfg tbl s ls = some s' →
      TReachable cfg tbl s' := by
  intro ls
  induction ls with
  | nil => intro s s' hr h; simp only [trun] at h; cases h; exact hr
  | cons l t ih =>
    intro s s' hr h
    simp only [trun] at h
    split at h
    · next s1 hs => exact ih s1 s' (TReachable.step l hr hs) h
    · cases h

end
end Frappy.Client.Timed
