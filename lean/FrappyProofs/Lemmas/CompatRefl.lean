import FrappyProofs.Lemmas.Variants
import FrappyModel.Datatypes.CompatUsers
/-
C03 — a datatype is compatible with itself and with its own description.
-/
set_option linter.unusedSectionVars false
namespace Frappy.Lemmas.C03V
open Frappy.Datatypes Frappy.Datatypes.CType Frappy.Spec.C01 Frappy.Spec.C03 Frappy.Lemmas.C03 FloatOps
open PVal (dictGet)
variable {F : Type} [FloatOps F] [LawfulFloatOps F] [CompatLaws F]

theorem member_of_mem_nodup : ∀ (ms : List (String × DType F)) (k : String) (t : DType F),
    (ms.map (·.1)).Nodup → (k, t) ∈ ms → DType.member? ms k = some t
  | [], _, _, _, h => by simp at h
  | (k', t') :: rest, k, t, hn, h => by
    simp only [List.map_cons, List.nodup_cons] at hn
    simp only [DType.member?, dictGet]
    rcases List.mem_cons.1 h with e | e
    · cases e; simp
    · have : k' ≠ k := by
        intro e'
        subst e'
        exact hn.1 (List.mem_map.2 ⟨(k', t), e, rfl⟩)
      simp only [this, if_false]
      exact member_of_mem_nodup rest k t hn.2 e

mutual
theorem nested_refl : ∀ t : DType F, t.WF → Nested t t
  | .double mn mx _ _, h => by
    simp only [DType.WF] at h
    have := LawfulFloatOps.le_notNaN mn mx h.2.2.1
    simp only [Nested]
    exact ⟨LawfulFloatOps.le_refl mn this.1, LawfulFloatOps.le_refl mx this.2⟩
  | .int _ _, _ => by simp only [Nested]; omega
  | .scaled s mn mx _ _, h => by
    simp only [DType.WF] at h
    have := LawfulFloatOps.le_notNaN mn mx h.2.2.2.2.1
    simp only [Nested]
    exact ⟨(LawfulFloatOps.same_iff s s).2 rfl, LawfulFloatOps.le_refl mn this.1, LawfulFloatOps.le_refl mx this.2⟩
  | .bool, _ => by simp only [Nested]
  | .enum _, _ => by simp only [Nested]; exact fun m hm => hm
  | .string _ _ _, _ => by simp only [Nested]; exact ⟨Nat.le_refl _, Nat.le_refl _, id⟩
  | .blob _ _, _ => by simp only [Nested]; exact ⟨Nat.le_refl _, Nat.le_refl _⟩
  | .array e _ _, h => by
    simp only [DType.WF] at h
    simp only [Nested]
    exact ⟨Nat.le_refl _, Nat.le_refl _, nested_refl e h.1⟩
  | .tuple es, h => by
    simp only [DType.WF] at h
    simp only [Nested]
    exact nestedList_refl es h.2
  | .struct ms opt _, h => by
    simp only [DType.WF] at h
    simp only [Nested]
    exact ⟨nestedFields_refl ms ms h.2.2.2 (fun k t hm => member_of_mem_nodup ms k t h.2.1 hm), fun k hk hn => ⟨hk, hn⟩⟩
theorem nestedList_refl : ∀ es : List (DType F), DType.WFList es → NestedList es es
  | [], _ => by simp only [NestedList]
  | t :: ts, h => by
    simp only [DType.WFList] at h
    simp only [NestedList]
    exact ⟨nested_refl t h.1, nestedList_refl ts h.2⟩
theorem nestedFields_refl : ∀ (ms ms' : List (String × DType F)), DType.WFFields ms →
    (∀ k t, (k, t) ∈ ms → DType.member? ms' k = some t) → NestedFields ms ms'
  | [], _, _, _ => by simp only [NestedFields]
  | (k, t) :: rest, ms', h, hm => by
    simp only [DType.WFFields] at h
    simp only [NestedFields, hm k t (List.mem_cons_self ..)]
    exact ⟨nested_refl t h.1, nestedFields_refl rest ms' h.2 (fun k' t' h' => hm k' t' (List.mem_cons_of_mem _ h'))⟩
end

/-- every datatype is compatible with itself -/
theorem compatible_refl (t : DType F) (h : t.WF) (hal : GridAligned t) : compatible t t = .ok () :=
  compat_complete t t h h hal hal (nested_refl t h)

theorem names_ofKindFields : ∀ ms : List (String × DType F), (ofKindFields ms).map (·.1) = ms.map (·.1)
  | [] => rfl
  | (k, t) :: rest => by simp [ofKindFields, names_ofKindFields rest]

mutual
theorem ofKind_wf : ∀ t : DType F, t.WF → (ofKind t).WF
  | .array e a b, h => by
    simp only [DType.WF] at h
    simp only [ofKind, CType.WF]
    exact ⟨ofKind_wf e h.1, h.2⟩
  | .tuple es, h => by
    simp only [DType.WF] at h
    simp only [ofKind, CType.WF]
    refine ⟨?_, ofKindList_wf es h.2⟩
    cases es with
    | nil => exact (h.1 rfl).elim
    | cons _ _ => simp [ofKindList]
  | .struct ms opt c, h => by
    simp only [DType.WF] at h
    simp only [ofKind, CType.WF, names_ofKindFields]
    refine ⟨?_, h.2.1, h.2.2.1, ofKindFields_wf ms h.2.2.2⟩
    cases ms with
    | nil => exact (h.1 rfl).elim
    | cons x _ => cases x; simp [ofKindFields]
  | .double .., h => by simp only [ofKind, CType.WF]; exact ⟨h, rfl⟩
  | .int .., h => by simp only [ofKind, CType.WF]; exact ⟨h, rfl⟩
  | .scaled .., h => by simp only [ofKind, CType.WF]; exact ⟨h, rfl⟩
  | .bool, h => by simp only [ofKind, CType.WF]; exact ⟨h, rfl⟩
  | .enum _, h => by simp only [ofKind, CType.WF]; exact ⟨h, rfl⟩
  | .string .., h => by simp only [ofKind, CType.WF]; exact ⟨h, rfl⟩
  | .blob .., h => by simp only [ofKind, CType.WF]; exact ⟨h, rfl⟩
theorem ofKindList_wf : ∀ ts : List (DType F), DType.WFList ts → WFList (ofKindList ts)
  | [], _ => by simp only [ofKindList, WFList]
  | t :: ts, h => by
    simp only [DType.WFList] at h
    simp only [ofKindList, WFList]
    exact ⟨ofKind_wf t h.1, ofKindList_wf ts h.2⟩
theorem ofKindFields_wf : ∀ ms : List (String × DType F), DType.WFFields ms → WFFields (ofKindFields ms)
  | [], _ => by simp only [ofKindFields, WFFields]
  | (_, t) :: ts, h => by
    simp only [DType.WFFields] at h
    simp only [ofKindFields, WFFields]
    exact ⟨ofKind_wf t h.1, ofKindFields_wf ts h.2⟩
end

/-- a datatype with derived classes and the datatype rebuilt from its description are compatible, both ways -/
theorem described_compatible (a : CType F) (ha : a.WF) (hal : GridAligned a.erase) :
    compatibleC a (rebuildC a) = .ok () ∧ compatibleC (rebuildC a) a = .ok () := by
  have hr : (rebuildC a).WF := ofKind_wf _ (erase_wf a ha)
  constructor
  · rw [compatibleC_erase a _ (wf_leafy _ hr), rebuildC, erase_ofKind]
    exact compatible_refl _ (erase_wf a ha) hal
  · rw [compatibleC_erase _ a (wf_leafy a ha), rebuildC, erase_ofKind]
    exact compatible_refl _ (erase_wf a ha) hal

end Frappy.Lemmas.C03V
