import FrappyProofs.Lemmas.DatatypesContainers
/-
C01: totality — the models never answer with a non-SECoP exception.
-/
set_option linter.unusedSectionVars false
set_option linter.unusedVariables false
namespace Frappy.Lemmas.C01
open FloatOps DType Frappy.Datatypes Frappy.Spec.C01
open PVal (toFloat? seqItems? prevItems prevFields dictGet dictSet)

variable {F : Type} [FloatOps F] [LawfulFloatOps F]

/-- the result is a value or a bad-value error -/
def Total {α : Type} (e : Except Err α) : Prop := ∀ c, e ≠ .error (.other c)

theorem total_ok {α : Type} (a : α) : Total (.ok a : Except Err α) := by intro c h; cases h
theorem total_range {α : Type} : Total (.error .range : Except Err α) := by intro c h; cases h
theorem total_wrongType {α : Type} : Total (.error .wrongType : Except Err α) := by intro c h; cases h

theorem total_map {α β : Type} {f : α → β} {e : Except Err α} (h : Total e) : Total (e.map f) := by
  intro c hc
  cases e with
  | ok a => cases hc
  | error x => simp only [Except.map] at hc; injection hc with hc; exact h c (by rw [hc])

theorem total_mapErr_wrap {α : Type} (e : Except Err α) : Total (mapErr wrapErr e) := by
  intro c hc
  cases e with
  | ok a => cases hc
  | error x => simp only [mapErr] at hc; injection hc with hc; exact wrapErr_ne_other x c hc

theorem doubleCall_total (v : PVal F) : Total (doubleCall v) := by
  unfold doubleCall
  split
  · exact total_wrongType
  · split
    · exact total_range
    · exact total_ok _

theorem doubleValidate_total (min max ar rr : F) (v : PVal F) : Total (doubleValidate min max ar rr v) := by
  unfold doubleValidate
  have := doubleCall_total v
  split
  · rename_i e he; intro c hc; injection hc with hc; exact this c (by rw [he, hc])
  · simp only; split
    · exact total_ok _
    · exact total_range

theorem intCall_total (v : PVal F) : Total (intCall v) := by
  cases v <;> simp only [intCall]
  all_goals first
    | exact total_wrongType
    | exact total_ok _
    | skip
  case int i => split; exact total_wrongType; exact total_ok _
  case float x =>
    split
    · exact total_wrongType
    · split
      · exact total_wrongType
      · exact total_ok _

theorem intValidate_total (min max : Int) (v : PVal F) : Total (intValidate min max v) := by
  unfold intValidate
  have := intCall_total v
  split
  · rename_i e he; intro c hc; injection hc with hc; exact this c (by rw [he, hc])
  · split
    · exact total_ok _
    · exact total_range

/-- the one place where the repaired code could still leak (`intval * self.scale` with an `int`
too large for a float): excluded by the law `round_ofInt` -/
theorem scaledCall_total (scale : F) (v : PVal F) : Total (scaledCall scale v) := by
  unfold scaledCall
  split
  · exact total_wrongType
  · split
    · exact total_range
    · rename_i k hk
      split
      · rename_i hy
        unfold gridIndex at hk
        obtain ⟨y, hy'⟩ := LawfulFloatOps.round_ofInt _ k hk
        rw [hy'] at hy; cases hy
      · split
        · exact total_ok _
        · exact total_range

theorem scaledValidate_total (scale min max : F) (v : PVal F) : Total (scaledValidate scale min max v) := by
  unfold scaledValidate
  have h0 := scaledCall_total scale v
  have h1 := scaledCall_total scale (.float min)
  have h2 := scaledCall_total scale (.float max)
  cases hres : scaledCall scale v with
  | error e => simp only; intro c hc; injection hc with hc; exact h0 c (by rw [hres, hc])
  | ok result =>
    simp only
    cases hlo : scaledCall scale (PVal.float min) with
    | error e => simp only; intro c hc; injection hc with hc; exact h1 c (by rw [hlo, hc])
    | ok lo =>
      cases hhi : scaledCall scale (PVal.float max) with
      | error e => simp only; intro c hc; injection hc with hc; exact h2 c (by rw [hhi, hc])
      | ok hi =>
        simp only
        split
        · exact total_ok _
        · split
          · exact total_wrongType
          · split
            · exact total_ok _
            · exact total_range

theorem enumCall_total (ms : List (String × Int)) (v : PVal F) : Total (enumCall ms v) := by
  cases v <;> simp only [enumCall]
  all_goals first
    | exact total_wrongType
    | (split
       · exact total_ok _
       · first | exact total_range | exact total_wrongType)
    | skip
  case float x =>
    split
    · split
      · exact total_ok _
      · exact total_wrongType
    · exact total_wrongType

theorem boolCall_total (v : PVal F) : Total (boolCall v) := by
  cases v <;> simp only [boolCall]
  all_goals first
    | exact total_wrongType
    | exact total_ok _
    | (split
       · exact total_ok _
       · split
         · exact total_ok _
         · exact total_wrongType)
    | skip
  case float x =>
    split
    · split
      · exact total_ok _
      · split
        · exact total_ok _
        · exact total_wrongType
    · exact total_wrongType

theorem stringCall_total (minc maxc : Nat) (utf8 : Bool) (v : PVal F) : Total (stringCall minc maxc utf8 v) := by
  cases v <;> simp only [stringCall]
  all_goals first
    | exact total_wrongType
    | skip
  case str s =>
    split
    · exact total_range
    · split
      · exact total_range
      · split
        · exact total_range
        · split
          · exact total_range
          · exact total_ok _

theorem blobCall_total (minb maxb : Nat) (v : PVal F) : Total (blobCall minb maxb v) := by
  cases v <;> simp only [blobCall]
  all_goals first
    | exact total_wrongType
    | skip
  case bytes b =>
    split
    · exact total_range
    · split
      · exact total_range
      · exact total_ok _

/-- `__call__` and `validate` of every datatype: a value or a bad-value error.  The containers
convert every exception of their elements into a bad-value error (`wrapErr`), so only the leaves matter. -/
theorem conv_total (m : Mode) (dt : DType F) (v : PVal F) (prev : Option (PVal F)) : Total (conv m dt v prev) := by
  cases dt <;> simp only [conv]
  case double min max ar rr => cases m <;> simp only <;> apply total_map; exact doubleCall_total v; exact doubleValidate_total _ _ _ _ _
  case int min max => cases m <;> simp only <;> apply total_map; exact intCall_total v; exact intValidate_total _ _ _
  case scaled scale min max ar rr => cases m <;> simp only <;> apply total_map; exact scaledCall_total _ _; exact scaledValidate_total _ _ _ _
  case bool => exact total_map (boolCall_total v)
  case enum ms => exact enumCall_total ms v
  case string minc maxc utf8 => exact total_map (stringCall_total _ _ _ _)
  case blob minb maxb => exact total_map (blobCall_total _ _ _)
  case array elem lo hi =>
    split
    · exact total_wrongType
    · split
      · exact total_range
      · split
        · exact total_range
        · exact total_map (total_mapErr_wrap _)
  case tuple elems =>
    split
    · exact total_wrongType
    · split
      · exact total_wrongType
      · split
        · split
          · exact total_wrongType
          · exact total_map (total_mapErr_wrap _)
        · exact total_map (total_mapErr_wrap _)
  case struct ms opt cl =>
    split
    · split
      · exact total_map (total_mapErr_wrap _)
      · exact total_wrongType
    · exact total_wrongType

/-! ### `import_value` has no `try`: errors of the elements pass through -/

theorem scaledImport_total (scale : F) (j : JVal F) : Total (scaledImport scale j) := by
  unfold scaledImport
  have := intCall_total (F := F) (PVal.ofJVal j)
  split
  · rename_i e he; intro c hc; injection hc with hc; exact this c (by rw [he, hc])
  · split
    · exact total_wrongType
    · exact total_ok _

theorem blobImport_total (j : JVal F) : Total (blobImport j) := by
  cases j <;> simp only [blobImport]
  all_goals first
    | exact total_wrongType
    | skip
  case str s => split; exact total_ok _; exact total_wrongType

theorem mapImport_total {f : JVal F → Res F} (hf : ∀ j, Total (f j)) : ∀ js, Total (mapImport f js) := by
  intro js
  induction js with
  | nil => exact total_ok _
  | cons j js ih =>
    simp only [mapImport]
    split
    · rename_i e he; intro c hc; injection hc with hc; exact hf j c (by rw [he, hc])
    · split
      · rename_i e he; intro c hc; injection hc with hc; exact ih c (by rw [he, hc])
      · exact total_ok _

theorem foldImport_total {f : String → JVal F → Option (Res F)}
    (hf : ∀ k j r, f k j = some r → Total r) :
    ∀ (fields : List (String × JVal F)) acc, (∀ kv ∈ fields, f kv.1 kv.2 ≠ none) → Total (foldImport f fields acc) := by
  intro fields
  induction fields with
  | nil => intro acc _; exact total_ok _
  | cons hd tl ih =>
    intro acc hk
    obtain ⟨k, j⟩ := hd
    simp only [foldImport]
    split
    · rename_i hn; exact absurd hn (hk (k, j) List.mem_cons_self)
    · rename_i e he; intro c hc; injection hc with hc; exact hf k j _ he c (by rw [hc])
    · exact ih _ (fun kv hkv => hk kv (List.mem_cons_of_mem _ hkv))

theorem ofJFields_keys (fields : List (String × JVal F)) :
    (PVal.ofJVal.ofJFields fields).map (·.1) = fields.map (·.1) := by
  induction fields with
  | nil => rfl
  | cons hd tl ih => obtain ⟨k, j⟩ := hd; simp [PVal.ofJVal.ofJFields, ih]

mutual
theorem importValue_total : ∀ (dt : DType F) (j : JVal F), Total (importValue dt j)
  | .double min max ar rr, j => by simp only [importValue, call]; exact conv_total _ _ _ _
  | .int min max, j => by simp only [importValue, call]; exact conv_total _ _ _ _
  | .bool, j => by simp only [importValue, call]; exact conv_total _ _ _ _
  | .enum ms, j => by simp only [importValue, call]; exact conv_total _ _ _ _
  | .string _ _ _, j => by simp only [importValue, call]; exact conv_total _ _ _ _
  | .scaled scale _ _ _ _, j => by simp only [importValue]; exact total_map (scaledImport_total _ _)
  | .blob _ _, j => by simp only [importValue]; exact total_map (blobImport_total _)
  | .array elem lo hi, j => by
    simp only [importValue]
    split
    · split
      · exact total_range
      · split
        · exact total_range
        · exact total_map (mapImport_total (fun j => importValue_total elem j) _)
    · exact total_wrongType
  | .tuple elems, j => by
    simp only [importValue]
    split
    · split
      · exact total_wrongType
      · exact total_map (importTuple_total elems _)
    · exact total_wrongType
  | .struct ms opt cl, j => by
    simp only [importValue]
    split
    · rename_i fields
      split
      · rename_i hcheck
        apply total_map
        apply foldImport_total (fun k j r h => importMember_total ms k j r h)
        -- every key of the object names a member (`check_type`): `self.members[k]` cannot raise KeyError
        intro kv hkv
        unfold structCheck at hcheck
        simp only [Bool.and_eq_true, List.all_eq_true] at hcheck
        have hmem : kv.1 ∈ (PVal.ofJVal.ofJFields fields).map (·.1) := by
          rw [ofJFields_keys]; exact List.mem_map_of_mem hkv
        obtain ⟨kv', hkv', hk'⟩ := List.mem_map.1 hmem
        have := hcheck.1 kv' hkv'
        rw [hk'] at this
        exact importMember_ne_none ms kv.1 kv.2 (by simpa using this)
      · exact total_wrongType
    · exact total_wrongType
theorem importTuple_total : ∀ (ts : List (DType F)) (js : List (JVal F)), Total (importTuple ts js)
  | [], js => by simp only [importTuple]; exact total_ok _
  | _ :: _, [] => by simp only [importTuple]; exact total_ok _
  | t :: ts, j :: js => by
    simp only [importTuple]
    have h1 := importValue_total t j
    have h2 := importTuple_total ts js
    split
    · rename_i e he; intro c hc; injection hc with hc; exact h1 c (by rw [he, hc])
    · split
      · rename_i e he; intro c hc; injection hc with hc; exact h2 c (by rw [he, hc])
      · exact total_ok _
theorem importMember_total : ∀ (ms : List (String × DType F)) (k : String) (j : JVal F) (r : Res F),
    importMember ms k j = some r → Total r
  | [], k, j, r, h => by simp [importMember] at h
  | (k0, t) :: rest, k, j, r, h => by
    simp only [importMember] at h
    split at h
    · injection h with h; rw [← h]; exact importValue_total t j
    · exact importMember_total rest k j r h
theorem importMember_ne_none : ∀ (ms : List (String × DType F)) (k : String) (j : JVal F),
    k ∈ ms.map (·.1) → importMember ms k j ≠ none
  | [], k, j, h => by simp at h
  | (k0, t) :: rest, k, j, h => by
    simp only [importMember]
    split
    · simp
    · rename_i hk
      simp only [List.map_cons, List.mem_cons] at h
      rcases h with h | h
      · exact absurd h.symm hk
      · exact importMember_ne_none rest k j h
end

theorem acceptWire_total (dt : DType F) (j : JVal F) (prev : Option (PVal F)) : Total (acceptWire dt j prev) := by
  unfold acceptWire
  have h1 := importValue_total dt j
  split
  · rename_i e he; intro c hc; injection hc with hc; exact h1 c (by rw [he, hc])
  · exact conv_total _ _ _ _

end Frappy.Lemmas.C01
