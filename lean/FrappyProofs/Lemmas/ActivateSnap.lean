import FrappyProofs.Lemmas.Activate
/-
C08, clause `SnapshotComplete`: in every reachable state the trace is accepted by `snapMon`, i.e.
every delivered update carries the cache's value of that moment, and at every `active` reply every
exported parameter of the scope has been delivered since the request marker.
-/
namespace Frappy.Activate
open Frappy.Spec.C08

/-! ## the monitor state after a trace -/

def snapAfter (cfg : Cfg) (cache : Mod → Par → Entry) (tr : List Obs) : SnapSt :=
  (snapMon cfg cache).after (snapMon cfg cache).init tr

def SnapAcc (cfg : Cfg) (cache : Mod → Par → Entry) (tr : List Obs) : Prop :=
  (snapMon cfg cache).acceptsFrom (snapMon cfg cache).init tr = true

theorem snapAfter_append (cfg : Cfg) (cache) (tr : List Obs) (o : Obs) :
    snapAfter cfg cache (tr ++ [o]) = snapNext cfg (snapAfter cfg cache tr) o :=
  Mon.after_append (snapMon cfg cache) _ tr o

theorem snapAcc_append (cfg : Cfg) (cache) (tr : List Obs) (o : Obs) :
    SnapAcc cfg cache (tr ++ [o]) ↔ SnapAcc cfg cache tr ∧ snapOk (snapAfter cfg cache tr) o = true := by
  unfold SnapAcc
  rw [Mon.acceptsFrom_append, Bool.and_eq_true]
  rfl

@[simp] theorem snapAfter_nil_pend (cfg : Cfg) (cache) (c : Conn) : (snapAfter cfg cache []).pend c = none := rfl
@[simp] theorem snapAfter_nil_cur (cfg : Cfg) (cache) : (snapAfter cfg cache []).cur = cache := rfl

/-! ### `snapNext`, per event -/

@[simp] theorem snapNext_reqStart_cur (cfg : Cfg) (s : SnapSt) (c : Conn) (r : Req) :
    (snapNext cfg s (.reqStart c r)).cur = s.cur := by cases r <;> rfl
@[simp] theorem snapNext_reply_cur (cfg : Cfg) (s : SnapSt) (c : Conn) (r : Req) (ok : Bool) :
    (snapNext cfg s (.reply c r ok)).cur = s.cur := rfl
@[simp] theorem snapNext_deliver_cur (cfg : Cfg) (s : SnapSt) (c : Conn) (m p e) :
    (snapNext cfg s (.deliver c m p e)).cur = s.cur := rfl
@[simp] theorem snapNext_emitDone_cur (cfg : Cfg) (s : SnapSt) (k : Nat) :
    (snapNext cfg s (.emitDone k)).cur = s.cur := rfl
@[simp] theorem snapNext_emit_cur (cfg : Cfg) (s : SnapSt) (k : Nat) (m p e) :
    (snapNext cfg s (.emit k m p e)).cur = fun m' p' => if m' = m ∧ p' = p then e else s.cur m' p' := rfl

@[simp] theorem snapNext_emitDone_pend (cfg : Cfg) (s : SnapSt) (k : Nat) :
    (snapNext cfg s (.emitDone k)).pend = s.pend := rfl
@[simp] theorem snapNext_emit_pend (cfg : Cfg) (s : SnapSt) (k : Nat) (m p e) :
    (snapNext cfg s (.emit k m p e)).pend = s.pend := rfl
theorem snapNext_reqStart_pend_other (cfg : Cfg) (s : SnapSt) (c c' : Conn) (r : Req) (h : c' ≠ c) :
    (snapNext cfg s (.reqStart c r)).pend c' = s.pend c' := by
  cases r <;> simp [snapNext, h]
theorem snapNext_reply_pend_other (cfg : Cfg) (s : SnapSt) (c c' : Conn) (r : Req) (ok : Bool) (h : c' ≠ c) :
    (snapNext cfg s (.reply c r ok)).pend c' = s.pend c' := by
  simp [snapNext, h]
theorem snapNext_deliver_pend_other (cfg : Cfg) (s : SnapSt) (c c' : Conn) (m p e) (h : c' ≠ c) :
    (snapNext cfg s (.deliver c m p e)).pend c' = s.pend c' := by
  simp [snapNext, h]
@[simp] theorem snapNext_reqStart_activate_pend (cfg : Cfg) (s : SnapSt) (c : Conn) (sc : Scope) :
    (snapNext cfg s (.reqStart c (.activate sc))).pend c = some (scopeItems cfg sc) := by
  simp [snapNext]
@[simp] theorem snapNext_reply_pend (cfg : Cfg) (s : SnapSt) (c : Conn) (r : Req) (ok : Bool) :
    (snapNext cfg s (.reply c r ok)).pend c = none := by
  simp [snapNext]
@[simp] theorem snapNext_deliver_pend (cfg : Cfg) (s : SnapSt) (c : Conn) (m p e) :
    (snapNext cfg s (.deliver c m p e)).pend c = (s.pend c).map (fun l => l.filter (fun x => x != (m, p))) := by
  simp [snapNext]

theorem snapOk_reply (s : SnapSt) (c : Conn) (r : Req) (ok : Bool) :
    snapOk s (.reply c r ok) = true ↔ ∀ sc, r = .activate sc → ok = true → s.pend c = some [] := by
  cases r <;> cases ok <;> simp [snapOk]

/-! ## what a request thread still owes its connection -/

def items (cfg : Cfg) (s : Scope) (l : List Mod) : List (Mod × Par) :=
  l.flatMap (fun m => (scopePars cfg s m).map (fun p => (m, p)))

theorem items_nil (cfg : Cfg) (s : Scope) : items cfg s [] = [] := rfl
theorem items_cons (cfg : Cfg) (s : Scope) (m : Mod) (rest : List Mod) :
    items cfg s (m :: rest) = (scopePars cfg s m).map (fun p => (m, p)) ++ items cfg s rest := by
  simp [items]
theorem items_scopeMods (cfg : Cfg) (s : Scope) : items cfg s (scopeMods cfg s) = scopeItems cfg s := rfl

/-- an upper bound of what is still to be delivered before the `active` reply, by program counter -/
def owed (cfg : Cfg) : HPc → Option (List (Mod × Par))
  | .start (.activate s) => some (scopeItems cfg s)
  | .wantSub (.activate s) => some (scopeItems cfg s)
  | .relSub (.activate s) => some (scopeItems cfg s)
  | .wantUpd s m rest => some (items cfg s (m :: rest))
  | .snapMod s m ps rest => some (ps.map (fun p => (m, p)) ++ items cfg s rest)
  | .snapSend s m p _ ps rest => some ((m, p) :: (ps.map (fun p => (m, p)) ++ items cfg s rest))
  | .relDisp (.activate _) true => some []
  | .rep (.activate _) true => some []
  | _ => none

@[simp] theorem owed_idle (cfg : Cfg) : owed cfg .idle = none := rfl
@[simp] theorem owed_done (cfg : Cfg) : owed cfg .done = none := rfl
@[simp] theorem owed_wantAcc (cfg : Cfg) (w m p e n) : owed cfg (.wantAcc w m p e n) = none := rfl
@[simp] theorem owed_relAcc (cfg : Cfg) (w m p e n) : owed cfg (.relAcc w m p e n) = none := rfl
@[simp] theorem owed_afterCall (cfg : Cfg) (w m p e n) : owed cfg (afterCall w m p e n) = none := by
  unfold afterCall; split <;> rfl
@[simp] theorem owed_afterStart (cfg : Cfg) (r : Req) : owed cfg (afterStart cfg r) = owed cfg (.start r) := by
  cases r with
  | rw w m p e => by_cases hk : cfg.rw w m p = .calls <;> simp [afterStart, hk, owed]
  | activate s => rfl
  | _ => rfl
@[simp] theorem owed_wantSub (cfg : Cfg) (r : Req) : owed cfg (.wantSub r) = owed cfg (.start r) := by
  cases r <;> rfl
@[simp] theorem owed_relSub (cfg : Cfg) (r : Req) : owed cfg (.relSub r) = owed cfg (.start r) := by
  cases r <;> rfl
@[simp] theorem owed_start_disconnect (cfg : Cfg) : owed cfg (.start .disconnect) = none := rfl
@[simp] theorem owed_relDisp_false (cfg : Cfg) (r : Req) : owed cfg (.relDisp r false) = none := by
  cases r <;> rfl
@[simp] theorem owed_rep (cfg : Cfg) (r : Req) (ok : Bool) : owed cfg (.rep r ok) = owed cfg (.relDisp r ok) := by
  cases r <;> cases ok <;> rfl
@[simp] theorem owed_wantUpd (cfg : Cfg) (s m rest) :
    owed cfg (.wantUpd s m rest) = some ((scopePars cfg s m).map (fun p => (m, p)) ++ items cfg s rest) := by
  simp [owed, items_cons]
@[simp] theorem owed_snapMod (cfg : Cfg) (s m ps rest) :
    owed cfg (.snapMod s m ps rest) = some (ps.map (fun p => (m, p)) ++ items cfg s rest) := rfl
@[simp] theorem owed_snapSend (cfg : Cfg) (s m p e ps rest) :
    owed cfg (.snapSend s m p e ps rest) = some ((m, p) :: (ps.map (fun p => (m, p)) ++ items cfg s rest)) := rfl
@[simp] theorem owed_afterSnap (cfg : Cfg) (s : Scope) (l : List Mod) :
    owed cfg (afterSnap s l) = some (items cfg s l) := by
  cases l with
  | nil => rfl
  | cons m rest => simp [afterSnap, items_cons]
@[simp] theorem owed_afterTable (cfg : Cfg) (c : Conn) (r : Req) :
    owed cfg (afterTable cfg c r) = owed cfg (.start r) := by
  cases r with
  | activate s => simp only [afterTable, owed_afterSnap]; rfl
  | ident => simp only [afterTable]; cases (!cfg.logFails c) <;> rfl
  | _ => rfl
@[simp] theorem owed_firstPc (cfg : Cfg) (r : Req) : owed cfg (firstPc r) = owed cfg (.start r) := by
  cases r <;> rfl
theorem owed_relDisp_activate (cfg : Cfg) (r : Req) (ok : Bool) (A) (h : owed cfg (.relDisp r ok) = some A) :
    A = [] ∧ ok = true ∧ ∃ s, r = .activate s := by
  cases r <;> cases ok <;> simp_all [owed]
theorem owed_relDisp_activate_true (cfg : Cfg) (s : Scope) : owed cfg (.relDisp (.activate s) true) = some [] := rfl

/-- the connection has a running `activate` and everything still pending lies in `A` -/
def PendOk (pend : Option (List (Mod × Par))) (A : List (Mod × Par)) : Prop :=
  ∃ l, pend = some l ∧ ∀ x ∈ l, x ∈ A

theorem pendOk_nil {pend} (h : PendOk pend []) : pend = some [] := by
  obtain ⟨l, h1, h2⟩ := h
  cases l with
  | nil => exact h1
  | cons x xs => exact absurd (h2 x (by simp)) (by simp)

theorem pendOk_filter {pend A} (y : Mod × Par) (h : PendOk pend A) :
    PendOk (pend.map (fun l => l.filter (fun x => x != y))) A := by
  obtain ⟨l, h1, h2⟩ := h
  refine ⟨l.filter (fun x => x != y), by simp [h1], ?_⟩
  intro x hx
  exact h2 x (List.mem_filter.1 hx).1

theorem pendOk_filter_cons {pend A} (y : Mod × Par) (h : PendOk pend (y :: A)) :
    PendOk (pend.map (fun l => l.filter (fun x => x != y))) A := by
  obtain ⟨l, h1, h2⟩ := h
  refine ⟨l.filter (fun x => x != y), by simp [h1], ?_⟩
  intro x hx
  have hx' := List.mem_filter.1 hx
  have := h2 x hx'.1
  simp only [List.mem_cons] at this
  rcases this with h3 | h3
  · simp [h3] at hx'
  · exact h3

theorem pendOk_deliver (cfg : Cfg) (s : SnapSt) (c c' : Conn) (m p e) (A) (h : PendOk (s.pend c') A) :
    PendOk ((snapNext cfg s (.deliver c m p e)).pend c') A := by
  by_cases hc : c' = c
  · subst hc; rw [snapNext_deliver_pend]; exact pendOk_filter _ h
  · rw [snapNext_deliver_pend_other _ _ _ _ _ _ _ hc]; exact h

theorem pendOk_reqStart (cfg : Cfg) (s : SnapSt) (c : Conn) (r : Req) (A) (h : owed cfg (.start r) = some A) :
    PendOk ((snapNext cfg s (.reqStart c r)).pend c) A := by
  cases r with
  | activate sc =>
    simp only [owed, Option.some.injEq] at h
    subst h
    exact ⟨_, snapNext_reqStart_activate_pend cfg s c sc, fun _ hx => hx⟩
  | _ => simp [owed] at h

/-! ## the entry a thread holds for a message it is about to send -/

def hHeld : HPc → Option (Mod × Par × Entry)
  | .snapSend _ m p e _ _ => some (m, p, e)
  | _ => none

def uHeld : UPc → Option (Mod × Par × Entry)
  | .wantSub m p e => some (m, p, e)
  | .sending m p e _ => some (m, p, e)
  | _ => none

theorem hHeld_holds {pc : HPc} {m p e} (h : hHeld pc = some (m, p, e)) : hHoldsUpd pc m = true := by
  cases pc <;> simp_all [hHeld]
theorem uHeld_holds {pc : UPc} {m p e} (h : uHeld pc = some (m, p, e)) : uHoldsUpd pc m = true := by
  cases pc <;> simp_all [uHeld]

@[simp] theorem hHeld_idle : hHeld .idle = none := rfl
@[simp] theorem hHeld_done : hHeld .done = none := rfl
@[simp] theorem hHeld_start (r) : hHeld (.start r) = none := rfl
@[simp] theorem hHeld_wantSub (r) : hHeld (.wantSub r) = none := rfl
@[simp] theorem hHeld_relSub (r) : hHeld (.relSub r) = none := rfl
@[simp] theorem hHeld_wantUpd (s m rest) : hHeld (.wantUpd s m rest) = none := rfl
@[simp] theorem hHeld_snapMod (s m ps rest) : hHeld (.snapMod s m ps rest) = none := rfl
@[simp] theorem hHeld_snapSend (s m p e ps rest) : hHeld (.snapSend s m p e ps rest) = some (m, p, e) := rfl
@[simp] theorem hHeld_relDisp (r ok) : hHeld (.relDisp r ok) = none := rfl
@[simp] theorem hHeld_wantAcc (w m p e n) : hHeld (.wantAcc w m p e n) = none := rfl
@[simp] theorem hHeld_relAcc (w m p e n) : hHeld (.relAcc w m p e n) = none := rfl
@[simp] theorem hHeld_afterCall (w m p e n) : hHeld (afterCall w m p e n) = none := by
  unfold afterCall; split <;> rfl
@[simp] theorem hHeld_afterStart (cfg r) : hHeld (afterStart cfg r) = none := by
  cases r with
  | rw w m p e => by_cases hk : cfg.rw w m p = .calls <;> simp [afterStart, hk, hHeld]
  | _ => rfl
@[simp] theorem hHeld_rep (r ok) : hHeld (.rep r ok) = none := rfl
@[simp] theorem hHeld_afterSnap (s l) : hHeld (afterSnap s l) = none := by cases l <;> rfl
@[simp] theorem hHeld_afterTable (cfg c r) : hHeld (afterTable cfg c r) = none := by
  cases r <;> simp [afterTable]
@[simp] theorem hHeld_firstPc (r) : hHeld (firstPc r) = none := by cases r <;> rfl
@[simp] theorem uHeld_idle : uHeld .idle = none := rfl
@[simp] theorem uHeld_done : uHeld .done = none := rfl
@[simp] theorem uHeld_wantSub (m p e) : uHeld (.wantSub m p e) = some (m, p, e) := rfl
@[simp] theorem uHeld_sending (m p e l) : uHeld (.sending m p e l) = some (m, p, e) := rfl
@[simp] theorem uHeld_relUpd (m em) : uHeld (.relUpd m em) = none := rfl

/-! ## the invariant -/

structure SnapInv (cfg : Cfg) (cache : Mod → Par → Entry) (σ : State) : Prop where
  acc : SnapAcc cfg cache σ.trace
  cur : (snapAfter cfg cache σ.trace).cur = σ.cache
  uheld : ∀ k m p e, uHeld (σ.upc k) = some (m, p, e) → σ.cache m p = e
  hheld : ∀ c m p e, hHeld (σ.hpc c) = some (m, p, e) → σ.cache m p = e
  pend : ∀ c A, owed cfg (σ.hpc c) = some A → PendOk ((snapAfter cfg cache σ.trace).pend c) A

theorem snapInv_init (cfg : Cfg) (hs us cache) : SnapInv cfg cache (init hs us cache) := by
  constructor
  · simp [init, SnapAcc, Mon.acceptsFrom]
  · simp [init]
  · intro k m p e h; simp [init] at h
  · intro c m p e h; simp [init] at h
  · intro c A h; simp [init] at h

/-! ## request-thread actions -/

theorem snap_cur_stepH (cfg : Cfg) (cache) (σ σ' : State) (c : Conn) (hI : SnapInv cfg cache σ)
    (hs : stepH cfg σ c = some σ') : (snapAfter cfg cache σ'.trace).cur = σ'.cache := by
  have hcur := hI.cur
  unfold stepH at hs
  step_cases hs
  all_goals (try simp only [tableWrite_trace, tableWrite_cache]); (try exact hcur)
  all_goals
    try dsimp only
    try split
    all_goals simp [snapAfter_append, hcur]

theorem snap_uheld_stepH (cfg : Cfg) (cache) (σ σ' : State) (c : Conn) (hL : LockInv σ) (hI : SnapInv cfg cache σ)
    (hs : stepH cfg σ c = some σ') : ∀ k m p e, uHeld (σ'.upc k) = some (m, p, e) → σ'.cache m p = e := by
  obtain ⟨_, f2, _, f4, _⟩ := stepH_frame cfg σ σ' c (hL.noStartDisc c) hs
  rw [f2, f4]; exact hI.uheld

theorem snap_hheld_stepH (cfg : Cfg) (cache) (σ σ' : State) (c : Conn) (hL : LockInv σ) (hI : SnapInv cfg cache σ)
    (hs : stepH cfg σ c = some σ') : ∀ c' m p e, hHeld (σ'.hpc c') = some (m, p, e) → σ'.cache m p = e := by
  obtain ⟨f1, _, _, f4, _⟩ := stepH_frame cfg σ σ' c (hL.noStartDisc c) hs
  intro c' m p e h
  rw [f4]
  by_cases hc : c' = c
  · subst hc
    unfold stepH at hs
    step_cases hs
    all_goals
      simp only [set_same] at h
      try split at h
      all_goals simp at h
    obtain ⟨h1, h2, h3⟩ := h
    subst h1 h2 h3
    rfl
  · rw [f1, set_other _ _ _ _ hc] at h
    exact hI.hheld c' m p e h

theorem snap_pend_stepH (cfg : Cfg) (cache) (σ σ' : State) (c : Conn) (hI : SnapInv cfg cache σ)
    (hs : stepH cfg σ c = some σ') :
    ∀ c' A, owed cfg (σ'.hpc c') = some A → PendOk ((snapAfter cfg cache σ'.trace).pend c') A := by
  have hpend := hI.pend
  intro c' A hA
  by_cases hc : c' = c
  · subst hc
    have h0 := hpend c'
    unfold stepH at hs
    step_cases hs
    all_goals
      simp only [set_same, tableWrite_trace] at hA ⊢
    all_goals clear hpend hI
    all_goals
      first
      | (simp at hA; done)
      | (subst_vars; simp at hA; done)
      | (refine h0 A ?_; clear h0; simp_all; done)
      | (rw [snapAfter_append]; refine pendOk_reqStart _ _ _ _ _ ?_; simpa using hA)
      | (rw [snapAfter_append, snapNext_deliver_pend]; refine pendOk_filter_cons _ (h0 _ ?_); clear h0; simp_all; done)
  · unfold stepH at hs
    step_cases hs
    all_goals
      simp only [set_other _ _ _ _ hc, tableWrite_trace] at hA ⊢
      have h0 := hpend c' A hA
      try split
      all_goals
        try simp only [snapAfter_append, snapNext_reqStart_pend_other _ _ _ _ _ hc,
          snapNext_reply_pend_other _ _ _ _ _ _ hc, snapNext_deliver_pend_other _ _ _ _ _ _ _ hc]
        exact h0

theorem snap_acc_stepH (cfg : Cfg) (cache) (σ σ' : State) (c : Conn) (hI : SnapInv cfg cache σ)
    (hs : stepH cfg σ c = some σ') : SnapAcc cfg cache σ'.trace := by
  have hacc := hI.acc
  have hcur := hI.cur
  have hheld := hI.hheld c
  have hpend := hI.pend c
  unfold stepH at hs
  step_cases hs
  all_goals (try simp only [tableWrite_trace]); (try exact hacc)
  all_goals
    try dsimp only
    rw [snapAcc_append]
    refine ⟨hacc, ?_⟩
    try (simp [snapOk]; done)
  · subst_vars; rfl
  · rename_i heq
    simp only [snapOk, hcur]
    rw [hheld _ _ _ (by rw [heq]; rfl)]
    simp
  · rename_i heq
    rw [snapOk_reply]
    intro sc h1 h2
    subst h1 h2
    exact pendOk_nil (hpend [] (by rw [heq]; rfl))

theorem snapInv_stepH (cfg : Cfg) (cache) (σ σ' : State) (c : Conn) (hL : LockInv σ) (hI : SnapInv cfg cache σ)
    (hs : stepH cfg σ c = some σ') : SnapInv cfg cache σ' :=
  ⟨snap_acc_stepH cfg cache σ σ' c hI hs, snap_cur_stepH cfg cache σ σ' c hI hs,
   snap_uheld_stepH cfg cache σ σ' c hL hI hs, snap_hheld_stepH cfg cache σ σ' c hL hI hs,
   snap_pend_stepH cfg cache σ σ' c hI hs⟩

/-! ## updater actions -/

/-- a store goes only to a module whose update lock is free -/
theorem stepU_cache_locked (cfg : Cfg) (σ σ' : State) (k : Nat) (arg : Conn) (hs : stepU cfg σ k arg = some σ')
    (m' : Mod) (p' : Par) (h : σ.upd m' ≠ none) : σ'.cache m' p' = σ.cache m' p' := by
  unfold stepU at hs
  step_cases hs
  all_goals try rfl
  all_goals
    dsimp only
    split
    · rename_i hh; rw [hh.1] at h; contradiction
    · rfl

theorem snap_cur_stepU (cfg : Cfg) (cache) (σ σ' : State) (k : Nat) (arg : Conn) (hI : SnapInv cfg cache σ)
    (hs : stepU cfg σ k arg = some σ') : (snapAfter cfg cache σ'.trace).cur = σ'.cache := by
  have hcur := hI.cur
  unfold stepU at hs
  step_cases hs
  all_goals (try exact hcur)
  all_goals
    try dsimp only
    try split
    all_goals simp [snapAfter_append, hcur]

theorem snap_hheld_stepU (cfg : Cfg) (cache) (σ σ' : State) (k : Nat) (arg : Conn) (hL : LockInv σ)
    (hI : SnapInv cfg cache σ) (hs : stepU cfg σ k arg = some σ') :
    ∀ c m p e, hHeld (σ'.hpc c) = some (m, p, e) → σ'.cache m p = e := by
  obtain ⟨_, f2, _⟩ := stepU_frame cfg σ σ' k arg hs
  intro c m p e h
  rw [f2] at h
  have h1 := (hL.upd m (.h c)).1 (hHeld_holds h)
  rw [stepU_cache_locked cfg σ σ' k arg hs m p (by simp [h1])]
  exact hI.hheld c m p e h

theorem snap_uheld_stepU (cfg : Cfg) (cache) (σ σ' : State) (k : Nat) (arg : Conn) (hL : LockInv σ)
    (hI : SnapInv cfg cache σ) (hs : stepU cfg σ k arg = some σ') :
    ∀ k' m p e, uHeld (σ'.upc k') = some (m, p, e) → σ'.cache m p = e := by
  intro k' m p e h
  by_cases hk : k' = k
  · subst hk
    have hold := hI.uheld k'
    unfold stepU at hs
    step_cases hs
    all_goals
      simp only [set_same] at h
      try (simp at h; done)
    all_goals
      simp only [uHeld_wantSub, uHeld_sending, Option.some.injEq, Prod.mk.injEq] at h
      obtain ⟨h1, h2, h3⟩ := h
      subst h1 h2 h3
      first
      | (simp; done)
      | exact hold _ _ _ (by simp [*])
  · obtain ⟨f1, _⟩ := stepU_frame cfg σ σ' k arg hs
    rw [f1, set_other _ _ _ _ hk] at h
    have h1 := (hL.upd m (.u k')).1 (uHeld_holds h)
    rw [stepU_cache_locked cfg σ σ' k arg hs m p (by simp [h1])]
    exact hI.uheld k' m p e h

theorem snap_pend_stepU (cfg : Cfg) (cache) (σ σ' : State) (k : Nat) (arg : Conn) (hI : SnapInv cfg cache σ)
    (hs : stepU cfg σ k arg = some σ') :
    ∀ c A, owed cfg (σ'.hpc c) = some A → PendOk ((snapAfter cfg cache σ'.trace).pend c) A := by
  have hpend := hI.pend
  intro c A hA
  unfold stepU at hs
  step_cases hs
  all_goals
    have h0 := hpend c A hA
    try dsimp only
    try split
    all_goals
      try rw [snapAfter_append]
      first
      | exact h0
      | exact pendOk_deliver _ _ _ _ _ _ _ _ h0
      | (simp only [snapNext_emit_pend, snapNext_emitDone_pend]; exact h0)

theorem snap_acc_stepU (cfg : Cfg) (cache) (σ σ' : State) (k : Nat) (arg : Conn) (hI : SnapInv cfg cache σ)
    (hs : stepU cfg σ k arg = some σ') : SnapAcc cfg cache σ'.trace := by
  have hacc := hI.acc
  have hcur := hI.cur
  have hheld := hI.uheld k
  unfold stepU at hs
  step_cases hs
  all_goals (try exact hacc)
  all_goals
    try dsimp only
    try split
    all_goals
      try exact hacc
      rw [snapAcc_append]
      refine ⟨hacc, ?_⟩
      try (simp [snapOk]; done)
  all_goals
    rename_i m p e x l heq hmem
    simp only [snapOk, hcur]
    rw [hheld m p e (by rw [heq]; rfl)]
    simp

theorem snapInv_stepU (cfg : Cfg) (cache) (σ σ' : State) (k : Nat) (arg : Conn) (hL : LockInv σ)
    (hI : SnapInv cfg cache σ) (hs : stepU cfg σ k arg = some σ') : SnapInv cfg cache σ' :=
  ⟨snap_acc_stepU cfg cache σ σ' k arg hI hs, snap_cur_stepU cfg cache σ σ' k arg hI hs,
   snap_uheld_stepU cfg cache σ σ' k arg hL hI hs, snap_hheld_stepU cfg cache σ σ' k arg hL hI hs,
   snap_pend_stepU cfg cache σ σ' k arg hI hs⟩

/-! ## all reachable states -/

theorem snapInv_step (cfg : Cfg) (cache) (σ σ' : State) (a : Act) (hL : LockInv σ) (hI : SnapInv cfg cache σ)
    (hs : step cfg σ a = some σ') : SnapInv cfg cache σ' := by
  unfold step at hs
  split at hs
  · exact snapInv_stepH cfg cache σ σ' _ hL hI hs
  · exact snapInv_stepU cfg cache σ σ' _ _ hL hI (stepUG_some hs)

theorem snapInv_reach (cfg : Cfg) (hs us cache) (σ : State) (h : Reach cfg (init hs us cache) σ) :
    SnapInv cfg cache σ := by
  induction h with
  | init => exact snapInv_init cfg hs us cache
  | step a hr hstep ih => exact snapInv_step cfg cache _ _ a (lockInv_reach cfg hs us cache _ hr) ih hstep

/-- C08 `SnapshotComplete`, on every reachable state: each delivered update carries the cache's value of that
moment, and at each `active` reply every exported parameter of the scope has been delivered since the marker -/
theorem snapshot_reach (cfg : Cfg) (hs us cache) (σ : State) (h : Reach cfg (init hs us cache) σ) :
    (snapMon cfg cache).acceptsFrom (snapMon cfg cache).init σ.trace = true :=
  (snapInv_reach cfg hs us cache σ h).acc

theorem snapshotComplete_reach (cfg : Cfg) (hs us cache) (σ : State) (h : Reach cfg (init hs us cache) σ) :
    SnapshotComplete cfg cache σ.trace :=
  snapshot_reach cfg hs us cache σ h

end Frappy.Activate
