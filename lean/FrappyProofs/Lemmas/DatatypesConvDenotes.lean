import FrappyProofs.Lemmas.DatatypesDenotesM
/-
C01: what `__call__` returns denotes the value offered (`ConvDenotes`: conversion only — no previous value, no
limits, no clamping) — mutual induction over datatype trees, call mode.
-/
set_option linter.unusedSectionVars false
set_option linter.unusedVariables false
namespace Frappy.Lemmas.C01
open FloatOps DType Frappy.Datatypes Frappy.Spec.C01
open PVal (toFloat? seqItems? prevItems prevFields dictGet dictSet isNone given notOffered)

variable {F : Type} [FloatOps F] [LawfulFloatOps F]

theorem notOffered_nil (items : List (String × PVal F)) : notOffered items [] = [] := by
  unfold notOffered; rfl

mutual
theorem call_convDenotes : ∀ (dt : DType F) (v : PVal F) (prev : Option (PVal F)) (r : PVal F),
    dt.WF → conv .call dt v prev = .ok r → ConvDenotes dt v r
  | .double min max ar rr, v, prev, r, hwf, h => by
    simp only [conv] at h
    obtain ⟨x, hx, hr⟩ := map_ok h
    obtain ⟨x0, hx0, hn, he⟩ := doubleCall_ok hx
    rw [hr]; simp only [ConvDenotes, hx0]
    exact ⟨hn, by rw [he]; exact same_refl _⟩
  | .int min max, v, prev, r, hwf, h => by
    simp only [conv] at h
    obtain ⟨x, hx, hr⟩ := map_ok h
    rw [hr]; simp only [ConvDenotes]; exact intCall_denotes hx
  | .scaled scale min max ar rr, v, prev, r, hwf, h => by
    simp only [conv] at h
    obtain ⟨y, hy, hr⟩ := map_ok h
    obtain ⟨x, k, w, hx, hk, hw, hyw, _⟩ := scaledCall_ok hy
    rw [hr]; simp only [ConvDenotes, hx, hk]
    unfold ofGrid; rw [hw, hyw]; exact isSome_self _
  | .bool, v, prev, r, hwf, h => by
    simp only [conv] at h
    obtain ⟨x, hx, hr⟩ := map_ok h
    rw [hr]; simp only [ConvDenotes]; exact boolCall_denotes hx
  | .enum ms, v, prev, r, hwf, h => by
    simp only [conv] at h
    obtain ⟨n, k, hr, _, _⟩ := enumCall_ok h
    subst hr
    simp only [ConvDenotes]; exact enumCall_denotes h
  | .string minc maxc utf8, v, prev, r, hwf, h => by
    simp only [conv] at h
    obtain ⟨x, hx, hr⟩ := map_ok h
    rw [hr, (stringCall_sound hx).2]; simp only [ConvDenotes]
  | .blob minb maxb, v, prev, r, hwf, h => by
    simp only [conv] at h
    obtain ⟨x, hx, hr⟩ := map_ok h
    rw [hr, (blobCall_sound hx).2]; simp only [ConvDenotes]
  | .array elem lo hi, v, prev, r, hwf, h => by
    simp only [conv] at h
    simp only [DType.WF] at hwf
    split at h
    · cases h
    · rename_i vs hvs
      split at h
      · cases h
      · split at h
        · cases h
        · obtain ⟨rs, hrs, hr⟩ := map_ok h
          have hrs := mapErr_ok hrs
          rw [hr]; simp only [ConvDenotes]; rw [hvs]; simp only
          exact mapPrev_allDen (P := fun _ x y => ConvDenotes elem x y) (Q := fun _ => True)
            (fun v p r _ h => call_convDenotes elem v p r hwf.1 h) vs _ rs (fun _ _ => trivial) hrs
  | .tuple elems, v, prev, r, hwf, h => by
    simp only [conv] at h
    simp only [DType.WF] at hwf
    split at h
    · cases h
    · rename_i vs hvs
      split at h
      · cases h
      · rename_i hlen
        obtain ⟨rs, hrs, hr⟩ := map_ok h
        have hrs := mapErr_ok hrs
        rw [hr]; simp only [ConvDenotes]; rw [hvs]; simp only
        exact callTuple_convDenotes elems vs rs hwf.2 (by simpa using hlen) hrs
  | .struct ms opt cl, v, prev, r, hwf, h => by
    simp only [conv] at h
    simp only [DType.WF] at hwf
    split at h
    · rename_i items
      split at h
      · rename_i hcheck
        obtain ⟨acc, hacc, hr⟩ := map_ok h
        have hacc := mapErr_ok hacc
        obtain ⟨acc0, h0, h1⟩ := structFold_ok hacc
        simp only [foldFields] at h0
        injection h0 with h0
        subst h0
        obtain ⟨_, b, c⟩ := foldFields_ok (M := fun k x => True) (fun _ _ _ _ => trivial) items _ acc h1
        have hf : ∀ k v r, isNone v = false → convMember .call ms k v = some (.ok r) → MemberConv ms k v r :=
          fun k v r _ hkv => callMember_convDenotes ms k v r hwf.2.2.2 hkv
        have g1 := foldFields_given (M := fun k x y => MemberConv ms k x y) hf items [] acc h1 (b (by simp))
        rw [hr]; simp only [ConvDenotes]
        unfold DenotesStruct
        refine ⟨?_, ?_, ?_⟩
        · intro kv hkv
          have := g1 kv hkv
          cases hg : given items kv.1 with
          | some v => rw [hg] at this; exact this
          | none => rw [hg] at this; simp [dictGet] at this
        · intro kv hkv hn
          exact c kv.1 (Or.inr (mem_givenKeys hkv hn))
        · intro kv hkv; cases hkv
      · cases h
    · cases h
theorem callTuple_convDenotes : ∀ (ts : List (DType F)) (vs rs : List (PVal F)), WFList ts → vs.length = ts.length →
    convTuple .call ts vs none = .ok rs → ZipConv ts vs rs
  | [], vs, rs, _, hlen, h => by
    simp only [convTuple] at h
    injection h with h
    subst h
    have : vs = [] := by simpa using hlen
    subst this
    simp only [ZipConv]
  | t :: ts, [], rs, _, hlen, h => by simp at hlen
  | t :: ts, v :: vs, rs, hwf, hlen, h => by
    simp only [convTuple] at h
    simp only [WFList] at hwf
    split at h
    · cases h
    · rename_i r hr
      split at h
      · cases h
      · rename_i rs' hrs
        injection h with h
        subst h
        simp only [ZipConv]
        exact ⟨call_convDenotes t v none r hwf.1 hr, callTuple_convDenotes ts vs rs' hwf.2 (by simpa using hlen) hrs⟩
theorem callMember_convDenotes : ∀ (ms : List (String × DType F)) (k : String) (v r : PVal F),
    WFFields ms → convMember .call ms k v = some (.ok r) → MemberConv ms k v r
  | [], k, v, r, _, h => by simp [convMember] at h
  | (k0, t) :: rest, k, v, r, hwf, h => by
    simp only [convMember] at h
    simp only [WFFields] at hwf
    simp only [MemberConv]
    split at h
    · rename_i hk
      rw [if_pos hk]
      injection h with h
      exact call_convDenotes t v none r hwf.1 h
    · rename_i hk
      rw [if_neg hk]
      exact callMember_convDenotes rest k v r hwf.2 h
end

end Frappy.Lemmas.C01
