import FrappyModel.Spec.C10
/- helper lemmas for C10 -/
namespace Frappy.Lemmas.Config
open Frappy.Config Frappy.Spec.C10

variable {DT Val : Type}

/-! ## the error list of a rejected module is never empty -/

theorem applyConfig_error_ne_nil (ops : Ops DT Val) (c : ClassDesc DT Val) (cfg : Cfg Val) (es : List CfgErr)
    (h : applyConfig ops c cfg = .error es) : es ≠ [] := by
  unfold applyConfig at h
  split at h
  · cases h; simp
  · split at h
    · cases h; simp
    · split at h
      · cases h; simp
      · cases h

/-- what an accepted configuration went through -/
structure Accepted (ops : Ops DT Val) (c : ClassDesc DT Val) (cfg : Cfg Val) (i : Instance DT Val) : Prop where
  mpRaised : (applyModProps c.modProps cfg).raised = false
  mpErrs : (applyModProps c.modProps cfg).errs = []
  poRaised : (applyParams ops c.params cfg).raised = false
  poErrs : (applyParams ops c.params cfg).errs = []
  left : leftover c cfg = []
  mandatory : checkMandatory c.modProps (applyModProps c.modProps cfg).values = []
  datatypes : checkDatatypes ops (applyParams ops c.params cfg).insts = []
  inst : i = ⟨(applyModProps c.modProps cfg).values, (applyParams ops c.params cfg).insts,
              (applyParams ops c.params cfg).writes⟩

theorem accepted_of_ok (ops : Ops DT Val) (c : ClassDesc DT Val) (cfg : Cfg Val) (i : Instance DT Val)
    (h : applyConfig ops c cfg = .ok i) : Accepted ops c cfg i := by
  unfold applyConfig at h
  split at h
  · cases h
  · rename_i hr
    split at h
    · cases h
    · rename_i h1
      split at h
      · cases h
      · rename_i h2
        simp only [Bool.or_eq_true, not_or, Bool.not_eq_true] at hr
        simp only [phase1, List.append_eq_nil_iff] at h1
        simp only [phase2, List.append_eq_nil_iff] at h2
        obtain ⟨⟨e1, e2⟩, e3⟩ := h1
        refine ⟨hr.1, e1, hr.2, e2, ?_, h2.1, h2.2, ?_⟩
        · cases hl : leftover c cfg with
          | nil => rfl
          | cons a l => simp [hl, unknownErr] at e3
        · injection h with h; exact h.symm

/-! ## the parameter fold -/

/-- the fold as a recursion which stops at the first exception -/
def runParams (ops : Ops DT Val) (cfg : Cfg Val) : List (PInst DT Val) → List (ParamDesc DT Val) → Option (List (POut DT Val))
  | _, [] => some []
  | insts, pd :: ps =>
    match addParam ops insts pd (lookup pd.name cfg) with
    | .raised => none
    | .done o => (runParams ops cfg (insts ++ [o.inst]) ps).map (o :: ·)

def writeOf (o : POut DT Val) : Option (Name × Val) := o.write.map (fun v => (o.inst.name, v))

theorem foldl_raised (ops : Ops DT Val) (cfg : Cfg Val) (ps : List (ParamDesc DT Val)) (acc : ParamsOut DT Val)
    (h : acc.raised = true) : (ps.foldl (paramStep ops cfg) acc).raised = true := by
  induction ps generalizing acc with
  | nil => exact h
  | cons pd ps ih => exact ih _ (by simp [paramStep, h])

theorem addParam_name (ops : Ops DT Val) (insts : List (PInst DT Val)) (pd : ParamDesc DT Val) (e : Option (Entry Val))
    (o : POut DT Val) (h : addParam ops insts pd e = .done o) : o.inst.name = pd.name := by
  have hw : ∀ a, (handleWrites ops insts pd a).inst.name = pd.name := by
    intro a
    unfold handleWrites
    split <;> try rfl
    split <;> try rfl
    split <;> try rfl
    split
    · simp only [startFromDefault]; split <;> rfl
    · rfl
  unfold addParam at h
  split at h
  · cases h; exact hw _
  · cases h
  · split at h
    · cases h; exact hw _
    · cases h

theorem foldl_run (ops : Ops DT Val) (cfg : Cfg Val) (ps : List (ParamDesc DT Val)) (acc : ParamsOut DT Val)
    (hacc : acc.raised = false) (h : (ps.foldl (paramStep ops cfg) acc).raised = false) :
    ∃ outs, runParams ops cfg acc.insts ps = some outs ∧
      (ps.foldl (paramStep ops cfg) acc).insts = acc.insts ++ outs.map (·.inst) ∧
      (ps.foldl (paramStep ops cfg) acc).errs = acc.errs ++ outs.flatMap (·.errs) ∧
      (ps.foldl (paramStep ops cfg) acc).writes = acc.writes ++ outs.filterMap writeOf := by
  induction ps generalizing acc with
  | nil => exact ⟨[], rfl, by simp, by simp, by simp⟩
  | cons pd ps ih =>
    simp only [List.foldl_cons] at h ⊢
    cases hadd : addParam ops acc.insts pd (lookup pd.name cfg) with
    | raised =>
      have : (paramStep ops cfg acc pd).raised = true := by simp [paramStep, hacc, hadd]
      rw [foldl_raised ops cfg ps _ this] at h
      cases h
    | done o =>
      have hname := addParam_name ops _ _ _ _ hadd
      have hstep : paramStep ops cfg acc pd =
          ⟨acc.insts ++ [o.inst], acc.errs ++ o.errs,
            addWrite acc.writes pd.name o.write, false⟩ := by
        simp [paramStep, hacc, hadd]
      rw [hstep] at h ⊢
      obtain ⟨outs, hrun, hi, he, hw⟩ := ih _ rfl h
      refine ⟨o :: outs, by simp [runParams, hadd, hrun], ?_, ?_, ?_⟩
      · rw [hi]; simp
      · rw [he]; simp
      · rw [hw]
        cases hwv : o.write with
        | none => simp [writeOf, hwv, addWrite]
        | some v => simp [writeOf, hwv, hname, addWrite]

/-- every parameter of an accepted class went through `addParam` without exception, in order -/
theorem run_mem (ops : Ops DT Val) (cfg : Cfg Val) :
    ∀ (ps : List (ParamDesc DT Val)) (insts : List (PInst DT Val)) (outs : List (POut DT Val)),
      runParams ops cfg insts ps = some outs →
      ∀ pd ∈ ps, ∃ insts' o, addParam ops insts' pd (lookup pd.name cfg) = .done o ∧ o ∈ outs := by
  intro ps
  induction ps with
  | nil => intro _ _ _ pd hpd; cases hpd
  | cons p ps ih =>
    intro insts outs h pd hpd
    simp only [runParams] at h
    cases hadd : addParam ops insts p (lookup p.name cfg) with
    | raised => simp [hadd] at h
    | done o =>
      simp only [hadd, Option.map_eq_some_iff] at h
      obtain ⟨outs', hrun, rfl⟩ := h
      rcases List.mem_cons.1 hpd with rfl | hin
      · exact ⟨insts, o, hadd, List.mem_cons_self⟩
      · obtain ⟨i', o', h1, h2⟩ := ih _ _ hrun pd hin
        exact ⟨i', o', h1, List.mem_cons_of_mem _ h2⟩

/-- the outputs are aligned with the parameters -/
theorem run_names (ops : Ops DT Val) (cfg : Cfg Val) :
    ∀ (ps : List (ParamDesc DT Val)) (insts : List (PInst DT Val)) (outs : List (POut DT Val)),
      runParams ops cfg insts ps = some outs → outs.map (·.inst.name) = ps.map (·.name) := by
  intro ps
  induction ps with
  | nil => intro _ outs h; simp [runParams] at h; subst h; rfl
  | cons p ps ih =>
    intro insts outs h
    simp only [runParams] at h
    cases hadd : addParam ops insts p (lookup p.name cfg) with
    | raised => simp [hadd] at h
    | done o =>
      simp only [hadd, Option.map_eq_some_iff] at h
      obtain ⟨outs', hrun, rfl⟩ := h
      simp [ih _ _ hrun, addParam_name ops _ _ _ _ hadd]

/-! ## the cfg loop of one parameter -/

theorem applyEntries_spec (ops : Ops DT Val) :
    ∀ (items : List (Name × Val)) (a a' : Acc DT Val) (dt : DT), a.dt = some dt →
      applyEntries ops a items = some a' →
      hasBadProp ops dt items = false ∧ a'.dt = dtAfter ops dt items ∧
      a'.value = givenFor "value" a.value items ∧ a'.default = givenFor "default" a.default items := by
  intro items
  induction items with
  | nil =>
    intro a a' dt hdt h
    simp only [applyEntries, Option.some.injEq] at h
    subst h
    simp [hasBadProp, dtAfter, givenFor, hdt]
  | cons kv rest ih =>
    intro a a' dt hdt h
    obtain ⟨k, v⟩ := kv
    simp only [applyEntries] at h
    by_cases hv : k = "value"
    · subst hv
      simp only [cfgStep, ↓reduceIte] at h
      obtain ⟨h1, h2, h3, h4⟩ := ih { a with value := some v } a' dt hdt h
      refine ⟨?_, ?_, ?_, ?_⟩
      · simp [hasBadProp, badPropEntry, Spec.C10.isValueKey, h1]
      · simp [dtAfter, Spec.C10.isValueKey, h2]
      · simpa [givenFor] using h3
      · simpa [givenFor] using h4
    · by_cases hd : k = "default"
      · subst hd
        simp only [cfgStep, hv, ↓reduceIte] at h
        obtain ⟨h1, h2, h3, h4⟩ := ih { a with default := some v } a' dt hdt h
        refine ⟨?_, ?_, ?_, ?_⟩
        · simp [hasBadProp, badPropEntry, Spec.C10.isValueKey, h1]
        · simp [dtAfter, Spec.C10.isValueKey, h2]
        · simpa [givenFor, hv] using h3
        · simpa [givenFor] using h4
      · have hvk : Spec.C10.isValueKey k = false := by simp [Spec.C10.isValueKey, hv, hd]
        simp only [cfgStep, hv, hd, ↓reduceIte] at h
        cases hown : ops.ownProp k with
        | some f =>
          simp only [hown] at h
          cases hf : f v with
          | none => simp [hf] at h
          | some v' =>
            simp only [hf] at h
            obtain ⟨h1, h2, h3, h4⟩ := ih { a with own := setKey k v' a.own } a' dt hdt h
            refine ⟨?_, ?_, ?_, ?_⟩
            · simp [hasBadProp, badPropEntry, hvk, hown, hf, h1]
            · simp [dtAfter, hvk, hown, h2]
            · simpa [givenFor, hv] using h3
            · simpa [givenFor, hd] using h4
        | none =>
          simp only [hown, hdt] at h
          cases hs : ops.setProp dt k v with
          | unknown => simp [hs] at h
          | bad => simp [hs] at h
          | ok dt' =>
            simp only [hs] at h
            obtain ⟨h1, h2, h3, h4⟩ := ih { a with dt := some dt' } a' dt' rfl h
            refine ⟨?_, ?_, ?_, ?_⟩
            · simp [hasBadProp, badPropEntry, hvk, hown, hs, h1]
            · simp [dtAfter, hvk, hown, hs, h2]
            · simpa [givenFor, hv] using h3
            · simpa [givenFor, hd] using h4

end Frappy.Lemmas.Config

namespace Frappy.Lemmas.Config
open Frappy.Config Frappy.Spec.C10
variable {DT Val : Type}

/-- what a parameter with its own datatype went through when nothing was collected for it -/
structure ParamOk (ops : Ops DT Val) (pd : ParamDesc DT Val) (dt0 : DT) (items : List (Name × Val)) (o : POut DT Val) : Prop where
  noBadProp : hasBadProp ops dt0 items = false
  dt : ∃ dt', dtAfter ops dt0 items = some dt' ∧ o.inst.dt = some dt' ∧
    (∀ x, givenFor "value" pd.value items = some x →
      (ops.convert dt' x).isSome ∧ o.inst.value = some (conv ops dt' x) ∧
      o.write = if pd.hasWrite then some x else none) ∧
    (givenFor "value" pd.value items = none → o.write = none ∧ pd.needscfg = false) ∧
    (∀ d, givenFor "default" pd.default items = some d → (ops.convert dt' d).isSome)
  own : ∀ a, applyEntries ops (classAcc pd) items = some a → o.inst.own = a.own

theorem handleWrites_ok (ops : Ops DT Val) (insts : List (PInst DT Val)) (pd : ParamDesc DT Val) (a : Acc DT Val)
    (hlim : pd.limit = none) (herr : (handleWrites ops insts pd a).errs = []) :
    ∃ dt', a.dt = some dt' ∧ (handleWrites ops insts pd a).inst.dt = some dt' ∧
      (handleWrites ops insts pd a).inst.own = a.own ∧
      (∀ x, a.value = some x → (ops.convert dt' x).isSome ∧
        (handleWrites ops insts pd a).inst.value = some (conv ops dt' x) ∧
        (handleWrites ops insts pd a).write = if pd.hasWrite then some x else none) ∧
      (a.value = none → (handleWrites ops insts pd a).write = none ∧ pd.needscfg = false) ∧
      (∀ d, a.default = some d → (ops.convert dt' d).isSome) := by
  have hder : deriveLimit ops insts pd a = .go a := by simp [deriveLimit, hlim]
  unfold handleWrites at herr ⊢
  rw [hder] at herr ⊢
  simp only at herr ⊢
  cases hdt : a.dt with
  | none => simp [hdt] at herr
  | some dt' =>
    simp only [hdt] at herr ⊢
    cases hfc : finalCheck ops dt' a with
    | some key => simp [hfc] at herr
    | none =>
      simp only [hfc] at herr ⊢
      refine ⟨dt', rfl, ?_⟩
      cases hv : a.value with
      | none =>
        simp only [hv] at herr ⊢
        have hfc' := hfc
        simp only [finalCheck, hv] at hfc'
        cases hd : a.default with
        | none =>
          simp only [startFromDefault, hd] at herr ⊢
          have hn : pd.needscfg = false := by
            by_cases hn : pd.needscfg = true
            · simp [hn] at herr
            · simpa using hn
          simp [mkInst, hdt, hn]
        | some d =>
          simp only [startFromDefault, hd] at herr ⊢
          simp only [hd] at hfc'
          have hn : pd.needscfg = false := by
            by_cases hn : pd.needscfg = true
            · simp [hn] at herr
            · simpa using hn
          have hc : (ops.convert dt' d).isSome = true := by
            cases hcc : ops.convert dt' d with
            | none => simp [hcc] at hfc'
            | some _ => rfl
          simp [mkInst, hdt, hn, hc]
      | some v =>
        simp only [hv] at herr ⊢
        have hfc' := hfc
        simp only [finalCheck, hv] at hfc'
        have hcv : (ops.convert dt' v).isSome = true := by
          cases hcc : ops.convert dt' v with
          | none => simp [hcc] at hfc'
          | some _ => rfl
        have hdd : ∀ d, a.default = some d → (ops.convert dt' d).isSome = true := by
          intro d hd
          have : (ops.convert dt' v).isNone = false := by
            cases hcc : ops.convert dt' v <;> simp_all
          simp only [this, Bool.false_eq_true, ↓reduceIte, hd] at hfc'
          cases hcc : ops.convert dt' d with
          | none => simp [hcc] at hfc'
          | some _ => rfl
        simp [startFromValue, mkInst, hdt, hcv]
        exact hdd

theorem param_ok (ops : Ops DT Val) (insts : List (PInst DT Val)) (pd : ParamDesc DT Val) (dt0 : DT)
    (e : Option (Entry Val)) (items : List (Name × Val)) (o : POut DT Val)
    (hdt : pd.dt = some dt0) (hlim : pd.limit = none)
    (he : e = some (.acc items) ∨ (e = none ∧ items = []))
    (hadd : addParam ops insts pd e = .done o) (herr : o.errs = []) : ParamOk ops pd dt0 items o := by
  have key : ∃ a, applyEntries ops (classAcc pd) items = some a ∧ o = handleWrites ops insts pd a := by
    rcases he with rfl | ⟨rfl, rfl⟩
    · simp only [addParam] at hadd
      cases hap : applyEntries ops (classAcc pd) items with
      | none => simp [hap] at hadd
      | some a => simp only [hap, PRes.done.injEq] at hadd; exact ⟨a, rfl, hadd.symm⟩
    · simp only [addParam, PRes.done.injEq] at hadd
      exact ⟨classAcc pd, rfl, hadd.symm⟩
  obtain ⟨a, hap, rfl⟩ := key
  obtain ⟨h1, h2, h3, h4⟩ := applyEntries_spec ops items (classAcc pd) a dt0 (by simp [classAcc, hdt]) hap
  obtain ⟨dt', hadt, hidt, hown, hval, hnov, hdef⟩ := handleWrites_ok ops insts pd a hlim herr
  refine ⟨h1, ⟨dt', by rw [← h2, hadt], hidt, ?_, ?_, ?_⟩, ?_⟩
  · intro x hx; exact hval x (by rw [h3]; exact hx)
  · intro hx; exact hnov (by rw [h3]; exact hx)
  · intro d hd; exact hdef d (by rw [h4]; exact hd)
  · intro a' ha'; rw [hap] at ha'; cases ha'; exact hown

/-- a registered write comes from `startFromValue`: the parameter has a write method -/
theorem write_some (ops : Ops DT Val) (insts : List (PInst DT Val)) (pd : ParamDesc DT Val) (e : Option (Entry Val))
    (o : POut DT Val) (v : Val) (hadd : addParam ops insts pd e = .done o) (hw : o.write = some v) :
    pd.hasWrite = true := by
  have hh : ∀ a, (handleWrites ops insts pd a).write = some v → pd.hasWrite = true := by
    intro a
    unfold handleWrites
    split
    · simp
    · simp
    · split
      · simp
      · split
        · simp
        · split
          · simp only [startFromDefault]; split <;> simp
          · simp only [startFromValue]
            by_cases hwm : pd.hasWrite = true
            · intro _; exact hwm
            · simp [hwm]
  unfold addParam at hadd
  split at hadd
  · cases hadd; exact hh _ hw
  · cases hadd
  · split at hadd
    · cases hadd; exact hh _ hw
    · cases hadd

theorem run_mem' (ops : Ops DT Val) (cfg : Cfg Val) :
    ∀ (ps : List (ParamDesc DT Val)) (insts : List (PInst DT Val)) (outs : List (POut DT Val)),
      runParams ops cfg insts ps = some outs →
      ∀ o ∈ outs, ∃ insts' pd, pd ∈ ps ∧ addParam ops insts' pd (lookup pd.name cfg) = .done o := by
  intro ps
  induction ps with
  | nil => intro _ outs h o ho; simp [runParams] at h; subst h; cases ho
  | cons p ps ih =>
    intro insts outs h o ho
    simp only [runParams] at h
    cases hadd : addParam ops insts p (lookup p.name cfg) with
    | raised => simp [hadd] at h
    | done o' =>
      simp only [hadd, Option.map_eq_some_iff] at h
      obtain ⟨outs', hrun, rfl⟩ := h
      rcases List.mem_cons.1 ho with rfl | hin
      · exact ⟨insts, p, List.mem_cons_self, hadd⟩
      · obtain ⟨i', pd, h1, h2⟩ := ih _ _ hrun o hin
        exact ⟨i', pd, List.mem_cons_of_mem _ h1, h2⟩

theorem writes_sublist (outs : List (POut DT Val)) :
    ((outs.filterMap writeOf).map (·.1)).Sublist (outs.map (·.inst.name)) := by
  induction outs with
  | nil => simp
  | cons o outs ih =>
    cases hw : o.write with
    | none => simp only [List.filterMap_cons, writeOf, hw, Option.map_none, List.map_cons]; exact ih.cons _
    | some v => simp only [List.filterMap_cons, writeOf, hw, Option.map_some, List.map_cons]; exact ih.cons_cons _

end Frappy.Lemmas.Config
