import FrappyModel.Spec.C10
/- helper lemmas for C10 -/
namespace Frappy.Lemmas.Config
open Frappy.Config Frappy.Spec.C10

variable {DT Val : Type}

/-! ## the error list of a rejected module is never empty -/

theorem applyConfig_error_ne_nil (ops : Ops DT Val) (c : ClassDesc DT Val) (cfg : Cfg Val) (es : List CfgErr)
    (h : applyConfig ops c cfg = .error es) : es ≠ [] := by
  unfold applyConfig at h
  split at h
  · cases h; simp
  · split at h
    · cases h; simp
    · split at h
      · cases h; simp
      · cases h

/-- what an accepted configuration went through -/
structure Accepted (ops : Ops DT Val) (c : ClassDesc DT Val) (cfg : Cfg Val) (i : Instance DT Val) : Prop where
  mpRaised : (applyModProps c.modProps cfg).raised = false
  mpErrs : (applyModProps c.modProps cfg).errs = []
  poRaised : (applyParams ops c.params cfg).raised = false
  poErrs : (applyParams ops c.params cfg).errs = []
  cmRaised : (applyCommands ops c.otherNames cfg).raised = false
  cmErrs : (applyCommands ops c.otherNames cfg).errs = []
  left : leftover c cfg = []
  mandatory : checkMandatory c.modProps (applyModProps c.modProps cfg).values = []
  datatypes : checkDatatypes ops (applyParams ops c.params cfg).insts = []
  inst : i = ⟨(applyModProps c.modProps cfg).values, (applyParams ops c.params cfg).insts,
              (applyParams ops c.params cfg).writes⟩

theorem accepted_of_ok (ops : Ops DT Val) (c : ClassDesc DT Val) (cfg : Cfg Val) (i : Instance DT Val)
    (h : applyConfig ops c cfg = .ok i) : Accepted ops c cfg i := by
  unfold applyConfig at h
  split at h
  · cases h
  · rename_i hr
    split at h
    · cases h
    · rename_i h1
      split at h
      · cases h
      · rename_i h2
        simp only [Bool.or_eq_true, not_or, Bool.not_eq_true] at hr
        simp only [phase1, List.append_eq_nil_iff] at h1
        simp only [phase2, List.append_eq_nil_iff] at h2
        obtain ⟨⟨⟨e1, e2⟩, ec⟩, e3⟩ := h1
        refine ⟨hr.1.1, e1, hr.1.2, e2, hr.2, ec, ?_, h2.1, h2.2, ?_⟩
        · cases hl : leftover c cfg with
          | nil => rfl
          | cons a l => simp [hl, unknownErr] at e3
        · injection h with h; exact h.symm

/-! ## the parameter fold -/

/-- the fold as a recursion which stops at the first exception -/
def runParams (ops : Ops DT Val) (cfg : Cfg Val) : List (PInst DT Val) → List (ParamDesc DT Val) → Option (List (POut DT Val))
  | _, [] => some []
  | insts, pd :: ps =>
    match addParam ops insts pd (lookup pd.name cfg) with
    | .raised => none
    | .done o => (runParams ops cfg (insts ++ [o.inst]) ps).map (o :: ·)

def writeOf (o : POut DT Val) : Option (Name × Val) := o.write.map (fun v => (o.inst.name, v))

theorem foldl_raised (ops : Ops DT Val) (cfg : Cfg Val) (ps : List (ParamDesc DT Val)) (acc : ParamsOut DT Val)
    (h : acc.raised = true) : (ps.foldl (paramStep ops cfg) acc).raised = true := by
  induction ps generalizing acc with
  | nil => exact h
  | cons pd ps ih => exact ih _ (by simp [paramStep, h])

theorem handleWrites_name (ops : Ops DT Val) (pd : ParamDesc DT Val) (a : Acc DT Val) :
    (handleWrites ops pd a).inst.name = pd.name := by
  unfold handleWrites
  split
  · rfl
  · split
    · rfl
    · split
      · simp only [startFromDefault]; split <;> rfl
      · rfl

theorem addParam_name (ops : Ops DT Val) (insts : List (PInst DT Val)) (pd : ParamDesc DT Val) (e : Option (Entry Val))
    (o : POut DT Val) (h : addParam ops insts pd e = .done o) : o.inst.name = pd.name := by
  unfold addParam at h
  split at h
  · cases h; exact handleWrites_name ops pd _
  · cases h
  · split at h
    · cases h; exact handleWrites_name ops pd _
    · cases h

theorem foldl_run (ops : Ops DT Val) (cfg : Cfg Val) (ps : List (ParamDesc DT Val)) (acc : ParamsOut DT Val)
    (hacc : acc.raised = false) (h : (ps.foldl (paramStep ops cfg) acc).raised = false) :
    ∃ outs, runParams ops cfg acc.insts ps = some outs ∧
      (ps.foldl (paramStep ops cfg) acc).insts = acc.insts ++ outs.map (·.inst) ∧
      (ps.foldl (paramStep ops cfg) acc).errs = acc.errs ++ outs.flatMap (·.errs) ∧
      (ps.foldl (paramStep ops cfg) acc).writes = acc.writes ++ outs.filterMap writeOf := by
  induction ps generalizing acc with
  | nil => exact ⟨[], rfl, by simp, by simp, by simp⟩
  | cons pd ps ih =>
    simp only [List.foldl_cons] at h ⊢
    cases hadd : addParam ops acc.insts pd (lookup pd.name cfg) with
    | raised =>
      have : (paramStep ops cfg acc pd).raised = true := by simp [paramStep, hacc, hadd]
      rw [foldl_raised ops cfg ps _ this] at h
      cases h
    | done o =>
      have hname := addParam_name ops _ _ _ _ hadd
      have hstep : paramStep ops cfg acc pd =
          ⟨acc.insts ++ [o.inst], acc.errs ++ o.errs,
            addWrite acc.writes pd.name o.write, false⟩ := by
        simp [paramStep, hacc, hadd]
      rw [hstep] at h ⊢
      obtain ⟨outs, hrun, hi, he, hw⟩ := ih _ rfl h
      refine ⟨o :: outs, by simp [runParams, hadd, hrun], ?_, ?_, ?_⟩
      · rw [hi]; simp
      · rw [he]; simp
      · rw [hw]
        cases hwv : o.write with
        | none => simp [writeOf, hwv, addWrite]
        | some v => simp [writeOf, hwv, hname, addWrite]

/-- every parameter of an accepted class went through `addParam` without exception, in order -/
theorem run_mem (ops : Ops DT Val) (cfg : Cfg Val) :
    ∀ (ps : List (ParamDesc DT Val)) (insts : List (PInst DT Val)) (outs : List (POut DT Val)),
      runParams ops cfg insts ps = some outs →
      ∀ pd ∈ ps, ∃ insts' o, addParam ops insts' pd (lookup pd.name cfg) = .done o ∧ o ∈ outs := by
  intro ps
  induction ps with
  | nil => intro _ _ _ pd hpd; cases hpd
  | cons p ps ih =>
    intro insts outs h pd hpd
    simp only [runParams] at h
    cases hadd : addParam ops insts p (lookup p.name cfg) with
    | raised => simp [hadd] at h
    | done o =>
      simp only [hadd, Option.map_eq_some_iff] at h
      obtain ⟨outs', hrun, rfl⟩ := h
      rcases List.mem_cons.1 hpd with rfl | hin
      · exact ⟨insts, o, hadd, List.mem_cons_self⟩
      · obtain ⟨i', o', h1, h2⟩ := ih _ _ hrun pd hin
        exact ⟨i', o', h1, List.mem_cons_of_mem _ h2⟩

/-- the outputs are aligned with the parameters -/
theorem run_names (ops : Ops DT Val) (cfg : Cfg Val) :
    ∀ (ps : List (ParamDesc DT Val)) (insts : List (PInst DT Val)) (outs : List (POut DT Val)),
      runParams ops cfg insts ps = some outs → outs.map (·.inst.name) = ps.map (·.name) := by
  intro ps
  induction ps with
  | nil => intro _ outs h; simp [runParams] at h; subst h; rfl
  | cons p ps ih =>
    intro insts outs h
    simp only [runParams] at h
    cases hadd : addParam ops insts p (lookup p.name cfg) with
    | raised => simp [hadd] at h
    | done o =>
      simp only [hadd, Option.map_eq_some_iff] at h
      obtain ⟨outs', hrun, rfl⟩ := h
      simp [ih _ _ hrun, addParam_name ops _ _ _ _ hadd]

/-! ## the cfg loop of one parameter -/

theorem applyEntries_spec (ops : Ops DT Val) :
    ∀ (items : List (Name × Val)) (a a' : Acc DT Val) (dt : DT), a.dt = some dt →
      applyEntries ops a items = some a' →
      hasBadProp ops dt items = false ∧ (∃ dt', a'.dt = some dt' ∧ dtAfter ops dt items = some dt') ∧
      a'.value = givenFor "value" a.value items ∧ a'.default = givenFor "default" a.default items := by
  intro items
  induction items with
  | nil =>
    intro a a' dt hdt h
    simp only [applyEntries, Option.some.injEq] at h
    subst h
    simp [hasBadProp, dtAfter, givenFor, hdt]
  | cons kv rest ih =>
    intro a a' dt hdt h
    obtain ⟨k, v⟩ := kv
    simp only [applyEntries] at h
    by_cases hv : k = "value"
    · subst hv
      simp only [cfgStep, ↓reduceIte] at h
      obtain ⟨h1, h2, h3, h4⟩ := ih { a with value := some v } a' dt hdt h
      refine ⟨?_, ?_, ?_, ?_⟩
      · simp [hasBadProp, badPropEntry, Spec.C10.isValueKey, h1]
      · simp [dtAfter, Spec.C10.isValueKey, h2]
      · simpa [givenFor] using h3
      · simpa [givenFor] using h4
    · by_cases hd : k = "default"
      · subst hd
        simp only [cfgStep, hv, ↓reduceIte] at h
        obtain ⟨h1, h2, h3, h4⟩ := ih { a with default := some v } a' dt hdt h
        refine ⟨?_, ?_, ?_, ?_⟩
        · simp [hasBadProp, badPropEntry, Spec.C10.isValueKey, h1]
        · simp [dtAfter, Spec.C10.isValueKey, h2]
        · simpa [givenFor, hv] using h3
        · simpa [givenFor] using h4
      · have hvk : Spec.C10.isValueKey k = false := by simp [Spec.C10.isValueKey, hv, hd]
        simp only [cfgStep, hv, hd, ↓reduceIte] at h
        cases hown : ops.ownProp k with
        | some f =>
          simp only [hown] at h
          cases hf : f v with
          | none => simp [hf] at h
          | some v' =>
            simp only [hf] at h
            obtain ⟨h1, h2, h3, h4⟩ := ih { a with own := setKey k v' a.own } a' dt hdt h
            refine ⟨?_, ?_, ?_, ?_⟩
            · simp [hasBadProp, badPropEntry, hvk, hown, hf, h1]
            · simp [dtAfter, hvk, hown, h2]
            · simpa [givenFor, hv] using h3
            · simpa [givenFor, hd] using h4
        | none =>
          simp only [hown, hdt] at h
          cases hs : ops.setProp dt k v with
          | unknown => simp [hs] at h
          | bad => simp [hs] at h
          | ok dt' =>
            simp only [hs] at h
            obtain ⟨h1, h2, h3, h4⟩ := ih { a with dt := some dt' } a' dt' rfl h
            refine ⟨?_, ?_, ?_, ?_⟩
            · simp [hasBadProp, badPropEntry, hvk, hown, hs, h1]
            · simp [dtAfter, hvk, hown, hs, h2]
            · simpa [givenFor, hv] using h3
            · simpa [givenFor, hd] using h4

end Frappy.Lemmas.Config

namespace Frappy.Lemmas.Config
open Frappy.Config Frappy.Spec.C10
variable {DT Val : Type}

/-- what a parameter went through when nothing was collected for it; `dt0`, `dflt`: datatype and default it
started from (class level, or derived from the base parameter for a limit) -/
structure ParamOk (ops : Ops DT Val) (pd : ParamDesc DT Val) (dt0 : DT) (dflt : Option Val)
    (items : List (Name × Val)) (o : POut DT Val) : Prop where
  noBadProp : hasBadProp ops dt0 items = false
  dt : ∃ dt', dtAfter ops dt0 items = some dt' ∧ o.inst.dt = some dt' ∧
    (∀ x, givenFor "value" pd.value items = some x →
      (ops.convert dt' x).isSome ∧ o.inst.value = some (conv ops dt' x) ∧
      o.write = if pd.hasWrite then some x else none) ∧
    (givenFor "value" pd.value items = none → o.write = none ∧ pd.needscfg = false) ∧
    (∀ d, givenFor "default" dflt items = some d → (ops.convert dt' d).isSome)

theorem handleWrites_ok (ops : Ops DT Val) (pd : ParamDesc DT Val) (a : Acc DT Val) (dt' : DT)
    (hdt : a.dt = some dt') (herr : (handleWrites ops pd a).errs = []) :
    (handleWrites ops pd a).inst.dt = some dt' ∧
      (handleWrites ops pd a).inst.own = a.own ∧
      (∀ x, a.value = some x → (ops.convert dt' x).isSome ∧
        (handleWrites ops pd a).inst.value = some (conv ops dt' x) ∧
        (handleWrites ops pd a).write = if pd.hasWrite then some x else none) ∧
      (a.value = none → (handleWrites ops pd a).write = none ∧ pd.needscfg = false) ∧
      (∀ d, a.default = some d → (ops.convert dt' d).isSome) := by
  unfold handleWrites at herr ⊢
  simp only [hdt] at herr ⊢
  cases hfc : finalCheck ops dt' a with
  | some key => simp [hfc] at herr
  | none =>
    simp only [hfc] at herr ⊢
    cases hv : a.value with
    | none =>
      simp only [hv] at herr ⊢
      have hfc' := hfc
      simp only [finalCheck, hv] at hfc'
      cases hd : a.default with
      | none =>
        simp only [startFromDefault, hd] at herr ⊢
        have hn : pd.needscfg = false := by
          by_cases hn : pd.needscfg = true
          · simp [hn] at herr
          · simpa using hn
        simp [mkInst, hdt, hn]
      | some d =>
        simp only [startFromDefault, hd] at herr ⊢
        simp only [hd] at hfc'
        have hn : pd.needscfg = false := by
          by_cases hn : pd.needscfg = true
          · simp [hn] at herr
          · simpa using hn
        have hc : (ops.convert dt' d).isSome = true := by
          cases hcc : ops.convert dt' d with
          | none => simp [hcc] at hfc'
          | some _ => rfl
        simp [mkInst, hdt, hn, hc]
    | some v =>
      simp only [hv] at herr ⊢
      have hfc' := hfc
      simp only [finalCheck, hv] at hfc'
      have hcv : (ops.convert dt' v).isSome = true := by
        cases hcc : ops.convert dt' v with
        | none => simp [hcc] at hfc'
        | some _ => rfl
      have hdd : ∀ d, a.default = some d → (ops.convert dt' d).isSome = true := by
        intro d hd
        have : (ops.convert dt' v).isNone = false := by
          cases hcc : ops.convert dt' v <;> simp_all
        simp only [this, Bool.false_eq_true, ↓reduceIte, hd] at hfc'
        cases hcc : ops.convert dt' d with
        | none => simp [hcc] at hfc'
        | some _ => rfl
      simp [startFromValue, mkInst, hdt, hcv]
      exact hdd

/-- the derivation of a limit never touches value and own properties -/
theorem deriveLimit_go (ops : Ops DT Val) (insts : List (PInst DT Val)) (pd : ParamDesc DT Val) (a a' : Acc DT Val)
    (h : deriveLimit ops insts pd a = .go a') : a'.value = a.value ∧ a'.own = a.own := by
  unfold deriveLimit at h
  split at h
  · cases h; exact ⟨rfl, rfl⟩
  · split at h
    · cases h
    · split at h
      · cases h
      · split at h
        · cases h; exact ⟨rfl, rfl⟩
        · split at h
          · cases h; exact ⟨rfl, rfl⟩
          · cases h

theorem startAcc_value (ops : Ops DT Val) (insts : List (PInst DT Val)) (pd : ParamDesc DT Val) :
    (startAcc ops insts pd).acc.value = pd.value ∧ (startAcc ops insts pd).acc.own = pd.own := by
  unfold startAcc
  cases h : deriveLimit ops insts pd (classAcc pd) with
  | go a => exact deriveLimit_go ops insts pd _ a h
  | noBase => exact ⟨rfl, rfl⟩
  | baseUntyped => exact ⟨rfl, rfl⟩
  | baseBad => exact ⟨rfl, rfl⟩

theorem startAcc_own (ops : Ops DT Val) (insts : List (PInst DT Val)) (pd : ParamDesc DT Val)
    (hlim : pd.limit = none) : startAcc ops insts pd = ⟨classAcc pd, []⟩ := by
  simp [startAcc, deriveLimit, hlim]

theorem param_ok (ops : Ops DT Val) (insts : List (PInst DT Val)) (pd : ParamDesc DT Val) (dt0 : DT)
    (e : Option (Entry Val)) (items : List (Name × Val)) (o : POut DT Val)
    (hdt : (startAcc ops insts pd).acc.dt = some dt0)
    (he : e = some (.acc items) ∨ (e = none ∧ items = []))
    (hadd : addParam ops insts pd e = .done o) (herr : o.errs = []) :
    ParamOk ops pd dt0 (startAcc ops insts pd).acc.default items o ∧
    (∀ a, applyEntries ops (startAcc ops insts pd).acc items = some a → o.inst.own = a.own) := by
  have key : ∃ a, applyEntries ops (startAcc ops insts pd).acc items = some a ∧
      o = withErrs (startAcc ops insts pd).errs (handleWrites ops pd a) := by
    rcases he with rfl | ⟨rfl, rfl⟩
    · simp only [addParam] at hadd
      cases hap : applyEntries ops (startAcc ops insts pd).acc items with
      | none => simp [hap] at hadd
      | some a => simp only [hap, PRes.done.injEq] at hadd; exact ⟨a, rfl, hadd.symm⟩
    · simp only [addParam, PRes.done.injEq] at hadd
      exact ⟨(startAcc ops insts pd).acc, rfl, hadd.symm⟩
  obtain ⟨a, hap, rfl⟩ := key
  have herr' : (handleWrites ops pd a).errs = [] := by
    simp only [withErrs, List.append_eq_nil_iff] at herr; exact herr.2
  obtain ⟨h1, ⟨dt', hadt, hafter⟩, h3, h4⟩ := applyEntries_spec ops items _ a dt0 hdt hap
  obtain ⟨hidt, hown, hval, hnov, hdef⟩ := handleWrites_ok ops pd a dt' hadt herr'
  have hv := (startAcc_value ops insts pd).1
  refine ⟨⟨h1, ⟨dt', hafter, hidt, ?_, ?_, ?_⟩⟩, ?_⟩
  · intro x hx; exact hval x (by rw [h3, hv]; exact hx)
  · intro hx; exact hnov (by rw [h3, hv]; exact hx)
  · intro d hd; exact hdef d (by rw [h4]; exact hd)
  · intro a' ha'; rw [hap] at ha'; cases ha'; exact hown

/-- a registered write comes from `startFromValue`: the parameter has a write method -/
theorem write_some (ops : Ops DT Val) (insts : List (PInst DT Val)) (pd : ParamDesc DT Val) (e : Option (Entry Val))
    (o : POut DT Val) (v : Val) (hadd : addParam ops insts pd e = .done o) (hw : o.write = some v) :
    pd.hasWrite = true := by
  have hh : ∀ a, (handleWrites ops pd a).write = some v → pd.hasWrite = true := by
    intro a
    unfold handleWrites
    split
    · simp
    · split
      · simp
      · split
        · simp only [startFromDefault]; split <;> simp
        · simp only [startFromValue]
          by_cases hwm : pd.hasWrite = true
          · intro _; exact hwm
          · simp [hwm]
  unfold addParam at hadd
  split at hadd
  · cases hadd; exact hh _ hw
  · cases hadd
  · split at hadd
    · cases hadd; exact hh _ hw
    · cases hadd

theorem run_mem' (ops : Ops DT Val) (cfg : Cfg Val) :
    ∀ (ps : List (ParamDesc DT Val)) (insts : List (PInst DT Val)) (outs : List (POut DT Val)),
      runParams ops cfg insts ps = some outs →
      ∀ o ∈ outs, ∃ insts' pd, pd ∈ ps ∧ addParam ops insts' pd (lookup pd.name cfg) = .done o := by
  intro ps
  induction ps with
  | nil => intro _ outs h o ho; simp [runParams] at h; subst h; cases ho
  | cons p ps ih =>
    intro insts outs h o ho
    simp only [runParams] at h
    cases hadd : addParam ops insts p (lookup p.name cfg) with
    | raised => simp [hadd] at h
    | done o' =>
      simp only [hadd, Option.map_eq_some_iff] at h
      obtain ⟨outs', hrun, rfl⟩ := h
      rcases List.mem_cons.1 ho with rfl | hin
      · exact ⟨insts, p, List.mem_cons_self, hadd⟩
      · obtain ⟨i', pd, h1, h2⟩ := ih _ _ hrun o hin
        exact ⟨i', pd, List.mem_cons_of_mem _ h1, h2⟩

theorem writes_sublist (outs : List (POut DT Val)) :
    ((outs.filterMap writeOf).map (·.1)).Sublist (outs.map (·.inst.name)) := by
  induction outs with
  | nil => simp
  | cons o outs ih =>
    cases hw : o.write with
    | none => simp only [List.filterMap_cons, writeOf, hw, Option.map_none, List.map_cons]; exact ih.cons _
    | some v => simp only [List.filterMap_cons, writeOf, hw, Option.map_some, List.map_cons]; exact ih.cons_cons _

end Frappy.Lemmas.Config

namespace Frappy.Lemmas.Config
open Frappy.Config Frappy.Spec.C10
variable {DT Val : Type}

/-! ## the fold over `propertyDict` -/

theorem modProps_raised (cfg : Cfg Val) (ds : List (ModPropDesc Val)) (acc : ModPropsOut Val)
    (h : acc.raised = true) : (ds.foldl (modPropStep cfg) acc).raised = true := by
  induction ds generalizing acc with
  | nil => exact h
  | cons d ds ih => exact ih _ (by simp [modPropStep, h])

/-- nothing collected and no exception: every module property was absent from the cfg or accepted, and no dict
given for a property had a key besides `value` -/
theorem modProps_ok (cfg : Cfg Val) :
    ∀ (ds : List (ModPropDesc Val)) (acc : ModPropsOut Val), acc.raised = false →
      (ds.foldl (modPropStep cfg) acc).raised = false → (ds.foldl (modPropStep cfg) acc).errs = [] →
      acc.errs = [] ∧ ∀ d ∈ ds, extraKeys (lookup d.name cfg) = [] ∧
        (applyModProp d (lookup d.name cfg) = .absent ∨ ∃ v, applyModProp d (lookup d.name cfg) = .set v) := by
  intro ds
  induction ds with
  | nil => intro acc _ _ he; exact ⟨he, fun d hd => by cases hd⟩
  | cons d ds ih =>
    intro acc hacc hr he
    simp only [List.foldl_cons] at hr he
    cases hap : applyModProp d (lookup d.name cfg) with
    | absent =>
      have hstep : (modPropStep cfg acc d).raised = false ∧ (modPropStep cfg acc d).errs =
          acc.errs ++ (extraKeys (lookup d.name cfg)).map (CfgErr.unknownProp d.name) := by
        simp only [modPropStep, hacc, hap]; cases d.classValue <;> simp [hacc]
      obtain ⟨h1, h2⟩ := ih _ hstep.1 hr he
      rw [hstep.2] at h1
      simp only [List.append_eq_nil_iff, List.map_eq_nil_iff] at h1
      refine ⟨h1.1, fun d' hd' => ?_⟩
      rcases List.mem_cons.1 hd' with rfl | hin
      · exact ⟨h1.2, Or.inl hap⟩
      · exact h2 d' hin
    | set v =>
      have hstep : (modPropStep cfg acc d).raised = false ∧ (modPropStep cfg acc d).errs =
          acc.errs ++ (extraKeys (lookup d.name cfg)).map (CfgErr.unknownProp d.name) := by
        simp [modPropStep, hacc, hap]
      obtain ⟨h1, h2⟩ := ih _ hstep.1 hr he
      rw [hstep.2] at h1
      simp only [List.append_eq_nil_iff, List.map_eq_nil_iff] at h1
      refine ⟨h1.1, fun d' hd' => ?_⟩
      rcases List.mem_cons.1 hd' with rfl | hin
      · exact ⟨h1.2, Or.inr ⟨v, hap⟩⟩
      · exact h2 d' hin
    | bad =>
      have hstep : (modPropStep cfg acc d).raised = false ∧
          (modPropStep cfg acc d).errs = acc.errs ++ (extraKeys (lookup d.name cfg)).map (CfgErr.unknownProp d.name)
            ++ [.badModProp d.name] := by
        simp only [modPropStep, hacc, hap]; cases d.classValue <;> simp
      obtain ⟨h1, _⟩ := ih _ hstep.1 hr he
      rw [hstep.2] at h1; simp at h1
    | raised =>
      have hstep : (modPropStep cfg acc d).raised = true := by simp [modPropStep, hacc, hap]
      rw [modProps_raised cfg ds _ hstep] at hr; cases hr

theorem lookup_append_none {α : Type} (n k : Name) (v : α) (l : List (Name × α)) :
    lookup n (l ++ [(k, v)]) = none ↔ lookup n l = none ∧ k ≠ n := by
  induction l with
  | nil => simp only [List.nil_append, lookup]; split <;> simp_all
  | cons x l ih =>
    simp only [List.cons_append, lookup]
    split
    · simp
    · exact ih

/-- a property that is not in the cfg and has no class value has no value afterwards -/
theorem modProps_no_value (cfg : Cfg Val) (n : Name) :
    ∀ (ds : List (ModPropDesc Val)) (acc : ModPropsOut Val), lookup n acc.values = none →
      (∀ d ∈ ds, d.name = n → applyModProp d (lookup d.name cfg) = .absent ∧ d.classValue = none) →
      lookup n (ds.foldl (modPropStep cfg) acc).values = none := by
  intro ds
  induction ds with
  | nil => intro acc h _; exact h
  | cons d ds ih =>
    intro acc h hall
    simp only [List.foldl_cons]
    apply ih
    · unfold modPropStep
      split
      · exact h
      · by_cases hn : d.name = n
        · obtain ⟨ha, hc⟩ := hall d List.mem_cons_self hn
          simp [ha, hc, h]
        · split
          · split
            · simp only; rw [lookup_append_none]; exact ⟨h, hn⟩
            · exact h
          · simp only; rw [lookup_append_none]; exact ⟨h, hn⟩
          · split
            · simp only; rw [lookup_append_none]; exact ⟨h, hn⟩
            · exact h
          · exact h
    · intro d' hd' hn'; exact hall d' (List.mem_cons_of_mem _ hd') hn'

/-- in a list with distinct names, a name determines the element -/
theorem name_determines {α : Type} (f : α → Name) :
    ∀ (l : List α), (l.map f).Nodup → ∀ a ∈ l, ∀ b ∈ l, f a = f b → a = b := by
  intro l
  induction l with
  | nil => intro _ a ha; cases ha
  | cons x l ih =>
    intro hnd a ha b hb hab
    simp only [List.map_cons, List.nodup_cons] at hnd
    rcases List.mem_cons.1 ha with rfl | ha' <;> rcases List.mem_cons.1 hb with rfl | hb'
    · rfl
    · exact absurd (by rw [hab]; exact List.mem_map_of_mem hb') hnd.1
    · exact absurd (by rw [← hab]; exact List.mem_map_of_mem ha') hnd.1
    · exact ih hnd.2 a ha' b hb' hab

end Frappy.Lemmas.Config

namespace Frappy.Lemmas.Config
open Frappy.Config Frappy.Spec.C10
variable {DT Val : Type}

/-! ## limits: the base parameter is already on the instance -/

theorem findInst_mem (n : Name) : ∀ (l : List (PInst DT Val)) (b : PInst DT Val),
    findInst n l = some b → b ∈ l ∧ b.name = n := by
  intro l
  induction l with
  | nil => intro b h; cases h
  | cons x l ih =>
    intro b h
    simp only [findInst] at h
    split at h
    · cases h; exact ⟨List.mem_cons_self, by assumption⟩
    · obtain ⟨h1, h2⟩ := ih b h; exact ⟨List.mem_cons_of_mem _ h1, h2⟩

/-- like `run_mem`, remembering that the instances a parameter sees are outputs of earlier parameters -/
theorem run_prefix (ops : Ops DT Val) (cfg : Cfg Val) :
    ∀ (ps : List (ParamDesc DT Val)) (insts : List (PInst DT Val)) (outs : List (POut DT Val)),
      runParams ops cfg insts ps = some outs →
      ∀ pd ∈ ps, ∃ insts' o, addParam ops insts' pd (lookup pd.name cfg) = .done o ∧ o ∈ outs ∧
        ∀ b ∈ insts', b ∈ insts ∨ ∃ o' ∈ outs, o'.inst = b := by
  intro ps
  induction ps with
  | nil => intro _ _ _ pd hpd; cases hpd
  | cons p ps ih =>
    intro insts outs h pd hpd
    simp only [runParams] at h
    cases hadd : addParam ops insts p (lookup p.name cfg) with
    | raised => simp [hadd] at h
    | done o =>
      simp only [hadd, Option.map_eq_some_iff] at h
      obtain ⟨outs', hrun, rfl⟩ := h
      rcases List.mem_cons.1 hpd with rfl | hin
      · exact ⟨insts, o, hadd, List.mem_cons_self, fun b hb => Or.inl hb⟩
      · obtain ⟨i', o', h1, h2, h3⟩ := ih _ _ hrun pd hin
        refine ⟨i', o', h1, List.mem_cons_of_mem _ h2, fun b hb => ?_⟩
        rcases h3 b hb with hb' | ⟨o'', ho'', rfl⟩
        · rcases List.mem_append.1 hb' with hb'' | hb''
          · exact Or.inl hb''
          · simp only [List.mem_singleton] at hb''
            exact Or.inr ⟨o, List.mem_cons_self, hb''.symm⟩
        · exact Or.inr ⟨o'', List.mem_cons_of_mem _ ho'', rfl⟩

end Frappy.Lemmas.Config

namespace Frappy.Lemmas.Config
open Frappy.Config Frappy.Spec.C10
variable {DT Val : Type}

/-- well-formedness of a class description: distinct names; the base of a limit parameter is not itself a limit -/
structure WellFormed (c : ClassDesc DT Val) : Prop where
  propNames : (c.modProps.map (·.name)).Nodup
  paramNames : (c.params.map (·.name)).Nodup
  bases : ∀ pd ∈ c.params, pd.limit.isSome = true → ∀ b ∈ c.params, b.name = pd.base → b.limit = none

theorem deriveLimit_typed (ops : Ops DT Val) (insts : List (PInst DT Val)) (pd : ParamDesc DT Val) (a a' : Acc DT Val)
    (dt : DT) (hdt : a.dt = some dt) (h : deriveLimit ops insts pd a = .go a') : a' = a := by
  unfold deriveLimit at h
  split at h
  · cases h; rfl
  · split at h
    · cases h
    · split at h
      · cases h
      · simp only [hdt] at h; cases h; rfl

theorem addParam_start_errs (ops : Ops DT Val) (insts : List (PInst DT Val)) (pd : ParamDesc DT Val)
    (e : Option (Entry Val)) (o : POut DT Val) (hadd : addParam ops insts pd e = .done o) (herr : o.errs = []) :
    (startAcc ops insts pd).errs = [] := by
  unfold addParam at hadd
  split at hadd
  · cases hadd; simp only [withErrs, List.append_eq_nil_iff] at herr; exact herr.1
  · cases hadd
  · split at hadd
    · cases hadd; simp only [withErrs, List.append_eq_nil_iff] at herr; exact herr.1
    · cases hadd

/-- the entry of a parameter which went through `addParam` is a dict or absent -/
theorem addParam_items (ops : Ops DT Val) (insts : List (PInst DT Val)) (pd : ParamDesc DT Val) (cfg : Cfg Val)
    (o : POut DT Val) (hadd : addParam ops insts pd (lookup pd.name cfg) = .done o) :
    lookup pd.name cfg = some (.acc ((cfgOf pd.name cfg).getD [])) ∨
      (lookup pd.name cfg = none ∧ (cfgOf pd.name cfg).getD [] = []) := by
  unfold cfgOf
  cases hl : lookup pd.name cfg with
  | none => right; simp
  | some e =>
    cases e with
    | prop c => rw [hl] at hadd; simp [addParam] at hadd
    | acc items => left; simp

/-- in an accepted run, what a parameter starts from is what the specification says (`startOf`) -/
theorem start_matches (ops : Ops DT Val) (c : ClassDesc DT Val) (cfg : Cfg Val) (wf : WellFormed c)
    (outs : List (POut DT Val)) (hrun : runParams ops cfg [] c.params = some outs)
    (herrs : ∀ o ∈ outs, o.errs = [])
    (hchk : ∀ o ∈ outs, ∀ dt, o.inst.dt = some dt → ops.checkDT dt = true)
    (pd : ParamDesc DT Val) (hpd : pd ∈ c.params) (dt0 : DT) (dflt : Option Val)
    (hs : startOf ops c cfg pd = some (dt0, dflt))
    (insts' : List (PInst DT Val)) (o : POut DT Val)
    (hadd : addParam ops insts' pd (lookup pd.name cfg) = .done o) (ho : o ∈ outs)
    (hpre : ∀ b ∈ insts', ∃ o' ∈ outs, o'.inst = b) :
    (startAcc ops insts' pd).acc.dt = some dt0 ∧ (startAcc ops insts' pd).acc.default = dflt := by
  have hse := addParam_start_errs ops insts' pd _ o hadd (herrs o ho)
  unfold startOf at hs
  cases hpdt : pd.dt with
  | some dt =>
    simp only [hpdt, Option.some.injEq, Prod.mk.injEq] at hs
    obtain ⟨rfl, rfl⟩ := hs
    unfold startAcc
    cases hd : deriveLimit ops insts' pd (classAcc pd) with
    | go a =>
      have := deriveLimit_typed ops insts' pd (classAcc pd) a dt (by simp [classAcc, hpdt]) hd
      subst this; simp [classAcc, hpdt]
    | noBase => simp [classAcc, hpdt]
    | baseUntyped => simp [classAcc, hpdt]
    | baseBad => simp [classAcc, hpdt]
  | none =>
    simp only [hpdt] at hs
    cases hlim : pd.limit with
    | none => simp [hlim] at hs
    | some k =>
      simp only [hlim] at hs
      cases hfind : c.params.find? (fun b => b.name == pd.base) with
      | none => simp [hfind] at hs
      | some bd =>
        simp only [hfind] at hs
        cases hbdt : bd.dt with
        | none => simp [hbdt] at hs
        | some bdt0 =>
          simp only [hbdt] at hs
          cases hafter : dtAfter ops bdt0 ((cfgOf bd.name cfg).getD []) with
          | none => simp [hafter] at hs
          | some bdt' =>
            simp only [hafter, Option.some.injEq, Prod.mk.injEq] at hs
            obtain ⟨rfl, rfl⟩ := hs
            have hbd_mem : bd ∈ c.params := List.mem_of_find?_eq_some hfind
            have hbd_name : bd.name = pd.base := by
              have := List.find?_some hfind; simpa using this
            cases hfi : findInst pd.base insts' with
            | none =>
              have : (startAcc ops insts' pd).errs = [.limitNoBase pd.name] := by
                simp [startAcc, deriveLimit, hlim, hfi]
              rw [this] at hse; cases hse
            | some b =>
              obtain ⟨hb_mem, hb_name⟩ := findInst_mem pd.base insts' b hfi
              obtain ⟨ob, hob, rfl⟩ := hpre b hb_mem
              obtain ⟨insts'', pdb, hpdb, haddb⟩ := run_mem' ops cfg c.params [] outs hrun ob hob
              have hnameb := addParam_name ops _ _ _ _ haddb
              have hpdb_eq : pdb = bd :=
                name_determines (fun p : ParamDesc DT Val => p.name) c.params wf.paramNames pdb hpdb bd hbd_mem
                  (by rw [← hnameb, hb_name, hbd_name])
              subst hpdb_eq
              have hblim : pdb.limit = none := wf.bases pd hpd (by simp [hlim]) pdb hpdb hbd_name
              have hstartb : (startAcc ops insts'' pdb).acc.dt = some bdt0 := by
                rw [startAcc_own ops insts'' pdb hblim]; simp [classAcc, hbdt]
              have hpk := (param_ok ops insts'' pdb bdt0 _ _ ob hstartb
                (addParam_items ops insts'' pdb cfg ob haddb) haddb (herrs ob hob)).1
              obtain ⟨dt'', hd1, hd2, _⟩ := hpk.dt
              rw [hafter] at hd1; cases hd1
              have hck := hchk ob hob bdt' hd2
              simp [startAcc, deriveLimit, hlim, hfi, hd2, classAcc, hpdt, hck]

end Frappy.Lemmas.Config

namespace Frappy.Lemmas.Config
open Frappy.Config Frappy.Spec.C10
variable {DT Val : Type}

/-- the run behind an accepted configuration -/
theorem accepted_run (ops : Ops DT Val) (c : ClassDesc DT Val) (cfg : Cfg Val) (i : Instance DT Val)
    (acc : Accepted ops c cfg i) :
    ∃ outs, runParams ops cfg [] c.params = some outs ∧ i.params = outs.map (·.inst) ∧
      i.writeDict = outs.filterMap writeOf ∧ (∀ o ∈ outs, o.errs = []) ∧
      (∀ o ∈ outs, ∀ dt, o.inst.dt = some dt → ops.checkDT dt = true) := by
  obtain ⟨outs, hrun, hinsts, herrs, hwrites⟩ := foldl_run ops cfg c.params ⟨[], [], [], false⟩ rfl acc.poRaised
  have hi : (applyParams ops c.params cfg).insts = outs.map (·.inst) := by
    unfold applyParams; rw [hinsts]; simp
  refine ⟨outs, hrun, by rw [acc.inst]; exact hi, ?_, ?_, ?_⟩
  · rw [acc.inst]; show (applyParams ops c.params cfg).writes = _
    unfold applyParams; rw [hwrites]; simp
  · have h0 : outs.flatMap (·.errs) = [] := by
      have := acc.poErrs; unfold applyParams at this; rw [herrs] at this; simpa using this
    rw [List.flatMap_eq_nil_iff] at h0
    exact h0
  · intro o ho dt hdt
    have hd := acc.datatypes
    rw [hi] at hd
    unfold checkDatatypes at hd
    rw [List.filterMap_eq_nil_iff] at hd
    have := hd o.inst (List.mem_map_of_mem ho)
    simpa [hdt] using this

theorem items_eq (pd : ParamDesc DT Val) (cfg : Cfg Val) (items : List (Name × Val))
    (h : lookup pd.name cfg = some (.acc items) ∨ (lookup pd.name cfg = none ∧ items = [])) :
    items = (cfgOf pd.name cfg).getD [] := by
  unfold cfgOf
  rcases h with h | ⟨h, rfl⟩ <;> simp [h]

/-- every parameter of an accepted, well-formed class which the specification gives a start (`startOf`) went
through the cfg loop and `_handle_writes` without anything being collected -/
theorem accepted_param (ops : Ops DT Val) (c : ClassDesc DT Val) (cfg : Cfg Val) (i : Instance DT Val)
    (acc : Accepted ops c cfg i) (wf : WellFormed c) (pd : ParamDesc DT Val) (hpd : pd ∈ c.params)
    (dt0 : DT) (dflt : Option Val) (hs : startOf ops c cfg pd = some (dt0, dflt)) :
    ∃ (outs : List (POut DT Val)) (o : POut DT Val), i.params = outs.map (·.inst) ∧ i.writeDict = outs.filterMap writeOf ∧ o ∈ outs ∧
      o.inst.name = pd.name ∧ ParamOk ops pd dt0 dflt ((cfgOf pd.name cfg).getD []) o ∧
      (∀ dt, o.inst.dt = some dt → ops.checkDT dt = true) := by
  obtain ⟨outs, hrun, hi, hw, herrs, hchk⟩ := accepted_run ops c cfg i acc
  obtain ⟨insts', o, hadd, ho, hpre⟩ := run_prefix ops cfg c.params [] outs hrun pd hpd
  have hpre' : ∀ b ∈ insts', ∃ o' ∈ outs, o'.inst = b := by
    intro b hb; rcases hpre b hb with h | h
    · cases h
    · exact h
  obtain ⟨hsdt, hsdef⟩ := start_matches ops c cfg wf outs hrun herrs hchk pd hpd dt0 dflt hs insts' o hadd ho hpre'
  have pk := (param_ok ops insts' pd dt0 _ _ o hsdt (addParam_items ops insts' pd cfg o hadd) hadd (herrs o ho)).1
  rw [hsdef] at pk
  exact ⟨outs, o, hi, hw, ho, addParam_name ops _ _ _ _ hadd, pk, hchk o ho⟩

end Frappy.Lemmas.Config
