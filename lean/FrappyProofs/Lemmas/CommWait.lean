import FrappyProofs.Lemmas.CommBook
import FrappyProofs.Lemmas.CommExchange
/- helper lemmas for C16: `wait_before` — a caller that is about to flush and send has slept `wait_before` since its
last send (invariant `WbInv` over accepted runs of the transaction model) -/
open Frappy.Spec.C16
namespace Frappy.Comm

/-- the caller sleeps `wait_before` (woken up at `wakeAt`) -/
def sleepingPc : Pc → Bool
  | .wakeWB | .idWake => true
  | _ => false

/-- the caller has slept and not sent since: it flushes, drains and sends next -/
def restedPc : Pc → Bool
  | .flush | .drain | .idFlush | .idDrain => true
  | _ => false

def slpEv : Ev → Option Nat
  | .slp _ d => some d
  | _ => none

def wakeEv : Ev → Bool
  | .wake _ => true
  | _ => false

set_option hygiene false in
macro "pcs" : tactic => `(tactic| first
  | rfl | exact failTo_pc_sleeping _ | exact failTo_pc_rested _
  | exact afterConnected_pc_sleeping _ _ | exact afterConnected_pc_rested _ _
  | exact afterIdent_pc_sleeping _ _ | exact afterIdent_pc_rested _ _
  | simp [sleepingPc, restedPc])

@[simp] theorem failTo_pc_sleeping (k : Caller) : sleepingPc (failTo k).pc = false := by unfold failTo; simp only; split <;> rfl
@[simp] theorem failTo_pc_rested (k : Caller) : restedPc (failTo k).pc = false := by unfold failTo; simp only; split <;> rfl
@[simp] theorem nextReq_pc_sleeping (k : Caller) : sleepingPc (nextReq k).pc = false := by
  unfold nextReq; split <;> simp only <;> (try split) <;> rfl
@[simp] theorem nextReq_pc_rested (k : Caller) : restedPc (nextReq k).pc = false := by
  unfold nextReq; split <;> simp only <;> (try split) <;> rfl
@[simp] theorem toIdEndFail_pc_sleeping (k : Caller) : sleepingPc (toIdEndFail k).pc = false := rfl
@[simp] theorem toIdEndFail_pc_rested (k : Caller) : restedPc (toIdEndFail k).pc = false := rfl
@[simp] theorem afterConnected_pc_sleeping (s : State) (k : Caller) : sleepingPc (afterConnected s k).pc = false := by
  unfold afterConnected; split <;> split <;> (try split) <;> pcs
@[simp] theorem afterConnected_pc_rested (s : State) (k : Caller) : restedPc (afterConnected s k).pc = false := by
  unfold afterConnected; split <;> split <;> (try split) <;> pcs
@[simp] theorem rcFail_pc_sleeping (k : Caller) : sleepingPc (rcFail k).pc = false := by unfold rcFail; split <;> pcs
@[simp] theorem rcFail_pc_rested (k : Caller) : restedPc (rcFail k).pc = false := by unfold rcFail; split <;> pcs
@[simp] theorem afterIdent_pc_sleeping (s : State) (k : Caller) : sleepingPc (afterIdent s k).pc = false := by
  unfold afterIdent; split <;> (try split) <;> pcs
@[simp] theorem afterIdent_pc_rested (s : State) (k : Caller) : restedPc (afterIdent s k).pc = false := by
  unfold afterIdent; split <;> (try split) <;> pcs
@[simp] theorem startIdent_pc_sleeping (s : State) (k : Caller) : sleepingPc (startIdent s k).pc = false := by
  unfold startIdent; split <;> pcs
@[simp] theorem startIdent_pc_rested (s : State) (k : Caller) : restedPc (startIdent s k).pc = false := by
  unfold startIdent; split <;> pcs
@[simp] theorem idNext_pc_sleeping (cfg : Cfg) (k : Caller) : sleepingPc (idNext cfg k).pc = false := by
  unfold idNext; split <;> (try split) <;> (try split) <;> pcs
@[simp] theorem idNext_pc_rested (cfg : Cfg) (k : Caller) : restedPc (idNext cfg k).pc = false := by
  unfold idNext; split <;> (try split) <;> (try split) <;> pcs
@[simp] theorem toFlush_pc_sleeping (s : State) (k : Caller) : sleepingPc (toFlush s k).pc = false := by
  unfold toFlush; split <;> pcs
@[simp] theorem toIdFlush_pc_sleeping (s : State) (k : Caller) : sleepingPc (toIdFlush s k).pc = false := by
  unfold toIdFlush; split <;> pcs

/-- a send (of a command or of an identification request) is made by a caller that has slept and not sent since -/
theorem step_send_rested (s s' : State) (t c : Nat) (e : Ev) (h : stepCaller s t c e = some s')
    (hs : sendLikeEv e = true) : restedPc (s.callers c).pc = true := by
  cases hpc : (s.callers c).pc <;> cases e <;> simp only [sendLikeEv] at hs <;> (try (simp at hs; done)) <;>
    simp only [stepCaller, hpc] at h <;> first | rfl | (simp at h)

set_option maxHeartbeats 8000000 in
/-- how a caller comes to sleep `wait_before`: by the event `slp wait_before` (woken up that much later) -/
theorem step_sleeping (s s' : State) (t c : Nat) (e : Ev) (h : stepCaller s t c e = some s')
    (hsl : sleepingPc (s'.callers c).pc = true) :
    (slpEv e = some s.cfg.waitBefore ∧ (s'.callers c).wakeAt = t + s.cfg.waitBefore) ∨
    (sleepingPc (s.callers c).pc = true ∧ sendLikeEv e = false ∧ (s'.callers c).wakeAt = (s.callers c).wakeAt) := by
  step_arms
  all_goals (first
    | (simp [State.setC, State.acquire, State.release, sleepingPc] at hsl; done)
    | (left; simp_all [slpEv, State.setC]; done)
    | (split at hsl <;> simp [State.setC, State.acquire, State.release, sleepingPc] at hsl; done)
    | (right; simp_all [sleepingPc, sendLikeEv, State.setC]; done)
    | skip)

set_option maxHeartbeats 8000000 in
/-- how a caller comes to be about to flush and send (with `wait_before ≠ 0`): it wakes up from that sleep when its
time has come — or it was there already and did not send -/
theorem step_rested (s s' : State) (t c : Nat) (e : Ev) (h : stepCaller s t c e = some s')
    (hw : s.cfg.waitBefore ≠ 0) (hr : restedPc (s'.callers c).pc = true) :
    (sleepingPc (s.callers c).pc = true ∧ wakeEv e = true ∧ (s.callers c).wakeAt ≤ t) ∨
    (restedPc (s.callers c).pc = true ∧ sendLikeEv e = false) := by
  step_arms
  all_goals (first
    | (simp [State.setC, State.acquire, State.release, restedPc] at hr; done)
    | contradiction
    | (left; simp_all [sleepingPc, wakeEv]; done)
    | (right; simp_all [restedPc, sendLikeEv]; done)
    | (split at hr <;> simp [State.setC, State.acquire, State.release, restedPc] at hr; done)
    | skip)

/-! ### the invariant -/

/-- caller `c` began a sleep of `w` at some position of the log, over at time `T`, and has not sent since -/
def SleptAt (log : Log) (c w T : Nat) : Prop :=
  ∃ p, p < log.length ∧ evAt log p = some (.slp c w) ∧ timeAt log p + w = T ∧
    ∀ m, p < m → m < log.length → sendLikeAt log m ≠ some c

theorem sleptAt_keep {log : Log} {c w T : Nat} (e : TEv) (h : SleptAt log c w T)
    (hns : sendLikeAt (log ++ [e]) log.length ≠ some c) : SleptAt (log ++ [e]) c w T := by
  obtain ⟨p, hp, hev, ht, hno⟩ := h
  refine ⟨p, by simp; omega, by rw [evAt_append_lt log e p hp]; exact hev, by rw [timeAt_append_lt log e p hp]; exact ht, ?_⟩
  intro m h1 h2
  simp only [List.length_append, List.length_singleton] at h2
  rcases Nat.lt_or_ge m log.length with hlt | hge
  · have : sendLikeAt (log ++ [e]) m = sendLikeAt log m := by unfold sendLikeAt; rw [evAt_append_lt log e m hlt]
    rw [this]; exact hno m h1 hlt
  · have : m = log.length := by omega
    subst this; exact hns

theorem sleptAt_new (log : Log) (e : TEv) (c w : Nat) (hev : e.ev = .slp c w) : SleptAt (log ++ [e]) c w (e.t + w) := by
  refine ⟨log.length, by simp, by rw [evAt_append_eq, hev], by rw [timeAt_append_eq], ?_⟩
  intro m h1 h2
  simp only [List.length_append, List.length_singleton] at h2
  omega

theorem sendLikeAt_last (log : Log) (e : TEv) :
    sendLikeAt (log ++ [e]) log.length = if sendLikeEv e.ev then e.ev.who else none := by
  rw [sendLikeAt_eq, evAt_append_eq]; rfl

structure WbInv (w : Nat) (log : Log) (s : State) : Prop where
  cf : s.cfg.waitBefore = w
  sl : ∀ c, sleepingPc (s.callers c).pc = true → SleptAt log c w (s.callers c).wakeAt
  rs : ∀ c, restedPc (s.callers c).pc = true → ∃ T, T ≤ s.clock ∧ SleptAt log c w T

theorem wbinv_init (cfg : Cfg) (cbs : List Nat) : WbInv cfg.waitBefore [] { cfg := cfg, cbsReg := cbs } :=
  ⟨rfl, fun c h => by simp [sleepingPc] at h, fun c h => by simp [restedPc] at h⟩

theorem wbinv_step {w : Nat} {log : Log} {s s' : State} (e : TEv) (hw : w ≠ 0) (hi : WbInv w log s)
    (h : step s e = some s') : WbInv w (log ++ [e]) s' := by
  have hclk : s.clock ≤ e.t := by
    unfold step at h; split at h
    · simp at h
    · omega
  cases hwho : e.ev.who with
  | none =>
    obtain ⟨hcal, hcfg⟩ := step_env_callers hwho h
    have hclock : s'.clock = e.t := by
      unfold step at h
      split at h
      · simp at h
      · simp only at h
        cases hev : e.ev <;> simp only [hev, Ev.who] at hwho h <;> try (simp at hwho)
        · split at h
          · split at h
            · simp at h
            · simp only [Option.some.injEq] at h; subst h; rfl
          · simp only [Option.some.injEq] at h; subst h; rfl
        · split at h <;> (simp only [Option.some.injEq] at h; subst h; rfl)
        · simp only [Option.some.injEq] at h; subst h; rfl
    have hns : ∀ c, sendLikeAt (log ++ [e]) log.length ≠ some c := by
      intro c; rw [sendLikeAt_last, hwho]; simp
    refine ⟨by rw [hcfg]; exact hi.cf, ?_, ?_⟩
    · intro c hs
      rw [hcal] at hs ⊢
      exact sleptAt_keep e (hi.sl c hs) (hns c)
    · intro c hr
      rw [hcal] at hr
      obtain ⟨T, hT, hsl⟩ := hi.rs c hr
      exact ⟨T, by omega, sleptAt_keep e hsl (hns c)⟩
  | some c0 =>
    rw [step_caller_form s e c0 hwho] at h
    split at h
    · simp at h
    · have hb := step_basic _ s' e.t c0 e.ev h
      have hclock : s'.clock = e.t := hb.2.1
      have hcf : s'.cfg.waitBefore = w := by rw [hb.1]; exact hi.cf
      have hw' : ({ s with clock := e.t } : State).cfg.waitBefore ≠ 0 := by
        show s.cfg.waitBefore ≠ 0
        rw [hi.cf]; exact hw
      have hoth : ∀ c, c ≠ c0 → sendLikeAt (log ++ [e]) log.length ≠ some c := by
        intro c hc; rw [sendLikeAt_last, hwho]; split <;> simp [Ne.symm hc]
      refine ⟨hcf, ?_, ?_⟩
      · intro c hs
        by_cases hcc : c = c0
        · subst hcc
          rcases step_sleeping _ s' e.t c e.ev h hs with ⟨hslp, hwake⟩ | ⟨hbefore, hnsend, hwake⟩
          · have hev : e.ev = .slp c w := by
              cases hev : e.ev <;> simp only [hev, slpEv] at hslp <;> try (simp at hslp)
              rename_i x d
              rw [hev] at hwho; simp only [Ev.who, Option.some.injEq] at hwho
              have hd : d = w := by
                have : s.cfg.waitBefore = w := hi.cf
                first | exact hslp.trans this | (simp only [Option.some.injEq] at hslp; exact hslp.trans this)
              rw [hwho, hd]
            rw [hwake]
            have : ({ s with clock := e.t } : State).cfg.waitBefore = w := hi.cf
            rw [this]
            exact sleptAt_new log e c w hev
          · rw [hwake]
            refine sleptAt_keep e (hi.sl c hbefore) ?_
            rw [sendLikeAt_last, hnsend]; simp
        · rw [step_others _ s' e.t c0 e.ev h c hcc] at hs ⊢
          exact sleptAt_keep e (hi.sl c hs) (hoth c hcc)
      · intro c hr
        rw [hclock]
        by_cases hcc : c = c0
        · subst hcc
          rcases step_rested _ s' e.t c e.ev h hw' hr with ⟨hbefore, hwk, hle⟩ | ⟨hbefore, hnsend⟩
          · refine ⟨_, hle, sleptAt_keep e (hi.sl c hbefore) ?_⟩
            rw [sendLikeAt_last]
            cases hev : e.ev <;> simp only [hev, wakeEv] at hwk <;> simp [sendLikeEv] <;> simp at hwk
          · obtain ⟨T, hT, hsl⟩ := hi.rs c hbefore
            refine ⟨T, by omega, sleptAt_keep e hsl ?_⟩
            rw [sendLikeAt_last, hnsend]; simp
        · rw [step_others _ s' e.t c0 e.ev h c hcc] at hr
          obtain ⟨T, hT, hsl⟩ := hi.rs c hr
          exact ⟨T, by omega, sleptAt_keep e hsl (hoth c hcc)⟩

theorem wbinv_exec_gen {w : Nat} (hw : w ≠ 0) : ∀ (evs pre : List TEv) (s0 s : State), WbInv w pre s0 → exec s0 evs = some s →
    WbInv w (pre ++ evs) s
  | [], pre, s0, s, hj, h => by simp [exec] at h; subst h; simpa using hj
  | e :: es, pre, s0, s, hj, h => by
    simp only [exec] at h
    cases hst : step s0 e with
    | none => simp [hst] at h
    | some s1 =>
      simp only [hst] at h
      have := wbinv_exec_gen hw es (pre ++ [e]) s1 s (wbinv_step e hw hj hst) h
      simpa using this

theorem wbinv_exec (cfg : Cfg) (cbs : List Nat) (evs : List TEv) (s : State) (hw : cfg.waitBefore ≠ 0)
    (h : exec { cfg := cfg, cbsReg := cbs } evs = some s) : WbInv cfg.waitBefore evs s := by
  simpa using wbinv_exec_gen hw evs [] _ s (wbinv_init cfg cbs) h

end Frappy.Comm
