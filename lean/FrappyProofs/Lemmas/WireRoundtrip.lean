import FrappyModel.Spec.C02
/-
C02: export → import returns a Python-equal value, of the prescribed JSON kind, strict — by mutual
structural induction over datatype trees.
-/
set_option linter.unusedSectionVars false
set_option linter.unusedVariables false
namespace Frappy.Lemmas.C02
open FloatOps DType Frappy.Datatypes Frappy.Spec.C01 Frappy.Spec.C02
open PVal (pyEq pyEqList pyEqDict dictGet dictSet seqItems?)

variable {F : Type} [FloatOps F] [WireLaws F]

/-! ### values that can be sent

`Sendable dt v`: what the wire round trip needs of `v` — the declared value set (`Valid`) with the limits of the
float leaves dropped: a double leaf is finite, a scaled leaf is a number the grid reproduces.  Every valid value is
sendable (`valid_sendable`); so is what `from_string` makes of a text form (a re-read float may leave the limits:
`'%g' % 123456789.0` reads back as `123457000.0`). -/

mutual
def Sendable : DType F → PVal F → Prop
  | .double _ _ _ _, v =>
    match v with
    | .float x => FiniteNum x
    | _ => False
  | .scaled scale _ _ _ _, v =>
    match v with
    | .float x => SnapFix scale x ∧ isNaN x = false
    | _ => False
  | .array elem minlen maxlen, v =>
    match v with
    | .tuple vs => (∀ x ∈ vs, Sendable elem x) ∧ minlen ≤ vs.length ∧ vs.length ≤ maxlen
    | _ => False
  | .tuple elems, v =>
    match v with
    | .tuple vs => SendableZip elems vs
    | _ => False
  | .struct ms opt _, v =>
    match v with
    | .dict fields => (∀ kv ∈ fields, SendableMember ms kv.1 kv.2) ∧ (fields.map (·.1)).Nodup ∧
        (∀ k ∈ ms.map (·.1), k ∉ opt → k ∈ fields.map (·.1))
    | _ => False
  | .int min max, v => InSetG SnapFix (.int min max) v
  | .bool, v => InSetG SnapFix (.bool) v
  | .enum ms, v => InSetG SnapFix (.enum ms) v
  | .string a b c, v => InSetG SnapFix (.string a b c) v
  | .blob a b, v => InSetG SnapFix (.blob a b) v
def SendableZip : List (DType F) → List (PVal F) → Prop
  | [], [] => True
  | t :: ts, v :: vs => Sendable t v ∧ SendableZip ts vs
  | _, _ => False
def SendableMember : List (String × DType F) → String → PVal F → Prop
  | [], _, _ => False
  | (k, t) :: rest, key, v => if k = key then Sendable t v else SendableMember rest key v
end

/-! ### plumbing -/

theorem median3_mid {a b c : F} (h1 : le a b = true) (h2 : le b c = true) : median3 a b c = b := by
  simp [median3, h1, h2]

theorem inSetG_none {G : F → F → Prop} (dt : DType F) : ¬ InSetG G dt .none := by
  cases dt <;> simp [InSetG]

theorem dictSet_fresh {α : Type} (acc : List (String × α)) (k : String) (v : α) (h : k ∉ acc.map (·.1)) :
    dictSet acc k v = acc ++ [(k, v)] := by
  induction acc with
  | nil => rfl
  | cons hd tl ih =>
    obtain ⟨k', v'⟩ := hd
    simp only [List.map_cons, List.mem_cons, not_or] at h
    have hne : ¬ k' = k := fun e => h.1 e.symm
    simp only [dictSet, hne, if_false, List.cons_append, ih h.2]

/-- position-wise related association lists: same keys in the same order -/
def RelFields (R : PVal F → PVal F → Prop) : List (String × PVal F) → List (String × PVal F) → Prop
  | [], [] => True
  | (k, a) :: l, (k', b) :: r => k = k' ∧ R a b ∧ RelFields R l r
  | _, _ => False

theorem relFields_keys {R : PVal F → PVal F → Prop} : ∀ (l r : List (String × PVal F)), RelFields R l r →
    l.map (·.1) = r.map (·.1)
  | [], [], _ => rfl
  | (k, a) :: l, (k', b) :: r, h => by
    simp only [RelFields] at h
    simp only [List.map_cons, h.1, relFields_keys l r h.2.2]
  | [], _ :: _, h => by simp [RelFields] at h
  | _ :: _, [], h => by simp [RelFields] at h

theorem relFields_append {R : PVal F → PVal F → Prop} : ∀ (l r : List (String × PVal F)) (k : String) (a b : PVal F),
    RelFields R l r → R a b → RelFields R (l ++ [(k, a)]) (r ++ [(k, b)])
  | [], [], k, a, b, _, hab => by simp [RelFields, hab]
  | (k1, a1) :: l, (k2, b2) :: r, k, a, b, h, hab => by
    simp only [RelFields] at h
    simp only [List.cons_append, RelFields]
    exact ⟨h.1, h.2.1, relFields_append l r k a b h.2.2 hab⟩
  | [], _ :: _, _, _, _, h, _ => by simp [RelFields] at h
  | _ :: _, [], _, _, _, h, _ => by simp [RelFields] at h

theorem dictGet_of_rel : ∀ (l r : List (String × PVal F)), RelFields (fun a b => pyEq a b = true) l r →
    (r.map (·.1)).Nodup → ∀ kv ∈ l, ∃ b, dictGet r kv.1 = some b ∧ pyEq kv.2 b = true
  | [], [], _, _, kv, hkv => by cases hkv
  | (k, a) :: l, (k', b) :: r, h, hnd, kv, hkv => by
    simp only [RelFields] at h
    obtain ⟨hk, hab, hrest⟩ := h
    subst hk
    simp only [List.map_cons, List.nodup_cons] at hnd
    rcases List.mem_cons.mp hkv with rfl | hmem
    · exact ⟨b, by simp [dictGet], hab⟩
    · obtain ⟨b', hb', he⟩ := dictGet_of_rel l r hrest hnd.2 kv hmem
      refine ⟨b', ?_, he⟩
      have hkeys := relFields_keys l r hrest
      have : kv.1 ∈ r.map (·.1) := by
        rw [← hkeys]; exact List.mem_map.mpr ⟨kv, hmem, rfl⟩
      have hne : ¬ k = kv.1 := fun e => hnd.1 (e ▸ this)
      simp only [dictGet, hne, if_false, hb']
  | [], _ :: _, h, _, _, _ => by simp [RelFields] at h
  | _ :: _, [], h, _, _, _ => by simp [RelFields] at h

theorem pyEqDict_of_lookup (r : List (String × PVal F)) : ∀ (l : List (String × PVal F)),
    (∀ kv ∈ l, ∃ b, dictGet r kv.1 = some b ∧ pyEq kv.2 b = true) → pyEqDict l r = true
  | [], _ => by simp [pyEqDict]
  | (k, a) :: l, h => by
    obtain ⟨b, hb, he⟩ := h (k, a) (List.mem_cons_self ..)
    have ih := pyEqDict_of_lookup r l (fun kv hkv => h kv (List.mem_cons_of_mem _ hkv))
    simp only [pyEqDict, hb, he, ih, Bool.and_self]

theorem relFields_length {R : PVal F → PVal F → Prop} (l r : List (String × PVal F)) (h : RelFields R l r) :
    l.length = r.length := by
  have := congrArg List.length (relFields_keys l r h)
  simpa using this

theorem pyEq_dict_of_rel (l r : List (String × PVal F)) (h : RelFields (fun a b => pyEq a b = true) l r)
    (hnd : (r.map (·.1)).Nodup) : pyEq (.dict l) (.dict r) = true := by
  have h1 := relFields_length l r h
  have h2 := pyEqDict_of_lookup r l (dictGet_of_rel l r h hnd)
  simp [pyEq, h1, h2]

theorem relFields_mono {R S : PVal F → PVal F → Prop} (hrs : ∀ a b, R a b → S a b) :
    ∀ (l r : List (String × PVal F)), RelFields R l r → RelFields S l r
  | [], [], _ => by simp [RelFields]
  | (k, a) :: l, (k', b) :: r, h => by
    simp only [RelFields] at h ⊢
    exact ⟨h.1, hrs a b h.2.1, relFields_mono hrs l r h.2.2⟩
  | [], _ :: _, h => by simp [RelFields] at h
  | _ :: _, [], h => by simp [RelFields] at h

/-- the relation between what comes back and what was sent: Python-equal, and the very same value when that was canonical -/
def Back (a b : PVal F) : Prop := pyEq a b = true ∧ (Canon b → a = b)

theorem relFields_exact : ∀ (l r : List (String × PVal F)), RelFields Back l r → CanonFields r → l = r
  | [], [], _, _ => rfl
  | (k, a) :: l, (k', b) :: r, h, hc => by
    simp only [RelFields] at h
    simp only [CanonFields] at hc
    rw [h.1, h.2.1.2 hc.1, relFields_exact l r h.2.2 hc.2]
  | [], _ :: _, h, _ => by simp [RelFields] at h
  | _ :: _, [], h, _ => by simp [RelFields] at h

/-! ### leaves -/

theorem find_member {ms : List (String × Int)} {n : String} {k : Int} (hm : (n, k) ∈ ms)
    (hnd : (ms.map (·.2)).Nodup) : enumByValue ms k = some (n, k) := by
  induction ms with
  | nil => cases hm
  | cons hd tl ih =>
    obtain ⟨n', k'⟩ := hd
    simp only [List.map_cons, List.nodup_cons] at hnd
    simp only [enumByValue, List.find?]
    rcases List.mem_cons.mp hm with h | h
    · cases h; simp
    · have hne : ¬ k' = k := by
        intro e
        exact hnd.1 (e ▸ List.mem_map.mpr ⟨(n, k), h, rfl⟩)
      have : (k' == k) = false := by simpa using hne
      simp only [this]
      exact ih h hnd.2

/-- a value within the limits of a well-formed double type is finite -/
theorem double_finite {min max ar rr x : F} (hwf : (DType.double min max ar rr).WF)
    (hv : isNaN x = false ∧ le min x = true ∧ le x max = true) : FiniteNum x := by
  simp only [DType.WF] at hwf
  obtain ⟨hn, hlo, hhi⟩ := hv
  exact ⟨hn, WireLaws.le_trans _ _ _ hwf.2.2.2.1 hlo, WireLaws.le_trans _ _ _ hhi hwf.2.2.2.2.1⟩

theorem double_rt {min max ar rr x : F} (hfin : FiniteNum x) :
    exportValue (.double min max ar rr) (.float x) = .ok (.num x) ∧ FiniteNum x ∧
    importValue (.double min max ar rr) (.num x) = .ok (.float (addZero x)) ∧
    pyEq (.float (addZero x) : PVal F) (.float x) = true := by
  obtain ⟨hn, h1, h2⟩ := hfin
  refine ⟨rfl, ⟨hn, h1, h2⟩, ?_, ?_⟩
  · have hm : median3 (neg maxFinite) (addZero x) maxFinite = addZero x :=
      median3_mid (by rw [WireLaws.le_addZero_right]; exact h1) (by rw [WireLaws.le_addZero_left]; exact h2)
    simp [importValue, call, conv, PVal.ofJVal, doubleCall, PVal.toFloat?, WireLaws.isNaN_addZero, hn, hm, Except.map]
  · simp [pyEq, PVal.numeric?, PVal.numEq, WireLaws.feq_addZero_self x hn]

theorem int_rt {min max i : Int} (hwf : (DType.int min max : DType F).WF) (hv : min ≤ i ∧ i ≤ max) :
    importValue (.int min max : DType F) (.int i) = .ok (.int i) ∧ pyEq (.int i : PVal F) (.int i) = true := by
  simp only [DType.WF] at hwf
  obtain ⟨y, hy⟩ := WireLaws.ofInt_inRange (F := F) i (by omega) (by omega)
  constructor
  · simp [importValue, call, conv, PVal.ofJVal, intCall, hy, Except.map]
  · simp [pyEq, PVal.numeric?, PVal.numEq]

theorem between_notNaN {scale min max x : F} (hb : BetweenSnapped scale min max x) : isNaN x = false := by
  unfold BetweenSnapped at hb
  split at hb
  · exact (WireLaws.le_notNaN _ _ hb.1).2
  · exact hb.elim

theorem scaled_rt {scale min max ar rr x : F} (hv : SnapFix scale x ∧ isNaN x = false) :
    ∃ k, exportValue (.scaled scale min max ar rr) (.float x) = .ok (.int k) ∧
      importValue (.scaled scale min max ar rr) (.int k) = .ok (.float x) ∧
      pyEq (.float x : PVal F) (.float x) = true := by
  obtain ⟨hs, hn⟩ := hv
  unfold SnapFix IsSome at hs
  cases hsn : snap scale x with
  | none => rw [hsn] at hs; exact hs.elim
  | some x' =>
    rw [hsn] at hs
    simp only at hs
    have hx' : x' = x := (WireLaws.same_iff _ _).mp hs
    unfold snap at hsn
    cases hgi : gridIndex scale x with
    | none => rw [hgi] at hsn; cases hsn
    | some k =>
      rw [hgi] at hsn
      simp only at hsn
      unfold ofGrid at hsn
      cases hy : (ofInt k : Option F) with
      | none => rw [hy] at hsn; cases hsn
      | some y =>
        rw [hy] at hsn
        simp only [Option.some.injEq] at hsn
        have hxy : mul y scale = x := hsn.trans hx'
        refine ⟨k, ?_, ?_, ?_⟩
        · simp [exportValue, scaledExport, floatOf, hgi]
        · simp [importValue, scaledImport, PVal.ofJVal, intCall, hy, Except.map, WireLaws.mul_comm scale y, hxy]
        · simp [pyEq, PVal.numeric?, PVal.numEq, WireLaws.feq_refl x hn]

theorem enum_rt {ms : List (String × Int)} {n : String} {k : Int} (hwf : (DType.enum ms : DType F).WF) (hm : (n, k) ∈ ms) :
    exportValue (.enum ms : DType F) (.enum n k) = .ok (.int k) ∧
    importValue (.enum ms : DType F) (.int k) = .ok (.enum n k) ∧ pyEq (.enum n k : PVal F) (.enum n k) = true := by
  simp only [DType.WF] at hwf
  have hf := find_member hm hwf.2.2
  refine ⟨?_, ?_, ?_⟩
  · simp [exportValue, enumExport, enumCall, hf]
  · simp [importValue, call, conv, PVal.ofJVal, enumCall, hf]
  · simp [pyEq, PVal.enumEq]

theorem string_rt {minc maxc : Nat} {utf8 : Bool} {s : String}
    (hv : minc ≤ s.length ∧ s.length ≤ maxc ∧ (utf8 = false → ∀ c ∈ s.toList, c.toNat < 128) ∧ (∀ c ∈ s.toList, c.toNat ≠ 0)) :
    stringCall minc maxc utf8 (.str s : PVal F) = .ok s := by
  obtain ⟨h1, h2, h3, h4⟩ := hv
  have ha : (!utf8 && !isAscii s) = false := by
    cases utf8 with
    | true => simp
    | false =>
      have : isAscii s = true := by
        simp only [isAscii, List.all_eq_true, decide_eq_true_eq]
        exact h3 rfl
      simp [this]
  have hz : hasNul s = false := by
    simp only [hasNul, Bool.eq_false_iff, ne_eq, List.any_eq_true, not_exists, not_and]
    intro c hc h
    exact h4 c hc (by simpa using h)
  have h1' : ¬ s.length < minc := by omega
  have h2' : ¬ s.length > maxc := by omega
  simp [stringCall, ha, hz, h1', h2']

/-! ### containers -/

theorem mapExport_rt {f : PVal F → Except Err (JVal F)} {g : JVal F → Res F} {P : JVal F → Prop} :
    ∀ (vs : List (PVal F)),
    (∀ v ∈ vs, ∃ j v', f v = .ok j ∧ P j ∧ StrictJ j ∧ g j = .ok v' ∧ pyEq v' v = true ∧ (Canon v → v' = v)) →
    ∃ js vs', mapExport f vs = .ok js ∧ (∀ j ∈ js, P j) ∧ StrictList js ∧ js.length = vs.length ∧
      mapImport g js = .ok vs' ∧ pyEqList vs' vs = true ∧ (CanonList vs → vs' = vs)
  | [], _ => ⟨[], [], rfl, by simp, by simp [StrictList], rfl, rfl, by simp [pyEqList], fun _ => rfl⟩
  | v :: vs, h => by
    obtain ⟨j, v', hf, hp, hs, hg, he, hx⟩ := h v (List.mem_cons_self ..)
    obtain ⟨js, vs', hfs, hps, hss, hl, hgs, hes, hxs⟩ := mapExport_rt vs (fun x hx => h x (List.mem_cons_of_mem _ hx))
    refine ⟨j :: js, v' :: vs', ?_, ?_, ?_, ?_, ?_, ?_, ?_⟩
    · simp [mapExport, hf, hfs]
    · intro x hx
      rcases List.mem_cons.mp hx with rfl | hx
      · exact hp
      · exact hps x hx
    · simp [StrictList, hs, hss]
    · simp [hl]
    · simp [mapImport, hg, hgs]
    · simp [pyEqList, he, hes]
    · intro hc
      simp only [CanonList] at hc
      rw [hx hc.1, hxs hc.2]

theorem givenKeys_of_noNone : ∀ (items : List (String × PVal F)), (∀ kv ∈ items, kv.2 ≠ .none) →
    givenKeys items = items.map (·.1)
  | [], _ => rfl
  | (k, v) :: rest, h => by
    have hv : v ≠ .none := h (k, v) (List.mem_cons_self ..)
    have ih := givenKeys_of_noNone rest (fun kv hkv => h kv (List.mem_cons_of_mem _ hkv))
    cases v <;> simp_all [givenKeys]

theorem structCheck_ok (names opt : List String) (items : List (String × PVal F))
    (h1 : ∀ kv ∈ items, kv.1 ∈ names) (h2 : ∀ kv ∈ items, kv.2 ≠ .none)
    (h3 : ∀ k ∈ names, k ∉ opt → k ∈ items.map (·.1)) : structCheck names opt true items = true := by
  simp only [structCheck, Bool.and_eq_true, List.all_eq_true, Bool.true_and, Bool.or_eq_true,
    givenKeys_of_noNone items h2]
  refine ⟨fun kv hkv => by simpa using h1 kv hkv, fun k hk => ?_⟩
  by_cases ho : k ∈ opt
  · right; simpa using ho
  · left; simpa using h3 k hk ho

theorem ofJFields_keys : ∀ (fs : List (String × JVal F)), (PVal.ofJVal.ofJFields fs).map (·.1) = fs.map (·.1)
  | [] => rfl
  | (k, j) :: fs => by simp [PVal.ofJVal.ofJFields, ofJFields_keys fs]

theorem ofJVal_ne_none {j : JVal F} (h : j ≠ .null) : PVal.ofJVal j ≠ .none := by
  cases j <;> simp_all [PVal.ofJVal]

theorem ofJFields_noNone : ∀ (fs : List (String × JVal F)), (∀ kv ∈ fs, kv.2 ≠ .null) →
    ∀ kv ∈ PVal.ofJVal.ofJFields fs, kv.2 ≠ .none
  | [], _, kv, hkv => by cases hkv
  | (k, j) :: fs, h, kv, hkv => by
    simp only [PVal.ofJVal.ofJFields] at hkv
    rcases List.mem_cons.mp hkv with rfl | hmem
    · exact ofJVal_ne_none (h (k, j) (List.mem_cons_self ..))
    · exact ofJFields_noNone fs (fun x hx => h x (List.mem_cons_of_mem _ hx)) kv hmem

theorem mapFieldsExport_rt {f : String → PVal F → Option (Except Err (JVal F))} {g : String → JVal F → Option (Res F)}
    {P : String → JVal F → Prop} {R : PVal F → PVal F → Prop} :
    ∀ (fields acc acc' : List (String × PVal F)),
    (∀ kv ∈ fields, ∃ j v', f kv.1 kv.2 = some (.ok j) ∧ P kv.1 j ∧ StrictJ j ∧ j ≠ .null ∧
        g kv.1 j = some (.ok v') ∧ R v' kv.2) →
    (fields.map (·.1)).Nodup → (∀ k ∈ fields.map (·.1), k ∉ acc.map (·.1)) →
    RelFields R acc acc' →
    ∃ jfs fs', mapFieldsExport f fields = .ok jfs ∧ (∀ kv ∈ jfs, P kv.1 kv.2) ∧ StrictFields jfs ∧
      (∀ kv ∈ jfs, kv.2 ≠ .null) ∧ jfs.map (·.1) = fields.map (·.1) ∧
      foldImport g jfs acc = .ok fs' ∧ RelFields R fs' (acc' ++ fields)
  | [], acc, acc', _, _, _, hrel => by
    refine ⟨[], acc, rfl, by simp, by simp [StrictFields], by simp, rfl, rfl, by simpa using hrel⟩
  | (k, v) :: rest, acc, acc', h, hnd, hdis, hrel => by
    obtain ⟨j, v', hf, hp, hs, hnn, hg, he⟩ := h (k, v) (List.mem_cons_self ..)
    simp only [List.map_cons, List.nodup_cons] at hnd
    have hk : k ∉ acc.map (·.1) := hdis k (by simp)
    have hset : dictSet acc k v' = acc ++ [(k, v')] := dictSet_fresh acc k v' hk
    have hdis' : ∀ k' ∈ rest.map (·.1), k' ∉ (acc ++ [(k, v')]).map (·.1) := by
      intro k' hk' hmem
      simp only [List.map_append, List.map_cons, List.map_nil, List.mem_append, List.mem_singleton] at hmem
      rcases hmem with hmem | rfl
      · exact hdis k' (by simp [hk']) hmem
      · exact hnd.1 hk'
    obtain ⟨jfs, fs', hfs, hps, hss, hnns, hkeys, hgs, hrel'⟩ :=
      mapFieldsExport_rt rest (acc ++ [(k, v')]) (acc' ++ [(k, v)])
        (fun kv hkv => h kv (List.mem_cons_of_mem _ hkv)) hnd.2 hdis' (relFields_append acc acc' k v' v hrel he)
    refine ⟨(k, j) :: jfs, fs', ?_, ?_, ?_, ?_, ?_, ?_, ?_⟩
    · simp [mapFieldsExport, hf, hfs]
    · intro kv hkv
      rcases List.mem_cons.mp hkv with rfl | hkv
      · exact hp
      · exact hps kv hkv
    · simp [StrictFields, hs, hss]
    · intro kv hkv
      rcases List.mem_cons.mp hkv with rfl | hkv
      · exact hnn
      · exact hnns kv hkv
    · simp [hkeys]
    · simp [foldImport, hg, hset, hgs]
    · simpa using hrel'

end Frappy.Lemmas.C02
