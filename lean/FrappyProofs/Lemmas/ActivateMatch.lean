import FrappyProofs.Lemmas.ActivateSnapExplicit
/-
C08: in the model a reply answers the request whose marker is the last marker of that connection (`RepliesMatch`), and with
that the index form of `SnapshotComplete` names the scope of the request that is answered.
-/
namespace Frappy.Activate
open Frappy.Spec.C08

def matchAfter (tr : List Obs) : Conn → Option Req := matchMon.after matchMon.init tr

theorem matchAfter_append (tr : List Obs) (o : Obs) : matchAfter (tr ++ [o]) = matchNext (matchAfter tr) o :=
  Mon.after_append matchMon _ tr o

def MatchAcc (tr : List Obs) : Prop := matchMon.acceptsFrom matchMon.init tr = true

theorem matchAcc_append (tr : List Obs) (o : Obs) : MatchAcc (tr ++ [o]) ↔ MatchAcc tr ∧ matchOk (matchAfter tr) o = true := by
  unfold MatchAcc
  rw [Mon.acceptsFrom_append, Bool.and_eq_true]
  rfl

/-- the request a request thread is working on, by program counter -/
def curReq : HPc → Option Req
  | .idle => none
  | .done => none
  | .start r => some r
  | .wantSub r => some r
  | .relSub r => some r
  | .wantUpd s _ _ => some (.activate s)
  | .snapMod s _ _ _ => some (.activate s)
  | .snapSend s _ _ _ _ _ => some (.activate s)
  | .wantAcc w m p e _ => some (.rw w m p e)
  | .relAcc w m p e _ => some (.rw w m p e)
  | .relDisp r _ => some r
  | .rep r _ => some r

@[simp] theorem curReq_wantAcc (w m p e n) : curReq (.wantAcc w m p e n) = some (.rw w m p e) := rfl
@[simp] theorem curReq_relAcc (w m p e n) : curReq (.relAcc w m p e n) = some (.rw w m p e) := rfl
@[simp] theorem curReq_afterCall (w m p e n) : curReq (afterCall w m p e n) = some (.rw w m p e) := by
  unfold afterCall; split <;> rfl
@[simp] theorem curReq_afterStart (cfg r) : curReq (afterStart cfg r) = some r := by
  cases r with
  | rw w m p e => by_cases hk : cfg.rw w m p = .calls <;> simp [afterStart, hk, curReq]
  | _ => rfl
@[simp] theorem curReq_idle : curReq .idle = none := rfl
@[simp] theorem curReq_done : curReq .done = none := rfl
@[simp] theorem curReq_start (r) : curReq (.start r) = some r := rfl
@[simp] theorem curReq_wantSub (r) : curReq (.wantSub r) = some r := rfl
@[simp] theorem curReq_relSub (r) : curReq (.relSub r) = some r := rfl
@[simp] theorem curReq_wantUpd (s m rest) : curReq (.wantUpd s m rest) = some (.activate s) := rfl
@[simp] theorem curReq_snapMod (s m ps rest) : curReq (.snapMod s m ps rest) = some (.activate s) := rfl
@[simp] theorem curReq_snapSend (s m p e ps rest) : curReq (.snapSend s m p e ps rest) = some (.activate s) := rfl
@[simp] theorem curReq_relDisp (r ok) : curReq (.relDisp r ok) = some r := rfl
@[simp] theorem curReq_rep (r ok) : curReq (.rep r ok) = some r := rfl
@[simp] theorem curReq_firstPc (r) : curReq (firstPc r) = some r := by cases r <;> rfl
@[simp] theorem curReq_afterSnap (s l) : curReq (afterSnap s l) = some (.activate s) := by cases l <;> rfl
@[simp] theorem curReq_afterTable_disc (cfg c) : curReq (afterTable cfg c .disconnect) = none := rfl
theorem curReq_afterTable (cfg c r) (h : r ≠ .disconnect) : curReq (afterTable cfg c r) = some r := by
  cases r with
  | activate s => simp [afterTable]
  | disconnect => exact absurd rfl h
  | _ => rfl

structure MatchInv (σ : State) : Prop where
  acc : MatchAcc σ.trace
  cur : ∀ c, matchAfter σ.trace c = curReq (σ.hpc c)

theorem matchInv_init (hs us cache) : MatchInv (init hs us cache) := by
  constructor
  · simp [init, MatchAcc, Mon.acceptsFrom]
  · intro c; rfl

theorem matchInv_stepH (cfg : Cfg) (σ σ' : State) (c : Conn) (hI : MatchInv σ) (hs : stepH cfg σ c = some σ') :
    MatchInv σ' := by
  obtain ⟨hacc, hcur⟩ := hI
  have h1 := hcur c
  unfold stepH at hs
  step_cases hs
  all_goals
    refine ⟨?_, ?_⟩
    · try dsimp only
      try split
      all_goals first
        | exact hacc
        | (rw [matchAcc_append]; refine ⟨hacc, ?_⟩; simp_all [matchOk])
        | (simp only [tableWrite_trace]; exact hacc)
    · intro c'
      have h0 := hcur c'
      by_cases hc : c' = c
      · subst hc
        try dsimp only
        try split
        all_goals simp_all [matchAfter_append, matchNext, curReq_afterTable]
      · try dsimp only
        try split
        all_goals simp [matchAfter_append, matchNext, hc, h0]

theorem matchInv_stepU (cfg : Cfg) (σ σ' : State) (k : Nat) (arg : Conn) (hI : MatchInv σ)
    (hs : stepU cfg σ k arg = some σ') : MatchInv σ' := by
  obtain ⟨hacc, hcur⟩ := hI
  unfold stepU at hs
  step_cases hs
  all_goals
    refine ⟨?_, ?_⟩
    · try dsimp only
      try split
      all_goals first
        | exact hacc
        | (rw [matchAcc_append]; exact ⟨hacc, rfl⟩)
    · intro c
      try dsimp only
      try split
      all_goals simp [matchAfter_append, matchNext, hcur c]

theorem matchInv_reach (cfg : Cfg) (hs us cache) (σ : State) (h : Reach cfg (init hs us cache) σ) : MatchInv σ := by
  induction h with
  | init => exact matchInv_init hs us cache
  | step a _ hstep ih =>
    unfold step at hstep
    split at hstep
    · exact matchInv_stepH cfg _ _ _ ih hstep
    · exact matchInv_stepU cfg _ _ _ _ ih (stepUG_some hstep)

/-! ## index form -/

/-- `o` is a request marker of `c` or a reply to `c` -/
def ofConn (c : Conn) : Obs → Prop
  | .reqStart c' _ => c' = c
  | .reply c' _ _ => c' = c
  | _ => False

theorem matchAfter_spec (tr : List Obs) : ∀ c r, matchAfter tr c = some r → Since (.reqStart c r) (ofConn c) tr := by
  induction tr using rev_ind with
  | hnil => intro c r h; simp [matchAfter, Mon.after, matchMon] at h
  | hsnoc tr o ih =>
    intro c r h
    rw [matchAfter_append] at h
    rw [since_append]
    cases o with
    | reqStart c' r' =>
      by_cases hc : c = c'
      · subst hc
        simp only [matchNext, set_same, Option.some.injEq] at h
        subst h; exact Or.inl rfl
      · simp only [matchNext, set_other _ _ _ _ hc] at h
        exact Or.inr ⟨ih c r h, by simp only [ofConn]; exact fun e => hc e.symm⟩
    | reply c' r' ok =>
      by_cases hc : c = c'
      · subst hc; simp [matchNext] at h
      · simp only [matchNext, set_other _ _ _ _ hc] at h
        exact Or.inr ⟨ih c r h, by simp only [ofConn]; exact fun e => hc e.symm⟩
    | deliver c' m p e => exact Or.inr ⟨ih c r h, by simp [ofConn]⟩
    | emit u m p e => exact Or.inr ⟨ih c r h, by simp [ofConn]⟩
    | emitDone u => exact Or.inr ⟨ih c r h, by simp [ofConn]⟩

/-- the English sentence of `SnapshotComplete` for a trace in which replies answer requests: every delivered update carries
the value the cache holds at that moment; a positive reply `active` to `activate s` of connection `c` at `i` is preceded by
its request marker at `j` (nothing else from or to `c` in between as far as requests and replies go), and between `j` and
`i` an update of every exported parameter in `s` was delivered to `c` -/
def SnapshotExplicitS (cfg : Cfg) (cache : Mod → Par → Entry) (tr : List Obs) : Prop :=
  (∀ (i : Nat) (c : Conn) (m : Mod) (p : Par) (e : Entry), tr[i]? = some (.deliver c m p e) →
      e = cacheAfter cache (tr.take i) m p) ∧
  (∀ (i : Nat) (c : Conn) (s : Scope), tr[i]? = some (.reply c (.activate s) true) →
      ∃ (j : Nat), j < i ∧ tr[j]? = some (.reqStart c (.activate s)) ∧
        (∀ (k : Nat) (o : Obs), j < k → k < i → tr[k]? = some o → ¬ ofConn c o) ∧
        ∀ x ∈ scopeItems cfg s, ∃ (k : Nat) (e : Entry), j < k ∧ k < i ∧ tr[k]? = some (.deliver c x.1 x.2 e))

theorem snapshotExplicitS (cfg : Cfg) (cache : Mod → Par → Entry) (tr : List Obs)
    (h1 : SnapshotComplete cfg cache tr) (h2 : RepliesMatch tr) : SnapshotExplicitS cfg cache tr := by
  obtain ⟨hd, hr⟩ := snapshotExplicit_of_complete cfg cache tr h1
  refine ⟨hd, ?_⟩
  intro i c s hi
  unfold RepliesMatch Mon.accepts at h2
  rw [Mon.acceptsFrom_iff] at h2
  have h3 : matchAfter (tr.take i) c = some (.activate s) := by
    have := h2 i _ hi
    simpa [matchMon, matchOk, matchAfter] using this
  obtain ⟨j, hji, hj, hjk⟩ := (since_take _ _ tr i).1 (matchAfter_spec (tr.take i) c _ h3)
  obtain ⟨j', sc, hj'i, hj', hj'k, hx⟩ := hr i c s hi
  have hjj : j' = j := by
    rcases Nat.lt_trichotomy j' j with h | h | h
    · exact absurd (by simp [resets]) (hj'k j _ h hji hj)
    · exact h
    · exact absurd (by simp [ofConn]) (hjk j' _ h hj'i hj')
  subst hjj
  have hsc : sc = s := by
    rw [hj] at hj'
    simp only [Option.some.injEq, Obs.reqStart.injEq, Req.activate.injEq, true_and] at hj'
    exact hj'.symm
  subst hsc
  exact ⟨j', hji, hj, hjk, hx⟩

end Frappy.Activate
