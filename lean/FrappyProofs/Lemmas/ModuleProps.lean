import FrappyModel.Spec.C06
/-
Helper lemmas for C06: property values after `Module.__init__` (configuration, then automatic properties) and what
`exportProperties` makes of them.
-/
namespace Frappy.Lemmas.ModuleProps
open Frappy.Node

variable {J P : Type}

theorem getProp_setProp_same (vals : List (String × P)) (k : String) (v : P) :
    getProp (setProp vals k v) k = some v := by
  simp [getProp, setProp]

theorem getProp_setProp_ne (vals : List (String × P)) (k k' : String) (v : P) (h : k ≠ k') :
    getProp (setProp vals k v) k' = getProp vals k' := by
  have hb : (k == k') = false := by simpa using h
  simp [getProp, setProp, hb]

/-- the configuration, where it names a declared property, else what was there before -/
def cfgOr (cfg vals : List (String × P)) (k : String) : Option P :=
  match getProp cfg k with
  | some v => some v
  | none => getProp vals k

theorem getProp_applyCfgOne (cfg vals : List (String × P)) (d : PropDecl P) (k : String) :
    getProp (applyCfgOne cfg vals d) k = if d.name = k then cfgOr cfg vals k else getProp vals k := by
  unfold applyCfgOne cfgOr
  by_cases h : d.name = k
  · subst h
    rw [if_pos rfl]
    cases hc : getProp cfg d.name with
    | none => rfl
    | some v => exact getProp_setProp_same vals d.name v
  · rw [if_neg h]
    cases hc : getProp cfg d.name with
    | none => rfl
    | some v => exact getProp_setProp_ne vals d.name k v h

theorem cfgOr_idem (cfg vals vals' : List (String × P)) (k : String) (h : getProp vals' k = cfgOr cfg vals k) :
    cfgOr cfg vals' k = cfgOr cfg vals k := by
  unfold cfgOr at *
  cases hc : getProp cfg k with
  | some v => rfl
  | none => rw [hc] at h; exact h

/-- step 2 as a whole: a declared property takes the configured value if there is one -/
theorem getProp_applyCfg (decls : List (PropDecl P)) (cfg vals : List (String × P)) (k : String) :
    getProp (applyCfg decls cfg vals) k =
      if k ∈ decls.map (·.name) then cfgOr cfg vals k else getProp vals k := by
  induction decls generalizing vals with
  | nil => simp [applyCfg]
  | cons d ds ih =>
    rw [applyCfg, ih, getProp_applyCfgOne]
    by_cases hd : d.name = k
    · have hmem : k ∈ (d :: ds).map (·.name) := by rw [List.map_cons, ← hd]; exact List.mem_cons_self
      rw [if_pos hd, if_pos hmem]
      have h1 : getProp (applyCfgOne cfg vals d) k = cfgOr cfg vals k := by rw [getProp_applyCfgOne, if_pos hd]
      split
      · exact cfgOr_idem cfg vals _ k h1
      · rfl
    · rw [if_neg hd]
      have hiff : (k ∈ (d :: ds).map (·.name)) ↔ (k ∈ ds.map (·.name)) := by
        rw [List.map_cons, List.mem_cons]
        constructor
        · rintro (h | h)
          · exact absurd h.symm hd
          · exact h
        · exact Or.inr
      by_cases hk : k ∈ ds.map (·.name)
      · rw [if_pos hk, if_pos (hiff.2 hk)]
        unfold cfgOr
        rw [getProp_applyCfgOne, if_neg hd]
      · rw [if_neg hk, if_neg (fun h => hk (hiff.1 h))]

/-- step 3 decides the three automatic properties, whatever was there -/
theorem setAuto_features (enc : PropEnc P) (base : List String) (impl : String) (mro : List ClassInfo)
    (vals : List (String × P)) :
    getProp (setAuto enc base impl mro vals) "features" = some (enc.strs (featuresOf mro)) := by
  unfold setAuto; exact getProp_setProp_same _ _ _

theorem setAuto_interface (enc : PropEnc P) (base : List String) (impl : String) (mro : List ClassInfo)
    (vals : List (String × P)) :
    getProp (setAuto enc base impl mro vals) "interface_classes" = some (enc.strs (interfaceClassesOf base mro)) := by
  unfold setAuto
  rw [getProp_setProp_ne _ "features" "interface_classes" _ (by decide)]
  exact getProp_setProp_same _ _ _

theorem setAuto_implementation (enc : PropEnc P) (base : List String) (impl : String) (mro : List ClassInfo)
    (vals : List (String × P)) :
    getProp (setAuto enc base impl mro vals) "implementation" = some (enc.str impl) := by
  unfold setAuto
  rw [getProp_setProp_ne _ "features" "implementation" _ (by decide),
    getProp_setProp_ne _ "interface_classes" "implementation" _ (by decide)]
  exact getProp_setProp_same _ _ _

/-- … and leaves every other property alone -/
theorem setAuto_other (enc : PropEnc P) (base : List String) (impl : String) (mro : List ClassInfo)
    (vals : List (String × P)) (k : String) (h1 : k ≠ "features") (h2 : k ≠ "interface_classes") (h3 : k ≠ "implementation") :
    getProp (setAuto enc base impl mro vals) k = getProp vals k := by
  unfold setAuto
  rw [getProp_setProp_ne _ _ _ _ (Ne.symm h1), getProp_setProp_ne _ _ _ _ (Ne.symm h2), getProp_setProp_ne _ _ _ _ (Ne.symm h3)]

/-! ### exportProperties -/

theorem exportOne_some [DecidableEq P] (ser : P → J) (vals : List (String × P)) (d : PropDecl P) (e : String × J)
    (h : exportOne ser vals d = some e) : d.exported = true ∧ e = (d.extname, ser (propValue vals d)) := by
  unfold exportOne at h
  split at h
  · rename_i hc
    simp only [Bool.and_eq_true] at hc
    injection h with h
    exact ⟨hc.1, h.symm⟩
  · cases h

/-- an entry of the exported list comes from an exported declaration with that external name -/
theorem getProp_exportProps_some [DecidableEq P] (ser : P → J) (decls : List (PropDecl P)) (vals : List (String × P))
    (ext : String) (j : J) (h : getProp (exportProps ser decls vals) ext = some j) :
    ∃ d ∈ decls, d.exported = true ∧ d.extname = ext ∧ exportOne ser vals d = some (ext, j) := by
  unfold getProp at h
  cases hf : (exportProps ser decls vals).find? (fun e => e.1 == ext) with
  | none => rw [hf] at h; cases h
  | some e =>
    rw [hf] at h
    simp only [Option.map_some] at h
    injection h with h
    have hmem := List.mem_of_find?_eq_some hf
    have hext : e.1 = ext := by simpa using List.find?_some hf
    unfold exportProps at hmem
    obtain ⟨d, hd, hde⟩ := List.mem_filterMap.1 hmem
    obtain ⟨hx, he⟩ := exportOne_some ser vals d e hde
    have h1 : d.extname = ext := by rw [← hext, he]
    refine ⟨d, hd, hx, h1, ?_⟩
    rw [hde, he, ← h1, ← h, he]

/-- an exported declaration produces SOME entry under its external name -/
theorem getProp_exportProps_isSome [DecidableEq P] (ser : P → J) (decls : List (PropDecl P)) (vals : List (String × P))
    (d : PropDecl P) (hd : d ∈ decls) (e : String × J) (he : exportOne ser vals d = some e) :
    ∃ j, getProp (exportProps ser decls vals) d.extname = some j := by
  have hmem : e ∈ exportProps ser decls vals := List.mem_filterMap.2 ⟨d, hd, he⟩
  have h1 : e.1 = d.extname := by rw [(exportOne_some ser vals d e he).2]
  unfold getProp
  cases hf : (exportProps ser decls vals).find? (fun e => e.1 == d.extname) with
  | some x => exact ⟨x.2, rfl⟩
  | none =>
    rw [List.find?_eq_none] at hf
    exact absurd (by simpa using h1) (hf e hmem)

/-- exported declarations have their external names to themselves -/
def ExtUnique (decls : List (PropDecl P)) : Prop :=
  ∀ d ∈ decls, ∀ d' ∈ decls, d.exported = true → d'.exported = true → d.extname = d'.extname → d = d'

/-- what a reader finds in the report for an exported declared property is its value (an absent entry means: the default) -/
theorem reportedProp_exportProps [DecidableEq P] (ser : P → J) (decls : List (PropDecl P)) (vals : List (String × P))
    (hu : ExtUnique decls) (d : PropDecl P) (hd : d ∈ decls) (hx : d.exported = true) :
    reportedProp (exportProps ser decls vals) d.extname (ser d.dflt) = ser (propValue vals d) := by
  unfold reportedProp
  cases hg : getProp (exportProps ser decls vals) d.extname with
  | some j =>
    obtain ⟨d', hd', hx', hext, hone⟩ := getProp_exportProps_some ser decls vals d.extname j hg
    have : d' = d := hu d' hd' d hd hx' hx hext
    subst this
    have := (exportOne_some ser vals d' _ hone).2
    simp only [Option.getD_some]
    injection this with _ h2
  | none =>
    simp only [Option.getD_none]
    cases ho : exportOne ser vals d with
    | some e =>
      obtain ⟨j, hj⟩ := getProp_exportProps_isSome ser decls vals d hd e ho
      rw [hg] at hj; cases hj
    | none =>
      unfold exportOne at ho
      split at ho
      · cases ho
      · rename_i hc
        rw [hx] at hc
        simp only [Bool.true_and, Bool.or_eq_true, decide_eq_true_eq, not_or, Decidable.not_not] at hc
        rw [hc.2]

/-- what the theorems about the automatic properties need from the class: it declares `interface_classes`, `features` and
`implementation` as exported properties under these very names, with defaults that read as the empty list `eL` / the empty
string `eS` in the report, and no two exported properties share an external name (a table fact for `Module.propertyDict`,
see `Props.C06.module_decls_auto`) -/
structure AutoDecls (ser : P → J) (decls : List (PropDecl P)) (eL eS : J) : Prop where
  uniq : ExtUnique decls
  ic : ∃ d ∈ decls, d.name = "interface_classes" ∧ d.extname = "interface_classes" ∧ d.exported = true ∧ ser d.dflt = eL
  feats : ∃ d ∈ decls, d.name = "features" ∧ d.extname = "features" ∧ d.exported = true ∧ ser d.dflt = eL
  impl : ∃ d ∈ decls, d.name = "implementation" ∧ d.extname = "implementation" ∧ d.exported = true ∧ ser d.dflt = eS

end Frappy.Lemmas.ModuleProps
