import FrappyProofs.Lemmas.CommRet
/- helper lemmas for C16: the reconnect callbacks -/
open Frappy.Spec.C16
namespace Frappy.Comm

/-- what an event does to the table of registered callbacks -/
def cbStep (e : Ev) (reg : List Nat) : List Nat :=
  match e with
  | .cb _ n false => removeCb n reg
  | _ => reg

set_option maxHeartbeats 16000000 in
theorem step_cbs (s s' : State) (t c : Nat) (e : Ev) (h : stepCaller s t c e = some s') :
    s'.cbsReg = cbStep e s.cbsReg ∧ (s.lastError = true → s'.lastError = true) ∧ ((∃ x, e = .hclose x) → s'.lastError = true) := by
  step_arms
  all_goals (first
    | (refine ⟨?_, ?_, ?_⟩ <;> (simp [State.setC, State.acquire, State.release, cbStep]; done))
    | (split <;> (refine ⟨?_, ?_, ?_⟩ <;> (simp [State.setC, State.acquire, State.release, cbStep]; done)))
    | (subst_vars; refine ⟨?_, ?_, ?_⟩ <;> (simp_all [State.setC, cbStep]; done))
    | skip)


theorem step_connect_ok (s s' : State) (t c x : Nat) (od : Bool) (h : stepCaller s t c (.connect x true od) = some s') :
    (s'.callers c).pc = .visT := by
  cases hpc : (s.callers c).pc <;> simp only [stepCaller, hpc] at h <;> try (simp at h)
  obtain ⟨_, rfl⟩ := h
  simp

theorem step_visT (s s' : State) (t c : Nat) (e : Ev) (h : stepCaller s t c e = some s') (hid : s.cfg.ident = [])
    (hp : (s.callers c).pc = .visT) :
    ((∃ x, e = .isconn x true) ∨ (∃ x, e = .drop x)) ∧
      (s.lastError = true → ∀ n r, s.cbsReg = n :: r → (s'.callers c).pc = .cbs (n :: r)) := by
  cases e <;> simp only [stepCaller, hp] at h <;> try (simp at h)
  · obtain ⟨⟨hv, _⟩, rfl⟩ := h
    subst hv
    refine ⟨Or.inl ⟨_, rfl⟩, fun hle n r hreg => ?_⟩
    rw [setC_same, startIdent_ni' _ _ hid]
    simp [afterIdent, hle, hreg]
  · obtain ⟨_, rfl⟩ := h
    refine ⟨Or.inr ⟨_, rfl⟩, fun hle n r hreg => ?_⟩
    rw [setC_same, startIdent_ni _ _ hid]
    simp [afterIdent, hle, hreg]

theorem step_in_cbs (s s' : State) (t c n : Nat) (rest : List Nat) (e : Ev) (h : stepCaller s t c e = some s')
    (hp : (s.callers c).pc = .cbs (n :: rest)) :
    ∃ x keep, e = .cb x n keep ∧ (rest ≠ [] → (s'.callers c).pc = .cbs rest) := by
  cases e <;> simp only [stepCaller, hp] at h <;> first | (simp at h; done) | skip
  rename_i x n' keep
  split at h
  · next hn =>
    simp only [Option.some.injEq] at h
    subst h; subst hn
    refine ⟨x, keep, rfl, fun hr => ?_⟩
    cases rest with
    | nil => exact absurd rfl hr
    | cons a b => cases keep <;> simp [State.setC]
  · simp at h

/-! ### counting the events of a caller -/

theorem whoAt_append_lt (log : Log) (e : TEv) (m : Nat) (h : m < log.length) : whoAt (log ++ [e]) m = whoAt log m := by
  simp [whoAt, evAt_append_lt log e m h]

theorem whoAt_append_eq (log : Log) (e : TEv) : whoAt (log ++ [e]) log.length = e.ev.who := by
  simp [whoAt, evAt_append_eq]

theorem whoAt_take (log : Log) (k m : Nat) (h : m < k) : whoAt (log.take k) m = whoAt log m := by
  simp [whoAt, evAt_take log k m h]

theorem countOf_append_le (log : Log) (e : TEv) (c v m : Nat) (h : m ≤ log.length) :
    countOf (log ++ [e]) c v m = countOf log c v m := by
  unfold countOf
  congr 1
  apply filter_congr'
  intro x hx
  simp only [List.mem_range] at hx
  rw [whoAt_append_lt log e x (by omega)]

theorem countOf_succ (log : Log) (c v m : Nat) :
    countOf log c v (m + 1) = countOf log c v m + (if v < m ∧ whoAt log m = some c then 1 else 0) := by
  unfold countOf
  rw [List.range_succ, List.filter_append, List.length_append]
  congr 1
  by_cases h : v < m ∧ whoAt log m = some c
  · simp [h]
  · simp only [h, if_false]
    simp only [List.filter_cons, List.filter_nil]
    split
    · next hc =>
      exfalso; apply h
      simp only [Bool.and_eq_true, decide_eq_true_eq, beq_iff_eq] at hc
      exact hc
    · rfl

theorem countOf_take (log : Log) (c v m : Nat) : countOf (log.take m) c v m = countOf log c v m := by
  unfold countOf
  congr 1
  apply filter_congr'
  intro x hx
  simp only [List.mem_range] at hx
  rw [whoAt_take log m x hx]

theorem countOf_empty (log : Log) (c v m : Nat) (h : m ≤ v + 1) : countOf log c v m = 0 := by
  unfold countOf
  rw [List.length_eq_zero_iff]
  apply List.filter_eq_nil_iff.2
  intro x hx
  simp only [List.mem_range] at hx
  simp; intro h1; omega

/-! ### the table of registered callbacks, read off the log -/

theorem filter_all_congr {n : Nat} {p q : Nat → Bool} (h : ∀ m, m < n → p m = q m) :
    (List.range n).all p = (List.range n).all q := by
  induction n with
  | zero => rfl
  | succ k ih =>
    rw [List.range_succ, List.all_append, List.all_append, ih (fun m hm => h m (by omega))]
    simp [h k (by omega)]

def cbKeeps (e : Option Ev) (n : Nat) : Bool :=
  match e with
  | some (.cb _ n' keep) => !(n' == n && !keep)
  | _ => true

theorem registeredAt_eq (cbs : List Nat) (log : Log) (i : Nat) :
    registeredAt cbs log i = cbs.filter (fun n => allBelow i (fun m => cbKeeps (evAt log m) n)) := by
  unfold registeredAt
  apply filter_congr'
  intro n _
  unfold allBelow
  apply List.all_congr rfl
  intro m
  unfold cbKeeps
  cases evAt log m with
  | none => rfl
  | some ev => cases ev <;> rfl

theorem registeredAt_append_le (cbs : List Nat) (log : Log) (e : TEv) (i : Nat) (h : i ≤ log.length) :
    registeredAt cbs (log ++ [e]) i = registeredAt cbs log i := by
  rw [registeredAt_eq, registeredAt_eq]
  apply filter_congr'
  intro n _
  unfold allBelow
  apply filter_all_congr
  intro m hm
  rw [evAt_append_lt log e m (by omega)]

theorem registeredAt_take (cbs : List Nat) (log : Log) (k i : Nat) (h : i ≤ k) :
    registeredAt cbs (log.take k) i = registeredAt cbs log i := by
  rw [registeredAt_eq, registeredAt_eq]
  apply filter_congr'
  intro n _
  unfold allBelow
  apply filter_all_congr
  intro m hm
  rw [evAt_take log k m (by omega)]

theorem registeredAt_succ (cbs : List Nat) (log : Log) (i : Nat) :
    registeredAt cbs log (i + 1) = (registeredAt cbs log i).filter (fun n => cbKeeps (evAt log i) n) := by
  rw [registeredAt_eq, registeredAt_eq, List.filter_filter]
  apply filter_congr'
  intro n _
  unfold allBelow
  rw [List.range_succ, List.all_append]
  simp [Bool.and_comm]


def isHclose : Option Ev → Bool
  | some (.hclose _) => true
  | _ => false

theorem filter_true' (l : List Nat) : l.filter (fun _ => true) = l := by
  induction l with
  | nil => rfl
  | cons a l ih => simp [List.filter_cons, ih]

theorem cbStep_filter (ev : Ev) (reg : List Nat) : cbStep ev reg = reg.filter (fun n => cbKeeps (some ev) n) := by
  cases ev <;> simp only [cbStep, cbKeeps] <;> try (exact (filter_true' reg).symm)
  rename_i x n keep
  cases keep
  · simp only [removeCb]
    apply filter_congr'
    intro a _
    simp [bne, BEq.comm]
  · simp only [Bool.not_true, Bool.and_false, Bool.not_false]
    exact (filter_true' reg).symm

structure CInv (cbs : List Nat) (log : Log) (s : State) : Prop where
  k1 : (∃ h0, h0 < log.length ∧ isHclose (evAt log h0) = true) → s.lastError = true
  k2 : s.cbsReg = registeredAt cbs log log.length
  k4 : ∀ c i od, evAt log i = some (.connect c true od) → (∀ m, i < m → m < log.length → whoAt log m ≠ some c) →
        (s.callers c).pc = .visT
  k3 : ∀ c i od v, i < v → evAt log i = some (.connect c true od) → evAt log v = some (.isconn c true) →
        (∀ m, i < m → m < v → whoAt log m ≠ some c) → (∃ h0, h0 < v ∧ isHclose (evAt log h0) = true) →
        countOf log c v log.length < (registeredAt cbs log v).length →
        (s.callers c).pc = .cbs ((registeredAt cbs log v).drop (countOf log c v log.length))

theorem evAt_lt_of_some {log : Log} {i : Nat} {ev : Ev} (h : evAt log i = some ev) : i < log.length := by
  false_or_by_contra; rename_i hn
  rw [evAt_none log i (by omega)] at h; simp at h

theorem cinv_step {cbs : List Nat} {log : Log} {s s' : State} (e : TEv) (hid : s.cfg.ident = []) (hi : CInv cbs log s)
    (h : step s e = some s') :
    CInv cbs (log ++ [e]) s' := by
  have hlen : (log ++ [e]).length = log.length + 1 := by simp
  -- shared-state facts
  have hshared : s'.cbsReg = cbStep e.ev s.cbsReg ∧ (s.lastError = true → s'.lastError = true) ∧
      (isHclose (some e.ev) = true → s'.lastError = true) := by
    cases hwho : e.ev.who with
    | none =>
      unfold step at h
      split at h
      · simp at h
      · simp only at h
        cases hev : e.ev <;> simp only [hev, Ev.who] at hwho h <;> try (simp at hwho)
        · split at h
          · split at h
            · simp at h
            · simp only [Option.some.injEq] at h; subst h; simp [cbStep, isHclose]
          · simp only [Option.some.injEq] at h; subst h; simp [cbStep, isHclose]
        · split at h <;> (simp only [Option.some.injEq] at h; subst h; simp [cbStep, isHclose])
        · simp only [Option.some.injEq] at h; subst h; simp [cbStep, isHclose]
    | some c0 =>
      rw [step_caller_form s e c0 hwho] at h
      split at h
      · simp at h
      · obtain ⟨h1, h2, h3⟩ := step_cbs _ s' e.t c0 e.ev h
        refine ⟨h1, h2, fun hh => h3 ?_⟩
        cases hev : e.ev <;> simp [hev, isHclose] at hh
        exact ⟨_, rfl⟩
  have hcallers : ∀ c, e.ev.who ≠ some c → s'.callers c = s.callers c := by
    intro c hc
    cases hwho : e.ev.who with
    | none => rw [(step_env_callers hwho h).1]
    | some c0 =>
      rw [step_caller_form s e c0 hwho] at h
      split at h
      · simp at h
      · have hne : c ≠ c0 := by intro heq; rw [heq, hwho] at hc; exact hc rfl
        exact step_others _ s' e.t c0 e.ev h c hne
  have hstepc : ∀ c, e.ev.who = some c → stepCaller { s with clock := e.t } e.t c e.ev = some s' := by
    intro c hc
    rw [step_caller_form s e c hc] at h
    split at h
    · simp at h
    · exact h
  refine ⟨?_, ?_, ?_, ?_⟩
  · -- k1
    rintro ⟨h0, h0l, hh⟩
    rw [hlen] at h0l
    rcases Nat.lt_or_ge h0 log.length with hlt | hge
    · rw [evAt_append_lt log e h0 hlt] at hh
      exact hshared.2.1 (hi.k1 ⟨h0, hlt, hh⟩)
    · have : h0 = log.length := by omega
      subst this; rw [evAt_append_eq] at hh; exact hshared.2.2 hh
  · -- k2
    rw [hlen, registeredAt_succ, registeredAt_append_le cbs log e log.length (Nat.le_refl _), evAt_append_eq,
      hshared.1, cbStep_filter, hi.k2]
  · -- k4
    intro c i od hev hno
    have hil := evAt_lt_of_some hev
    rw [hlen] at hil
    rcases Nat.lt_or_ge i log.length with hlt | hge
    · rw [evAt_append_lt log e i hlt] at hev
      have hnw : e.ev.who ≠ some c := by
        have := hno log.length hlt (by omega)
        rwa [whoAt_append_eq] at this
      rw [hcallers c hnw]
      refine hi.k4 c i od hev (fun m h1 h2 => ?_)
      have := hno m h1 (by omega)
      rwa [whoAt_append_lt log e m h2] at this
    · have : i = log.length := by omega
      subst this
      rw [evAt_append_eq] at hev
      simp only [Option.some.injEq] at hev
      have hst := hstepc c (by rw [hev]; rfl)
      rw [hev] at hst
      exact step_connect_ok _ s' e.t c c od hst
  · -- k3
    intro c i od v hiv hevi hevv hno hh hcount
    have hvl := evAt_lt_of_some hevv
    rw [hlen] at hvl
    rcases Nat.lt_or_ge v log.length with hlt | hge
    · -- an earlier announcement
      rw [evAt_append_lt log e i (by omega)] at hevi
      rw [evAt_append_lt log e v hlt] at hevv
      have hno' : ∀ m, i < m → m < v → whoAt log m ≠ some c := by
        intro m h1 h2
        have := hno m h1 h2
        rwa [whoAt_append_lt log e m (by omega)] at this
      have hh' : ∃ h0, h0 < v ∧ isHclose (evAt log h0) = true := by
        obtain ⟨h0, h0v, hx⟩ := hh
        exact ⟨h0, h0v, by rwa [evAt_append_lt log e h0 (by omega)] at hx⟩
      rw [registeredAt_append_le cbs log e v (by omega)] at hcount ⊢
      rw [hlen, countOf_succ, countOf_append_le log e c v log.length (Nat.le_refl _), whoAt_append_eq] at hcount ⊢
      by_cases hwc : e.ev.who = some c
      · simp only [hlt, hwc, and_self, if_true] at hcount ⊢
        have hold := hi.k3 c i od v hiv hevi hevv hno' hh' (by omega)
        have hdrop : (registeredAt cbs log v).drop (countOf log c v log.length) =
            (registeredAt cbs log v)[countOf log c v log.length]'(by omega) ::
              (registeredAt cbs log v).drop (countOf log c v log.length + 1) := by
          rw [List.drop_eq_getElem_cons]
        rw [hdrop] at hold
        obtain ⟨x, keep, _, hnext⟩ := step_in_cbs _ s' e.t c _ _ e.ev (hstepc c hwc) hold
        apply hnext
        intro hnil
        have := congrArg List.length hnil
        simp at this; omega
      · have : ¬ (v < log.length ∧ e.ev.who = some c) := fun hx => hwc hx.2
        simp only [this, if_false, Nat.add_zero] at hcount ⊢
        rw [hcallers c hwc]
        exact hi.k3 c i od v hiv hevi hevv hno' hh' hcount
    · -- the announcement is the new event
      have : v = log.length := by omega
      subst this
      rw [evAt_append_eq] at hevv
      simp only [Option.some.injEq] at hevv
      rw [evAt_append_lt log e i hiv] at hevi
      have hno' : ∀ m, i < m → m < log.length → whoAt log m ≠ some c := by
        intro m h1 h2
        have := hno m h1 h2
        rwa [whoAt_append_lt log e m h2] at this
      have hvis := hi.k4 c i od hevi hno'
      have hle : s.lastError = true := by
        obtain ⟨h0, h0v, hx⟩ := hh
        exact hi.k1 ⟨h0, h0v, by rwa [evAt_append_lt log e h0 h0v] at hx⟩
      rw [registeredAt_append_le cbs log e log.length (Nat.le_refl _)] at hcount ⊢
      rw [hlen, countOf_empty _ _ _ _ (Nat.le_refl _)] at hcount ⊢
      rw [List.drop_zero, ← hi.k2] at *
      have hst := hstepc c (by rw [hevv]; rfl)
      cases hreg : s.cbsReg with
      | nil => rw [hreg] at hcount; simp at hcount
      | cons n r =>
        have := (step_visT _ s' e.t c e.ev hst hid hvis).2 hle n r hreg
        exact this

theorem cinv_init (cfg : Cfg) (cbs : List Nat) : CInv cbs [] { cfg := cfg, cbsReg := cbs } := by
  refine ⟨?_, ?_, ?_, ?_⟩
  · rintro ⟨h0, h, _⟩; simp at h
  · simp only [registeredAt, allBelow, List.length_nil, List.range_zero, List.all_nil]; exact (filter_true' cbs).symm
  · intro c i od h; simp [evAt] at h
  · intro c i od v _ h; simp [evAt] at h

theorem cinv_exec_gen {cbs : List Nat} : ∀ (evs pre : List TEv) (s0 s : State), s0.cfg.ident = [] → CInv cbs pre s0 →
    exec s0 evs = some s → CInv cbs (pre ++ evs) s
  | [], pre, s0, s, _, hv, h => by simp [exec] at h; subst h; simpa using hv
  | e :: es, pre, s0, s, hid, hv, h => by
    simp only [exec] at h
    cases hst : step s0 e with
    | none => simp [hst] at h
    | some s1 =>
      simp only [hst] at h
      have := cinv_exec_gen es (pre ++ [e]) s1 s (by rw [step_keeps_cfg hst]; exact hid) (cinv_step e hid hv hst) h
      simpa using this

theorem cinv_exec (cfg : Cfg) (cbs : List Nat) (evs : List TEv) (s : State) (hid : cfg.ident = [])
    (h : exec { cfg := cfg, cbsReg := cbs } evs = some s) : CInv cbs evs s := by
  simpa using cinv_exec_gen evs [] _ s hid (cinv_init cfg cbs) h

end Frappy.Comm
