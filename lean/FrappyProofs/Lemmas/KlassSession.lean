import FrappyModel.Spec.C09
import FrappyProofs.Lemmas.Klass
import FrappyProofs.Lemmas.KlassProps
/- helper lemmas for the session layer of C09 (`Klass/Session.lean`): the loaded configuration only grows, what a
session operation does to classes and instances is one `step`, input tables are touched by registrations only -/
namespace Frappy.Klass
open Frappy.Spec.C09

/-! ## the world component -/

theorem sstep_world (T : STables) (s : Session) (op : SOp) : (sstep T s op).world = stepWorld T s op := by
  cases op <;> simp [sstep, stepWorld, SOp.worldOp, loadSection, enterInput]

theorem stepWorld_some (T : STables) (s : Session) (op : SOp) (o : Op) (h : op.worldOp s = some o) :
    stepWorld T s op = step T.base s.world o := by
  simp [stepWorld, h]

theorem stepWorld_none (T : STables) (s : Session) (op : SOp) (h : op.worldOp s = none) : stepWorld T s op = s.world := by
  simp [stepWorld, h]

theorem srun_cons (T : STables) (s : Session) (op : SOp) (ops : List SOp) :
    srun T s (op :: ops) = srun T (sstep T s op) ops := rfl

theorem srun_append (T : STables) (s : Session) (a b : List SOp) : srun T s (a ++ b) = srun T (srun T s a) b := by
  simp [srun, List.foldl_append]

/-- the world of a session run is the run of the operations on classes and instances it amounts to -/
theorem srun_world (T : STables) (ops : List SOp) (s : Session) :
    (srun T s ops).world = run T.base s.world (worldOps T s ops) := by
  induction ops generalizing s with
  | nil => rfl
  | cons op ops ih =>
    rw [srun_cons, ih, sstep_world]
    cases h : op.worldOp s with
    | none => simp [worldOps, h, stepWorld_none T s op h]
    | some o => simp [worldOps, h, stepWorld_some T s op o h, run]

theorem worldOps_append (T : STables) (a b : List SOp) (s : Session) :
    worldOps T s (a ++ b) = worldOps T s a ++ worldOps T (srun T s a) b := by
  induction a generalizing s with
  | nil => rfl
  | cons op a ih => simp only [List.cons_append, worldOps, ih, srun_cons, List.append_assoc]

/-! ## the loaded configuration only grows -/

/-- what one entry of a section being loaded does: nothing (a shared entry that does not exist), a new `Param` object, or
a reference to the `Param` object of an existing section -/
theorem allocEntry_spec (s : Session) (st : List PropMap × List (Name × Ref)) (e : Name × EntrySpec) :
    allocEntry s st e = st ∨
    (∃ p, allocEntry s st e = (st.1 ++ [p], st.2 ++ [(e.1, st.1.length)])) ∨
    (∃ sec key c r, s.findSection sec = some c ∧ aget? c.entries key = some r ∧
      allocEntry s st e = (st.1, st.2 ++ [(e.1, r)])) := by
  obtain ⟨k, spec⟩ := e
  cases spec with
  | new p => exact Or.inr (Or.inl ⟨p, rfl⟩)
  | shared sec key =>
    cases hf : (s.findSection sec).bind (fun c => aget? c.entries key) with
    | none => left; simp [allocEntry, hf]
    | some r =>
      right; right
      have hf' := hf
      simp only [Option.bind_eq_some_iff] at hf'
      obtain ⟨c, hc, hk⟩ := hf'
      exact ⟨sec, key, c, r, hc, hk, by simp [allocEntry, hf]⟩

theorem allocEntry_prefix (s : Session) (es : List (Name × EntrySpec)) (st : List PropMap × List (Name × Ref)) :
    ∃ extra, (es.foldl (allocEntry s) st).1 = st.1 ++ extra := by
  induction es generalizing st with
  | nil => exact ⟨[], by simp⟩
  | cons e es ih =>
    obtain ⟨x, hx⟩ := ih (allocEntry s st e)
    simp only [List.foldl_cons]
    rw [hx]
    rcases allocEntry_spec s st e with h | ⟨p, h⟩ | ⟨sec, key, c, r, _, _, h⟩
    · exact ⟨x, by rw [h]⟩
    · exact ⟨[p] ++ x, by rw [h]; simp⟩
    · exact ⟨x, by rw [h]⟩

/-- a fold of steps each of which only appends to the first component only appends -/
theorem foldl_prefix {α β γ : Type} (f : List α × γ → β → List α × γ) (hf : ∀ st b, ∃ e, (f st b).1 = st.1 ++ e)
    (l : List β) (st : List α × γ) : ∃ e, (l.foldl f st).1 = st.1 ++ e := by
  induction l generalizing st with
  | nil => exact ⟨[], by simp⟩
  | cons b l ih =>
    obtain ⟨e1, h1⟩ := hf st b
    obtain ⟨e2, h2⟩ := ih (f st b)
    exact ⟨e1 ++ e2, by simp only [List.foldl_cons, h2, h1, List.append_assoc]⟩

theorem regroup_spec (g : PVal) (st : List PropMap × List (Name × Ref)) (m : Name) :
    regroup g st m = st ∨ ∃ p, regroup g st m = (st.1 ++ [p], aput st.2 m st.1.length) := by
  unfold regroup
  cases (aget? st.2 m).bind (fun r => st.1[r]?) with
  | none => exact Or.inl rfl
  | some p => exact Or.inr ⟨_, rfl⟩

theorem regroup_prefix (g : PVal) (st : List PropMap × List (Name × Ref)) (m : Name) : ∃ e, (regroup g st m).1 = st.1 ++ e := by
  rcases regroup_spec g st m with h | ⟨p, h⟩
  · exact ⟨[], by rw [h]; simp⟩
  · exact ⟨[p], by rw [h]⟩

theorem applyGroups_prefix (gs : List (PVal × List Name)) (st : List PropMap × List (Name × Ref)) :
    ∃ e, (applyGroups gs st).1 = st.1 ++ e := by
  unfold applyGroups
  exact foldl_prefix (fun st (g : PVal × List Name) => g.2.foldl (regroup g.1) st)
    (fun st g => foldl_prefix (regroup g.1) (fun st m => regroup_prefix g.1 st m) g.2 st) gs st

theorem loadState_prefix (s : Session) (es : List (Name × EntrySpec)) (gs : List (PVal × List Name)) :
    ∃ e, (loadState s es gs).1 = s.params ++ e := by
  obtain ⟨e1, h1⟩ := allocEntry_prefix s es (s.params, [])
  obtain ⟨e2, h2⟩ := applyGroups_prefix gs (es.foldl (allocEntry s) (s.params, []))
  exact ⟨e1 ++ e2, by unfold loadState; rw [h2, h1, List.append_assoc]⟩

theorem params_prefix (T : STables) (s : Session) (op : SOp) : ∃ extra, (sstep T s op).params = s.params ++ extra := by
  cases op with
  | load n es gs => exact loadState_prefix s es gs
  | define d bs => exact ⟨[], by simp [sstep]⟩
  | create i c sec => exact ⟨[], by simp [sstep]⟩
  | setprop i p pa k v => exact ⟨[], by simp [sstep]⟩
  | addEnum i p m => exact ⟨[], by simp [sstep]⟩
  | register i m => exact ⟨[], by simp [sstep, enterInput]⟩
  | registerFailed i m => exact ⟨[], by simp [sstep, enterInput]⟩

theorem sections_prefix (T : STables) (s : Session) (op : SOp) : ∃ extra, (sstep T s op).sections = s.sections ++ extra := by
  cases op with
  | load n es gs => exact ⟨[⟨n, (loadState s es gs).2⟩], rfl⟩
  | define d bs => exact ⟨[], by simp [sstep]⟩
  | create i c sec => exact ⟨[], by simp [sstep]⟩
  | setprop i p pa k v => exact ⟨[], by simp [sstep]⟩
  | addEnum i p m => exact ⟨[], by simp [sstep]⟩
  | register i m => exact ⟨[], by simp [sstep, enterInput]⟩
  | registerFailed i m => exact ⟨[], by simp [sstep, enterInput]⟩

theorem findSection_mem {s : Session} {sec : Name} {c : CfgSection} (h : s.findSection sec = some c) : c ∈ s.sections :=
  List.mem_of_find?_eq_some h

/-- while a section is being loaded: the `Param` objects of the session are all there, and every entry collected so far
refers to an existing one -/
def LoadInv (s : Session) (st : List PropMap × List (Name × Ref)) : Prop :=
  s.params.length ≤ st.1.length ∧ ∀ kr ∈ st.2, kr.2 < st.1.length

theorem allocEntry_inv (s : Session) (hs : CfgBounded s) (st : List PropMap × List (Name × Ref)) (e : Name × EntrySpec)
    (h : LoadInv s st) : LoadInv s (allocEntry s st e) := by
  obtain ⟨hlen, hst⟩ := h
  rcases allocEntry_spec s st e with h | ⟨p, h⟩ | ⟨sec, key, c, r, hc, hk, h⟩
  · rw [h]; exact ⟨hlen, hst⟩
  · rw [h]
    refine ⟨Nat.le_trans hlen (by simp), ?_⟩
    intro kr hkr
    simp only [List.mem_append, List.mem_singleton] at hkr
    rcases hkr with h' | h'
    · exact Nat.lt_of_lt_of_le (hst kr h') (by simp)
    · subst h'; simp
  · rw [h]
    refine ⟨hlen, ?_⟩
    intro kr hkr
    simp only [List.mem_append, List.mem_singleton] at hkr
    rcases hkr with h' | h'
    · exact hst kr h'
    · subst h'
      exact Nat.lt_of_lt_of_le (hs c (findSection_mem hc) (key, r) (aget?_mem hk)) hlen

theorem regroup_inv (s : Session) (g : PVal) (st : List PropMap × List (Name × Ref)) (m : Name) (h : LoadInv s st) :
    LoadInv s (regroup g st m) := by
  obtain ⟨hlen, hst⟩ := h
  rcases regroup_spec g st m with h | ⟨p, h⟩
  · rw [h]; exact ⟨hlen, hst⟩
  · rw [h]
    refine ⟨Nat.le_trans hlen (by simp), ?_⟩
    intro kr hkr
    rcases mem_aput hkr with h' | h'
    · have h2 : kr.2 = st.1.length := congrArg Prod.snd h'
      rw [h2]; simp
    · exact Nat.lt_of_lt_of_le (hst kr h') (by simp)

theorem foldl_inv {σ β : Type} (P : σ → Prop) (f : σ → β → σ) (hf : ∀ st b, P st → P (f st b)) (l : List β) (st : σ)
    (h : P st) : P (l.foldl f st) := by
  induction l generalizing st with
  | nil => exact h
  | cons b l ih => exact ih _ (hf st b h)

theorem loadState_inv (s : Session) (hs : CfgBounded s) (es : List (Name × EntrySpec)) (gs : List (PVal × List Name)) :
    LoadInv s (loadState s es gs) := by
  unfold loadState applyGroups
  apply foldl_inv (LoadInv s)
  · intro st g hst
    exact foldl_inv (LoadInv s) _ (fun st m h => regroup_inv s g.1 st m h) g.2 st hst
  · exact foldl_inv (LoadInv s) _ (fun st e h => allocEntry_inv s hs st e h) es _ ⟨Nat.le_refl _, by simp⟩

theorem cfgBounded_step (T : STables) (s : Session) (op : SOp) (hs : CfgBounded s) : CfgBounded (sstep T s op) := by
  cases op with
  | load n es gs =>
    intro c hc kr hkr
    simp only [sstep, loadSection, List.mem_append, List.mem_singleton] at hc
    obtain ⟨x, hx⟩ := loadState_prefix s es gs
    rcases hc with hc | hc
    · have h1 : kr.2 < s.params.length := hs c hc kr hkr
      have h2 : (sstep T s (.load n es gs)).params.length = s.params.length + x.length := by
        simp only [sstep, loadSection, hx, List.length_append]
      exact Nat.lt_of_lt_of_le h1 (by rw [h2]; exact Nat.le_add_right _ _)
    · subst hc
      exact (loadState_inv s hs es gs).2 kr hkr
  | define d bs => exact hs
  | create i c sec => exact hs
  | setprop i p pa k v => exact hs
  | addEnum i p m => exact hs
  | register i m => exact hs
  | registerFailed i m => exact hs

theorem cfgBounded_run (T : STables) (ops : List SOp) (s : Session) (hs : CfgBounded s) : CfgBounded (srun T s ops) := by
  induction ops generalizing s with
  | nil => exact hs
  | cons op ops ih => exact ih _ (cfgBounded_step T s op hs)

theorem cfgBounded_empty : CfgBounded ({} : Session) := by
  intro c hc
  cases hc

theorem readEntries_append (params extra : List PropMap) (entries : List (Name × Ref))
    (h : ∀ kr ∈ entries, kr.2 < params.length) : readEntries (params ++ extra) entries = readEntries params entries := by
  unfold readEntries
  induction entries with
  | nil => rfl
  | cons kr rest ih =>
    have h1 := h kr List.mem_cons_self
    have h2 := ih (fun x hx => h x (List.mem_cons_of_mem _ hx))
    simp only [List.filterMap_cons, List.getElem?_append_left h1, h2]

theorem findSection_append {l extra : List CfgSection} {sec : Name} {c : CfgSection}
    (h : l.find? (fun c => c.name == sec) = some c) : (l ++ extra).find? (fun c => c.name == sec) = some c := by
  rw [List.find?_append, h]
  rfl

theorem findSection_step (T : STables) (s : Session) (op : SOp) {sec : Name} {c : CfgSection}
    (h : s.findSection sec = some c) : (sstep T s op).findSection sec = some c := by
  obtain ⟨xs, hxs⟩ := sections_prefix T s op
  unfold Session.findSection at h ⊢
  rw [hxs]
  exact findSection_append h

/-- what a loaded section shows is what it showed before the operation -/
theorem readSection_step (T : STables) (s : Session) (op : SOp) (hb : CfgBounded s) (sec : Name)
    (hsec : s.findSection sec ≠ none) : readSection (sstep T s op) sec = readSection s sec := by
  cases hf : s.findSection sec with
  | none => exact absurd hf hsec
  | some c =>
    obtain ⟨xp, hxp⟩ := params_prefix T s op
    simp only [readSection, findSection_step T s op hf, hf, hxp]
    exact readEntries_append _ _ _ (hb c (findSection_mem hf))

theorem findSection_step_ne (T : STables) (s : Session) (op : SOp) (sec : Name) (h : s.findSection sec ≠ none) :
    (sstep T s op).findSection sec ≠ none := by
  cases hf : s.findSection sec with
  | none => exact absurd hf h
  | some c => rw [findSection_step T s op hf]; simp

theorem readSection_run (T : STables) (ops : List SOp) (s : Session) (hb : CfgBounded s) (sec : Name)
    (hsec : s.findSection sec ≠ none) : readSection (srun T s ops) sec = readSection s sec := by
  induction ops generalizing s with
  | nil => rfl
  | cons op ops ih =>
    rw [srun_cons, ih _ (cfgBounded_step T s op hb) (findSection_step_ne T s op sec hsec), readSection_step T s op hb sec hsec]

/-- splitting an admissible session run at its first operation -/
theorem sadmissible_cons (T : STables) (s : Session) (op : SOp) (ops : List SOp) (h : SAdmissibleRun T s (op :: ops)) :
    (∀ o, op.worldOp s = some o → Admissible s.world o) ∧ SAdmissibleRun T (sstep T s op) ops := by
  unfold SAdmissibleRun at h ⊢
  rw [sstep_world]
  cases hw : op.worldOp s with
  | none =>
    simp only [worldOps, hw, Option.toList_none, List.nil_append] at h
    exact ⟨fun o ho => (by cases ho), (by rw [stepWorld_none T s op hw]; exact h)⟩
  | some o =>
    simp only [worldOps, hw, Option.toList_some, List.singleton_append] at h
    exact ⟨fun o' ho => (by cases ho; exact h.1), (by rw [stepWorld_some T s op o hw]; exact h.2)⟩

theorem findAuto_step_ne (T : STables) (s : Session) (op : SOp) (j : Name) (h : op.creates j = false) :
    (sstep T s op).findAuto j = s.findAuto j := by
  cases op with
  | create i c sec =>
    have hij : (i == j) = false := h
    simp [sstep, Session.findAuto, List.find?_append, hij]
  | load n es gs => rfl
  | define d bs => rfl
  | setprop i p pa k v => rfl
  | addEnum i p m => rfl
  | register i m => rfl
  | registerFailed i m => rfl

/-- a module created some time after its section was loaded: the section shows what it showed when it was loaded, and the
session run amounts to the heap operations before, one `inst` with those items, and the heap operations after -/
theorem create_after_load (T : STables) (pre0 mid post : List SOp) (sec n c : Name) (es : List (Name × EntrySpec))
    (gs : List (PVal × List Name)) :
    readSection (srun T {} (pre0 ++ .load sec es gs :: mid)) sec =
      describeCfg (srun T {} (pre0 ++ [.load sec es gs])) sec ∧
    worldOps T {} ((pre0 ++ .load sec es gs :: mid) ++ .create n c sec :: post) =
      worldOps T {} (pre0 ++ .load sec es gs :: mid) ++
        Op.inst n c (readSection (srun T {} (pre0 ++ .load sec es gs :: mid)) sec) ::
        worldOps T (srun T {} ((pre0 ++ .load sec es gs :: mid) ++ [.create n c sec])) post := by
  have hsec : (srun T {} (pre0 ++ [.load sec es gs])).findSection sec ≠ none := by
    rw [srun_append]
    simp only [srun, List.foldl_cons, List.foldl_nil, sstep, loadSection, Session.findSection, List.find?_append]
    cases (List.foldl (sstep T) {} pre0).sections.find? (fun c => c.name == sec) with
    | some x => simp
    | none => simp
  constructor
  · have e : pre0 ++ .load sec es gs :: mid = (pre0 ++ [.load sec es gs]) ++ mid := by simp
    rw [e, srun_append]
    exact readSection_run T mid _ (cfgBounded_run T _ {} cfgBounded_empty) sec hsec
  · rw [worldOps_append]
    simp only [worldOps, SOp.worldOp, Option.toList_some, List.singleton_append, srun, List.foldl_cons,
      List.foldl_nil, List.foldl_append]

/-! ## input tables -/

theorem aget?_aput_ne {α : Type} (l : List (Name × α)) (k k' : Name) (v : α) (h : k' ≠ k) :
    aget? (aput l k' v) k = aget? l k := by
  induction l with
  | nil =>
    simp only [aput, aget?]
    have : (k' == k) = false := by simpa using h
    simp [this]
  | cons x l ih =>
    obtain ⟨kx, vx⟩ := x
    simp only [aput]
    by_cases hx : (kx == k') = true
    · have hkx : kx = k' := by simpa using hx
      subst hkx
      have : (kx == k) = false := by simpa using h
      simp [aget?, this]
    · have hx' : (kx == k') = false := by simpa using hx
      simp only [hx', aget?]
      by_cases hk : (kx == k) = true
      · simp [aget?, hk]
      · have hk' : (kx == k) = false := by simpa using hk
        simp only [Bool.false_eq_true, if_false, aget?, hk', ih]

theorem inputsOf_enterInput_ne (s : Session) (i j m : Name) (h : i ≠ j) : inputsOf (enterInput s i m) j = inputsOf s j := by
  simp only [inputsOf, enterInput]
  rw [aget?_aput_ne _ _ _ _ h]

theorem aget?_aput_self {α : Type} (l : List (Name × α)) (k : Name) (v : α) : aget? (aput l k v) k = some v := by
  induction l with
  | nil => simp [aput, aget?]
  | cons x l ih =>
    obtain ⟨kx, vx⟩ := x
    simp only [aput]
    by_cases hx : (kx == k) = true
    · simp [hx, aget?]
    · have hx' : (kx == k) = false := by simpa using hx
      simp [hx', aget?, ih]

/-! ## direct bases on record -/

theorem aget?_append_known {α : Type} (l m : List (Name × α)) (k : Name) (h : ahas l k = true) :
    aget? (l ++ m) k = aget? l k := by
  induction l with
  | nil => simp [ahas] at h
  | cons x l ih =>
    obtain ⟨kx, vx⟩ := x
    by_cases hx : (kx == k) = true
    · simp [aget?, hx]
    · have hx' : (kx == k) = false := by simpa using hx
      have hl : ahas l k = true := by
        simp only [ahas, List.any_cons, hx', Bool.false_or] at h
        exact h
      simp [aget?, hx', ih hl]

theorem ahas_append_left {α : Type} (l m : List (Name × α)) (k : Name) (h : ahas l k = true) : ahas (l ++ m) k = true := by
  simp only [ahas, List.any_append, Bool.or_eq_true] at h ⊢
  exact Or.inl h

theorem featuresOf_congr (b1 b2 : List (Name × List Name)) (mro : List Name) (h : ∀ b ∈ mro, aget? b1 b = aget? b2 b) :
    featuresOf b1 mro = featuresOf b2 mro := by
  unfold featuresOf
  apply List.filter_congr
  intro b hb
  rw [h b hb]

end Frappy.Klass
