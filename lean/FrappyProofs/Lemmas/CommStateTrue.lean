import FrappyProofs.Lemmas.CommCallbacks
/- helper lemmas for C16: the published state stays true to the connection — `is_connected` is set to true only while
there is a connection, i.e. after the last successful connect and before any later closeConnection -/
open Frappy.Spec.C16
namespace Frappy.Comm

def okConnectEv (e : Ev) : Bool := match e with | .connect _ true _ => true | _ => false
def hcloseEv (e : Ev) : Bool := match e with | .hclose _ => true | _ => false

set_option maxHeartbeats 8000000 in
/-- what an event of a caller does to the connection: a successful connect makes one, closeConnection drops it, nothing
else touches it -/
theorem step_conn (s s' : State) (t c : Nat) (e : Ev) (h : stepCaller s t c e = some s') :
    (okConnectEv e = true ∧ s'.conn ≠ none) ∨ (hcloseEv e = true ∧ s'.conn = none) ∨
    (okConnectEv e = false ∧ hcloseEv e = false ∧ s'.conn = s.conn) := by
  step_arms
  all_goals (first
    | (right; right; simp [okConnectEv, hcloseEv, State.setC, State.release, State.acquire]; done)
    | (right; left; simp [hcloseEv, State.setC]; done)
    | (left; simp_all [okConnectEv, State.setC]; done)
    | (right; right; simp_all [okConnectEv, hcloseEv, State.setC, State.release, State.acquire]; done)
    | skip)

/-- `is_connected = True` is published only while there is a connection -/
theorem step_isconn_true (s s' : State) (t c x : Nat) (h : stepCaller s t c (.isconn x true) = some s') :
    s.conn ≠ none := by
  cases hpc : (s.callers c).pc <;> simp only [stepCaller, hpc] at h <;> try (simp at h)
  all_goals exact h.1

structure JInv (log : Log) (s : State) : Prop where
  j : s.conn ≠ none → ∃ m, m < log.length ∧ (∃ c od, evAt log m = some (.connect c true od)) ∧
        ∀ i, m < i → i < log.length → isHclose (evAt log i) = false

theorem jinv_init (cfg : Cfg) (cbs : List Nat) : JInv [] { cfg := cfg, cbsReg := cbs } := ⟨fun h => by simp at h⟩

theorem jinv_keep {log : Log} {s s' : State} (e : TEv) (hj : JInv log s) (hc : s'.conn = s.conn)
    (hh : isHclose (some e.ev) = false) : JInv (log ++ [e]) s' := by
  constructor
  intro hne
  rw [hc] at hne
  obtain ⟨m, hm, ⟨c, od, hev⟩, hno⟩ := hj.j hne
  refine ⟨m, by simp; omega, ⟨c, od, by rw [evAt_append_lt log e m hm]; exact hev⟩, fun i h1 h2 => ?_⟩
  simp only [List.length_append, List.length_singleton] at h2
  rcases Nat.lt_or_ge i log.length with hlt | hge
  · rw [evAt_append_lt log e i hlt]; exact hno i h1 hlt
  · have : i = log.length := by omega
    subst this; rw [evAt_append_eq]; exact hh

theorem jinv_step {log : Log} {s s' : State} (e : TEv) (hj : JInv log s) (h : step s e = some s') :
    JInv (log ++ [e]) s' := by
  cases hwho : e.ev.who with
  | none =>
    have hconn : s'.conn = s.conn ∧ isHclose (some e.ev) = false := by
      unfold step at h
      split at h
      · simp at h
      · simp only at h
        cases hev : e.ev <;> simp only [hev, Ev.who] at hwho h <;> try (simp at hwho)
        · split at h
          · split at h
            · simp at h
            · simp only [Option.some.injEq] at h; subst h; exact ⟨rfl, rfl⟩
          · simp only [Option.some.injEq] at h; subst h; exact ⟨rfl, rfl⟩
        · split at h <;> (simp only [Option.some.injEq] at h; subst h; exact ⟨rfl, rfl⟩)
        · simp only [Option.some.injEq] at h; subst h; exact ⟨rfl, rfl⟩
    exact jinv_keep e hj hconn.1 hconn.2
  | some c =>
    rw [step_caller_form s e c hwho] at h
    split at h
    · simp at h
    · rcases step_conn _ s' e.t c e.ev h with ⟨hok, hne⟩ | ⟨hcl, hnone⟩ | ⟨hok, hcl, hsame⟩
      · constructor
        intro _
        refine ⟨log.length, by simp, ?_, fun i h1 h2 => ?_⟩
        · rw [evAt_append_eq]
          cases hev : e.ev <;> simp only [hev, okConnectEv] at hok <;> try (simp at hok)
          rename_i x ok od
          cases ok <;> simp only at hok <;> try (simp at hok)
          exact ⟨x, od, rfl⟩
        · simp only [List.length_append, List.length_singleton] at h2; omega
      · exact ⟨fun hne => absurd hnone hne⟩
      · refine jinv_keep e hj hsame ?_
        cases hev : e.ev <;> simp only [hev, hcloseEv] at hcl <;> simp [isHclose] <;> simp at hcl

theorem jinv_exec_gen : ∀ (evs pre : List TEv) (s0 s : State), JInv pre s0 → exec s0 evs = some s → JInv (pre ++ evs) s
  | [], pre, s0, s, hj, h => by simp [exec] at h; subst h; simpa using hj
  | e :: es, pre, s0, s, hj, h => by
    simp only [exec] at h
    cases hst : step s0 e with
    | none => simp [hst] at h
    | some s1 =>
      simp only [hst] at h
      have := jinv_exec_gen es (pre ++ [e]) s1 s (jinv_step e hj hst) h
      simpa using this

theorem jinv_exec (cfg : Cfg) (cbs : List Nat) (evs : List TEv) (s : State)
    (h : exec { cfg := cfg, cbsReg := cbs } evs = some s) : JInv evs s := by
  simpa using jinv_exec_gen evs [] _ s (jinv_init cfg cbs) h

end Frappy.Comm
