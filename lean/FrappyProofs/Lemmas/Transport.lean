import FrappyModel.Node.Transport
import FrappyModel.Spec.C05
/-
Lemmas about the transport model (`Node/Transport.lean`): the invariant of a connection under any sequence of
`send_reply` calls (with any outcome of `sendall`) and rounds of the handler loop, what the peer decodes, and the tie of the
monitor `judgeT` to the Prop `TraceOkT`.
-/
namespace Frappy.Transport
open Frappy.Spec.C05

variable {F : Type}

theorem decode_full (l : List F) : decode (l.map Piece.full) = l.map some := by
  induction l with
  | nil => rfl
  | cons a l ih => simp [decode, ih]

theorem decode_full_torn (l : List F) (f : F) (k : Nat) : decode (l.map Piece.full ++ [Piece.torn f k]) = l.map some := by
  induction l with
  | nil => cases k <;> simp [decode]
  | cons a l ih => simp [decode, ih]

theorem filterMap_id_some (l : List F) : (l.map some).filterMap id = l := by
  induction l with
  | nil => rfl
  | cons a l ih => simp [ih]

theorem filter_isNone_some (l : List F) : (l.map some).filter (·.isNone) = [] := by
  induction l with
  | nil => rfl
  | cons a l ih => simp [ih]

/-- the invariant: `hs` = the frames handed to `send_reply` so far -/
def Inv (c : Conn F) (hs : List F) : Prop :=
  (c.running = true → c.wire = hs.map Piece.full ∧ c.listed = true ∧ c.closed = false) ∧
  (c.running = false → ∃ n f k, n < hs.length ∧ c.wire = (hs.take n).map Piece.full ++ [Piece.torn f k]) ∧
  (c.listed = !c.closed)

theorem inv_fresh : Inv (Conn.fresh : Conn F) [] := by
  refine ⟨fun _ => ⟨rfl, rfl, rfl⟩, fun h => ?_, rfl⟩
  simp [Conn.fresh] at h

theorem inv_send (c : Conn F) (hs : List F) (f : F) (r : SendRes) (h : Inv c hs) : Inv (sendReply c f r) (hs ++ [f]) := by
  obtain ⟨h1, h2, h3⟩ := h
  unfold sendReply
  cases hr : c.running with
  | true =>
    obtain ⟨hw, hl, hc⟩ := h1 hr
    cases r with
    | ok =>
      refine ⟨fun _ => ⟨by simp [hw], hl, hc⟩, fun h => ?_, h3⟩
      simp at h
    | fails k =>
      refine ⟨fun h => by simp at h, fun _ => ⟨hs.length, f, k, by simp, by simp [hw]⟩, h3⟩
  | false =>
    obtain ⟨n, g, k, hn, hw⟩ := h2 hr
    refine ⟨fun h => by simp [hr] at h, fun _ => ⟨n, g, k, by simp; omega, ?_⟩, h3⟩
    simp only [Bool.false_eq_true, if_false]
    rw [hw, List.take_append_of_le_length (by omega)]

theorem inv_round (c : Conn F) (hs : List F) (h : Inv c hs) : Inv (loopRound c) hs := by
  obtain ⟨h1, h2, h3⟩ := h
  unfold loopRound
  cases hr : c.running with
  | true => simpa [hr] using ⟨h1, h2, h3⟩
  | false =>
    refine ⟨fun h => by simp [hr] at h, fun _ => ?_, by simp⟩
    simpa using h2 hr

theorem inv_runT (ops : List (TOp F)) (c : Conn F) (hs : List F) (h : Inv c hs) : Inv (runT c ops) (hs ++ handed ops) := by
  induction ops generalizing c hs with
  | nil => simpa [runT, handed] using h
  | cons op ops ih =>
    cases op with
    | send f r =>
      have := ih (sendReply c f r) (hs ++ [f]) (inv_send c hs f r h)
      simpa [runT, handed, TOp.apply] using this
    | round =>
      have := ih (loopRound c) hs (inv_round c hs h)
      simpa [runT, handed, TOp.apply] using this

theorem runT_append (c : Conn F) (a b : List (TOp F)) : runT c (a ++ b) = runT (runT c a) b := by
  simp [runT, List.foldl_append]

/-- what the invariant says about the peer -/
theorem inv_received (c : Conn F) (hs : List F) (h : Inv c hs) :
    garbled c = 0 ∧ (c.running = true → received c = hs) ∧
    (c.running = false → ∃ n, n < hs.length ∧ received c = hs.take n) := by
  obtain ⟨h1, h2, _⟩ := h
  cases hr : c.running with
  | true =>
    obtain ⟨hw, _, _⟩ := h1 hr
    refine ⟨?_, fun _ => ?_, fun h => by simp at h⟩
    · unfold garbled; rw [hw, decode_full, filter_isNone_some]; rfl
    · unfold received; rw [hw, decode_full, filterMap_id_some]
  | false =>
    obtain ⟨n, f, k, hn, hw⟩ := h2 hr
    refine ⟨?_, fun h => by simp at h, fun _ => ⟨n, hn, ?_⟩⟩
    · unfold garbled; rw [hw, decode_full_torn, filter_isNone_some]; rfl
    · unfold received; rw [hw, decode_full_torn, filterMap_id_some]

theorem inv_sendMsgs {S : Type} (ms : List S) (rs : List SendRes) (c : Conn S) (hs : List S) (h : Inv c hs) :
    Inv (sendMsgs c ms rs) (hs ++ ms) := by
  induction ms generalizing c hs rs with
  | nil => simpa [sendMsgs] using h
  | cons m ms ih =>
    have := ih rs.tail (sendReply c m (rs.headD .ok)) (hs ++ [m]) (inv_send c hs m _ h)
    simpa [sendMsgs] using this

/-- a stream that satisfies the statement at `send_reply` satisfies it, seen through the transport, at the peer — for
every behaviour of the peer's socket -/
theorem through_ok {S : Type} [DecidableEq S] (isErr : S → Bool) (pts : List (Obs S × List SendRes)) (k : Option S) (prev : S)
    (c : Conn S) (hs : List S) (hc : Inv c hs) (hrun : c.running = true)
    (h : TraceOkO isErr k prev (pts.map (·.1))) : TraceOkT isErr k prev (through c pts) := by
  induction pts generalizing k prev c hs with
  | nil => simp [through, TraceOkT]
  | cons pt rest ih =>
    obtain ⟨o, rs⟩ := pt
    simp only [List.map_cons, TraceOkO] at h
    have h1 := inv_sendMsgs o.msgs rs c hs hc
    have hrc := ((inv_received c hs hc).2.1 hrun)
    simp only [through, TraceOkT]
    cases hr : (sendMsgs c o.msgs rs).running with
    | true =>
      have hlr : loopRound (sendMsgs c o.msgs rs) = sendMsgs c o.msgs rs := by simp [loopRound, hr]
      obtain ⟨hg, hrec, _⟩ := inv_received _ _ h1
      obtain ⟨_, hl, hcl⟩ := h1.1 hr
      have hserved : (TObs.served ⟨⟨(received (sendMsgs c o.msgs rs)).drop (received c).length, o.cache⟩,
          garbled (sendMsgs c o.msgs rs), !(sendMsgs c o.msgs rs).closed, (sendMsgs c o.msgs rs).listed⟩) = true := by
        simp [TObs.served, hl, hcl]
      rw [hlr, if_pos hserved]
      have hmsgs : (received (sendMsgs c o.msgs rs)).drop (received c).length = o.msgs := by
        rw [hrec hr, hrc]; simp
      simp only [hmsgs]
      exact ⟨hg, h.1, ih _ _ _ _ h1 hr h.2⟩
    | false =>
      have hserved : ¬ (TObs.served ⟨⟨(received (loopRound (sendMsgs c o.msgs rs))).drop (received c).length, o.cache⟩,
          garbled (loopRound (sendMsgs c o.msgs rs)), !(loopRound (sendMsgs c o.msgs rs)).closed,
          (loopRound (sendMsgs c o.msgs rs)).listed⟩) = true := by
        simp [TObs.served, loopRound, hr]
      rw [if_neg hserved]
      simp [loopRound, hr]

/-! ### the monitor -/

theorem judgeFromT_none_iff {S : Type} [DecidableEq S] (isErr : S → Bool) (i : Nat) (k : Option S) (prev : S)
    (tr : List (TObs S)) : judgeFromT isErr i k prev tr = none ↔ TraceOkT isErr k prev tr := by
  induction tr generalizing i k prev with
  | nil => simp [judgeFromT, TraceOkT]
  | cons o rest ih =>
    simp only [judgeFromT, TraceOkT]
    by_cases hs : o.served = true
    · by_cases h : o.garbled = 0 ∧ OpOkO isErr k prev o.obs
      · simp only [hs, h, if_true, and_self, true_and, ih]
      · simp only [hs, h, if_true, if_false]
        constructor
        · intro hh; cases hh
        · intro hh; exact absurd ⟨hh.1, hh.2.1⟩ h
    · by_cases h2 : o.isOpen = false ∧ o.listed = false
      · simp [hs, h2]
      · simp [hs, h2]

theorem judgeT_none_iff {S : Type} [DecidableEq S] (isErr : S → Bool) (prev : S) (tr : List (TObs S)) :
    judgeT isErr prev tr = none ↔ TraceOkT isErr none prev tr := judgeFromT_none_iff isErr 0 none prev tr

end Frappy.Transport
