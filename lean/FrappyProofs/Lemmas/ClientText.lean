import FrappyProofs.Lemmas.ClientOf
import FrappyProofs.Lemmas.TextRoundtrip
/-
C02: what the text round trip and the wire round trip need carries over between the node's datatype and the one the
client rebuilt from the description (`clientOf`): the rebuilt type is text-well-formed (`WFT`), every value is
`TextComplete` for it (all its structs have `client = true`), and a value sendable for it is sendable for the node's type
(`Sendable` looks at neither the limits of a scaled type nor the `client` flag).
-/
set_option linter.unusedSectionVars false
set_option linter.unusedVariables false
namespace Frappy.Lemmas.C02
open FloatOps DType Frappy.Datatypes Frappy.Spec.C01 Frappy.Spec.C02

variable {F : Type} [FloatOps F] [WireLaws F]

mutual
theorem wft_clientOf : ∀ (dt c : DType F), WFT dt → clientOf dt = some c → WFT c
  | .double .., c, hw, h => by simp only [clientOf] at h; cases h; exact hw
  | .int .., c, hw, h => by simp only [clientOf] at h; cases h; exact hw
  | .bool, c, hw, h => by simp only [clientOf] at h; cases h; exact hw
  | .enum _, c, hw, h => by simp only [clientOf] at h; cases h; exact hw
  | .string .., c, hw, h => by simp only [clientOf] at h; cases h; exact hw
  | .blob .., c, hw, h => by simp only [clientOf] at h; cases h; exact hw
  | .scaled scale min max ar rr, c, hw, h => by
    simp only [clientOf] at h
    obtain ⟨a, b, rfl⟩ := clientScaled_shape h
    simp [WFT]
  | .array elem lo hi, c, hw, h => by
    simp only [clientOf] at h
    split at h
    · rename_i e he
      cases h
      simp only [WFT] at hw ⊢
      exact wft_clientOf elem e hw he
    · cases h
  | .tuple elems, c, hw, h => by
    simp only [clientOf] at h
    split at h
    · rename_i es hes
      cases h
      simp only [WFT] at hw ⊢
      exact wft_clientOf_list elems es hw hes
    · cases h
  | .struct ms opt cl, c, hw, h => by
    simp only [clientOf] at h
    split at h
    · rename_i cs hcs
      cases h
      simp only [WFT] at hw ⊢
      exact wft_clientOf_fields ms cs hw hcs
    · cases h
theorem wft_clientOf_list : ∀ (ts cs : List (DType F)), WFTList ts → clientOfList ts = some cs → WFTList cs
  | [], cs, _, h => by simp only [clientOfList] at h; cases h; simp [WFTList]
  | t :: ts, cs, hw, h => by
    simp only [clientOfList] at h
    split at h
    · rename_i c cs' hc hcs
      cases h
      simp only [WFTList] at hw ⊢
      exact ⟨wft_clientOf t c hw.1 hc, wft_clientOf_list ts cs' hw.2 hcs⟩
    · cases h
theorem wft_clientOf_fields : ∀ (ms cs : List (String × DType F)), WFTFields ms → clientOfFields ms = some cs → WFTFields cs
  | [], cs, _, h => by simp only [clientOfFields] at h; cases h; simp [WFTFields]
  | (k, t) :: ms, cs, hw, h => by
    simp only [clientOfFields] at h
    split at h
    · rename_i c cs' hc hcs
      cases h
      simp only [WFTFields] at hw ⊢
      exact ⟨wft_clientOf t c hw.1 hc, wft_clientOf_fields ms cs' hw.2 hcs⟩
    · cases h
end

mutual
/-- every struct of a rebuilt type is a client's: nothing is asked of the value -/
theorem textComplete_clientOf : ∀ (dt c : DType F) (v : PVal F), clientOf dt = some c → TextComplete c v
  | .double .., c, v, h => by simp only [clientOf] at h; cases h; simp [TextComplete]
  | .int .., c, v, h => by simp only [clientOf] at h; cases h; simp [TextComplete]
  | .bool, c, v, h => by simp only [clientOf] at h; cases h; simp [TextComplete]
  | .enum _, c, v, h => by simp only [clientOf] at h; cases h; simp [TextComplete]
  | .string .., c, v, h => by simp only [clientOf] at h; cases h; simp [TextComplete]
  | .blob .., c, v, h => by simp only [clientOf] at h; cases h; simp [TextComplete]
  | .scaled scale min max ar rr, c, v, h => by
    simp only [clientOf] at h
    obtain ⟨a, b, rfl⟩ := clientScaled_shape h
    simp [TextComplete]
  | .array elem lo hi, c, v, h => by
    simp only [clientOf] at h
    split at h
    · rename_i e he
      cases h
      cases v <;> simp only [TextComplete]
      intro x _
      exact textComplete_clientOf elem e x he
    · cases h
  | .tuple elems, c, v, h => by
    simp only [clientOf] at h
    split at h
    · rename_i es hes
      cases h
      cases v <;> simp only [TextComplete]
      exact textComplete_clientOf_list elems es _ hes
    · cases h
  | .struct ms opt cl, c, v, h => by
    simp only [clientOf] at h
    split at h
    · rename_i cs hcs
      cases h
      cases v <;> simp only [TextComplete]
      refine ⟨?_, fun kv _ => textComplete_clientOf_member ms cs kv.1 kv.2 hcs⟩
      intro e
      cases e
    · cases h
theorem textComplete_clientOf_list : ∀ (ts cs : List (DType F)) (vs : List (PVal F)), clientOfList ts = some cs →
    TextCompleteZip cs vs
  | [], cs, vs, h => by simp only [clientOfList] at h; cases h; simp [TextCompleteZip]
  | t :: ts, cs, vs, h => by
    simp only [clientOfList] at h
    split at h
    · rename_i c cs' hc hcs
      cases h
      cases vs with
      | nil => simp [TextCompleteZip]
      | cons v vs =>
        simp only [TextCompleteZip]
        exact ⟨textComplete_clientOf t c v hc, textComplete_clientOf_list ts cs' vs hcs⟩
    · cases h
theorem textComplete_clientOf_member : ∀ (ms cs : List (String × DType F)) (k : String) (v : PVal F),
    clientOfFields ms = some cs → TextCompleteMember cs k v
  | [], cs, k, v, h => by simp only [clientOfFields] at h; cases h; simp [TextCompleteMember]
  | (k', t) :: ms, cs, k, v, h => by
    simp only [clientOfFields] at h
    split at h
    · rename_i c cs' hc hcs
      cases h
      simp only [TextCompleteMember]
      split
      · exact textComplete_clientOf t c v hc
      · exact textComplete_clientOf_member ms cs' k v hcs
    · cases h
end

mutual
theorem sendable_clientOf : ∀ (dt c : DType F) (v : PVal F), clientOf dt = some c → Sendable c v → Sendable dt v
  | .double .., c, v, h, hs => by simp only [clientOf] at h; cases h; exact hs
  | .int .., c, v, h, hs => by simp only [clientOf] at h; cases h; exact hs
  | .bool, c, v, h, hs => by simp only [clientOf] at h; cases h; exact hs
  | .enum _, c, v, h, hs => by simp only [clientOf] at h; cases h; exact hs
  | .string .., c, v, h, hs => by simp only [clientOf] at h; cases h; exact hs
  | .blob .., c, v, h, hs => by simp only [clientOf] at h; cases h; exact hs
  | .scaled scale min max ar rr, c, v, h, hs => by
    simp only [clientOf] at h
    obtain ⟨a, b, rfl⟩ := clientScaled_shape h
    cases v <;> simp only [Sendable] at hs ⊢ <;> exact hs
  | .array elem lo hi, c, v, h, hs => by
    simp only [clientOf] at h
    split at h
    · rename_i e he
      cases h
      cases v <;> simp only [Sendable] at hs ⊢ <;> try exact hs
      exact ⟨fun x hx => sendable_clientOf elem e x he (hs.1 x hx), hs.2⟩
    · cases h
  | .tuple elems, c, v, h, hs => by
    simp only [clientOf] at h
    split at h
    · rename_i es hes
      cases h
      cases v <;> simp only [Sendable] at hs ⊢ <;> try exact hs
      exact sendable_clientOf_list elems es _ hes hs
    · cases h
  | .struct ms opt cl, c, v, h, hs => by
    simp only [clientOf] at h
    split at h
    · rename_i cs hcs
      cases h
      have hk := clientOfFields_keys ms cs hcs
      cases v <;> simp only [Sendable] at hs ⊢ <;> try exact hs
      rw [hk] at hs
      exact ⟨fun kv hkv => sendable_clientOf_member ms cs kv.1 kv.2 hcs (hs.1 kv hkv), hs.2⟩
    · cases h
theorem sendable_clientOf_list : ∀ (ts cs : List (DType F)) (vs : List (PVal F)), clientOfList ts = some cs →
    SendableZip cs vs → SendableZip ts vs
  | [], cs, vs, h, hs => by simp only [clientOfList] at h; cases h; exact hs
  | t :: ts, cs, vs, h, hs => by
    simp only [clientOfList] at h
    split at h
    · rename_i c cs' hc hcs
      cases h
      cases vs with
      | nil => simp [SendableZip] at hs
      | cons v vs =>
        simp only [SendableZip] at hs ⊢
        exact ⟨sendable_clientOf t c v hc hs.1, sendable_clientOf_list ts cs' vs hcs hs.2⟩
    · cases h
theorem sendable_clientOf_member : ∀ (ms cs : List (String × DType F)) (k : String) (v : PVal F),
    clientOfFields ms = some cs → SendableMember cs k v → SendableMember ms k v
  | [], cs, k, v, h, hs => by simp only [clientOfFields] at h; cases h; exact hs
  | (k', t) :: ms, cs, k, v, h, hs => by
    simp only [clientOfFields] at h
    split at h
    · rename_i c cs' hc hcs
      cases h
      simp only [SendableMember] at hs ⊢
      split
      · rename_i e
        simp only [e, if_true] at hs
        exact sendable_clientOf t c v hc hs
      · rename_i e
        simp only [e, if_false] at hs
        exact sendable_clientOf_member ms cs' k v hcs hs
    · cases h
end

/-! ### the value set of the rebuilt type -/

theorem snapFix_snap {scale lo : F} (h : SnapFix scale lo) : DType.snap scale lo = some lo := by
  unfold SnapFix IsSome at h
  cases hs : DType.snap scale lo with
  | none => rw [hs] at h; exact h.elim
  | some y =>
    rw [hs] at h
    simp only at h
    rw [(WireLaws.same_iff _ _).mp h]

theorem between_clientScaled {scale min max ar rr x : F} {c : DType F}
    (hl : (∀ lo, DType.snap scale min = some lo → SnapFix scale lo) ∧ (∀ hi, DType.snap scale max = some hi → SnapFix scale hi))
    (h : clientScaled scale min max ar rr = some c) (hb : BetweenSnapped scale min max x) :
    ∃ a b, c = .scaled scale a b ar rr ∧ BetweenSnapped scale a b x := by
  unfold clientScaled at h
  cases hgmin : DType.gridIndex scale min with
  | none => simp [hgmin] at h
  | some kmin =>
    cases hgmax : DType.gridIndex scale max with
    | none => simp [hgmin, hgmax] at h
    | some kmax =>
      cases hamin : (ofInt kmin : Option F) with
      | none => simp [hgmin, hgmax, hamin] at h
      | some a =>
        cases hamax : (ofInt kmax : Option F) with
        | none => simp [hgmin, hgmax, hamin, hamax] at h
        | some b =>
          simp only [hgmin, hgmax, hamin, hamax, Option.some.injEq] at h
          have hsmin : DType.snap scale min = some (mul a scale) := by simp [DType.snap, hgmin, DType.ofGrid, hamin]
          have hsmax : DType.snap scale max = some (mul b scale) := by simp [DType.snap, hgmax, DType.ofGrid, hamax]
          have h1 := snapFix_snap (hl.1 _ hsmin)
          have h2 := snapFix_snap (hl.2 _ hsmax)
          refine ⟨mul a scale, mul b scale, h.symm, ?_⟩
          simp only [BetweenSnapped, hsmin, hsmax] at hb
          simp only [BetweenSnapped, h1, h2]
          exact hb

mutual
/-- where the snapped limits are on the grid, a valid value of the node's type is a valid value of the rebuilt type -/
theorem valid_clientOf : ∀ (dt c : DType F) (v : PVal F), LimitsOnGrid dt → clientOf dt = some c → Valid dt v → Valid c v
  | .double .., c, v, _, h, hv => by simp only [clientOf] at h; cases h; exact hv
  | .int .., c, v, _, h, hv => by simp only [clientOf] at h; cases h; exact hv
  | .bool, c, v, _, h, hv => by simp only [clientOf] at h; cases h; exact hv
  | .enum _, c, v, _, h, hv => by simp only [clientOf] at h; cases h; exact hv
  | .string .., c, v, _, h, hv => by simp only [clientOf] at h; cases h; exact hv
  | .blob .., c, v, _, h, hv => by simp only [clientOf] at h; cases h; exact hv
  | .scaled scale min max ar rr, c, v, hl, h, hv => by
    simp only [clientOf] at h
    simp only [LimitsOnGrid] at hl
    cases v <;> simp only [Valid, InSetG] at hv <;> try exact hv.elim
    case float x =>
      obtain ⟨a, b, rfl, hb⟩ := between_clientScaled hl h hv.2
      simp only [Valid, InSetG]
      exact ⟨hv.1, hb⟩
  | .array elem lo hi, c, v, hl, h, hv => by
    simp only [clientOf] at h
    simp only [LimitsOnGrid] at hl
    split at h
    · rename_i e he
      cases h
      cases v <;> simp only [Valid, InSetG] at hv ⊢ <;> try exact hv
      exact ⟨fun x hx => valid_clientOf elem e x hl he (hv.1 x hx), hv.2⟩
    · cases h
  | .tuple elems, c, v, hl, h, hv => by
    simp only [clientOf] at h
    simp only [LimitsOnGrid] at hl
    split at h
    · rename_i es hes
      cases h
      cases v <;> simp only [Valid, InSetG] at hv ⊢ <;> try exact hv
      exact valid_clientOf_list elems es _ hl hes hv
    · cases h
  | .struct ms opt cl, c, v, hl, h, hv => by
    simp only [clientOf] at h
    simp only [LimitsOnGrid] at hl
    split at h
    · rename_i cs hcs
      cases h
      have hk := clientOfFields_keys ms cs hcs
      cases v <;> simp only [Valid, InSetG] at hv ⊢ <;> try exact hv
      rw [hk]
      exact ⟨fun kv hkv => valid_clientOf_member ms cs kv.1 kv.2 hl hcs (hv.1 kv hkv), hv.2⟩
    · cases h
theorem valid_clientOf_list : ∀ (ts cs : List (DType F)) (vs : List (PVal F)), LimitsOnGridList ts → clientOfList ts = some cs →
    ZipInG SnapFix ts vs → ZipInG SnapFix cs vs
  | [], cs, vs, _, h, hv => by simp only [clientOfList] at h; cases h; exact hv
  | t :: ts, cs, vs, hl, h, hv => by
    simp only [clientOfList] at h
    simp only [LimitsOnGridList] at hl
    split at h
    · rename_i c cs' hc hcs
      cases h
      cases vs with
      | nil => simp [ZipInG] at hv
      | cons v vs =>
        simp only [ZipInG] at hv ⊢
        exact ⟨valid_clientOf t c v hl.1 hc hv.1, valid_clientOf_list ts cs' vs hl.2 hcs hv.2⟩
    · cases h
theorem valid_clientOf_member : ∀ (ms cs : List (String × DType F)) (k : String) (v : PVal F), LimitsOnGridFields ms →
    clientOfFields ms = some cs → MemberInG SnapFix ms k v → MemberInG SnapFix cs k v
  | [], cs, k, v, _, h, hv => by simp only [clientOfFields] at h; cases h; exact hv
  | (k', t) :: ms, cs, k, v, hl, h, hv => by
    simp only [clientOfFields] at h
    simp only [LimitsOnGridFields] at hl
    split at h
    · rename_i c cs' hc hcs
      cases h
      simp only [MemberInG] at hv ⊢
      split
      · rename_i e
        simp only [e, if_true] at hv
        exact valid_clientOf t c v hl.1 hc hv
      · rename_i e
        simp only [e, if_false] at hv
        exact valid_clientOf_member ms cs' k v hl.2 hcs hv
    · cases h
end

/-! ### `from_string (to_string v)` at the top of the tree (strings, enum names and bools are bare texts there) -/

theorem text_rt (lib : TextLib F) (hl : TextLib.Lawful lib) (dt : DType F) (hwf : WFT dt)
    (v : PVal F) (hv : Valid dt v) (hc : Canon v) (htc : TextComplete dt v) :
    ∃ t v', Datatypes.toString lib dt v = some t ∧ fromString lib dt t = .ok v' ∧ Datatypes.toString lib dt v' = some t ∧
      SameButFloats v' v ∧ Sendable dt v' := by
  have core := text_core lib hl dt [] v hwf hv hc htc
  cases dt with
  | string minc maxc utf8 =>
    cases v <;> simp only [Valid, InSetG] at hv <;> try exact hv.elim
    case str s =>
      have h := string_rt (F := F) hv
      exact ⟨.bare s, .str s, rfl, by simp [fromString, h, Except.map], rfl, by simp [SameButFloats],
        by simpa [Sendable, InSetG] using hv⟩
  | enum ms =>
    cases v <;> simp only [Valid, InSetG] at hv <;> try exact hv.elim
    case enum n k =>
      simp only [WFT, DType.WF] at hwf
      have hf := find_member_name hv hwf.2.1
      exact ⟨.bare n, .enum n k, rfl, by simp [fromString, hf], rfl, by simp [SameButFloats],
        by simpa [Sendable, InSetG] using hv⟩
  | bool =>
    cases v <;> simp only [Valid, InSetG] at hv <;> try exact hv.elim
    case bool b =>
      refine ⟨.bare (lib.reprBool b), .bool b, rfl, ?_, rfl, by simp [SameButFloats], by simp [Sendable, InSetG]⟩
      cases b
      · simp [fromString, hl.boolWordFalse, boolFalseWords]
      · simp [fromString, hl.boolWordTrue, boolFalseWords, boolTrueWords]
  | double min max ar rr =>
    obtain ⟨s, w, v', h1, h2, h3, h4, h5, h6⟩ := core
    exact ⟨.syn s, v', by simp [Datatypes.toString, h1], by simp [fromString, h2, h3], by simp [Datatypes.toString, h4], h5, h6⟩
  | int min max =>
    obtain ⟨s, w, v', h1, h2, h3, h4, h5, h6⟩ := core
    exact ⟨.syn s, v', by simp [Datatypes.toString, h1], by simp [fromString, h2, h3], by simp [Datatypes.toString, h4], h5, h6⟩
  | scaled scale min max ar rr =>
    obtain ⟨s, w, v', h1, h2, h3, h4, h5, h6⟩ := core
    exact ⟨.syn s, v', by simp [Datatypes.toString, h1], by simp [fromString, h2, h3], by simp [Datatypes.toString, h4], h5, h6⟩
  | blob minb maxb =>
    obtain ⟨s, w, v', h1, h2, h3, h4, h5, h6⟩ := core
    exact ⟨.syn s, v', by simp [Datatypes.toString, h1], by simp [fromString, h2, h3], by simp [Datatypes.toString, h4], h5, h6⟩
  | array elem lo hi =>
    obtain ⟨s, w, v', h1, h2, h3, h4, h5, h6⟩ := core
    exact ⟨.syn s, v', by simp [Datatypes.toString, h1], by simp [fromString, h2, h3], by simp [Datatypes.toString, h4], h5, h6⟩
  | tuple elems =>
    obtain ⟨s, w, v', h1, h2, h3, h4, h5, h6⟩ := core
    exact ⟨.syn s, v', by simp [Datatypes.toString, h1], by simp [fromString, h2, h3], by simp [Datatypes.toString, h4], h5, h6⟩
  | struct ms opt cl =>
    obtain ⟨s, w, v', h1, h2, h3, h4, h5, h6⟩ := core
    exact ⟨.syn s, v', by simp [Datatypes.toString, h1], by simp [fromString, h2, h3], by simp [Datatypes.toString, h4], h5, h6⟩

/-! ### every valid value of a text-well-formed type (`WFT`: a client's rebuilt type is one) is sendable

`valid_sendable` of `WireCore` asks for `DType.WF`, which a rebuilt type need not satisfy (other limits at its scaled
leaves); the limits of a scaled leaf play no part in `Sendable`, those of a double leaf are the node's. -/

mutual
theorem valid_sendable_wft : ∀ (dt : DType F) (v : PVal F), WFT dt → Valid dt v → Sendable dt v
  | .double min max ar rr, v, hwf, hv => by
    cases v <;> simp only [Valid, InSetG] at hv <;> try exact hv.elim
    case float x =>
      simp only [WFT] at hwf
      simpa [Sendable] using double_finite hwf hv
  | .scaled scale min max ar rr, v, hwf, hv => by
    cases v <;> simp only [Valid, InSetG] at hv <;> try exact hv.elim
    case float x => simpa [Sendable] using And.intro hv.1 (between_notNaN hv.2)
  | .int min max, v, _, hv => by simp only [Sendable]; exact hv
  | .bool, v, _, hv => by simp only [Sendable]; exact hv
  | .enum ms, v, _, hv => by simp only [Sendable]; exact hv
  | .string a b c, v, _, hv => by simp only [Sendable]; exact hv
  | .blob a b, v, _, hv => by simp only [Sendable]; exact hv
  | .array elem lo hi, v, hwf, hv => by
    cases v <;> simp only [Valid, InSetG] at hv <;> try exact hv.elim
    case tuple vs =>
      simp only [WFT] at hwf
      simp only [Sendable]
      exact ⟨fun x hx => valid_sendable_wft elem x hwf (hv.1 x hx), hv.2.1, hv.2.2⟩
  | .tuple elems, v, hwf, hv => by
    cases v <;> simp only [Valid, InSetG] at hv <;> try exact hv.elim
    case tuple vs =>
      simp only [WFT] at hwf
      simp only [Sendable]
      exact valid_sendable_wft_zip elems vs hwf hv
  | .struct ms opt cl, v, hwf, hv => by
    cases v <;> simp only [Valid, InSetG] at hv <;> try exact hv.elim
    case dict fields =>
      simp only [WFT] at hwf
      simp only [Sendable]
      exact ⟨fun kv hkv => valid_sendable_wft_member ms kv.1 kv.2 hwf (hv.1 kv hkv), hv.2.1, hv.2.2⟩
theorem valid_sendable_wft_zip : ∀ (ts : List (DType F)) (vs : List (PVal F)), WFTList ts → ZipInG SnapFix ts vs →
    SendableZip ts vs
  | [], [], _, _ => by simp [SendableZip]
  | t :: ts, v :: vs, hwf, hz => by
    simp only [WFTList] at hwf
    simp only [ZipInG] at hz
    simp only [SendableZip]
    exact ⟨valid_sendable_wft t v hwf.1 hz.1, valid_sendable_wft_zip ts vs hwf.2 hz.2⟩
  | [], _ :: _, _, hz => by simp [ZipInG] at hz
  | _ :: _, [], _, hz => by simp [ZipInG] at hz
theorem valid_sendable_wft_member : ∀ (ms : List (String × DType F)) (k : String) (v : PVal F), WFTFields ms →
    MemberInG SnapFix ms k v → SendableMember ms k v
  | [], _, _, _, h => by simp [MemberInG] at h
  | (k', t) :: rest, k, v, hwf, h => by
    simp only [WFTFields] at hwf
    simp only [MemberInG] at h
    simp only [SendableMember]
    by_cases e : k' = k
    · simp only [e, if_true] at h ⊢
      exact valid_sendable_wft t v hwf.1 h
    · simp only [e, if_false] at h ⊢
      exact valid_sendable_wft_member rest k v hwf.2 h
end

end Frappy.Lemmas.C02
