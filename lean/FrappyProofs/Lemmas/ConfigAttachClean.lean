import FrappyProofs.Lemmas.ConfigAttach
/- helper lemmas for C10: attachments without error never keep a node from starting (rank argument against the
`initializing` stack) -/
namespace Frappy.Lemmas.ConfigAttach
open Frappy.Config Frappy.Spec.C10 Frappy.Lemmas.Config Frappy.Lemmas.ConfigDsl

variable {DT Val : Type}

/-! ## the rounds of `settleN` -/

theorem settleN_step (E : List (Name × Name)) (names : List Name) (k : Nat) :
    ∀ x ∈ settleN E names k, x ∈ settleN E names (k + 1) := by
  intro x hx
  simp only [settleN, settle]
  exact List.mem_append_left _ hx

theorem settleN_mono (E : List (Name × Name)) (names : List Name) (j : Nat) :
    ∀ k, j ≤ k → ∀ x ∈ settleN E names j, x ∈ settleN E names k := by
  intro k
  induction k with
  | zero => intro h x hx; have : j = 0 := by omega
            subst this; exact hx
  | succ k ih =>
    intro h x hx
    by_cases hj : j = k + 1
    · subst hj; exact hx
    · exact settleN_step E names k x (ih (by omega) x hx)

/-- a settled module is settled in some first round -/
theorem first_round (E : List (Name × Name)) (names : List Name) :
    ∀ k x, x ∈ settleN E names k → ∃ j, j < k ∧ x ∈ settleN E names (j + 1) ∧ x ∉ settleN E names j := by
  intro k
  induction k with
  | zero => intro x hx; simp [settleN] at hx
  | succ k ih =>
    intro x hx
    by_cases hk : x ∈ settleN E names k
    · obtain ⟨j, hj, h1, h2⟩ := ih x hk
      exact ⟨j, by omega, h1, h2⟩
    · exact ⟨k, by omega, hx, hk⟩

/-- a module settled in round `k + 1` has all its attached modules settled by round `k` -/
theorem edge_settled (E : List (Name × Name)) (names : List Name) (k : Nat) (a b : Name) (he : (a, b) ∈ E)
    (h1 : a ∈ settleN E names (k + 1)) (h0 : a ∉ settleN E names k) : b ∈ settleN E names k := by
  simp only [settleN, settle, List.mem_append, List.mem_filter] at h1
  rcases h1 with h1 | ⟨_, h1⟩
  · exact absurd h1 h0
  · simp only [Bool.and_eq_true, List.all_eq_true] at h1
    have := h1.2 (a, b) he
    simpa using this

/-- the module being initialised was settled in round `k + 1`, everything below it on the stack later -/
def Low (E : List (Name × Name)) (names : List Name) (k : Nat) (m : Name) (stack : List Name) : Prop :=
  m ∉ settleN E names k ∧ m ∈ settleN E names (k + 1) ∧ ∀ x ∈ stack, x ∉ settleN E names (k + 1)

/-! ## a node whose attachments are all good -/

def CleanSt (st : InitState) : Prop := st.errors = [] ∧ st.failed = []

/-- everything the init phase may rely on in a node without creation errors and with good, acyclic attachments -/
structure Good (env : InitEnv DT Val) : Prop where
  names : (env.mods.map (·.name)).Nodup
  reg : ∀ md ∈ env.mods, (lookup md.name env.node.modules).isSome = true
  sound : ∀ kv ∈ env.node.modules, kv.1 ∈ env.mods.map (·.name)
  link : ∀ md ∈ env.mods, ∀ i, lookup md.name env.node.modules = some i →
    ∀ d, attTarget env.nameOf i d = attGiven env.nameOf md d
  good : ∀ md ∈ env.mods, ∀ d ∈ md.attached, ∀ t, attGiven env.nameOf md d = some t → targetOk env.mods d t = true

theorem hasKind_of_targetOk (env : InitEnv DT Val) (hnd : (env.mods.map (·.name)).Nodup) (d : AttDecl) (t : Name)
    (h : targetOk env.mods d t = true) : hasKind env t d.base = true ∧ t ∈ env.mods.map (·.name) := by
  unfold targetOk at h
  rw [List.any_eq_true] at h
  obtain ⟨x, hx, hp⟩ := h
  simp only [Bool.and_eq_true, beq_iff_eq] at hp
  have hdecl : declOf env t = some x := by
    have := find?_of_nodup (fun y : ModDecl DT Val => y.name) env.mods hnd x hx
    rw [hp.1] at this
    exact this
  refine ⟨?_, by rw [← hp.1]; exact List.mem_map_of_mem hx⟩
  unfold hasKind
  rw [hdecl]
  exact hp.2

theorem mem_attEdges (nameOf : Val → Option Name) (mods : List (ModDecl DT Val)) (md : ModDecl DT Val)
    (hmd : md ∈ mods) (d : AttDecl) (hd : d ∈ md.attached) (t : Name) (ht : attGiven nameOf md d = some t) :
    (md.name, t) ∈ attEdges nameOf mods := by
  unfold attEdges
  rw [List.mem_flatMap]
  refine ⟨md, hmd, ?_⟩
  rw [List.mem_filterMap]
  exact ⟨d, hd, by rw [ht]; rfl⟩

theorem checkTarget_clean (env : InitEnv DT Val) (m : Name) (d : AttDecl) (t : Name) (st : InitState)
    (hk : hasKind env t d.base = true) (h : CleanSt st) :
    CleanSt (checkTarget env m d t st).st ∧ (checkTarget env m d t st).err = none := by
  unfold checkTarget
  simp only [hk, Bool.not_true, Bool.false_eq_true, ↓reduceIte, h.2, List.contains_nil]
  exact ⟨⟨h.1, rfl⟩, trivial⟩

/-- one attachment of a module of a good node: resolved, nothing reported -/
theorem resolveStep_clean (env : InitEnv DT Val) (g : Good env) (initT : InitState → Name → InitState)
    (stack0 : List Name) (m : Name) (md : ModDecl DT Val) (hmd : md ∈ env.mods) (hname : md.name = m)
    (i : Instance DT Val) (hi : lookup m env.node.modules = some i) (k : Nat)
    (low : Low (attEdges env.nameOf env.mods) (env.mods.map (·.name)) k m stack0)
    (H : ∀ st t j, CleanSt st → Low (attEdges env.nameOf env.mods) (env.mods.map (·.name)) j t (m :: stack0) →
      t ∈ env.mods.map (·.name) → CleanSt (initT st t))
    (acc : Loop) (d : AttDecl) (hd : d ∈ md.attached) (h : CleanSt acc.st) (he : acc.err = none) :
    CleanSt (resolveStep env initT (m :: stack0) m i acc d).st ∧
    (resolveStep env initT (m :: stack0) m i acc d).err = none := by
  unfold resolveStep
  simp only [he, Option.isSome_none, Bool.false_eq_true, ↓reduceIte]
  cases ht : attTarget env.nameOf i d with
  | none => exact ⟨h, he⟩
  | some t =>
    simp only
    have hg : attGiven env.nameOf md d = some t := by
      rw [← g.link md hmd i (by rw [hname]; exact hi) d]; exact ht
    obtain ⟨hkind, hmem⟩ := hasKind_of_targetOk env g.names d t (g.good md hmd d hd t hg)
    have hedge : (m, t) ∈ attEdges env.nameOf env.mods := by
      rw [← hname]; exact mem_attEdges env.nameOf env.mods md hmd d hd t hg
    have hts := edge_settled _ _ k m t hedge low.2.1 low.1
    have hc : (env.mods.map (·.name)).contains t = true := by simpa using hmem
    simp only [hc, Bool.not_true, Bool.false_eq_true, ↓reduceIte]
    obtain ⟨mt, hmt, hmtn⟩ := List.mem_map.1 hmem
    cases hl : lookup t env.node.modules with
    | none => have := g.reg mt hmt; rw [hmtn, hl] at this; cases this
    | some i' =>
      simp only
      split
      · exact checkTarget_clean env m d t acc.st hkind h
      · split
        · rename_i hst
          exfalso
          simp only [List.contains_eq_mem, List.mem_cons, decide_eq_true_eq] at hst
          rcases hst with rfl | hst
          · exact low.1 hts
          · exact low.2.2 t hst (settleN_step _ _ k t hts)
        · obtain ⟨j, hj, h1, h0⟩ := first_round _ _ k t hts
          have lowt : Low (attEdges env.nameOf env.mods) (env.mods.map (·.name)) j t (m :: stack0) := by
            refine ⟨h0, h1, fun x hx hxs => ?_⟩
            rcases List.mem_cons.1 hx with rfl | hx
            · exact low.1 (settleN_mono _ _ (j + 1) k (by omega) x hxs)
            · exact low.2.2 x hx (settleN_mono _ _ (j + 1) (k + 1) (by omega) x hxs)
          exact checkTarget_clean env m d t _ hkind (H acc.st t j h lowt hmem)

theorem resolveAll_clean (env : InitEnv DT Val) (g : Good env) (initT : InitState → Name → InitState)
    (stack0 : List Name) (m : Name) (md : ModDecl DT Val) (hmd : md ∈ env.mods) (hname : md.name = m)
    (i : Instance DT Val) (hi : lookup m env.node.modules = some i) (k : Nat)
    (low : Low (attEdges env.nameOf env.mods) (env.mods.map (·.name)) k m stack0)
    (H : ∀ st t j, CleanSt st → Low (attEdges env.nameOf env.mods) (env.mods.map (·.name)) j t (m :: stack0) →
      t ∈ env.mods.map (·.name) → CleanSt (initT st t)) :
    ∀ (ds : List AttDecl) (acc : Loop), (∀ d ∈ ds, d ∈ md.attached) → CleanSt acc.st → acc.err = none →
      CleanSt (ds.foldl (resolveStep env initT (m :: stack0) m i) acc).st ∧
      (ds.foldl (resolveStep env initT (m :: stack0) m i) acc).err = none := by
  intro ds
  induction ds with
  | nil => intro acc _ h he; exact ⟨h, he⟩
  | cons d ds ih =>
    intro acc hsub h he
    simp only [List.foldl_cons]
    obtain ⟨a, b⟩ := resolveStep_clean env g initT stack0 m md hmd hname i hi k low H acc d
      (hsub d List.mem_cons_self) h he
    exact ih _ (fun d' hd' => hsub d' (List.mem_cons_of_mem _ hd')) a b

/-- `SecNode.get_module` on a good node reports nothing -/
theorem initMod_clean (env : InitEnv DT Val) (g : Good env) : ∀ (fuel : Nat) (stack : List Name) (st : InitState)
    (m : Name) (k : Nat), CleanSt st → Low (attEdges env.nameOf env.mods) (env.mods.map (·.name)) k m stack →
    stack.Nodup → (∀ x ∈ stack, x ∈ env.mods.map (·.name)) → m ∈ env.mods.map (·.name) →
    env.node.modules.length + 1 ≤ stack.length + fuel →
    CleanSt (initMod env fuel stack st m) := by
  have regOf : ∀ x, x ∈ env.mods.map (·.name) → (lookup x env.node.modules).isSome = true := by
    intro x hx
    obtain ⟨mx, hmx, rfl⟩ := List.mem_map.1 hx
    exact g.reg mx hmx
  intro fuel
  induction fuel with
  | zero =>
    intro stack st m k _ low hnd hsub hm hlen
    exfalso
    have hnot : m ∉ stack := fun hin => low.2.2 m hin low.2.1
    have := nodup_subset_length (m :: stack) (env.node.modules.map (·.1)) (List.nodup_cons.2 ⟨hnot, hnd⟩) (fun x hx => by
      rcases List.mem_cons.1 hx with rfl | hx
      · exact mem_names_of_lookup _ _ (regOf _ hm)
      · exact mem_names_of_lookup _ _ (regOf _ (hsub x hx)))
    simp only [List.length_cons, List.length_map] at this
    omega
  | succ fuel ih =>
    intro stack st m k h low hnd hsub hm hlen
    have hnot : m ∉ stack := fun hin => low.2.2 m hin low.2.1
    simp only [initMod]
    obtain ⟨md, hmd, hname⟩ := List.mem_map.1 hm
    have hdecl : declOf env m = some md := by
      have := find?_of_nodup (fun y : ModDecl DT Val => y.name) env.mods g.names md hmd
      simp only [hname] at this
      exact this
    cases hi : lookup m env.node.modules with
    | none => have := regOf m hm; rw [hi] at this; cases this
    | some i =>
      simp only [hdecl]
      have H : ∀ st' t j, CleanSt st' →
          Low (attEdges env.nameOf env.mods) (env.mods.map (·.name)) j t (m :: stack) →
          t ∈ env.mods.map (·.name) → CleanSt (initMod env fuel (m :: stack) st' t) := by
        intro st' t j h' lowt ht
        apply ih (m :: stack) st' t j h' lowt (List.nodup_cons.2 ⟨hnot, hnd⟩) _ ht
        · simp only [List.length_cons]; omega
        · intro x hx
          rcases List.mem_cons.1 hx with rfl | hx
          · exact hm
          · exact hsub x hx
      obtain ⟨a, b⟩ := resolveAll_clean env g _ stack m md hmd hname i hi k low H md.attached ⟨st, none⟩
        (fun d hd => hd) h rfl
      unfold finishInit
      simp only [b]
      exact ⟨a.1, a.2⟩

/-- `create_modules` on a good node: nobody fails to initialise -/
theorem initNode_clean (env : InitEnv DT Val) (g : Good env)
    (hacyc : acyclicB env.nameOf env.mods = true) : (initNode env).errors = [] := by
  have key : ∀ (l : List (Name × Instance DT Val)) (st : InitState), CleanSt st →
      (∀ kv ∈ l, kv.1 ∈ env.mods.map (·.name)) → CleanSt (l.foldl (initTop env) st) := by
    intro l
    induction l with
    | nil => intro st h _; exact h
    | cons x l ih =>
      intro st h hs
      simp only [List.foldl_cons]
      apply ih _ _ (fun kv hkv => hs kv (List.mem_cons_of_mem _ hkv))
      unfold initTop
      split
      · exact h
      · have hx := hs x List.mem_cons_self
        unfold acyclicB at hacyc
        rw [List.all_eq_true] at hacyc
        have hset := hacyc x.1 hx
        simp only [List.contains_eq_mem, decide_eq_true_eq] at hset
        obtain ⟨j, _, h1, h0⟩ := first_round _ _ _ x.1 hset
        exact initMod_clean env g _ [] st x.1 j h ⟨h0, h1, fun _ hx => by cases hx⟩ List.nodup_nil
          (fun _ hx => by cases hx) hx (by simp)
  exact (key _ _ ⟨rfl, rfl⟩ (fun kv hkv => g.sound kv hkv)).1

end Frappy.Lemmas.ConfigAttach
