import FrappyProofs.Lemmas.DatatypesDenotesC
/-
C01: validating a value of the value set (in canonical form) returns it unchanged — leaves.
-/
set_option linter.unusedSectionVars false
set_option linter.unusedVariables false
namespace Frappy.Lemmas.C01
open FloatOps DType Frappy.Datatypes Frappy.Spec.C01
open PVal (toFloat? seqItems? prevItems prevFields dictGet dictSet)

variable {F : Type} [FloatOps F] [LawfulFloatOps F]

/-- the grid of a scaled type is exactly representable on its declared range: the grid values of the
limits are finite, and every grid value between them snaps to itself and is finite.  True for every
scaled type over `Rat` with `scale ≠ 0`; for binary64 it can fail only where `scale` is below the
spacing of the floats near the limits (grid indices beyond 2^53). -/
def GridExactScaled (scale min max : F) : Prop :=
  (∀ lo, snap scale min = some lo → isFinite lo = true) ∧
  (∀ hi, snap scale max = some hi → isFinite hi = true) ∧
  (∀ x, OnGrid scale x → BetweenSnapped scale min max x → snap scale x = some x ∧ isFinite x = true)

mutual
def GridExact : DType F → Prop
  | .scaled scale min max _ _ => GridExactScaled scale min max
  | .array elem _ _ => GridExact elem
  | .tuple elems => GridExactList elems
  | .struct ms _ _ => GridExactFields ms
  | _ => True
def GridExactList : List (DType F) → Prop
  | [] => True
  | t :: ts => GridExact t ∧ GridExactList ts
def GridExactFields : List (String × DType F) → Prop
  | [] => True
  | (_, t) :: rest => GridExact t ∧ GridExactFields rest
end

theorem canon_float {x : F} (h : Canon (.float x)) : addZero x = x := by
  simp only [Canon] at h; exact same_imp_eq h

theorem isNonneg_pymax {a b : F} (ha : isNonneg a = true) (hb : isNonneg b = true) : isNonneg (pymax a b) = true := by
  unfold pymax; split <;> assumption

theorem doubleValidate_idem {min max ar rr x : F} (hwf : (DType.double min max ar rr).WF)
    (hin : InSet (.double min max ar rr) (.float x)) (hc : addZero x = x) :
    doubleValidate min max ar rr (.float x) = .ok x := by
  simp only [DType.WF, DType.nonneg] at hwf
  obtain ⟨fmin, fmax, hle, hNmin, hmaxM, _, _, far, nar, frr, nrr⟩ := hwf
  simp only [InSet, InSetG] at hin
  obtain ⟨hn, h1, h2⟩ := hin
  have hNx := LawfulFloatOps.le_trans _ _ _ hNmin h1
  have hxM := LawfulFloatOps.le_trans _ _ _ h2 hmaxM
  have hcall : doubleCall (.float x) = .ok x := by
    unfold doubleCall
    simp only [toFloat?, hc, hn, Bool.false_eq_true, ↓reduceIte]
    rw [median3_inside hNx hxM]
  unfold doubleValidate
  rw [hcall]
  simp only
  have hprec : isNonneg (DType.tolerance rr ar x) = true := by
    unfold DType.tolerance
    exact isNonneg_pymax (LawfulFloatOps.abs_nonneg _ (LawfulFloatOps.mul_notNaN x rr hNx hxM frr)) nar
  have g1 := LawfulFloatOps.sub_le min x _ fmin h1 hprec
  have g2 := LawfulFloatOps.le_add x max _ fmax h2 hprec
  simp only [g1, g2, Bool.and_self, ↓reduceIte]
  rw [median3_inside h1 h2]

theorem intValidate_idem {min max i : Int} (hwf : (DType.int (F := F) min max).WF)
    (hin : InSet (F := F) (.int min max) (.int i)) : intValidate (F := F) min max (.int i) = .ok i := by
  simp only [DType.WF, DType.intLimit] at hwf
  simp only [InSet, InSetG] at hin
  obtain ⟨y, hy⟩ := LawfulFloatOps.ofInt_isSome (F := F) i (by omega) (by omega)
  unfold intValidate intCall
  simp only [hy]
  rw [if_pos hin]

theorem scaledCall_self {scale x : F} (hc : addZero x = x) (hs : snap scale x = some x) (hf : isFinite x = true) :
    scaledCall scale (.float x) = .ok x := by
  unfold snap at hs
  unfold scaledCall
  simp only [toFloat?, hc]
  split at hs
  · rename_i k hk
    rw [hk]; simp only
    unfold ofGrid at hs
    split at hs
    · rename_i y hy
      rw [hy]; simp only
      injection hs with hs
      rw [hs, hf]; simp
    · cases hs
  · cases hs

theorem scaledCall_limit_ok {scale lim lo : F} (hc : addZero lim = lim) (hs : snap scale lim = some lo)
    (hf : isFinite lo = true) : scaledCall scale (.float lim) = .ok lo := by
  unfold snap at hs
  unfold scaledCall
  simp only [toFloat?, hc]
  split at hs
  · rename_i k hk
    rw [hk]; simp only
    unfold ofGrid at hs
    split at hs
    · rename_i y hy
      rw [hy]; simp only
      injection hs with hs
      rw [hs, hf]; simp
    · cases hs
  · cases hs

theorem scaledValidate_idem {scale min max ar rr x : F} (hwf : (DType.scaled scale min max ar rr).WF)
    (hg : GridExactScaled scale min max) (hin : InSet (.scaled scale min max ar rr) (.float x))
    (hc : addZero x = x) : scaledValidate scale min max (.float x) = .ok x := by
  simp only [DType.WF] at hwf
  obtain ⟨_, _, _, _, _, hcmin, hcmax, _⟩ := hwf
  simp only [InSet, InSetG] at hin
  obtain ⟨hon, hbet⟩ := hin
  obtain ⟨g1, g2, g3⟩ := hg
  obtain ⟨hsx, hfx⟩ := g3 x hon hbet
  unfold BetweenSnapped at hbet
  cases hlo : snap scale min with
  | none => rw [hlo] at hbet; exact hbet.elim
  | some lo =>
    cases hhi : snap scale max with
    | none => rw [hlo, hhi] at hbet; exact hbet.elim
    | some hi =>
      rw [hlo, hhi] at hbet
      simp only at hbet
      unfold scaledValidate
      rw [scaledCall_self hc hsx hfx, scaledCall_limit_ok hcmin hlo (g1 lo hlo), scaledCall_limit_ok hcmax hhi (g2 hi hhi)]
      simp only [hbet.1, hbet.2, Bool.and_self, ↓reduceIte]

theorem find_unique {ms : List (String × Int)} (hn : (ms.map (·.2)).Nodup) {n : String} {k : Int}
    (hm : (n, k) ∈ ms) : enumByValue ms k = some (n, k) := by
  unfold enumByValue
  induction ms with
  | nil => cases hm
  | cons hd tl ih =>
    obtain ⟨n0, k0⟩ := hd
    simp only [List.map_cons, List.nodup_cons] at hn
    simp only [List.find?_cons]
    rcases List.mem_cons.1 hm with e | e
    · injection e with e1 e2; subst e1; subst e2; simp
    · have hne : k0 ≠ k := by
        intro h; apply hn.1; rw [h]; exact List.mem_map_of_mem (f := (·.2)) e
      have : (k0 == k) = false := by simpa using hne
      simp only [this]
      exact ih hn.2 e

theorem enumCall_idem {ms : List (String × Int)} (hwf : (DType.enum (F := F) ms).WF) {n : String} {k : Int}
    (hin : InSet (F := F) (.enum ms) (.enum n k)) : enumCall (F := F) ms (.enum n k) = .ok (.enum n k) := by
  simp only [DType.WF] at hwf
  simp only [InSet, InSetG] at hin
  simp only [enumCall, find_unique hwf.2.2 hin]

theorem stringCall_idem {minc maxc : Nat} {utf8 : Bool} {s : String}
    (hin : InSet (F := F) (.string minc maxc utf8) (.str s)) :
    stringCall (F := F) minc maxc utf8 (.str s) = .ok s := by
  simp only [InSet, InSetG] at hin
  obtain ⟨h1, h2, h3, h4⟩ := hin
  have ha : (!utf8 && !isAscii s) = false := by
    cases utf8
    · have := h3 rfl
      have : isAscii s = true := by
        unfold isAscii; exact List.all_eq_true.2 (fun c hc => by simpa using this c hc)
      simp [this]
    · simp
  have hnul : hasNul s = false := by
    unfold hasNul
    rw [List.any_eq_false]
    intro c hc
    simpa using h4 c hc
  simp only [stringCall, ha, Bool.false_eq_true, ↓reduceIte, hnul]
  rw [if_neg (by omega), if_neg (by omega)]

theorem blobCall_idem {minb maxb : Nat} {b : List UInt8} (hin : InSet (F := F) (.blob minb maxb) (.bytes b)) :
    blobCall (F := F) minb maxb (.bytes b) = .ok b := by
  simp only [InSet, InSetG] at hin
  simp only [blobCall]
  rw [if_neg (by omega), if_neg (by omega)]

theorem inSet_notNone {G : F → F → Prop} {dt : DType F} {v : PVal F} (h : InSetG G dt v) : isNone v = false := by
  cases dt <;> cases v <;> simp only [InSetG] at h <;> first | rfl | exact h.elim

end Frappy.Lemmas.C01
