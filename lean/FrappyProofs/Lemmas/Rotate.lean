import FrappyModel.Spec.C20
/- helper lemmas for the rotation clause of C20 -/
namespace Frappy.Rotate
open Frappy.Spec.C20

variable {α : Type} [DecidableEq α]

theorem openNew_eq_withNew (dir : List α) (new : α) : openNew dir new = withNew dir new := rfl

theorem mem_openNew {dir : List α} {new f : α} : f ∈ openNew dir new ↔ f ∈ dir ∨ f = new := by
  unfold openNew; split <;> simp_all

theorem nodup_openNew {dir : List α} {new : α} (h : dir.Nodup) : (openNew dir new).Nodup := by
  unfold openNew; split
  · exact h
  · rw [List.nodup_append]
    refine ⟨h, by simp, ?_⟩
    intro a ha b hb
    simp at hb; subst hb
    intro e; subst e; contradiction

/-- the sorted log list, split where `files[:-n]` cuts it -/
structure Cut (le : α → α → Bool) (isLog : α → Bool) (d : List α) (n : Nat) where
  rem : List α
  kept : List α
  rem_eq : rem = removed le isLog d n
  perm : (rem ++ kept).Perm (d.filter isLog)
  sorted : ∀ r ∈ rem, ∀ k ∈ kept, le r k = true
  disjoint : ∀ r ∈ rem, ∀ k ∈ kept, r ≠ k
  kept_len : kept.length = min n (d.filter isLog).length
  rem_nodup : rem.Nodup
  kept_nodup : kept.Nodup

def mkCut (le : α → α → Bool) (isLog : α → Bool) (d : List α) (n : Nat)
    (trans : ∀ a b c : α, le a b = true → le b c = true → le a c = true)
    (total : ∀ a b : α, (le a b || le b a) = true)
    (hd : d.Nodup) : Cut le isLog d n :=
  let files := sortedLogs le isLog d
  let k := files.length - n
  have hperm : files.Perm (d.filter isLog) := List.mergeSort_perm _ _
  have hsorted : files.Pairwise (fun a b => le a b = true) := List.pairwise_mergeSort trans total _
  have hnodup : files.Nodup := (hperm.nodup_iff).2 (hd.sublist List.filter_sublist)
  have hsplit : files.take k ++ files.drop k = files := List.take_append_drop k files
  have hs2 : (files.take k ++ files.drop k).Pairwise (fun a b => le a b = true) := by rw [hsplit]; exact hsorted
  have hn2 : (files.take k ++ files.drop k).Nodup := by rw [hsplit]; exact hnodup
  { rem := files.take k
    kept := files.drop k
    rem_eq := rfl
    perm := by rw [hsplit]; exact hperm
    sorted := (List.pairwise_append.1 hs2).2.2
    disjoint := (List.nodup_append.1 hn2).2.2
    kept_len := by
      have : files.length = (d.filter isLog).length := hperm.length_eq
      simp only [List.length_drop, k]; omega
    rem_nodup := (List.nodup_append.1 hn2).1
    kept_nodup := (List.nodup_append.1 hn2).2.1 }

/-- filtering out the first part of a duplicate-free `rem ++ kept` leaves `kept` -/
theorem filter_not_rem {rem kept : List α} (hdis : ∀ r ∈ rem, ∀ k ∈ kept, r ≠ k) :
    (rem ++ kept).filter (fun f => !rem.contains f) = kept := by
  rw [List.filter_append]
  have h1 : rem.filter (fun f => !rem.contains f) = [] := by
    rw [List.filter_eq_nil_iff]; intro a ha; simp [ha]
  have h2 : kept.filter (fun f => !rem.contains f) = kept := by
    rw [List.filter_eq_self]; intro a ha
    simp only [Bool.not_eq_eq_eq_not, Bool.not_true, List.contains_eq_mem, decide_eq_false_iff_not]
    intro hr; exact hdis a hr a ha rfl
  rw [h1, h2]; rfl

end Frappy.Rotate
