import FrappyModel.Base.Num
/-
The `Rat` carrier satisfies every law of `LawfulFloatOps`: the laws are consistent, and every
theorem proved for lawful carriers has at least this instance (non-vacuity).
-/
namespace Frappy
open FloatOps

instance : LawfulFloatOps Rat where
  same_iff x y := by simp [FloatOps.same]
  le_notNaN x y _ := by simp [FloatOps.isNaN]
  le_refl x _ := by simp [FloatOps.le]
  le_total x y _ _ := by
    simp only [FloatOps.le, decide_eq_true_eq]; exact Rat.le_total
  le_trans x y z h1 h2 := by
    simp only [FloatOps.le, decide_eq_true_eq] at *; exact Rat.le_trans h1 h2
  lt_iff x y _ _ := by
    simp only [FloatOps.lt, FloatOps.le, decide_eq_true_eq, decide_eq_false_iff_not]
    exact Rat.not_le.symm
  maxFinite_notNaN := rfl
  neg_maxFinite_notNaN := rfl
  neg_max_le_max := by decide +kernel
  round_addZero x := rfl
  feq_addZero x y := rfl
  addZero_idem x := rfl
  addZero_ofInt i y _ := rfl
  addZero_maxFinite := rfl
  addZero_neg_maxFinite := rfl
  addZero_ofGrid k y s _ _ := rfl
  abs_nonneg x _ := by
    simp only [FloatOps.isNonneg, FloatOps.ofInt, FloatOps.le, FloatOps.abs, decide_eq_true_eq]
    have : ((0 : Int) : Rat) = 0 := rfl
    rw [this]
    split
    · assumption
    · grind
  mul_notNaN x y _ _ _ := rfl
  sub_le a x p _ hax hp := by
    simp only [FloatOps.isNonneg, FloatOps.ofInt, FloatOps.le, FloatOps.sub, decide_eq_true_eq] at *
    have : ((0 : Int) : Rat) = 0 := rfl
    rw [this] at hp
    grind
  le_add x b p _ hxb hp := by
    simp only [FloatOps.isNonneg, FloatOps.ofInt, FloatOps.le, FloatOps.add, decide_eq_true_eq] at *
    have : ((0 : Int) : Rat) = 0 := rfl
    rw [this] at hp
    grind
  ofInt_isSome i _ _ := ⟨(i : Rat), rfl⟩
  ofInt_mono i j x y hij hx hy := by
    simp only [FloatOps.ofInt, Option.some.injEq] at hx hy
    subst hx; subst hy
    simp only [FloatOps.le, decide_eq_true_eq]
    exact Rat.intCast_le_intCast.2 hij
  round_ofInt x k _ := ⟨(k : Rat), rfl⟩
  round_mono x y i j hxy hi hj := by
    simp only [FloatOps.round, Option.some.injEq] at hi hj
    subst hi; subst hj
    simp only [FloatOps.le, decide_eq_true_eq] at hxy
    exact Rat.floor_monotone (Rat.add_le_add_right.2 hxy)
  trunc_of_integral x y k hr hy hf := by
    simp only [FloatOps.ofInt, Option.some.injEq] at hy
    simp only [FloatOps.feq, decide_eq_true_eq] at hf
    subst hy; subst hf
    simp only [FloatOps.trunc, Option.some.injEq, RatCarrier.trunc]
    split
    · exact Rat.floor_intCast k
    · have : (-(k : Rat)) = ((-k : Int) : Rat) := by simp
      rw [this, Rat.floor_intCast]; omega
  div_mono x y s hxy _ hs := by
    obtain ⟨z, hz, hlt⟩ := hs
    simp only [FloatOps.ofInt, Option.some.injEq] at hz
    subst hz
    simp only [FloatOps.lt, FloatOps.le, FloatOps.div, decide_eq_true_eq] at *
    rw [Rat.div_def, Rat.div_def]
    have hs' : (0 : Rat) < s := by simpa using hlt
    exact Rat.mul_le_mul_of_nonneg_right hxy (Rat.le_of_lt (Rat.inv_pos.2 hs'))
  mul_mono x y s hxy _ hs := by
    obtain ⟨z, hz, hlt⟩ := hs
    simp only [FloatOps.ofInt, Option.some.injEq] at hz
    subst hz
    simp only [FloatOps.lt, FloatOps.le, FloatOps.mul, decide_eq_true_eq] at *
    have hs' : (0 : Rat) < s := by simpa using hlt
    exact Rat.mul_le_mul_of_nonneg_right hxy (Rat.le_of_lt hs')

end Frappy
