import FrappyProofs.Lemmas.ActivateCache
/-
What the updater slot of a connection announces is what the connection's open `read` / `change` request says.
-/
namespace Frappy.Activate
open Frappy.Spec.C08

/-- whatever the slot of connection `c` still has to announce was handed over by the `read` / `change` the connection's
thread is in the middle of -/
def CallInv (σ : State) : Prop :=
  ∀ c x, x ∈ σ.uscript (own c) → ∃ w m p e n, σ.hpc c = .relAcc w m p e n ∧ x ∈ rwAssign (.rw w m p e)

theorem callInv_init (hs us cache) (h : ∀ c, us (own c) = []) : CallInv (init hs us cache) := by
  intro c x hx; simp [init, h c] at hx

theorem mem_rwAssign {w : Bool} {m m' : Mod} {p p' : Par} {e e' : Entry} (h : (m', p', e') ∈ rwAssign (.rw w m p e)) :
    m' = m ∧ p' = p ∧ e' = e := by
  cases w <;> cases e <;> simp [rwAssign] at h <;> simp [h]

theorem uscript_stepH (cfg : Cfg) (σ σ' : State) (c : Conn) (hs : stepH cfg σ c = some σ')
    (hnw : ∀ w m p e n, σ.hpc c ≠ .wantAcc w m p e n) : σ'.uscript = σ.uscript := by
  unfold stepH at hs
  step_cases hs
  all_goals first
    | rfl
    | (simp; done)
    | (rename_i w m p e n heq _ _; exact absurd heq (hnw w m p e n))

theorem callInv_stepH (cfg : Cfg) (σ σ' : State) (c0 : Conn) (hL : LockInv σ) (hI : CallInv σ)
    (hs : stepH cfg σ c0 = some σ') : CallInv σ' := by
  obtain ⟨f1, _, f3, -⟩ := stepH_frame cfg σ σ' c0 (hL.noStartDisc c0) hs
  intro c x hx
  by_cases hc : c = c0
  · subst hc
    clear f1 f3
    have h0 := hI c x
    unfold stepH at hs
    cases hpc : σ.hpc c with
    | wantAcc w m p e n =>
      simp only [hpc] at hs
      split at hs
      · split at hs
        · simp only [Option.some.injEq] at hs; subst hs
          simp only [set_same] at hx ⊢
          exact ⟨w, m, p, e, _, rfl, hx⟩
        · cases hs
      · simp only [Option.some.injEq] at hs; subst hs
        obtain ⟨_, _, _, _, _, h1, _⟩ := h0 hx
        rw [hpc] at h1; cases h1
    | relAcc w m p e n =>
      simp only [hpc] at hs
      split at hs
      · rename_i hidle
        simp only [Option.some.injEq] at hs; subst hs
        simp only [slotIdle, Bool.and_eq_true, List.isEmpty_iff] at hidle
        simp only [hidle.2] at hx; cases hx
      · cases hs
    | _ =>
      -- outside a call the slot has nothing to announce, and no other action of the thread touches its script
      rw [uscript_stepH cfg σ σ' c hs (by intro w m p e n; rw [hpc]; simp)] at hx
      obtain ⟨_, _, _, _, _, h1, _⟩ := h0 hx
      rw [hpc] at h1; cases h1
  · rw [f3 (own c) (fun h => hc (own_inj h))] at hx
    rw [f1, set_other _ _ _ _ hc]
    exact hI c x hx

theorem uscript_stepU (cfg : Cfg) (σ σ' : State) (k : Nat) (arg : Conn) (hs : stepU cfg σ k arg = some σ') :
    ∀ k' x, x ∈ σ'.uscript k' → x ∈ σ.uscript k' := by
  intro k' x hx
  unfold stepU at hs
  step_cases hs
  all_goals first
    | exact hx
    | (rename_i hsc _ _
       by_cases hk : k' = k
       · subst hk; simp only [set_same] at hx; rw [hsc]; exact List.mem_cons_of_mem _ hx
       · simp only [set_other _ _ _ _ hk] at hx; exact hx)
    | (rename_i hsc _
       by_cases hk : k' = k
       · subst hk; simp only [set_same] at hx; rw [hsc]; exact List.mem_cons_of_mem _ hx
       · simp only [set_other _ _ _ _ hk] at hx; exact hx)

theorem callInv_stepU (cfg : Cfg) (σ σ' : State) (k : Nat) (arg : Conn) (hI : CallInv σ)
    (hs : stepU cfg σ k arg = some σ') : CallInv σ' := by
  obtain ⟨_, f2, _⟩ := stepU_frame cfg σ σ' k arg hs
  intro c x hx
  rw [f2]
  exact hI c x (uscript_stepU cfg σ σ' k arg hs (own c) x hx)

theorem callInv_reach (cfg : Cfg) (hs us cache) (hown : ∀ c, us (own c) = []) (σ : State)
    (h : Reach cfg (init hs us cache) σ) : CallInv σ := by
  induction h with
  | init => exact callInv_init hs us cache hown
  | step a hprev hstep ih =>
    have hL := lockInv_reach cfg hs us cache _ hprev
    unfold step at hstep
    split at hstep
    · exact callInv_stepH cfg _ _ _ hL ih hstep
    · exact callInv_stepU cfg _ _ _ _ ih (stepUG_some hstep)

/-! ## on the trace -/

/-- every store made by the slot of connection `c` lies inside a `read` / `change` request of `c` for that very parameter, and
the stored entry is the one the request's driver call produced -/
def OwnStores (tr : List Obs) : Prop :=
  ∀ (i : Nat) (c : Conn) (m : Mod) (p : Par) (e : Entry), tr[i]? = some (.emit (own c) m p e) →
    ∃ w, matchMon.after matchMon.init (tr.take i) c = some (.rw w m p e)

theorem ownStores_same (tr : List Obs) (h : OwnStores tr) : OwnStores tr := h

theorem ownStores_snoc (tr : List Obs) (o : Obs) (h : OwnStores tr)
    (ho : ∀ c m p e, o = .emit (own c) m p e → ∃ w, matchMon.after matchMon.init tr c = some (.rw w m p e)) :
    OwnStores (tr ++ [o]) := by
  intro i c m p e hi
  by_cases hlt : i < tr.length
  · rw [List.getElem?_append_left hlt] at hi
    rw [List.take_append_of_le_length (Nat.le_of_lt hlt)]
    exact h i c m p e hi
  · have hge : tr.length ≤ i := Nat.le_of_not_lt hlt
    by_cases heq : i = tr.length
    · subst heq
      simp only [List.getElem?_append_right (Nat.le_refl _), Nat.sub_self, List.getElem?_cons_zero, Option.some.injEq] at hi
      have : List.take tr.length (tr ++ [o]) = tr := by simp
      rw [this]
      exact ho c m p e hi
    · rw [List.getElem?_eq_none (by simp; omega)] at hi; cases hi

/-- which event an action appends -/
theorem trace_stepH (cfg : Cfg) (σ σ' : State) (c : Conn) (hs : stepH cfg σ c = some σ') :
    σ'.trace = σ.trace ∨ ∃ o, σ'.trace = σ.trace ++ [o] ∧ ∀ u m p e, o ≠ .emit u m p e := by
  unfold stepH at hs
  step_cases hs
  all_goals first
    | (left; rfl)
    | (left; simp; done)
    | (right; exact ⟨_, rfl, by intro u m p e h; cases h⟩)
    | (dsimp only; split
       · right; exact ⟨_, rfl, by intro u m p e h; cases h⟩
       · left; rfl)

theorem trace_stepU (cfg : Cfg) (σ σ' : State) (k : Nat) (arg : Conn) (hs : stepU cfg σ k arg = some σ') :
    σ'.trace = σ.trace ∨ (∃ o, σ'.trace = σ.trace ++ [o] ∧ ∀ u m p e, o ≠ .emit u m p e) ∨
    ∃ m p e rest, σ'.trace = σ.trace ++ [.emit k m p e] ∧ σ.uscript k = (m, p, e) :: rest := by
  unfold stepU at hs
  step_cases hs
  all_goals first
    | (left; rfl)
    | (right; right; rename_i m p e rest hsc _ _; exact ⟨m, p, e, rest, rfl, hsc⟩)
    | (right; left; exact ⟨_, rfl, by intro u m p e h; cases h⟩)
    | (dsimp only; split
       · right; left; exact ⟨_, rfl, by intro u m p e h; cases h⟩
       · left; rfl)

theorem ownStores_reach (cfg : Cfg) (hs us cache) (hown : ∀ c, us (own c) = []) (σ : State)
    (h : Reach cfg (init hs us cache) σ) : OwnStores σ.trace := by
  induction h with
  | init => intro i c m p e hi; simp [init] at hi
  | step a hprev hstep ih =>
    rename_i σ1 σ2
    have hC := callInv_reach cfg hs us cache hown _ hprev
    have hM := matchInv_reach cfg hs us cache _ hprev
    unfold step at hstep
    split at hstep
    · rename_i c0 _
      rcases trace_stepH cfg _ _ c0 hstep with h1 | ⟨o, h1, h2⟩
      · rw [h1]; exact ih
      · rw [h1]; exact ownStores_snoc _ o ih (fun c m p e ho => absurd ho (h2 _ m p e))
    · rename_i k _
      rcases trace_stepU cfg _ _ k a.arg (stepUG_some hstep) with h1 | ⟨o, h1, h2⟩ | ⟨m, p, e, rest, h1, h2⟩
      · rw [h1]; exact ih
      · rw [h1]; exact ownStores_snoc _ o ih (fun c m p e ho => absurd ho (h2 _ m p e))
      · rw [h1]
        refine ownStores_snoc _ _ ih ?_
        intro c m' p' e' ho
        simp only [Obs.emit.injEq] at ho
        obtain ⟨hk, hm, hp, he⟩ := ho
        subst hk hm hp he
        obtain ⟨w, m0, p0, e0, n, hpc, hmem⟩ := hC c (m, p, e) (by rw [h2]; exact List.mem_cons_self)
        obtain ⟨e1, e2, e3⟩ := mem_rwAssign hmem
        subst e1 e2 e3
        exact ⟨w, by rw [show matchMon.after matchMon.init σ1.trace c = matchAfter σ1.trace c from rfl, hM.cur c, hpc]; rfl⟩

end Frappy.Activate
