import FrappyProofs.Lemmas.CommBook
/- helper lemmas for C16: how long the read loop keeps waiting -/
open Frappy.Spec.C16
namespace Frappy.Comm

/-- what an accepted event does to the timing fields of a caller in the read loop -/
theorem step_read_time (s s' : State) (t c : Nat) (e : Ev) (h : stepCaller s t c e = some s')
    (hp : (s.callers c).pc = .read) :
    ((s'.callers c).pc = .read ∧ (s'.callers c).endT = (s.callers c).endT ∧
      (((∃ x, e = .recv x .empty) ∧ t ≤ (s.callers c).lastT + s.cfg.gran + s.cfg.slack ∧
          mayRetry (s.callers c) s.cfg.slack = true ∧ (s'.callers c).lastT = t ∧ (s'.callers c).emptyAt = some t) ∨
       ((∃ x d, e = .recv x (.data d)) ∧ (s'.callers c).lastT = t ∧ (s'.callers c).emptyAt = none))) ∨
    (s'.callers c).pc ≠ .read := by
  cases e <;> simp only [stepCaller, hp] at h <;> try (simp at h)
  all_goals (try (simp only [connGone] at h))
  all_goals (repeat' (split at h))
  all_goals (try (simp at h; done))
  all_goals (try (simp only [Option.some.injEq] at h))
  all_goals (try (obtain ⟨hg, h⟩ := h))
  all_goals (try subst h)
  all_goals (first
    | (right; simp only [setC_same]; first | (simp; done) | exact (failTo_pc _).1)
    | (left; refine ⟨by simp, by simp, Or.inl ⟨⟨_, rfl⟩, ?_, ?_, by simp, by simp⟩⟩ <;> simp_all; done)
    | (left; refine ⟨by simp, by simp, Or.inr ⟨⟨_, _, rfl⟩, by simp, by simp⟩⟩; done)
    | skip)

theorem step_send_time (s s' : State) (t c x conn n : Nat) (d : Bytes) (h : stepCaller s t c (.send x conn n d) = some s')
    (hp : (s'.callers c).pc = .read) :
    (s'.callers c).endT = t + s.cfg.timeout ∧ (s'.callers c).lastT = t ∧ (s'.callers c).emptyAt = none := by
  cases hpc : (s.callers c).pc <;> simp only [stepCaller, hpc] at h <;> try (simp at h)
  obtain ⟨_, h⟩ := h
  split at h
  · split at h
    · simp only [Option.some.injEq] at h; subst h; simp at hp
    · simp only [Option.some.injEq] at h; subst h; simp
  · simp only [Option.some.injEq] at h; subst h; simp at hp

theorem step_recv_empty_pc (s s' : State) (t c x : Nat) (h : stepCaller s t c (.recv x .empty) = some s')
    (hf : identFree (s.callers c)) (hx : (s.callers c).pc ≠ .readX) :
    (s.callers c).pc = .read := by
  cases hpc : (s.callers c).pc <;> simp only [stepCaller, hpc] at h <;>
    first | rfl | (simp at h; done) | (exfalso; exact hx hpc) | (exfalso; simp [identFree, identPc, hpc] at hf)

/-! ### `lastDataTime` under extension of the log -/

theorem foldl_congr' {α β : Type} {f g : β → α → β} : ∀ {l : List α} {b : β}, (∀ a ∈ l, ∀ b, f b a = g b a) →
    l.foldl f b = l.foldl g b
  | [], _, _ => rfl
  | a :: l, b, h => by
    simp only [List.foldl_cons]
    rw [h a (by simp) b]
    exact foldl_congr' (fun x hx => h x (by simp [hx]))

theorem dataStep_append_lt (log : Log) (e : TEv) (c acc m : Nat) (h : m < log.length) :
    dataStep (log ++ [e]) c acc m = dataStep log c acc m := by
  unfold dataStep
  rw [evAt_append_lt log e m h, timeAt_append_lt log e m h]

theorem lastDataTime_snoc (log : Log) (e : TEv) (c p : Nat) (h : p < log.length) :
    lastDataTime (log ++ [e]) c p (log.length + 1) = dataStep (log ++ [e]) c (lastDataTime log c p log.length) log.length := by
  unfold lastDataTime
  rw [range_succ_filter _ _ h, List.foldl_append]
  simp only [List.foldl_cons, List.foldl_nil]
  congr 1
  apply foldl_congr'
  intro m hm b
  simp only [List.mem_filter, List.mem_range] at hm
  exact dataStep_append_lt log e c b m hm.1

theorem lastDataTime_take (log : Log) (c p u : Nat) : lastDataTime (log.take u) c p u = lastDataTime log c p u := by
  unfold lastDataTime
  apply foldl_congr'
  intro m hm b
  simp only [List.mem_filter, List.mem_range] at hm
  unfold dataStep
  rw [evAt_take log u m hm.1, timeAt_take log u m hm.1]

theorem lastSend_restrict {log : Log} {e : TEv} {p c conn n : Nat} (h : LastSend (log ++ [e]) p c conn n)
    (hns : sendAt (log ++ [e]) log.length = none) : p < log.length ∧ LastSend log p c conn n := by
  have hpl := lastSend_lt h
  simp only [List.length_append, List.length_singleton] at hpl
  obtain ⟨⟨d, hd⟩, hno⟩ := h
  have hlt : p < log.length := by
    rcases Nat.lt_or_ge p log.length with h1 | h1
    · exact h1
    · have : p = log.length := by omega
      subst this
      simp [sendAt, hd] at hns
  refine ⟨hlt, ⟨d, by rwa [evAt_append_lt log e p hlt] at hd⟩, fun m h1 h2 => ?_⟩
  have := hno m h1 (by simp; omega)
  rwa [sendAt_append_lt log e m h2] at this

theorem lastSend_at_new {log : Log} {e : TEv} {p c conn n x : Nat} (h : LastSend (log ++ [e]) p c conn n)
    (hs : sendAt (log ++ [e]) log.length = some x) : p = log.length := by
  have hpl := lastSend_lt h
  simp only [List.length_append, List.length_singleton] at hpl
  rcases Nat.lt_or_ge p log.length with h1 | h1
  · have := h.2 log.length h1 (by simp)
    rw [hs] at this; simp at this
  · omega

/-- the bound on the time of the last loop event -/
def waitBound (cfg : Cfg) (log : Log) (c p : Nat) (k : Caller) : Nat :=
  max (k.endT + cfg.slack) (lastDataTime log c p log.length)

structure EInv (cfg : Cfg) (log : Log) (s : State) : Prop where
  e : ∀ c, (s.callers c).pc = .read → ∀ p conn n, LastSend log p c conn n →
      (s.callers c).endT = timeAt log p + cfg.timeout ∧
      (s.callers c).lastT ≤ waitBound cfg log c p (s.callers c) +
        (if (s.callers c).emptyAt.isSome then cfg.gran + cfg.slack else 0) ∧
      (∀ te, (s.callers c).emptyAt = some te → te = (s.callers c).lastT)


theorem dataStep_not_data {log : Log} {c acc m : Nat} (h : ∀ d, evAt log m ≠ some (.recv c (.data d))) :
    dataStep log c acc m = acc := by
  unfold dataStep
  cases hev : evAt log m with
  | none => rfl
  | some ev =>
    cases ev <;> try rfl
    rename_i c' out
    cases out <;> try rfl
    rename_i d
    by_cases hc : c' = c
    · subst hc; exact absurd hev (h d)
    · simp [hc]

theorem mayRetry_lastT {cfg : Cfg} {log : Log} {c p : Nat} {k : Caller} (hm : mayRetry k cfg.slack = true)
    (hb : k.lastT ≤ waitBound cfg log c p k + (if k.emptyAt.isSome then cfg.gran + cfg.slack else 0))
    (he : ∀ te, k.emptyAt = some te → te = k.lastT) : k.lastT ≤ waitBound cfg log c p k := by
  unfold mayRetry at hm
  cases hea : k.emptyAt with
  | none => simpa [hea] using hb
  | some te =>
    simp only [hea, decide_eq_true_eq] at hm
    have := he te hea
    unfold waitBound
    omega

theorem einv_step {cfg : Cfg} {log : Log} {s s' : State} (e : TEv) (hcfg : s.cfg = cfg) (he : EInv cfg log s)
    (h : step s e = some s') : EInv cfg (log ++ [e]) s' := by
  have hlen : (log ++ [e]).length = log.length + 1 := by simp
  refine ⟨fun c hp p conn n hls => ?_⟩
  -- the caller record of c is unchanged and the new event is neither a send of c nor a data recv of c
  have keep : s'.callers c = s.callers c → (∀ x a b d, e.ev = .send x a b d → x ≠ c) →
      (∀ d, e.ev ≠ .recv c (.data d)) →
      (s'.callers c).endT = timeAt (log ++ [e]) p + cfg.timeout ∧
      (s'.callers c).lastT ≤ waitBound cfg (log ++ [e]) c p (s'.callers c) +
        (if (s'.callers c).emptyAt.isSome then cfg.gran + cfg.slack else 0) ∧
      (∀ te, (s'.callers c).emptyAt = some te → te = (s'.callers c).lastT) := by
    intro hsame hnsend hndata
    rw [hsame] at hp ⊢
    have hns : sendAt (log ++ [e]) log.length = none := by
      cases hsa : sendAt (log ++ [e]) log.length with
      | none => rfl
      | some x =>
        exfalso
        have hpl := lastSend_at_new hls hsa
        subst hpl
        obtain ⟨⟨d, hd⟩, _⟩ := hls
        rw [evAt_append_eq] at hd
        simp only [Option.some.injEq] at hd
        exact hnsend c conn n d hd rfl
    obtain ⟨hpl, hold⟩ := lastSend_restrict hls hns
    obtain ⟨h1, h2, h3⟩ := he.e c hp p conn n hold
    refine ⟨by rw [timeAt_append_lt log e p hpl]; exact h1, ?_, h3⟩
    unfold waitBound at h2 ⊢
    rw [hlen, lastDataTime_snoc log e c p hpl,
      dataStep_not_data (by intro d; rw [evAt_append_eq]; intro hx; simp only [Option.some.injEq] at hx; exact hndata d hx)]
    exact h2
  cases hwho : e.ev.who with
  | none =>
    have hcal := (step_env_callers hwho h).1
    refine keep (by rw [hcal]) ?_ ?_
    · intro x a b d hx; rw [hx] at hwho; simp [Ev.who] at hwho
    · intro d hx; rw [hx] at hwho; simp [Ev.who] at hwho
  | some c0 =>
    rw [step_caller_form s e c0 hwho] at h
    split at h
    · simp at h
    · by_cases hcc : c = c0
      · subst hcc
        rcases step_enter_read _ s' e.t c e.ev h hp with hrd | ⟨x, conn', n', d', hsend⟩
        · -- already in the loop
          rcases step_read_time _ s' e.t c e.ev h hrd with ⟨_, hend, hcase⟩ | hne
          · have hnsend : sendAt (log ++ [e]) log.length = none := by
              rcases hcase with ⟨⟨x, hx⟩, _⟩ | ⟨⟨x, d, hx⟩, _⟩ <;> simp [sendAt, evAt_append_eq, hx]
            obtain ⟨hpl, hold⟩ := lastSend_restrict hls hnsend
            obtain ⟨h1, h2, h3⟩ := he.e c hrd p conn n hold
            rcases hcase with ⟨⟨x, hx⟩, hg, hm, hlt, hem⟩ | ⟨⟨x, d, hx⟩, hlt, hem⟩
            · -- an empty recv
              simp only at hg hm
              rw [hcfg] at hg hm
              have hb := mayRetry_lastT hm h2 h3
              refine ⟨by rw [hend, timeAt_append_lt log e p hpl]; exact h1, ?_, ?_⟩
              · rw [hlt, hem]
                unfold waitBound at hb ⊢
                rw [hend, hlen, lastDataTime_snoc log e c p hpl,
                  dataStep_not_data (by intro d; rw [evAt_append_eq, hx]; simp)]
                simp only [Option.isSome_some, if_true]
                omega
              · intro te hte; rw [hem] at hte; simp only [Option.some.injEq] at hte; rw [hlt]; exact hte.symm
            · -- a data recv
              have hx' : x = c := by rw [hx] at hwho; simpa [Ev.who] using hwho
              subst hx'
              refine ⟨by rw [hend, timeAt_append_lt log e p hpl]; exact h1, ?_, ?_⟩
              · rw [hlt, hem]
                unfold waitBound
                rw [hlen, lastDataTime_snoc log e x p hpl]
                unfold dataStep
                rw [evAt_append_eq, hx, timeAt_append_eq]
                simp only [if_true, Option.isSome_none, Bool.false_eq_true, if_false, Nat.add_zero]
                omega
              · intro te hte; rw [hem] at hte; simp at hte
          · exact absurd hp hne
        · -- the send that starts the loop
          have hx : x = c := by rw [hsend] at hwho; simpa [Ev.who] using hwho
          subst hx
          have hsa : sendAt (log ++ [e]) log.length = some x := by simp [sendAt, evAt_append_eq, hsend]
          have hpl := lastSend_at_new hls hsa
          subst hpl
          rw [hsend] at h
          obtain ⟨h1, h2, h3⟩ := step_send_time _ s' e.t x x conn' n' d' h hp
          simp only at h1
          rw [hcfg] at h1
          refine ⟨by rw [h1, timeAt_append_eq], ?_, ?_⟩
          · rw [h2, h3]; unfold waitBound; simp only [Option.isSome_none, Bool.false_eq_true, if_false, Nat.add_zero]
            rw [h1]; omega
          · intro te hte; rw [h3] at hte; simp at hte
      · refine keep (step_others _ s' e.t c0 e.ev h c hcc) ?_ ?_
        · intro x a b d hx hxc; rw [hx] at hwho; simp only [Ev.who, Option.some.injEq] at hwho; omega
        · intro d hx; rw [hx] at hwho; simp only [Ev.who, Option.some.injEq] at hwho; exact hcc hwho

theorem einv_exec_gen {cfg : Cfg} : ∀ (evs pre : List TEv) (s0 s : State), Inv pre s0 →
    TInv cfg pre s0 → EInv cfg pre s0 → exec s0 evs = some s → EInv cfg (pre ++ evs) s
  | [], pre, s0, s, _, _, hv, h => by simp [exec] at h; subst h; simpa using hv
  | e :: es, pre, s0, s, hi, ht, hv, h => by
    simp only [exec] at h
    cases hst : step s0 e with
    | none => simp [hst] at h
    | some s1 =>
      simp only [hst] at h
      have := einv_exec_gen es (pre ++ [e]) s1 s (inv_step e hi hst) (tinv_step e ht hst)
        (einv_step e ht.cfg_eq hv hst) h
      simpa using this

theorem einv_exec (cfg : Cfg) (cbs : List Nat) (evs : List TEv) (s : State)
    (h : exec { cfg := cfg, cbsReg := cbs } evs = some s) : EInv cfg evs s := by
  have h0 : EInv cfg [] { cfg := cfg, cbsReg := cbs } := ⟨fun c hp => by simp at hp⟩
  simpa using einv_exec_gen evs [] _ s (inv_init cfg cbs) (tinv_init cfg cbs) h0 h

end Frappy.Comm
