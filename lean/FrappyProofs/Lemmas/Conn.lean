import FrappyModel.Spec.C11
/-
C11 — helper lemmas: every trace of the connection model satisfies the connection contract.
-/
namespace Frappy.Client.Conn
open Frappy.Spec.C11

/-- how the situation read off a trace prefix (`View`) relates to the state of the model -/
structure Rel (s : St) (v : View) : Prop where
  sent : v.sent = s.sent
  gone : v.gone = s.gone
  shut : s.shut = (v.shut || v.gone)
  peer : v.peerEnded = (s.peer != .up)
  eof : v.sawClosed = s.eof
  read : s.eof = false → s.read = v.got
  ended : s.eof = true → ended s = true
  le : s.read ≤ s.sent

theorem rel_init : Rel {} {} := by
  constructor <;> simp

/-- an allowed call is `CallOk` -/
theorem callOk_of_allowed {s : St} {v : View} (h : Rel s v) {o : Op} {r : Out}
    (ha : (allowed s o).contains r = true) : CallOk v o r := by
  obtain ⟨h1, h2, h3, h4, h5, h6, h7, h8⟩ := h
  cases o with
  | shutdown => simpa [allowed, CallOk] using ha
  | disconnect => simpa [allowed, CallOk] using ha
  | send =>
    unfold CallOk
    by_cases hg : s.gone = true
    · exact Or.inl (by rw [h2]; exact hg)
    · by_cases hs : s.shut = true
      · refine Or.inr (Or.inr ?_)
        simp only [allowed, hg, hs, if_true, Bool.false_eq_true, if_false] at ha
        intro hr; subst hr; simp at ha
      · refine Or.inr (Or.inl ?_)
        cases hv : v.shut
        · rfl
        · rw [h3, hv] at hs; simp at hs
  | readline =>
    unfold CallOk
    by_cases hg : s.gone = true
    · exact Or.inl (by rw [h2]; exact hg)
    · refine Or.inr ?_
      have hg' : s.gone = false := by simpa using hg
      have hvg : v.gone = false := by rw [h2]; exact hg'
      have hshut : s.shut = v.shut := by rw [h3, hvg]; simp
      have hend : ended s = (v.shut || v.peerEnded) := by simp [ended, hshut, h4]
      simp only [allowed, hg', Bool.false_eq_true, if_false] at ha
      by_cases he : s.eof = true
      · simp only [he, if_true, List.contains_cons, List.contains_nil, Bool.or_false, beq_iff_eq] at ha
        subst ha
        have := h7 he
        rw [hend] at this
        simpa using this
      · have he' : s.eof = false := by simpa using he
        have hgot := h6 he'
        simp only [he', Bool.false_eq_true, if_false] at ha
        split at ha
        · next hlt =>
          split at ha
          · next hr =>
            simp only [List.contains_cons, List.contains_nil, Bool.or_false, Bool.or_eq_true, beq_iff_eq] at ha
            rcases ha with ha | ha
            · subst ha
              exact ⟨hgot, by rw [← hgot, h1]; exact hlt, by rw [h5]; exact he'⟩
            · subst ha
              exact Or.inr (by rw [h4, hr]; rfl)
          · simp only [List.contains_cons, List.contains_nil, Bool.or_false, beq_iff_eq] at ha
            subst ha
            exact ⟨hgot, by rw [← hgot, h1]; exact hlt, by rw [h5]; exact he'⟩
        · split at ha
          · next hen =>
            simp only [List.contains_cons, List.contains_nil, Bool.or_false, beq_iff_eq] at ha
            subst ha
            rw [hend] at hen
            simpa using hen
          · next hen =>
            simp only [List.contains_cons, List.contains_nil, Bool.or_false, beq_iff_eq] at ha
            subst ha
            rw [hend] at hen
            simp only [View.dead]
            simp only [Bool.not_eq_true] at hen
            refine ⟨by simp [hen], ?_⟩
            rw [h1, ← hgot]
            omega

/-- one step of the model keeps the relation -/
theorem rel_step {s s' : St} {v : View} (h : Rel s v) {e : Ev} (hs : step s e = some s') : Rel s' (v.see e) := by
  obtain ⟨h1, h2, h3, h4, h5, h6, h7, h8⟩ := h
  cases e with
  | peerSend =>
    simp only [step] at hs
    split at hs
    · cases hs
      refine ⟨?_, h2, h3, h4, h5, h6, ?_, Nat.le_succ_of_le h8⟩
      · simp [View.see, h1]
      · intro he; have := h7 he; simpa [ended] using this
    · cases hs
  | peerPart =>
    simp only [step] at hs
    split at hs
    · cases hs
      exact ⟨h1, h2, h3, h4, h5, h6, fun he => by have := h7 he; simpa [ended] using this, h8⟩
    · cases hs
  | peerFin =>
    simp only [step] at hs
    split at hs
    · cases hs
      exact ⟨h1, h2, h3, by simp [View.see], h5, h6, fun _ => by simp [ended], h8⟩
    · cases hs
  | peerRst =>
    simp only [step] at hs
    split at hs
    · cases hs
      exact ⟨h1, h2, h3, by simp [View.see], h5, h6, fun _ => by simp [ended], h8⟩
    · cases hs
  | call o r =>
    simp only [step] at hs
    split at hs
    · next ha =>
      cases hs
      cases o with
      | shutdown =>
        simp only [apply, View.see]
        split
        · next hg =>
          refine ⟨h1, h2, ?_, h4, h5, h6, h7, h8⟩
          have : v.gone = true := by rw [h2]; exact hg
          rw [h3, this]; simp
        · next hg =>
          refine ⟨h1, h2, by simp, h4, h5, h6, fun _ => by simp [ended], h8⟩
      | disconnect =>
        simp only [apply, View.see]
        exact ⟨h1, rfl, by simp, h4, h5, h6, fun _ => by simp [ended], h8⟩
      | send =>
        have hv : v.see (.call .send r) = v := by cases r <;> rfl
        rw [hv]
        simp only [apply]
        split
        · exact ⟨h1, h2, h3, h4, h5, h6, fun he => by have := h7 he; simpa [ended] using this, h8⟩
        · exact ⟨h1, h2, h3, h4, h5, h6, h7, h8⟩
      | readline =>
        cases r with
        | line n =>
          simp only [apply, View.see]
          have hlt : s.read < s.sent := by
            -- a line is handed out only when an unread complete line exists
            by_cases hg : s.gone = true
            · simp only [allowed, hg, if_true] at ha
              split at ha
              · next hc => simp only [Bool.and_eq_true, decide_eq_true_eq] at hc; exact hc.1
              · simp at ha
            · have hg' : s.gone = false := by simpa using hg
              simp only [allowed, hg', Bool.false_eq_true, if_false] at ha
              by_cases he : s.eof = true
              · simp [he] at ha
              · have he' : s.eof = false := by simpa using he
                simp only [he', Bool.false_eq_true, if_false] at ha
                split at ha
                · next hlt => exact hlt
                · split at ha <;> simp at ha
          refine ⟨h1, h2, h3, h4, h5, ?_, fun he => by have := h7 he; simpa [ended] using this, by simp only; omega⟩
          intro he
          have := h6 he
          simp [this]
        | closed =>
          simp only [apply, View.see]
          refine ⟨h1, h2, h3, h4, by simp, by simp, ?_, h8⟩
          intro _
          -- `ConnectionClosed` is allowed only on an ended connection
          by_cases hg : s.gone = true
          · have : s.shut = true := by
              rw [h3]; have : v.gone = true := by rw [h2]; exact hg
              simp [this]
            simp [ended, this]
          · have hg' : s.gone = false := by simpa using hg
            simp only [allowed, hg', Bool.false_eq_true, if_false] at ha
            by_cases he : s.eof = true
            · have := h7 he; simpa [ended] using this
            · have he' : s.eof = false := by simpa using he
              simp only [he', Bool.false_eq_true, if_false] at ha
              split at ha
              · split at ha
                · next hr => simp [ended, hr]
                · simp at ha
              · split at ha
                · next hen => simpa [ended] using hen
                · simp at ha
        | nothing => exact ⟨h1, h2, h3, h4, h5, h6, h7, h8⟩
        | ok => exact ⟨h1, h2, h3, h4, h5, h6, h7, h8⟩
        | connErr => exact ⟨h1, h2, h3, h4, h5, h6, h7, h8⟩
        | otherErr c => exact ⟨h1, h2, h3, h4, h5, h6, h7, h8⟩
    · cases hs

/-- every event sequence the model can follow satisfies the contract -/
theorem contract_of_run : ∀ (evs : List Ev) (s s' : St) (v : View) (i : Nat), Rel s v → run s evs i = .ok s' →
    ConnContractFrom v evs := by
  intro evs
  induction evs with
  | nil => intro s s' v i _ _; trivial
  | cons e es ih =>
    intro s s' v i hr h
    simp only [run] at h
    split at h
    · next s1 hs =>
      refine ⟨?_, ih s1 s' (v.see e) (i + 1) (rel_step hr hs) h⟩
      cases e with
      | call o r =>
        simp only [step] at hs
        split at hs
        · next ha => exact callOk_of_allowed hr ha
        · cases hs
      | peerSend => trivial
      | peerPart => trivial
      | peerFin => trivial
      | peerRst => trivial
    · cases h

theorem line_allowed {s : St} {n : Nat} (ha : (allowed s .readline).contains (.line n) = true) :
    n = s.read ∧ s.read < s.sent := by
  by_cases hg : s.gone = true
  · simp only [allowed, hg, if_true] at ha
    split at ha
    · next hc =>
      simp only [Bool.and_eq_true, decide_eq_true_eq] at hc
      simp only [List.contains_cons, List.contains_nil, Bool.or_false, Bool.or_eq_true, beq_iff_eq] at ha
      rcases ha with ha | ha
      · cases ha
      · cases ha; exact ⟨rfl, hc.1⟩
    · simp at ha
  · have hg' : s.gone = false := by simpa using hg
    simp only [allowed, hg', Bool.false_eq_true, if_false] at ha
    by_cases he : s.eof = true
    · simp [he] at ha
    · have he' : s.eof = false := by simpa using he
      simp only [he', Bool.false_eq_true, if_false] at ha
      split at ha
      · next hlt =>
        split at ha
        · simp only [List.contains_cons, List.contains_nil, Bool.or_false, Bool.or_eq_true, beq_iff_eq] at ha
          rcases ha with ha | ha
          · cases ha; exact ⟨rfl, hlt⟩
          · cases ha
        · simp only [List.contains_cons, List.contains_nil, Bool.or_false, beq_iff_eq] at ha
          cases ha; exact ⟨rfl, hlt⟩
      · split at ha <;> simp at ha

theorem lines_in_order_from : ∀ (evs : List Ev) (s s' : St) (i : Nat), run s evs i = .ok s' →
    s.read ≤ s'.read ∧ linesOf evs = List.range' s.read (s'.read - s.read) := by
  intro evs
  induction evs with
  | nil => intro s s' i h; simp only [run] at h; cases h; simp [linesOf]
  | cons e es ih =>
    intro s s' i h
    simp only [run] at h
    split at h
    · next s1 hs =>
      have ⟨hle, hl⟩ := ih s1 s' (i + 1) h
      have same : s1.read = s.read → (∀ n, e ≠ .call .readline (.line n)) →
          s.read ≤ s'.read ∧ linesOf (e :: es) = List.range' s.read (s'.read - s.read) := by
        intro hr hne
        rw [hr] at hle hl
        refine ⟨hle, ?_⟩
        rw [← hl]
        cases e with
        | call o r =>
          cases o <;> try rfl
          cases r <;> try rfl
          exact absurd rfl (hne _)
        | _ => rfl
      cases e with
      | peerSend => simp only [step] at hs; split at hs <;> cases hs; exact same rfl (by intro n; simp)
      | peerPart => simp only [step] at hs; split at hs <;> cases hs; exact same rfl (by intro n; simp)
      | peerFin => simp only [step] at hs; split at hs <;> cases hs; exact same rfl (by intro n; simp)
      | peerRst => simp only [step] at hs; split at hs <;> cases hs; exact same rfl (by intro n; simp)
      | call o r =>
        simp only [step] at hs
        split at hs
        · next ha =>
          cases hs
          cases o with
          | send => exact same (by simp only [apply]; split <;> rfl) (by intro n; simp)
          | shutdown => exact same (by simp only [apply]; split <;> rfl) (by intro n; simp)
          | disconnect => exact same (by simp [apply]) (by intro n; simp)
          | readline =>
            cases r with
            | line n =>
              obtain ⟨hn, _⟩ := line_allowed ha
              simp only [apply] at hle hl
              refine ⟨by omega, ?_⟩
              simp only [linesOf, hl, hn]
              have : s'.read - s.read = (s'.read - (s.read + 1)) + 1 := by omega
              rw [this, List.range'_succ]
            | closed => exact same (by simp [apply]) (by intro n; simp)
            | nothing => exact same (by simp [apply]) (by intro n; simp)
            | ok => exact same (by simp [apply]) (by intro n; simp)
            | connErr => exact same (by simp [apply]) (by intro n; simp)
            | otherErr c => exact same (by simp [apply]) (by intro n; simp)
        · cases hs
    · cases h

/-- the relation holds at the end of every run -/
theorem rel_of_run : ∀ (evs : List Ev) (s s' : St) (v : View) (i : Nat), Rel s v → run s evs i = .ok s' →
    ∃ v', Rel s' v' := by
  intro evs
  induction evs with
  | nil => intro s s' v i hr h; simp only [run] at h; cases h; exact ⟨v, hr⟩
  | cons e es ih =>
    intro s s' v i hr h
    simp only [run] at h
    split at h
    · next s1 hs => exact ih s1 s' (v.see e) (i + 1) (rel_step hr hs) h
    · cases h

end Frappy.Client.Conn
