import FrappyProofs.Lemmas.DatatypesSound
import FrappyModel.Datatypes.Compat
import FrappyModel.Spec.C03
/-
C03: soundness and completeness of `compatible` — leaf lemmas and the mutual inductions.
-/
set_option linter.unusedSectionVars false
set_option linter.unusedVariables false
namespace Frappy.Lemmas.C03
open FloatOps DType Frappy.Datatypes Frappy.Spec.C01 Frappy.Spec.C03 Frappy.Lemmas.C01
open PVal (toFloat? seqItems? prevItems prevFields dictGet dictSet)

variable {F : Type} [FloatOps F] [LawfulFloatOps F] [CompatLaws F]

/-! ### order helpers -/

theorem lt_of_lt_of_le {a b c : F} (h1 : lt a b = true) (h2 : le b c = true) : lt a c = true := by
  have ⟨na, nb⟩ := LawfulFloatOps.lt_notNaN a b h1
  have ⟨_, nc⟩ := LawfulFloatOps.le_notNaN b c h2
  rw [LawfulFloatOps.lt_iff a c na nc]
  rw [LawfulFloatOps.lt_iff a b na nb] at h1
  cases hca : le c a
  · rfl
  · have := LawfulFloatOps.le_trans b c a h2 hca
    rw [this] at h1; cases h1

theorem lt_of_le_of_lt {a b c : F} (h1 : le a b = true) (h2 : lt b c = true) : lt a c = true := by
  have ⟨na, nb⟩ := LawfulFloatOps.le_notNaN a b h1
  have ⟨_, nc⟩ := LawfulFloatOps.lt_notNaN b c h2
  rw [LawfulFloatOps.lt_iff a c na nc]
  rw [LawfulFloatOps.lt_iff b c nb nc] at h2
  cases hca : le c a
  · rfl
  · have := LawfulFloatOps.le_trans c a b hca h1
    rw [this] at h2; cases h2

/-! ### double: the accepted numbers form an interval -/

theorem doubleCall_of_finite {v : PVal F} {x : F} (hv : toFloat? v = some x) (hfin : isFinite x = true) :
    doubleCall v = .ok x := by
  unfold doubleCall
  rw [hv]
  simp only [notNaN_of_finite hfin]
  have hb := CompatLaws.finite_bounds x hfin
  rw [median3_inside hb.1 hb.2]
  rfl

theorem doubleValidate_band {bmin bmax ar rr : F} {v : PVal F} {x r : F} (hv : toFloat? v = some x)
    (hfin : isFinite x = true) (h : doubleValidate bmin bmax ar rr v = .ok r) :
    le (sub bmin (tolerance rr ar x)) x = true ∧ le x (add bmax (tolerance rr ar x)) = true := by
  unfold doubleValidate at h
  rw [doubleCall_of_finite hv hfin] at h
  simp only at h
  split at h
  · rename_i hc
    simpa using hc
  · cases h

theorem doubleValidate_of_band {bmin bmax ar rr : F} {v : PVal F} {x : F} (hv : toFloat? v = some x)
    (hfin : isFinite x = true)
    (h1 : le (sub bmin (tolerance rr ar x)) x = true) (h2 : le x (add bmax (tolerance rr ar x)) = true) :
    ∃ r, doubleValidate bmin bmax ar rr v = .ok r := by
  unfold doubleValidate
  rw [doubleCall_of_finite hv hfin]
  simp only [h1, h2]
  exact ⟨_, rfl⟩

/-- a double type that accepts two numbers accepts every number between them -/
theorem doubleValidate_between {bmin bmax ar rr : F} (hb : (DType.double bmin bmax ar rr).WF)
    (hrr : resLeOne rr = true) {vlo vhi v : PVal F} {lo hi x rlo rhi : F}
    (hvlo : toFloat? vlo = some lo) (hvhi : toFloat? vhi = some hi) (hv : toFloat? v = some x)
    (flo : isFinite lo = true) (fhi : isFinite hi = true)
    (h1 : doubleValidate bmin bmax ar rr vlo = .ok rlo) (h2 : doubleValidate bmin bmax ar rr vhi = .ok rhi)
    (hx1 : le lo x = true) (hx2 : le x hi = true) :
    ∃ r, doubleValidate bmin bmax ar rr v = .ok r := by
  simp only [DType.WF] at hb
  obtain ⟨fmin, fmax, _, _, _, _, _, far, nar, frr, nrr⟩ := hb
  have fx := CompatLaws.finite_between lo x hi flo fhi hx1 hx2
  have b1 := doubleValidate_band hvlo flo h1
  have b2 := doubleValidate_band hvhi fhi h2
  exact doubleValidate_of_band hv fx
    (CompatLaws.band_lo_mono bmin rr ar lo x fmin frr nrr hrr far nar flo fx hx1 b1.1)
    (CompatLaws.band_hi_mono bmax rr ar x hi fmax frr nrr hrr far nar fx fhi hx2 b2.2)

/-! ### scaled: the accepted numbers form an interval -/

theorem scaledCall_between {scale : F} (hs : isFinite scale = true) (hp : positive scale = true)
    {vlo vhi v : PVal F} {lo hi x rlo rhi : F}
    (hvlo : toFloat? vlo = some lo) (hvhi : toFloat? vhi = some hi) (hv : toFloat? v = some x)
    (flo : isFinite lo = true) (fhi : isFinite hi = true)
    (h1 : scaledCall scale vlo = .ok rlo) (h2 : scaledCall scale vhi = .ok rhi)
    (hx1 : le lo x = true) (hx2 : le x hi = true) :
    ∃ r, scaledCall scale v = .ok r := by
  obtain ⟨lo', klo, ylo, e1, gk1, gy1, r1, f1⟩ := scaledCall_ok h1
  obtain ⟨hi', khi, yhi, e2, gk2, gy2, r2, f2⟩ := scaledCall_ok h2
  rw [hvlo] at e1; injection e1 with e1; subst e1
  rw [hvhi] at e2; injection e2 with e2; subst e2
  have hpos := positive_iff hp
  have fx := CompatLaws.finite_between lo x hi flo fhi hx1 hx2
  unfold gridIndex at gk1 gk2
  have fd1 : isFinite (div lo scale) = true := by
    have := LawfulFloatOps.round_isSome (div lo scale); rw [gk1] at this; simpa using this.symm
  have fd2 : isFinite (div hi scale) = true := by
    have := LawfulFloatOps.round_isSome (div hi scale); rw [gk2] at this; simpa using this.symm
  have nx := CompatLaws.div_notNaN x scale fx hs hp
  have d1 := LawfulFloatOps.div_mono lo x scale hx1 hs hpos (notNaN_of_finite fd1) nx
  have d2 := LawfulFloatOps.div_mono x hi scale hx2 hs hpos nx (notNaN_of_finite fd2)
  have fdx := CompatLaws.finite_between _ _ _ fd1 fd2 d1 d2
  have hsome : (round (div x scale)).isSome = true := by rw [LawfulFloatOps.round_isSome]; exact fdx
  obtain ⟨k, hk⟩ := Option.isSome_iff_exists.1 hsome
  obtain ⟨y, hy⟩ := LawfulFloatOps.round_ofInt _ _ hk
  have k1 := LawfulFloatOps.round_mono _ _ klo k d1 gk1 hk
  have k2 := LawfulFloatOps.round_mono _ _ k khi d2 hk gk2
  have y1 := LawfulFloatOps.ofInt_mono klo k ylo y k1 gy1 hy
  have y2 := LawfulFloatOps.ofInt_mono k khi y yhi k2 hy gy2
  have fy := LawfulFloatOps.ofInt_finite _ _ hy
  have m1 := LawfulFloatOps.mul_mono ylo y scale y1 hs hpos (LawfulFloatOps.ofInt_finite _ _ gy1) fy
  have m2 := LawfulFloatOps.mul_mono y yhi scale y2 hs hpos fy (LawfulFloatOps.ofInt_finite _ _ gy2)
  have fm := CompatLaws.finite_between _ _ _ (r1 ▸ f1) (r2 ▸ f2) m1 m2
  refine ⟨mul y scale, ?_⟩
  unfold scaledCall gridIndex
  rw [hv]; simp only [hk, hy, fm, if_true]

theorem scaledValidate_parts {scale bmin bmax : F} {v : PVal F} {x r : F} (hv : toFloat? v = some x)
    (h : scaledValidate scale bmin bmax v = .ok r) :
    (∃ c, scaledCall scale v = .ok c) ∧ lt (sub bmin scale) x = true ∧ lt x (add bmax scale) = true ∧
    (∃ a b, scaledCall scale (.float bmin) = .ok a ∧ scaledCall scale (.float bmax) = .ok b) := by
  unfold scaledValidate at h
  split at h
  · cases h
  · rename_i c hc
    rw [hv] at h
    simp only at h
    split at h
    · rename_i hb
      simp only [Bool.and_eq_true] at hb
      split at h
      · rename_i a b ha hb'
        exact ⟨⟨c, hc⟩, hb.1, hb.2, a, b, ha, hb'⟩
      · cases h
      · cases h
    · cases h

theorem scaledValidate_of_parts {scale bmin bmax : F} {v : PVal F} {x c a b : F} (hv : toFloat? v = some x)
    (hc : scaledCall scale v = .ok c) (h1 : lt (sub bmin scale) x = true) (h2 : lt x (add bmax scale) = true)
    (ha : scaledCall scale (.float bmin) = .ok a) (hb : scaledCall scale (.float bmax) = .ok b) :
    ∃ r, scaledValidate scale bmin bmax v = .ok r := by
  unfold scaledValidate
  rw [hc]; simp only [hv, h1, h2, ha, hb, Bool.and_self, if_true]
  exact ⟨_, rfl⟩

/-- a scaled type that accepts two numbers accepts every number between them -/
theorem scaledValidate_between {scale bmin bmax ar rr : F} (hb : (DType.scaled scale bmin bmax ar rr).WF)
    {vlo vhi v : PVal F} {lo hi x rlo rhi : F}
    (hvlo : toFloat? vlo = some lo) (hvhi : toFloat? vhi = some hi) (hv : toFloat? v = some x)
    (flo : isFinite lo = true) (fhi : isFinite hi = true)
    (h1 : scaledValidate scale bmin bmax vlo = .ok rlo) (h2 : scaledValidate scale bmin bmax vhi = .ok rhi)
    (hx1 : le lo x = true) (hx2 : le x hi = true) :
    ∃ r, scaledValidate scale bmin bmax v = .ok r := by
  simp only [DType.WF] at hb
  obtain ⟨fs, ps, _⟩ := hb
  obtain ⟨⟨c1, hc1⟩, l1, _, a, b, ha, hb'⟩ := scaledValidate_parts hvlo h1
  obtain ⟨⟨c2, hc2⟩, _, u2, _⟩ := scaledValidate_parts hvhi h2
  obtain ⟨c, hc⟩ := scaledCall_between fs ps hvlo hvhi hv flo fhi hc1 hc2 hx1 hx2
  exact scaledValidate_of_parts hv hc (lt_of_lt_of_le l1 hx1) (lt_of_le_of_lt hx2 u2) ha hb'

/-! ### numbers offered to a numeric type -/

theorem check_ok {r : Res F} (h : check r = .ok ()) : ∃ x, r = .ok x := by
  unfold check at h
  split at h
  · exact ⟨_, rfl⟩
  · cases h

theorem limitsValid_parts {b : DType F} {lo hi : PVal F} (h : limitsValid b lo hi = .ok ()) :
    (∃ r, validate b lo none = .ok r) ∧ (∃ r, validate b hi none = .ok r) := by
  unfold limitsValid at h
  split at h
  · cases h
  · rename_i r hr
    exact ⟨⟨r, hr⟩, check_ok h⟩

theorem toFloat_of_doubleValidate {bmin bmax ar rr : F} {v : PVal F} {r : F}
    (h : doubleValidate bmin bmax ar rr v = .ok r) : ∃ x, toFloat? v = some x := by
  unfold doubleValidate doubleCall at h
  cases hv : toFloat? v with
  | none => rw [hv] at h; cases h
  | some x => exact ⟨x, rfl⟩

theorem toFloat_of_scaledValidate {scale bmin bmax : F} {v : PVal F} {r : F}
    (h : scaledValidate scale bmin bmax v = .ok r) : ∃ x, toFloat? v = some x := by
  unfold scaledValidate at h
  split at h
  · cases h
  · rename_i c hc
    obtain ⟨x, _, _, hx, _⟩ := scaledCall_ok hc
    exact ⟨x, hx⟩

/-- is `b` a `double` or a `scaled` type -/
def IsFloatKind : DType F → Prop
  | .double .. => True
  | .scaled .. => True
  | _ => False

/-- a float-valued type that accepts two finite numbers accepts every number between them -/
theorem floatKind_between {b : DType F} (hk : IsFloatKind b) (hb : b.WF) (hres : ResLeOne b)
    {vlo vhi v : PVal F} {lo hi x : F}
    (hvlo : toFloat? vlo = some lo) (hvhi : toFloat? vhi = some hi) (hv : toFloat? v = some x)
    (flo : isFinite lo = true) (fhi : isFinite hi = true)
    (h1 : ∃ r, validate b vlo none = .ok r) (h2 : ∃ r, validate b vhi none = .ok r)
    (hx1 : le lo x = true) (hx2 : le x hi = true) : ∃ r, validate b v none = .ok r := by
  obtain ⟨r1, h1⟩ := h1
  obtain ⟨r2, h2⟩ := h2
  cases b <;> simp only [IsFloatKind] at hk
  case double bmin bmax ar rr =>
    simp only [validate, conv] at h1 h2 ⊢
    obtain ⟨a1, e1, _⟩ := map_ok h1
    obtain ⟨a2, e2, _⟩ := map_ok h2
    simp only [ResLeOne] at hres
    obtain ⟨r, hr⟩ := doubleValidate_between hb hres hvlo hvhi hv flo fhi e1 e2 hx1 hx2
    exact ⟨.float r, by rw [hr]; rfl⟩
  case scaled scale bmin bmax ar rr =>
    simp only [validate, conv] at h1 h2 ⊢
    obtain ⟨a1, e1, _⟩ := map_ok h1
    obtain ⟨a2, e2, _⟩ := map_ok h2
    obtain ⟨r, hr⟩ := scaledValidate_between hb hvlo hvhi hv flo fhi e1 e2 hx1 hx2
    exact ⟨.float r, by rw [hr]; rfl⟩

/-- the float a validated number was -/
theorem toFloat_of_validate {b : DType F} (hk : IsFloatKind b) {v r : PVal F} (h : validate b v none = .ok r) :
    ∃ x, toFloat? v = some x := by
  cases b <;> simp only [IsFloatKind] at hk
  case double =>
    simp only [validate, conv] at h
    obtain ⟨a, e, _⟩ := map_ok h
    exact toFloat_of_doubleValidate e
  case scaled =>
    simp only [validate, conv] at h
    obtain ⟨a, e, _⟩ := map_ok h
    exact toFloat_of_scaledValidate e

/-- float limits `lo ≤ hi` (canonical, finite) accepted ⇒ every float between them accepted -/
theorem floats_between {b : DType F} (hk : IsFloatKind b) (hb : b.WF) (hres : ResLeOne b) {lo hi x : F}
    (flo : isFinite lo = true) (fhi : isFinite hi = true) (clo : addZero lo = lo) (chi : addZero hi = hi)
    (h : limitsValid b (.float lo) (.float hi) = .ok ())
    (hx1 : le lo x = true) (hx2 : le x hi = true) : ∃ r, validate b (.float x) none = .ok r := by
  obtain ⟨h1, h2⟩ := limitsValid_parts h
  refine floatKind_between hk hb hres (lo := lo) (hi := hi) (x := addZero x) ?_ ?_ rfl flo fhi h1 h2 ?_ ?_
  · simp [toFloat?, clo]
  · simp [toFloat?, chi]
  · rw [CompatLaws.addZero_le_right]; exact hx1
  · rw [CompatLaws.addZero_le_left]; exact hx2

/-- integer limits accepted by a float-valued type ⇒ every integer between them accepted -/
theorem ints_between {b : DType F} (hk : IsFloatKind b) (hb : b.WF) (hres : ResLeOne b) {lo hi i : Int}
    (h : limitsValid b (.int lo) (.int hi) = .ok ()) (h1 : lo ≤ i) (h2 : i ≤ hi) :
    ∃ r, validate b (.int i) none = .ok r := by
  obtain ⟨v1, v2⟩ := limitsValid_parts h
  obtain ⟨r1, e1⟩ := v1
  obtain ⟨r2, e2⟩ := v2
  obtain ⟨xlo, hlo⟩ := toFloat_of_validate hk e1
  obtain ⟨xhi, hhi⟩ := toFloat_of_validate hk e2
  have hlo' : (ofInt lo : Option F) = some xlo := by simpa [toFloat?] using hlo
  have hhi' : (ofInt hi : Option F) = some xhi := by simpa [toFloat?] using hhi
  obtain ⟨x, hx⟩ := CompatLaws.ofInt_between lo i hi xlo xhi hlo' hhi' h1 h2
  exact floatKind_between hk hb hres hlo hhi (v := .int i) (x := x) (by simpa [toFloat?] using hx)
    (LawfulFloatOps.ofInt_finite _ _ hlo') (LawfulFloatOps.ofInt_finite _ _ hhi') ⟨r1, e1⟩ ⟨r2, e2⟩
    (LawfulFloatOps.ofInt_mono lo i xlo x h1 hlo' hx) (LawfulFloatOps.ofInt_mono i hi x xhi h2 hx hhi')

theorem intValidate_int {bmin bmax i : Int} :
    intValidate (F := F) bmin bmax (.int i) =
      (match (ofInt i : Option F) with
       | none => .error .wrongType
       | some _ => if bmin ≤ i ∧ i ≤ bmax then .ok i else .error .range) := by
  simp only [intValidate, intCall]
  cases (ofInt i : Option F) <;> rfl

/-- integer limits accepted by an integer type ⇒ every integer between them accepted -/
theorem ints_between_int {bmin bmax lo hi i : Int}
    (h : limitsValid (.int bmin bmax : DType F) (.int lo) (.int hi) = .ok ()) (h1 : lo ≤ i) (h2 : i ≤ hi) :
    ∃ r, validate (.int bmin bmax : DType F) (.int i) none = .ok r := by
  obtain ⟨⟨r1, e1⟩, ⟨r2, e2⟩⟩ := limitsValid_parts h
  simp only [validate, conv] at e1 e2 ⊢
  obtain ⟨a1, e1, _⟩ := map_ok e1
  obtain ⟨a2, e2, _⟩ := map_ok e2
  rw [intValidate_int] at e1 e2 ⊢
  cases hlo : (ofInt lo : Option F) with
  | none => rw [hlo] at e1; cases e1
  | some xlo =>
    cases hhi : (ofInt hi : Option F) with
    | none => rw [hhi] at e2; cases e2
    | some xhi =>
      rw [hlo] at e1; rw [hhi] at e2
      simp only at e1 e2
      split at e1
      · rename_i c1
        split at e2
        · rename_i c2
          obtain ⟨x, hx⟩ := CompatLaws.ofInt_between lo i hi xlo xhi hlo hhi h1 h2
          refine ⟨.int i, ?_⟩
          rw [hx]
          have : bmin ≤ i ∧ i ≤ bmax := ⟨by omega, by omega⟩
          simp only [this, and_self, if_true]
          rfl
        · cases e2
      · cases e1

/-! ### loops -/

theorem allFrom_ok {p : Int → Except Err Unit} : ∀ (n : Nat) (lo : Int), allFrom p lo n = .ok () →
    ∀ i, lo ≤ i → i < lo + n → p i = .ok () := by
  intro n
  induction n with
  | zero => intro lo _ i h1 h2; omega
  | succ n ih =>
    intro lo h i h1 h2
    simp only [allFrom] at h
    split at h
    · cases h
    · rename_i u hu
      by_cases e : i = lo
      · subst e; cases u; exact hu
      · exact ih (lo + 1) h i (by omega) (by omega)

theorem allFrom_of_all {p : Int → Except Err Unit} : ∀ (n : Nat) (lo : Int),
    (∀ i, lo ≤ i → i < lo + n → p i = .ok ()) → allFrom p lo n = .ok () := by
  intro n
  induction n with
  | zero => intro lo _; rfl
  | succ n ih =>
    intro lo h
    simp only [allFrom]
    rw [h lo (by omega) (by omega)]
    exact ih (lo + 1) (fun i h1 h2 => h i (by omega) (by omega))

theorem allMembers_ok {p : String → Int → Except Err Unit} : ∀ (ms : List (String × Int)),
    allMembers p ms = .ok () → ∀ m ∈ ms, p m.1 m.2 = .ok () := by
  intro ms
  induction ms with
  | nil => intro _ m hm; cases hm
  | cons hd tl ih =>
    intro h m hm
    obtain ⟨n, v⟩ := hd
    simp only [allMembers] at h
    split at h
    · cases h
    · rename_i u hu
      rcases List.mem_cons.1 hm with e | e
      · subst e; cases u; exact hu
      · exact ih h m e

theorem allMembers_of_all {p : String → Int → Except Err Unit} : ∀ (ms : List (String × Int)),
    (∀ m ∈ ms, p m.1 m.2 = .ok ()) → allMembers p ms = .ok () := by
  intro ms
  induction ms with
  | nil => intro _; rfl
  | cons hd tl ih =>
    intro h
    obtain ⟨n, v⟩ := hd
    simp only [allMembers]
    rw [h (n, v) (List.mem_cons_self ..)]
    exact ih (fun m hm => h m (List.mem_cons_of_mem _ hm))

theorem mapPrev_all_ok {f : PVal F → Option (PVal F) → Res F} : ∀ (vs : List (PVal F)),
    (∀ v ∈ vs, ∃ r, f v none = .ok r) → ∃ rs, mapPrev f vs [] = .ok rs := by
  intro vs
  induction vs with
  | nil => intro _; exact ⟨[], rfl⟩
  | cons v vs ih =>
    intro h
    obtain ⟨r, hr⟩ := h v (List.mem_cons_self ..)
    obtain ⟨rs, hrs⟩ := ih (fun x hx => h x (List.mem_cons_of_mem _ hx))
    refine ⟨r :: rs, ?_⟩
    simp only [mapPrev, List.head?_nil, List.tail_nil, hr, hrs]

theorem foldFields_all_ok {f : String → PVal F → Option (Res F)} : ∀ (items acc : List (String × PVal F)),
    (∀ kv ∈ items, kv.2 = .none ∨ ∃ r, f kv.1 kv.2 = some (.ok r)) → ∃ res, foldFields f items acc = .ok res := by
  intro items
  induction items with
  | nil => intro acc _; exact ⟨acc, rfl⟩
  | cons hd tl ih =>
    intro acc h
    obtain ⟨k, v⟩ := hd
    have htl : ∀ kv ∈ tl, kv.2 = .none ∨ ∃ r, f kv.1 kv.2 = some (.ok r) :=
      fun kv hkv => h kv (List.mem_cons_of_mem _ hkv)
    rcases h (k, v) (List.mem_cons_self ..) with e | ⟨r, hr⟩
    · simp only at e; subst e
      simp only [foldFields]; exact ih acc htl
    · cases v
      case none => simp only [foldFields]; exact ih acc htl
      all_goals
        simp only [foldFields]
        simp only at hr
        rw [hr]
        exact ih _ htl

end Frappy.Lemmas.C03
