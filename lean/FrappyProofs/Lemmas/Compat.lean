import FrappyProofs.Lemmas.DatatypesSound
import FrappyModel.Datatypes.Compat
import FrappyModel.Spec.C03
/-
C03: soundness and completeness of `compatible` — leaf lemmas and the mutual inductions.
-/
set_option linter.unusedSectionVars false
set_option linter.unusedVariables false
namespace Frappy.Lemmas.C03
open FloatOps DType Frappy.Datatypes Frappy.Spec.C01 Frappy.Spec.C03 Frappy.Lemmas.C01
open PVal (toFloat? seqItems? prevItems prevFields dictGet dictSet)

variable {F : Type} [FloatOps F] [LawfulFloatOps F] [CompatLaws F]

/-! ### order helpers -/

theorem lt_of_lt_of_le {a b c : F} (h1 : lt a b = true) (h2 : le b c = true) : lt a c = true := by
  have ⟨na, nb⟩ := LawfulFloatOps.lt_notNaN a b h1
  have ⟨_, nc⟩ := LawfulFloatOps.le_notNaN b c h2
  rw [LawfulFloatOps.lt_iff a c na nc]
  rw [LawfulFloatOps.lt_iff a b na nb] at h1
  cases hca : le c a
  · rfl
  · have := LawfulFloatOps.le_trans b c a h2 hca
    rw [this] at h1; cases h1

theorem lt_of_le_of_lt {a b c : F} (h1 : le a b = true) (h2 : lt b c = true) : lt a c = true := by
  have ⟨na, nb⟩ := LawfulFloatOps.le_notNaN a b h1
  have ⟨_, nc⟩ := LawfulFloatOps.lt_notNaN b c h2
  rw [LawfulFloatOps.lt_iff a c na nc]
  rw [LawfulFloatOps.lt_iff b c nb nc] at h2
  cases hca : le c a
  · rfl
  · have := LawfulFloatOps.le_trans c a b hca h1
    rw [this] at h2; cases h2

/-! ### double: the accepted numbers form an interval -/

theorem doubleCall_of_finite {v : PVal F} {x : F} (hv : toFloat? v = some x) (hfin : isFinite x = true) :
    doubleCall v = .ok x := by
  unfold doubleCall
  rw [hv]
  simp only [notNaN_of_finite hfin]
  have hb := CompatLaws.finite_bounds x hfin
  rw [median3_inside hb.1 hb.2]
  rfl

theorem doubleValidate_band {bmin bmax ar rr : F} {v : PVal F} {x r : F} (hv : toFloat? v = some x)
    (hfin : isFinite x = true) (h : doubleValidate bmin bmax ar rr v = .ok r) :
    le (sub bmin (tolerance rr ar x)) x = true ∧ le x (add bmax (tolerance rr ar x)) = true := by
  unfold doubleValidate at h
  rw [doubleCall_of_finite hv hfin] at h
  simp only at h
  split at h
  · rename_i hc
    simpa using hc
  · cases h

theorem doubleValidate_of_band {bmin bmax ar rr : F} {v : PVal F} {x : F} (hv : toFloat? v = some x)
    (hfin : isFinite x = true)
    (h1 : le (sub bmin (tolerance rr ar x)) x = true) (h2 : le x (add bmax (tolerance rr ar x)) = true) :
    ∃ r, doubleValidate bmin bmax ar rr v = .ok r := by
  unfold doubleValidate
  rw [doubleCall_of_finite hv hfin]
  simp only [h1, h2]
  exact ⟨_, rfl⟩

/-- a double type that accepts two numbers accepts every number between them -/
theorem doubleValidate_between {bmin bmax ar rr : F} (hb : (DType.double bmin bmax ar rr).WF)
    (hrr : resLeOne rr = true) {vlo vhi v : PVal F} {lo hi x rlo rhi : F}
    (hvlo : toFloat? vlo = some lo) (hvhi : toFloat? vhi = some hi) (hv : toFloat? v = some x)
    (flo : isFinite lo = true) (fhi : isFinite hi = true)
    (h1 : doubleValidate bmin bmax ar rr vlo = .ok rlo) (h2 : doubleValidate bmin bmax ar rr vhi = .ok rhi)
    (hx1 : le lo x = true) (hx2 : le x hi = true) :
    ∃ r, doubleValidate bmin bmax ar rr v = .ok r := by
  simp only [DType.WF] at hb
  obtain ⟨fmin, fmax, _, _, _, _, _, far, nar, frr, nrr⟩ := hb
  have fx := CompatLaws.finite_between lo x hi flo fhi hx1 hx2
  have b1 := doubleValidate_band hvlo flo h1
  have b2 := doubleValidate_band hvhi fhi h2
  exact doubleValidate_of_band hv fx
    (CompatLaws.band_lo_mono bmin rr ar lo x fmin frr nrr hrr far nar flo fx hx1 b1.1)
    (CompatLaws.band_hi_mono bmax rr ar x hi fmax frr nrr hrr far nar fx fhi hx2 b2.2)

/-! ### scaled: the accepted numbers form an interval -/

theorem scaledCall_between {scale : F} (hs : isFinite scale = true) (hp : positive scale = true)
    {vlo vhi v : PVal F} {lo hi x rlo rhi : F}
    (hvlo : toFloat? vlo = some lo) (hvhi : toFloat? vhi = some hi) (hv : toFloat? v = some x)
    (flo : isFinite lo = true) (fhi : isFinite hi = true)
    (h1 : scaledCall scale vlo = .ok rlo) (h2 : scaledCall scale vhi = .ok rhi)
    (hx1 : le lo x = true) (hx2 : le x hi = true) :
    ∃ r, scaledCall scale v = .ok r := by
  obtain ⟨lo', klo, ylo, e1, gk1, gy1, r1, f1⟩ := scaledCall_ok h1
  obtain ⟨hi', khi, yhi, e2, gk2, gy2, r2, f2⟩ := scaledCall_ok h2
  rw [hvlo] at e1; injection e1 with e1; subst e1
  rw [hvhi] at e2; injection e2 with e2; subst e2
  have hpos := positive_iff hp
  have fx := CompatLaws.finite_between lo x hi flo fhi hx1 hx2
  unfold gridIndex at gk1 gk2
  have fd1 : isFinite (div lo scale) = true := by
    have := LawfulFloatOps.round_isSome (div lo scale); rw [gk1] at this; simpa using this.symm
  have fd2 : isFinite (div hi scale) = true := by
    have := LawfulFloatOps.round_isSome (div hi scale); rw [gk2] at this; simpa using this.symm
  have nx := CompatLaws.div_notNaN x scale fx hs hp
  have d1 := LawfulFloatOps.div_mono lo x scale hx1 hs hpos (notNaN_of_finite fd1) nx
  have d2 := LawfulFloatOps.div_mono x hi scale hx2 hs hpos nx (notNaN_of_finite fd2)
  have fdx := CompatLaws.finite_between _ _ _ fd1 fd2 d1 d2
  have hsome : (round (div x scale)).isSome = true := by rw [LawfulFloatOps.round_isSome]; exact fdx
  obtain ⟨k, hk⟩ := Option.isSome_iff_exists.1 hsome
  obtain ⟨y, hy⟩ := LawfulFloatOps.round_ofInt _ _ hk
  have k1 := LawfulFloatOps.round_mono _ _ klo k d1 gk1 hk
  have k2 := LawfulFloatOps.round_mono _ _ k khi d2 hk gk2
  have y1 := LawfulFloatOps.ofInt_mono klo k ylo y k1 gy1 hy
  have y2 := LawfulFloatOps.ofInt_mono k khi y yhi k2 hy gy2
  have fy := LawfulFloatOps.ofInt_finite _ _ hy
  have m1 := LawfulFloatOps.mul_mono ylo y scale y1 hs hpos (LawfulFloatOps.ofInt_finite _ _ gy1) fy
  have m2 := LawfulFloatOps.mul_mono y yhi scale y2 hs hpos fy (LawfulFloatOps.ofInt_finite _ _ gy2)
  have fm := CompatLaws.finite_between _ _ _ (r1 ▸ f1) (r2 ▸ f2) m1 m2
  refine ⟨mul y scale, ?_⟩
  unfold scaledCall gridIndex
  rw [hv]; simp only [hk, hy, fm, if_true]

theorem scaledValidate_parts {scale bmin bmax : F} {v : PVal F} {x r : F} (hv : toFloat? v = some x)
    (h : scaledValidate scale bmin bmax v = .ok r) :
    (∃ c, scaledCall scale v = .ok c) ∧ lt (sub bmin scale) x = true ∧ lt x (add bmax scale) = true ∧
    (∃ a b, scaledCall scale (.float bmin) = .ok a ∧ scaledCall scale (.float bmax) = .ok b) := by
  unfold scaledValidate at h
  split at h
  · cases h
  · rename_i c hc
    rw [hv] at h
    simp only at h
    split at h
    · rename_i hb
      simp only [Bool.and_eq_true] at hb
      split at h
      · rename_i a b ha hb'
        exact ⟨⟨c, hc⟩, hb.1, hb.2, a, b, ha, hb'⟩
      · cases h
      · cases h
    · cases h

theorem scaledValidate_of_parts {scale bmin bmax : F} {v : PVal F} {x c a b : F} (hv : toFloat? v = some x)
    (hc : scaledCall scale v = .ok c) (h1 : lt (sub bmin scale) x = true) (h2 : lt x (add bmax scale) = true)
    (ha : scaledCall scale (.float bmin) = .ok a) (hb : scaledCall scale (.float bmax) = .ok b) :
    ∃ r, scaledValidate scale bmin bmax v = .ok r := by
  unfold scaledValidate
  rw [hc]; simp only [hv, h1, h2, ha, hb, Bool.and_self, if_true]
  exact ⟨_, rfl⟩

/-- a scaled type that accepts two numbers accepts every number between them -/
theorem scaledValidate_between {scale bmin bmax ar rr : F} (hb : (DType.scaled scale bmin bmax ar rr).WF)
    {vlo vhi v : PVal F} {lo hi x rlo rhi : F}
    (hvlo : toFloat? vlo = some lo) (hvhi : toFloat? vhi = some hi) (hv : toFloat? v = some x)
    (flo : isFinite lo = true) (fhi : isFinite hi = true)
    (h1 : scaledValidate scale bmin bmax vlo = .ok rlo) (h2 : scaledValidate scale bmin bmax vhi = .ok rhi)
    (hx1 : le lo x = true) (hx2 : le x hi = true) :
    ∃ r, scaledValidate scale bmin bmax v = .ok r := by
  simp only [DType.WF] at hb
  obtain ⟨fs, ps, _⟩ := hb
  obtain ⟨⟨c1, hc1⟩, l1, _, a, b, ha, hb'⟩ := scaledValidate_parts hvlo h1
  obtain ⟨⟨c2, hc2⟩, _, u2, _⟩ := scaledValidate_parts hvhi h2
  obtain ⟨c, hc⟩ := scaledCall_between fs ps hvlo hvhi hv flo fhi hc1 hc2 hx1 hx2
  exact scaledValidate_of_parts hv hc (lt_of_lt_of_le l1 hx1) (lt_of_le_of_lt hx2 u2) ha hb'

end Frappy.Lemmas.C03
