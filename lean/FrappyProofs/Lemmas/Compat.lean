import FrappyProofs.Lemmas.DatatypesSound
import FrappyModel.Datatypes.Compat
import FrappyModel.Spec.C03
/-
C03: soundness and completeness of `compatible` — leaf lemmas and the mutual inductions.
-/
set_option linter.unusedSectionVars false
set_option linter.unusedVariables false
namespace Frappy.Lemmas.C03
open FloatOps DType Frappy.Datatypes Frappy.Spec.C01 Frappy.Spec.C03 Frappy.Lemmas.C01
open PVal (toFloat? seqItems? prevItems prevFields dictGet dictSet)

variable {F : Type} [FloatOps F] [LawfulFloatOps F] [CompatLaws F]

/-! ### order helpers -/

theorem lt_of_lt_of_le {a b c : F} (h1 : lt a b = true) (h2 : le b c = true) : lt a c = true := by
  have ⟨na, nb⟩ := CompatLaws.lt_notNaN a b h1
  have ⟨_, nc⟩ := LawfulFloatOps.le_notNaN b c h2
  rw [LawfulFloatOps.lt_iff a c na nc]
  rw [LawfulFloatOps.lt_iff a b na nb] at h1
  cases hca : le c a
  · rfl
  · have := LawfulFloatOps.le_trans b c a h2 hca
    rw [this] at h1; cases h1

theorem lt_of_le_of_lt {a b c : F} (h1 : le a b = true) (h2 : lt b c = true) : lt a c = true := by
  have ⟨na, nb⟩ := LawfulFloatOps.le_notNaN a b h1
  have ⟨_, nc⟩ := CompatLaws.lt_notNaN b c h2
  rw [LawfulFloatOps.lt_iff a c na nc]
  rw [LawfulFloatOps.lt_iff b c nb nc] at h2
  cases hca : le c a
  · rfl
  · have := LawfulFloatOps.le_trans c a b hca h1
    rw [this] at h2; cases h2

/-! ### double: the accepted numbers form an interval -/

theorem doubleCall_of_finite {v : PVal F} {x : F} (hv : toFloat? v = some x) (hfin : isFinite x = true) :
    doubleCall v = .ok x := by
  unfold doubleCall
  rw [hv]
  simp only [notNaN_of_finite hfin]
  have hb := CompatLaws.finite_bounds x hfin
  rw [median3_inside hb.1 hb.2]
  rfl

theorem doubleValidate_band {bmin bmax ar rr : F} {v : PVal F} {x r : F} (hv : toFloat? v = some x)
    (hfin : isFinite x = true) (h : doubleValidate bmin bmax ar rr v = .ok r) :
    le (sub bmin (tolerance rr ar x)) x = true ∧ le x (add bmax (tolerance rr ar x)) = true := by
  unfold doubleValidate at h
  rw [doubleCall_of_finite hv hfin] at h
  simp only at h
  split at h
  · rename_i hc
    simpa using hc
  · cases h

theorem doubleValidate_of_band {bmin bmax ar rr : F} {v : PVal F} {x : F} (hv : toFloat? v = some x)
    (hfin : isFinite x = true)
    (h1 : le (sub bmin (tolerance rr ar x)) x = true) (h2 : le x (add bmax (tolerance rr ar x)) = true) :
    ∃ r, doubleValidate bmin bmax ar rr v = .ok r := by
  unfold doubleValidate
  rw [doubleCall_of_finite hv hfin]
  simp only [h1, h2]
  exact ⟨_, rfl⟩

/-- a double type that accepts two numbers accepts every number between them -/
theorem doubleValidate_between {bmin bmax ar rr : F} (hb : (DType.double bmin bmax ar rr).WF)
    (hrr : resLeOne rr = true) {vlo vhi v : PVal F} {lo hi x rlo rhi : F}
    (hvlo : toFloat? vlo = some lo) (hvhi : toFloat? vhi = some hi) (hv : toFloat? v = some x)
    (flo : isFinite lo = true) (fhi : isFinite hi = true)
    (h1 : doubleValidate bmin bmax ar rr vlo = .ok rlo) (h2 : doubleValidate bmin bmax ar rr vhi = .ok rhi)
    (hx1 : le lo x = true) (hx2 : le x hi = true) :
    ∃ r, doubleValidate bmin bmax ar rr v = .ok r := by
  simp only [DType.WF] at hb
  obtain ⟨fmin, fmax, _, _, _, _, _, far, nar, frr, nrr⟩ := hb
  have fx := CompatLaws.finite_between lo x hi flo fhi hx1 hx2
  have b1 := doubleValidate_band hvlo flo h1
  have b2 := doubleValidate_band hvhi fhi h2
  exact doubleValidate_of_band hv fx
    (CompatLaws.band_lo_mono bmin rr ar lo x fmin frr nrr hrr far nar flo fx hx1 b1.1)
    (CompatLaws.band_hi_mono bmax rr ar x hi fmax frr nrr hrr far nar fx fhi hx2 b2.2)

/-! ### scaled: the accepted numbers form an interval -/

theorem scaledCall_between {scale : F} (hs : isFinite scale = true) (hp : positive scale = true)
    {vlo vhi v : PVal F} {lo hi x rlo rhi : F}
    (hvlo : toFloat? vlo = some lo) (hvhi : toFloat? vhi = some hi) (hv : toFloat? v = some x)
    (h1 : scaledCall scale vlo = .ok rlo) (h2 : scaledCall scale vhi = .ok rhi)
    (hx1 : le lo x = true) (hx2 : le x hi = true) :
    ∃ r, scaledCall scale v = .ok r ∧ le rlo r = true ∧ le r rhi = true := by
  obtain ⟨lo', klo, ylo, e1, gk1, gy1, r1, f1⟩ := scaledCall_ok h1
  obtain ⟨hi', khi, yhi, e2, gk2, gy2, r2, f2⟩ := scaledCall_ok h2
  rw [hvlo] at e1; injection e1 with e1; subst e1
  rw [hvhi] at e2; injection e2 with e2; subst e2
  have hpos := positive_iff hp
  unfold gridIndex at gk1 gk2
  have d1 := LawfulFloatOps.div_mono lo x scale hx1 hs hpos
  have d2 := LawfulFloatOps.div_mono x hi scale hx2 hs hpos
  obtain ⟨k, hk⟩ := CompatLaws.round_between _ _ _ klo khi gk1 gk2 d1 d2
  obtain ⟨y, hy⟩ := LawfulFloatOps.round_ofInt _ _ hk
  have k1 := LawfulFloatOps.round_mono _ _ klo k d1 gk1 hk
  have k2 := LawfulFloatOps.round_mono _ _ k khi d2 hk gk2
  have y1 := LawfulFloatOps.ofInt_mono klo k ylo y k1 gy1 hy
  have y2 := LawfulFloatOps.ofInt_mono k khi y yhi k2 hy gy2
  have m1 := LawfulFloatOps.mul_mono ylo y scale y1 hs hpos
  have m2 := LawfulFloatOps.mul_mono y yhi scale y2 hs hpos
  have fm := CompatLaws.finite_between _ _ _ (r1 ▸ f1) (r2 ▸ f2) m1 m2
  refine ⟨mul y scale, ?_, r1 ▸ m1, r2 ▸ m2⟩
  unfold scaledCall gridIndex
  rw [hv]; simp only [hk, hy, fm, if_true]

/-- a grid-aligned finite canonical limit is its own grid value -/
theorem scaledCall_aligned {scale x : F} (hx : isFinite x = true) (hc : addZero x = x) (h : snap scale x = some x) :
    scaledCall scale (.float x) = .ok x := by
  unfold snap ofGrid at h
  unfold scaledCall
  simp only [toFloat?, hc]
  cases hk : gridIndex scale x with
  | none => rw [hk] at h; cases h
  | some k =>
    rw [hk] at h
    simp only at h ⊢
    cases hy : (ofInt k : Option F) with
    | none => rw [hy] at h; cases h
    | some y =>
      rw [hy] at h
      simp only at h ⊢
      injection h with h
      rw [h, hx]
      rfl

/-- with grid-aligned limits: what `scaledValidate` accepts lies in the open band `(min − scale, max + scale)` -/
theorem scaledValidate_parts {scale bmin bmax ar rr : F} (hb : (DType.scaled scale bmin bmax ar rr).WF)
    (hal : snap scale bmin = some bmin ∧ snap scale bmax = some bmax) {v : PVal F} {x r : F}
    (hv : toFloat? v = some x) (h : scaledValidate scale bmin bmax v = .ok r) :
    (∃ c, scaledCall scale v = .ok c) ∧ lt (sub bmin scale) x = true ∧ lt x (add bmax scale) = true := by
  simp only [DType.WF] at hb
  obtain ⟨fs, ps, fmin, fmax, _, cmin, cmax, _⟩ := hb
  have ca := scaledCall_aligned fmin cmin hal.1
  have cb := scaledCall_aligned fmax cmax hal.2
  unfold scaledValidate at h
  split at h
  · cases h
  · rename_i c hc
    refine ⟨⟨c, hc⟩, ?_⟩
    rw [ca, cb] at h
    simp only at h
    split at h
    · rename_i hin
      simp only [Bool.and_eq_true] at hin
      obtain ⟨x', k, y, e, gk, gy, rc, _⟩ := scaledCall_ok hc
      rw [hv] at e; injection e with e; subst e
      unfold gridIndex at gk
      exact ⟨CompatLaws.grid_ge_lt bmin scale x y k fmin fs ps gk gy (rc ▸ hin.1),
        CompatLaws.grid_le_lt bmax scale x y k fmax fs ps gk gy (rc ▸ hin.2)⟩
    · rw [hv] at h
      simp only at h
      split at h
      · rename_i hband
        simpa using hband
      · cases h

theorem scaledValidate_of_parts {scale bmin bmax ar rr : F} (hb : (DType.scaled scale bmin bmax ar rr).WF)
    (hal : snap scale bmin = some bmin ∧ snap scale bmax = some bmax) {v : PVal F} {x c : F}
    (hv : toFloat? v = some x) (hc : scaledCall scale v = .ok c)
    (h1 : lt (sub bmin scale) x = true) (h2 : lt x (add bmax scale) = true) :
    ∃ r, scaledValidate scale bmin bmax v = .ok r := by
  simp only [DType.WF] at hb
  obtain ⟨fs, ps, fmin, fmax, _, cmin, cmax, _⟩ := hb
  have ca := scaledCall_aligned fmin cmin hal.1
  have cb := scaledCall_aligned fmax cmax hal.2
  unfold scaledValidate
  rw [hc, ca, cb]
  simp only
  split
  · exact ⟨_, rfl⟩
  · rw [hv]; simp only [h1, h2, Bool.and_self, if_true]
    exact ⟨_, rfl⟩

/-- a scaled type (grid-aligned limits) that accepts two numbers accepts every number between them -/
theorem scaledValidate_between {scale bmin bmax ar rr : F} (hb : (DType.scaled scale bmin bmax ar rr).WF)
    (hal : snap scale bmin = some bmin ∧ snap scale bmax = some bmax)
    {vlo vhi v : PVal F} {lo hi x rlo rhi : F}
    (hvlo : toFloat? vlo = some lo) (hvhi : toFloat? vhi = some hi) (hv : toFloat? v = some x)
    (h1 : scaledValidate scale bmin bmax vlo = .ok rlo) (h2 : scaledValidate scale bmin bmax vhi = .ok rhi)
    (hx1 : le lo x = true) (hx2 : le x hi = true) :
    ∃ r, scaledValidate scale bmin bmax v = .ok r := by
  have hb' := hb
  simp only [DType.WF] at hb'
  obtain ⟨fs, ps, _⟩ := hb'
  obtain ⟨⟨c1, hc1⟩, l1, _⟩ := scaledValidate_parts hb hal hvlo h1
  obtain ⟨⟨c2, hc2⟩, _, u2⟩ := scaledValidate_parts hb hal hvhi h2
  obtain ⟨c, hc, _⟩ := scaledCall_between fs ps hvlo hvhi hv hc1 hc2 hx1 hx2
  exact scaledValidate_of_parts hb hal hv hc (lt_of_lt_of_le l1 hx1) (lt_of_le_of_lt hx2 u2)

/-! ### numbers offered to a numeric type -/

theorem check_ok {r : Res F} (h : check r = .ok ()) : ∃ x, r = .ok x := by
  unfold check at h
  split at h
  · exact ⟨_, rfl⟩
  · cases h

theorem limitsValid_parts {b : DType F} {lo hi : PVal F} (h : limitsValid b lo hi = .ok ()) :
    (∃ r, validate b lo none = .ok r) ∧ (∃ r, validate b hi none = .ok r) := by
  unfold limitsValid at h
  split at h
  · cases h
  · rename_i r hr
    exact ⟨⟨r, hr⟩, check_ok h⟩

theorem toFloat_of_doubleValidate {bmin bmax ar rr : F} {v : PVal F} {r : F}
    (h : doubleValidate bmin bmax ar rr v = .ok r) : ∃ x, toFloat? v = some x := by
  unfold doubleValidate doubleCall at h
  cases hv : toFloat? v with
  | none => rw [hv] at h; cases h
  | some x => exact ⟨x, rfl⟩

theorem toFloat_of_scaledValidate {scale bmin bmax : F} {v : PVal F} {r : F}
    (h : scaledValidate scale bmin bmax v = .ok r) : ∃ x, toFloat? v = some x := by
  unfold scaledValidate at h
  split at h
  · cases h
  · rename_i c hc
    obtain ⟨x, _, _, hx, _⟩ := scaledCall_ok hc
    exact ⟨x, hx⟩

/-- is `b` a `double` or a `scaled` type -/
def IsFloatKind : DType F → Prop
  | .double .. => True
  | .scaled .. => True
  | _ => False

/-- a float-valued type that accepts two finite numbers accepts every number between them -/
theorem floatKind_between {b : DType F} (hb : b.WF) (hk : IsFloatKind b) (hres : ResLeOne b) (hal : GridAligned b)
    {vlo vhi v : PVal F} {lo hi x : F}
    (hvlo : toFloat? vlo = some lo) (hvhi : toFloat? vhi = some hi) (hv : toFloat? v = some x)
    (flo : isFinite lo = true) (fhi : isFinite hi = true)
    (h1 : ∃ r, validate b vlo none = .ok r) (h2 : ∃ r, validate b vhi none = .ok r)
    (hx1 : le lo x = true) (hx2 : le x hi = true) : ∃ r, validate b v none = .ok r := by
  obtain ⟨r1, h1⟩ := h1
  obtain ⟨r2, h2⟩ := h2
  cases b <;> simp only [IsFloatKind] at hk
  case double bmin bmax ar rr =>
    simp only [validate, conv] at h1 h2 ⊢
    obtain ⟨a1, e1, _⟩ := map_ok h1
    obtain ⟨a2, e2, _⟩ := map_ok h2
    simp only [ResLeOne] at hres
    obtain ⟨r, hr⟩ := doubleValidate_between hb hres hvlo hvhi hv flo fhi e1 e2 hx1 hx2
    exact ⟨.float r, by rw [hr]; rfl⟩
  case scaled scale bmin bmax ar rr =>
    simp only [validate, conv] at h1 h2 ⊢
    obtain ⟨a1, e1, _⟩ := map_ok h1
    obtain ⟨a2, e2, _⟩ := map_ok h2
    simp only [GridAligned] at hal
    obtain ⟨r, hr⟩ := scaledValidate_between hb hal hvlo hvhi hv e1 e2 hx1 hx2
    exact ⟨.float r, by rw [hr]; rfl⟩

/-- the float a validated number was -/
theorem toFloat_of_validate {b : DType F} (hk : IsFloatKind b) {v r : PVal F} (h : validate b v none = .ok r) :
    ∃ x, toFloat? v = some x := by
  cases b <;> simp only [IsFloatKind] at hk
  case double =>
    simp only [validate, conv] at h
    obtain ⟨a, e, _⟩ := map_ok h
    exact toFloat_of_doubleValidate e
  case scaled =>
    simp only [validate, conv] at h
    obtain ⟨a, e, _⟩ := map_ok h
    exact toFloat_of_scaledValidate e

/-- float limits `lo ≤ hi` (canonical, finite) accepted ⇒ every float between them accepted -/
theorem floats_between {b : DType F} (hb : b.WF) (hk : IsFloatKind b) (hres : ResLeOne b) (hal : GridAligned b) {lo hi x : F}
    (flo : isFinite lo = true) (fhi : isFinite hi = true) (clo : addZero lo = lo) (chi : addZero hi = hi)
    (h : limitsValid b (.float lo) (.float hi) = .ok ())
    (hx1 : le lo x = true) (hx2 : le x hi = true) : ∃ r, validate b (.float x) none = .ok r := by
  obtain ⟨h1, h2⟩ := limitsValid_parts h
  refine floatKind_between hb hk hres hal (lo := lo) (hi := hi) (x := addZero x) ?_ ?_ rfl flo fhi h1 h2 ?_ ?_
  · simp [toFloat?, clo]
  · simp [toFloat?, chi]
  · rw [CompatLaws.addZero_le_right]; exact hx1
  · rw [CompatLaws.addZero_le_left]; exact hx2

/-- integer limits accepted by a float-valued type ⇒ every integer between them accepted -/
theorem ints_between {b : DType F} (hb : b.WF) (hk : IsFloatKind b) (hres : ResLeOne b) (hal : GridAligned b)
    {lo hi i : Int} (w1 : -DType.intLimit ≤ lo) (w2 : hi ≤ DType.intLimit)
    (h : limitsValid b (.int lo) (.int hi) = .ok ()) (h1 : lo ≤ i) (h2 : i ≤ hi) :
    ∃ r, validate b (.int i) none = .ok r := by
  obtain ⟨v1, v2⟩ := limitsValid_parts h
  obtain ⟨r1, e1⟩ := v1
  obtain ⟨r2, e2⟩ := v2
  obtain ⟨xlo, hlo⟩ := toFloat_of_validate hk e1
  obtain ⟨xhi, hhi⟩ := toFloat_of_validate hk e2
  have hlo' : (ofInt lo : Option F) = some xlo := by simpa [toFloat?] using hlo
  have hhi' : (ofInt hi : Option F) = some xhi := by simpa [toFloat?] using hhi
  obtain ⟨x, hx⟩ := CompatLaws.ofInt_between lo i hi xlo xhi hlo' hhi' h1 h2
  exact floatKind_between hb hk hres hal hlo hhi (v := .int i) (x := x) (by simpa [toFloat?] using hx)
    (CompatLaws.ofInt_finite _ _ w1 (by omega) hlo') (CompatLaws.ofInt_finite _ _ (by omega) w2 hhi') ⟨r1, e1⟩ ⟨r2, e2⟩
    (LawfulFloatOps.ofInt_mono lo i xlo x h1 hlo' hx) (LawfulFloatOps.ofInt_mono i hi x xhi h2 hx hhi')

theorem intValidate_int {bmin bmax i : Int} :
    intValidate (F := F) bmin bmax (.int i) =
      (match (ofInt i : Option F) with
       | none => .error .wrongType
       | some _ => if bmin ≤ i ∧ i ≤ bmax then .ok i else .error .range) := by
  simp only [intValidate, intCall]
  cases (ofInt i : Option F) <;> rfl

/-- integer limits accepted by an integer type ⇒ every integer between them accepted -/
theorem ints_between_int {bmin bmax lo hi i : Int}
    (h : limitsValid (.int bmin bmax : DType F) (.int lo) (.int hi) = .ok ()) (h1 : lo ≤ i) (h2 : i ≤ hi) :
    ∃ r, validate (.int bmin bmax : DType F) (.int i) none = .ok r := by
  obtain ⟨⟨r1, e1⟩, ⟨r2, e2⟩⟩ := limitsValid_parts h
  simp only [validate, conv] at e1 e2 ⊢
  obtain ⟨a1, e1, _⟩ := map_ok e1
  obtain ⟨a2, e2, _⟩ := map_ok e2
  rw [intValidate_int] at e1 e2 ⊢
  cases hlo : (ofInt lo : Option F) with
  | none => rw [hlo] at e1; cases e1
  | some xlo =>
    cases hhi : (ofInt hi : Option F) with
    | none => rw [hhi] at e2; cases e2
    | some xhi =>
      rw [hlo] at e1; rw [hhi] at e2
      simp only at e1 e2
      split at e1
      · rename_i c1
        split at e2
        · rename_i c2
          obtain ⟨x, hx⟩ := CompatLaws.ofInt_between lo i hi xlo xhi hlo hhi h1 h2
          refine ⟨.int i, ?_⟩
          rw [hx]
          have : bmin ≤ i ∧ i ≤ bmax := ⟨by omega, by omega⟩
          simp only [this, and_self, if_true]
          rfl
        · cases e2
      · cases e1

/-! ### loops -/

theorem allFrom_ok {p : Int → Except Err Unit} : ∀ (n : Nat) (lo : Int), allFrom p lo n = .ok () →
    ∀ i, lo ≤ i → i < lo + n → p i = .ok () := by
  intro n
  induction n with
  | zero => intro lo _ i h1 h2; omega
  | succ n ih =>
    intro lo h i h1 h2
    simp only [allFrom] at h
    split at h
    · cases h
    · rename_i u hu
      by_cases e : i = lo
      · subst e; cases u; exact hu
      · exact ih (lo + 1) h i (by omega) (by omega)

theorem allFrom_of_all {p : Int → Except Err Unit} : ∀ (n : Nat) (lo : Int),
    (∀ i, lo ≤ i → i < lo + n → p i = .ok ()) → allFrom p lo n = .ok () := by
  intro n
  induction n with
  | zero => intro lo _; rfl
  | succ n ih =>
    intro lo h
    simp only [allFrom]
    rw [h lo (by omega) (by omega)]
    exact ih (lo + 1) (fun i h1 h2 => h i (by omega) (by omega))

theorem allMembers_ok {p : String → Int → Except Err Unit} : ∀ (ms : List (String × Int)),
    allMembers p ms = .ok () → ∀ m ∈ ms, p m.1 m.2 = .ok () := by
  intro ms
  induction ms with
  | nil => intro _ m hm; cases hm
  | cons hd tl ih =>
    intro h m hm
    obtain ⟨n, v⟩ := hd
    simp only [allMembers] at h
    split at h
    · cases h
    · rename_i u hu
      rcases List.mem_cons.1 hm with e | e
      · subst e; cases u; exact hu
      · exact ih h m e

theorem allMembers_of_all {p : String → Int → Except Err Unit} : ∀ (ms : List (String × Int)),
    (∀ m ∈ ms, p m.1 m.2 = .ok ()) → allMembers p ms = .ok () := by
  intro ms
  induction ms with
  | nil => intro _; rfl
  | cons hd tl ih =>
    intro h
    obtain ⟨n, v⟩ := hd
    simp only [allMembers]
    rw [h (n, v) (List.mem_cons_self ..)]
    exact ih (fun m hm => h m (List.mem_cons_of_mem _ hm))

theorem mapPrev_all_ok {f : PVal F → Option (PVal F) → Res F} : ∀ (vs : List (PVal F)),
    (∀ v ∈ vs, ∃ r, f v none = .ok r) → ∃ rs, mapPrev f vs [] = .ok rs := by
  intro vs
  induction vs with
  | nil => intro _; exact ⟨[], rfl⟩
  | cons v vs ih =>
    intro h
    obtain ⟨r, hr⟩ := h v (List.mem_cons_self ..)
    obtain ⟨rs, hrs⟩ := ih (fun x hx => h x (List.mem_cons_of_mem _ hx))
    refine ⟨r :: rs, ?_⟩
    simp only [mapPrev, List.head?_nil, List.tail_nil, hr, hrs]

theorem foldFields_all_ok {f : String → PVal F → Option (Res F)} : ∀ (items acc : List (String × PVal F)),
    (∀ kv ∈ items, kv.2 = .none ∨ ∃ r, f kv.1 kv.2 = some (.ok r)) → ∃ res, foldFields f items acc = .ok res := by
  intro items
  induction items with
  | nil => intro acc _; exact ⟨acc, rfl⟩
  | cons hd tl ih =>
    intro acc h
    obtain ⟨k, v⟩ := hd
    have htl : ∀ kv ∈ tl, kv.2 = .none ∨ ∃ r, f kv.1 kv.2 = some (.ok r) :=
      fun kv hkv => h kv (List.mem_cons_of_mem _ hkv)
    rcases h (k, v) (List.mem_cons_self ..) with e | ⟨r, hr⟩
    · simp only at e; subst e
      simp only [foldFields]; exact ih acc htl
    · cases v
      case none => simp only [foldFields]; exact ih acc htl
      all_goals
        simp only [foldFields]
        simp only at hr
        rw [hr]
        exact ih _ htl

/-! ### small facts about the value sets and the struct plumbing -/

theorem inSetG_ne_none {G : F → F → Prop} {t : DType F} {v : PVal F} (h : InSetG G t v) : v ≠ .none := by
  intro e; subst e
  cases t <;> simp [InSetG] at h

theorem memberInG_ne_none {G : F → F → Prop} : ∀ (ms : List (String × DType F)) (k : String) (v : PVal F),
    MemberInG G ms k v → v ≠ .none
  | [], _, _, h => by simp [MemberInG] at h
  | (k', t) :: rest, k, v, h => by
    simp only [MemberInG] at h
    by_cases e : k' = k
    · simp only [e, if_true] at h; exact inSetG_ne_none h
    · simp only [e, if_false] at h; exact memberInG_ne_none rest k v h

theorem zipInG_length {G : F → F → Prop} : ∀ (ts : List (DType F)) (vs : List (PVal F)),
    ZipInG G ts vs → vs.length = ts.length
  | [], [], _ => rfl
  | t :: ts, v :: vs, h => by
    simp only [ZipInG] at h
    simp [zipInG_length ts vs h.2]
  | [], _ :: _, h => by simp [ZipInG] at h
  | _ :: _, [], h => by simp [ZipInG] at h

theorem memberInG_name {G : F → F → Prop} : ∀ (ms : List (String × DType F)) (k : String) (v : PVal F),
    MemberInG G ms k v → k ∈ ms.map (·.1)
  | [], _, _, h => by simp [MemberInG] at h
  | (k', t) :: rest, k, v, h => by
    simp only [MemberInG] at h
    by_cases e : k' = k
    · simp [e]
    · simp only [e, if_false] at h
      simp only [List.map_cons, List.mem_cons]
      exact Or.inr (memberInG_name rest k v h)

theorem member_name : ∀ (ms : List (String × DType F)) (k : String) (t : DType F),
    DType.member? ms k = some t → k ∈ ms.map (·.1)
  | [], _, _, h => by simp [DType.member?, dictGet] at h
  | (k', t') :: rest, k, t, h => by
    simp only [DType.member?, dictGet] at h
    by_cases e : k' = k
    · simp [e]
    · simp only [e, if_false] at h
      simp only [List.map_cons, List.mem_cons]
      exact Or.inr (member_name rest k t h)

theorem member_wf : ∀ (ms : List (String × DType F)) (k : String) (t : DType F),
    DType.WFFields ms → DType.member? ms k = some t → t.WF
  | [], _, _, _, h => by simp [DType.member?, dictGet] at h
  | (k', t') :: rest, k, t, hw, h => by
    simp only [DType.WFFields] at hw
    simp only [DType.member?, dictGet] at h
    by_cases e : k' = k
    · simp only [e, if_true] at h; injection h with h; subst h; exact hw.1
    · simp only [e, if_false] at h
      exact member_wf rest k t hw.2 h

theorem member_aligned : ∀ (ms : List (String × DType F)) (k : String) (t : DType F),
    GridAlignedFields ms → DType.member? ms k = some t → GridAligned t
  | [], _, _, _, h => by simp [DType.member?, dictGet] at h
  | (k', t') :: rest, k, t, hw, h => by
    simp only [GridAlignedFields] at hw
    simp only [DType.member?, dictGet] at h
    by_cases e : k' = k
    · simp only [e, if_true] at h; injection h with h; subst h; exact hw.1
    · simp only [e, if_false] at h
      exact member_aligned rest k t hw.2 h

theorem member_resLeOne : ∀ (ms : List (String × DType F)) (k : String) (t : DType F),
    ResLeOneFields ms → DType.member? ms k = some t → ResLeOne t
  | [], _, _, _, h => by simp [DType.member?, dictGet] at h
  | (k', t') :: rest, k, t, hw, h => by
    simp only [ResLeOneFields] at hw
    simp only [DType.member?, dictGet] at h
    by_cases e : k' = k
    · simp only [e, if_true] at h; injection h with h; subst h; exact hw.1
    · simp only [e, if_false] at h
      exact member_resLeOne rest k t hw.2 h

theorem convMember_of_member (m : Mode) : ∀ (ms : List (String × DType F)) (k : String) (t : DType F) (v : PVal F),
    DType.member? ms k = some t → convMember m ms k v = some (conv m t v none)
  | [], _, _, _, h => by simp [DType.member?, dictGet] at h
  | (k', t') :: rest, k, t, v, h => by
    simp only [DType.member?, dictGet] at h
    simp only [convMember]
    by_cases e : k' = k
    · simp only [e, if_true] at h ⊢; injection h with h; subst h; rfl
    · simp only [e, if_false] at h ⊢
      exact convMember_of_member m rest k t v h

theorem givenKeys_mem : ∀ (fields : List (String × PVal F)) (k : String) (x : PVal F),
    (k, x) ∈ fields → x ≠ .none → k ∈ givenKeys fields
  | [], _, _, h, _ => by cases h
  | (k', x') :: rest, k, x, h, hx => by
    rcases List.mem_cons.1 h with e | e
    · injection e with e1 e2; subst e1; subst e2
      cases x <;> simp [givenKeys] at hx ⊢
    · have ih := givenKeys_mem rest k x e hx
      cases x' <;> simp [givenKeys, ih]

/-- an `EnumMember` is only converted by enums and booleans, which do not distinguish `validate` -/
theorem call_enum_validate {b : DType F} {n : String} {k : Int} {r : PVal F}
    (h : call b (.enum n k) = .ok r) : validate b (.enum n k) none = .ok r := by
  cases b <;> simp only [call, validate, conv] at h ⊢
  case double => simp [doubleCall, toFloat?] at h; cases h
  case int => simp [intCall] at h; cases h
  case scaled => simp [scaledCall, toFloat?] at h; cases h
  case bool => exact h
  case enum => exact h
  case string => exact h
  case blob => exact h
  case array => simp [seqItems?] at h
  case tuple => simp [seqItems?] at h
  case struct => cases h

theorem compatFields_members : ∀ (ms ms' : List (String × DType F)), compatFields ms ms' = .ok () →
    ∀ k ∈ ms.map (·.1), k ∈ ms'.map (·.1)
  | [], _, _, k, hk => by cases hk
  | (k0, t) :: rest, ms', h, k, hk => by
    simp only [compatFields] at h
    split at h
    · cases h
    · rename_i t' ht'
      split at h
      · cases h
      · simp only [List.map_cons, List.mem_cons] at hk
        rcases hk with e | e
        · subst e; exact member_name ms' _ t' ht'
        · exact compatFields_members rest ms' h k e

/-! ### soundness: mutual induction over the first datatype -/

mutual
theorem compat_sound : ∀ (a b : DType F), a.WF → b.WF → GridAligned a → GridAligned b → ResLeOne b →
    OptionalRespected a b → compatible a b = .ok () → ∀ v, InSet a v → ∃ r, validate b v none = .ok r
  | .double amin amax _ _, b, ha, hb, _, hbl, hres, _, h, v, hv => by
    simp only [DType.WF] at ha
    obtain ⟨f1, f2, _, _, _, c1, c2, _⟩ := ha
    cases v <;> simp only [InSet, InSetG] at hv <;> try exact hv.elim
    case float x =>
      cases b <;> simp only [compatible] at h <;> try cases h
      case double => exact floats_between hb trivial hres hbl f1 f2 c1 c2 h hv.2.1 hv.2.2
      case scaled => exact floats_between hb trivial hres hbl f1 f2 c1 c2 h hv.2.1 hv.2.2
  | .scaled s amin amax _ _, b, ha, hb, hal, hbl, hres, _, h, v, hv => by
    simp only [DType.WF] at ha
    obtain ⟨_, _, f1, f2, _, c1, c2, _⟩ := ha
    simp only [GridAligned] at hal
    cases v <;> simp only [InSet, InSetG] at hv <;> try exact hv.elim
    case float x =>
      have hbs := hv.2
      simp only [BetweenSnapped, hal.1, hal.2] at hbs
      cases b <;> simp only [compatible] at h <;> try cases h
      case double => exact floats_between hb trivial hres hbl f1 f2 c1 c2 h hbs.1 hbs.2
      case scaled => exact floats_between hb trivial hres hbl f1 f2 c1 c2 h hbs.1 hbs.2
  | .int amin amax, b, ha, hb, _, hbl, hres, _, h, v, hv => by
    simp only [DType.WF] at ha
    cases v <;> simp only [InSet, InSetG] at hv <;> try exact hv.elim
    case int i =>
      cases b <;> simp only [compatible] at h <;> try cases h
      case int => exact ints_between_int h hv.1 hv.2
      case double => exact ints_between hb trivial hres hbl ha.2.1 ha.2.2 h hv.1 hv.2
      case scaled => exact ints_between hb trivial hres hbl ha.2.1 ha.2.2 h hv.1 hv.2
      case enum ms =>
        have := allFrom_ok _ _ h i hv.1 (by omega)
        obtain ⟨r, hr⟩ := check_ok this
        exact ⟨r, by simpa only [validate, call, conv] using hr⟩
      case bool =>
        have := allFrom_ok _ _ h i hv.1 (by omega)
        obtain ⟨r, hr⟩ := check_ok this
        exact ⟨r, by simpa only [validate, call, conv] using hr⟩
  | .bool, b, _, _, _, _, _, _, h, v, hv => by
    simp only [compatible] at h
    obtain ⟨h1, h2⟩ := limitsValid_parts h
    cases v <;> simp only [InSet, InSetG] at hv <;> try exact hv.elim
    case bool x => cases x <;> assumption
  | .enum ms, b, _, _, _, _, _, _, h, v, hv => by
    simp only [compatible] at h
    cases v <;> simp only [InSet, InSetG] at hv <;> try exact hv.elim
    case enum n k =>
      have := allMembers_ok ms h (n, k) hv
      obtain ⟨r, hr⟩ := check_ok this
      exact ⟨r, call_enum_validate hr⟩
  | .string a1 a2 u, b, _, _, _, _, _, _, h, v, hv => by
    cases v <;> simp only [InSet, InSetG] at hv <;> try exact hv.elim
    case str s =>
      cases b with
      | string b1 b2 w =>
        simp only [compatible] at h
        split at h
        · cases h
        · rename_i hc
          simp only [Bool.or_eq_true, decide_eq_true_eq, Bool.and_eq_true, Bool.not_eq_true', not_or, not_and,
            Nat.not_lt, Bool.not_eq_false] at hc
          obtain ⟨⟨c1, c2⟩, c3⟩ := hc
          obtain ⟨l1, l2, asc, nul⟩ := hv
          refine ⟨.str s, ?_⟩
          have hasc : (!w && !isAscii s) = false := by
            cases w
            · have hu : u = false := by
                cases u
                · rfl
                · exact absurd (c3 rfl) (by simp)
              have : isAscii s = true := by
                unfold isAscii
                simp only [List.all_eq_true, decide_eq_true_eq]
                exact asc hu
              simp [this]
            · rfl
          have hnul : hasNul s = false := by
            unfold hasNul
            simp only [List.any_eq_false, beq_iff_eq]
            exact nul
          have g1 : ¬ s.length < b1 := by omega
          have g2 : ¬ s.length > b2 := by omega
          simp only [validate, conv, stringCall, hasc, hnul, g1, g2, if_false, Bool.false_eq_true]
          rfl
      | _ => simp only [compatible] at h <;> cases h
  | .blob a1 a2, b, _, _, _, _, _, _, h, v, hv => by
    cases v <;> simp only [InSet, InSetG] at hv <;> try exact hv.elim
    case bytes s =>
      cases b with
      | blob b1 b2 =>
        simp only [compatible] at h
        split at h
        · cases h
        · rename_i hc
          simp only [Bool.or_eq_true, decide_eq_true_eq, not_or, Nat.not_lt] at hc
          refine ⟨.bytes s, ?_⟩
          have g1 : ¬ s.length < b1 := by omega
          have g2 : ¬ s.length > b2 := by omega
          simp only [validate, conv, blobCall, g1, g2, if_false]
          rfl
      | _ => simp only [compatible] at h <;> cases h
  | .array e a1 a2, b, ha, hb, hal, hbl, hres, hopt, h, v, hv => by
    cases v <;> simp only [InSet, InSetG] at hv <;> try exact hv.elim
    case tuple vs =>
      cases b with
      | array e' b1 b2 =>
        simp only [compatible] at h
        split at h
        · cases h
        · rename_i hc
          simp only [Bool.or_eq_true, decide_eq_true_eq, not_or, Nat.not_lt] at hc
          simp only [DType.WF] at ha hb
          simp only [GridAligned] at hal hbl
          simp only [ResLeOne] at hres
          simp only [OptionalRespected] at hopt
          have hall : ∀ x ∈ vs, ∃ r, conv .validate e' x none = .ok r :=
            fun x hx => compat_sound e e' ha.1 hb.1 hal hbl hres hopt h x (hv.1 x hx)
          obtain ⟨rs, hrs⟩ := mapPrev_all_ok vs hall
          refine ⟨.tuple rs, ?_⟩
          have g1 : ¬ vs.length < b1 := by omega
          have g2 : ¬ vs.length > b2 := by omega
          simp only [validate, conv, seqItems?, g1, g2, if_false, prevItems, hrs, mapErr]
          rfl
      | _ => simp only [compatible] at h <;> cases h
  | .tuple es, b, ha, hb, hal, hbl, hres, hopt, h, v, hv => by
    cases v <;> simp only [InSet, InSetG] at hv <;> try exact hv.elim
    case tuple vs =>
      cases b with
      | tuple es' =>
        simp only [compatible] at h
        split at h
        · cases h
        · rename_i hlen
          simp only [ne_eq, Decidable.not_not] at hlen
          simp only [DType.WF] at ha hb
          simp only [GridAligned] at hal hbl
          simp only [ResLeOne] at hres
          simp only [OptionalRespected] at hopt
          obtain ⟨⟨rs, hrs⟩, hl⟩ := compatList_sound es es' ha.2 hb.2 hal hbl hres hopt h vs hv
          refine ⟨.tuple rs, ?_⟩
          have g : ¬ vs.length ≠ es'.length := by have := zipInG_length es vs hv; simp; omega
          simp only [validate, conv, seqItems?, g, if_false, hrs, mapErr]
          rfl
      | _ => simp only [compatible] at h <;> cases h
  | .struct ms opt c, b, ha, hb, hal, hbl, hres, hopt, h, v, hv => by
    cases v <;> simp only [InSet, InSetG] at hv <;> try exact hv.elim
    case dict fields =>
      cases b with
      | struct ms' opt' c' =>
        simp only [compatible] at h
        split at h
        · cases h
        · rename_i hcf
          split at h
          · rename_i hmc
            simp only [DType.WF] at ha hb
            simp only [GridAligned] at hal hbl
            simp only [ResLeOne] at hres
            simp only [OptionalRespected] at hopt
            obtain ⟨hmem, hnd, hmand⟩ := hv
            have hfs := compatFields_sound ms ms' ha.2.2.2 hb.2.2.2 hal hbl hres hopt.2 (by rw [hcf])
            have hall : ∀ kv ∈ fields, kv.2 = .none ∨ ∃ r, convMember .validate ms' kv.1 kv.2 = some (.ok r) :=
              fun kv hkv => Or.inr (hfs kv.1 kv.2 (hmem kv hkv))
            obtain ⟨res, hres'⟩ := foldFields_all_ok fields [] hall
            have hsc : structCheck (ms'.map (·.1)) opt' true fields = true := by
              unfold structCheck
              simp only [Bool.and_eq_true, List.all_eq_true, List.contains_eq_mem, decide_eq_true_eq,
                Bool.or_eq_true, Bool.true_and]
              refine ⟨?_, ?_⟩
              · intro kv hkv
                exact compatFields_members ms ms' (by rw [hcf]) kv.1 (memberInG_name ms kv.1 kv.2 (hmem kv hkv))
              · intro k hk
                by_cases ho : k ∈ opt'
                · exact Or.inr ho
                · left
                  unfold mandatoryCovered at hmc
                  simp only [List.all_eq_true, Bool.or_eq_true, List.contains_eq_mem, decide_eq_true_eq] at hmc
                  have hx : (decide (k ∈ ms.map (·.1)) &&
                      !(someMandatory (ms.map (·.1)) opt && decide (k ∈ opt))) = true := by
                    rcases hmc k hk with x | x
                    · exact absurd x ho
                    · exact x
                  simp only [Bool.and_eq_true, decide_eq_true_eq, Bool.not_eq_true', Bool.and_eq_false_iff,
                    decide_eq_false_iff_not] at hx
                  have hk1 : k ∈ ms.map (·.1) := hx.1
                  have hk2 : k ∉ opt := by
                    rcases hx.2 with hsm | hno
                    · -- all members are optional here: the side condition of the theorem
                      intro hko
                      have hall : ∀ k ∈ ms.map (·.1), k ∈ opt := by
                        unfold someMandatory at hsm
                        simp only [Bool.not_eq_false', Bool.and_eq_true, List.all_eq_true, List.contains_eq_mem,
                          decide_eq_true_eq] at hsm
                        exact hsm.1
                      exact ho (hopt.1 hall k hko hk)
                    · exact hno
                  have hk3 := hmand k hk1 hk2
                  obtain ⟨kv, hkv, hkeq⟩ := List.mem_map.1 hk3
                  have := givenKeys_mem fields kv.1 kv.2 hkv (memberInG_ne_none ms kv.1 kv.2 (hmem kv hkv))
                  rw [hkeq] at this
                  exact this
            refine ⟨.dict res, ?_⟩
            have hsf : structFold (convMember .validate ms') fields (PVal.notOffered fields []) = .ok res := by
              simp only [structFold, PVal.notOffered, List.filter_nil, foldFields, hres']
            simp only [validate, conv, Bool.or_true, beq_self_eq_true, hsc, if_true, prevFields, hsf, mapErr]
            rfl
          · cases h
      | _ => simp only [compatible] at h <;> cases h
theorem compatList_sound : ∀ (es es' : List (DType F)), DType.WFList es → DType.WFList es' →
    GridAlignedList es → GridAlignedList es' → ResLeOneList es' → OptionalRespectedList es es' →
    compatList es es' = .ok () →
    ∀ vs, ZipInG OnGrid es vs → (∃ rs, convTuple .validate es' vs none = .ok rs) ∧ True
  | [], es', _, _, _, _, _, _, _, vs, hv => by
    cases vs
    · cases es' <;> exact ⟨⟨[], by simp [convTuple]⟩, trivial⟩
    · simp [ZipInG] at hv
  | t :: ts, [], _, _, _, _, _, _, _, vs, hv => ⟨⟨[], by simp [convTuple]⟩, trivial⟩
  | t :: ts, t' :: ts', ha, hb, hal, hbl, hres, hopt, h, vs, hv => by
    cases vs with
    | nil => simp [ZipInG] at hv
    | cons x xs =>
      simp only [ZipInG] at hv
      simp only [DType.WFList] at ha hb
      simp only [GridAlignedList] at hal hbl
      simp only [ResLeOneList] at hres
      simp only [OptionalRespectedList] at hopt
      simp only [compatList] at h
      split at h
      · cases h
      · rename_i hc
        obtain ⟨r, hr⟩ := compat_sound t t' ha.1 hb.1 hal.1 hbl.1 hres.1 hopt.1 (by rw [hc]) x hv.1
        obtain ⟨⟨rs, hrs⟩, _⟩ := compatList_sound ts ts' ha.2 hb.2 hal.2 hbl.2 hres.2 hopt.2 h xs hv.2
        refine ⟨⟨r :: rs, ?_⟩, trivial⟩
        simp only [validate] at hr
        simp only [convTuple, hr, hrs]
theorem compatFields_sound : ∀ (ms ms' : List (String × DType F)), DType.WFFields ms → DType.WFFields ms' →
    GridAlignedFields ms → GridAlignedFields ms' → ResLeOneFields ms' → OptionalRespectedFields ms ms' →
    compatFields ms ms' = .ok () →
    ∀ k x, MemberInG OnGrid ms k x → ∃ r, convMember .validate ms' k x = some (.ok r)
  | [], _, _, _, _, _, _, _, _, k, x, hm => by simp [MemberInG] at hm
  | (k0, t) :: rest, ms', ha, hb, hal, hbl, hres, hopt, h, k, x, hm => by
    simp only [DType.WFFields] at ha
    simp only [GridAlignedFields] at hal
    simp only [OptionalRespectedFields] at hopt
    simp only [compatFields] at h
    split at h
    · cases h
    · rename_i t' ht'
      split at h
      · cases h
      · rename_i hc
        simp only [MemberInG] at hm
        by_cases e : k0 = k
        · subst e
          simp only [if_true] at hm
          have ho : OptionalRespected t t' := by have := hopt.1; rw [ht'] at this; exact this
          obtain ⟨r, hr⟩ := compat_sound t t' ha.1 (member_wf ms' _ t' hb ht') hal.1
            (member_aligned ms' _ t' hbl ht') (member_resLeOne ms' _ t' hres ht') ho (by rw [hc]) x hm
          exact ⟨r, by rw [convMember_of_member .validate ms' _ t' x ht']; simp only [validate] at hr; rw [hr]⟩
        · simp only [e, if_false] at hm
          exact compatFields_sound rest ms' ha.2 hb hal.2 hbl hres hopt.2 h k x hm
end

end Frappy.Lemmas.C03
