import FrappyProofs.Lemmas.Config
import FrappyModel.Spec.C10
/- C10 — lemmas for the main unit and for the search of configuration files -/
namespace Frappy.Lemmas.ConfigUnit
open Frappy.Config Frappy.Spec.C10 Frappy.Lemmas.Config

variable {DT Val : Type}

/-- in a list with distinct names `findInst` finds THE element of that name -/
theorem findInst_of_mem (n : Name) : ∀ (l : List (PInst DT Val)), (l.map (·.name)).Nodup →
    ∀ p ∈ l, p.name = n → findInst n l = some p := by
  intro l
  induction l with
  | nil => intro _ p hp; cases hp
  | cons x l ih =>
    intro hnd p hp hn
    simp only [List.map_cons, List.nodup_cons] at hnd
    simp only [findInst]
    rcases List.mem_cons.1 hp with rfl | hp'
    · simp [hn]
    · have hx : x.name ≠ n := by
        intro hx
        exact hnd.1 (by rw [hx, ← hn]; exact List.mem_map_of_mem hp')
      simp [hx, ih hnd.2 p hp' hn]

theorem findInst_none (n : Name) : ∀ (l : List (PInst DT Val)), n ∉ l.map (·.name) → findInst n l = none := by
  intro l
  induction l with
  | nil => intro _; rfl
  | cons x l ih =>
    intro h
    simp only [List.map_cons, List.mem_cons, not_or] at h
    simp only [findInst]
    have hx : x.name ≠ n := fun e => h.1 e.symm
    simp [hx, ih h.2]

/-- the parameter objects of an accepted instance carry the names of the class, in order -/
theorem accepted_names (ops : Ops DT Val) (c : ClassDesc DT Val) (cfg : Cfg Val) (i : Instance DT Val)
    (acc : Accepted ops c cfg i) : i.params.map (·.name) = c.params.map (·.name) := by
  obtain ⟨outs, hrun, hi, _, _, _⟩ := accepted_run ops c cfg i acc
  rw [hi, ← run_names ops cfg c.params [] outs hrun]
  simp

/-! ## the search for a configuration file -/

/-- one directory: the first suffix under which the name exists -/
theorem find_in_dir (isFile : String → String → Bool) (d n : String) :
    (cfgSuffixes.map fun s => (d, n ++ s)).find? (fun c => isFile c.1 c.2) =
      (cfgSuffixes.find? fun s => isFile d (n ++ s)).map fun s => (d, n ++ s) := by
  simp only [cfgSuffixes, List.map_cons, List.map_nil, List.find?_cons, List.find?_nil]
  cases isFile d (n ++ "_cfg.py") <;> cases isFile d (n ++ ".py") <;> cases isFile d (n ++ "") <;> rfl

theorem candidates_cons (d : String) (ds : List String) (n : String) :
    candidates (d :: ds) n = (cfgSuffixes.map fun s => (d, n ++ s)) ++ candidates ds n := by
  simp [candidates]

end Frappy.Lemmas.ConfigUnit
