import FrappyModel.Spec.C17
/-
Helper lemmas for C17: the abstract file system, the events of one save, the start-up functions.
-/
namespace Frappy.Persist
open Frappy.Spec.C17
set_option linter.unusedSectionVars false
set_option linter.unusedSimpArgs false

section fs
variable {P : Type} [DecidableEq P]

@[simp] theorem set_same (fs : FS P) (p : P) (c : Option Bytes) : (fs.set p c) p = c := by
  simp [FS.set]

theorem set_other (fs : FS P) {p q : P} (c : Option Bytes) (h : q ≠ p) : (fs.set p c) q = fs q := by
  simp [FS.set, h]

@[simp] theorem applyEvs_nil (fs : FS P) : applyEvs fs [] = fs := rfl
@[simp] theorem applyEvs_cons (fs : FS P) (e : Ev P) (l : List (Ev P)) :
    applyEvs fs (e :: l) = applyEvs (applyEv fs e) l := rfl

theorem applyEvs_append (fs : FS P) (a b : List (Ev P)) :
    applyEvs fs (a ++ b) = applyEvs (applyEvs fs a) b := by
  simp [applyEvs, List.foldl_append]

theorem applyEvs_map_ok (fs : FS P) (ops : List (FsOp P)) :
    applyEvs fs (ops.map okEv) = applyOps fs ops := by
  induction ops generalizing fs with
  | nil => rfl
  | cons o os ih => simp [applyOps, List.foldl_cons, applyEv, okEv] at *; exact ih _

/-- an event that cannot change any file but `tmp` -/
def LocalTo (tmp : P) (e : Ev P) : Prop :=
  match e.op with
  | .openTrunc p => p = tmp
  | .write p _ => p = tmp
  | .close _ => True
  | .rename _ _ => e.failed = true
  | .remove p => p = tmp

theorem applyEv_local {tmp : P} {e : Ev P} (h : LocalTo tmp e) (fs : FS P) {q : P} (hq : q ≠ tmp) :
    applyEv fs e q = fs q := by
  obtain ⟨op, failed⟩ := e
  cases op with
  | openTrunc p =>
    simp only [LocalTo] at h; subst h
    cases failed <;> simp [applyEv, failEffect, applyOp, set_other _ _ hq]
  | write p c =>
    simp only [LocalTo] at h; subst h
    have hw : applyOp fs (.write p c) q = fs q := by
      simp only [applyOp]; cases hfp : fs p <;> simp [set_other _ _ hq]
    cases failed <;> simpa [applyEv, failEffect] using hw
  | close p => cases failed <;> simp [applyEv, failEffect, applyOp]
  | rename s d =>
    simp only [LocalTo] at h; subst h
    simp [applyEv, failEffect]
  | remove p =>
    simp only [LocalTo] at h; subst h
    cases failed <;> simp [applyEv, failEffect, applyOp, set_other _ _ hq]

theorem applyEvs_local {tmp : P} {l : List (Ev P)} (h : ∀ e ∈ l, LocalTo tmp e) (fs : FS P) {q : P}
    (hq : q ≠ tmp) : applyEvs fs l q = fs q := by
  induction l generalizing fs with
  | nil => rfl
  | cons e l ih =>
    rw [applyEvs_cons, ih (fun e' he' => h e' (List.mem_cons_of_mem _ he')), applyEv_local (h e (List.mem_cons_self)) fs hq]

theorem prefix_local {tmp : P} {l p : List (Ev P)} (h : ∀ e ∈ l, LocalTo tmp e) (hp : p <+: l) :
    ∀ e ∈ p, LocalTo tmp e := fun e he => h e (hp.subset he)

theorem prefix_cons_cases {α : Type} {p : List α} {a : α} {l : List α} (h : p <+: a :: l) :
    p = [] ∨ ∃ p', p = a :: p' ∧ p' <+: l := by
  cases p with
  | nil => exact Or.inl rfl
  | cons b p' =>
    right
    obtain ⟨t, ht⟩ := h
    simp only [List.cons_append, List.cons.injEq] at ht
    exact ⟨p', by rw [ht.1], ⟨t, ht.2⟩⟩

/-! ### the phases of one save -/

theorem failedWrite_local (tmp : P) (part : Bytes) (after : List (Bytes × Bool)) (cl : Bool) :
    ∀ e ∈ failedWrite tmp part after cl, LocalTo tmp e := by
  intro e he
  simp only [failedWrite, List.mem_cons, List.mem_append, List.mem_map, List.not_mem_nil, or_false] at he
  rcases he with rfl | ⟨c, _, rfl⟩ | rfl | rfl <;> simp [LocalTo, badEv, okEv, rmEv]

theorem failedWrite_final (tmp : P) (part : Bytes) (after : List (Bytes × Bool)) (fs : FS P) :
    applyEvs fs (failedWrite tmp part after false) tmp = none := by
  have : failedWrite tmp part after false =
      (badEv (.write tmp part) :: (after.map (fun c => (⟨.write tmp c.1, c.2⟩ : Ev P)) ++ [okEv (.close tmp)])) ++
        [okEv (.remove tmp)] := by simp [failedWrite, rmEv, okEv]
  rw [this, applyEvs_append]
  simp [applyEv, okEv, applyOp]

/-- What the target may hold while / after the phases following the `open` run: `b` is what the
temporary file holds so far. -/
theorem tailRun_prefix {tgt tmp : P} (htt : tgt ≠ tmp) (cl : Bool) (k : Option Nat) (fs : FS P) (b : Bytes)
    (hb : fs tmp = some b) (p : List (Ev P)) (hp : p <+: (tailRun tgt tmp cl k).evs) :
    applyEvs fs p tgt = fs tgt ∨ applyEvs fs p tgt = some b := by
  have hclose : ∀ f, applyEv fs ⟨.close tmp, f⟩ = fs := by
    intro f; cases f <;> simp [applyEv, failEffect, applyOp]
  have hloc : ∀ l : List (Ev P), (∀ e ∈ l, LocalTo tmp e) → p <+: l → applyEvs fs p tgt = fs tgt :=
    fun l hl hpl => applyEvs_local (prefix_local hl hpl) fs htt
  have hren : ∀ (e : Ev P), LocalTo tmp e → p <+: [okEv (.close tmp), okEv (.rename tmp tgt), e] →
      applyEvs fs p tgt = fs tgt ∨ applyEvs fs p tgt = some b := by
    intro e he hpl
    rcases prefix_cons_cases hpl with rfl | ⟨p1, rfl, hp1⟩
    · exact Or.inl rfl
    rcases prefix_cons_cases hp1 with rfl | ⟨p2, rfl, hp2⟩
    · left; simp [okEv, hclose]
    right
    have h2 : ∀ e' ∈ p2, LocalTo tmp e' := prefix_local (l := [e]) (by simpa using he) hp2
    rw [applyEvs_cons, applyEvs_cons, applyEvs_local h2 _ htt]
    simp [okEv, hclose, applyEv, applyOp, hb, set_other _ _ htt]
  unfold tailRun at hp
  split at hp
  · exact Or.inl (hloc _ (by simp [LocalTo, badEv, okEv, rmEv]) hp)
  · exact Or.inl (hloc _ (by simp [LocalTo, badEv, okEv, rmEv]) hp)
  · exact hren _ (by simp [LocalTo, badEv]) hp
  · exact hren _ (by simp [LocalTo, okEv]) hp

theorem writesRun_prefix {tgt tmp : P} (htt : tgt ≠ tmp) (part : Bytes) (after : List (Bytes × Bool)) (cl : Bool) (chunks : List Bytes) :
    ∀ (k : Option Nat) (fs : FS P) (b : Bytes), fs tmp = some b →
      ∀ p, p <+: (writesRun tgt tmp part after cl chunks k).evs →
        applyEvs fs p tgt = fs tgt ∨ applyEvs fs p tgt = some (b ++ chunks.flatten) := by
  induction chunks with
  | nil =>
    intro k fs b hb p hp
    simpa using tailRun_prefix htt cl k fs b hb p hp
  | cons c cs ih =>
    intro k fs b hb p hp
    unfold writesRun at hp
    split at hp
    · left
      exact applyEvs_local (prefix_local (failedWrite_local tmp part after cl) hp) fs htt
    · simp only [Run.cons] at hp
      rcases prefix_cons_cases hp with rfl | ⟨p1, rfl, hp1⟩
      · exact Or.inl rfl
      have h1 : applyEv fs (okEv (.write tmp c)) tmp = some (b ++ c) := by
        simp [okEv, applyEv, applyOp, hb]
      have h2 : applyEv fs (okEv (.write tmp c)) tgt = fs tgt :=
        applyEv_local (tmp := tmp) (by simp [LocalTo, okEv]) fs htt
      have := ih (tick k) _ _ h1 p1 hp1
      rw [applyEvs_cons, h2] at *
      simpa [List.append_assoc] using this

theorem saveRun_prefix {tgt tmp : P} (htt : tgt ≠ tmp) (chunks : List Bytes) (fault : Option Fault)
    (fs : FS P) (p : List (Ev P)) (hp : p <+: (saveRun tgt tmp chunks fault).evs) :
    applyEvs fs p tgt = fs tgt ∨ applyEvs fs p tgt = some chunks.flatten := by
  have hopen : ∀ part after cl k, p <+: ((writesRun tgt tmp part after cl chunks k).cons (okEv (.openTrunc tmp))).evs →
      applyEvs fs p tgt = fs tgt ∨ applyEvs fs p tgt = some chunks.flatten := by
    intro part after cl k hp
    simp only [Run.cons] at hp
    rcases prefix_cons_cases hp with rfl | ⟨p1, rfl, hp1⟩
    · exact Or.inl rfl
    have h1 : applyEv fs (okEv (.openTrunc tmp)) tmp = some [] := by simp [okEv, applyEv, applyOp]
    have h2 : applyEv fs (okEv (.openTrunc tmp)) tgt = fs tgt :=
      applyEv_local (tmp := tmp) (by simp [LocalTo, okEv]) fs htt
    have := writesRun_prefix htt part after cl chunks k _ _ h1 p1 hp1
    rw [applyEvs_cons, h2] at *
    simpa using this
  unfold saveRun at hp
  split at hp
  · exact hopen _ _ _ _ hp
  · split at hp
    · left
      exact applyEvs_local (prefix_local (l := [badEv (.openTrunc tmp), rmEv tmp _])
        (by simp [LocalTo, badEv, okEv, rmEv]) hp) fs htt
    · exact hopen _ _ _ _ hp

/-! ### final state of one save -/

/-- how a call ended, as far as the two files are concerned -/
def Final (fs fs' : FS P) (tgt tmp : P) (new : Bytes) (r : Run P) (cl : Bool) : Prop :=
  (cl = false → fs' tmp = none) ∧ (r.renamed = true → fs' tgt = some new) ∧ (r.renamed = false → fs' tgt = fs tgt)

theorem tailRun_final {tgt tmp : P} (htt : tgt ≠ tmp) (cl : Bool) (k : Option Nat) (fs : FS P) (b : Bytes)
    (hb : fs tmp = some b) :
    Final fs (applyEvs fs (tailRun tgt tmp cl k).evs) tgt tmp b (tailRun tgt tmp cl k) cl := by
  have htt' : tmp ≠ tgt := fun h => htt h.symm
  unfold Final tailRun
  split <;> cases cl <;> simp [applyEv, failEffect, applyOp, okEv, badEv, rmEv, hb, set_other _ _ htt, set_other _ _ htt']

theorem writesRun_final {tgt tmp : P} (htt : tgt ≠ tmp) (part : Bytes) (after : List (Bytes × Bool)) (cl : Bool) (chunks : List Bytes) :
    ∀ (k : Option Nat) (fs : FS P) (b : Bytes), fs tmp = some b →
      Final fs (applyEvs fs (writesRun tgt tmp part after cl chunks k).evs) tgt tmp (b ++ chunks.flatten)
        (writesRun tgt tmp part after cl chunks k) cl := by
  induction chunks with
  | nil => intro k fs b hb; simpa [writesRun] using tailRun_final htt cl k fs b hb
  | cons c cs ih =>
    intro k fs b hb
    unfold writesRun
    split
    · exact ⟨fun h => by subst h; exact failedWrite_final tmp part after fs, by simp,
        fun _ => applyEvs_local (failedWrite_local tmp part after cl) fs htt⟩
    · have h1 : applyEv fs (okEv (.write tmp c)) tmp = some (b ++ c) := by
        simp [okEv, applyEv, applyOp, hb]
      have h2 : applyEv fs (okEv (.write tmp c)) tgt = fs tgt :=
        applyEv_local (tmp := tmp) (by simp [LocalTo, okEv]) fs htt
      have := ih (tick k) _ _ h1
      unfold Final at *
      simp only [Run.cons, applyEvs_cons]
      rw [h2] at this
      simpa [List.append_assoc] using this

theorem saveRun_final {tgt tmp : P} (htt : tgt ≠ tmp) (chunks : List Bytes) (fault : Option Fault) (fs : FS P) :
    Final fs (applyEvs fs (saveRun tgt tmp chunks fault).evs) tgt tmp chunks.flatten
      (saveRun tgt tmp chunks fault) (match fault with
        | some f => f.cleanup
        | none => false) := by
  have hopen : ∀ part after cl k,
      Final fs (applyEvs fs ((writesRun tgt tmp part after cl chunks k).cons (okEv (.openTrunc tmp))).evs) tgt tmp
        chunks.flatten ((writesRun tgt tmp part after cl chunks k).cons (okEv (.openTrunc tmp))) cl := by
    intro part after cl k
    have h1 : applyEv fs (okEv (.openTrunc tmp)) tmp = some [] := by simp [okEv, applyEv, applyOp]
    have h2 : applyEv fs (okEv (.openTrunc tmp)) tgt = fs tgt :=
      applyEv_local (tmp := tmp) (by simp [LocalTo, okEv]) fs htt
    have := writesRun_final htt part after cl chunks k _ _ h1
    unfold Final at *
    simp only [Run.cons, applyEvs_cons]
    rw [h2] at this
    simpa using this
  unfold saveRun
  split
  · exact hopen _ _ _ _
  · rename_i f
    split
    · cases hcl : f.cleanup <;>
        simp [Final, applyEv, failEffect, applyOp, okEv, badEv, rmEv, hcl, set_other _ _ htt]
    · exact hopen _ _ _ _

/-- the fault-free run performs exactly `saveOps` -/
theorem writesRun_none (tgt tmp : P) (part : Bytes) (after : List (Bytes × Bool)) (cl : Bool) (chunks : List Bytes) :
    (writesRun tgt tmp part after cl chunks none).evs =
      (chunks.map (FsOp.write tmp) ++ [FsOp.close tmp, FsOp.rename tmp tgt, FsOp.remove tmp]).map okEv ∧
    (writesRun tgt tmp part after cl chunks none).renamed = true ∧ (writesRun tgt tmp part after cl chunks none).raised = false := by
  induction chunks with
  | nil => simp [writesRun, tailRun]
  | cons c cs ih => simp [writesRun, Run.cons, tick, ih]

theorem saveRun_none (tgt tmp : P) (chunks : List Bytes) :
    (saveRun tgt tmp chunks none).evs = (saveOps tgt tmp chunks).map okEv ∧
    (saveRun tgt tmp chunks none).renamed = true ∧ (saveRun tgt tmp chunks none).raised = false := by
  have := writesRun_none tgt tmp [] [] false chunks
  simp [saveRun, Run.cons, saveOps, this]

/-- a call that did not get as far as the rename raised -/
theorem tailRun_not_renamed (tgt tmp : P) (cl : Bool) (k : Option Nat) :
    (tailRun tgt tmp cl k).renamed = false → (tailRun tgt tmp cl k).raised = true := by
  unfold tailRun; split <;> simp

theorem writesRun_not_renamed (tgt tmp : P) (part : Bytes) (after : List (Bytes × Bool)) (cl : Bool) (chunks : List Bytes) (k : Option Nat) :
    (writesRun tgt tmp part after cl chunks k).renamed = false → (writesRun tgt tmp part after cl chunks k).raised = true := by
  induction chunks generalizing k with
  | nil => simpa [writesRun] using tailRun_not_renamed tgt tmp cl k
  | cons c cs ih =>
    unfold writesRun
    split
    · simp
    · simpa [Run.cons] using ih (tick k)

theorem saveRun_not_renamed (tgt tmp : P) (chunks : List Bytes) (fault : Option Fault) :
    (saveRun tgt tmp chunks fault).renamed = false → (saveRun tgt tmp chunks fault).raised = true := by
  unfold saveRun
  split
  · simpa [Run.cons] using writesRun_not_renamed tgt tmp _ _ _ chunks _
  · split
    · simp
    · simpa [Run.cons] using writesRun_not_renamed tgt tmp _ _ _ chunks _

/-- every run begins with the `open` of the temporary file: a save that runs touches the disk -/
theorem saveRun_evs_ne_nil (tgt tmp : P) (chunks : List Bytes) (fault : Option Fault) :
    (saveRun tgt tmp chunks fault).evs ≠ [] := by
  unfold saveRun
  split
  · simp [Run.cons]
  · split <;> simp [Run.cons]

end fs

/-! ## monitors -/

theorem judgeSnapshots_none_iff (old : Option Bytes) (new : Bytes) (snaps : List (Option Bytes)) (i : Nat) :
    judgeSnapshots old new snaps i = none ↔ ∀ s ∈ snaps, CompleteSnapshot s old new := by
  induction snaps generalizing i with
  | nil => simp [judgeSnapshots]
  | cons s rest ih =>
    unfold judgeSnapshots
    by_cases h : CompleteSnapshot s old new
    · simp [h, ih]
    · simp [h]

theorem judgeStart_nil_iff {N V : Type} [DecidableEq V] (parse : Bytes → Option (JV N))
    (imp : String → JV N → Option V) (file : Option Bytes) (obs : List (StartObs V)) :
    judgeStart parse imp file obs = [] ↔ Precedence parse imp file obs := by
  unfold judgeStart Precedence
  simp [List.filter_eq_nil_iff]

theorem restoresB_iff {V : Type} [DecidableEq V] (saved restored : List (String × V)) :
    restoresB saved restored = true ↔ Restores saved restored := by
  unfold restoresB Restores
  simp [List.all_eq_true]

end Frappy.Persist

namespace Frappy.Persist
open Frappy.Spec.C17
set_option linter.unusedSectionVars false
set_option linter.unusedSimpArgs false

/-! ## loading -/

theorem importEntry_key {N V : Type} (ps : List (Param V)) (imp : String → JV N → Option V)
    (e : String × JV N) (r : String × V) (h : importEntry ps imp e = some r) : r.1 = e.1 := by
  unfold importEntry at h
  split at h
  · split at h
    · cases hi : imp e.1 e.2 <;> simp [hi] at h
      rw [← h]
    · cases h
  · cases h

theorem lookup_filterMap_absent {N V : Type} (ps : List (Param V)) (imp : String → JV N → Option V)
    (raw : Dict N) (n : String) (h : n ∉ raw.map Prod.fst) :
    (loadEntries ps imp raw).lookup n = none := by
  induction raw with
  | nil => rfl
  | cons e rest ih =>
    simp only [List.map_cons, List.mem_cons, not_or] at h
    unfold loadEntries at *
    rw [List.filterMap_cons]
    cases hi : importEntry ps imp e with
    | none => simpa using ih h.2
    | some r =>
      have hk := importEntry_key ps imp e r hi
      obtain ⟨rk, rv⟩ := r
      simp only at hk
      have : (n == rk) = false := by rw [hk]; simpa using h.1
      simp only [List.lookup_cons, this]; exact ih h.2

/-- looking a name up in what was loaded = looking it up in the file and importing that entry
(the decoded file is a Python dict: its keys are distinct) -/
theorem lookup_loadEntries {N V : Type} (ps : List (Param V)) (imp : String → JV N → Option V)
    (raw : Dict N) (hk : (raw.map Prod.fst).Nodup) (n : String) :
    (loadEntries ps imp raw).lookup n =
      (raw.lookup n).bind (fun j => (importEntry ps imp (n, j)).map Prod.snd) := by
  induction raw with
  | nil => rfl
  | cons e rest ih =>
    obtain ⟨k, j⟩ := e
    simp only [List.map_cons, List.nodup_cons] at hk
    by_cases hkn : n = k
    · subst hkn
      have hrest := lookup_filterMap_absent ps imp rest n hk.1
      unfold loadEntries at *
      rw [List.filterMap_cons]
      simp only [List.lookup_cons, beq_self_eq_true, Option.bind_some]
      cases hi : importEntry ps imp (n, j) with
      | none => simpa using hrest
      | some r =>
        have := importEntry_key ps imp (n, j) r hi
        obtain ⟨rk, rv⟩ := r
        simp only at this
        simp [List.lookup_cons, this]
    · have hb : (n == k) = false := by simpa using hkn
      unfold loadEntries at *
      rw [List.filterMap_cons]
      simp only [List.lookup_cons, hb]
      cases hi : importEntry ps imp (k, j) with
      | none => simpa using ih hk.2
      | some r =>
        have := importEntry_key ps imp (k, j) r hi
        obtain ⟨rk, rv⟩ := r
        simp only at this
        simp only [List.lookup_cons, this, hb]
        exact ih hk.2

theorem findParam_of_mem {V : Type} (ps : List (Param V)) (hn : (ps.map (·.name)).Nodup) (p : Param V)
    (hp : p ∈ ps) : findParam ps p.name = some p := by
  induction ps with
  | nil => cases hp
  | cons q rest ih =>
    simp only [List.map_cons, List.nodup_cons] at hn
    unfold findParam
    rw [List.find?_cons]
    rcases List.mem_cons.1 hp with rfl | hr
    · simp
    · have : (q.name == p.name) = false := by
        simp only [beq_eq_false_iff_ne, ne_eq]
        intro h
        exact hn.1 (h ▸ List.mem_map_of_mem hr)
      simp only [this]
      exact ih hn.2 hr

end Frappy.Persist
