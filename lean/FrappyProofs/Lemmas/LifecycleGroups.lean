import FrappyProofs.Lemmas.LifecycleWrites
/-
Helper lemmas for C15: no module is registered twice for polling (`polledModules`), an invariant of the initialisation
phase (`get_module` runs the body of a module at most once, and only that body registers the module).
-/
namespace Frappy.Proofs.LifecycleGroups
open Frappy.Lifecycle Frappy.Spec.C15 Frappy.Proofs.LifecycleInit

/-- how often `x` is registered with a poll thread -/
def cnt (st : St) (x : Name) : Nat := (st.groups.map (·.2)).count x

theorem cnt_eq {st st' : St} (h : st'.groups = st.groups) (x : Name) : cnt st' x = cnt st x := by
  unfold cnt; rw [h]

structure G (st : St) : Prop where
  fresh : ∀ x, x ∉ st.stack → x ∉ st.inited → cnt st x = 0
  le : ∀ x, cnt st x ≤ 1

/-- the registration of `x` is unchanged, or `x` was initialised in between and is registered at most once -/
def FrAt (st st' : St) (x : Name) : Prop :=
  cnt st' x = cnt st x ∨ (x ∉ st.stack ∧ x ∉ st.inited ∧ x ∈ st'.inited ∧ cnt st' x ≤ 1)

def Fr (st st' : St) : Prop := ∀ x, FrAt st st' x

theorem Fr.refl (st : St) : Fr st st := fun _ => Or.inl rfl

theorem Fr.of_eq {st st' : St} (h : st'.groups = st.groups) : Fr st st' := fun x => Or.inl (cnt_eq h x)

theorem FrAt.trans {a b c : St} {x : Name} (h1 : FrAt a b x) (h2 : FrAt b c x) (hs : b.stack = a.stack)
    (hi : ∀ y ∈ a.inited, y ∈ b.inited) (hi2 : ∀ y ∈ b.inited, y ∈ c.inited) : FrAt a c x := by
  rcases h1 with e1 | ⟨n1, n2, n3, n4⟩ <;> rcases h2 with e2 | ⟨m1, m2, m3, m4⟩
  · exact Or.inl (e2.trans e1)
  · right
    refine ⟨by rw [← hs]; exact m1, fun h => m2 (hi x h), m3, m4⟩
  · right
    exact ⟨n1, n2, hi2 x n3, by rw [e2]; exact n4⟩
  · exact absurd n3 m2

theorem Fr.trans {a b c : St} (h1 : Fr a b) (h2 : Fr b c) (hs : b.stack = a.stack)
    (hi : ∀ y ∈ a.inited, y ∈ b.inited) (hi2 : ∀ y ∈ b.inited, y ∈ c.inited) : Fr a c :=
  fun x => (h1 x).trans (h2 x) hs hi hi2

theorem G.of_fr {st st' : St} (h : G st) (hf : Fr st st') (hs : st'.stack = st.stack)
    (hi : ∀ y ∈ st.inited, y ∈ st'.inited) : G st' := by
  refine ⟨?_, ?_⟩
  · intro x h1 h2
    rcases hf x with e | ⟨_, _, n3, _⟩
    · rw [e]; exact h.fresh x (by rw [← hs]; exact h1) (fun hx => h2 (hi x hx))
    · exact absurd n3 h2
  · intro x
    rcases hf x with e | ⟨_, _, _, n4⟩
    · rw [e]; exact h.le x
    · exact n4

/-- a registration of a module on the stack is not touched -/
theorem FrAt.stack {st st' : St} {x : Name} (h : FrAt st st' x) (hx : x ∈ st.stack) : cnt st' x = cnt st x := by
  rcases h with e | ⟨n1, _⟩
  · exact e
  · exact absurd hx n1

/-! ### pieces that leave `polledModules` alone -/

theorem groups_addModule (st : St) (c : ModCfg) : (addModule st c).groups = st.groups := rfl

theorem groups_hasIoCreate (st : St) (c : ModCfg) : (hasIoCreate st c).1.groups = st.groups := by
  unfold hasIoCreate
  split
  · split <;> rfl
  · rfl

theorem groups_getModuleInstance (st : St) (name : Name) : (getModuleInstance st name).1.groups = st.groups := by
  unfold getModuleInstance
  split
  · rfl
  · split
    · rfl
    · split
      · rfl
      · simp only [groups_addModule, groups_hasIoCreate]

theorem groups_addEdge (st : St) (u d : Name) : (addEdge st u d).groups = st.groups := by
  unfold addEdge; split <;> rfl

theorem inited_addEdge (st : St) (u d : Name) : (addEdge st u d).inited = st.inited := by
  unfold addEdge; split <;> rfl

/-! ### `get_module` -/

def GSpec2 (rec : St → Name → St × Res) : Prop :=
  ∀ st name, LifecycleInit.Inv st → G st → Fr st (rec st name).1

def StepOK2 (f : Step) : Prop := ∀ st, LifecycleInit.Inv st → G st → Fr st (f st).1

theorem resolve_fr {rec : St → Name → St × Res} (h2 : GSpec2 rec) (u : Name) (att : Att) (st : St)
    (hi : LifecycleInit.Inv st) (hg : G st) : Fr st (resolve rec u att st).1 := by
  unfold resolve
  cases att.target with
  | none => exact Fr.refl st
  | some t =>
    have f1 := h2 st t hi hg
    cases hr : rec st t with
    | mk st1 res =>
      rw [hr] at f1
      simp only [hr]
      cases res with
      | raised cls => exact f1
      | none => exact f1
      | ok d =>
        simp only
        split
        · split
          · exact f1
          · intro x
            rcases f1 x with e | ⟨n1, n2, n3, n4⟩
            · left
              exact (cnt_eq (groups_addEdge st1 u d) x).trans e
            · right
              refine ⟨n1, n2, ?_, ?_⟩
              · show x ∈ (addEdge st1 u d).inited
                rw [inited_addEdge]; exact n3
              · show cnt (addEdge st1 u d) x ≤ 1
                rw [cnt_eq (groups_addEdge st1 u d) x]; exact n4
        · exact f1

theorem touch_fr {rec : St → Name → St × Res} (h2 : GSpec2 rec) (c : ModCfg) (a : String) : StepOK2 (touch rec c a) := by
  intro st hi hg
  unfold touch
  cases findAtt c a with
  | none => exact Fr.refl st
  | some att =>
    have f1 := resolve_fr h2 c.name att st hi hg
    cases hr : resolve rec c.name att st with
    | mk st1 res =>
      rw [hr] at f1
      simp only [hr]
      cases res with
      | mod d => exact f1
      | nothing => exact f1
      | raised cls => exact f1

theorem resolveStep_fr {rec : St → Name → St × Res} (h2 : GSpec2 rec) (c : ModCfg) (att : Att) :
    StepOK2 (resolveStep rec c att) := by
  intro st hi hg
  unfold resolveStep
  have f1 := resolve_fr h2 c.name att st hi hg
  cases hr : resolve rec c.name att st with
  | mk st1 res =>
    rw [hr] at f1
    cases res <;> exact f1

theorem failIf_fr (b : Bool) (cls : String) : StepOK2 (failIf b cls) := fun st _ _ => Fr.refl st

theorem hasIoCheck_fr {rec : St → Name → St × Res} (h2 : GSpec2 rec) (c : ModCfg) : StepOK2 (hasIoCheck rec c) := by
  intro st hi hg
  unfold hasIoCheck
  split
  · cases findAtt c "io" with
    | none => exact Fr.refl st
    | some att =>
      have f1 := resolve_fr h2 c.name att st hi hg
      cases hr : resolve rec c.name att st with
      | mk st1 res =>
        rw [hr] at f1
        simp only [hr]
        cases res <;> exact f1
  · exact Fr.refl st

theorem cnt_append (st : St) (d m x : Name) :
    cnt { st with groups := st.groups ++ [(d, m)] } x = cnt st x + if m = x then 1 else 0 := by
  unfold cnt
  simp only [List.map_append, List.map_cons, List.map_nil, List.count_append, List.count_cons, List.count_nil]
  by_cases h : m = x <;> simp [h]

/-- `registerPoll` of the module `c`: every other module is left alone, `c` itself is registered at most once when it
was not registered before -/
theorem registerPoll_fr {rec : St → Name → St × Res} (h2 : GSpec2 rec) (c : ModCfg) (st : St) (hi : LifecycleInit.Inv st) (hg : G st)
    (hm : c.name ∈ st.stack) (h0 : cnt st c.name = 0) :
    (∀ x, x ≠ c.name → FrAt st (registerPoll rec c st).1 x) ∧ cnt (registerPoll rec c st).1 c.name ≤ 1 := by
  unfold registerPoll
  split
  · split
    · cases findAtt c "io" with
      | none => exact ⟨fun x _ => Or.inl rfl, by rw [h0]; omega⟩
      | some att =>
        have f1 := resolve_fr h2 c.name att st hi hg
        cases hr : resolve rec c.name att st with
        | mk st1 res =>
          rw [hr] at f1
          simp only [hr]
          have hc1 : cnt st1 c.name = 0 := ((f1 c.name).stack hm).trans h0
          cases res with
          | mod d =>
            simp only
            refine ⟨?_, ?_⟩
            · intro x hx
              have := f1 x
              unfold FrAt at this ⊢
              rw [cnt_append st1 d c.name x]
              have hne : ¬ c.name = x := fun e => hx e.symm
              simpa [hne] using this
            · rw [cnt_append st1 d c.name c.name, hc1]; simp
          | nothing => exact ⟨fun x _ => f1 x, by simp only; rw [hc1]; omega⟩
          | raised cls => exact ⟨fun x _ => f1 x, by simp only; rw [hc1]; omega⟩
    · simp only
      refine ⟨?_, ?_⟩
      · intro x hx
        left
        rw [cnt_append st c.name c.name x]
        have hne : ¬ c.name = x := fun e => hx e.symm
        simp [hne]
      · rw [cnt_append st c.name c.name c.name, h0]; simp
  · exact ⟨fun x _ => Or.inl rfl, by rw [h0]; omega⟩

theorem seq_fr : ∀ (fs : List Step), (∀ f ∈ fs, StepOK f) → (∀ f ∈ fs, StepOK2 f) → StepOK2 (seq fs) := by
  intro fs
  induction fs with
  | nil => intro _ _ st _ _; exact Fr.refl st
  | cons f fs ih =>
    intro hall hall2 st hi hg
    obtain ⟨i1, s1, t1⟩ := hall f (by simp) st hi
    have f1 := hall2 f (by simp) st hi hg
    simp only [seq]
    cases hf : f st with
    | mk st1 e =>
      rw [hf] at i1 s1 t1 f1
      cases e with
      | some e => exact f1
      | none =>
        have g1 : G st1 := hg.of_fr f1 s1 t1.inited
        have f2 := ih (fun g hg' => hall g (by simp [hg'])) (fun g hg' => hall2 g (by simp [hg'])) st1 i1 g1
        obtain ⟨_, _, t2⟩ := seq_ok fs (fun g hg' => hall g (by simp [hg'])) st1 i1
        simp only
        exact f1.trans f2 s1 t1.inited t2.inited

/-- the steps of `initBody` behind the registration -/
def stepsC (rec : St → Name → St × Res) (c : ModCfg) : List Step :=
  c.touchInit.map (touch rec c) ++ [failIf c.failInit "ValueError"] ++ c.atts.map (resolveStep rec c)

theorem stepsB_eq (rec : St → Name → St × Res) (c : ModCfg) :
    stepsB rec c = hasIoCheck rec c :: registerPoll rec c :: stepsC rec c := by
  simp [stepsB, stepsC, List.append_assoc]

theorem stepsA_fr {rec : St → Name → St × Res} (h2 : GSpec2 rec) (c : ModCfg) : ∀ f ∈ stepsA rec c, StepOK2 f := by
  intro f hf
  simp only [stepsA, List.mem_append, List.mem_map, List.mem_singleton] at hf
  rcases hf with ⟨a, _, rfl⟩ | rfl
  · exact touch_fr h2 c a
  · exact failIf_fr _ _

theorem stepsC_ok {rec : St → Name → St × Res} (hrec : GSpec rec) (c : ModCfg) : ∀ f ∈ stepsC rec c, StepOK f := by
  intro f hf
  apply stepsB_ok hrec c
  rw [stepsB_eq]
  exact List.mem_cons_of_mem _ (List.mem_cons_of_mem _ hf)

theorem stepsC_fr {rec : St → Name → St × Res} (h2 : GSpec2 rec) (c : ModCfg) : ∀ f ∈ stepsC rec c, StepOK2 f := by
  intro f hf
  simp only [stepsC, List.mem_append, List.mem_map, List.mem_singleton] at hf
  rcases hf with (⟨a, _, rfl⟩ | rfl) | ⟨a, _, rfl⟩
  · exact touch_fr h2 c a
  · exact failIf_fr _ _
  · exact resolveStep_fr h2 c a

/-- the body of `get_module` for the module `c` (on the stack, not registered yet) -/
theorem body_fr {rec : St → Name → St × Res} (hrec : GSpec rec) (h2 : GSpec2 rec) (c : ModCfg) (st1 : St)
    (hi : LifecycleInit.Inv st1) (hg : G st1) (hm : c.name ∈ st1.stack) (h0 : cnt st1 c.name = 0) :
    (∀ x, x ≠ c.name → FrAt st1 (seq (stepsA rec c ++ emitStep (Ev.init c.name) :: stepsB rec c) st1).1 x) ∧
    cnt (seq (stepsA rec c ++ emitStep (Ev.init c.name) :: stepsB rec c) st1).1 c.name ≤ 1 := by
  rw [seq_append]
  obtain ⟨ia, sa, ta⟩ := seq_ok _ (stepsA_ok hrec c) st1 hi
  have fa := seq_fr _ (stepsA_ok hrec c) (stepsA_fr h2 c) st1 hi hg
  cases hA : seq (stepsA rec c) st1 with
  | mk stA e =>
    rw [hA] at ia sa ta fa
    have hcA : cnt stA c.name = 0 := ((fa c.name).stack hm).trans h0
    cases e with
    | some e => exact ⟨fun x _ => fa x, by simp only; rw [hcA]; omega⟩
    | none =>
      simp only [seq, emitStep]
      have hmA : c.name ∈ stA.stack := by rw [sa]; exact hm
      have gA : G stA := hg.of_fr fa sa ta.inited
      have iI := ia.emit_init c.name hmA
      -- the state after `init` is logged: registrations, stack, initialised modules as in `stA`
      have gI : G (emit stA (Ev.init c.name)) := ⟨gA.fresh, gA.le⟩
      have fI : Fr stA (emit stA (Ev.init c.name)) := Fr.of_eq rfl
      rw [stepsB_eq]
      simp only [seq]
      obtain ⟨iH, sH, tH⟩ := hasIoCheck_ok hrec c _ iI
      have fH := hasIoCheck_fr h2 c _ iI gI
      cases hH : hasIoCheck rec c (emit stA (Ev.init c.name)) with
      | mk stH eH =>
        rw [hH] at iH sH tH fH
        have sH' : stH.stack = stA.stack := sH
        have tHi : ∀ y ∈ stA.inited, y ∈ stH.inited := tH.inited
        have fAH : Fr st1 stH := fa.trans (fI.trans fH rfl (fun _ h => h) tHi) sa ta.inited tHi
        have hmH : c.name ∈ stH.stack := by rw [sH']; exact hmA
        have hcH : cnt stH c.name = 0 := ((fAH c.name).stack hm).trans h0
        cases eH with
        | some e => exact ⟨fun x _ => fAH x, by simp only; rw [hcH]; omega⟩
        | none =>
          simp only
          have gH : G stH := hg.of_fr fAH (sH'.trans sa) (fun y hy => tHi y (ta.inited y hy))
          obtain ⟨iR, sR, tR⟩ := registerPoll_ok hrec c stH iH
          obtain ⟨fR, cR⟩ := registerPoll_fr h2 c stH iH gH hmH hcH
          cases hR : registerPoll rec c stH with
          | mk stR eR =>
            rw [hR] at iR sR tR fR cR
            have hsR : stR.stack = st1.stack := sR.trans (sH'.trans sa)
            have hiR : ∀ y ∈ st1.inited, y ∈ stR.inited := fun y hy => tR.inited y (tHi y (ta.inited y hy))
            have fAR : ∀ x, x ≠ c.name → FrAt st1 stR x := fun x hx =>
              (fAH x).trans (fR x hx) (sH'.trans sa) (fun y hy => tHi y (ta.inited y hy)) tR.inited
            cases eR with
            | some e => exact ⟨fAR, cR⟩
            | none =>
              simp only
              have gR : G stR := by
                refine ⟨?_, ?_⟩
                · intro x h1 h2'
                  have hx : x ≠ c.name := fun e => h1 (by rw [e, hsR]; exact hm)
                  rcases fAR x hx with e | ⟨_, _, n3, _⟩
                  · rw [e]; exact hg.fresh x (by rw [← hsR]; exact h1) (fun h => h2' (hiR x h))
                  · exact absurd n3 h2'
                · intro x
                  by_cases hx : x = c.name
                  · rw [hx]; exact cR
                  · rcases fAR x hx with e | ⟨_, _, _, n4⟩
                    · rw [e]; exact hg.le x
                    · exact n4
              obtain ⟨_, sC, tC⟩ := seq_ok _ (stepsC_ok hrec c) stR iR
              have fC := seq_fr _ (stepsC_ok hrec c) (stepsC_fr h2 c) stR iR gR
              refine ⟨?_, ?_⟩
              · intro x hx
                exact (fAR x hx).trans (fC x) hsR hiR tC.inited
              · have hmR : c.name ∈ stR.stack := by rw [hsR]; exact hm
                rw [(fC c.name).stack hmR]
                exact cR

theorem getModule_fr : ∀ fuel, GSpec2 (getModule fuel) := by
  intro fuel
  induction fuel with
  | zero => intro st name _ _; exact Fr.of_eq rfl
  | succ fuel ih =>
    intro st name hi hg
    have q := quiet_getModuleInstance st name
    have hgr := groups_getModuleInstance st name
    simp only [getModule]
    cases hI : getModuleInstance st name with
    | mk sI r =>
      rw [hI] at q hgr
      have iI : LifecycleInit.Inv sI := q.inv hi
      have fI : Fr st sI := Fr.of_eq hgr
      cases r with
      | none => exact fI
      | raised cls => exact fI
      | ok m =>
        simp only
        split
        · exact fI
        · split
          · exact fI
          · rename_i hin hstk
            have hin' : m ∉ sI.inited := by simpa using hin
            have hstk' : m ∉ sI.stack := by simpa using hstk
            have gI : G sI := hg.of_fr fI q.stack (by rw [q.inited]; exact fun _ h => h)
            rw [initBody_eq]
            have i1 := iI.push_early m hstk' hin'
            have g1 : G (emit { sI with stack := m :: sI.stack } (Ev.early m)) := by
              refine ⟨?_, gI.le⟩
              intro x h1 h2
              exact gI.fresh x (fun h => h1 (by simp [emit, h])) h2
            have h0 : cnt (emit { sI with stack := m :: sI.stack } (Ev.early m)) m = 0 := gI.fresh m hstk' hin'
            obtain ⟨_, s2, t2, _, _⟩ := body_ok (getModule_spec fuel) { cfgOf sI m with name := m } _ i1
              (by simp [emit]) (by simpa [emit, List.count_append] using iI.initFresh m hstk' hin')
            obtain ⟨fB, cB⟩ := body_fr (getModule_spec fuel) ih { cfgOf sI m with name := m } _ i1 g1 (by simp [emit]) h0
            cases hB : seq (stepsA (getModule fuel) { cfgOf sI m with name := m } ++
                emitStep (Ev.init m) :: stepsB (getModule fuel) { cfgOf sI m with name := m })
                (emit { sI with stack := m :: sI.stack } (Ev.early m)) with
            | mk st2 exc =>
              simp only [hB] at s2 t2 fB cB ⊢
              have hfin : ∀ x, cnt (finishInit st2 m exc) x = cnt st2 x := by
                intro x
                apply cnt_eq
                cases exc <;> rfl
              intro x
              by_cases hx : x = m
              · subst hx
                right
                refine ⟨by rw [← q.stack]; exact hstk', by rw [← q.inited]; exact hin', by simp [finishInit], ?_⟩
                rw [hfin]; exact cB
              · rcases fB x hx with e | ⟨n1, n2, n3, n4⟩
                · left
                  rw [hfin, e]
                  exact (cnt_eq rfl x).trans (cnt_eq hgr x)
                · right
                  refine ⟨?_, ?_, ?_, by rw [hfin]; exact n4⟩
                  · intro h
                    have qs : sI.stack = st.stack := q.stack
                    exact n1 (by simp only [emit, List.mem_cons]; right; rw [qs]; exact h)
                  · intro h
                    have qi : sI.inited = st.inited := q.inited
                    exact n2 (by simp only [emit]; rw [qi]; exact h)
                  · simp [finishInit, n3]

/-! ### the loops around `get_module` -/

theorem g_getModule (fuel : Nat) (st : St) (name : Name) (h : Top st) (hg : G st) : G (getModule fuel st name).1 := by
  obtain ⟨_, s, t, _⟩ := getModule_spec fuel st name h.1
  exact hg.of_fr (getModule_fr fuel st name h.1 hg) s t.inited

theorem g_quiet {st st' : St} (q : Quiet st st') (hgr : st'.groups = st.groups) (hg : G st) : G st' :=
  hg.of_fr (Fr.of_eq hgr) q.stack (by rw [q.inited]; exact fun _ h => h)

theorem g_createOne (fuel : Nat) (dyn : List ModCfg) (c : ModCfg) (st : St) (h : Top st) (hg : G st) :
    G (createOne fuel dyn c st).1 := by
  unfold createOne
  split
  · exact hg
  · have q1 : Quiet st { st with known := upsertCfg st.known c } := ⟨rfl, rfl, rfl, rfl, id, id, fun _ h => h, id⟩
    have q2 := quiet_getModuleInstance { st with known := upsertCfg st.known c } c.name
    have hgr := groups_getModuleInstance { st with known := upsertCfg st.known c } c.name
    have q := q1.trans q2
    obtain ⟨t1, _⟩ := top_quiet q h
    simp only
    cases hI : getModuleInstance { st with known := upsertCfg st.known c } c.name with
    | mk sI r =>
      rw [hI] at t1 q hgr
      have gI : G sI := g_quiet q hgr hg
      cases r with
      | none => exact gI
      | raised cls => exact gI
      | ok m =>
        simp only
        split
        · exact g_getModule fuel sI m t1 gI
        · exact gI

theorem g_createLoop (dyn : List ModCfg) (gfuel : Nat) : ∀ (n : Nat) (todos : List ModCfg) (st : St), Top st → G st →
    G (createLoop dyn gfuel n todos st) := by
  intro n
  induction n with
  | zero =>
    intro todos st _ hg
    cases todos with
    | nil => exact hg
    | cons c rest => exact ⟨hg.fresh, hg.le⟩
  | succ n ih =>
    intro todos st h hg
    cases todos with
    | nil => exact hg
    | cons c rest =>
      simp only [createLoop]
      obtain ⟨t1, _⟩ := top_createOne gfuel dyn c st h
      have g1 := g_createOne gfuel dyn c st h hg
      cases hC : createOne gfuel dyn c st with
      | mk s1 more =>
        rw [hC] at t1 g1
        exact ih (rest ++ more) s1 t1 g1

theorem g_initAll (fuel : Nat) : ∀ (ms : List Name) (st : St), Top st → G st → G (initAll fuel ms st) := by
  intro ms
  induction ms with
  | nil => intro st _ hg; exact hg
  | cons a ms ih =>
    intro st h hg
    simp only [initAll]
    obtain ⟨t1, _, _⟩ := top_getModule fuel st a h
    exact ih _ t1 (g_getModule fuel st a h hg)

theorem g_core (cfg : Cfg) (fuel : Nat) : G (core cfg fuel) := by
  unfold core
  have g0 : G ({ known := cfg.mods } : St) := ⟨fun _ _ _ => rfl, fun _ => Nat.zero_le _⟩
  obtain ⟨t1, _⟩ := top_createLoop cfg.dyn fuel fuel cfg.mods _ (inv_init cfg.mods)
  have g1 := g_createLoop cfg.dyn fuel fuel cfg.mods _ (inv_init cfg.mods) g0
  obtain ⟨t2, _, _⟩ := top_initAll fuel (createLoop cfg.dyn fuel fuel cfg.mods { known := cfg.mods }).modules _ t1
  have g2 := g_initAll fuel (createLoop cfg.dyn fuel fuel cfg.mods { known := cfg.mods }).modules _ t1 g1
  exact g_initAll fuel _ _ t2 g2

/-- in every node, whatever the configuration: no module is registered twice for polling -/
theorem startup_groupsOk (cfg : Cfg) (fuel : Nat) : Frappy.Proofs.LifecycleWrites.GroupsOk (startup cfg fuel) := by
  have h := (g_core cfg fuel).le
  have hc : Frappy.Proofs.LifecycleWrites.GroupsOk (core cfg fuel) := by
    unfold Frappy.Proofs.LifecycleWrites.GroupsOk
    rw [List.nodup_iff_count]
    exact h
  rw [startup_eq]
  split
  · exact hc
  · exact hc

end Frappy.Proofs.LifecycleGroups
