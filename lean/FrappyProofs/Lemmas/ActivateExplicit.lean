import FrappyProofs.Lemmas.Activate
/-
C08: the monitor `silentMon` says what the English sentence says (an index-based reading of `Silent`),
and the executable `quietB` is the proposition `Quiet`.
-/
namespace Frappy.Spec.C08
open Frappy.Activate

/-! ## generic list facts -/

theorem rev_ind {α : Type} {P : List α → Prop} (hnil : P []) (hsnoc : ∀ l a, P l → P (l ++ [a])) :
    ∀ l, P l := by
  intro l
  have h : ∀ l : List α, P l.reverse := by
    intro l
    induction l with
    | nil => exact hnil
    | cons a l ih => rw [List.reverse_cons]; exact hsnoc _ _ ih
  have := h l.reverse
  rwa [List.reverse_reverse] at this

/-- `x` occurs in `tr` and no later element satisfies `P` -/
def Since {α : Type} (x : α) (P : α → Prop) (tr : List α) : Prop :=
  ∃ j : Nat, tr[j]? = some x ∧ ∀ (k : Nat) (o : α), j < k → tr[k]? = some o → ¬ P o

theorem since_nil {α : Type} (x : α) (P : α → Prop) : ¬ Since x P [] := by
  rintro ⟨j, h, _⟩
  simp at h

theorem since_append {α : Type} (x : α) (P : α → Prop) (tr : List α) (o : α) :
    Since x P (tr ++ [o]) ↔ o = x ∨ (Since x P tr ∧ ¬ P o) := by
  constructor
  · rintro ⟨j, hj, hk⟩
    by_cases hlt : j < tr.length
    · right
      rw [List.getElem?_append_left hlt] at hj
      refine ⟨⟨j, hj, ?_⟩, ?_⟩
      · intro k o' hjk hko'
        apply hk k o' hjk
        have hklt : k < tr.length := by
          rcases Nat.lt_or_ge k tr.length with h | h
          · exact h
          · rw [List.getElem?_eq_none h] at hko'; cases hko'
        rw [List.getElem?_append_left hklt]; exact hko'
      · apply hk tr.length o hlt
        simp
    · left
      have hge : tr.length ≤ j := Nat.le_of_not_lt hlt
      rw [List.getElem?_append_right hge] at hj
      cases hd : j - tr.length with
      | zero => rw [hd] at hj; simpa using hj
      | succ n => rw [hd] at hj; simp at hj
  · rintro (h | ⟨⟨j, hj, hk⟩, hno⟩)
    · subst h
      refine ⟨tr.length, by simp, ?_⟩
      intro k o' hlt hko'
      rw [List.getElem?_eq_none (by simp; omega)] at hko'
      cases hko'
    · have hjlt : j < tr.length := by
        rcases Nat.lt_or_ge j tr.length with h | h
        · exact h
        · rw [List.getElem?_eq_none h] at hj; cases hj
      refine ⟨j, by rw [List.getElem?_append_left hjlt]; exact hj, ?_⟩
      intro k o' hjk hko'
      rcases Nat.lt_trichotomy k tr.length with h | h | h
      · rw [List.getElem?_append_left h] at hko'
        exact hk k o' hjk hko'
      · subst h
        simp at hko'
        subst hko'
        exact hno
      · rw [List.getElem?_eq_none (by simp; omega)] at hko'
        cases hko'

/-- `Since` on a prefix, spelled out with indices of the whole list -/
theorem since_take {α : Type} (x : α) (P : α → Prop) (tr : List α) (i : Nat) :
    Since x P (tr.take i) ↔
      ∃ j : Nat, j < i ∧ tr[j]? = some x ∧ ∀ (k : Nat) (o : α), j < k → k < i → tr[k]? = some o → ¬ P o := by
  constructor
  · rintro ⟨j, hj, hk⟩
    rw [List.getElem?_take] at hj
    split at hj
    · rename_i hji
      refine ⟨j, hji, hj, ?_⟩
      intro k o hjk hki hko
      apply hk k o hjk
      rw [List.getElem?_take, if_pos hki]; exact hko
    · cases hj
  · rintro ⟨j, hji, hj, hk⟩
    refine ⟨j, by rw [List.getElem?_take, if_pos hji]; exact hj, ?_⟩
    intro k o hjk hko
    rw [List.getElem?_take] at hko
    split at hko
    · rename_i hki; exact hk k o hjk hki hko
    · cases hko

/-! ## monitors, index-based -/

theorem Mon.acceptsFrom_iff {S : Type} (M : Mon S) (s : S) (tr : List Obs) :
    M.acceptsFrom s tr = true ↔ ∀ i o, tr[i]? = some o → M.ok (M.after s (tr.take i)) o = true := by
  induction tr generalizing s with
  | nil => simp [Mon.acceptsFrom]
  | cons x xs ih =>
    simp only [Mon.acceptsFrom, Bool.and_eq_true, ih]
    constructor
    · rintro ⟨h0, h1⟩ i o hi
      cases i with
      | zero => simp at hi; subst hi; simpa [Mon.after] using h0
      | succ n =>
        simp at hi
        simpa [Mon.after] using h1 n o hi
    · intro h
      refine ⟨by simpa [Mon.after] using h 0 x (by simp), ?_⟩
      intro i o hi
      simpa [Mon.after] using h (i + 1) o (by simpa using hi)

/-! ## Part 1: `Silent`, explicitly -/

/-- event `o` is a reply of connection `c` that ends an activation of scope `s`: a positive reply to the
matching deactivate, or any reply to `*IDN?` / the end of a disconnect -/
def endsReply (c : Conn) (s : Scope) : Obs → Prop
  | .reply c' r ok => c' = c ∧ replyEnds r ok = true ∧ ends r s = true
  | _ => False

/-- every update delivered to `c` for `m:p` is preceded by a request marker `activate s` of `c` with `s`
covering `m:p` such that no reply of `c` ending `s` (`endsReply`) lies in between -/
def SilentExplicit (tr : List Obs) : Prop :=
  ∀ (i : Nat) (c : Conn) (m : Mod) (p : Par) (e : Entry), tr[i]? = some (Obs.deliver c m p e) →
    ∃ (j : Nat) (s : Scope), j < i ∧ tr[j]? = some (Obs.reqStart c (.activate s)) ∧ covers s m p = true ∧
      ∀ (k : Nat) (o : Obs), j < k → k < i → tr[k]? = some o → ¬ endsReply c s o

-- `liveAfter tr` (the scopes the monitor holds after `tr`) is defined in `Spec/C08`

theorem mem_liveNext (live : Conn → List Scope) (o : Obs) (c : Conn) (s : Scope) :
    s ∈ liveNext live o c ↔ o = .reqStart c (.activate s) ∨ (s ∈ live c ∧ ¬ endsReply c s o) := by
  cases o with
  | reqStart c' r =>
    cases r with
    | activate s' =>
      simp only [liveNext, set_apply, endsReply, not_false_eq_true, and_true]
      split
      · rename_i h; subst h
        simp only [List.mem_cons, Obs.reqStart.injEq, Req.activate.injEq, true_and]
        constructor
        · rintro (h | h)
          · left; exact h.symm
          · right; exact h
        · rintro (h | h)
          · left; exact h.symm
          · right; exact h
      · rename_i h
        simp only [Obs.reqStart.injEq, Req.activate.injEq]
        constructor
        · intro h1; right; exact h1
        · rintro (⟨h1, _⟩ | h1)
          · exact absurd h1.symm h
          · exact h1
    | deactivate s' => simp [liveNext, endsReply]
    | ident => simp [liveNext, endsReply]
    | disconnect => simp [liveNext, endsReply]
    | rw w m p e => simp [liveNext, endsReply]
    | malformed a s => simp [liveNext, endsReply]
  | reply c' r ok =>
    simp only [liveNext, endsReply, reduceCtorEq, false_or]
    split
    · rename_i hre
      simp only [set_apply]
      split
      · rename_i h; subst h
        simp [List.mem_filter, hre]
      · rename_i h
        have : ¬ c' = c := fun h' => h h'.symm
        simp [this]
    · rename_i hre
      simp [hre]
  | deliver c' m p e => simp [liveNext, endsReply]
  | emit u m p e => simp [liveNext, endsReply]
  | emitDone u => simp [liveNext, endsReply]

/-- the monitor state: `s` is held for `c` iff `c` started an `activate s` and no reply of `c`
ending `s` (`endsReply`) came later -/
theorem mem_liveAfter (tr : List Obs) (c : Conn) (s : Scope) :
    s ∈ liveAfter tr c ↔ Since (.reqStart c (.activate s)) (endsReply c s) tr := by
  induction tr using rev_ind with
  | hnil =>
    simp only [liveAfter, Mon.after, List.foldl_nil, silentMon, List.not_mem_nil, false_iff]
    exact since_nil _ _
  | hsnoc l a ih =>
    rw [since_append, ← ih]
    simp only [liveAfter] at ih ⊢
    rw [Mon.after_append]
    exact mem_liveNext _ a c s

theorem mem_liveAfter' (tr : List Obs) (c : Conn) (s : Scope) :
    s ∈ (silentMon.after silentMon.init tr) c ↔
      ∃ j : Nat, tr[j]? = some (Obs.reqStart c (.activate s)) ∧
        ∀ (k : Nat) (o : Obs), j < k → tr[k]? = some o → ¬ endsReply c s o :=
  mem_liveAfter tr c s

theorem silent_iff_explicit (tr : List Obs) : Silent tr ↔ SilentExplicit tr := by
  unfold Silent Mon.accepts
  rw [Mon.acceptsFrom_iff]
  constructor
  · intro h i c m p e hi
    have h1 := h i _ hi
    simp only [silentMon, silentOk, coveredBy, List.any_eq_true] at h1
    obtain ⟨s, hs, hcov⟩ := h1
    have h2 := (mem_liveAfter (tr.take i) c s).1 hs
    rw [since_take] at h2
    obtain ⟨j, hji, hj, hk⟩ := h2
    exact ⟨j, s, hji, hj, hcov, hk⟩
  · intro h i o hi
    cases o with
    | deliver c m p e =>
      obtain ⟨j, s, hji, hj, hcov, hk⟩ := h i c m p e hi
      simp only [silentMon, silentOk, coveredBy, List.any_eq_true]
      refine ⟨s, ?_, hcov⟩
      apply (mem_liveAfter (tr.take i) c s).2
      rw [since_take]
      exact ⟨j, hji, hj, hk⟩
    | _ => rfl

/-! ## Part 2: `quietB` is `Quiet` -/

theorem reqOpen_fold_unnamed (tr : List Obs) (op : Conn → Bool) (c : Conn)
    (h : c ∉ tr.filterMap obsConn) : (tr.foldl reqOpenNext op) c = op c := by
  induction tr generalizing op with
  | nil => rfl
  | cons x xs ih =>
    rw [List.foldl_cons]
    cases x with
    | reqStart c' r =>
      simp only [List.filterMap_cons, obsConn, List.mem_cons, not_or] at h
      rw [ih _ h.2]
      simp [reqOpenNext, h.1]
    | reply c' r ok =>
      simp only [List.filterMap_cons, obsConn, List.mem_cons, not_or] at h
      rw [ih _ h.2]
      simp [reqOpenNext, h.1]
    | deliver c' m p e =>
      simp only [List.filterMap_cons, obsConn] at h
      rw [ih _ h]; rfl
    | emit u m p e =>
      simp only [List.filterMap_cons, obsConn] at h
      rw [ih _ h]; rfl
    | emitDone u =>
      simp only [List.filterMap_cons, obsConn] at h
      rw [ih _ h]; rfl

theorem emitOpen_fold_unnamed (tr : List Obs) (op : Nat → Bool) (u : Nat)
    (h : u ∉ tr.filterMap obsUpd) : (tr.foldl emitOpenNext op) u = op u := by
  induction tr generalizing op with
  | nil => rfl
  | cons x xs ih =>
    rw [List.foldl_cons]
    cases x with
    | reqStart c' r =>
      simp only [List.filterMap_cons, obsUpd] at h
      rw [ih _ h]; rfl
    | reply c' r ok =>
      simp only [List.filterMap_cons, obsUpd] at h
      rw [ih _ h]; rfl
    | deliver c' m p e =>
      simp only [List.filterMap_cons, obsUpd] at h
      rw [ih _ h]; rfl
    | emit u' m p e =>
      simp only [List.filterMap_cons, obsUpd, List.mem_cons, not_or] at h
      rw [ih _ h.2]
      simp [emitOpenNext, h.1]
    | emitDone u' =>
      simp only [List.filterMap_cons, obsUpd, List.mem_cons, not_or] at h
      rw [ih _ h.2]
      simp [emitOpenNext, h.1]

theorem reqOpen_unnamed (tr : List Obs) (c : Conn) (h : c ∉ tr.filterMap obsConn) : reqOpen tr c = false :=
  reqOpen_fold_unnamed tr (fun _ => false) c h

theorem emitOpen_unnamed (tr : List Obs) (u : Nat) (h : u ∉ tr.filterMap obsUpd) : emitOpen tr u = false :=
  emitOpen_fold_unnamed tr (fun _ => false) u h

theorem quietB_iff (tr : List Obs) : quietB tr = true ↔ Quiet tr := by
  simp only [quietB, Bool.and_eq_true, List.all_eq_true, Bool.not_eq_true', Quiet]
  constructor
  · rintro ⟨h1, h2⟩
    constructor
    · intro c
      by_cases hc : c ∈ tr.filterMap obsConn
      · exact h1 c hc
      · exact reqOpen_unnamed tr c hc
    · intro u
      by_cases hu : u ∈ tr.filterMap obsUpd
      · exact h2 u hu
      · exact emitOpen_unnamed tr u hu
  · rintro ⟨h1, h2⟩
    exact ⟨fun c _ => h1 c, fun u _ => h2 u⟩

end Frappy.Spec.C08
