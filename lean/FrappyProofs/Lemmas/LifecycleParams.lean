import FrappyProofs.Lemmas.LifecycleGroups
/-
Helper lemmas for C15: parameters of a module description, `_handle_writes`, and the link between the descriptions of a
configuration and the module objects of the node.
-/
namespace Frappy.Proofs.LifecycleParams
open Frappy.Lifecycle Frappy.Spec.C15 Frappy.Proofs.Lifecycle Frappy.Proofs.LifecycleInit Frappy.Proofs.LifecycleWait

/-- keys of a dictionary: two entries with the same key are the same entry -/
theorem nodup_map_inj {α β : Type} (f : α → β) : ∀ (l : List α), (l.map f).Nodup → ∀ a ∈ l, ∀ b ∈ l, f a = f b → a = b
  | [], _, a, ha, _, _, _ => by cases ha
  | x :: l, h, a, ha, b, hb, hab => by
    simp only [List.map_cons, List.nodup_cons, List.mem_map, not_exists, not_and] at h
    rcases List.mem_cons.mp ha with rfl | ha'
    · rcases List.mem_cons.mp hb with rfl | hb'
      · rfl
      · exact absurd hab.symm (h.1 b hb')
    · rcases List.mem_cons.mp hb with rfl | hb'
      · exact absurd hab (h.1 a ha')
      · exact nodup_map_inj f l h.2 a ha' b hb' hab

end Frappy.Proofs.LifecycleParams
