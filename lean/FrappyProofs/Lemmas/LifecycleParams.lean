import FrappyProofs.Lemmas.LifecycleGroups
import FrappyProofs.Lemmas.LifecycleOnce
/-
Helper lemmas for C15: parameters of a module description, `_handle_writes`, and the link between the descriptions of a
configuration and the module objects of the node.
-/
namespace Frappy.Proofs.LifecycleParams
open Frappy.Lifecycle Frappy.Spec.C15 Frappy.Proofs.Lifecycle Frappy.Proofs.LifecycleInit Frappy.Proofs.LifecycleWait
  Frappy.Proofs.LifecycleOnce

/-- keys of a dictionary: two entries with the same key are the same entry -/
theorem nodup_map_inj {α β : Type} (f : α → β) : ∀ (l : List α), (l.map f).Nodup → ∀ a ∈ l, ∀ b ∈ l, f a = f b → a = b
  | [], _, a, ha, _, _, _ => by cases ha
  | x :: l, h, a, ha, b, hb, hab => by
    simp only [List.map_cons, List.nodup_cons, List.mem_map, not_exists, not_and] at h
    rcases List.mem_cons.mp ha with rfl | ha'
    · rcases List.mem_cons.mp hb with rfl | hb'
      · rfl
      · exact absurd hab.symm (h.1 b hb')
    · rcases List.mem_cons.mp hb with rfl | hb'
      · exact absurd hab (h.1 a ha')
      · exact nodup_map_inj f l h.2 a ha' b hb' hab

/-! ## what a piece of the initialisation phase can change of the tables of the node

`Ext st st'`: `module_cfg` is left alone, errors / modules / registrations for polling / module objects / the table of
automatic communicators only grow — and (`nc`) **nothing is created any more** once every description known to the
node has been tried: a piece that ends without an error has created no module. -/

/-- every description the node knows has been tried: its module exists, or the attempt was recorded as an error -/
def KC (st : St) : Prop := ∀ k ∈ st.known, k.name ∈ st.modules ∨ st.errors ≠ []

structure Ext (st st' : St) : Prop where
  known : st'.known = st.known
  errs : st'.errors = [] → st.errors = []
  mods : ∀ x ∈ st.modules, x ∈ st'.modules
  groups : ∃ ext, st'.groups = st.groups ++ ext
  mcfg : ∃ ext, st'.mcfg = st.mcfg ++ ext
  ioDict : ∃ ext, st'.ioDict = st.ioDict ++ ext
  nc : KC st → st'.errors = [] → st'.modules = st.modules ∧ st'.mcfg = st.mcfg ∧ st'.ioDict = st.ioDict

theorem Ext.refl (st : St) : Ext st st :=
  ⟨rfl, id, fun _ h => h, ⟨[], by simp⟩, ⟨[], by simp⟩, ⟨[], by simp⟩, fun _ _ => ⟨rfl, rfl, rfl⟩⟩

theorem Ext.kc {a b : St} (h : Ext a b) (hk : KC a) (he : b.errors = []) : KC b := by
  intro k hk'
  rw [h.known] at hk'
  rcases hk k hk' with hm | hne
  · exact Or.inl (h.mods _ hm)
  · exact absurd (h.errs he) hne

theorem Ext.trans {a b c : St} (h1 : Ext a b) (h2 : Ext b c) : Ext a c := by
  refine ⟨h2.known.trans h1.known, fun h => h1.errs (h2.errs h), fun x hx => h2.mods x (h1.mods x hx), ?_, ?_, ?_, ?_⟩
  · obtain ⟨e1, h1'⟩ := h1.groups; obtain ⟨e2, h2'⟩ := h2.groups
    exact ⟨e1 ++ e2, by rw [h2', h1', List.append_assoc]⟩
  · obtain ⟨e1, h1'⟩ := h1.mcfg; obtain ⟨e2, h2'⟩ := h2.mcfg
    exact ⟨e1 ++ e2, by rw [h2', h1', List.append_assoc]⟩
  · obtain ⟨e1, h1'⟩ := h1.ioDict; obtain ⟨e2, h2'⟩ := h2.ioDict
    exact ⟨e1 ++ e2, by rw [h2', h1', List.append_assoc]⟩
  · intro hk he
    have hb : b.errors = [] := h2.errs he
    obtain ⟨m1, c1, i1⟩ := h1.nc hk hb
    obtain ⟨m2, c2, i2⟩ := h2.nc (h1.kc hk hb) he
    exact ⟨m2.trans m1, c2.trans c1, i2.trans i1⟩

/-- a change of the log, the stack, the attachments, the bookkeeping of initialisation only -/
theorem Ext.of_same {st st' : St} (h1 : st'.known = st.known) (h2 : st'.errors = st.errors)
    (h3 : st'.modules = st.modules) (h4 : st'.groups = st.groups) (h5 : st'.mcfg = st.mcfg)
    (h6 : st'.ioDict = st.ioDict) : Ext st st' :=
  ⟨h1, by rw [h2]; exact id, by rw [h3]; exact fun _ h => h, ⟨[], by simp [h4]⟩, ⟨[], by simp [h5]⟩,
   ⟨[], by simp [h6]⟩, fun _ _ => ⟨h3, h5, h6⟩⟩

theorem findCfg_some {l : List ModCfg} {n : Name} {c : ModCfg} (h : findCfg l n = some c) : c ∈ l ∧ c.name = n := by
  unfold findCfg at h
  exact ⟨List.mem_of_find?_eq_some h, by simpa using List.find?_some h⟩

theorem ext_addEdge (st : St) (u d : Name) : Ext st (addEdge st u d) := by
  unfold addEdge
  split
  · exact Ext.refl st
  · exact Ext.of_same rfl rfl rfl rfl rfl rfl

theorem ext_emit (st : St) (e : Ev) : Ext st (emit st e) := Ext.of_same rfl rfl rfl rfl rfl rfl

theorem ext_getModuleInstance (st : St) (name : Name) : Ext st (getModuleInstance st name).1 := by
  unfold getModuleInstance
  split
  · exact Ext.refl st
  · rename_i hnc
    split
    · exact Ext.refl st
    · rename_i c hc
      obtain ⟨hck, hcn⟩ := findCfg_some hc
      split
      · refine ⟨rfl, by intro h; simp [addErr] at h, fun _ h => h, ⟨[], by simp [addErr]⟩, ⟨[], by simp [addErr]⟩,
          ⟨[], by simp [addErr]⟩, ?_⟩
        intro _ h; simp [addErr] at h
      · -- the module object is created (and, for a HasIO user with a new `uri`, its communicator)
        have hio : ∀ (s : St) (c : ModCfg), (hasIoCreate s c).1.known = s.known ∧ (hasIoCreate s c).1.errors = s.errors ∧
            (hasIoCreate s c).1.groups = s.groups ∧ (∀ x ∈ s.modules, x ∈ (hasIoCreate s c).1.modules) ∧
            (∃ ext, (hasIoCreate s c).1.mcfg = s.mcfg ++ ext) ∧ (∃ ext, (hasIoCreate s c).1.ioDict = s.ioDict ++ ext) := by
          intro s c
          unfold hasIoCreate
          split
          · split
            · exact ⟨rfl, rfl, rfl, fun _ h => h, ⟨[], by simp⟩, ⟨[], by simp⟩⟩
            · refine ⟨rfl, rfl, rfl, ?_, ⟨[autoIo (c.name ++ "_io")], rfl⟩, ⟨[_], rfl⟩⟩
              intro x hx
              simp only [addModule]
              split
              · exact hx
              · exact List.mem_append_left _ hx
          · exact ⟨rfl, rfl, rfl, fun _ h => h, ⟨[], by simp⟩, ⟨[], by simp⟩⟩
        obtain ⟨k1, e1, g1, m1, ⟨x1, c1⟩, ⟨y1, i1⟩⟩ := hio st c
        refine ⟨k1, by simp only [addModule]; rw [e1]; exact id, ?_, ⟨[], by simp [addModule, g1]⟩,
          ⟨x1 ++ [(hasIoCreate st c).2], by simp [addModule, c1]⟩, ⟨y1, by simp [addModule, i1]⟩, ?_⟩
        · intro x hx
          simp only [addModule]
          split
          · exact m1 x hx
          · exact List.mem_append_left _ (m1 x hx)
        · intro hk he
          have he' : st.errors = [] := by simpa [addModule, e1] using he
          rcases hk c hck with hm | hne
          · rw [hcn] at hm
            exact absurd (by simpa using hm) hnc
          · exact absurd he' hne

def GSpecE (rec : St → Name → St × Res) : Prop := ∀ st name, Ext st (rec st name).1

def StepE (f : Step) : Prop := ∀ st, Ext st (f st).1

theorem ext_resolve {rec : St → Name → St × Res} (h : GSpecE rec) (u : Name) (att : Att) (st : St) :
    Ext st (resolve rec u att st).1 := by
  unfold resolve
  cases att.target with
  | none => exact Ext.refl st
  | some t =>
    have f1 := h st t
    cases hr : rec st t with
    | mk st1 res =>
      rw [hr] at f1
      simp only [hr]
      cases res with
      | raised cls => exact f1
      | none => exact f1
      | ok d =>
        simp only
        split
        · split
          · exact f1
          · exact f1.trans (ext_addEdge st1 u d)
        · exact f1

theorem ext_touch {rec : St → Name → St × Res} (h : GSpecE rec) (c : ModCfg) (a : String) : StepE (touch rec c a) := by
  intro st
  unfold touch
  cases findAtt c a with
  | none => exact Ext.refl st
  | some att =>
    have f1 := ext_resolve h c.name att st
    cases hr : resolve rec c.name att st with
    | mk st1 res =>
      rw [hr] at f1
      simp only [hr]
      cases res with
      | mod d => exact f1.trans (ext_emit st1 _)
      | nothing => exact f1
      | raised cls => exact f1

theorem ext_resolveStep {rec : St → Name → St × Res} (h : GSpecE rec) (c : ModCfg) (att : Att) :
    StepE (resolveStep rec c att) := by
  intro st
  unfold resolveStep
  have f1 := ext_resolve h c.name att st
  cases hr : resolve rec c.name att st with
  | mk st1 res =>
    rw [hr] at f1
    cases res <;> exact f1

theorem ext_failIf (b : Bool) (cls : String) : StepE (failIf b cls) := fun st => Ext.refl st

theorem ext_emitStep (e : Ev) : StepE (emitStep e) := fun st => ext_emit st e

theorem ext_hasIoCheck {rec : St → Name → St × Res} (h : GSpecE rec) (c : ModCfg) : StepE (hasIoCheck rec c) := by
  intro st
  unfold hasIoCheck
  split
  · cases findAtt c "io" with
    | none => exact Ext.refl st
    | some att =>
      have f1 := ext_resolve h c.name att st
      cases hr : resolve rec c.name att st with
      | mk st1 res =>
        rw [hr] at f1
        simp only [hr]
        cases res <;> exact f1
  · exact Ext.refl st

theorem ext_groups (st : St) (g : List (Name × Name)) : Ext st { st with groups := st.groups ++ g } :=
  ⟨rfl, id, fun _ h => h, ⟨g, rfl⟩, ⟨[], by simp⟩, ⟨[], by simp⟩, fun _ _ => ⟨rfl, rfl, rfl⟩⟩

theorem ext_registerPoll {rec : St → Name → St × Res} (h : GSpecE rec) (c : ModCfg) : StepE (registerPoll rec c) := by
  intro st
  unfold registerPoll
  split
  · split
    · cases findAtt c "io" with
      | none => exact Ext.refl st
      | some att =>
        have f1 := ext_resolve h c.name att st
        cases hr : resolve rec c.name att st with
        | mk st1 res =>
          rw [hr] at f1
          simp only [hr]
          cases res with
          | mod d => exact f1.trans (ext_groups st1 _)
          | nothing => exact f1
          | raised cls => exact f1
    · exact ext_groups st _
  · exact Ext.refl st

theorem ext_seq : ∀ (fs : List Step), (∀ f ∈ fs, StepE f) → StepE (seq fs) := by
  intro fs
  induction fs with
  | nil => intro _ st; exact Ext.refl st
  | cons f fs ih =>
    intro hall st
    have f1 := hall f (by simp) st
    simp only [seq]
    cases hf : f st with
    | mk st1 e =>
      rw [hf] at f1
      cases e with
      | some e => exact f1
      | none => exact f1.trans (ih (fun g hg => hall g (by simp [hg])) st1)

theorem ext_initBody {rec : St → Name → St × Res} (h : GSpecE rec) (c : ModCfg) : StepE (initBody rec c) := by
  unfold initBody
  apply ext_seq
  intro f hf
  simp only [List.mem_append, List.mem_map, List.mem_singleton, List.mem_cons, List.not_mem_nil, or_false] at hf
  rcases hf with ((((rfl | ⟨a, _, rfl⟩) | (rfl | rfl | rfl | rfl)) | ⟨a, _, rfl⟩) | rfl) | ⟨a, _, rfl⟩
  · exact ext_emitStep _
  · exact ext_touch h c a
  · exact ext_failIf _ _
  · exact ext_emitStep _
  · exact ext_hasIoCheck h c
  · exact ext_registerPoll h c
  · exact ext_touch h c a
  · exact ext_failIf _ _
  · exact ext_resolveStep h c a

theorem ext_finishInit (st : St) (m : Name) (exc : Option String) : Ext st (finishInit st m exc) := by
  cases exc with
  | none => exact Ext.of_same rfl rfl rfl rfl rfl rfl
  | some e =>
    refine ⟨rfl, by intro h; simp [finishInit, noteFailure] at h, fun _ h => h, ⟨[], by simp [finishInit, noteFailure]⟩,
      ⟨[], by simp [finishInit, noteFailure]⟩, ⟨[], by simp [finishInit, noteFailure]⟩, ?_⟩
    intro _ h; simp [finishInit, noteFailure] at h

theorem ext_getModule : ∀ fuel, GSpecE (getModule fuel) := by
  intro fuel
  induction fuel with
  | zero => intro st name; exact Ext.of_same rfl rfl rfl rfl rfl rfl
  | succ fuel ih =>
    intro st name
    have q := ext_getModuleInstance st name
    simp only [getModule]
    cases hI : getModuleInstance st name with
    | mk sI r =>
      rw [hI] at q
      cases r with
      | none => exact q
      | raised cls => exact q
      | ok m =>
        simp only
        split
        · exact q
        · split
          · exact q
          · have e1 : Ext sI { sI with stack := m :: sI.stack } := Ext.of_same rfl rfl rfl rfl rfl rfl
            have e2 := ext_initBody ih { cfgOf sI m with name := m } { sI with stack := m :: sI.stack }
            cases hB : initBody (getModule fuel) { cfgOf sI m with name := m } { sI with stack := m :: sI.stack } with
            | mk st2 exc =>
              rw [hB] at e2
              exact (q.trans (e1.trans e2)).trans (ext_finishInit st2 m exc)

theorem ext_initAll (fuel : Nat) : ∀ (ms : List Name) (st : St), Ext st (initAll fuel ms st) := by
  intro ms
  induction ms with
  | nil => intro st; exact Ext.refl st
  | cons a ms ih => intro st; exact (ext_getModule fuel st a).trans (ih _)

/-! ## `create_modules`: when the creation loop is through, every known description has been tried -/

/-- loop invariant of the `while todos` loop -/
def KL (todos : List ModCfg) (st : St) : Prop :=
  ∀ k ∈ st.known, k.name ∈ st.modules ∨ st.errors ≠ [] ∨ k.name ∈ todos.map (·.name)

theorem mem_upsert {l : List ModCfg} {c k : ModCfg} (h : k ∈ upsertCfg l c) : k = c ∨ k ∈ l := by
  unfold upsertCfg at h
  split at h
  · obtain ⟨x, hx, rfl⟩ := List.mem_map.mp h
    split
    · exact Or.inl rfl
    · exact Or.inr hx
  · rcases List.mem_append.mp h with h | h
    · exact Or.inr h
    · exact Or.inl (by simpa using h)

theorem self_mem_upsert (l : List ModCfg) (c : ModCfg) : ∃ k ∈ upsertCfg l c, k.name = c.name := by
  unfold upsertCfg
  split
  · rename_i h
    obtain ⟨x, hx, hn⟩ := List.any_eq_true.mp h
    refine ⟨c, List.mem_map.mpr ⟨x, hx, by simp [hn]⟩, rfl⟩
  · exact ⟨c, by simp, rfl⟩

theorem findCfg_ne_none {l : List ModCfg} {n : Name} (h : ∃ k ∈ l, k.name = n) : findCfg l n ≠ none := by
  obtain ⟨k, hk, hn⟩ := h
  unfold findCfg
  intro hnone
  have := List.find?_eq_none.mp hnone k hk
  simp [hn] at this

/-- `get_module_instance` returns the module asked for, which then is a module of the node; `None` means an error was
recorded; an exception means the name is not known -/
theorem getModuleInstance_res (st : St) (name : Name) :
    (∀ m, (getModuleInstance st name).2 = Res.ok m → m = name ∧ name ∈ (getModuleInstance st name).1.modules) ∧
    ((getModuleInstance st name).2 = Res.none → (getModuleInstance st name).1.errors ≠ []) ∧
    (∀ cls, (getModuleInstance st name).2 = Res.raised cls → findCfg st.known name = none) := by
  unfold getModuleInstance
  split
  · rename_i hc
    refine ⟨fun m h => ?_, fun h => ?_, fun _ h => ?_⟩
    · cases h; exact ⟨rfl, by simpa using hc⟩
    · cases h
    · cases h
  · split
    · rename_i hf
      refine ⟨fun m h => ?_, fun h => ?_, fun _ _ => hf⟩
      · cases h
      · cases h
    · rename_i c hc
      have hcn := (findCfg_some hc).2
      split
      · refine ⟨fun m h => ?_, fun _ => by simp [addErr], fun _ h => ?_⟩
        · cases h
        · cases h
      · have hn : (hasIoCreate st c).2.name = c.name := by
          unfold hasIoCreate
          split
          · split <;> simp [setIo]
          · rfl
        refine ⟨fun m h => ?_, fun h => ?_, fun _ h => ?_⟩
        · cases h
          refine ⟨rfl, ?_⟩
          simp only [addModule]
          split
          · rename_i hc'; rw [hn, hcn] at hc'; simpa using hc'
          · rw [hn, hcn]; simp
        · cases h
        · cases h

theorem kl_createOne (fuel : Nat) (dyn : List ModCfg) (c : ModCfg) (rest : List ModCfg) (st : St)
    (h : KL (c :: rest) st) : KL (rest ++ (createOne fuel dyn c st).2) (createOne fuel dyn c st).1 := by
  unfold createOne
  split
  · rename_i hc
    intro k hk
    rcases h k hk with hm | he | hn
    · exact Or.inl hm
    · exact Or.inr (Or.inl he)
    · simp only [List.map_cons, List.mem_cons] at hn
      rcases hn with hn | hn
      · left; rw [hn]; simpa using hc
      · right; right; simp [hn]
  · simp only
    have hres := getModuleInstance_res { st with known := upsertCfg st.known c } c.name
    have hext := ext_getModuleInstance { st with known := upsertCfg st.known c } c.name
    -- after `get_module_instance`: `c` has been tried
    have hc : c.name ∈ (getModuleInstance { st with known := upsertCfg st.known c } c.name).1.modules ∨
        (getModuleInstance { st with known := upsertCfg st.known c } c.name).1.errors ≠ [] := by
      cases hr : (getModuleInstance { st with known := upsertCfg st.known c } c.name).2 with
      | ok m => exact Or.inl (hres.1 m hr).2
      | none => exact Or.inr (hres.2.1 hr)
      | raised cls => exact absurd (hres.2.2 cls hr) (findCfg_ne_none (self_mem_upsert st.known c))
    -- whatever follows (the initialisation of a Pinata) only adds
    have key : ∀ s' : St, Ext (getModuleInstance { st with known := upsertCfg st.known c } c.name).1 s' →
        ∀ more, KL (rest ++ more) s' := by
      intro s' he more k hk
      rw [he.known, hext.known] at hk
      have hmono : ∀ x, x ∈ st.modules → x ∈ s'.modules := fun x hx => he.mods x (hext.mods x hx)
      have herr : st.errors ≠ [] → s'.errors ≠ [] := fun hne hs => hne (hext.errs (he.errs hs))
      rcases mem_upsert hk with rfl | hk
      · rcases hc with hm | hne
        · exact Or.inl (he.mods _ hm)
        · exact Or.inr (Or.inl (fun hs => hne (he.errs hs)))
      · rcases h k hk with hm | hne | hn
        · exact Or.inl (hmono _ hm)
        · exact Or.inr (Or.inl (herr hne))
        · simp only [List.map_cons, List.mem_cons] at hn
          rcases hn with hn | hn
          · rcases hc with hm | hne
            · left; rw [hn]; exact he.mods _ hm
            · exact Or.inr (Or.inl (fun hs => hne (he.errs hs)))
          · right; right; simp [hn]
    cases hI : getModuleInstance { st with known := upsertCfg st.known c } c.name with
    | mk sI r =>
      rw [hI] at key
      cases r with
      | none => exact key sI (Ext.refl _) []
      | raised cls => exact key sI (Ext.refl _) []
      | ok m =>
        simp only
        split
        · exact key _ (ext_getModule fuel sI m) _
        · exact key sI (Ext.refl _) []

theorem kc_createLoop (dyn : List ModCfg) (gfuel : Nat) : ∀ (n : Nat) (todos : List ModCfg) (st : St), KL todos st →
    (createLoop dyn gfuel n todos st).oof = false → KC (createLoop dyn gfuel n todos st) := by
  intro n
  induction n with
  | zero =>
    intro todos st h hoof
    cases todos with
    | nil =>
      intro k hk
      rcases h k hk with hm | he | hn
      · exact Or.inl hm
      · exact Or.inr he
      · simp at hn
    | cons c rest => simp [createLoop] at hoof
  | succ n ih =>
    intro todos st h hoof
    cases todos with
    | nil =>
      intro k hk
      rcases h k hk with hm | he | hn
      · exact Or.inl hm
      · exact Or.inr he
      · simp at hn
    | cons c rest =>
      simp only [createLoop] at hoof ⊢
      have h1 := kl_createOne gfuel dyn c rest st h
      cases hC : createOne gfuel dyn c st with
      | mk s1 more =>
        rw [hC] at h1 hoof
        exact ih (rest ++ more) s1 h1 hoof

/-- the state after the creation loop -/
def created (cfg : Cfg) (fuel : Nat) : St := createLoop cfg.dyn fuel fuel cfg.mods { known := cfg.mods }

theorem core_eq (cfg : Cfg) (fuel : Nat) :
    core cfg fuel = initAll fuel (initAll fuel (created cfg fuel).modules (created cfg fuel)).exportL
      (initAll fuel (created cfg fuel).modules (created cfg fuel)) := rfl

theorem ext_created_core (cfg : Cfg) (fuel : Nat) : Ext (created cfg fuel) (core cfg fuel) := by
  rw [core_eq]
  exact (ext_initAll fuel _ _).trans (ext_initAll fuel _ _)

theorem created_oof (cfg : Cfg) (fuel : Nat) (h : (core cfg fuel).oof = false) : (created cfg fuel).oof = false := by
  obtain ⟨t1, _⟩ := top_createLoop cfg.dyn fuel fuel cfg.mods _ (inv_init cfg.mods)
  obtain ⟨t2, m2, _⟩ := top_initAll fuel (created cfg fuel).modules _ t1
  obtain ⟨_, m3, _⟩ := top_initAll fuel (initAll fuel (created cfg fuel).modules (created cfg fuel)).exportL _ t2
  cases ho : (created cfg fuel).oof with
  | false => rfl
  | true =>
    have : (core cfg fuel).oof = true := m3.oof (m2.oof ho)
    rw [h] at this
    cases this

theorem kc_created (cfg : Cfg) (fuel : Nat) (h : (core cfg fuel).oof = false) : KC (created cfg fuel) := by
  apply kc_createLoop
  · intro k hk
    right; right
    exact List.mem_map.mpr ⟨k, hk, rfl⟩
  · exact created_oof cfg fuel h

/-- **nothing is created after the creation loop** in a node that comes up: the modules, the module objects and the
table of automatic communicators of the node are those the creation loop left -/
theorem core_nothing_created_late (cfg : Cfg) (fuel : Nat) (herr : (core cfg fuel).errors = [])
    (hoof : (core cfg fuel).oof = false) :
    (core cfg fuel).modules = (created cfg fuel).modules ∧ (core cfg fuel).mcfg = (created cfg fuel).mcfg ∧
    (core cfg fuel).ioDict = (created cfg fuel).ioDict :=
  (ext_created_core cfg fuel).nc (kc_created cfg fuel hoof) herr

/-- every module of a node that comes up has been initialised -/
theorem core_all_inited (cfg : Cfg) (fuel : Nat) (herr : (core cfg fuel).errors = [])
    (hoof : (core cfg fuel).oof = false) : ∀ m ∈ (core cfg fuel).modules, m ∈ (core cfg fuel).inited := by
  intro m hm
  rw [(core_nothing_created_late cfg fuel herr hoof).1] at hm
  exact core_created_inited cfg fuel hoof m hm

/-! ## a node that came up: every module early-initialised, initialised, started — once, in that order -/

theorem pairwise_of_right {R : Ev → Ev → Prop} : ∀ (l : List Ev), (∀ a, ∀ b ∈ l, R a b) → l.Pairwise R
  | [], _ => List.Pairwise.nil
  | a :: l, h => List.Pairwise.cons (fun b hb => h a b (by simp [hb]))
      (pairwise_of_right l (fun x y hy => h x y (by simp [hy])))

theorem count_start_startEvents_mem (st : St) (hnd : st.modules.Nodup) (m : Name) (hm : m ∈ st.modules) :
    (startEvents st).count (Ev.start m) = 1 := by
  have hle := count_start_startEvents st hnd m
  have hpos : 0 < (startEvents st).count (Ev.start m) := by
    apply List.count_pos_iff.mpr
    unfold startEvents
    refine List.mem_flatMap.mpr ⟨m, hm, ?_⟩
    unfold startOne
    split <;> simp
  omega

theorem startup_core (cfg : Cfg) (fuel : Nat) (herr : (startup cfg fuel).errors = []) :
    startup cfg fuel = core cfg fuel ∧ (core cfg fuel).errors = [] := by
  have hcore : (core cfg fuel).errors = [] := by
    rw [startup_eq] at herr
    split at herr
    · exact herr
    · simpa [emit] using herr
  exact ⟨by rw [startup_eq]; simp [hcore], hcore⟩

theorem run_init_order_once (cfg : Cfg) (fuel : Nat) (sched : List Act) (pick : List Name → Nat)
    (herr : (run cfg fuel sched pick).st.errors = []) (hoof : (run cfg fuel sched pick).st.oof = false) :
    InitOrderOnce (run cfg fuel sched pick).st.modules (run cfg fuel sched pick).log := by
  rw [(run_log cfg fuel sched pick).1] at herr hoof ⊢
  rw [(run_log cfg fuel sched pick).2]
  obtain ⟨hst, hcore⟩ := startup_core cfg fuel herr
  simp only [herr, List.isEmpty_nil, if_true]
  rw [hst] at hoof ⊢
  intro m hm
  have hin := core_all_inited cfg fuel hcore hoof m hm
  have ht := top_core cfg fuel
  have hnoI : ∀ e ∈ laterPart (core cfg fuel) sched pick, isInitEv e = false :=
    fun e he => (later_no_init _ sched pick e he).2
  have h1 : OnceInOrder (Ev.early m) (Ev.init m) ((core cfg fuel).log ++ laterPart (core cfg fuel) sched pick) := by
    apply onceInOrder_append _ _ _ _ (core_once cfg fuel hcore m hin)
    · intro h; have := hnoI _ h; simp [isInitEv] at this
    · intro h; have := hnoI _ h; simp [isInitEv] at this
  refine ⟨h1, h1.2.1, ?_, ?_⟩
  · rw [List.count_append, top_no_start _ ht m]
    have hw : (laterPart (core cfg fuel) sched pick).count (Ev.start m) = (startEvents (core cfg fuel)).count (Ev.start m) := by
      have hs : (shutdownLog (core cfg fuel).modules (threadsOf (core cfg fuel)) (core cfg fuel).edges pick).count
          (Ev.start m) = 0 := by
        apply List.count_eq_zero.mpr
        intro hm'
        simp only [shutdownLog, List.mem_append, List.mem_map] at hm'
        rcases hm' with (⟨x, _, hx⟩ | ⟨x, _, hx⟩) | ⟨x, _, hx⟩ <;> cases hx
      have hw' : (waitPhase (core cfg fuel) sched).count (Ev.start m) = (startEvents (core cfg fuel)).count (Ev.start m) := by
        rw [← start_loop_complete (core cfg fuel) sched, List.count_filter]
        rfl
      simp [laterPart, List.count_append, hw', hs]
    rw [hw, count_start_startEvents_mem _ ht.1.modsNd m hm]
  · unfold NeverAfter
    rw [List.pairwise_append]
    refine ⟨pairwise_of_left _ (fun x hx y hh => ?_), pairwise_of_right _ (fun x y hy hh => ?_), fun x hx y _ hh => ?_⟩
    · have : x = Ev.start m := beq_iff_eq.mp hh.1
      subst this
      have := ht.1.shape _ hx
      simp [isInitEv] at this
    · have : y = Ev.init m := beq_iff_eq.mp hh.2
      subst this
      have := hnoI _ hy
      simp [isInitEv] at this
    · have : x = Ev.start m := beq_iff_eq.mp hh.1
      subst this
      have := ht.1.shape _ hx
      simp [isInitEv] at this

/-! ## the link between the descriptions of the configuration and the module objects of the node

`LI W st`: every description the node knows is one of `W`; every module object was made from a description of `W` (same
class, poll flag, parameters, scan list — only the `io` attachment may have been filled in) or is an automatic
communicator listed in `ioDict`; the modules are exactly the names of the objects; an initialised module is a module of
the node; and an initialised module that did not fail and has something to poll or to write is registered with the poll
thread of a module of the node. -/

def Sim (x k : ModCfg) : Prop :=
  x.name = k.name ∧ x.cls = k.cls ∧ x.poll = k.poll ∧ x.params = k.params ∧ x.scan = k.scan

/-- `if self.enablePoll or self.writeDict:` -/
def needsPoll (c : ModCfg) : Bool := c.poll || !(writeDict c).isEmpty

structure LI (W : List ModCfg) (st : St) : Prop where
  knownW : ∀ k ∈ st.known, k ∈ W
  mcfgW : ∀ x ∈ st.mcfg, (∃ k ∈ W, Sim x k ∧ k.params.any paramRejected = false) ∨ (∃ p ∈ st.ioDict, x = autoIo p.2)
  names : ∀ n, n ∈ st.modules ↔ ∃ x ∈ st.mcfg, x.name = n
  initedMods : ∀ m ∈ st.inited, m ∈ st.modules
  reg : ∀ m ∈ st.inited, m ∉ st.failed → needsPoll (cfgOf st m) = true → ∃ t ∈ st.modules, (t, m) ∈ st.groups

/-- the object of a module that exists is not affected by objects created later -/
theorem cfgOf_stable {st st' : St} (hm : ∃ ext, st'.mcfg = st.mcfg ++ ext) (n : Name)
    (hn : ∃ x ∈ st.mcfg, x.name = n) : cfgOf st' n = cfgOf st n := by
  obtain ⟨ext, he⟩ := hm
  obtain ⟨x, hx, hxn⟩ := hn
  unfold cfgOf findCfg
  rw [he, List.find?_append]
  have : (st.mcfg.find? (fun c => c.name == n)).isSome := by
    rw [List.find?_isSome]
    exact ⟨x, hx, by simp [hxn]⟩
  cases hf : st.mcfg.find? (fun c => c.name == n) with
  | none => rw [hf] at this; cases this
  | some y => rfl

/-- a piece that only adds (`Ext`) and leaves the set of initialised / failed modules alone keeps the link -/
theorem LI.of_ext {W : List ModCfg} {st st' : St} (h : LI W st) (e : Ext st st')
    (hi : st'.inited = st.inited) (hf : st'.failed = st.failed) (hmods : st'.modules = st.modules)
    (hmc : st'.mcfg = st.mcfg) (hio : st'.ioDict = st.ioDict) : LI W st' := by
  refine ⟨by rw [e.known]; exact h.knownW, by rw [hmc, hio]; exact h.mcfgW, by rw [hmods, hmc]; exact h.names,
    by rw [hi, hmods]; exact h.initedMods, ?_⟩
  intro m hm hnf hnp
  rw [hi] at hm
  rw [hf] at hnf
  have hc : cfgOf st' m = cfgOf st m := by unfold cfgOf; rw [hmc]
  rw [hc] at hnp
  obtain ⟨t, ht, hg⟩ := h.reg m hm hnf hnp
  obtain ⟨ext, hext⟩ := e.groups
  exact ⟨t, by rw [hmods]; exact ht, by rw [hext]; exact List.mem_append_left _ hg⟩

theorem li_emit {W : List ModCfg} {st : St} (h : LI W st) (e : Ev) : LI W (emit st e) :=
  h.of_ext (ext_emit st e) rfl rfl rfl rfl rfl

theorem li_addEdge {W : List ModCfg} {st : St} (h : LI W st) (u d : Name) : LI W (addEdge st u d) := by
  unfold addEdge
  split
  · exact h
  · exact h.of_ext (Ext.of_same rfl rfl rfl rfl rfl rfl) rfl rfl rfl rfl rfl

theorem li_groups {W : List ModCfg} {st : St} (h : LI W st) (g : List (Name × Name)) :
    LI W { st with groups := st.groups ++ g } :=
  h.of_ext (ext_groups st g) rfl rfl rfl rfl rfl

theorem sim_setIo (c : ModCfg) (io : Name) : Sim (setIo c io) c := ⟨rfl, rfl, rfl, rfl, rfl⟩

/-- a new module object (and what else may have been appended to the tables) -/
theorem li_addModule {W : List ModCfg} {st : St} (h : LI W st) (x : ModCfg)
    (hx : (∃ k ∈ W, Sim x k ∧ k.params.any paramRejected = false) ∨ (∃ p ∈ st.ioDict, x = autoIo p.2)) : LI W (addModule st x) := by
  have hmods : ∀ n, n ∈ (addModule st x).modules ↔ n ∈ st.modules ∨ n = x.name := by
    intro n
    simp only [addModule]
    split
    · rename_i hc
      have : x.name ∈ st.modules := by simpa using hc
      constructor
      · exact Or.inl
      · rintro (h | rfl)
        · exact h
        · exact this
    · simp
  refine ⟨h.knownW, ?_, ?_, ?_, ?_⟩
  · intro y hy
    simp only [addModule, List.mem_append, List.mem_singleton] at hy
    rcases hy with hy | rfl
    · exact h.mcfgW y hy
    · exact hx
  · intro n
    rw [hmods, h.names]
    simp only [addModule, List.mem_append, List.mem_singleton]
    constructor
    · rintro (⟨y, hy, hn⟩ | rfl)
      · exact ⟨y, Or.inl hy, hn⟩
      · exact ⟨x, Or.inr rfl, rfl⟩
    · rintro ⟨y, hy | rfl, hn⟩
      · exact Or.inl ⟨y, hy, hn⟩
      · exact Or.inr hn.symm
  · intro m hm
    exact (hmods m).mpr (Or.inl (h.initedMods m hm))
  · intro m hm hnf hnp
    have hst : cfgOf (addModule st x) m = cfgOf st m :=
      cfgOf_stable ⟨[x], rfl⟩ m ((h.names m).mp (h.initedMods m hm))
    rw [hst] at hnp
    obtain ⟨t, ht, hg⟩ := h.reg m hm hnf hnp
    exact ⟨t, (hmods t).mpr (Or.inl ht), hg⟩

theorem li_ioDict {W : List ModCfg} {st : St} (h : LI W st) (e : String × Name) :
    LI W { st with ioDict := st.ioDict ++ [e] } := by
  refine ⟨h.knownW, ?_, h.names, h.initedMods, h.reg⟩
  intro y hy
  rcases h.mcfgW y hy with hk | ⟨p, hp, rfl⟩
  · exact Or.inl hk
  · exact Or.inr ⟨p, List.mem_append_left _ hp, rfl⟩

/-- `HasIO.__init__`: the automatic communicator, with its entry in `ioDict` -/
theorem li_hasIoCreate {W : List ModCfg} {st : St} (h : LI W st) (c : ModCfg) :
    LI W (hasIoCreate st c).1 ∧ Sim (hasIoCreate st c).2 c := by
  rcases c with ⟨n, cls, ex, po, pa, atts, te, ti, fe, fi, uri, sc, de, wf, rf, pf⟩
  cases cls <;> cases uri <;> simp only [hasIoCreate] <;> try exact ⟨h, ⟨rfl, rfl, rfl, rfl, rfl⟩⟩
  rename_i uri
  split
  · exact ⟨h, ⟨rfl, rfl, rfl, rfl, rfl⟩⟩
  · refine ⟨?_, ⟨rfl, rfl, rfl, rfl, rfl⟩⟩
    have h1 := li_ioDict h (uri, n ++ "_io")
    have h2 := li_addModule h1 (autoIo (n ++ "_io")) (Or.inr ⟨(uri, n ++ "_io"), by simp, rfl⟩)
    exact h2

theorem li_getModuleInstance {W : List ModCfg} {st : St} (h : LI W st) (name : Name) :
    LI W (getModuleInstance st name).1 := by
  unfold getModuleInstance
  split
  · exact h
  · split
    · exact h
    · rename_i c hc
      have hcW : c ∈ W := h.knownW c (findCfg_some hc).1
      split
      · exact h.of_ext (by
          refine ⟨rfl, by intro h; simp [addErr] at h, fun _ h => h, ⟨[], by simp [addErr]⟩, ⟨[], by simp [addErr]⟩,
            ⟨[], by simp [addErr]⟩, ?_⟩
          intro _ h; simp [addErr] at h) rfl rfl rfl rfl rfl
      · rename_i hcond
        have hrej : c.params.any paramRejected = false := by
          cases hr : c.params.any paramRejected with
          | false => rfl
          | true => exact absurd (by simp [hr]) hcond
        have key := li_hasIoCreate h c
        exact li_addModule key.1 _ (Or.inl ⟨c, hcW, key.2, hrej⟩)

def GSpecL (W : List ModCfg) (rec : St → Name → St × Res) : Prop :=
  ∀ st name, LI W st → LI W (rec st name).1 ∧ ∀ m, (rec st name).2 = Res.ok m → m ∈ (rec st name).1.modules

def StepL (W : List ModCfg) (f : Step) : Prop := ∀ st, LI W st → LI W (f st).1

theorem li_resolve {W : List ModCfg} {rec : St → Name → St × Res} (h : GSpecL W rec) (u : Name) (att : Att) (st : St)
    (hl : LI W st) : LI W (resolve rec u att st).1 ∧
      ∀ d, (resolve rec u att st).2 = RRes.mod d → d ∈ (resolve rec u att st).1.modules := by
  unfold resolve
  cases att.target with
  | none => exact ⟨hl, by intro d h; cases h⟩
  | some t =>
    obtain ⟨l1, r1⟩ := h st t hl
    cases hr : rec st t with
    | mk st1 res =>
      rw [hr] at l1 r1
      simp only [hr]
      cases res with
      | raised cls => exact ⟨l1, by intro d h; cases h⟩
      | none => exact ⟨l1, by intro d h; cases h⟩
      | ok d =>
        simp only
        split
        · split
          · exact ⟨l1, by intro d h; cases h⟩
          · refine ⟨li_addEdge l1 u d, ?_⟩
            intro d' hd'
            cases hd'
            have : (addEdge st1 u d).modules = st1.modules := by unfold addEdge; split <;> rfl
            rw [this]
            exact r1 d rfl
        · exact ⟨l1, by intro d h; cases h⟩

theorem li_touch {W : List ModCfg} {rec : St → Name → St × Res} (h : GSpecL W rec) (c : ModCfg) (a : String) :
    StepL W (touch rec c a) := by
  intro st hl
  unfold touch
  cases findAtt c a with
  | none => exact hl
  | some att =>
    have f1 := (li_resolve h c.name att st hl).1
    cases hr : resolve rec c.name att st with
    | mk st1 res =>
      rw [hr] at f1
      simp only [hr]
      cases res with
      | mod d => exact li_emit f1 _
      | nothing => exact f1
      | raised cls => exact f1

theorem li_resolveStep {W : List ModCfg} {rec : St → Name → St × Res} (h : GSpecL W rec) (c : ModCfg) (att : Att) :
    StepL W (resolveStep rec c att) := by
  intro st hl
  unfold resolveStep
  have f1 := (li_resolve h c.name att st hl).1
  cases hr : resolve rec c.name att st with
  | mk st1 res =>
    rw [hr] at f1
    cases res <;> exact f1

theorem li_hasIoCheck {W : List ModCfg} {rec : St → Name → St × Res} (h : GSpecL W rec) (c : ModCfg) :
    StepL W (hasIoCheck rec c) := by
  intro st hl
  unfold hasIoCheck
  split
  · cases findAtt c "io" with
    | none => exact hl
    | some att =>
      have f1 := (li_resolve h c.name att st hl).1
      cases hr : resolve rec c.name att st with
      | mk st1 res =>
        rw [hr] at f1
        simp only [hr]
        cases res <;> exact f1
  · exact hl

/-- `Module.initModule` registers the module: with the poll thread of a module of the node -/
theorem li_registerPoll {W : List ModCfg} {rec : St → Name → St × Res} (h : GSpecL W rec) (c : ModCfg) (st : St)
    (hl : LI W st) : LI W (registerPoll rec c st).1 ∧
      (c.name ∈ st.modules → (registerPoll rec c st).2 = none → needsPoll c = true →
        ∃ t ∈ (registerPoll rec c st).1.modules, (t, c.name) ∈ (registerPoll rec c st).1.groups) := by
  unfold registerPoll
  split
  · split
    · cases findAtt c "io" with
      | none => exact ⟨hl, by intro _ h; cases h⟩
      | some att =>
        obtain ⟨f1, r1⟩ := li_resolve h c.name att st hl
        cases hr : resolve rec c.name att st with
        | mk st1 res =>
          rw [hr] at f1 r1
          simp only [hr]
          cases res with
          | mod d =>
            refine ⟨li_groups f1 _, ?_⟩
            intro _ _ _
            exact ⟨d, r1 d rfl, by simp⟩
          | nothing => exact ⟨f1, by intro _ h; cases h⟩
          | raised cls => exact ⟨f1, by intro _ h; cases h⟩
    · refine ⟨li_groups hl _, ?_⟩
      intro hm _ _
      exact ⟨c.name, hm, by simp⟩
  · rename_i hc
    refine ⟨hl, ?_⟩
    intro _ _ hn
    exact absurd hn hc

theorem li_seq {W : List ModCfg} : ∀ (fs : List Step), (∀ f ∈ fs, StepL W f) → StepL W (seq fs) := by
  intro fs
  induction fs with
  | nil => intro _ st hl; exact hl
  | cons f fs ih =>
    intro hall st hl
    have f1 := hall f (by simp) st hl
    simp only [seq]
    cases hf : f st with
    | mk st1 e =>
      rw [hf] at f1
      cases e with
      | some e => exact f1
      | none => exact ih (fun g hg => hall g (by simp [hg])) st1 f1

/-- a monotone fact `Q` established by one step `g` of a sequence (under a monotone precondition `P`) holds at the end
of every run of the sequence that no exception leaves -/
theorem seq_establish (P Q : St → Prop) (g : Step) : ∀ (fs : List Step),
    (∀ f ∈ fs, ∀ st, (P st → P (f st).1) ∧ (Q st → Q (f st).1)) → g ∈ fs →
    (∀ st, P st → (g st).2 = none → Q (g st).1) →
    ∀ st, P st → (seq fs st).2 = none → Q (seq fs st).1 := by
  intro fs
  induction fs with
  | nil => intro _ hg; cases hg
  | cons f fs ih =>
    intro hall hg hest st hp hnone
    simp only [seq] at hnone ⊢
    cases hf : f st with
    | mk st1 e =>
      rw [hf] at hnone
      cases e with
      | some e => cases hnone
      | none =>
        simp only at hnone ⊢
        have hp1 : P st1 := by have := (hall f (by simp) st).1 hp; rwa [hf] at this
        rcases List.mem_cons.mp hg with rfl | hg'
        · have hq1 : Q st1 := by have := hest st hp (by rw [hf]); rwa [hf] at this
          -- the rest of the sequence keeps `Q`
          have keep : ∀ (l : List Step), (∀ f ∈ l, ∀ st, (P st → P (f st).1) ∧ (Q st → Q (f st).1)) →
              ∀ s, Q s → Q (seq l s).1 := by
            intro l
            induction l with
            | nil => intro _ s hs; exact hs
            | cons a l ihl =>
              intro hl s hs
              simp only [seq]
              have hqa := (hl a (by simp) s).2 hs
              cases ha : a s with
              | mk s1 e1 =>
                rw [ha] at hqa
                cases e1 with
                | some e => exact hqa
                | none => exact ihl (fun f hf => hl f (by simp [hf])) s1 hqa
          exact keep fs (fun f hf => hall f (by simp [hf])) st1 hq1
        · exact ih (fun f hf => hall f (by simp [hf])) hg' hest st1 hp1 hnone

/-- the steps of the body of `get_module`, as a list -/
def bodySteps (rec : St → Name → St × Res) (c : ModCfg) : List Step :=
  [emitStep (.early c.name)] ++ c.touchEarly.map (touch rec c) ++ [failIf c.failEarly "ValueError",
    emitStep (.init c.name), hasIoCheck rec c, registerPoll rec c] ++ c.touchInit.map (touch rec c) ++
    [failIf c.failInit "ValueError"] ++ c.atts.map (resolveStep rec c)

theorem initBody_steps (rec : St → Name → St × Res) (c : ModCfg) : initBody rec c = seq (bodySteps rec c) := rfl

theorem bodySteps_ok {W : List ModCfg} {rec : St → Name → St × Res} (h : GSpecL W rec) (hE : GSpecE rec) (c : ModCfg) :
    ∀ f ∈ bodySteps rec c, StepL W f ∧ StepE f := by
  intro f hf
  simp only [bodySteps, List.mem_append, List.mem_map, List.mem_singleton, List.mem_cons, List.not_mem_nil,
    or_false] at hf
  rcases hf with ((((rfl | ⟨a, _, rfl⟩) | (rfl | rfl | rfl | rfl)) | ⟨a, _, rfl⟩) | rfl) | ⟨a, _, rfl⟩
  · exact ⟨fun st hl => li_emit hl _, ext_emitStep _⟩
  · exact ⟨li_touch h c a, ext_touch hE c a⟩
  · exact ⟨fun st hl => hl, ext_failIf _ _⟩
  · exact ⟨fun st hl => li_emit hl _, ext_emitStep _⟩
  · exact ⟨li_hasIoCheck h c, ext_hasIoCheck hE c⟩
  · exact ⟨fun st hl => (li_registerPoll h c st hl).1, ext_registerPoll hE c⟩
  · exact ⟨li_touch h c a, ext_touch hE c a⟩
  · exact ⟨fun st hl => hl, ext_failIf _ _⟩
  · exact ⟨li_resolveStep h c a, ext_resolveStep hE c a⟩

/-- the body of `get_module` for the module object `c`: the link is kept, and when no exception leaves the body a
module with something to poll or to write is registered with the poll thread of a module of the node -/
theorem li_initBody {W : List ModCfg} {rec : St → Name → St × Res} (h : GSpecL W rec) (hE : GSpecE rec) (c : ModCfg)
    (st : St) (hl : LI W st) (hm : c.name ∈ st.modules) :
    LI W (initBody rec c st).1 ∧
    ((initBody rec c st).2 = none → needsPoll c = true →
      ∃ t ∈ (initBody rec c st).1.modules, (t, c.name) ∈ (initBody rec c st).1.groups) := by
  rw [initBody_steps]
  refine ⟨li_seq _ (fun f hf => (bodySteps_ok h hE c f hf).1) st hl, ?_⟩
  intro hnone hnp
  apply seq_establish (fun s => LI W s ∧ c.name ∈ s.modules)
    (fun s => ∃ t ∈ s.modules, (t, c.name) ∈ s.groups) (registerPoll rec c) (bodySteps rec c)
  · intro f hf s
    obtain ⟨hL, hEx⟩ := bodySteps_ok h hE c f hf
    refine ⟨fun hp => ⟨hL s hp.1, (hEx s).mods _ hp.2⟩, ?_⟩
    rintro ⟨t, ht, hg⟩
    obtain ⟨ext, hext⟩ := (hEx s).groups
    exact ⟨t, (hEx s).mods _ ht, by rw [hext]; exact List.mem_append_left _ hg⟩
  · simp [bodySteps]
  · intro s hp hn
    exact (li_registerPoll h c s hp.1).2 hp.2 hn hnp
  · exact ⟨hl, hm⟩
  · exact hnone

theorem needsPoll_setName (c : ModCfg) (n : Name) : needsPoll { c with name := n } = needsPoll c := rfl

theorem li_getModule (W : List ModCfg) : ∀ fuel, GSpecL W (getModule fuel) := by
  intro fuel
  induction fuel with
  | zero =>
    intro st name hl
    exact ⟨hl.of_ext (Ext.of_same rfl rfl rfl rfl rfl rfl) rfl rfl rfl rfl rfl, by intro m h; cases h⟩
  | succ fuel ih =>
    intro st name hl
    have lI := li_getModuleInstance hl name
    have hres := (getModuleInstance_res st name).1
    simp only [getModule]
    cases hI : getModuleInstance st name with
    | mk sI r =>
      rw [hI] at lI hres
      cases r with
      | none => exact ⟨lI, by intro m h; cases h⟩
      | raised cls => exact ⟨lI, by intro m h; cases h⟩
      | ok m =>
        have hmI : m ∈ sI.modules := by
          obtain ⟨e, hm⟩ := hres m rfl
          rw [e]; exact hm
        simp only
        split
        · exact ⟨lI, by intro m' h; cases h; exact hmI⟩
        · split
          · exact ⟨lI, by intro m' h; cases h⟩
          · have l1 : LI W { sI with stack := m :: sI.stack } :=
              lI.of_ext (Ext.of_same rfl rfl rfl rfl rfl rfl) rfl rfl rfl rfl rfl
            have hb := li_initBody ih (ext_getModule fuel) { cfgOf sI m with name := m } _ l1 hmI
            have e2 := ext_initBody (ext_getModule fuel) { cfgOf sI m with name := m } { sI with stack := m :: sI.stack }
            cases hB : initBody (getModule fuel) { cfgOf sI m with name := m } { sI with stack := m :: sI.stack } with
            | mk st2 exc =>
              rw [hB] at hb e2
              obtain ⟨l2, hreg⟩ := hb
              have hm2 : m ∈ st2.modules := e2.mods m hmI
              have hcf : cfgOf st2 m = cfgOf sI m := cfgOf_stable e2.mcfg m ((lI.names m).mp hmI)
              refine ⟨?_, by intro m' h; cases h; simpa [finishInit] using hm2⟩
              have hk : (finishInit st2 m exc).known = st2.known := by cases exc <;> rfl
              have hmc : (finishInit st2 m exc).mcfg = st2.mcfg := by cases exc <;> rfl
              have hio : (finishInit st2 m exc).ioDict = st2.ioDict := by cases exc <;> rfl
              have hmo : (finishInit st2 m exc).modules = st2.modules := by cases exc <;> rfl
              have hgr : (finishInit st2 m exc).groups = st2.groups := by cases exc <;> rfl
              have hin : (finishInit st2 m exc).inited = st2.inited ++ [m] := by cases exc <;> rfl
              refine ⟨by rw [hk]; exact l2.knownW, by rw [hmc, hio]; exact l2.mcfgW, by rw [hmo, hmc]; exact l2.names,
                ?_, ?_⟩
              · intro x hx
                rw [hin] at hx
                rw [hmo]
                rcases List.mem_append.mp hx with hx | hx
                · exact l2.initedMods x hx
                · have : x = m := by simpa using hx
                  rw [this]; exact hm2
              · intro x hx hnf hnp
                rw [hin] at hx
                have hcx : cfgOf (finishInit st2 m exc) x = cfgOf st2 x := by unfold cfgOf; rw [hmc]
                rw [hcx] at hnp
                rw [hmo, hgr]
                rcases List.mem_append.mp hx with hx | hx
                · have hnf2 : x ∉ st2.failed := fun hf => hnf (by
                    simp only [finishInit]
                    exact nf_failed_mono st2 m exc x hf)
                  exact l2.reg x hx hnf2 hnp
                · have hxm : x = m := by simpa using hx
                  subst hxm
                  have hexc : exc = none := by
                    cases exc with
                    | none => rfl
                    | some e =>
                      exfalso
                      apply hnf
                      simp only [finishInit]
                      exact nf_failed_self st2 x e
                  rw [hcf] at hnp
                  exact hreg hexc (by rw [needsPoll_setName]; exact hnp)

/-! ### the loops of `create_modules` and the whole initialisation -/

/-- Pinatas are declared statically: no module a Pinata produces is a Pinata itself (the assumption under which the
Spec's `allMods` lists every module of the node) -/
def StaticPinatas (cfg : Cfg) : Prop := ∀ d ∈ cfg.dyn, d.cls ≠ Cls.pinata

/-- the descriptions a node can ever know: the declared modules and what their Pinatas produce -/
def Wr (cfg : Cfg) : List ModCfg :=
  cfg.mods ++ cfg.dyn.filter (fun d => cfg.mods.any (fun p => p.cls == Cls.pinata && p.scan.contains d.name))

theorem allMods_eq (cfg : Cfg) (io : List (String × Name)) : allMods cfg io = Wr cfg ++ io.map (fun p => autoIo p.2) := rfl

theorem cfgOf_mem {st : St} {n : Name} (h : ∃ x ∈ st.mcfg, x.name = n) : cfgOf st n ∈ st.mcfg ∧ (cfgOf st n).name = n := by
  obtain ⟨x, hx, hxn⟩ := h
  unfold cfgOf findCfg
  cases hf : st.mcfg.find? (fun c => c.name == n) with
  | none =>
    have := List.find?_eq_none.mp hf x hx
    simp [hxn] at this
  | some y =>
    exact ⟨List.mem_of_find?_eq_some hf, by simpa using List.find?_some hf⟩

theorem li_createOne (cfg : Cfg) (hsp : StaticPinatas cfg) (fuel : Nat) (c : ModCfg) (st : St) (hl : LI (Wr cfg) st)
    (hc : c ∈ Wr cfg) :
    LI (Wr cfg) (createOne fuel cfg.dyn c st).1 ∧ ∀ d ∈ (createOne fuel cfg.dyn c st).2, d ∈ Wr cfg := by
  unfold createOne
  split
  · exact ⟨hl, by intro d hd; cases hd⟩
  · simp only
    have l0 : LI (Wr cfg) { st with known := upsertCfg st.known c } := by
      refine ⟨?_, hl.mcfgW, hl.names, hl.initedMods, hl.reg⟩
      intro k hk
      rcases mem_upsert hk with rfl | hk
      · exact hc
      · exact hl.knownW k hk
    have lI := li_getModuleInstance l0 c.name
    have hres := (getModuleInstance_res { st with known := upsertCfg st.known c } c.name).1
    cases hI : getModuleInstance { st with known := upsertCfg st.known c } c.name with
    | mk sI r =>
      rw [hI] at lI hres
      cases r with
      | none => exact ⟨lI, by intro d hd; cases hd⟩
      | raised cls => exact ⟨lI, by intro d hd; cases hd⟩
      | ok m =>
        have hmI : m ∈ sI.modules := by
          obtain ⟨e, hm⟩ := hres m rfl
          rw [e]; exact hm
        simp only
        split
        · rename_i hp
          have l2 := (li_getModule (Wr cfg) fuel sI m lI).1
          have e2 := ext_getModule fuel sI m
          cases hG : getModule fuel sI m with
          | mk s2 r2 =>
            rw [hG] at l2 e2
            refine ⟨l2, ?_⟩
            intro d hd
            simp only at hd
            obtain ⟨n, hn, hfd⟩ := List.mem_filterMap.mp hd
            obtain ⟨hdd, hdn⟩ := findCfg_some hfd
            have hcf : cfgOf s2 m = cfgOf sI m := cfgOf_stable e2.mcfg m ((lI.names m).mp hmI)
            have hx := cfgOf_mem ((l2.names m).mp (e2.mods m hmI))
            have hcls : (cfgOf s2 m).cls = Cls.pinata := by rw [hcf]; simpa using hp
            rcases l2.mcfgW _ hx.1 with ⟨k, hk, hsim, -⟩ | ⟨p, _, hauto⟩
            · have hkc : k.cls = Cls.pinata := by rw [← hsim.2.1]; exact hcls
              have hkm : k ∈ cfg.mods := by
                rcases List.mem_append.mp hk with h | h
                · exact h
                · exact absurd hkc (hsp k (List.mem_filter.mp h).1)
              apply List.mem_append_right
              rw [List.mem_filter]
              refine ⟨hdd, ?_⟩
              rw [List.any_eq_true]
              refine ⟨k, hkm, ?_⟩
              have : n ∈ k.scan := by rw [← hsim.2.2.2.2]; exact hn
              simp [hkc, hdn, this]
            · rw [hauto] at hcls
              simp [autoIo] at hcls
        · exact ⟨lI, by intro d hd; cases hd⟩

theorem li_createLoop (cfg : Cfg) (hsp : StaticPinatas cfg) (gfuel : Nat) : ∀ (n : Nat) (todos : List ModCfg) (st : St),
    LI (Wr cfg) st → (∀ c ∈ todos, c ∈ Wr cfg) → LI (Wr cfg) (createLoop cfg.dyn gfuel n todos st) := by
  intro n
  induction n with
  | zero =>
    intro todos st hl _
    cases todos with
    | nil => exact hl
    | cons c rest => exact hl.of_ext (Ext.of_same rfl rfl rfl rfl rfl rfl) rfl rfl rfl rfl rfl
  | succ n ih =>
    intro todos st hl ht
    cases todos with
    | nil => exact hl
    | cons c rest =>
      simp only [createLoop]
      obtain ⟨l1, hmore⟩ := li_createOne cfg hsp gfuel c st hl (ht c (by simp))
      cases hC : createOne gfuel cfg.dyn c st with
      | mk s1 more =>
        rw [hC] at l1 hmore
        apply ih (rest ++ more) s1 l1
        intro d hd
        rcases List.mem_append.mp hd with hd | hd
        · exact ht d (by simp [hd])
        · exact hmore d hd

theorem li_initAll (W : List ModCfg) (fuel : Nat) : ∀ (ms : List Name) (st : St), LI W st → LI W (initAll fuel ms st) := by
  intro ms
  induction ms with
  | nil => intro st h; exact h
  | cons a ms ih => intro st h; exact ih _ (li_getModule W fuel st a h).1

theorem li_core (cfg : Cfg) (hsp : StaticPinatas cfg) (fuel : Nat) : LI (Wr cfg) (core cfg fuel) := by
  have l0 : LI (Wr cfg) ({ known := cfg.mods } : St) := by
    refine ⟨fun k hk => List.mem_append_left _ hk, (by intro x hx; cases hx), ?_, (by intro m hm; cases hm),
      (by intro m hm; cases hm)⟩
    intro n
    constructor
    · intro h; cases h
    · rintro ⟨x, hx, _⟩; cases hx
  have l1 := li_createLoop cfg hsp fuel fuel cfg.mods _ l0 (fun c hc => List.mem_append_left _ hc)
  exact li_initAll _ fuel _ _ (li_initAll _ fuel _ _ l1)

/-- **the link**: in a node that came up, the module object of every module the configuration describes carries the
class, the poll flag and the parameters of its description, and — when it has something to poll or a start value to
write — is served by a poll thread that is started -/
theorem linked_core (cfg : Cfg) (hsp : StaticPinatas cfg) (fuel : Nat) (herr : (core cfg fuel).errors = [])
    (hoof : (core cfg fuel).oof = false) (hnd : (names (allMods cfg (core cfg fuel).ioDict)).Nodup) :
    ∀ c ∈ allMods cfg (core cfg fuel).ioDict, c.name ∈ (core cfg fuel).modules →
      Sim (cfgOf (core cfg fuel) c.name) c ∧
      (needsPoll c = true → ∃ t ∈ threadsOf (core cfg fuel), c.name ∈ members (core cfg fuel) t) ∧
      c.params.any paramRejected = false := by
  intro c hc hm
  have li := li_core cfg hsp fuel
  have hx := cfgOf_mem ((li.names c.name).mp hm)
  have hnd' : ((allMods cfg (core cfg fuel).ioDict).map (·.name)).Nodup := hnd
  have hsim : Sim (cfgOf (core cfg fuel) c.name) c ∧ c.params.any paramRejected = false := by
    rcases li.mcfgW _ hx.1 with ⟨k, hk, hsim, hrej⟩ | ⟨p, hp, hauto⟩
    · have hk' : k ∈ allMods cfg (core cfg fuel).ioDict := by rw [allMods_eq]; exact List.mem_append_left _ hk
      have : k = c := nodup_map_inj (·.name) _ hnd' k hk' c hc (by rw [← hsim.1]; exact hx.2)
      subst this; exact ⟨hsim, hrej⟩
    · have hk' : autoIo p.2 ∈ allMods cfg (core cfg fuel).ioDict := by
        rw [allMods_eq]; exact List.mem_append_right _ (List.mem_map.mpr ⟨p, hp, rfl⟩)
      have : autoIo p.2 = c := nodup_map_inj (·.name) _ hnd' _ hk' c hc (by rw [← hauto]; exact hx.2)
      rw [hauto, this]
      refine ⟨⟨rfl, rfl, rfl, rfl, rfl⟩, ?_⟩
      rw [← this]; rfl
  obtain ⟨hsim, hrej⟩ := hsim
  refine ⟨hsim, ?_, hrej⟩
  intro hnp
  have hin := core_all_inited cfg fuel herr hoof c.name hm
  have hnf : c.name ∉ (core cfg fuel).failed := fun h => (top_core cfg fuel).1.failedErr _ h herr
  have hnp' : needsPoll (cfgOf (core cfg fuel) c.name) = true := by
    unfold needsPoll writeDict at hnp ⊢
    rw [hsim.2.2.1, hsim.2.2.2.1]; exact hnp
  obtain ⟨t, ht, hg⟩ := li.reg c.name hin hnf hnp'
  have hmem : c.name ∈ members (core cfg fuel) t := by
    unfold members
    exact List.mem_map.mpr ⟨(t, c.name), List.mem_filter.mpr ⟨hg, by simp⟩, rfl⟩
  refine ⟨t, ?_, hmem⟩
  unfold threadsOf
  rw [List.mem_filter]
  refine ⟨ht, ?_⟩
  cases hmm : members (core cfg fuel) t with
  | nil => rw [hmm] at hmem; cases hmem
  | cons a l => rfl

/-- a module with a start value to write is kept in a poll thread (`if self.enablePoll or self.writeDict`) -/
theorem needsPoll_of_writes (c : ModCfg) (p : String) (h : p ∈ c.writes) : needsPoll c = true := by
  unfold ModCfg.writes at h
  obtain ⟨q, hq, _⟩ := List.mem_map.mp h
  obtain ⟨hqp, hqs⟩ := List.mem_filter.mp hq
  have hs : (handleWrites q).isSome = true := by
    simp only [Bool.and_eq_true] at hqs; exact hqs.2
  unfold needsPoll writeDict
  cases hh : handleWrites q with
  | none => rw [hh] at hs; cases hs
  | some e =>
    have hmem : e ∈ c.params.filterMap handleWrites := List.mem_filterMap.mpr ⟨q, hqp, hh⟩
    cases hl : c.params.filterMap handleWrites with
    | nil => rw [hl] at hmem; cases hmem
    | cons a l => simp

theorem writes_of_params {x c : ModCfg} (h : x.params = c.params) : x.writes = c.writes := by
  unfold ModCfg.writes; rw [h]

/-- parameter names are keys: every parameter to be written is listed once -/
theorem writes_nodup (c : ModCfg) (h : (c.params.map (·.name)).Nodup) : c.writes.Nodup := by
  unfold ModCfg.writes
  exact List.Nodup.sublist (List.Sublist.map _ List.filter_sublist) h

/-! ### every declared module stays known by its name -/

theorem upsert_names {l : List ModCfg} {c x : ModCfg} (hx : x ∈ l) : ∃ y ∈ upsertCfg l c, y.name = x.name := by
  unfold upsertCfg
  split
  · by_cases hn : (x.name == c.name) = true
    · exact ⟨c, List.mem_map.mpr ⟨x, hx, by simp [hn]⟩, (beq_iff_eq.mp hn).symm⟩
    · exact ⟨x, List.mem_map.mpr ⟨x, hx, by simp [hn]⟩, rfl⟩
  · exact ⟨x, List.mem_append_left _ hx, rfl⟩

def KN (mods : List ModCfg) (st : St) : Prop := ∀ c ∈ mods, ∃ k ∈ st.known, k.name = c.name

theorem known_createOne (fuel : Nat) (dyn : List ModCfg) (c : ModCfg) (st : St) :
    (createOne fuel dyn c st).1.known = st.known ∨ (createOne fuel dyn c st).1.known = upsertCfg st.known c := by
  unfold createOne
  split
  · exact Or.inl rfl
  · right
    simp only
    have e1 := ext_getModuleInstance { st with known := upsertCfg st.known c } c.name
    cases hI : getModuleInstance { st with known := upsertCfg st.known c } c.name with
    | mk sI r =>
      rw [hI] at e1
      cases r with
      | none => exact e1.known
      | raised cls => exact e1.known
      | ok m =>
        simp only
        split
        · have e2 := ext_getModule fuel sI m
          cases hG : getModule fuel sI m with
          | mk s2 r2 =>
            rw [hG] at e2
            exact e2.known.trans e1.known
        · exact e1.known

theorem kn_createLoop (mods dyn : List ModCfg) (gfuel : Nat) : ∀ (n : Nat) (todos : List ModCfg) (st : St),
    KN mods st → KN mods (createLoop dyn gfuel n todos st) := by
  intro n
  induction n with
  | zero =>
    intro todos st h
    cases todos with
    | nil => exact h
    | cons c rest => exact h
  | succ n ih =>
    intro todos st h
    cases todos with
    | nil => exact h
    | cons c rest =>
      simp only [createLoop]
      have hk := known_createOne gfuel dyn c st
      cases hC : createOne gfuel dyn c st with
      | mk s1 more =>
        rw [hC] at hk
        apply ih
        intro x hx
        obtain ⟨k, hk', hn⟩ := h x hx
        rcases hk with hk | hk
        · exact ⟨k, by rw [hk]; exact hk', hn⟩
        · obtain ⟨y, hy, hyn⟩ := upsert_names (c := c) hk'
          exact ⟨y, by rw [hk]; exact hy, hyn.trans hn⟩

/-- a declared module of a node that came up exists in it -/
theorem declared_created (cfg : Cfg) (fuel : Nat) (herr : (core cfg fuel).errors = [])
    (hoof : (core cfg fuel).oof = false) (c : ModCfg) (hc : c ∈ cfg.mods) : c.name ∈ (core cfg fuel).modules := by
  have kn : KN cfg.mods (created cfg fuel) :=
    kn_createLoop cfg.mods cfg.dyn fuel fuel cfg.mods _ (fun x hx => ⟨x, hx, rfl⟩)
  obtain ⟨k, hk, hn⟩ := kn c hc
  have e := ext_created_core cfg fuel
  rcases kc_created cfg fuel hoof k hk with hm | hne
  · rw [← hn]; exact e.mods _ hm
  · exact absurd (e.errs herr) hne

theorem paramWrong_eq (q : PCfg) : paramWrong q = paramRejected q := by
  unfold paramWrong paramRejected PCfg.value
  cases q.cfgValue <;> cases q.clsValue <;> cases q.needscfg <;> cases q.cfgBad <;> rfl

end Frappy.Proofs.LifecycleParams
