import FrappyProofs.Lemmas.LifecycleGroups
import FrappyProofs.Lemmas.LifecycleOnce
/-
Helper lemmas for C15: parameters of a module description, `_handle_writes`, and the link between the descriptions of a
configuration and the module objects of the node.
-/
namespace Frappy.Proofs.LifecycleParams
open Frappy.Lifecycle Frappy.Spec.C15 Frappy.Proofs.Lifecycle Frappy.Proofs.LifecycleInit Frappy.Proofs.LifecycleWait
  Frappy.Proofs.LifecycleOnce

/-- keys of a dictionary: two entries with the same key are the same entry -/
theorem nodup_map_inj {α β : Type} (f : α → β) : ∀ (l : List α), (l.map f).Nodup → ∀ a ∈ l, ∀ b ∈ l, f a = f b → a = b
  | [], _, a, ha, _, _, _ => by cases ha
  | x :: l, h, a, ha, b, hb, hab => by
    simp only [List.map_cons, List.nodup_cons, List.mem_map, not_exists, not_and] at h
    rcases List.mem_cons.mp ha with rfl | ha'
    · rcases List.mem_cons.mp hb with rfl | hb'
      · rfl
      · exact absurd hab.symm (h.1 b hb')
    · rcases List.mem_cons.mp hb with rfl | hb'
      · exact absurd hab (h.1 a ha')
      · exact nodup_map_inj f l h.2 a ha' b hb' hab

/-! ## what a piece of the initialisation phase can change of the tables of the node

`Ext st st'`: `module_cfg` is left alone, errors / modules / registrations for polling / module objects / the table of
automatic communicators only grow — and (`nc`) **nothing is created any more** once every description known to the
node has been tried: a piece that ends without an error has created no module. -/

/-- every description the node knows has been tried: its module exists, or the attempt was recorded as an error -/
def KC (st : St) : Prop := ∀ k ∈ st.known, k.name ∈ st.modules ∨ st.errors ≠ []

structure Ext (st st' : St) : Prop where
  known : st'.known = st.known
  errs : st'.errors = [] → st.errors = []
  mods : ∀ x ∈ st.modules, x ∈ st'.modules
  groups : ∃ ext, st'.groups = st.groups ++ ext
  mcfg : ∃ ext, st'.mcfg = st.mcfg ++ ext
  ioDict : ∃ ext, st'.ioDict = st.ioDict ++ ext
  nc : KC st → st'.errors = [] → st'.modules = st.modules ∧ st'.mcfg = st.mcfg ∧ st'.ioDict = st.ioDict

theorem Ext.refl (st : St) : Ext st st :=
  ⟨rfl, id, fun _ h => h, ⟨[], by simp⟩, ⟨[], by simp⟩, ⟨[], by simp⟩, fun _ _ => ⟨rfl, rfl, rfl⟩⟩

theorem Ext.kc {a b : St} (h : Ext a b) (hk : KC a) (he : b.errors = []) : KC b := by
  intro k hk'
  rw [h.known] at hk'
  rcases hk k hk' with hm | hne
  · exact Or.inl (h.mods _ hm)
  · exact absurd (h.errs he) hne

theorem Ext.trans {a b c : St} (h1 : Ext a b) (h2 : Ext b c) : Ext a c := by
  refine ⟨h2.known.trans h1.known, fun h => h1.errs (h2.errs h), fun x hx => h2.mods x (h1.mods x hx), ?_, ?_, ?_, ?_⟩
  · obtain ⟨e1, h1'⟩ := h1.groups; obtain ⟨e2, h2'⟩ := h2.groups
    exact ⟨e1 ++ e2, by rw [h2', h1', List.append_assoc]⟩
  · obtain ⟨e1, h1'⟩ := h1.mcfg; obtain ⟨e2, h2'⟩ := h2.mcfg
    exact ⟨e1 ++ e2, by rw [h2', h1', List.append_assoc]⟩
  · obtain ⟨e1, h1'⟩ := h1.ioDict; obtain ⟨e2, h2'⟩ := h2.ioDict
    exact ⟨e1 ++ e2, by rw [h2', h1', List.append_assoc]⟩
  · intro hk he
    have hb : b.errors = [] := h2.errs he
    obtain ⟨m1, c1, i1⟩ := h1.nc hk hb
    obtain ⟨m2, c2, i2⟩ := h2.nc (h1.kc hk hb) he
    exact ⟨m2.trans m1, c2.trans c1, i2.trans i1⟩

/-- a change of the log, the stack, the attachments, the bookkeeping of initialisation only -/
theorem Ext.of_same {st st' : St} (h1 : st'.known = st.known) (h2 : st'.errors = st.errors)
    (h3 : st'.modules = st.modules) (h4 : st'.groups = st.groups) (h5 : st'.mcfg = st.mcfg)
    (h6 : st'.ioDict = st.ioDict) : Ext st st' :=
  ⟨h1, by rw [h2]; exact id, by rw [h3]; exact fun _ h => h, ⟨[], by simp [h4]⟩, ⟨[], by simp [h5]⟩,
   ⟨[], by simp [h6]⟩, fun _ _ => ⟨h3, h5, h6⟩⟩

theorem findCfg_some {l : List ModCfg} {n : Name} {c : ModCfg} (h : findCfg l n = some c) : c ∈ l ∧ c.name = n := by
  unfold findCfg at h
  exact ⟨List.mem_of_find?_eq_some h, by simpa using List.find?_some h⟩

theorem ext_addEdge (st : St) (u d : Name) : Ext st (addEdge st u d) := by
  unfold addEdge
  split
  · exact Ext.refl st
  · exact Ext.of_same rfl rfl rfl rfl rfl rfl

theorem ext_emit (st : St) (e : Ev) : Ext st (emit st e) := Ext.of_same rfl rfl rfl rfl rfl rfl

theorem ext_getModuleInstance (st : St) (name : Name) : Ext st (getModuleInstance st name).1 := by
  unfold getModuleInstance
  split
  · exact Ext.refl st
  · rename_i hnc
    split
    · exact Ext.refl st
    · rename_i c hc
      obtain ⟨hck, hcn⟩ := findCfg_some hc
      split
      · refine ⟨rfl, by intro h; simp [addErr] at h, fun _ h => h, ⟨[], by simp [addErr]⟩, ⟨[], by simp [addErr]⟩,
          ⟨[], by simp [addErr]⟩, ?_⟩
        intro _ h; simp [addErr] at h
      · -- the module object is created (and, for a HasIO user with a new `uri`, its communicator)
        have hio : ∀ (s : St) (c : ModCfg), (hasIoCreate s c).1.known = s.known ∧ (hasIoCreate s c).1.errors = s.errors ∧
            (hasIoCreate s c).1.groups = s.groups ∧ (∀ x ∈ s.modules, x ∈ (hasIoCreate s c).1.modules) ∧
            (∃ ext, (hasIoCreate s c).1.mcfg = s.mcfg ++ ext) ∧ (∃ ext, (hasIoCreate s c).1.ioDict = s.ioDict ++ ext) := by
          intro s c
          unfold hasIoCreate
          split
          · split
            · exact ⟨rfl, rfl, rfl, fun _ h => h, ⟨[], by simp⟩, ⟨[], by simp⟩⟩
            · refine ⟨rfl, rfl, rfl, ?_, ⟨[autoIo (c.name ++ "_io")], rfl⟩, ⟨[_], rfl⟩⟩
              intro x hx
              simp only [addModule]
              split
              · exact hx
              · exact List.mem_append_left _ hx
          · exact ⟨rfl, rfl, rfl, fun _ h => h, ⟨[], by simp⟩, ⟨[], by simp⟩⟩
        obtain ⟨k1, e1, g1, m1, ⟨x1, c1⟩, ⟨y1, i1⟩⟩ := hio st c
        refine ⟨k1, by simp only [addModule]; rw [e1]; exact id, ?_, ⟨[], by simp [addModule, g1]⟩,
          ⟨x1 ++ [(hasIoCreate st c).2], by simp [addModule, c1]⟩, ⟨y1, by simp [addModule, i1]⟩, ?_⟩
        · intro x hx
          simp only [addModule]
          split
          · exact m1 x hx
          · exact List.mem_append_left _ (m1 x hx)
        · intro hk he
          have he' : st.errors = [] := by simpa [addModule, e1] using he
          rcases hk c hck with hm | hne
          · rw [hcn] at hm
            exact absurd (by simpa using hm) hnc
          · exact absurd he' hne

def GSpecE (rec : St → Name → St × Res) : Prop := ∀ st name, Ext st (rec st name).1

def StepE (f : Step) : Prop := ∀ st, Ext st (f st).1

theorem ext_resolve {rec : St → Name → St × Res} (h : GSpecE rec) (u : Name) (att : Att) (st : St) :
    Ext st (resolve rec u att st).1 := by
  unfold resolve
  cases att.target with
  | none => exact Ext.refl st
  | some t =>
    have f1 := h st t
    cases hr : rec st t with
    | mk st1 res =>
      rw [hr] at f1
      simp only [hr]
      cases res with
      | raised cls => exact f1
      | none => exact f1
      | ok d =>
        simp only
        split
        · split
          · exact f1
          · exact f1.trans (ext_addEdge st1 u d)
        · exact f1

theorem ext_touch {rec : St → Name → St × Res} (h : GSpecE rec) (c : ModCfg) (a : String) : StepE (touch rec c a) := by
  intro st
  unfold touch
  cases findAtt c a with
  | none => exact Ext.refl st
  | some att =>
    have f1 := ext_resolve h c.name att st
    cases hr : resolve rec c.name att st with
    | mk st1 res =>
      rw [hr] at f1
      simp only [hr]
      cases res with
      | mod d => exact f1.trans (ext_emit st1 _)
      | nothing => exact f1
      | raised cls => exact f1

theorem ext_resolveStep {rec : St → Name → St × Res} (h : GSpecE rec) (c : ModCfg) (att : Att) :
    StepE (resolveStep rec c att) := by
  intro st
  unfold resolveStep
  have f1 := ext_resolve h c.name att st
  cases hr : resolve rec c.name att st with
  | mk st1 res =>
    rw [hr] at f1
    cases res <;> exact f1

theorem ext_failIf (b : Bool) (cls : String) : StepE (failIf b cls) := fun st => Ext.refl st

theorem ext_emitStep (e : Ev) : StepE (emitStep e) := fun st => ext_emit st e

theorem ext_hasIoCheck {rec : St → Name → St × Res} (h : GSpecE rec) (c : ModCfg) : StepE (hasIoCheck rec c) := by
  intro st
  unfold hasIoCheck
  split
  · cases findAtt c "io" with
    | none => exact Ext.refl st
    | some att =>
      have f1 := ext_resolve h c.name att st
      cases hr : resolve rec c.name att st with
      | mk st1 res =>
        rw [hr] at f1
        simp only [hr]
        cases res <;> exact f1
  · exact Ext.refl st

theorem ext_groups (st : St) (g : List (Name × Name)) : Ext st { st with groups := st.groups ++ g } :=
  ⟨rfl, id, fun _ h => h, ⟨g, rfl⟩, ⟨[], by simp⟩, ⟨[], by simp⟩, fun _ _ => ⟨rfl, rfl, rfl⟩⟩

theorem ext_registerPoll {rec : St → Name → St × Res} (h : GSpecE rec) (c : ModCfg) : StepE (registerPoll rec c) := by
  intro st
  unfold registerPoll
  split
  · split
    · cases findAtt c "io" with
      | none => exact Ext.refl st
      | some att =>
        have f1 := ext_resolve h c.name att st
        cases hr : resolve rec c.name att st with
        | mk st1 res =>
          rw [hr] at f1
          simp only [hr]
          cases res with
          | mod d => exact f1.trans (ext_groups st1 _)
          | nothing => exact f1
          | raised cls => exact f1
    · exact ext_groups st _
  · exact Ext.refl st

theorem ext_seq : ∀ (fs : List Step), (∀ f ∈ fs, StepE f) → StepE (seq fs) := by
  intro fs
  induction fs with
  | nil => intro _ st; exact Ext.refl st
  | cons f fs ih =>
    intro hall st
    have f1 := hall f (by simp) st
    simp only [seq]
    cases hf : f st with
    | mk st1 e =>
      rw [hf] at f1
      cases e with
      | some e => exact f1
      | none => exact f1.trans (ih (fun g hg => hall g (by simp [hg])) st1)

theorem ext_initBody {rec : St → Name → St × Res} (h : GSpecE rec) (c : ModCfg) : StepE (initBody rec c) := by
  unfold initBody
  apply ext_seq
  intro f hf
  simp only [List.mem_append, List.mem_map, List.mem_singleton, List.mem_cons, List.not_mem_nil, or_false] at hf
  rcases hf with ((((rfl | ⟨a, _, rfl⟩) | (rfl | rfl | rfl | rfl)) | ⟨a, _, rfl⟩) | rfl) | ⟨a, _, rfl⟩
  · exact ext_emitStep _
  · exact ext_touch h c a
  · exact ext_failIf _ _
  · exact ext_emitStep _
  · exact ext_hasIoCheck h c
  · exact ext_registerPoll h c
  · exact ext_touch h c a
  · exact ext_failIf _ _
  · exact ext_resolveStep h c a

theorem ext_finishInit (st : St) (m : Name) (exc : Option String) : Ext st (finishInit st m exc) := by
  cases exc with
  | none => exact Ext.of_same rfl rfl rfl rfl rfl rfl
  | some e =>
    refine ⟨rfl, by intro h; simp [finishInit, noteFailure] at h, fun _ h => h, ⟨[], by simp [finishInit, noteFailure]⟩,
      ⟨[], by simp [finishInit, noteFailure]⟩, ⟨[], by simp [finishInit, noteFailure]⟩, ?_⟩
    intro _ h; simp [finishInit, noteFailure] at h

theorem ext_getModule : ∀ fuel, GSpecE (getModule fuel) := by
  intro fuel
  induction fuel with
  | zero => intro st name; exact Ext.of_same rfl rfl rfl rfl rfl rfl
  | succ fuel ih =>
    intro st name
    have q := ext_getModuleInstance st name
    simp only [getModule]
    cases hI : getModuleInstance st name with
    | mk sI r =>
      rw [hI] at q
      cases r with
      | none => exact q
      | raised cls => exact q
      | ok m =>
        simp only
        split
        · exact q
        · split
          · exact q
          · have e1 : Ext sI { sI with stack := m :: sI.stack } := Ext.of_same rfl rfl rfl rfl rfl rfl
            have e2 := ext_initBody ih { cfgOf sI m with name := m } { sI with stack := m :: sI.stack }
            cases hB : initBody (getModule fuel) { cfgOf sI m with name := m } { sI with stack := m :: sI.stack } with
            | mk st2 exc =>
              rw [hB] at e2
              exact (q.trans (e1.trans e2)).trans (ext_finishInit st2 m exc)

theorem ext_initAll (fuel : Nat) : ∀ (ms : List Name) (st : St), Ext st (initAll fuel ms st) := by
  intro ms
  induction ms with
  | nil => intro st; exact Ext.refl st
  | cons a ms ih => intro st; exact (ext_getModule fuel st a).trans (ih _)

/-! ## `create_modules`: when the creation loop is through, every known description has been tried -/

/-- loop invariant of the `while todos` loop -/
def KL (todos : List ModCfg) (st : St) : Prop :=
  ∀ k ∈ st.known, k.name ∈ st.modules ∨ st.errors ≠ [] ∨ k.name ∈ todos.map (·.name)

theorem mem_upsert {l : List ModCfg} {c k : ModCfg} (h : k ∈ upsertCfg l c) : k = c ∨ k ∈ l := by
  unfold upsertCfg at h
  split at h
  · obtain ⟨x, hx, rfl⟩ := List.mem_map.mp h
    split
    · exact Or.inl rfl
    · exact Or.inr hx
  · rcases List.mem_append.mp h with h | h
    · exact Or.inr h
    · exact Or.inl (by simpa using h)

theorem self_mem_upsert (l : List ModCfg) (c : ModCfg) : ∃ k ∈ upsertCfg l c, k.name = c.name := by
  unfold upsertCfg
  split
  · rename_i h
    obtain ⟨x, hx, hn⟩ := List.any_eq_true.mp h
    refine ⟨c, List.mem_map.mpr ⟨x, hx, by simp [hn]⟩, rfl⟩
  · exact ⟨c, by simp, rfl⟩

theorem findCfg_ne_none {l : List ModCfg} {n : Name} (h : ∃ k ∈ l, k.name = n) : findCfg l n ≠ none := by
  obtain ⟨k, hk, hn⟩ := h
  unfold findCfg
  intro hnone
  have := List.find?_eq_none.mp hnone k hk
  simp [hn] at this

/-- `get_module_instance` returns the module asked for, which then is a module of the node; `None` means an error was
recorded; an exception means the name is not known -/
theorem getModuleInstance_res (st : St) (name : Name) :
    (∀ m, (getModuleInstance st name).2 = Res.ok m → m = name ∧ name ∈ (getModuleInstance st name).1.modules) ∧
    ((getModuleInstance st name).2 = Res.none → (getModuleInstance st name).1.errors ≠ []) ∧
    (∀ cls, (getModuleInstance st name).2 = Res.raised cls → findCfg st.known name = none) := by
  unfold getModuleInstance
  split
  · rename_i hc
    refine ⟨fun m h => ?_, fun h => ?_, fun _ h => ?_⟩
    · cases h; exact ⟨rfl, by simpa using hc⟩
    · cases h
    · cases h
  · split
    · rename_i hf
      refine ⟨fun m h => ?_, fun h => ?_, fun _ _ => hf⟩
      · cases h
      · cases h
    · rename_i c hc
      have hcn := (findCfg_some hc).2
      split
      · refine ⟨fun m h => ?_, fun _ => by simp [addErr], fun _ h => ?_⟩
        · cases h
        · cases h
      · have hn : (hasIoCreate st c).2.name = c.name := by
          unfold hasIoCreate
          split
          · split <;> simp [setIo]
          · rfl
        refine ⟨fun m h => ?_, fun h => ?_, fun _ h => ?_⟩
        · cases h
          refine ⟨rfl, ?_⟩
          simp only [addModule]
          split
          · rename_i hc'; rw [hn, hcn] at hc'; simpa using hc'
          · rw [hn, hcn]; simp
        · cases h
        · cases h

theorem kl_createOne (fuel : Nat) (dyn : List ModCfg) (c : ModCfg) (rest : List ModCfg) (st : St)
    (h : KL (c :: rest) st) : KL (rest ++ (createOne fuel dyn c st).2) (createOne fuel dyn c st).1 := by
  unfold createOne
  split
  · rename_i hc
    intro k hk
    rcases h k hk with hm | he | hn
    · exact Or.inl hm
    · exact Or.inr (Or.inl he)
    · simp only [List.map_cons, List.mem_cons] at hn
      rcases hn with hn | hn
      · left; rw [hn]; simpa using hc
      · right; right; simp [hn]
  · simp only
    have hres := getModuleInstance_res { st with known := upsertCfg st.known c } c.name
    have hext := ext_getModuleInstance { st with known := upsertCfg st.known c } c.name
    -- after `get_module_instance`: `c` has been tried
    have hc : c.name ∈ (getModuleInstance { st with known := upsertCfg st.known c } c.name).1.modules ∨
        (getModuleInstance { st with known := upsertCfg st.known c } c.name).1.errors ≠ [] := by
      cases hr : (getModuleInstance { st with known := upsertCfg st.known c } c.name).2 with
      | ok m => exact Or.inl (hres.1 m hr).2
      | none => exact Or.inr (hres.2.1 hr)
      | raised cls => exact absurd (hres.2.2 cls hr) (findCfg_ne_none (self_mem_upsert st.known c))
    -- whatever follows (the initialisation of a Pinata) only adds
    have key : ∀ s' : St, Ext (getModuleInstance { st with known := upsertCfg st.known c } c.name).1 s' →
        ∀ more, KL (rest ++ more) s' := by
      intro s' he more k hk
      rw [he.known, hext.known] at hk
      have hmono : ∀ x, x ∈ st.modules → x ∈ s'.modules := fun x hx => he.mods x (hext.mods x hx)
      have herr : st.errors ≠ [] → s'.errors ≠ [] := fun hne hs => hne (hext.errs (he.errs hs))
      rcases mem_upsert hk with rfl | hk
      · rcases hc with hm | hne
        · exact Or.inl (he.mods _ hm)
        · exact Or.inr (Or.inl (fun hs => hne (he.errs hs)))
      · rcases h k hk with hm | hne | hn
        · exact Or.inl (hmono _ hm)
        · exact Or.inr (Or.inl (herr hne))
        · simp only [List.map_cons, List.mem_cons] at hn
          rcases hn with hn | hn
          · rcases hc with hm | hne
            · left; rw [hn]; exact he.mods _ hm
            · exact Or.inr (Or.inl (fun hs => hne (he.errs hs)))
          · right; right; simp [hn]
    cases hI : getModuleInstance { st with known := upsertCfg st.known c } c.name with
    | mk sI r =>
      rw [hI] at key
      cases r with
      | none => exact key sI (Ext.refl _) []
      | raised cls => exact key sI (Ext.refl _) []
      | ok m =>
        simp only
        split
        · exact key _ (ext_getModule fuel sI m) _
        · exact key sI (Ext.refl _) []

theorem kc_createLoop (dyn : List ModCfg) (gfuel : Nat) : ∀ (n : Nat) (todos : List ModCfg) (st : St), KL todos st →
    (createLoop dyn gfuel n todos st).oof = false → KC (createLoop dyn gfuel n todos st) := by
  intro n
  induction n with
  | zero =>
    intro todos st h hoof
    cases todos with
    | nil =>
      intro k hk
      rcases h k hk with hm | he | hn
      · exact Or.inl hm
      · exact Or.inr he
      · simp at hn
    | cons c rest => simp [createLoop] at hoof
  | succ n ih =>
    intro todos st h hoof
    cases todos with
    | nil =>
      intro k hk
      rcases h k hk with hm | he | hn
      · exact Or.inl hm
      · exact Or.inr he
      · simp at hn
    | cons c rest =>
      simp only [createLoop] at hoof ⊢
      have h1 := kl_createOne gfuel dyn c rest st h
      cases hC : createOne gfuel dyn c st with
      | mk s1 more =>
        rw [hC] at h1 hoof
        exact ih (rest ++ more) s1 h1 hoof

/-- the state after the creation loop -/
def created (cfg : Cfg) (fuel : Nat) : St := createLoop cfg.dyn fuel fuel cfg.mods { known := cfg.mods }

theorem core_eq (cfg : Cfg) (fuel : Nat) :
    core cfg fuel = initAll fuel (initAll fuel (created cfg fuel).modules (created cfg fuel)).exportL
      (initAll fuel (created cfg fuel).modules (created cfg fuel)) := rfl

theorem ext_created_core (cfg : Cfg) (fuel : Nat) : Ext (created cfg fuel) (core cfg fuel) := by
  rw [core_eq]
  exact (ext_initAll fuel _ _).trans (ext_initAll fuel _ _)

theorem created_oof (cfg : Cfg) (fuel : Nat) (h : (core cfg fuel).oof = false) : (created cfg fuel).oof = false := by
  obtain ⟨t1, _⟩ := top_createLoop cfg.dyn fuel fuel cfg.mods _ (inv_init cfg.mods)
  obtain ⟨t2, m2, _⟩ := top_initAll fuel (created cfg fuel).modules _ t1
  obtain ⟨_, m3, _⟩ := top_initAll fuel (initAll fuel (created cfg fuel).modules (created cfg fuel)).exportL _ t2
  cases ho : (created cfg fuel).oof with
  | false => rfl
  | true =>
    have : (core cfg fuel).oof = true := m3.oof (m2.oof ho)
    rw [h] at this
    cases this

theorem kc_created (cfg : Cfg) (fuel : Nat) (h : (core cfg fuel).oof = false) : KC (created cfg fuel) := by
  apply kc_createLoop
  · intro k hk
    right; right
    exact List.mem_map.mpr ⟨k, hk, rfl⟩
  · exact created_oof cfg fuel h

/-- **nothing is created after the creation loop** in a node that comes up: the modules, the module objects and the
table of automatic communicators of the node are those the creation loop left -/
theorem core_nothing_created_late (cfg : Cfg) (fuel : Nat) (herr : (core cfg fuel).errors = [])
    (hoof : (core cfg fuel).oof = false) :
    (core cfg fuel).modules = (created cfg fuel).modules ∧ (core cfg fuel).mcfg = (created cfg fuel).mcfg ∧
    (core cfg fuel).ioDict = (created cfg fuel).ioDict :=
  (ext_created_core cfg fuel).nc (kc_created cfg fuel hoof) herr

/-- every module of a node that comes up has been initialised -/
theorem core_all_inited (cfg : Cfg) (fuel : Nat) (herr : (core cfg fuel).errors = [])
    (hoof : (core cfg fuel).oof = false) : ∀ m ∈ (core cfg fuel).modules, m ∈ (core cfg fuel).inited := by
  intro m hm
  rw [(core_nothing_created_late cfg fuel herr hoof).1] at hm
  exact core_created_inited cfg fuel hoof m hm

/-! ## a node that came up: every module early-initialised, initialised, started — once, in that order -/

theorem pairwise_of_right {R : Ev → Ev → Prop} : ∀ (l : List Ev), (∀ a, ∀ b ∈ l, R a b) → l.Pairwise R
  | [], _ => List.Pairwise.nil
  | a :: l, h => List.Pairwise.cons (fun b hb => h a b (by simp [hb]))
      (pairwise_of_right l (fun x y hy => h x y (by simp [hy])))

theorem count_start_startEvents_mem (st : St) (hnd : st.modules.Nodup) (m : Name) (hm : m ∈ st.modules) :
    (startEvents st).count (Ev.start m) = 1 := by
  have hle := count_start_startEvents st hnd m
  have hpos : 0 < (startEvents st).count (Ev.start m) := by
    apply List.count_pos_iff.mpr
    unfold startEvents
    refine List.mem_flatMap.mpr ⟨m, hm, ?_⟩
    unfold startOne
    split <;> simp
  omega

theorem startup_core (cfg : Cfg) (fuel : Nat) (herr : (startup cfg fuel).errors = []) :
    startup cfg fuel = core cfg fuel ∧ (core cfg fuel).errors = [] := by
  have hcore : (core cfg fuel).errors = [] := by
    rw [startup_eq] at herr
    split at herr
    · exact herr
    · simpa [emit] using herr
  exact ⟨by rw [startup_eq]; simp [hcore], hcore⟩

theorem run_init_order_once (cfg : Cfg) (fuel : Nat) (sched : List Act) (pick : List Name → Nat)
    (herr : (run cfg fuel sched pick).st.errors = []) (hoof : (run cfg fuel sched pick).st.oof = false) :
    InitOrderOnce (run cfg fuel sched pick).st.modules (run cfg fuel sched pick).log := by
  rw [(run_log cfg fuel sched pick).1] at herr hoof ⊢
  rw [(run_log cfg fuel sched pick).2]
  obtain ⟨hst, hcore⟩ := startup_core cfg fuel herr
  simp only [herr, List.isEmpty_nil, if_true]
  rw [hst] at hoof ⊢
  intro m hm
  have hin := core_all_inited cfg fuel hcore hoof m hm
  have ht := top_core cfg fuel
  have hnoI : ∀ e ∈ laterPart (core cfg fuel) sched pick, isInitEv e = false :=
    fun e he => (later_no_init _ sched pick e he).2
  have h1 : OnceInOrder (Ev.early m) (Ev.init m) ((core cfg fuel).log ++ laterPart (core cfg fuel) sched pick) := by
    apply onceInOrder_append _ _ _ _ (core_once cfg fuel hcore m hin)
    · intro h; have := hnoI _ h; simp [isInitEv] at this
    · intro h; have := hnoI _ h; simp [isInitEv] at this
  refine ⟨h1, h1.2.1, ?_, ?_⟩
  · rw [List.count_append, top_no_start _ ht m]
    have hw : (laterPart (core cfg fuel) sched pick).count (Ev.start m) = (startEvents (core cfg fuel)).count (Ev.start m) := by
      have hs : (shutdownLog (core cfg fuel).modules (threadsOf (core cfg fuel)) (core cfg fuel).edges pick).count
          (Ev.start m) = 0 := by
        apply List.count_eq_zero.mpr
        intro hm'
        simp only [shutdownLog, List.mem_append, List.mem_map] at hm'
        rcases hm' with (⟨x, _, hx⟩ | ⟨x, _, hx⟩) | ⟨x, _, hx⟩ <;> cases hx
      have hw' : (waitPhase (core cfg fuel) sched).count (Ev.start m) = (startEvents (core cfg fuel)).count (Ev.start m) := by
        rw [← start_loop_complete (core cfg fuel) sched, List.count_filter]
        rfl
      simp [laterPart, List.count_append, hw', hs]
    rw [hw, count_start_startEvents_mem _ ht.1.modsNd m hm]
  · unfold NeverAfter
    rw [List.pairwise_append]
    refine ⟨pairwise_of_left _ (fun x hx y hh => ?_), pairwise_of_right _ (fun x y hy hh => ?_), fun x hx y _ hh => ?_⟩
    · have : x = Ev.start m := beq_iff_eq.mp hh.1
      subst this
      have := ht.1.shape _ hx
      simp [isInitEv] at this
    · have : y = Ev.init m := beq_iff_eq.mp hh.2
      subst this
      have := hnoI _ hy
      simp [isInitEv] at this
    · have : x = Ev.start m := beq_iff_eq.mp hh.1
      subst this
      have := ht.1.shape _ hx
      simp [isInitEv] at this

end Frappy.Proofs.LifecycleParams
