import FrappyModel.Spec.C12
/- helper lemmas for C12 -/
namespace Frappy.Lemmas.Cache
open Frappy.Client.Cache Frappy.Spec.C12

/-! ## dict -/
section dict
variable {κ ν : Type} [BEq κ] [LawfulBEq κ]

@[simp] theorem dictGet_dictSet_self (d : List (κ × ν)) (k : κ) (v : ν) : dictGet (dictSet d k v) k = some v := by
  induction d with
  | nil => simp [dictSet, dictGet]
  | cons e rest ih =>
    unfold dictSet
    by_cases h : e.1 == k
    · simp [h, dictGet]
    · simp [h, dictGet, ih]

theorem dictGet_dictSet_ne (d : List (κ × ν)) (k k' : κ) (v : ν) (hne : k' ≠ k) :
    dictGet (dictSet d k v) k' = dictGet d k' := by
  induction d with
  | nil =>
    have : (k == k') = false := by simpa using fun h => hne h.symm
    simp [dictSet, dictGet, this]
  | cons e rest ih =>
    unfold dictSet
    by_cases h : e.1 == k
    · have hk : e.1 = k := by simpa using h
      have : (k == k') = false := by simpa using fun h => hne h.symm
      simp [h, dictGet, this, hk]
    · simp only [h]
      by_cases h2 : e.1 == k'
      · simp [dictGet, h2]
      · simp [dictGet, h2, ih]

end dict

/-! ## time stamps -/

theorem clip_stamp {now : Int} {tq : TQ} {ts : Int} (h : clip now tq = some ts) : Stamp now tq ts := by
  cases tq with
  | absent => simp [clip] at h; simp [Stamp, h]
  | nan => simp [clip] at h; simp [Stamp, h]
  | bad => simp [clip] at h
  | num t =>
    simp only [clip, Option.some.injEq] at h
    unfold Stamp
    by_cases hlt : t < now
    · simp only [hlt, if_true] at h; subst h; left; omega
    · simp only [hlt, if_false] at h; subst h
      by_cases he : t = now
      · left; omega
      · right; omega

theorem stamp_le {now : Int} {tq : TQ} {ts : Int} (h : Stamp now tq ts) : ts ≤ now := by
  cases tq <;> simp [Stamp] at h <;> omega

theorem stamp_clip {now : Int} {tq : TQ} {ts : Int} (h : Stamp now tq ts) : clip now tq = some ts := by
  cases tq with
  | absent => simp [Stamp] at h; simp [clip, h]
  | nan => simp [Stamp] at h; simp [clip, h]
  | bad => simp [Stamp] at h
  | num t =>
    simp only [Stamp] at h
    simp only [clip, Option.some.injEq]
    rcases h with ⟨h1, h2⟩ | ⟨h1, h2⟩
    · subst h2; by_cases hlt : ts < now
      · simp [hlt]
      · simp [hlt]; omega
    · subst h2; have : ¬ t < ts := by omega
      simp [this]

/-! ## error reports -/

theorem dictGet_mem {κ ν : Type} [BEq κ] [LawfulBEq κ] {d : List (κ × ν)} {k : κ} {v : ν} (h : dictGet d k = some v) :
    (k, v) ∈ d := by
  induction d with
  | nil => simp [dictGet] at h
  | cons e rest ih =>
    unfold dictGet at h
    by_cases he : e.1 == k
    · simp only [he, if_true, Option.some.injEq] at h
      have : e.1 = k := by simpa using he
      have : e = (k, v) := by cases e; simp_all
      simp [this]
    · simp only [he] at h
      exact List.mem_cons_of_mem _ (ih h)

theorem dropLast_getLast? {α : Type} (l : List α) (a : α) (h : l.getLast? = some a) : l.dropLast ++ [a] = l := by
  have hne : l ≠ [] := by intro h0; simp [h0] at h
  have := List.dropLast_concat_getLast hne
  rw [List.getLast?_eq_some_getLast hne] at h
  simp only [Option.some.injEq] at h
  rw [← h]; exact this

theorem matchFrappyError_some {text w body : Str} (h : matchFrappyError text = some (w, body)) :
    w = text.takeWhile isWordChar ∧
      (text = w ++ ':' :: ' ' :: body ∨ text = w ++ ':' :: ' ' :: body ++ ['\n']) := by
  unfold matchFrappyError at h
  split at h
  · rename_i rest hd
    have htext : text = text.takeWhile isWordChar ++ text.dropWhile isWordChar := List.takeWhile_append_dropWhile.symm
    rw [hd] at htext
    by_cases hl : rest.getLast? = some '\n'
    · simp only [hl, if_true] at h
      by_cases hc : (rest.dropLast.contains '\n') = true
      · rw [if_pos hc] at h; exact absurd h (by simp)
      · rw [if_neg hc] at h
        simp only [Option.some.injEq, Prod.mk.injEq] at h
        obtain ⟨hw, hb⟩ := h
        refine ⟨hw.symm, Or.inr ?_⟩
        have : rest.dropLast ++ ['\n'] = rest := dropLast_getLast? _ _ hl
        rw [← hw, ← hb, List.append_assoc, List.cons_append, List.cons_append, this]; exact htext
    · simp only [hl, if_false] at h
      by_cases hc : (rest.contains '\n') = true
      · rw [if_pos hc] at h; exact absurd h (by simp)
      · rw [if_neg hc] at h
        simp only [Option.some.injEq, Prod.mk.injEq] at h
        obtain ⟨hw, hb⟩ := h
        refine ⟨hw.symm, Or.inl ?_⟩
        rw [← hw, ← hb]; exact htext
  · simp at h

/-- a class the tables know, which is the class registered for its own error name -/
def ClassOk (t : Tables) (c : Str) : Prop :=
  (dictGet t.clsname2name c).isSome ∧ dictGet t.name2class (nameOfClass t c) = some c

theorem classOfName_ok {t : Tables} (ht : TablesOk t) (cls : Option Str) : ClassOk t (classOfName t cls) := by
  obtain ⟨_, _, _, _, hn, hi1, hi2⟩ := ht
  unfold classOfName
  cases cls with
  | none => exact ⟨hi1, hi2⟩
  | some n =>
    simp only
    cases hg : dictGet t.name2class n with
    | none => exact ⟨hi1, hi2⟩
    | some c => exact hn (n, c) (dictGet_mem hg)

theorem canonName_eq (t : Tables) (cls : Option Str) : canonName t cls = nameOfClass t (classOfName t cls) := by
  unfold canonName classOfName
  cases cls with
  | none => rfl
  | some n => simp only [Option.bind]; cases dictGet t.name2class n <;> rfl

theorem nameOfClass_of_some {t : Tables} {c : Str} (h : (dictGet t.clsname2name c).isSome) :
    dictGet t.clsname2name c = some (nameOfClass t c) := by
  unfold nameOfClass
  cases hg : dictGet t.clsname2name c with
  | none => simp [hg] at h
  | some n => rfl

theorem makeSecopError_rebuilt {t : Tables} (ht : TablesOk t) (cls : Option Str) (text : Str) :
    Rebuilt t cls text (makeSecopError t cls text) := by
  have hok := classOfName_ok ht cls
  have hplain : Rebuilt t cls text ⟨classOfName t cls, nameOfClass t (classOfName t cls), text⟩ := by
    refine ⟨(canonName_eq t cls).symm, nameOfClass_of_some hok.1, ?_⟩
    unfold formatErr
    simp only [hok.2, if_true]
    exact Or.inl rfl
  unfold makeSecopError
  simp only
  split
  · rename_i clsname errtext hm
    split
    · rename_i n hn
      split
      · rename_i hnn
        obtain ⟨hne, hnn⟩ := hnn
        obtain ⟨hw, htext⟩ := matchFrappyError_some hm
        refine ⟨by rw [canonName_eq]; exact hnn, hn, ?_⟩
        unfold formatErr
        simp only
        have hc : ¬ dictGet t.name2class n = some clsname := by
          rw [hnn, hok.2]; intro h; exact hne (Option.some.inj h).symm
        simp only [hc, if_false]
        rcases htext with h | h
        · left; exact h.symm
        · right; rw [h]
      · exact hplain
    · exact hplain
  · exact hplain

/-! ## an error sent by a frappy node comes back as the same object -/

theorem takeWhile_prefix {α : Type} (q : α → Bool) (w : List α) (c : α) (rest : List α)
    (hw : w.all q = true) (hc : q c = false) : (w ++ c :: rest).takeWhile q = w := by
  induction w with
  | nil => simp [List.takeWhile, hc]
  | cons a l ih =>
    simp only [List.all_cons, Bool.and_eq_true] at hw
    simp [List.takeWhile, hw.1, ih hw.2]

theorem dropWhile_prefix {α : Type} (q : α → Bool) (w : List α) (c : α) (rest : List α)
    (hw : w.all q = true) (hc : q c = false) : (w ++ c :: rest).dropWhile q = c :: rest := by
  induction w with
  | nil => simp [List.dropWhile, hc]
  | cons a l ih =>
    simp only [List.all_cons, Bool.and_eq_true] at hw
    simp [List.dropWhile, hw.1, ih hw.2]

theorem getLast?_mem {α : Type} {l : List α} {a : α} (h : l.getLast? = some a) : a ∈ l := by
  have := dropLast_getLast? l a h
  rw [← this]; simp

/-- `FRAPPY_ERROR` takes a text `Cls: body` (class name of word characters, body without newline) apart again -/
theorem matchFrappyError_format (w body : Str) (hw : w.all isWordChar = true) (hb : '\n' ∉ body) :
    matchFrappyError (w ++ ':' :: ' ' :: body) = some (w, body) := by
  unfold matchFrappyError
  have hc : isWordChar ':' = false := by decide
  rw [dropWhile_prefix isWordChar w ':' (' ' :: body) hw hc, takeWhile_prefix isWordChar w ':' (' ' :: body) hw hc]
  simp only
  have hl : ¬ body.getLast? = some '\n' := fun h => hb (getLast?_mem h)
  simp only [hl, if_false]
  have : body.contains '\n' = false := by
    cases hcn : body.contains '\n' with
    | false => rfl
    | true => exact absurd (List.contains_iff_mem.mp hcn) hb
  simp [hb]

/-- what the round trip needs of an error object: its class is a class of the tables carrying its error name, and the
class registered for that name carries it too -/
def ErrOk (t : Tables) (e : ErrObj) : Prop :=
  dictGet t.clsname2name e.pycls = some e.name ∧
  ∃ primary, dictGet t.name2class e.name = some primary ∧ dictGet t.clsname2name primary = some e.name

instance (t : Tables) (e : ErrObj) : Decidable (ErrOk t e) := by
  unfold ErrOk
  cases h : dictGet t.name2class e.name with
  | none => exact isFalse (by rintro ⟨_, p, hp, _⟩; cases hp)
  | some primary =>
    by_cases h1 : dictGet t.clsname2name e.pycls = some e.name
    · by_cases h2 : dictGet t.clsname2name primary = some e.name
      · exact isTrue ⟨h1, primary, rfl, h2⟩
      · exact isFalse (by rintro ⟨_, p, hp, hq⟩; cases hp; exact h2 hq)
    · exact isFalse (fun hh => h1 hh.1)

/-- the text does not itself begin with the name of another class of the same error name (the one ambiguity of the
report format: `InternalError('ConfigError: x')` and `ConfigError('x')` are reported with the same words) -/
def NoRefinementPrefix (t : Tables) (e : ErrObj) : Prop :=
  ∀ w body, matchFrappyError e.arg = some (w, body) → w ≠ e.pycls → dictGet t.clsname2name w ≠ some e.name

theorem makeSecopError_format {t : Tables} (e : ErrObj) (hok : ErrOk t e)
    (hword : e.pycls.all isWordChar = true) (hnl : '\n' ∉ e.arg)
    (hpre : dictGet t.name2class e.name = some e.pycls → NoRefinementPrefix t e) :
    makeSecopError t (some e.name) (formatErr t e) = e := by
  obtain ⟨hcls, primary, hprim, hpn⟩ := hok
  have herrcls : classOfName t (some e.name) = primary := by simp [classOfName, hprim]
  have hname : nameOfClass t primary = e.name := by simp [nameOfClass, hpn]
  by_cases hp : primary = e.pycls
  · -- the class registered for its name: the text travels as it is
    subst hp
    have hfmt : formatErr t e = e.arg := by simp [formatErr, hprim]
    rw [hfmt]
    unfold makeSecopError
    simp only [herrcls, hname]
    split
    · rename_i w body hm
      split
      · rename_i n hn
        split
        · rename_i hcond
          exact absurd (hcond.2 ▸ hn) (hpre hprim w body hm hcond.1)
        · rfl
      · rfl
    · rfl
  · -- a refinement: the class name is written in front and found again
    have hne : ¬ dictGet t.name2class e.name = some e.pycls := by
      rw [hprim]; intro h; exact hp (Option.some.inj h)
    have hfmt : formatErr t e = e.pycls ++ ':' :: ' ' :: e.arg := by simp [formatErr, hne]
    rw [hfmt]
    unfold makeSecopError
    simp only [herrcls, hname, matchFrappyError_format e.pycls e.arg hword hnl, hcls]
    have : e.pycls ≠ primary := fun h => hp h.symm
    simp [this]

/-! ## the receive-loop body against the specification -/

theorem resolve_eq_denoted {t : Tables} (ht : TablesOk t) (mp : Maps) (action : Str) (ident : Option Str) :
    resolve t mp action (if ident = some ['.'] then none else ident) = denoted mp action ident := by
  obtain ⟨_, _, _, hw, _⟩ := ht
  cases ident with
  | none => simp [resolve, denoted]
  | some i =>
    by_cases hd : i = ['.']
    · simp [hd, resolve, denoted]
    · have : ¬ (some i = some ['.']) := by simpa using hd
      simp only [this, if_false, resolve, denoted, hd]
      cases dictGet mp.internal i with
      | some r => rfl
      | none =>
        simp only [List.contains_eq_mem, decide_eq_true_eq, hw, defaultAcc]

variable {J V : Type}

theorem isErr_eq {t : Tables} (ht : TablesOk t) {action : Str} (ha : action ∈ cacheActions) :
    (t.errorPrefix.isPrefixOf action = true) ↔ action ∈ errorActions := by
  obtain ⟨_, _, he, _⟩ := ht
  rw [he action ha]; simp

theorem importData_some {t : Tables} (ht : TablesOk t) {mp : Maps} {imp : Str → Str → J → Option V} {now : Int}
    {action m p : Str} {data : Data J} {item : Item V} (ha : action ∈ cacheActions)
    (h : importData t mp imp now (t.errorPrefix.isPrefixOf action) m p data = some item) :
    mp.isParam m p = true ∧ Imports t imp now action m p data item := by
  unfold importData at h
  by_cases hp : mp.isParam m p = true
  · refine ⟨hp, ?_⟩
    simp only [hp, Bool.not_true, Bool.false_eq_true, if_false] at h
    by_cases he : t.errorPrefix.isPrefixOf action = true
    · have hea := (isErr_eq ht ha).1 he
      rw [he] at h
      cases data with
      | report cls text tq =>
        simp only [Option.map_eq_some_iff] at h
        obtain ⟨ts, hts, hitem⟩ := h
        subst hitem
        exact ⟨hea, makeSecopError_rebuilt ht cls text, clip_stamp hts⟩
      | value j tq => simp at h
      | malformed => simp at h
    · have hea : action ∉ errorActions := fun hx => he ((isErr_eq ht ha).2 hx)
      have he' : t.errorPrefix.isPrefixOf action = false := by
        cases hx : t.errorPrefix.isPrefixOf action with
        | false => rfl
        | true => exact absurd hx he
      rw [he'] at h
      cases data with
      | value j tq =>
        simp only at h
        cases hc : clip now tq with
        | none => simp [hc] at h
        | some ts =>
          cases hi : imp m p j with
          | none => simp [hc, hi] at h
          | some v =>
            simp only [hc, hi, Option.some.injEq] at h
            subst h
            exact ⟨hea, hi, clip_stamp hc⟩
      | report cls text tq => simp at h
      | malformed => simp at h
  · simp [hp] at h

theorem importData_none {t : Tables} (ht : TablesOk t) {mp : Maps} {imp : Str → Str → J → Option V} {now : Int}
    {action m p : Str} {data : Data J} (ha : action ∈ cacheActions)
    (h : importData t mp imp now (t.errorPrefix.isPrefixOf action) m p data = none) (item : Item V) :
    ¬ (mp.isParam m p = true ∧ Imports t imp now action m p data item) := by
  rintro ⟨hp, hi⟩
  unfold importData at h
  simp only [hp, Bool.not_true, Bool.false_eq_true, if_false] at h
  unfold Imports at hi
  cases data with
  | malformed => simp at hi
  | value j tq =>
    cases hc : item.content with
    | error e => simp [hc] at hi
    | value v =>
      simp only [hc] at hi
      obtain ⟨hea, himp, hst⟩ := hi
      have he' : t.errorPrefix.isPrefixOf action = false := by
        cases hx : t.errorPrefix.isPrefixOf action with
        | false => rfl
        | true => exact absurd ((isErr_eq ht ha).1 hx) hea
      rw [he'] at h
      simp [stamp_clip hst, himp] at h
  | report cls text tq =>
    cases hc : item.content with
    | value v => simp [hc] at hi
    | error e =>
      simp only [hc] at hi
      obtain ⟨hea, _, hst⟩ := hi
      rw [(isErr_eq ht ha).2 hea] at h
      simp [stamp_clip hst] at h

theorem contains_update {t : Tables} (ht : TablesOk t) (a : Str) : t.updateMessages.contains a = true ↔ a ∈ cacheActions := by
  obtain ⟨h1, h2, _⟩ := ht
  simp only [List.contains_eq_mem, decide_eq_true_eq]
  exact ⟨h1 a, h2 a⟩

theorem classify_accepted {t : Tables} (ht : TablesOk t) {mp : Maps} {imp : Str → Str → J → Option V} {now : Int}
    {msg : Msg J} {a : Accepted V} (h : classify t mp imp now msg = .accepted a) :
    Effective t mp imp now msg a.m a.p a.item := by
  unfold classify at h
  simp only at h
  by_cases hu : t.updateMessages.contains msg.action = true
  · have ha := (contains_update ht _).1 hu
    simp only [hu, Bool.not_true, Bool.false_eq_true, if_false, resolve_eq_denoted ht] at h
    cases hd : denoted mp msg.action msg.ident with
    | none => simp [hd] at h
    | some r =>
      obtain ⟨m, p⟩ := r
      simp only [hd] at h
      cases hi : importData t mp imp now (t.errorPrefix.isPrefixOf msg.action) m p msg.data with
      | none => simp [hi] at h
      | some item =>
        simp only [hi, Verdict.accepted.injEq] at h
        subst h
        obtain ⟨hp, himp⟩ := importData_some ht ha hi
        exact ⟨ha, hd, hp, himp⟩
  · have hu' : t.updateMessages.contains msg.action = false := by
      cases hx : t.updateMessages.contains msg.action with
      | false => rfl
      | true => exact absurd hx hu
    rw [hu'] at h; simp at h

theorem classify_effective {t : Tables} (ht : TablesOk t) {mp : Maps} {imp : Str → Str → J → Option V} {now : Int}
    {msg : Msg J} {m p : Str} {item : Item V} (he : Effective t mp imp now msg m p item) :
    ∃ a, classify t mp imp now msg = .accepted a ∧ a.m = m ∧ a.p = p := by
  obtain ⟨ha, hd, hp, himp⟩ := he
  have hu := (contains_update ht _).2 ha
  unfold classify
  simp only [hu, Bool.not_true, Bool.false_eq_true, if_false, resolve_eq_denoted ht, hd]
  cases hi : importData t mp imp now (t.errorPrefix.isPrefixOf msg.action) m p msg.data with
  | none => exact absurd ⟨hp, himp⟩ (importData_none ht ha hi item)
  | some item' => exact ⟨⟨m, p, item'⟩, rfl, rfl, rfl⟩

/-! ## callback fan-out -/

def mkCall (m p : Str) (item : Item V) (r : Reg) : Call V := ⟨r, m, p, item⟩

/-- registrations left after the calls of `block`: what the callbacks unregister through `unregister_callback`, and
those raising `UnregisterCallback` remove themselves -/
def applyBlock (behave : Call V → Outcome) (live : List Reg) (block : List (Call V)) : List Reg :=
  block.foldl (afterCall behave) live

theorem applyBlock_append (behave : Call V → Outcome) (live : List Reg) (b1 b2 : List (Call V)) :
    applyBlock behave live (b1 ++ b2) = applyBlock behave (applyBlock behave live b1) b2 := by
  simp [applyBlock, List.foldl_append]

theorem foldl_fanoutStep (behave : Call V → Outcome) (m p : Str) (item : Item V) (rs : List Reg) (s : State V) :
    (rs.foldl (fanoutStep behave m p item) s).cache = s.cache ∧
    (rs.foldl (fanoutStep behave m p item) s).calls = s.calls ++ rs.map (mkCall m p item) ∧
    (rs.foldl (fanoutStep behave m p item) s).regs = applyBlock behave s.regs (rs.map (mkCall m p item)) := by
  induction rs generalizing s with
  | nil => simp [applyBlock]
  | cons r rest ih =>
    simp only [List.foldl_cons, List.map_cons]
    obtain ⟨h1, h2, h3⟩ := ih (fanoutStep behave m p item s r)
    rw [h1, h2, h3]
    simp [fanoutStep, applyBlock, mkCall]

/-- the calls of one fan-out: every registration under `(k, key)` as the registry is when the fan-out begins -/
def stageCalls (regs : List Reg) (k : Kind) (key : Key) (m p : Str) (item : Item V) : List (Call V) :=
  (regs.filter (·.on k key)).map (mkCall m p item)

theorem fanout_spec (behave : Call V → Outcome) (k : Kind) (key : Key) (m p : Str) (item : Item V) (s : State V) :
    (fanout behave k key m p item s).cache = s.cache ∧
    (fanout behave k key m p item s).calls = s.calls ++ stageCalls s.regs k key m p item ∧
    (fanout behave k key m p item s).regs = applyBlock behave s.regs (stageCalls s.regs k key m p item) :=
  foldl_fanoutStep behave m p item _ s

/-- the calls of a sequence of fan-outs, each reading the registry the earlier ones left -/
def blockFrom (behave : Call V → Outcome) (m p : Str) (item : Item V) : List Reg → List (Kind × Key) → List (Call V)
  | _, [] => []
  | regs, st :: rest =>
    stageCalls regs st.1 st.2 m p item ++
      blockFrom behave m p item (applyBlock behave regs (stageCalls regs st.1 st.2 m p item)) rest

/-- the calls one message for `(m, p)` causes, in code order -/
def blockOf (behave : Call V → Outcome) (regs : List Reg) (m p : Str) (item : Item V) : List (Call V) :=
  blockFrom behave m p item regs (stages m p)

theorem foldl_fanout (behave : Call V → Outcome) (m p : Str) (item : Item V) (sts : List (Kind × Key)) (s : State V) :
    (sts.foldl (fun s st => fanout behave st.1 st.2 m p item s) s).cache = s.cache ∧
    (sts.foldl (fun s st => fanout behave st.1 st.2 m p item s) s).calls =
      s.calls ++ blockFrom behave m p item s.regs sts ∧
    (sts.foldl (fun s st => fanout behave st.1 st.2 m p item s) s).regs =
      applyBlock behave s.regs (blockFrom behave m p item s.regs sts) := by
  induction sts generalizing s with
  | nil => simp [blockFrom, applyBlock]
  | cons st rest ih =>
    simp only [List.foldl_cons, blockFrom]
    obtain ⟨a, b, c⟩ := fanout_spec behave st.1 st.2 m p item s
    obtain ⟨a', b', c'⟩ := ih (fanout behave st.1 st.2 m p item s)
    refine ⟨by rw [a', a], ?_, ?_⟩
    · rw [b', b, c, List.append_assoc]
    · rw [c', c, applyBlock_append]

theorem updateValue_spec (behave : Call V → Outcome) (m p : Str) (item : Item V) (s : State V) :
    (updateValue behave m p item s).cache = dictSet s.cache (m, p) item ∧
    (updateValue behave m p item s).calls = s.calls ++ blockOf behave s.regs m p item ∧
    (updateValue behave m p item s).regs = applyBlock behave s.regs (blockOf behave s.regs m p item) := by
  unfold updateValue blockOf
  exact foldl_fanout behave m p item (stages m p) { s with cache := dictSet s.cache (m, p) item }

theorem on_iff (r : Reg) (k : Kind) (key : Key) : r.on k key = true ↔ (r.kind, r.key) = (k, key) := by
  simp [Reg.on]

theorem mem_stageCalls {regs : List Reg} {k : Kind} {key : Key} {m p : Str} {item : Item V} {c : Call V}
    (h : c ∈ stageCalls regs k key m p item) : c.reg.on k key = true ∧ c.m = m ∧ c.p = p ∧ c.item = item := by
  simp only [stageCalls, List.mem_map, List.mem_filter] at h
  obtain ⟨r, ⟨_, hr⟩, hc⟩ := h
  subst hc
  exact ⟨hr, rfl, rfl, rfl⟩

theorem mem_blockFrom (behave : Call V → Outcome) {m p : Str} {item : Item V} {sts : List (Kind × Key)} {regs : List Reg}
    {c : Call V} (h : c ∈ blockFrom behave m p item regs sts) :
    ∃ st ∈ sts, c.reg.on st.1 st.2 = true ∧ c.m = m ∧ c.p = p ∧ c.item = item := by
  induction sts generalizing regs with
  | nil => simp [blockFrom] at h
  | cons st rest ih =>
    simp only [blockFrom, List.mem_append] at h
    rcases h with h | h
    · exact ⟨st, by simp, mem_stageCalls h⟩
    · obtain ⟨st', hm, hh⟩ := ih h
      exact ⟨st', by simp [hm], hh⟩

/-! ### how often a registration occurs -/

theorem count_erase_le (l : List Reg) (a r : Reg) : (l.erase a).count r ≤ l.count r := by
  rw [List.count_erase]; exact Nat.sub_le _ _

theorem count_erase_ne (l : List Reg) {a r : Reg} (h : a ≠ r) : (l.erase a).count r = l.count r := by
  rw [List.count_erase]
  have : (a == r) = false := by simpa using h
  simp [this]

theorem count_applyRemoves_le (l rs : List Reg) (r : Reg) : (applyRemoves l rs).count r ≤ l.count r := by
  induction rs generalizing l with
  | nil => simp [applyRemoves]
  | cons a rest ih =>
    simp only [applyRemoves, List.foldl_cons]
    exact Nat.le_trans (ih (l.erase a)) (count_erase_le l a r)

theorem count_applyRemoves_eq (l rs : List Reg) (r : Reg) (h : r ∉ rs) : (applyRemoves l rs).count r = l.count r := by
  induction rs generalizing l with
  | nil => simp [applyRemoves]
  | cons a rest ih =>
    simp only [List.mem_cons, not_or] at h
    simp only [applyRemoves, List.foldl_cons]
    have := ih (l.erase a) h.2
    simp only [applyRemoves] at this
    rw [this, count_erase_ne l (fun e => h.1 e.symm)]

theorem count_afterCall_le (behave : Call V → Outcome) (l : List Reg) (c : Call V) (r : Reg) :
    (afterCall behave l c).count r ≤ l.count r := by
  unfold afterCall
  simp only
  split
  · exact Nat.le_trans (count_erase_le _ _ _) (count_applyRemoves_le _ _ _)
  · exact count_applyRemoves_le _ _ _

theorem count_afterCall_eq (behave : Call V → Outcome) (l : List Reg) (c : Call V) (r : Reg)
    (h1 : r ∉ (behave c).removes) (h2 : c.reg ≠ r) : (afterCall behave l c).count r = l.count r := by
  unfold afterCall
  simp only
  split
  · rw [count_erase_ne _ h2, count_applyRemoves_eq _ _ _ h1]
  · exact count_applyRemoves_eq _ _ _ h1

theorem count_applyBlock_le (behave : Call V → Outcome) (l : List Reg) (block : List (Call V)) (r : Reg) :
    (applyBlock behave l block).count r ≤ l.count r := by
  induction block generalizing l with
  | nil => simp [applyBlock]
  | cons c rest ih =>
    simp only [applyBlock, List.foldl_cons]
    exact Nat.le_trans (ih (afterCall behave l c)) (count_afterCall_le behave l c r)

theorem count_applyBlock_eq (behave : Call V → Outcome) (l : List Reg) (block : List (Call V)) (r : Reg)
    (h : ∀ c ∈ block, r ∉ (behave c).removes ∧ c.reg ≠ r) : (applyBlock behave l block).count r = l.count r := by
  induction block generalizing l with
  | nil => simp [applyBlock]
  | cons c rest ih =>
    simp only [applyBlock, List.foldl_cons]
    have hc := h c (by simp)
    have := ih (afterCall behave l c) (fun c' hc' => h c' (by simp [hc']))
    simp only [applyBlock] at this
    rw [this, count_afterCall_eq behave l c r hc.1 hc.2]

theorem count_stage (regs : List Reg) (k : Kind) (key : Key) (m p : Str) (item : Item V) (r : Reg) :
    ((stageCalls regs k key m p item).map (·.reg)).count r = if r.on k key = true then regs.count r else 0 := by
  have : (stageCalls regs k key m p item).map (·.reg) = regs.filter (·.on k key) := by
    simp [stageCalls, List.map_map, mkCall, Function.comp_def]
  rw [this]
  by_cases h : r.on k key = true
  · simp only [h, if_true]; exact List.count_filter h
  · rw [if_neg h, List.count_eq_zero]
    intro hm
    exact h (List.mem_filter.1 hm).2

theorem count_blockFrom_zero (behave : Call V → Outcome) (m p : Str) (item : Item V) (sts : List (Kind × Key))
    (regs : List Reg) (r : Reg) (h : (r.kind, r.key) ∉ sts) :
    ((blockFrom behave m p item regs sts).map (·.reg)).count r = 0 := by
  rw [List.count_eq_zero]
  intro hm
  obtain ⟨c, hc, hr⟩ := List.mem_map.1 hm
  obtain ⟨st, hst, hon, _⟩ := mem_blockFrom behave hc
  rw [hr, on_iff] at hon
  exact h (hon ▸ hst)

/-- over distinct fan-outs a registration is called at most as often as it is registered when the message arrives, and
exactly as often unless one of the calls unregisters it -/
theorem count_blockFrom (behave : Call V → Outcome) (m p : Str) (item : Item V) (sts : List (Kind × Key))
    (hnd : sts.Nodup) (regs : List Reg) (r : Reg) :
    ((blockFrom behave m p item regs sts).map (·.reg)).count r ≤ regs.count r ∧
    ((r.kind, r.key) ∈ sts → (∀ c ∈ blockFrom behave m p item regs sts, r ∉ (behave c).removes) →
      ((blockFrom behave m p item regs sts).map (·.reg)).count r = regs.count r) := by
  induction sts generalizing regs with
  | nil => simp [blockFrom]
  | cons st rest ih =>
    obtain ⟨hst, hrest⟩ := List.nodup_cons.1 hnd
    simp only [blockFrom, List.map_append, List.count_append, count_stage]
    by_cases hon : r.on st.1 st.2 = true
    · have hrs : (r.kind, r.key) = st := by rw [on_iff] at hon; exact hon
      have hz := count_blockFrom_zero behave m p item rest
        (applyBlock behave regs (stageCalls regs st.1 st.2 m p item)) r (hrs ▸ hst)
      simp [hon, hz]
    · simp only [hon, if_false, Nat.zero_add, Bool.false_eq_true]
      obtain ⟨ih1, ih2⟩ := ih hrest (applyBlock behave regs (stageCalls regs st.1 st.2 m p item))
      refine ⟨Nat.le_trans ih1 (count_applyBlock_le behave regs _ r), ?_⟩
      intro hmem hno
      have hin : (r.kind, r.key) ∈ rest := by
        rcases List.mem_cons.1 hmem with h | h
        · exact absurd ((on_iff r st.1 st.2).2 h) hon
        · exact h
      rw [ih2 hin (fun c hc => hno c (List.mem_append_right _ hc))]
      apply count_applyBlock_eq
      intro c hc
      refine ⟨hno c (List.mem_append_left _ hc), ?_⟩
      intro he
      have := (mem_stageCalls hc).1
      rw [he] at this
      exact hon this

theorem stages_nodup (m p : Str) : (stages m p).Nodup := by
  simp [stages]

theorem mem_stages (m p : Str) (r : Reg) : (r.kind, r.key) ∈ stages m p ↔ r.key ∈ levels m p := by
  obtain ⟨kind, key, cb⟩ := r
  cases kind <;> simp [stages, levels]

theorem blockOf_once (behave : Call V → Outcome) (regs : List Reg) (m p : Str) (item : Item V) :
    BlockOnce behave regs m p item (blockOf behave regs m p item) := by
  constructor
  · intro c hc
    obtain ⟨st, hst, hon, h1, h2, h3⟩ := mem_blockFrom behave hc
    refine ⟨h1, h2, h3, ?_⟩
    rw [on_iff] at hon
    exact (mem_stages m p c.reg).1 (hon ▸ hst)
  · intro r hr
    obtain ⟨h1, h2⟩ := count_blockFrom behave m p item (stages m p) (stages_nodup m p) regs r
    exact ⟨h1, h2 ((mem_stages m p r).2 hr)⟩

/-! ## cache keys stay unique -/

def KeysNodup (c : Cache V) : Prop := (c.map (·.1)).Nodup

theorem mem_keys_dictSet {κ ν : Type} [BEq κ] [LawfulBEq κ] (d : List (κ × ν)) (k : κ) (v : ν) (x : κ)
    (h : x ∈ (dictSet d k v).map (·.1)) : x = k ∨ x ∈ d.map (·.1) := by
  induction d with
  | nil => simp [dictSet] at h; exact Or.inl h
  | cons e rest ih =>
    unfold dictSet at h
    by_cases he : (e.1 == k) = true
    · simp only [he, if_true, List.map_cons, List.mem_cons] at h
      rcases h with h | h
      · exact Or.inl h
      · exact Or.inr (by simp [h])
    · have he' : (e.1 == k) = false := by
        cases hx : (e.1 == k) with
        | false => rfl
        | true => exact absurd hx he
      simp only [he', Bool.false_eq_true, if_false, List.map_cons, List.mem_cons] at h
      rcases h with h | h
      · exact Or.inr (by simp [h])
      · rcases ih h with h | h
        · exact Or.inl h
        · exact Or.inr (by simp [h])

theorem dictSet_keysNodup (c : Cache V) (k : Str × Str) (v : Item V) (h : KeysNodup c) : KeysNodup (dictSet c k v) := by
  unfold KeysNodup at *
  induction c with
  | nil => simp [dictSet]
  | cons e rest ih =>
    simp only [List.map_cons, List.nodup_cons] at h
    unfold dictSet
    by_cases he : (e.1 == k) = true
    · have hk : e.1 = k := by simpa using he
      simp only [he, if_true, List.map_cons, List.nodup_cons]
      exact ⟨by rw [← hk]; exact h.1, h.2⟩
    · have he' : (e.1 == k) = false := by
        cases hx : (e.1 == k) with
        | false => rfl
        | true => exact absurd hx he
      simp only [he', Bool.false_eq_true, if_false, List.map_cons, List.nodup_cons]
      refine ⟨?_, ih h.2⟩
      intro hm
      rcases mem_keys_dictSet rest k v e.1 hm with h1 | h1
      · exact he (by simp [h1])
      · exact h.1 h1

theorem filter_key (c : Cache V) (k : Str × Str) (h : KeysNodup c) :
    c.filter (fun e => e.1 == k) = match dictGet c k with
      | some v => [(k, v)]
      | none => [] := by
  unfold KeysNodup at h
  induction c with
  | nil => simp [dictGet]
  | cons e rest ih =>
    simp only [List.map_cons, List.nodup_cons] at h
    unfold dictGet
    by_cases he : (e.1 == k) = true
    · have hk : e.1 = k := by simpa using he
      simp only [List.filter_cons, he, if_true]
      have : rest.filter (fun e => e.1 == k) = [] := by
        rw [List.filter_eq_nil_iff]
        intro a ha hak
        have : a.1 = k := by simpa using hak
        exact h.1 (by rw [hk, ← this]; exact List.mem_map_of_mem ha)
      rw [this]
      cases e; simp_all
    · have he' : (e.1 == k) = false := by
        cases hx : (e.1 == k) with
        | false => rfl
        | true => exact absurd hx he
      simp only [List.filter_cons, he', Bool.false_eq_true, if_false]
      exact ih h.2

theorem immediateArgs_eq (c : Cache V) (key : Key) (h : KeysNodup c) :
    immediateArgs c key = c.filter (concerned key) := by
  cases key with
  | node =>
    have : concerned (V := V) Key.node = fun _ => true := by funext e; rfl
    simp only [immediateArgs, this]
    exact (List.filter_eq_self.2 (fun _ _ => rfl)).symm
  | module m =>
    have : concerned (V := V) (Key.module m) = fun e => e.1.1 == m := by funext e; rfl
    simp [immediateArgs, this]
  | param m p =>
    have : concerned (V := V) (Key.param m p) = fun e => e.1 == (m, p) := by funext e; rfl
    simp only [immediateArgs, this]
    rw [filter_key c (m, p) h]
    cases dictGet c (m, p) <;> rfl

/-! ## importable ↔ some import exists -/

theorem importable_iff {t : Tables} (ht : TablesOk t) (imp : Str → Str → J → Option V) (now : Int) (action m p : Str)
    (data : Data J) : importable imp action m p data = true ↔ ∃ item : Item V, Imports t imp now action m p data item := by
  constructor
  · intro h
    cases data with
    | malformed => simp [importable] at h
    | value j tq =>
      simp only [importable, Bool.and_eq_true, Bool.not_eq_true', bne_iff_ne, ne_eq] at h
      obtain ⟨⟨h1, h2⟩, h3⟩ := h
      obtain ⟨v, hv⟩ := Option.isSome_iff_exists.1 h2
      have : ∃ ts, clip now tq = some ts := by cases tq <;> simp_all [clip]
      obtain ⟨ts, hts⟩ := this
      refine ⟨⟨.value v, ts⟩, ?_⟩
      simp only [Imports]
      refine ⟨?_, hv, clip_stamp hts⟩
      intro hx; simp [hx] at h1
    | report cls text tq =>
      simp only [importable, Bool.and_eq_true, bne_iff_ne, ne_eq] at h
      obtain ⟨h1, h3⟩ := h
      have : ∃ ts, clip now tq = some ts := by cases tq <;> simp_all [clip]
      obtain ⟨ts, hts⟩ := this
      refine ⟨⟨.error (makeSecopError t cls text), ts⟩, ?_⟩
      simp only [Imports]
      exact ⟨by simpa using h1, makeSecopError_rebuilt ht cls text, clip_stamp hts⟩
  · rintro ⟨item, h⟩
    unfold Imports at h
    cases data with
    | malformed => simp at h
    | value j tq =>
      cases hc : item.content with
      | error e => simp [hc] at h
      | value v =>
        simp only [hc] at h
        obtain ⟨h1, h2, h3⟩ := h
        have : tq ≠ .bad := by intro hb; subst hb; simp [Stamp] at h3
        simp [importable, h1, h2, this]
    | report cls text tq =>
      cases hc : item.content with
      | value v => simp [hc] at h
      | error e =>
        simp only [hc] at h
        obtain ⟨h1, _, h3⟩ := h
        have : tq ≠ .bad := by intro hb; subst hb; simp [Stamp] at h3
        simp [importable, h1, this]

theorem effectiveFor_some {t : Tables} (ht : TablesOk t) (mp : Maps) (imp : Str → Str → J → Option V) (now : Int)
    (msg : Msg J) (m p : Str) :
    effectiveFor mp imp (.msg msg) = some (m, p) ↔ ∃ item : Item V, Effective t mp imp now msg m p item := by
  unfold effectiveFor Effective
  constructor
  · intro h
    by_cases ha : cacheActions.contains msg.action = true
    · simp only [ha, if_true] at h
      cases hd : denoted mp msg.action msg.ident with
      | none => simp [hd] at h
      | some r =>
        obtain ⟨m', p'⟩ := r
        simp only [hd] at h
        by_cases hc : (mp.isParam m' p' && importable imp msg.action m' p' msg.data) = true
        · simp only [hc, if_true, Option.some.injEq, Prod.mk.injEq] at h
          obtain ⟨h1, h2⟩ := h
          subst h1; subst h2
          simp only [Bool.and_eq_true] at hc
          obtain ⟨item, hi⟩ := (importable_iff ht imp now _ _ _ _).1 hc.2
          exact ⟨item, by simpa using ha, rfl, hc.1, hi⟩
        · simp [hc] at h
    · have ha' : cacheActions.contains msg.action = false := by
        cases hx : cacheActions.contains msg.action with
        | false => rfl
        | true => exact absurd hx ha
      simp only [ha'] at h; simp at h
  · rintro ⟨item, ha, hd, hp, hi⟩
    have ha' : cacheActions.contains msg.action = true := by simpa using ha
    have := (importable_iff ht imp now msg.action m p msg.data).2 ⟨item, hi⟩
    simp only [ha']
    simp [hd, hp, this]

/-! ## one event -/

/-- the callback calls one event causes -/
def stepBlock (t : Tables) (mp : Maps) (imp : Str → Str → J → Option V) (behave : Call V → Outcome) (s : State V) :
    Ev J → List (Call V)
  | .line now (.msg msg) =>
    match classify t mp imp now msg with
    | .accepted a => blockOf behave s.regs a.m a.p a.item
    | _ => []
  | .line _ .garbage => []
  | .register r => (immediateArgs s.cache r.key).map (callOf r)
  | .unregister _ => []

theorem step_calls (t : Tables) (mp : Maps) (imp : Str → Str → J → Option V) (behave : Call V → Outcome) (s : State V)
    (ev : Ev J) : (step t mp imp behave s ev).calls = s.calls ++ stepBlock t mp imp behave s ev := by
  cases ev with
  | line now l =>
    cases l with
    | garbage => simp [step, rxStep, stepBlock]
    | msg msg =>
      simp only [step, rxStep, stepBlock]
      cases classify t mp imp now msg with
      | ignored => simp
      | dropped => simp
      | accepted a => exact (updateValue_spec behave a.m a.p a.item s).2.1
  | register r => simp [step, register, stepBlock, callOf]
  | unregister r => simp [step, unregister, stepBlock]

theorem step_regs (t : Tables) (mp : Maps) (imp : Str → Str → J → Option V) (behave : Call V → Outcome) (s : State V)
    (ev : Ev J) : (step t mp imp behave s ev).regs = liveAfter behave s.regs ev (stepBlock t mp imp behave s ev) := by
  cases ev with
  | line now l =>
    cases l with
    | garbage => simp [step, rxStep, stepBlock, liveAfter]
    | msg msg =>
      simp only [step, rxStep, stepBlock, liveAfter]
      cases classify t mp imp now msg with
      | ignored => simp
      | dropped => simp
      | accepted a => exact (updateValue_spec behave a.m a.p a.item s).2.2
  | register r =>
    simp only [step, register, stepBlock, liveAfter]
    rfl
  | unregister r => simp [step, unregister, stepBlock, liveAfter]

/-- what an event does to the cache -/
theorem step_cache (t : Tables) (mp : Maps) (imp : Str → Str → J → Option V) (behave : Call V → Outcome) (s : State V)
    (ev : Ev J) : (step t mp imp behave s ev).cache =
      match ev with
      | .line now (.msg msg) =>
        match classify t mp imp now msg with
        | .accepted a => dictSet s.cache (a.m, a.p) a.item
        | _ => s.cache
      | _ => s.cache := by
  cases ev with
  | line now l =>
    cases l with
    | garbage => simp [step, rxStep]
    | msg msg =>
      simp only [step, rxStep]
      cases classify t mp imp now msg with
      | ignored => simp
      | dropped => simp
      | accepted a => exact (updateValue_spec behave a.m a.p a.item s).1
  | register r => simp [step, register]
  | unregister r => simp [step, unregister]

theorem step_keysNodup (t : Tables) (mp : Maps) (imp : Str → Str → J → Option V) (behave : Call V → Outcome) (s : State V)
    (ev : Ev J) (h : KeysNodup s.cache) : KeysNodup (step t mp imp behave s ev).cache := by
  rw [step_cache]
  cases ev with
  | line now l =>
    cases l with
    | garbage => exact h
    | msg msg =>
      simp only
      cases classify t mp imp now msg with
      | ignored => exact h
      | dropped => exact h
      | accepted a => exact dictSet_keysNodup _ _ _ h
  | register r => exact h
  | unregister r => exact h

theorem step_ok [DecidableEq V] {t : Tables} (ht : TablesOk t) (mp : Maps) (imp : Str → Str → J → Option V)
    (behave : Call V → Outcome) (s : State V) (ev : Ev J) (hk : KeysNodup s.cache) :
    StepOk t mp imp behave s.cache s.regs ev (stepBlock t mp imp behave s ev) (step t mp imp behave s ev).cache := by
  rw [step_cache]
  cases ev with
  | unregister r => exact ⟨fun _ => rfl, rfl⟩
  | register r =>
    refine ⟨fun _ => rfl, ?_⟩
    simp only [ImmediateOnce, stepBlock, immediateArgs_eq _ _ hk]
    exact List.Perm.refl _
  | line now l =>
    cases l with
    | garbage => exact ⟨fun _ => rfl, rfl⟩
    | msg msg =>
      simp only [StepOk, stepBlock]
      cases hc : classify t mp imp now msg with
      | accepted a =>
        have he := classify_accepted ht hc
        have hf : effectiveFor mp imp (.msg msg) = some (a.m, a.p) := (effectiveFor_some ht mp imp now msg a.m a.p).2 ⟨_, he⟩
        simp only [hf]
        refine ⟨a.item, dictGet_dictSet_self _ _ _, he, fun k hne => dictGet_dictSet_ne _ _ _ _ hne, blockOf_once _ _ _ _ _⟩
      | ignored =>
        have hf : effectiveFor mp imp (.msg msg) = none := by
          cases hx : effectiveFor mp imp (.msg msg) with
          | none => rfl
          | some r =>
            obtain ⟨m, p⟩ := r
            obtain ⟨item, he⟩ := (effectiveFor_some ht mp imp now msg m p).1 hx
            obtain ⟨a, ha, _⟩ := classify_effective ht he
            rw [hc] at ha; cases ha
        simp only [hf]
        exact ⟨fun _ => rfl, trivial⟩
      | dropped =>
        have hf : effectiveFor mp imp (.msg msg) = none := by
          cases hx : effectiveFor mp imp (.msg msg) with
          | none => rfl
          | some r =>
            obtain ⟨m, p⟩ := r
            obtain ⟨item, he⟩ := (effectiveFor_some ht mp imp now msg m p).1 hx
            obtain ⟨a, ha, _⟩ := classify_effective ht he
            rw [hc] at ha; cases ha
        simp only [hf]
        exact ⟨fun _ => rfl, trivial⟩

/-- the history a run of the model writes: every event with the calls it caused and the cache after it -/
def history (t : Tables) (mp : Maps) (imp : Str → Str → J → Option V) (behave : Call V → Outcome) (s : State V) :
    List (Ev J) → List (Ev J × List (Call V) × Cache V)
  | [] => []
  | ev :: rest => (ev, stepBlock t mp imp behave s ev, (step t mp imp behave s ev).cache) ::
      history t mp imp behave (step t mp imp behave s ev) rest

/-! ## the monitors decide the specification -/

section monitors
variable [DecidableEq V]

theorem dictGet_none_of_not_mem {κ ν : Type} [BEq κ] [LawfulBEq κ] (d : List (κ × ν)) (k : κ) (h : k ∉ d.map (·.1)) :
    dictGet d k = none := by
  induction d with
  | nil => rfl
  | cons e rest ih =>
    simp only [List.map_cons, List.mem_cons, not_or] at h
    unfold dictGet
    have : (e.1 == k) = false := by
      cases hx : (e.1 == k) with
      | false => rfl
      | true => exact absurd (by simpa using hx : e.1 = k).symm h.1
    simp only [this, Bool.false_eq_true, if_false]
    exact ih h.2

omit [DecidableEq V] in
theorem getEq_of_keys (c c' : Cache V) (P : (Str × Str) → Prop) [DecidablePred P]
    (h : ∀ k ∈ keysOf c ++ keysOf c', P k ∨ dictGet c' k = dictGet c k) : ∀ k, ¬ P k → dictGet c' k = dictGet c k := by
  intro k hk
  by_cases hm : k ∈ keysOf c ++ keysOf c'
  · rcases h k hm with h | h
    · exact absurd h hk
    · exact h
  · simp only [List.mem_append, not_or, keysOf] at hm
    rw [dictGet_none_of_not_mem c k hm.1, dictGet_none_of_not_mem c' k hm.2]

theorem sameCacheB_iff (c c' : Cache V) : sameCacheB c c' = true ↔ SameCache c c' := by
  unfold sameCacheB SameCache
  constructor
  · intro h k
    have := getEq_of_keys c c' (fun _ => False) (by
      intro k hk
      right
      have := (List.all_eq_true.1 h) k hk
      exact (by simpa using this : dictGet c k = dictGet c' k).symm) k (by simp)
    exact this.symm
  · intro h
    rw [List.all_eq_true]
    intro k _
    simp [h k]

theorem blockOnceB_iff (behave : Call V → Outcome) (live : List Reg) (m p : Str) (item : Item V) (block : List (Call V)) :
    blockOnceB behave live m p item block = true ↔ BlockOnce behave live m p item block := by
  unfold blockOnceB BlockOnce
  rw [Bool.and_eq_true]
  constructor
  · rintro ⟨h1, h2⟩
    refine ⟨?_, ?_⟩
    · intro c hc
      have := (List.all_eq_true.1 h1) c hc
      simpa [and_assoc] using this
    · intro r hr
      by_cases hm : r ∈ live ++ block.map (·.reg)
      · have := (List.all_eq_true.1 h2) r hm
        have hlev : (levels m p).contains r.key = true := by simpa using hr
        simp only [hlev, Bool.not_true, Bool.false_or, Bool.and_eq_true, decide_eq_true_eq, Bool.or_eq_true,
          beq_iff_eq] at this
        refine ⟨this.1, fun hno => ?_⟩
        rcases this.2 with h | h
        · obtain ⟨c, hc, hcr⟩ := List.any_eq_true.1 h
          exact absurd (by simpa using hcr) (hno c hc)
        · exact h
      · simp only [List.mem_append, not_or] at hm
        rw [List.count_eq_zero.2 hm.2, List.count_eq_zero.2 hm.1]
        exact ⟨Nat.le_refl _, fun _ => rfl⟩
  · rintro ⟨h1, h2⟩
    refine ⟨?_, ?_⟩
    · rw [List.all_eq_true]
      intro c hc
      have := h1 c hc
      simpa [and_assoc] using this
    · rw [List.all_eq_true]
      intro r _
      by_cases hr : r.key ∈ levels m p
      · obtain ⟨hle, himp⟩ := h2 r hr
        have hlev : (levels m p).contains r.key = true := by simpa using hr
        simp only [hlev, Bool.not_true, Bool.false_or, Bool.and_eq_true, decide_eq_true_eq, Bool.or_eq_true, beq_iff_eq]
        refine ⟨hle, ?_⟩
        by_cases hany : block.any (fun c => (behave c).removes.contains r) = true
        · exact Or.inl hany
        · right
          apply himp
          intro c hc hmem
          apply hany
          exact List.any_eq_true.2 ⟨c, hc, by simpa using hmem⟩
      · have : (levels m p).contains r.key = false := by simpa using hr
        simp only [this, Bool.not_false, Bool.true_or]

theorem effectiveB_iff (t : Tables) (mp : Maps) (imp : Str → Str → J → Option V) (now : Int) (msg : Msg J)
    (m p : Str) (item : Item V) : effectiveB t mp imp now msg m p item = true ↔ Effective t mp imp now msg m p item := by
  unfold effectiveB Effective
  simp [and_assoc]

theorem stepOkB_iff (t : Tables) (mp : Maps) (imp : Str → Str → J → Option V) (behave : Call V → Outcome) (c : Cache V)
    (live : List Reg) (ev : Ev J) (block : List (Call V)) (c' : Cache V) :
    stepOkB t mp imp behave c live ev block c' = true ↔ StepOk t mp imp behave c live ev block c' := by
  unfold stepOkB StepOk
  cases ev with
  | unregister r => simp [sameCacheB_iff, List.isEmpty_iff]
  | register r => simp [sameCacheB_iff, immediateOnceB, ImmediateOnce, List.isPerm_iff]
  | line now l =>
    simp only
    split
    · rename_i m p msg _
      cases hg : dictGet c' (m, p) with
      | none => simp
      | some item =>
        simp only [Bool.and_eq_true, effectiveB_iff, blockOnceB_iff]
        constructor
        · rintro ⟨⟨he, hk⟩, hb⟩
          refine ⟨item, rfl, he, ?_, hb⟩
          exact getEq_of_keys c c' (fun k => k = (m, p)) (by
            intro k hk'
            have := (List.all_eq_true.1 hk) k hk'
            simpa using this)
        · rintro ⟨item', hi, he, hk, hb⟩
          cases hi
          refine ⟨⟨he, ?_⟩, hb⟩
          rw [List.all_eq_true]
          intro k _
          by_cases hkm : k = (m, p)
          · simp [hkm]
          · simp [hk k hkm]
    · simp [sameCacheB_iff, List.isEmpty_iff]

theorem judgeFrom_iff (t : Tables) (mp : Maps) (imp : Str → Str → J → Option V) (behave : Call V → Outcome) (i : Nat)
    (c : Cache V) (live : List Reg) (steps : List (Ev J × List (Call V) × Cache V)) :
    judgeFrom t mp imp behave i c live steps = none ↔ Mirrors t mp imp behave c live steps := by
  induction steps generalizing i c live with
  | nil => exact ⟨fun _ => Mirrors.nil _ _, fun _ => rfl⟩
  | cons st rest ih =>
    obtain ⟨ev, block, c'⟩ := st
    unfold judgeFrom
    by_cases hs : stepOkB t mp imp behave c live ev block c' = true
    · simp only [hs, if_true]
      rw [ih]
      constructor
      · intro h; exact Mirrors.cons _ _ _ _ _ _ ((stepOkB_iff ..).1 hs) h
      · intro h; cases h with
        | cons _ _ _ _ _ _ _ h2 => exact h2
    · simp only [hs, Bool.false_eq_true, if_false]
      constructor
      · intro h; cases h
      · intro h; cases h with
        | cons _ _ _ _ _ _ h1 _ => exact absurd ((stepOkB_iff ..).2 h1) hs

end monitors

end Frappy.Lemmas.Cache
