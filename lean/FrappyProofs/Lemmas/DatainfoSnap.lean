import FrappyProofs.Lemmas.DatainfoOpt
import FrappyProofs.Lemmas.RatGrid
/-
C03: scaled limits that are NOT grid aligned.  The description of a scaled integer holds the grid indices
`int(round(limit / scale))` of its limits, so the round trip through the description (and `copy()`, which goes
through it) moves every limit to its grid value.  `snapLimits` (Datatypes/DatainfoWF.lean) is that tree; it
is well formed, grid aligned, has the same description, and `copy()` / `get_datatype(export_datatype())` of
the original are `copy()` / the rebuild of it.

One property of the carrier beyond `LawfulFloatOps` / `CompatLaws` is used: `GridStable` — the grid value of a
grid index has that very grid index (`round((k*scale)/scale) = k`).  Exact for `Rat` (`rat_gridStable`); for
binary64 it holds while `|k| < 2^51` (two roundings of relative size 2^-53 cannot move the quotient by 1/2).
-/
set_option linter.unusedSectionVars false
set_option linter.unusedVariables false
set_option linter.unusedSimpArgs false
namespace Frappy.Lemmas.C03Datainfo
open FloatOps DType DInfo Frappy.Datatypes
open Frappy.Lemmas.C01 (snap_mono positive_iff)
open PVal (dictGet ofJVal)

variable {F : Type} [FloatOps F] [LawfulFloatOps F] [CompatLaws F]

/-- the grid value of a grid index has that grid index -/
def GridStable (F : Type) [FloatOps F] : Prop :=
  ∀ (s x y : F) (k : Int), isFinite s = true → DType.positive s = true →
    DType.gridIndex s x = some k → ofInt k = some y → isFinite (mul y s) = true →
    DType.gridIndex s (mul y s) = some k

theorem snap_iff {s x x' : F} (h : DType.snap s x = some x') :
    ∃ k y, DType.gridIndex s x = some k ∧ ofInt k = some y ∧ mul y s = x' := by
  unfold DType.snap at h
  split at h
  · rename_i k hk
    unfold DType.ofGrid at h
    split at h
    · rename_i y hy
      injection h with h
      exact ⟨k, y, hk, hy, h⟩
    · cases h
  · cases h

theorem alignedB_iff (s x : F) : alignedB s x = true ↔ Aligned s x := by
  unfold alignedB Aligned
  cases h : DType.snap s x with
  | none => simp
  | some y =>
    simp only [Option.some.injEq]
    exact LawfulFloatOps.same_iff y x

mutual
theorem exportableB_iff : ∀ t : DInfo F, t.exportableB = true ↔ t.Exportable
  | .scaled s mn mx _ _ _ _ => by
    simp only [exportableB, Exportable, Bool.and_eq_true, alignedB_iff]
  | .array e _ _ => by simp only [exportableB, Exportable]; exact exportableB_iff e
  | .tuple es => by simp only [exportableB, Exportable]; exact exportableListB_iff es
  | .struct ms _ _ => by simp only [exportableB, Exportable]; exact exportableFieldsB_iff ms
  | .double .. => by simp [exportableB, Exportable]
  | .int .. => by simp [exportableB, Exportable]
  | .bool => by simp [exportableB, Exportable]
  | .enum .. => by simp [exportableB, Exportable]
  | .string .. => by simp [exportableB, Exportable]
  | .blob .. => by simp [exportableB, Exportable]
theorem exportableListB_iff : ∀ ts : List (DInfo F), exportableListB ts = true ↔ ExportableList ts
  | [] => by simp [exportableListB, ExportableList]
  | t :: ts => by
    simp only [exportableListB, ExportableList, Bool.and_eq_true, exportableB_iff t, exportableListB_iff ts]
theorem exportableFieldsB_iff : ∀ ts : List (String × DInfo F), exportableFieldsB ts = true ↔ ExportableFields ts
  | [] => by simp [exportableFieldsB, ExportableFields]
  | (_, t) :: ts => by
    simp only [exportableFieldsB, ExportableFields, Bool.and_eq_true, exportableB_iff t, exportableFieldsB_iff ts]
end

/-! ### the scaled leaf -/

/-- a snapped limit is aligned and has the grid index of the limit it came from -/
theorem snapped_limit (hG : GridStable F) {s x x' : F} (hs : isFinite s = true) (hp : DType.positive s = true)
    (h : DType.snap s x = some x') (hf : isFinite x' = true) :
    Aligned s x' ∧ DType.gridIndex s x' = DType.gridIndex s x ∧ addZero x' = x' := by
  obtain ⟨k, y, hk, hy, hm⟩ := snap_iff h
  subst hm
  have hk' := hG s x y k hs hp hk hy hf
  refine ⟨?_, by rw [hk', hk], LawfulFloatOps.addZero_ofGrid k y s hy (positive_iff hp)⟩
  simp [Aligned, DType.snap, hk', DType.ofGrid, hy]

theorem snapped_leaf (hG : GridStable F) (D : Consts F) {s mn mx ar rr mn' mx' : F} {u f : String}
    (hwf : (DInfo.scaled s mn mx ar rr u f).WF D)
    (h1 : DType.snap s mn = some mn') (h2 : DType.snap s mx = some mx')
    (f1 : isFinite mn' = true) (f2 : isFinite mx' = true) :
    (DInfo.scaled s mn' mx' ar rr u f).WF D ∧ (DInfo.scaled s mn' mx' ar rr u f).Exportable ∧
      exportDatatype D (.scaled s mn' mx' ar rr u f) = exportDatatype D (.scaled s mn mx ar rr u f) := by
  simp only [DInfo.WF, DType.WF] at hwf
  obtain ⟨⟨fs, ps, fmn, fmx, hle, cmn, cmx, far, nar, frr, nrr⟩, rest⟩ := hwf
  obtain ⟨a1, g1, c1⟩ := snapped_limit hG fs ps h1 f1
  obtain ⟨a2, g2, c2⟩ := snapped_limit hG fs ps h2 f2
  have hle' : le mn' mx' = true := by
    obtain ⟨k1, y1, hk1, hy1, hm1⟩ := snap_iff h1
    obtain ⟨k2, y2, hk2, hy2, hm2⟩ := snap_iff h2
    exact snap_mono fs ps hle ⟨k1, y1, hk1, hy1, hm1.symm⟩ ⟨k2, y2, hk2, hy2, hm2.symm⟩
  refine ⟨?_, ⟨a1, a2⟩, ?_⟩
  · simp only [DInfo.WF, DType.WF]
    exact ⟨⟨fs, ps, f1, f2, hle', c1, c2, far, nar, frr, nrr⟩, rest⟩
  · simp only [exportDatatype, g1, g2]

/-! ### the tree -/

mutual
theorem snapLimits_spec (hG : GridStable F) (D : Consts F) :
    ∀ (dt dt' : DInfo F), dt.WF D → snapLimits dt = some dt' →
      dt'.WF D ∧ dt'.Exportable ∧ exportDatatype D dt' = exportDatatype D dt
  | .scaled s mn mx ar rr u f, dt', hwf, h => by
    simp only [snapLimits] at h
    split at h
    · rename_i mn' mx' h1 h2
      split at h
      · rename_i hf
        injection h with h
        subst h
        simp only [Bool.and_eq_true] at hf
        exact snapped_leaf hG D hwf h1 h2 hf.1 hf.2
      · cases h
    · cases h
  | .array e a b, dt', hwf, h => by
    simp only [snapLimits] at h
    split at h
    · rename_i e' he
      injection h with h
      subst h
      simp only [DInfo.WF] at hwf
      obtain ⟨w, x, ex⟩ := snapLimits_spec hG D e e' hwf.1 he
      exact ⟨by simp only [DInfo.WF]; exact ⟨w, hwf.2⟩, by simp only [Exportable]; exact x,
        by simp only [exportDatatype, ex]⟩
    · cases h
  | .tuple es, dt', hwf, h => by
    simp only [snapLimits] at h
    split at h
    · rename_i es' he
      injection h with h
      subst h
      simp only [DInfo.WF] at hwf
      obtain ⟨w, x, ex, hn⟩ := snapLimitsList_spec hG D es es' hwf.2 he
      exact ⟨by simp only [DInfo.WF]; exact ⟨fun e => hwf.1 (hn e), w⟩, by simp only [Exportable]; exact x,
        by simp only [exportDatatype, ex]⟩
    · cases h
  | .struct ms opt c, dt', hwf, h => by
    simp only [snapLimits] at h
    split at h
    · rename_i ms' he
      injection h with h
      subst h
      simp only [DInfo.WF] at hwf
      obtain ⟨w, x, ex, hn⟩ := snapLimitsFields_spec hG D ms ms' hwf.2.2.2 he
      refine ⟨?_, by simp only [Exportable]; exact x, by simp only [exportDatatype, ex, hn]⟩
      simp only [DInfo.WF, hn]
      refine ⟨?_, hwf.2.1, hwf.2.2.1, w⟩
      intro e
      apply hwf.1
      have : (ms.map (·.1)) = [] := by rw [← hn, e]; rfl
      exact List.map_eq_nil_iff.1 this
    · cases h
  | .double .., dt', hwf, h => by
    simp only [snapLimits] at h; injection h with h; subst h; exact ⟨hwf, by simp [Exportable], rfl⟩
  | .int .., dt', hwf, h => by
    simp only [snapLimits] at h; injection h with h; subst h; exact ⟨hwf, by simp [Exportable], rfl⟩
  | .bool, dt', hwf, h => by
    simp only [snapLimits] at h; injection h with h; subst h; exact ⟨hwf, by simp [Exportable], rfl⟩
  | .enum .., dt', hwf, h => by
    simp only [snapLimits] at h; injection h with h; subst h; exact ⟨hwf, by simp [Exportable], rfl⟩
  | .string .., dt', hwf, h => by
    simp only [snapLimits] at h; injection h with h; subst h; exact ⟨hwf, by simp [Exportable], rfl⟩
  | .blob .., dt', hwf, h => by
    simp only [snapLimits] at h; injection h with h; subst h; exact ⟨hwf, by simp [Exportable], rfl⟩
theorem snapLimitsList_spec (hG : GridStable F) (D : Consts F) :
    ∀ (es es' : List (DInfo F)), WFList D es → snapLimitsList es = some es' →
      WFList D es' ∧ ExportableList es' ∧ exportList D es' = exportList D es ∧ (es' = [] → es = [])
  | [], es', _, h => by
    simp only [snapLimitsList] at h; injection h with h; subst h
    exact ⟨by simp [DInfo.WFList], by simp [ExportableList], rfl, fun _ => rfl⟩
  | t :: ts, es', hwf, h => by
    simp only [snapLimitsList] at h
    split at h
    · rename_i t' ts' h1 h2
      injection h with h
      subst h
      simp only [DInfo.WFList] at hwf
      obtain ⟨w, x, ex⟩ := snapLimits_spec hG D t t' hwf.1 h1
      obtain ⟨ws, xs, exs, _⟩ := snapLimitsList_spec hG D ts ts' hwf.2 h2
      exact ⟨by simp only [DInfo.WFList]; exact ⟨w, ws⟩, by simp only [ExportableList]; exact ⟨x, xs⟩,
        by simp only [exportList, ex, exs], fun e => by cases e⟩
    · cases h
theorem snapLimitsFields_spec (hG : GridStable F) (D : Consts F) :
    ∀ (ms ms' : List (String × DInfo F)), WFFields D ms → snapLimitsFields ms = some ms' →
      WFFields D ms' ∧ ExportableFields ms' ∧ exportFields D ms' = exportFields D ms ∧
        ms'.map (·.1) = ms.map (·.1)
  | [], ms', _, h => by
    simp only [snapLimitsFields] at h; injection h with h; subst h
    exact ⟨by simp [DInfo.WFFields], by simp [ExportableFields], rfl, rfl⟩
  | (k, t) :: ts, ms', hwf, h => by
    simp only [snapLimitsFields] at h
    split at h
    · rename_i t' ts' h1 h2
      injection h with h
      subst h
      simp only [DInfo.WFFields] at hwf
      obtain ⟨w, x, ex⟩ := snapLimits_spec hG D t t' hwf.1 h1
      obtain ⟨ws, xs, exs, hn⟩ := snapLimitsFields_spec hG D ts ts' hwf.2 h2
      exact ⟨by simp only [DInfo.WFFields]; exact ⟨w, ws⟩, by simp only [ExportableFields]; exact ⟨x, xs⟩,
        by simp only [exportFields, ex, exs], by simp only [List.map_cons, hn]⟩
    · cases h
end

/-! ### `copy()` of any well-formed tree is the tree with snapped limits -/

mutual
theorem copy_snap_gen (hG : GridStable F) (D : Consts F) (hD : D.OK) (hC : ConstsOK2 F) :
    ∀ (dt dt' : DInfo F), dt.WF D → snapLimits dt = some dt' → copy D dt = .ok dt'
  | .scaled s mn mx ar rr u f, dt', hwf, h => by
    obtain ⟨w, x, ex⟩ := snapLimits_spec hG D _ dt' hwf h
    have h' := h
    simp only [snapLimits] at h'
    split at h'
    · split at h'
      · injection h' with h'
        subst h'
        obtain ⟨j, hj1, hj2⟩ := leaf_scaled D hD _ _ _ _ _ _ _ w x
        rw [copy]
        exact viaDatainfo_of D ⟨j, by rw [← ex]; exact hj1, hj2⟩
      · cases h'
    · cases h'
  | .array e a b, dt', hwf, h => by
    simp only [snapLimits] at h
    split at h
    · rename_i e' he
      injection h with h
      subst h
      simp only [DInfo.WF] at hwf
      rw [copy, copy_snap_gen hG D hD hC e e' hwf.1 he]
    · cases h
  | .tuple es, dt', hwf, h => by
    simp only [snapLimits] at h
    split at h
    · rename_i es' he
      injection h with h
      subst h
      simp only [DInfo.WF] at hwf
      rw [copy, copyList_snap_gen hG D hD hC es es' hwf.2 he]
    · cases h
  | .struct ms opt c, dt', hwf, h => by
    simp only [snapLimits] at h
    split at h
    · rename_i ms' he
      injection h with h
      subst h
      simp only [DInfo.WF] at hwf
      rw [copy, copyFields_snap_gen hG D hD hC ms ms' hwf.2.2.2 he]
    · cases h
  | .double mn mx ar rr u f, dt', hwf, h => by
    simp only [snapLimits] at h; injection h with h; subst h
    exact copy_core D hD hC _ hwf (by simp [Exportable])
  | .int mn mx, dt', hwf, h => by
    simp only [snapLimits] at h; injection h with h; subst h
    exact copy_core D hD hC _ hwf (by simp [Exportable])
  | .bool, dt', hwf, h => by
    simp only [snapLimits] at h; injection h with h; subst h
    exact copy_core D hD hC _ hwf (by simp [Exportable])
  | .enum n ms, dt', hwf, h => by
    simp only [snapLimits] at h; injection h with h; subst h
    exact copy_core D hD hC _ hwf (by simp [Exportable])
  | .string a b u, dt', hwf, h => by
    simp only [snapLimits] at h; injection h with h; subst h
    exact copy_core D hD hC _ hwf (by simp [Exportable])
  | .blob a b, dt', hwf, h => by
    simp only [snapLimits] at h; injection h with h; subst h
    exact copy_core D hD hC _ hwf (by simp [Exportable])
theorem copyList_snap_gen (hG : GridStable F) (D : Consts F) (hD : D.OK) (hC : ConstsOK2 F) :
    ∀ (es es' : List (DInfo F)), WFList D es → snapLimitsList es = some es' → copyList D es = .ok es'
  | [], es', _, h => by
    simp only [snapLimitsList] at h; injection h with h; subst h; rw [copyList]
  | t :: ts, es', hwf, h => by
    simp only [snapLimitsList] at h
    split at h
    · rename_i t' ts' h1 h2
      injection h with h
      subst h
      simp only [DInfo.WFList] at hwf
      rw [copyList, copy_snap_gen hG D hD hC t t' hwf.1 h1, copyList_snap_gen hG D hD hC ts ts' hwf.2 h2]
    · cases h
theorem copyFields_snap_gen (hG : GridStable F) (D : Consts F) (hD : D.OK) (hC : ConstsOK2 F) :
    ∀ (ms ms' : List (String × DInfo F)), WFFields D ms → snapLimitsFields ms = some ms' → copyFields D ms = .ok ms'
  | [], ms', _, h => by
    simp only [snapLimitsFields] at h; injection h with h; subst h; rw [copyFields]
  | (k, t) :: ts, ms', hwf, h => by
    simp only [snapLimitsFields] at h
    split at h
    · rename_i t' ts' h1 h2
      injection h with h
      subst h
      simp only [DInfo.WFFields] at hwf
      rw [copyFields, copy_snap_gen hG D hD hC t t' hwf.1 h1, copyFields_snap_gen hG D hD hC ts ts' hwf.2 h2]
    · cases h
end

/-! ### a grid-aligned tree is its own snapped tree -/

theorem isFinite_of_wf_scaled {s mn mx ar rr : F} (h : (DType.scaled s mn mx ar rr).WF) :
    isFinite mn = true ∧ isFinite mx = true := by
  simp only [DType.WF] at h
  exact ⟨h.2.2.1, h.2.2.2.1⟩

mutual
theorem snapLimits_of_exportable (D : Consts F) :
    ∀ dt : DInfo F, dt.WF D → dt.Exportable → snapLimits dt = some dt
  | .scaled s mn mx ar rr u f, hwf, hex => by
    simp only [DInfo.WF] at hwf
    obtain ⟨f1, f2⟩ := isFinite_of_wf_scaled hwf.1
    simp only [Exportable, Aligned] at hex
    simp [snapLimits, hex.1, hex.2, f1, f2]
  | .array e a b, hwf, hex => by
    simp only [DInfo.WF] at hwf
    simp only [Exportable] at hex
    simp [snapLimits, snapLimits_of_exportable D e hwf.1 hex]
  | .tuple es, hwf, hex => by
    simp only [DInfo.WF] at hwf
    simp only [Exportable] at hex
    simp [snapLimits, snapLimitsList_of_exportable D es hwf.2 hex]
  | .struct ms opt c, hwf, hex => by
    simp only [DInfo.WF] at hwf
    simp only [Exportable] at hex
    simp [snapLimits, snapLimitsFields_of_exportable D ms hwf.2.2.2 hex]
  | .double .., _, _ => by simp [snapLimits]
  | .int .., _, _ => by simp [snapLimits]
  | .bool, _, _ => by simp [snapLimits]
  | .enum .., _, _ => by simp [snapLimits]
  | .string .., _, _ => by simp [snapLimits]
  | .blob .., _, _ => by simp [snapLimits]
theorem snapLimitsList_of_exportable (D : Consts F) :
    ∀ es : List (DInfo F), WFList D es → ExportableList es → snapLimitsList es = some es
  | [], _, _ => by simp [snapLimitsList]
  | t :: ts, hwf, hex => by
    simp only [DInfo.WFList] at hwf
    simp only [ExportableList] at hex
    simp [snapLimitsList, snapLimits_of_exportable D t hwf.1 hex.1, snapLimitsList_of_exportable D ts hwf.2 hex.2]
theorem snapLimitsFields_of_exportable (D : Consts F) :
    ∀ ms : List (String × DInfo F), WFFields D ms → ExportableFields ms → snapLimitsFields ms = some ms
  | [], _, _ => by simp [snapLimitsFields]
  | (k, t) :: ts, hwf, hex => by
    simp only [DInfo.WFFields] at hwf
    simp only [ExportableFields] at hex
    simp [snapLimitsFields, snapLimits_of_exportable D t hwf.1 hex.1, snapLimitsFields_of_exportable D ts hwf.2 hex.2]
end

/-! ### behaviour: `validate` sees a scaled limit only through its grid value

`ScaledInteger.validate` (repaired: the clamping band is measured from `low`, `high`) reads `self.min` / `self.max`
only as `self(self.min)` / `self(self.max)`.  So a tree and the tree with its scaled limits moved to the grid
validate, convert and import EVERY value alike - the round trip through the description changes no behaviour. -/

theorem scaledCall_of_snap {s x y : F} (hc : addZero x = x) (h : DType.snap s x = some y) (hf : isFinite y = true) :
    scaledCall s (.float x) = .ok y := by
  obtain ⟨k, yy, hk, hy, hm⟩ := snap_iff h
  unfold scaledCall
  simp only [PVal.toFloat?, hc, hk, hy, hm, hf, if_true]

/-- two pairs of limits with the same grid values give the same `validate` -/
theorem scaledValidate_limits_congr {s mn mx mn' mx' : F}
    (h1 : scaledCall s (.float mn') = scaledCall s (.float mn))
    (h2 : scaledCall s (.float mx') = scaledCall s (.float mx)) (v : PVal F) :
    scaledValidate s mn' mx' v = scaledValidate s mn mx v := by
  unfold scaledValidate
  rw [h1, h2]

theorem scaledValidate_snapped (hG : GridStable F) {s mn mx mn' mx' : F} (hs : isFinite s = true)
    (hp : DType.positive s = true) (cmn : addZero mn = mn) (cmx : addZero mx = mx)
    (h1 : DType.snap s mn = some mn') (h2 : DType.snap s mx = some mx')
    (f1 : isFinite mn' = true) (f2 : isFinite mx' = true) (v : PVal F) :
    scaledValidate s mn' mx' v = scaledValidate s mn mx v := by
  obtain ⟨a1, _, c1⟩ := snapped_limit hG hs hp h1 f1
  obtain ⟨a2, _, c2⟩ := snapped_limit hG hs hp h2 f2
  apply scaledValidate_limits_congr
  · rw [scaledCall_of_snap c1 a1 f1, scaledCall_of_snap cmn h1 f1]
  · rw [scaledCall_of_snap c2 a2 f2, scaledCall_of_snap cmx h2 f2]

theorem snapLimitsList_length : ∀ (es es' : List (DInfo F)), snapLimitsList es = some es' → es'.length = es.length
  | [], es', h => by simp only [snapLimitsList] at h; injection h with h; subst h; rfl
  | t :: ts, es', h => by
    simp only [snapLimitsList] at h
    split at h
    · rename_i t' ts' h1 h2
      injection h with h; subst h
      simp only [List.length_cons, snapLimitsList_length ts ts' h2]
    · cases h

theorem snapLimitsFields_names : ∀ (ms ms' : List (String × DInfo F)), snapLimitsFields ms = some ms' →
    ms'.map (·.1) = ms.map (·.1)
  | [], ms', h => by simp only [snapLimitsFields] at h; injection h with h; subst h; rfl
  | (k, t) :: ts, ms', h => by
    simp only [snapLimitsFields] at h
    split at h
    · rename_i t' ts' h1 h2
      injection h with h; subst h
      simp only [List.map_cons, snapLimitsFields_names ts ts' h2]
    · cases h

mutual
/-- `__call__` (mode `call`) and `validate` of the tree with snapped limits are those of the tree itself -/
theorem conv_snapLimits (hG : GridStable F) (D : Consts F) (m : Mode) :
    ∀ (dt dt' : DInfo F), dt.WF D → snapLimits dt = some dt' → ∀ (v : PVal F) (prev : Option (PVal F)),
      conv m dt'.erase v prev = conv m dt.erase v prev
  | .scaled s mn mx ar rr u f, dt', hwf, h, v, prev => by
    simp only [snapLimits] at h
    split at h
    · rename_i mn' mx' h1 h2
      split at h
      · rename_i hf
        injection h with h; subst h
        simp only [Bool.and_eq_true] at hf
        simp only [DInfo.WF, DType.WF] at hwf
        obtain ⟨⟨fs, ps, _, _, _, cmn, cmx, _⟩, _⟩ := hwf
        cases m
        · simp only [erase, conv]
        · simp only [erase, conv, scaledValidate_snapped hG fs ps cmn cmx h1 h2 hf.1 hf.2]
      · cases h
    · cases h
  | .array e a b, dt', hwf, h, v, prev => by
    simp only [snapLimits] at h
    split at h
    · rename_i e' he
      injection h with h; subst h
      simp only [DInfo.WF] at hwf
      have hc : conv m e'.erase = conv m e.erase := by
        funext v p; exact conv_snapLimits hG D m e e' hwf.1 he v p
      simp only [erase, conv, hc]
    · cases h
  | .tuple es, dt', hwf, h, v, prev => by
    simp only [snapLimits] at h
    split at h
    · rename_i es' he
      injection h with h; subst h
      simp only [DInfo.WF] at hwf
      have hc : convTuple m (eraseList es') = convTuple m (eraseList es) := by
        funext vs ps; exact convTuple_snapLimits hG D m es es' hwf.2 he vs ps
      simp only [erase, conv, hc, eraseList_length, snapLimitsList_length es es' he]
    · cases h
  | .struct ms opt c, dt', hwf, h, v, prev => by
    simp only [snapLimits] at h
    split at h
    · rename_i ms' he
      injection h with h; subst h
      simp only [DInfo.WF] at hwf
      have hc : convMember m (eraseFields ms') = convMember m (eraseFields ms) := by
        funext k v; exact convMember_snapLimits hG D m ms ms' hwf.2.2.2 he k v
      simp only [erase, conv, hc, eraseFields_names, snapLimitsFields_names ms ms' he]
    · cases h
  | .double .., dt', hwf, h, v, prev => by simp only [snapLimits] at h; injection h with h; subst h; rfl
  | .int .., dt', hwf, h, v, prev => by simp only [snapLimits] at h; injection h with h; subst h; rfl
  | .bool, dt', hwf, h, v, prev => by simp only [snapLimits] at h; injection h with h; subst h; rfl
  | .enum .., dt', hwf, h, v, prev => by simp only [snapLimits] at h; injection h with h; subst h; rfl
  | .string .., dt', hwf, h, v, prev => by simp only [snapLimits] at h; injection h with h; subst h; rfl
  | .blob .., dt', hwf, h, v, prev => by simp only [snapLimits] at h; injection h with h; subst h; rfl
theorem convTuple_snapLimits (hG : GridStable F) (D : Consts F) (m : Mode) :
    ∀ (es es' : List (DInfo F)), WFList D es → snapLimitsList es = some es' →
      ∀ (vs : List (PVal F)) (ps : Option (List (PVal F))),
        convTuple m (eraseList es') vs ps = convTuple m (eraseList es) vs ps
  | [], es', _, h, vs, ps => by simp only [snapLimitsList] at h; injection h with h; subst h; rfl
  | t :: ts, es', hwf, h, vs, ps => by
    simp only [snapLimitsList] at h
    split at h
    · rename_i t' ts' h1 h2
      injection h with h; subst h
      simp only [DInfo.WFList] at hwf
      have c1 := conv_snapLimits hG D m t t' hwf.1 h1
      have c2 := convTuple_snapLimits hG D m ts ts' hwf.2 h2
      cases vs with
      | nil => simp only [eraseList, convTuple]
      | cons v vs =>
        cases ps with
        | none => simp only [eraseList, convTuple, c1, c2]
        | some ps =>
          cases ps with
          | nil => simp only [eraseList, convTuple]
          | cons p ps => simp only [eraseList, convTuple, c1, c2]
    · cases h
theorem convMember_snapLimits (hG : GridStable F) (D : Consts F) (m : Mode) :
    ∀ (ms ms' : List (String × DInfo F)), WFFields D ms → snapLimitsFields ms = some ms' →
      ∀ (k : String) (v : PVal F), convMember m (eraseFields ms') k v = convMember m (eraseFields ms) k v
  | [], ms', _, h, k, v => by simp only [snapLimitsFields] at h; injection h with h; subst h; rfl
  | (k0, t) :: ts, ms', hwf, h, k, v => by
    simp only [snapLimitsFields] at h
    split at h
    · rename_i t' ts' h1 h2
      injection h with h; subst h
      simp only [DInfo.WFFields] at hwf
      simp only [eraseFields, convMember, conv_snapLimits hG D m t t' hwf.1 h1,
        convMember_snapLimits hG D m ts ts' hwf.2 h2]
    · cases h
end

mutual
/-- `import_value` does not look at the limits at all -/
theorem import_snapLimits : ∀ (dt dt' : DInfo F), snapLimits dt = some dt' → ∀ j : JVal F,
    importValue dt'.erase j = importValue dt.erase j
  | .scaled s mn mx ar rr u f, dt', h, j => by
    simp only [snapLimits] at h
    split at h
    · split at h
      · injection h with h; subst h; simp only [erase, importValue]
      · cases h
    · cases h
  | .array e a b, dt', h, j => by
    simp only [snapLimits] at h
    split at h
    · rename_i e' he
      injection h with h; subst h
      have hc : importValue e'.erase = importValue e.erase := by
        funext j; exact import_snapLimits e e' he j
      simp only [erase, importValue, hc]
    · cases h
  | .tuple es, dt', h, j => by
    simp only [snapLimits] at h
    split at h
    · rename_i es' he
      injection h with h; subst h
      have hc : importTuple (eraseList es') = importTuple (eraseList es) := by
        funext js; exact importTuple_snapLimits es es' he js
      simp only [erase, importValue, hc, eraseList_length, snapLimitsList_length es es' he]
    · cases h
  | .struct ms opt c, dt', h, j => by
    simp only [snapLimits] at h
    split at h
    · rename_i ms' he
      injection h with h; subst h
      have hc : importMember (eraseFields ms') = importMember (eraseFields ms) := by
        funext k j; exact importMember_snapLimits ms ms' he k j
      simp only [erase, importValue, hc, eraseFields_names, snapLimitsFields_names ms ms' he]
    · cases h
  | .double .., dt', h, j => by simp only [snapLimits] at h; injection h with h; subst h; rfl
  | .int .., dt', h, j => by simp only [snapLimits] at h; injection h with h; subst h; rfl
  | .bool, dt', h, j => by simp only [snapLimits] at h; injection h with h; subst h; rfl
  | .enum .., dt', h, j => by simp only [snapLimits] at h; injection h with h; subst h; rfl
  | .string .., dt', h, j => by simp only [snapLimits] at h; injection h with h; subst h; rfl
  | .blob .., dt', h, j => by simp only [snapLimits] at h; injection h with h; subst h; rfl
theorem importTuple_snapLimits : ∀ (es es' : List (DInfo F)), snapLimitsList es = some es' → ∀ js : List (JVal F),
    importTuple (eraseList es') js = importTuple (eraseList es) js
  | [], es', h, js => by simp only [snapLimitsList] at h; injection h with h; subst h; rfl
  | t :: ts, es', h, js => by
    simp only [snapLimitsList] at h
    split at h
    · rename_i t' ts' h1 h2
      injection h with h; subst h
      cases js with
      | nil => simp only [eraseList, importTuple]
      | cons j js =>
        simp only [eraseList, importTuple, import_snapLimits t t' h1 j, importTuple_snapLimits ts ts' h2 js]
    · cases h
theorem importMember_snapLimits : ∀ (ms ms' : List (String × DInfo F)), snapLimitsFields ms = some ms' →
    ∀ (k : String) (j : JVal F), importMember (eraseFields ms') k j = importMember (eraseFields ms) k j
  | [], ms', h, k, j => by simp only [snapLimitsFields] at h; injection h with h; subst h; rfl
  | (k0, t) :: ts, ms', h, k, j => by
    simp only [snapLimitsFields] at h
    split at h
    · rename_i t' ts' h1 h2
      injection h with h; subst h
      simp only [eraseFields, importMember, import_snapLimits t t' h1 j, importMember_snapLimits ts ts' h2 k j]
    · cases h
end

/-! ### the exact carrier -/

theorem rat_gridStable : GridStable Rat := by
  intro s x y k _ hp _ hy _
  have hs : s ≠ 0 := by
    intro e
    subst e
    revert hp
    decide +kernel
  have hy' : y = (k : Rat) := by
    simp only [FloatOps.ofInt, Option.some.injEq] at hy
    exact hy.symm
  subst hy'
  simp only [DType.gridIndex, FloatOps.round, FloatOps.div, FloatOps.mul]
  rw [Rat.mul_div_cancel hs, Frappy.Lemmas.C01.rat_round_intCast]

end Frappy.Lemmas.C03Datainfo
