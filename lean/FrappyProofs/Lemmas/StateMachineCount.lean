import FrappyModel.Timed.StateMachine
/-
Counting events of one kind in the history: every definition of the model adds a known number.
`w` is the weight of a state-function call for the predicate (1 for "is a call", 0 for predicates that are
false on calls), so the same lemmas give the call bound and "no event of kind … is ever produced".
-/
namespace Frappy.SM

def cnt (p : Ev → Bool) (σ : SM) : Nat := (σ.trace.filter p).length

/-- `p` is false on everything the model logs except (possibly) calls of state functions -/
structure OnlyCalls (p : Ev → Bool) (w : Nat) : Prop where
  reqStart : p .reqStart = false
  reqStop : p .reqStop = false
  reqDone : ∀ b, p (.reqDone b) = false
  post : ∀ r, p (.post r) = false
  take : p .take = false
  cycleBegin : p .cycleBegin = false
  cycleEnd : ∀ a b, p (.cycleEnd a b) = false
  cleanup : ∀ c, p (.cleanup c) = false
  ret : ∀ r f, p (.ret r f) = false
  interrupt : ∀ k, p (.interrupt k) = false
  enter : ∀ s, p (.enter s) = false
  pickup : ∀ s c a, p (.pickup s c a) = false
  status : ∀ s, p (.status s) = false
  call : ∀ s i, (if p (.call s i) then 1 else 0) ≤ w

def isCall : Ev → Bool
  | .call _ _ => true
  | _ => false

def isRaised : Ev → Bool
  | .raised => true
  | _ => false

theorem onlyCalls_isCall : OnlyCalls isCall 1 :=
  ⟨rfl, rfl, fun _ => rfl, fun _ => rfl, rfl, rfl, fun _ _ => rfl, fun _ => rfl, fun _ _ => rfl, fun _ => rfl, fun _ => rfl,
   fun _ _ _ => rfl, fun _ => rfl, fun _ _ => by simp [isCall]⟩

theorem onlyCalls_isRaised : OnlyCalls isRaised 0 :=
  ⟨rfl, rfl, fun _ => rfl, fun _ => rfl, rfl, rfl, fun _ _ => rfl, fun _ => rfl, fun _ _ => rfl, fun _ => rfl, fun _ => rfl,
   fun _ _ _ => rfl, fun _ => rfl, fun _ _ => by simp [isRaised]⟩

variable {p : Ev → Bool} {w : Nat}

@[simp] theorem cnt_log (σ : SM) (e : Ev) : cnt p (σ.log e) = cnt p σ + (if p e then 1 else 0) := by
  unfold cnt SM.log; simp only [List.filter_append, List.length_append]
  cases h : p e <;> simp [List.filter, h]

theorem cnt_post (hp : OnlyCalls p w) (σ : SM) (r : Req) : cnt p (post σ r) = cnt p σ := by
  unfold post; simp [hp.post]; rfl

theorem cnt_startMachine (hp : OnlyCalls p w) (cfg : Cfg) (σ : SM) (s cl kw ovr) :
    cnt p (startMachine cfg σ s cl kw ovr) = cnt p σ := by
  unfold startMachine startMachineB startMachineA
  simp only [cnt_log, hp.status, hp.reqDone, cnt_post hp]
  show cnt p (σ.log .reqStart) + _ + _ = _
  simp [hp.reqStart]

theorem cnt_stopMachine (hp : OnlyCalls p w) (cfg : Cfg) (σ : SM) (st) :
    cnt p (stopMachine cfg σ st) = cnt p σ := by
  unfold stopMachine
  simp only
  split
  · simp [hp.reqStop, hp.reqDone]
  · simp only [cnt_log, hp.status, hp.reqDone]
    show cnt p (post { σ.log .reqStop with idleStatus := st } (.stop st)) + _ + _ = _
    rw [cnt_post hp]
    show cnt p (σ.log .reqStop) + _ + _ = _
    simp [hp.reqStop]

theorem cnt_request (hp : OnlyCalls p w) (cfg : Cfg) (σ : SM) (r : Req) : cnt p (request cfg σ r) = cnt p σ := by
  unfold request
  split
  · cases r <;> simp [cnt_startMachine hp, cnt_stopMachine hp]
  · exact cnt_post hp σ r

theorem cnt_requests (hp : OnlyCalls p w) (cfg : Cfg) (rs : List Req) (σ : SM) : cnt p (requests cfg σ rs) = cnt p σ := by
  unfold requests
  induction rs generalizing σ with
  | nil => rfl
  | cons r rs ih => simp only [List.foldl_cons]; rw [ih, cnt_request hp]

theorem cnt_absorb (hp : OnlyCalls p w) (cfg : Cfg) (P : Prog) (σ : SM) : cnt p (absorb cfg P σ) = cnt p σ := by
  unfold absorb; rw [cnt_requests hp]; rfl

theorem cnt_hook (hp : OnlyCalls p w) (cfg : Cfg) (σ : SM) (ns) : cnt p (hook cfg σ ns) = cnt p σ := by
  unfold hook
  simp only
  split
  · simp only [cnt_log, hp.status]
    show cnt p (σ.log (.enter ns)) + _ = _
    simp [hp.enter]
  · simp [hp.enter]

theorem cnt_newState (hp : OnlyCalls p w) (cfg : Cfg) (P : Prog) (σ : SM) (ns) : cnt p (newState cfg P σ ns) = cnt p σ := by
  unfold newState
  show cnt p (hook cfg (absorb cfg P σ) ns) = _
  rw [cnt_hook hp, cnt_absorb hp]

theorem cnt_applyFin (σ : SM) (f) : cnt p (applyFin σ f) = cnt p σ := by
  unfold applyFin; split <;> rfl

theorem cnt_applyOutcome (hp : OnlyCalls p w) (cfg : Cfg) (σ : SM) (o : Outcome) : cnt p (applyOutcome cfg σ o) = cnt p σ := by
  unfold applyOutcome; simp [hp.ret, cnt_applyFin, cnt_requests hp]

theorem cnt_setReason (σ : SM) (k) : cnt p (setReason σ k) = cnt p σ := by
  unfold setReason; split <;> rfl

theorem cnt_doCleanup (hp : OnlyCalls p w) (cfg : Cfg) (P : Prog) (σ : SM) (k) :
    cnt p (doCleanup cfg P σ k).σ = cnt p σ := by
  unfold doCleanup
  simp only
  split
  · simp [cnt_setReason, hp.interrupt]
  · simp only [cnt_applyOutcome hp, cnt_log, hp.cleanup]
    show cnt p (setReason (σ.log (.interrupt k)) k) + _ = _
    simp [cnt_setReason, hp.interrupt]

/-- the machine inside a `Step` -/
def Step.sm : Step → SM
  | .ret σ => σ
  | .brk σ => σ
  | .cont σ => σ

@[simp] theorem Step.sm_ret (σ : SM) : (Step.ret σ).sm = σ := rfl
@[simp] theorem Step.sm_brk (σ : SM) : (Step.brk σ).sm = σ := rfl
@[simp] theorem Step.sm_cont (σ : SM) : (Step.cont σ).sm = σ := rfl

theorem cnt_afterCleanup (hp : OnlyCalls p w) (cfg : Cfg) (P : Prog) (r : CRes) :
    cnt p (afterCleanup cfg P r).sm = cnt p r.σ := by
  unfold afterCleanup
  split <;> simp [cnt_newState hp]

theorem cnt_clearInit (σ : SM) : cnt p (clearInit σ) = cnt p σ := rfl

theorem cnt_callState (hp : OnlyCalls p w) (cfg : Cfg) (P : Prog) (σ : SM) (s) :
    cnt p (callState cfg P σ s).sm ≤ cnt p σ + w := by
  have hc := hp.call s σ.init
  unfold callState
  simp only
  split <;> simp [cnt_newState hp, cnt_clearInit, cnt_applyOutcome hp, cnt_afterCleanup hp, cnt_doCleanup hp] <;> omega

theorem cnt_interruptArm (hp : OnlyCalls p w) (cfg : Cfg) (P : Prog) (σ : SM) :
    cnt p (interruptArm cfg P σ).sm = cnt p σ := by
  unfold interruptArm
  simp only
  split <;> simp [cnt_afterCleanup hp, cnt_doCleanup hp, cnt_absorb hp]

theorem cnt_stepOnce (hp : OnlyCalls p w) (cfg : Cfg) (P : Prog) (σ : SM) :
    cnt p (stepOnce cfg P σ).sm ≤ cnt p σ + w := by
  unfold stepOnce
  simp only
  split
  · simp [cnt_absorb hp]
  · split
    · rw [cnt_interruptArm hp, cnt_absorb hp]; omega
    · have := cnt_callState hp cfg P (absorb cfg P σ) ‹_›
      rw [cnt_absorb hp] at this; exact this

def Inner.sm : Inner → SM
  | .ret σ => σ
  | .brk σ => σ
  | .exhausted σ => σ

@[simp] theorem Inner.sm_ret (σ : SM) : (Inner.ret σ).sm = σ := rfl
@[simp] theorem Inner.sm_brk (σ : SM) : (Inner.brk σ).sm = σ := rfl
@[simp] theorem Inner.sm_exhausted (σ : SM) : (Inner.exhausted σ).sm = σ := rfl

theorem cnt_inner (hp : OnlyCalls p w) (cfg : Cfg) (P : Prog) (n : Nat) (σ : SM) :
    cnt p (inner cfg P n σ).sm ≤ cnt p σ + n * w := by
  induction n generalizing σ with
  | zero => simp [inner]
  | succ n ih =>
    have h1 := cnt_stepOnce hp cfg P σ
    unfold inner
    split
    · rename_i h; rw [h] at h1; simp at h1; simp; rw [Nat.add_mul]; omega
    · rename_i h; rw [h] at h1; simp at h1; simp; rw [Nat.add_mul]; omega
    · rename_i σ' h; rw [h] at h1; simp at h1
      have := ih σ'; rw [Nat.add_mul]; omega

theorem cnt_takeTask (hp : OnlyCalls p w) (cfg : Cfg) (P : Prog) (σ : SM) : cnt p (takeTask cfg P σ) = cnt p σ := by
  unfold takeTask
  split
  · rfl
  · simp only
    split
    · simp [hp.take]; rfl
    · simp only [cnt_log, hp.pickup]
      show cnt p (newState cfg P (SM.log { σ with nextTask := none, reason := none } .take) _) + _ = _
      rw [cnt_newState hp]
      simp [hp.take]; rfl

theorem cnt_pickup (hp : OnlyCalls p w) (cfg : Cfg) (P : Prog) (σ : SM) : cnt p (pickup cfg P σ) = cnt p σ := by
  unfold pickup
  simp only
  split <;> simp [cnt_takeTask hp, cnt_absorb hp]

theorem cnt_finishRun (hp : OnlyCalls p w) (cfg : Cfg) (P : Prog) (σ : SM) : cnt p (finishRun cfg P σ) = cnt p σ :=
  cnt_newState hp cfg P σ none

theorem cnt_chainLimit (hp : OnlyCalls p w) (cfg : Cfg) (P : Prog) (σ : SM) : cnt p (chainLimit cfg P σ) = cnt p σ := by
  unfold chainLimit
  simp only
  split <;> simp [cnt_newState hp, cnt_pickup hp, cnt_finishRun hp, cnt_doCleanup hp]

def Outer.sm : Outer → SM
  | .ret σ => σ
  | .next σ => σ

@[simp] theorem Outer.sm_ret (σ : SM) : (Outer.ret σ).sm = σ := rfl
@[simp] theorem Outer.sm_next (σ : SM) : (Outer.next σ).sm = σ := rfl

theorem cnt_outerBody (hp : OnlyCalls p w) (cfg : Cfg) (P : Prog) (σ : SM) :
    cnt p (outerBody cfg P σ).sm ≤ cnt p σ + cfg.maxloops * w := by
  unfold outerBody
  split
  · simp [cnt_pickup hp]
  · have h1 := cnt_inner hp cfg P cfg.maxloops σ
    split
    · rename_i h; rw [h] at h1; simpa using h1
    · rename_i h; rw [h] at h1; simp at h1; simp [cnt_pickup hp, cnt_finishRun hp]; exact h1
    · rename_i h; rw [h] at h1; simp at h1; simp [cnt_chainLimit hp]; exact h1

theorem cnt_outer (hp : OnlyCalls p w) (cfg : Cfg) (P : Prog) (n : Nat) (σ : SM) :
    cnt p (outer cfg P n σ) ≤ cnt p σ + n * (cfg.maxloops * w) := by
  induction n generalizing σ with
  | zero => simp [outer]
  | succ n ih =>
    have h1 := cnt_outerBody hp cfg P σ
    unfold outer
    split
    · rename_i h; rw [h] at h1; simp at h1; rw [Nat.add_mul]; omega
    · rename_i σ' h; rw [h] at h1; simp at h1
      have := ih σ'; rw [Nat.add_mul]; omega

theorem cnt_cycle (hp : OnlyCalls p w) (cfg : Cfg) (P : Prog) (σ : SM) :
    cnt p (cycle cfg P σ) ≤ cnt p σ + 2 * (cfg.maxloops * w) := by
  unfold cycle endCycle
  have := cnt_outer hp cfg P 2 (σ.log .cycleBegin)
  simp [hp.cycleEnd, hp.cycleBegin] at this ⊢
  exact this

theorem cnt_cycleMachine (hp : OnlyCalls p w) (cfg : Cfg) (P : Prog) (σ : SM) :
    cnt p (cycleMachine cfg P σ) ≤ cnt p σ + 2 * (cfg.maxloops * w) := by
  unfold cycleMachine
  simp only
  split <;> simp [hp.status, cnt_cycle hp]

theorem cnt_stepOp (hp : OnlyCalls p w) (cfg : Cfg) (P : Prog) (σ : SM) (op : Op) :
    cnt p (stepOp cfg P σ op) ≤ cnt p σ + 2 * (cfg.maxloops * w) := by
  cases op with
  | cycle => exact cnt_cycleMachine hp cfg P σ
  | req r => simp [stepOp, cnt_request hp]

theorem cnt_run_zero (hp : OnlyCalls p 0) (cfg : Cfg) (P : Prog) (ops : List Op) (σ : SM) :
    cnt p (run cfg P σ ops) ≤ cnt p σ := by
  unfold run
  induction ops generalizing σ with
  | nil => simp
  | cons op ops ih =>
    simp only [List.foldl_cons]
    have h1 := cnt_stepOp hp cfg P σ op
    have := ih (stepOp cfg P σ op)
    omega

end Frappy.SM
